(* C04 — backends reject what they cannot emulate instead of returning wrong results.
   Only final statements.  `accepts b f` = the model of "Backend(seq, config).run() returns
   Results" (Model/Accepts.v over the guards regenerated from emu_sv/sv_backend_impl.py and
   emu_mps/mps_backend_impl.py); `supported b f` = the specification table. *)
From Coq Require Import ZArith Bool List String.
From EV Require Import Base.Arith Gen.Dispatch Gen.SvGuards Model.DispatchModel Model.Accepts Proofs.AcceptsProofs.

(* Whole finite feature domain (every value of `feat`, 12288 per backend): if the closed boolean
   table check holds for backend b then every accepted feature combination is supported.  ./check
   discharges the premise with the Coq VM on the model generated from the current source and proves
   the unconditional `forall f, accepts b f = true -> supported b f = true` (obligations
   `closed:C04_accept_implies_supported_SV/MPS`); a false premise is a violation, reported with the
   concrete sequence found on the real code. *)
Theorem C04_accept_implies_supported_if_table : forall b, table_ok_for b = true ->
  forall f, accepts b f = true -> supported b f = true.
Proof. exact accept_supported_for. Qed.

Theorem C04_accept_implies_supported_if_table_all : table_ok = true ->
  forall b f, accepts b f = true -> supported b f = true.
Proof. exact accept_supported. Qed.

(* The enumerator really covers every feature record (the bound is the whole domain). *)
Theorem C04_enumeration_complete : forall P, all_feat P = true -> forall f, P f = true.
Proof. exact all_feat_spec. Qed.

(* Unconditional: a sequence whose pulser Hamiltonian involves the digital basis (alone, or together
   with the Rydberg basis through a Raman pulse with non-zero amplitude OR non-zero detuning) is
   never accepted by either backend. *)
Theorem C04_foreign_basis_rejected : forall b f,
  (f_chan f = ChDig \/ f_chan f = ChBoth \/ f_chan f = ChRydDet) -> accepts b f = false.
Proof. exact foreign_basis_rejected. Qed.

(* Unconditional: hyperfine dephasing is refused with NotImplementedError by both backends. *)
Theorem C04_hyperfine_rejected : forall b f, f_hyper f = true ->
  err_class (decide b f) = Some exc_NotImplementedError.
Proof. exact hyperfine_rejected. Qed.

(* Unconditional: effective-noise operators whose size is not the number of levels are refused. *)
Theorem C04_eff_shape_rejected : forall b f,
  forallb (Z.eqb (dim f)) (eff_shapes f) = false -> accepts b f = false.
Proof. exact eff_shape_rejected. Qed.

(* The specification accepts and rejects something (premises satisfiable, not vacuous). *)
Example C04_supported_examples :
  supported SV (mkFeat ChRyd false true false false false Eff2 false true false true) = true /\
  supported MPS (mkFeat ChXY true false false false false Eff3 false false false true) = true /\
  supported SV (mkFeat ChXY false false false false false EffNone false false false false) = false.
Proof. exact supported_examples. Qed.
