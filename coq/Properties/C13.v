(* C13 — every reported observable equals its definition on the current state.  Only final statements.
   State vectors / density matrices: [o : Kops] is ANY coefficient structure with [Klaws o] (commutative ring with
   involution; the complex numbers CK are an instance).  Qubit 0 is the most significant bit,
   bit N q k = (k / 2^(N-q-1)) mod 2, nrm2 x = conj x * x = |x|^2, kre z = (z + conj z)/2 = z.real.
   MPS: [Ko : RingOps K] is any commutative ring; amp Ts b is the product of the bond matrices selected by the
   physical indices b (the amplitude <b|psi>, or the element <out|O|in> with b_q = out_q * d + in_q).
   Model functions: Model/SvObs.v, Model/MpsPad.v, tied to /repo by the exact correspondences of tools/props/c13.py. *)
From Coq Require Import List Arith Bool Reals.
From EV Require Import Model.SvBase Model.SvHam Model.SvState Model.SvObs Model.TransferMat Model.MPSAlg Model.MpsPad
  Proofs.SvBaseProofs Proofs.SvComplexInstance Proofs.SvObsProofs Proofs.SvObsRanges Proofs.MpsPadProofs
  Model.MpsObs Proofs.MPSInner Proofs.MpsObsProofs.
Import ListNotations.
Local Open Scope nat_scope.

(* qubit_occupation_sv_impl, every N, every qubit i: the squared norm of the slice `view(2**i, 2, -1)[:, 1]` is the
   Born sum  sum_{k : bit_i k = 1} |psi_k|^2. *)
Theorem C13_sv_occupation_spec : forall (o : Kops), Klaws o -> forall N (psi : list o) i,
  length psi = 2 ^ N -> i < N ->
  get (sv_occupation o N psi) i = ksumn (2 ^ N) (fun k => kif (bit N i k =? 1) (nrm2 (get psi k))).
Proof. intros o _. exact (sv_occupation_spec o). Qed.

(* ... and that Born sum is the expectation value <psi| 1 (x) .. n_i .. (x) 1 |psi> of the projector n = |r><r|
   placed on qubit i (dense definition through Proofs/SvBaseProofs.site). *)
Theorem C13_occupation_is_expectation : forall (o : Kops), Klaws o -> forall N (psi : list o) i, i < N ->
  ksumn (2 ^ N) (fun k => SvBase.kmul o (SvBase.kconj o (get psi k))
                               (ksumn (2 ^ N) (fun k' => SvBase.kmul o (site o N i (nproj o) k k') (get psi k'))))
  = ksumn (2 ^ N) (fun k => kif (bit N i k =? 1) (nrm2 (get psi k))).
Proof. exact occupation_is_expectation. Qed.

(* correlation_matrix_sv_impl, every N, every entry (i,j) (row-major i*N+j):
   sum over the basis states with bit_i = bit_j = 1 of |psi_k|^2. *)
Theorem C13_sv_correlation_spec : forall (o : Kops), Klaws o -> forall N (psi : list o) i j,
  length psi = 2 ^ N -> i < N -> j < N ->
  get (sv_correlation o N psi) (i * N + j) =
  ksumn (2 ^ N) (fun k => kif ((bit N i k =? 1) && (bit N j k =? 1)) (nrm2 (get psi k))).
Proof. intros o _. exact (sv_correlation_spec o). Qed.

(* the correlation matrix is symmetric and its diagonal is the occupation. *)
Theorem C13_sv_correlation_symmetric_diag : forall (o : Kops), Klaws o -> forall N (psi : list o) i j,
  length psi = 2 ^ N -> i < N -> j < N ->
  get (sv_correlation o N psi) (i * N + j) = get (sv_correlation o N psi) (j * N + i) /\
  get (sv_correlation o N psi) (i * N + i) = get (sv_occupation o N psi) i.
Proof.
  intros o _ N psi i j Hl Hi Hj. split.
  - rewrite !(sv_correlation_spec o) by assumption. apply (corr_def_sym o).
  - rewrite (sv_correlation_spec o), (sv_occupation_spec o) by assumption. apply (corr_def_diag o).
Qed.

(* density matrices: the same with rho_kk in place of |psi_k|^2 (then `.real`). *)
Theorem C13_dm_occupation_spec : forall (o : Kops), Klaws o -> forall N (rho : list o) i, i < N ->
  get (dm_occupation o N rho) i =
  kre (ksumn (2 ^ N) (fun k => kif (bit N i k =? 1) (get rho (k * 2 ^ N + k)))).
Proof. intros o _. exact (dm_occupation_spec o). Qed.

Theorem C13_dm_correlation_spec : forall (o : Kops), Klaws o -> forall N (rho : list o) i j, i < N -> j < N ->
  get (dm_correlation o N rho) (i * N + j) =
  kre (ksumn (2 ^ N) (fun k => kif ((bit N i k =? 1) && (bit N j k =? 1)) (get rho (k * 2 ^ N + k)))).
Proof. intros o _. exact (dm_correlation_spec o). Qed.

(* energy moments, state vector, Hermitian H (C06 proves the Hamiltonian is): the reported energy is <psi,H psi>,
   the second moment  <H psi,H psi>.real  is <psi, H (H psi)>, and the variance is <H^2> - <H>^2. *)
Theorem C13_sv_energy_moments : forall (o : Kops), Klaws o -> forall D (H : mfun o) (psi : list o),
  hermitian o D H -> length psi = D ->
  sv_energy o D H psi = vdot o psi (happly o D H psi) /\
  sv_second_moment o D H psi = vdot o psi (happly o D H (happly o D H psi)) /\
  sv_variance o D H psi =
    SvBase.ksub o (vdot o psi (happly o D H (happly o D H psi)))
           (SvBase.kmul o (vdot o psi (happly o D H psi)) (vdot o psi (happly o D H psi))).
Proof.
  intros o laws D H psi Hh Hl. repeat split.
  - apply (sv_energy_spec o laws D H Hh psi Hl).
  - apply (sv_second_moment_spec o laws D H Hh psi Hl).
  - apply (sv_variance_spec o laws D H Hh psi Hl).
Qed.

(* for a normalised state the variance is || (H - <H>) psi ||^2, a sum of squared moduli. *)
Theorem C13_sv_variance_centered : forall (o : Kops), Klaws o -> forall D (H : mfun o) (psi : list o),
  hermitian o D H -> length psi = D -> vdot o psi psi = SvBase.k1 o ->
  sv_variance o D H psi =
  ksumn D (fun k => nrm2 (SvBase.ksub o (get (happly o D H psi) k)
                                 (SvBase.kmul o (vdot o psi (happly o D H psi)) (get psi k)))).
Proof. intros o laws D H psi Hh Hl Hn. apply (sv_variance_centered o laws D H Hh psi Hl Hn). Qed.

(* density matrix: expect(DensityMatrix(h_eff(rho))) = Re tr(H (H rho)) = Re tr(rho H^2), every D, every H. *)
Theorem C13_dm_second_moment_spec : forall (o : Kops), Klaws o -> forall D (H : mfun o) (rho : list o),
  dm_second_moment o D H rho =
  kre (ksumn D (fun a => ksumn D (fun b => SvBase.kmul o (get rho (a * D + b)) (ksumn D (fun m => SvBase.kmul o (H b m) (H m a)))))) /\
  dm_variance o D H rho = SvBase.ksub o (dm_second_moment o D H rho) (SvBase.kmul o (dm_energy o D H rho) (dm_energy o D H rho)).
Proof. intros o laws D H rho. split; [apply (dm_second_moment_spec o laws) | reflexivity]. Qed.

(* physical ranges over the complex numbers: for a normalised state (resp. a density matrix with non-negative
   diagonal and unit trace) every occupation and correlation lies in [0,1]; the variance of a Hermitian H in a
   normalised state is >= 0.  (Premises satisfiable: Proofs/SvObsRanges.ranges_premises_satisfiable.) *)
Theorem C13_ranges_sv : forall N (psi : list CK) i j, length psi = 2 ^ N -> i < N -> j < N ->
  vdot CK psi psi = SvBase.k1 CK ->
  (0 <= fst (get (sv_occupation CK N psi) i) <= 1)%R /\
  (0 <= fst (get (sv_correlation CK N psi) (i * N + j)) <= 1)%R.
Proof.
  intros N psi i j Hl Hi Hj Hn. split.
  - apply sv_occupation_range; assumption.
  - apply sv_correlation_range; assumption.
Qed.

Theorem C13_ranges_dm : forall N (rho : list CK) i j, i < N -> j < N ->
  (forall k, k < 2 ^ N -> (0 <= fst (get rho (k * 2 ^ N + k)))%R) ->
  fst (trace CK (2 ^ N) rho) = 1%R ->
  (0 <= fst (get (dm_occupation CK N rho) i) <= 1)%R /\
  (0 <= fst (get (dm_correlation CK N rho) (i * N + j)) <= 1)%R.
Proof.
  intros N rho i j Hi Hj Hp Ht. split.
  - apply dm_occupation_range; assumption.
  - apply dm_correlation_range; assumption.
Qed.

Theorem C13_variance_nonneg : forall D (H : mfun CK) (psi : list CK),
  hermitian CK D H -> length psi = D -> vdot CK psi psi = SvBase.k1 CK ->
  (0 <= fst (sv_variance CK D H psi))%R.
Proof. exact sv_variance_nonneg. Qed.

(* dark-atom padding of the state (extended_mps_factors), every mask (leading, trailing, adjacent dark atoms),
   every chain: the amplitude of an index string b of the padded chain is the amplitude of b restricted to the
   well-prepared sites when every dark site carries 0, and 0 otherwise  (psi (x) |g..g> on the dark atoms). *)
Theorem C13_extended_mps_amp : forall (K : Type) (Ko : RingOps K),
  ring_theory (TransferMat.k0 Ko) (TransferMat.k1 Ko) (TransferMat.kadd Ko) (TransferMat.kmul Ko) (TransferMat.ksub Ko) (TransferMat.kopp Ko) (@eq K) ->
  forall (mask : list bool) (fs Ts : list (T3 K)) (b : list nat) (x : K),
  extended_mps_factors Ko fs mask = Some Ts ->
  length b = length mask ->
  dark_inrange 2 mask b = true ->
  amp Ko fs (restrict mask b) = Some x ->
  amp Ko Ts b = Some (if dark_ok keep_mps mask b then x else TransferMat.k0 Ko).
Proof. intros K Ko Kring mask fs Ts b x. apply (pad_amp K Ko Kring). Qed.

(* dark-atom padding of the Hamiltonian (extended_mpo_factors): the element <out|O'|in> (b_q = out_q*2 + in_q) is the
   element of O on the well-prepared sites when out_q = in_q on every dark site, and 0 otherwise  (O (x) identity). *)
Theorem C13_extended_mpo_elem : forall (K : Type) (Ko : RingOps K),
  ring_theory (TransferMat.k0 Ko) (TransferMat.k1 Ko) (TransferMat.kadd Ko) (TransferMat.kmul Ko) (TransferMat.ksub Ko) (TransferMat.kopp Ko) (@eq K) ->
  forall (mask : list bool) (fs Ts : list (T3 K)) (b : list nat) (x : K),
  extended_mpo_factors Ko fs mask = Some Ts ->
  length b = length mask ->
  dark_inrange 4 mask b = true ->
  amp Ko fs (restrict mask b) = Some x ->
  amp Ko Ts b = Some (if dark_ok keep_mpo mask b then x else TransferMat.k0 Ko).
Proof. intros K Ko Kring mask fs Ts b x. apply (pad_amp K Ko Kring). Qed.

(* the same for ANY padding dimension p and kept-index predicate (covers a dimension-aware padding, e.g. p = 3,
   resp. p = 9 with the identity on all three levels: Model/MpsPad.extended_mps_factors_v2 / _mpo_factors_v2). *)
Theorem C13_padding_amp_generic : forall (K : Type) (Ko : RingOps K),
  ring_theory (TransferMat.k0 Ko) (TransferMat.k1 Ko) (TransferMat.kadd Ko) (TransferMat.kmul Ko)
              (TransferMat.ksub Ko) (TransferMat.kopp Ko) (@eq K) ->
  forall (p : nat) (keep : nat -> bool) (mask : list bool) (fs Ts : list (T3 K)) (b : list nat) (x : K),
  pad_factors Ko p keep fs mask = Some Ts ->
  length b = length mask ->
  dark_inrange p mask b = true ->
  amp Ko fs (restrict mask b) = Some x ->
  amp Ko Ts b = Some (if dark_ok keep mask b then x else TransferMat.k0 Ko).
Proof. intros K Ko Kring p keep mask fs Ts b x. apply (pad_amp K Ko Kring). Qed.

(* qubit chains stay valid MPS / MPO factor lists: every padded factor has the physical dimension of the state. *)
Theorem C13_qubit_padding_uniform : forall (K : Type) (Ko : RingOps K) (fs Ts : list (T3 K)) (mask : list bool),
  (uniform_dim 2 fs = true -> extended_mps_factors Ko fs mask = Some Ts -> uniform_dim 2 Ts = true) /\
  (uniform_dim 4 fs = true -> extended_mpo_factors Ko fs mask = Some Ts -> uniform_dim 4 Ts = true).
Proof. intros K Ko fs Ts mask. split; apply (pad_factors_uniform K Ko). Qed.

(* FINDING F-14 (the model, faithful to the code, violates the property for qutrits): a chain of physical
   dimension 3 (leakage level) with a dark atom is padded with a factor of physical dimension 2; the padded list is
   not a dimension-3 chain, and the MPS constructor in fill_results raises AssertionError (reproduced on the real
   code by tools/props/c13.py, witness corpus/C13.json). *)
Theorem C13_qutrit_padding_refuted :
  exists (fs Ts : list (T3 GI)) (mask : list bool),
    extended_mps_factors gi_ops fs mask = Some Ts /\ uniform_dim 3 fs = true /\ uniform_dim 3 Ts = false.
Proof.
  destruct qutrit_padding_not_uniform as (Ts & H1 & H2 & H3).
  exists ex_qutrit, Ts, [true; true; false]. auto.
Qed.

(* the padding is defined (no assertion / IndexError) exactly when there is one factor per True entry of the mask,
   and then has one factor per atom. *)
Theorem C13_extended_factors_defined : forall (K : Type) (Ko : RingOps K) (fs : list (T3 K)) (mask : list bool),
  (exists Ts, extended_mps_factors Ko fs mask = Some Ts /\ length Ts = length mask) <->
  length fs = count_true mask.
Proof. intros K Ko fs mask. apply (pad_factors_defined K Ko). Qed.

(* get_extended_site_index: the returned position e is the position of the k-th (0-based) True entry of the mask:
   mask[e] is True and exactly k True entries precede it (such an e is unique: kth_true_unique); the ValueError
   branch is taken exactly when the mask has at most k True entries. *)
Theorem C13_extended_index_spec : forall (mask : list bool) (k : nat),
  (forall e, ext_index mask k = Some e ->
             e < length mask /\ nth e mask false = true /\ count_true (firstn e mask) = k) /\
  (ext_index mask k = None <-> count_true mask <= k).
Proof. intros mask k. split; [intros e; apply ext_index_sound | apply ext_index_none]. Qed.

(* MPS.expect_batch (Model/MpsObs.expect_batch: both sweeps away from the declared orthogonality centre, torch.linalg.qr
   an oracle [qr] of which the code keeps only R), every chain whose consecutive bonds fit, every centre, every batch of
   one-site operators, every commutative ring with involution: the table T[q][i] depends on the R factors only through
   R^dagger R.  Any two oracles that preserve the Gram matrix of their argument (what M = Q R with Q^dagger Q = 1
   guarantees, whatever the sign/phase/pivoting conventions of LAPACK) give the same table -- in particular the table
   of a real QR equals the table obtained with R = M, i.e. by carrying the whole contracted block along without
   factorising.  (Premises satisfiable with two different oracles: MpsObsProofs.expect_batch_gauge_example.) *)
Theorem C13_mps_expect_batch_gauge : forall (K : Type) (Ko : RingOps K),
  ring_theory (TransferMat.k0 Ko) (TransferMat.k1 Ko) (TransferMat.kadd Ko) (TransferMat.kmul Ko)
              (TransferMat.ksub Ko) (TransferMat.kopp Ko) (@eq K) ->
  (forall a b, TransferMat.kconj Ko (TransferMat.kadd Ko a b) = TransferMat.kadd Ko (TransferMat.kconj Ko a) (TransferMat.kconj Ko b)) ->
  (forall a b, TransferMat.kconj Ko (TransferMat.kmul Ko a b) = TransferMat.kmul Ko (TransferMat.kconj Ko a) (TransferMat.kconj Ko b)) ->
  TransferMat.kconj Ko (TransferMat.k0 Ko) = TransferMat.k0 Ko ->
  forall (qr1 qr2 : Mat K -> Mat K), qr_gram_ok Ko qr1 -> qr_gram_ok Ko qr2 ->
  forall (Ls : list (T3 K)) (C : T3 K) (Rs : list (T3 K)) (n m : nat) (ops : list (Op K)),
  bonds_ok n (Ls ++ C :: Rs) m ->
  expect_batch Ko qr1 (length Ls) (Ls ++ C :: Rs) ops = expect_batch Ko qr2 (length Ls) (Ls ++ C :: Rs) ops.
Proof. exact expect_batch_gauge. Qed.

(* one step of the sweep: the site Gram tensor sum_k conj(C'[k][s][r]) C'[k][s'][r'] of the next centre
   C' = tensordot(R, A) -- all that expect_batch reads from C' -- is the Gram matrix of R transported through A. *)
Theorem C13_mps_qr_step_gram : forall (K : Type) (Ko : RingOps K),
  ring_theory (TransferMat.k0 Ko) (TransferMat.k1 Ko) (TransferMat.kadd Ko) (TransferMat.kmul Ko)
              (TransferMat.ksub Ko) (TransferMat.kopp Ko) (@eq K) ->
  (forall a b, TransferMat.kconj Ko (TransferMat.kadd Ko a b) = TransferMat.kadd Ko (TransferMat.kconj Ko a) (TransferMat.kconj Ko b)) ->
  (forall a b, TransferMat.kconj Ko (TransferMat.kmul Ko a b) = TransferMat.kmul Ko (TransferMat.kconj Ko a) (TransferMat.kconj Ko b)) ->
  TransferMat.kconj Ko (TransferMat.k0 Ko) = TransferMat.k0 Ko ->
  forall (R : Mat K) (A : T3 K) (s s' r r' : nat),
  TransferMat.sumn Ko (mr R) (fun k => TransferMat.kmul Ko (TransferMat.kconj Ko (tf (absorb_l Ko R A) k s r)) (tf (absorb_l Ko R A) k s' r'))
  = TransferMat.sumn Ko (dl A) (fun l => TransferMat.sumn Ko (dl A) (fun l' =>
      TransferMat.kmul Ko (gram Ko R l l') (TransferMat.kmul Ko (TransferMat.kconj Ko (tf A l s r)) (tf A l' s' r')))).
Proof. exact gram_absorb_l. Qed.

(* the oracles of the exact correspondence: R = M and R = i*M preserve the Gram matrix (the gauge theorem applies to
   them), they differ as functions, and on a concrete 3-site chain with centre 1 the occupation table is the same. *)
Theorem C13_mps_expect_batch_gauge_nonvacuous :
  qr_gram_ok gi_ops qr_id /\ qr_gram_ok gi_ops qr_phase /\
  (exists M, mf (qr_id M) 0 0 <> mf (qr_phase M) 0 0) /\
  occupation gi_ops qr_phase 1 ex_chain = Some [(12, 0)%Z; (3, 0)%Z; (20, 0)%Z] /\
  occupation gi_ops qr_id 1 ex_chain = occupation gi_ops qr_phase 1 ex_chain.
Proof.
  split; [exact qr_id_gram_ok|]. split; [exact qr_phase_gram_ok|].
  exact (proj2 expect_batch_gauge_example).
Qed.

(* C13_mps_expectation_partial: that MPS.expect_batch on a chain whose declared centre is truthful equals the dense
   <psi|O_q|psi> is checked EXACTLY (Gaussian-integer isometries, R = M) by the oracle of the correspondence in
   tools/props/c13.py but not proved; get_correlation_matrix / MPO.expect and the entanglement entropy (SVD) are
   compared with dense formulas (tolerance 1e-9) on random non-canonical, unnormalised states by the falsifier. *)
