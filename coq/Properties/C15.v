(* C15 — sampled bitstrings follow the state's measurement distribution.  Only final statements.
   Oracles: random.random() is a stream of rationals r (one fresh element per character), torch.multinomial is a
   function [pick] from a row of weights to an index.  What is proved is what the code does with them; that the two
   library samplers are faithful (uniform / proportional to the weights) is trusted and tested statistically by
   tools/props/c15.py.  Characters are nat (0 = '0', 1 = '1').  Model: Model/Sampling.v. *)
From Coq Require Import List Arith Bool ZArith QArith Lia.
From EV Require Import Model.TransferMat Model.MPSAlg Model.SvState Model.Sampling
  Proofs.SvStateProofs Proofs.SamplingProofs.
Import ListNotations.
Local Open Scope nat_scope.

(* readout_with_error: with r the draw for this character, '0' is read as '1' exactly when r < p_false_pos, '1' as
   '0' exactly when r < p_false_neg, every other character is unchanged. *)
Theorem C15_readout_flip_law : forall (r pfp pfn : Q),
  (readout 0 r pfp pfn = 1 <-> (r < pfp)%Q) /\
  (readout 0 r pfp pfn = 0 <-> ~ (r < pfp)%Q) /\
  (readout 1 r pfp pfn = 0 <-> (r < pfn)%Q) /\
  (readout 1 r pfp pfn = 1 <-> ~ (r < pfn)%Q) /\
  (forall c, 2 <= c -> readout c r pfp pfn = c).
Proof. exact readout_flip_law. Qed.

(* ... hence on the grid of random.random() (r = k/M, k < M equally likely; M = 2^53 for CPython) exactly a of the M
   draws flip the character when the rate is a/M:  P(0->1) = p_false_pos,  P(1->0) = p_false_neg. *)
Theorem C15_readout_flip_probability : forall (M a : nat) (other : Q), 0 < M -> a <= M ->
  length (filter (fun k => readout 0 (Z.of_nat k # Pos.of_nat M) (Z.of_nat a # Pos.of_nat M) other =? 1) (seq 0 M)) = a /\
  length (filter (fun k => readout 1 (Z.of_nat k # Pos.of_nat M) other (Z.of_nat a # Pos.of_nat M) =? 0) (seq 0 M)) = a.
Proof. intros. split; [apply readout_flip_probability | apply readout_flip_probability_neg]; assumption. Qed.

(* characters are independent: character i of a string is decided by stream element i and nothing else. *)
Theorem C15_fresh_draw_per_character : forall pfp pfn s rs t rest,
  readout_string pfp pfn s rs = Some (t, rest) ->
  t = map (fun cr => readout (fst cr) (snd cr) pfp pfn) (combine s rs) /\
  rest = skipn (length s) rs /\ length t = length s.
Proof. intros pfp pfn s rs t rest H. destruct (readout_string_spec _ _ _ _ _ _ H) as (A & B & _ & C). auto. Qed.

(* apply_measurement_errors: one output string per input shot (total count preserved), each of the length of its
   source string, and exactly one draw per character is consumed. *)
Theorem C15_errors_preserve_count : forall pfp pfn items rs out rest,
  apply_measurement_errors pfp pfn items rs = Some (out, rest) ->
  map (@length nat) out = flat_map (fun it => repeat (length (fst it)) (snd it)) items /\
  length out = total_count items /\
  length rs = fold_right (fun it acc => snd it * length (fst it) + acc) 0 items + length rest.
Proof. exact errors_preserve_count. Qed.

(* the condition written in MPS.sample, `p_false_neg > 0 or p_false_pos > 0 and self.dim == 2`, differs from the
   grouping `(p_false_neg > 0 or p_false_pos > 0) and self.dim == 2` exactly for p_false_neg > 0 and dim != 2; with
   more than two levels a positive p_false_pos always raises NotImplementedError, so the only such configuration
   that returns error-affected counts is p_false_neg > 0, p_false_pos = 0 (false negatives of '1'; the leaked level
   is printed '0' and is not affected). *)
Theorem C15_error_gate_table : forall (pfn_pos pfp_pos : bool) (dim : nat),
  (gate_applies pfn_pos pfp_pos dim <> gate_intended pfn_pos pfp_pos dim <-> (pfn_pos = true /\ dim <> 2)) /\
  (2 < dim -> gate_raises pfp_pos dim = pfp_pos /\
     (gate_applies pfn_pos pfp_pos dim = true /\ gate_raises pfp_pos dim = false <->
      pfn_pos = true /\ pfp_pos = false)).
Proof. intros. split; [apply error_gate_table | apply error_gate_qutrit]. Qed.

(* the batch loop of MPS.sample, every num_shots >= 0 and every batch size mb > 0 (32 in the code): it terminates
   (fuel num_shots suffices), the batch sizes are in 1..mb, they add up to exactly num_shots, and there are
   ceil(num_shots / mb) batches. *)
Theorem C15_batch_total : forall (mb num_shots : nat), 0 < mb ->
  exists l, batches num_shots mb 0 num_shots = LOk l /\ sum_list l = num_shots /\
            Forall (fun b => 1 <= b <= mb) l /\ length l = (num_shots + mb - 1) / mb.
Proof.
  intros mb n Hmb. destruct (batch_total n mb 0 n Hmb ltac:(lia)) as (l & E & S & F & L).
  exists l. rewrite Nat.sub_0_r in L. repeat split; auto.
Qed.

(* sequential conditional sampling (chain rule / Born rule), every chain length and bond dimensions, any commutative
   ring with involution: if the factors right of site 0 have orthonormal rows (what orthogonalize(0) establishes;
   site 0 is arbitrary), then along any outcome string (s :: b) with amplitude x the weight rows presented to
   torch.multinomial satisfy: every denominator (row sum) after the first equals the previous chosen weight, the last
   chosen weight is |x|^2, hence  prod_q W_q * D0 = |x|^2 * prod_q D_q,  i.e. the product of the conditional
   probabilities W_q / D_q is |<b|psi>|^2 / D0 with D0 the row sum at site 0 (the squared norm of the centre). *)
Theorem C15_mps_chain_rule : forall (K : Type) (Ko : RingOps K),
  ring_theory (k0 Ko) (k1 Ko) (kadd Ko) (kmul Ko) (ksub Ko) (kopp Ko) (@eq K) ->
  (forall a b, kconj Ko (kadd Ko a b) = kadd Ko (kconj Ko a) (kconj Ko b)) ->
  (forall a b, kconj Ko (kmul Ko a b) = kmul Ko (kconj Ko a) (kconj Ko b)) ->
  kconj Ko (k0 Ko) = k0 Ko ->
  forall (T0 : T3 K) (Ts : list (T3 K)) (s : nat) (b : list nat) (x : K),
  Forall (right_orth K Ko) Ts -> ampv Ko [k1 Ko] (T0 :: Ts) (s :: b) = Some x ->
  let ws := run_weights Ko [k1 Ko] (T0 :: Ts) (s :: b) in
  let ds := run_denoms Ko [k1 Ko] (T0 :: Ts) (s :: b) in
  let D0 := sumL Ko (site_weights Ko [k1 Ko] T0) (fun w => w) in
  ds = D0 :: removelast ws /\
  last ws (k0 Ko) = kmul Ko (kconj Ko x) x /\
  kmul Ko (prodL Ko ws) D0 = kmul Ko (kmul Ko (kconj Ko x) x) (prodL Ko ds).
Proof. intros K Ko Kring ca cm cz T0 Ts s b x. apply (mps_chain_rule K Ko Kring ca cm cz). Qed.

(* one shot of MPS.sample, whatever torch.multinomial ([pick]) answers: outcome q is the oracle's answer to row q, the
   rows it is shown are the conditional weight rows along the string it produced, the chosen entries are the running
   weights W_q and the row sums are the denominators D_q of the chain rule above. *)
Theorem C15_sample_shot_rows : forall (K : Type) (Ko : RingOps K) (pick : list K -> nat) Ts v b wss,
  sample_shot Ko pick v Ts = Some (b, wss) ->
  wss = weight_rows Ko v Ts b /\ length b = length Ts /\
  map (fun w => sumL Ko w (fun x => x)) wss = run_denoms Ko v Ts b /\
  map (fun sw => nth (fst sw) (snd sw) (k0 Ko)) (combine b wss) = run_weights Ko v Ts b /\
  (forall q, q < length b -> nth q b 0 = pick (nth q wss [])).
Proof. exact sample_shot_rows. Qed.

(* at every site the conditional weights sum to the running weight (the statement behind the chain rule). *)
Theorem C15_cond_weights_sum : forall (K : Type) (Ko : RingOps K),
  ring_theory (k0 Ko) (k1 Ko) (kadd Ko) (kmul Ko) (ksub Ko) (kopp Ko) (@eq K) ->
  (forall a b, kconj Ko (kadd Ko a b) = kadd Ko (kconj Ko a) (kconj Ko b)) ->
  (forall a b, kconj Ko (kmul Ko a b) = kmul Ko (kconj Ko a) (kconj Ko b)) ->
  kconj Ko (k0 Ko) = k0 Ko ->
  forall (v : list K) (T : T3 K), length v = dl T -> right_orth K Ko T ->
  sumL Ko (site_weights Ko v T) (fun w => w) = norm2 Ko v.
Proof. intros K Ko Kring ca cm cz. apply (cond_weights_sum K Ko Kring ca cm cz). Qed.

(* state vector / density matrix: outcome k (weight |psi_k|^2 resp. |rho_kk|) is printed as the big-endian bitstring of
   k: the string has N characters, character q is bit q of k (atom q), and distinct outcomes give distinct strings
   (int(s,2) = k), so the probability of a string is the weight of its index over the total weight. *)
Theorem C15_sv_outcome_string : forall N k, k < 2 ^ N ->
  exists s, index_to_bits N k = Some s /\ length s = N /\ bits_to_index s = k /\
            forall q, q < N -> nth q s 0 = SvBase.bit N q k.
Proof. exact bitstring_of_index. Qed.

(* the printed MPS outcome: '1' exactly for level 1; level 2 (leakage) is printed as '0'. *)
Theorem C15_print_outcome : forall b q, q < length b ->
  nth q (print_outcome b) 0 = (if nth q b 0 =? 1 then 1 else 0) /\ length (print_outcome b) = length b.
Proof.
  intros b q Hq. unfold print_outcome. split; [|apply map_length].
  rewrite (nth_indep _ 0 ((fun x => if x =? 1 then 1 else 0) 0)) by (rewrite map_length; assumption).
  rewrite (map_nth (fun x => if x =? 1 then 1 else 0)). reflexivity.
Qed.
