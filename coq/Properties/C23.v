(* C23 — interactions follow the register, cutoff, custom matrix and SLM schedule.
   Only final statements; every proof is `exact <lemma>`.  Model: Model/Interaction.v (hand model of
   PulserData.__init__/get_sequences/_InteractionMatrixCallable and of the backends' query times), tied to
   /repo by the exact correspondence and the AST pin of tools/props/c23.py.  Matrices are lists of rows of
   any size; [mget m i j] is the entry (0 outside the matrix); all statements hold for every N. *)
From Coq Require Import ZArith List Bool.
From EV Require Import Model.Interaction Proofs.InteractionProofs.
Import ListNotations.
Open Scope Z_scope.

(* cutoff: every entry becomes 0 if its magnitude is below the cutoff and is unchanged otherwise; the shape
   is kept *)
Theorem C23_cutoff_spec : forall c m,
  (forall i j, mget (apply_cutoff c m) i j = cutoff_entry c (mget m i j)) /\
  (forall x, (Z.abs x < c -> cutoff_entry c x = 0) /\ (c <= Z.abs x -> cutoff_entry c x = x)) /\
  length (apply_cutoff c m) = length m /\
  (forall i, length (nth i (apply_cutoff c m) []) = length (nth i m [])).
Proof.
  exact (fun c m => conj (cutoff_get c m) (conj (cutoff_entry_spec c)
           (conj (proj1 (cutoff_shape c m)) (proj2 (cutoff_shape c m))))).
Qed.

(* the whole pipeline, entry by entry: the matrix returned at time t has, at (i,j), 0 if t < slm_end and i
   or j is a masked atom, and otherwise the cut-off entry of the source matrix — for every size, every
   target list (any order, duplicates), every t *)
Theorem C23_mask_spec : forall user traj c targets slm_end t src,
  source_matrix user traj = Some src ->
  exists M, interaction_at user traj c targets slm_end t = Some M /\
    forall i j, mget M i j =
      if (t <? slm_end) && (in_b i targets || in_b j targets) then 0
      else cutoff_entry c (mget src i j).
Proof. exact interaction_at_entries. Qed.

(* symmetric source with zero diagonal => the matrix used at any time is symmetric with zero diagonal *)
Theorem C23_symmetric_zero_diagonal : forall user traj c targets slm_end t src M,
  source_matrix user traj = Some src -> symmetric src -> zero_diag src ->
  interaction_at user traj c targets slm_end t = Some M ->
  symmetric M /\ zero_diag M.
Proof. exact interaction_at_symmetric_zero_diag. Qed.

(* the callable switches exactly at slm_end *)
Theorem C23_callable_switch : forall full masked slm_end t,
  (t < slm_end -> callable full masked slm_end t = masked) /\
  (slm_end <= t -> callable full masked slm_end t = full).
Proof. exact callable_spec. Qed.

(* the user matrix is used iff given; otherwise the trajectory's (first packed) matrix *)
Theorem C23_source_spec : forall user traj,
  (forall u, user = Some u -> source_matrix user traj = Some u) /\
  (user = None -> forall m, traj = Plain m -> source_matrix user traj = Some m) /\
  (user = None -> forall m ms, traj = Packed (m :: ms) -> source_matrix user traj = Some m).
Proof. exact source_spec. Qed.

(* every noise trajectory: get_sequences yields sum(reps) SequenceData, and the k-th one answers with the pipeline
   (source selection, cutoff, SLM mask, switch at slm_end) applied to the matrix of ITS OWN trajectory — the k-th
   element of the reps expansion — for every list of trajectories, whatever their matrices and repetitions.  With
   C23_mask_spec this gives the entrywise spec of every yielded matrix in terms of its own trajectory's matrix. *)
Theorem C23_every_trajectory_own_matrix : forall user trajs c targets slm_end t,
  sequences_at user trajs c targets slm_end t =
    map (fun tr => interaction_at user tr c targets slm_end t) (expand_trajs trajs) /\
  length (sequences_at user trajs c targets slm_end t) = length (expand_trajs trajs) /\
  forall k tr, nth_error (expand_trajs trajs) k = Some tr ->
    nth_error (sequences_at user trajs c targets slm_end t) k = Some (interaction_at user tr c targets slm_end t).
Proof. exact sequences_at_own_trajectory. Qed.

Theorem C23_trajectory_count : forall trajs,
  length (expand_trajs trajs) = fold_right (fun tr acc => (snd tr + acc)%nat) 0%nat trajs.
Proof. exact expand_trajs_length. Qed.

(* query times (doubled): on both backends the time at which the matrix of step k is queried lies inside
   the step [t_k, t_(k+1)], hence a step ending before slm_end uses the masked matrix and a step starting
   at or after slm_end the full one *)
Theorem C23_query_time_spec : forall times k, sorted_times times -> (S k < length times)%nat ->
  (2 * tnth times k <= mps_query_time_x2 times k <= 2 * tnth times (S k)) /\
  (2 * tnth times k <= sv_query_time_x2 times k <= 2 * tnth times (S k)) /\
  forall q2 slm_end, 2 * tnth times k <= q2 <= 2 * tnth times (S k) ->
    (tnth times (S k) < slm_end -> q2 < 2 * slm_end) /\ (slm_end <= tnth times k -> 2 * slm_end <= q2).
Proof.
  exact (fun times k Hs Hk => conj (mps_query_in_step times k Hs Hk)
          (conj (sv_query_in_step times k Hs Hk) (step_uses_right_matrix times k))).
Qed.

(* the premise of the previous theorem is satisfiable *)
Theorem C23_sorted_times_example : sorted_times [0; 10; 20; 25].
Proof. exact sorted_times_satisfiable. Qed.
