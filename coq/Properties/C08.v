(* C08 — Lanczos ground-state search is variational and meets its residual.
   Only final statements; every proof is `exact <lemma>`.  The model is Model/KrylovGS.v (hand-written,
   tied to /repo/emu_base/math/krylov_energy_min.py by the correspondences of tools/props/c08.py).
   NOT theorems here (validated only by the falsifier): theta >= lambda_min, theta = <x, H x> and
   "estimate = true residual" — they need orthonormal Lanczos vectors. *)
From Coq Require Import ZArith List Bool Arith Reals.
From EV Require Import Base.Arith Model.KrylovGS Proofs.KrylovGSProofs.

(* Control contract of krylov_energy_minimization_impl for EVERY arithmetic, every oracle stream
   (beta r j, resid r j, rnorm r j, vnorm r), every max_krylov_dim and every max_restarts >= 0
   (n_cycles = max_restarts + 1): whenever it returns,
   - the total iteration count (= operator applications) is at most (max_restarts+1) * max_krylov_dim,
   - converged = true iff the LAST cycle (index restart_count) had an iteration j < max_krylov_dim with
     beta_j < norm_tol or resid_j < residual_tol; no earlier cycle had one,
   - a run that is not converged used all max_restarts + 1 cycles,
   - happy_breakdown -> converged. *)
Theorem C08_gs_control_contract :
  forall (A : Type) (ar : Arith A) (inf numtol : A) (beta resid rnorm : nat -> nat -> A) (vnorm : nat -> A)
         (norm_tol residual_tol : A) (max_dim n_cycles : nat) (g : gres A),
  0 < n_cycles ->
  gmin_impl ar inf numtol beta resid rnorm vnorm norm_tol residual_tol max_dim n_cycles = Ok g ->
  g_iters g <= n_cycles * max_dim /\
  g_restart g < n_cycles /\
  (g_converged g = true <->
     exists j, j < max_dim /\ gtrigger ar beta resid norm_tol residual_tol (g_restart g) j = true) /\
  (forall r' j, r' < g_restart g -> j < max_dim -> gtrigger ar beta resid norm_tol residual_tol r' j = false) /\
  (g_converged g = false -> g_restart g = n_cycles - 1) /\
  (g_happy g = true -> g_converged g = true).
Proof. exact gmin_impl_spec. Qed.

(* The wrapper krylov_energy_minimization returns exactly the converged results and raises
   RecursionError exactly when neither flag is set (happy_breakdown implies converged). *)
Theorem C08_wrapper_raises_iff_not_converged :
  forall (A : Type) (ar : Arith A) (inf numtol : A) (beta resid rnorm : nat -> nat -> A) (vnorm : nat -> A)
         (norm_tol residual_tol : A) (max_dim n_cycles : nat) (g : gres A),
  0 < n_cycles ->
  gmin_impl ar inf numtol beta resid rnorm vnorm norm_tol residual_tol max_dim n_cycles = Ok g ->
  (g_converged g = true ->
     gmin_public ar inf numtol beta resid rnorm vnorm norm_tol residual_tol max_dim n_cycles = Ok g) /\
  (g_converged g = false ->
     gmin_public ar inf numtol beta resid rnorm vnorm norm_tol residual_tol max_dim n_cycles = Err E_GS_RECURSION).
Proof. exact gmin_public_spec. Qed.

(* Which pair a cycle returns (exact reals, all residual estimates finite): the FIRST minimiser of the
   residual estimate over the iterations of the cycle; and when the cycle converged without breakdown
   it is the pair of the last iteration, whose estimate is below residual_tol. *)
Theorem C08_returned_pair_is_best_residual :
  forall (inf numtol : R) (beta resid rnorm : nat -> nat -> R) (vnorm : nat -> R) (norm_tol residual_tol : R)
         (r : nat), (forall j, (resid r j < inf)%R) ->
  forall (max_dim : nat) (c : cyc R),
  cycle R_arith inf numtol beta resid rnorm vnorm norm_tol residual_tol r max_dim = Ok c ->
  best_inv inf resid r (c_iters c) (c_best c) (c_bresid c) /\
  (c_conv c = true -> c_happy c = false ->
     c_best c = Some (Nat.pred (c_iters c)) /\ c_bresid c = resid r (Nat.pred (c_iters c)) /\
     (c_bresid c < residual_tol)%R).
Proof. exact cycle_best. Qed.

(* Lanczos relation by construction, over ANY module with  (u - v) + v = u  and  c * (w / c) = w for
   invertible c (no orthogonality, no Hermiticity, vdot / nrm arbitrary): one call of
   _next_lanczos_iteration on [q_0..q_i], [b_0..b_{i-1}] returns (w, alpha_i, beta_i = |w|) with
   op(q_i) = w + b_{i-1} q_{i-1} + alpha_i q_i, and the vector appended next, q_{i+1} = w / beta_i,
   satisfies beta_i q_{i+1} = w:   op(q_i) = beta_{i-1} q_{i-1} + alpha_i q_i + beta_i q_{i+1}. *)
Theorem C08_lanczos_relation :
  forall (A K V : Type) (ofreal : A -> K) (toreal : K -> A) (vadd vsub : V -> V -> V) (vscale : K -> V -> V)
         (vdiv : V -> A -> V) (Aop : V -> V) (vdot : V -> V -> K) (nrm : V -> A) (runit : A -> Prop),
  (forall u v, vadd (vsub u v) v = u) ->
  (forall w c, runit c -> vscale (ofreal c) (vdiv w c) = w) ->
  forall (vs : list V) (betas : list A) (w : V) (a b : A),
  next_lanczos ofreal toreal vsub vscale Aop vdot nrm vs betas = Ok (w, a, b) ->
  exists qi, nth_error vs (Nat.pred (length vs)) = Some qi /\ b = nrm w /\
    match Nat.pred (length vs) with
    | O => Aop qi = vadd w (vscale (ofreal a) qi)
    | S i' => exists qp bp, nth_error vs i' = Some qp /\ nth_error betas i' = Some bp /\
              Aop qi = vadd (vadd w (vscale (ofreal bp) qp)) (vscale (ofreal a) qi)
    end /\
    (runit b -> vscale (ofreal b) (vdiv w b) = w).
Proof. exact next_lanczos_relation. Qed.

(* The returned vector is x / |x| (a normalised Ritz vector, or q_0 = v / |v|): it has norm 1 under the
   premise  | y / |y| | = 1  for vectors of invertible norm. *)
Theorem C08_ritz_unit :
  forall (A V : Type) (vdiv : V -> A -> V) (nrm : V -> A) (runit : A -> Prop) (x : V) (one : A),
  (forall y, runit (nrm y) -> nrm (vdiv y (nrm y)) = one) ->
  runit (nrm x) -> nrm (normalize vdiv nrm x) = one.
Proof. exact normalize_unit. Qed.
