(* C32 — qubit-order optimisation returns a valid, no-worse permutation; the permutation helpers
   are mutually consistent.  Only final statements; every proof is `exact <lemma>`.
   Models: Model/Permutations.v (emu_mps/optimatrix/permutations.py) and Model/Optimiser.v
   (emu_mps/optimatrix/optimiser.py, integer matrices, SciPy RCM and torch.randperm as oracles). *)
From Coq Require Import String Ascii ZArith List Bool Arith Permutation.
From EV Require Import Base.Arith Model.Permutations Model.Optimiser
  Proofs.PermutationsProofs Proofs.OptimiserProofs.
Import ListNotations.
Open Scope nat_scope.

(* [is_perm n p] (length n, no duplicates, all entries < n) means exactly: p is a rearrangement of
   [0; 1; ...; n-1]; [is_permb] decides it. *)
Theorem C32_is_perm_meaning : forall n p,
  (is_perm n p <-> Permutation p (seq 0 n)) /\ (is_permb n p = true <-> is_perm n p).
Proof. intros; split. apply is_perm_Permutation. apply is_permb_spec. Qed.

(* For every permutation p of every length n: inv_permutation succeeds and its result q is a
   permutation with q[p[k]] = k and p[q[j]] = j. *)
Theorem C32_inv_permutation_is_inverse : forall n p, is_perm n p ->
  exists q, inv_permutation p = Ok q /\ is_perm n q /\
    (forall k, k < n -> nth (nth k p 0) q 0 = k) /\
    (forall j, j < n -> nth (nth j q 0) p 0 = j).
Proof. exact inv_permutation_spec. Qed.

(* An index tensor with an entry >= its length makes inv_permutation raise IndexError. *)
Theorem C32_inv_permutation_rejects_out_of_range : forall p,
  ~ Forall (fun i => i < length p) p -> inv_permutation p = Err E_INDEX.
Proof. exact inv_permutation_out_of_range. Qed.

(* Lists (and tuples, 1D tensors: same function): permuting by p then by inv_permutation(p) gives the
   list back, and so does permuting by the inverse first; no call raises. *)
Theorem C32_inverse_undoes_permute_list : forall A n (l : list A) p, length l = n -> is_perm n p ->
  exists q l1 l2, inv_permutation p = Ok q /\ is_perm n q /\
    permute_list l p = Ok l1 /\ permute_list l1 q = Ok l /\
    permute_list l q = Ok l2 /\ permute_list l2 p = Ok l.
Proof. exact inverse_undoes_permute_list. Qed.

(* Strings (bitstrings): the same. *)
Theorem C32_inverse_undoes_permute_string : forall n s p, String.length s = n -> is_perm n p ->
  exists q s1 s2, inv_permutation p = Ok q /\
    permute_string s p = Ok s1 /\ permute_string s1 q = Ok s /\
    permute_string s q = Ok s2 /\ permute_string s2 p = Ok s.
Proof. exact inverse_undoes_permute_string. Qed.

(* Square matrices (rows and columns permuted together): the same. *)
Theorem C32_inverse_undoes_permute_matrix : forall A n (m : list (list A)) p, wf n m -> is_perm n p ->
  exists q m1 m2, inv_permutation p = Ok q /\
    permute_matrix m p = Ok m1 /\ permute_matrix m1 q = Ok m /\
    permute_matrix m q = Ok m2 /\ permute_matrix m2 p = Ok m.
Proof. exact inverse_undoes_permute_matrix. Qed.

(* All helpers move the same elements: with the same permutation p, position k of the permuted
   list / tuple / vector / string holds what was at position p[k], entry (k,k2) of the permuted matrix
   is the old entry (p[k], p[k2]), and inv_permutation(p) sends p[k] back to k. *)
Theorem C32_helpers_move_same_elements :
  forall A (d : A) n (l : list A) (s : string) (m : list (list A)) p,
  length l = n -> String.length s = n -> wf n m -> is_perm n p ->
  exists l' s' m' q,
    permute_list l p = Ok l' /\ permute_tuple l p = Ok l' /\ permute_vector l p = Ok l' /\
    permute_string s p = Ok s' /\ permute_matrix m p = Ok m' /\ inv_permutation p = Ok q /\
    length l' = n /\ String.length s' = n /\ wf n m' /\ is_perm n q /\
    forall k, k < n ->
      nth_error l' k = nth_error l (nth k p 0) /\
      String.get k s' = String.get (nth k p 0) s /\
      nth (nth k p 0) q 0 = k /\
      forall k2, k2 < n -> nth k2 (nth k m' []) d = nth (nth k2 p 0) (nth (nth k p 0) m []) d.
Proof. exact helpers_move_same_elements. Qed.

(* Composition law: permuting by p and then by q equals permuting once by permute_tensor(p, q)
   (this is how the optimiser accumulates its permutation), for lists and matrices, and the composed
   index tensor is again a permutation. *)
Theorem C32_helpers_compose : forall A n (l : list A) (m : list (list A)) p q,
  length l = n -> wf n m -> is_perm n p -> is_perm n q ->
  exists pq l1 m1, permute_vector p q = Ok pq /\ is_perm n pq /\
    permute_list l p = Ok l1 /\ permute_list l1 q = permute_list l pq /\
    permute_matrix m p = Ok m1 /\ permute_matrix m1 q = permute_matrix m pq.
Proof. exact helpers_compose. Qed.

(* matrix_bandwidth of a non-empty square matrix is max_{i,j} |m[i][j] * (j - i)|. *)
Theorem C32_bandwidth_spec : forall n (m : matrix), wf n m -> 1 <= n ->
  exists b, matrix_bandwidth m = Ok b /\ (0 <= b)%Z /\
    (forall i j, i < n -> j < n -> (wdist (entry m i j) i j <= b)%Z) /\
    (exists i j, i < n /\ j < n /\ b = wdist (entry m i j) i j).
Proof. exact matrix_bandwidth_spec. Qed.

(* MAIN.  For every RCM oracle that answers with permutations, every threshold list, every list of
   random restarts that are permutations and every n x n input: if minimize_bandwidth returns p then
   the input was symmetric, p is a permutation of all n atoms, the bandwidth of the input reordered
   by p is no larger than the bandwidth of the input, and no larger than that of any random restart. *)
Theorem C32_optimiser_valid_and_no_worse :
  forall (rcm : matrix -> list nat) (thresholds : list (Z * Z)) (n : nat),
  (forall m, wf n m -> is_perm n (rcm m)) ->
  forall input rnds p, wf n input -> Forall (is_perm n) rnds ->
  minimize_bandwidth rcm thresholds input rnds = Ok p ->
  is_symmetric input = true /\ is_perm n p /\
  exists b b0, score input p = Ok b /\ matrix_bandwidth input = Ok b0 /\ (b <= b0)%Z /\
    forall r, In r rnds -> exists br, score input r = Ok br /\ (b <= br)%Z.
Proof. exact minimize_bandwidth_spec. Qed.

(* No assertion ("Matrix is not optimised"), IndexError or empty-min/max error can fire on a
   symmetric non-empty input: the call returns, or raises the explicit NotImplementedError. *)
Theorem C32_optimiser_only_explicit_error :
  forall (rcm : matrix -> list nat) (thresholds : list (Z * Z)) (n : nat),
  (forall m, wf n m -> is_perm n (rcm m)) ->
  forall input rnds, 1 <= n -> thresholds <> [] -> wf n input -> is_symmetric input = true ->
  Forall (is_perm n) rnds ->
  (exists p, minimize_bandwidth rcm thresholds input rnds = Ok p) \/
  minimize_bandwidth rcm thresholds input rnds = Err E_NOT_CONVERGING.
Proof. exact minimize_bandwidth_errors. Qed.

(* Termination bound (integer weights): each accepted round lowers the bandwidth by at least 1, so
   when every starting order has bandwidth < 100 the 100-round limit is never reached. *)
Theorem C32_optimiser_terminates_below_100 :
  forall (rcm : matrix -> list nat) (thresholds : list (Z * Z)) (n : nat),
  (forall m, wf n m -> is_perm n (rcm m)) ->
  forall input rnds, 1 <= n -> thresholds <> [] -> wf n input -> is_symmetric input = true ->
  Forall (is_perm n) rnds ->
  (forall s, In s (seq 0 n :: rnds) -> exists b, score input s = Ok b /\ (b < 100)%Z) ->
  exists p, minimize_bandwidth rcm thresholds input rnds = Ok p.
Proof. exact minimize_bandwidth_terminates. Qed.

(* The boolean the check evaluates on the real optimiser's outputs is exactly the conclusion of
   C32_optimiser_valid_and_no_worse. *)
Theorem C32_result_ok_is_the_predicate : forall input p, result_ok input p = true <->
  is_perm (length input) p /\
  exists b b0, score input p = Ok b /\ matrix_bandwidth input = Ok b0 /\ (b <= b0)%Z.
Proof. exact result_ok_spec. Qed.

(* The premises are satisfiable: the identity is a legal RCM answer, and a concrete run. *)
Example C32_premises_satisfiable :
  (forall n m, wf n m -> is_perm n ((fun m : matrix => seq 0 (length m)) m)) /\
  minimize_bandwidth (fun m => rev (seq 0 (length m))) [(1, 2)%Z]
    [[0; 0; 3]; [0; 0; 1]; [3; 1; 0]]%Z [[1; 2; 0]] = Ok [1; 2; 0].
Proof. split. exact rcm_identity_ok. vm_compute. reflexivity. Qed.
