(* C12 — state-vector and density-matrix objects are faithful to their definitions.
   Only final statements.  [o : Kops] is ANY coefficient structure with [Klaws o] (commutative ring with
   involution; the complex numbers are an instance, C12_laws_satisfiable).  Conventions: qubit 0 is the most
   significant bit, bit N q k = (k / 2^(N-q-1)) mod 2, 'r' = 1, 'g' = 0; strings are lists of digits.
   Model functions: Model/SvState.v, tied to /repo by the exact correspondence of tools/props/c12.py. *)
From Coq Require Import List Arith Bool.
From EV Require Import Model.SvBase Model.SvState Proofs.SvBaseProofs Proofs.SvStateProofs Proofs.SvComplexInstance.
Import ListNotations.

Theorem C12_laws_satisfiable : Klaws CK.
Proof. exact CK_laws. Qed.

(* index -> bitstring -> index: for every N and k < 2^N, index_to_bitstring(N,k) is a string s of length N with
   int(s,2) = k whose character q is bit_q(k) (big-endian). *)
Theorem C12_bitstring_of_index : forall N k, k < 2 ^ N ->
  exists s, index_to_bits N k = Some s /\ length s = N /\ bits_to_index s = k /\
            forall q, q < N -> nth q s 0 = bit N q k.
Proof. exact bitstring_of_index. Qed.

(* bitstring -> index -> bitstring: for every string s of binary digits, index_to_bitstring(len s, int(s,2)) = s
   (so the amplitude of string s is stored at the index whose bits are s). *)
Theorem C12_index_of_bitstring : forall s, Forall (fun b => b < 2) s ->
  index_to_bits (length s) (bits_to_index s) = Some s.
Proof. exact index_of_bitstring. Qed.

(* indices outside the Hilbert space are rejected (the assert). *)
Theorem C12_index_to_bits_rejects : forall N k, 2 ^ N <= k -> index_to_bits N k = None.
Proof. exact index_to_bits_rejects. Qed.

(* reduce(torch.kron, [A_0, ..., A_{N-1}]) for 2x2 factors, every N >= 1:
   it is 2^N x 2^N and entry [k,k'] = prod_q A_q[bit_q k][bit_q k']. *)
Theorem C12_kron_elem : forall (o : Kops), Klaws o -> forall (gates : list (M2 o)), gates <> [] ->
  let N := length gates in
  fst (kron_all o gates) = 2 ^ N /\
  forall k k', k < 2 ^ N -> k' < 2 ^ N ->
    mget o (kron_all o gates) k k' =
    kprod o (seq 0 N) (fun q => m2 (nth q gates m2zero) (bit N q k) (bit N q k')).
Proof. exact kron_elem. Qed.

(* one torch.kron step, entrywise (the definition of the Kronecker product). *)
Theorem C12_kron_entry : forall (o : Kops), Klaws o -> forall (A B : mat o) i j,
  0 < fst B -> i < fst A * fst B -> j < fst A * fst B ->
  mget o (kron o A B) i j = kmul o (mget o A (i / fst B) (j / fst B)) (mget o B (i mod fst B) (j mod fst B)).
Proof. intros o _. exact (kron_entry o). Qed.

(* sparse_kron on COO inputs (entries of b inside its shape) equals the dense Kronecker product entrywise. *)
Theorem C12_sparse_kron_dense : forall (o : Kops), Klaws o -> forall (A B : coo o) i j,
  (let '(rb, cb, eb) := B in Forall (fun e => let '(ib, jb, _) := e in ib < rb /\ jb < cb) eb) ->
  let '(rb, cb, _) := B in
  coo_dense o (sparse_kron o A B) i j =
  kmul o (coo_dense o A (i / rb) (j / cb)) (coo_dense o B (i mod rb) (j mod cb)).
Proof. exact sparse_kron_dense. Qed.

(* sparse_add equals the dense sum entrywise. *)
Theorem C12_sparse_add_dense : forall (o : Kops), Klaws o -> forall (A B : coo o) i j,
  coo_dense o (sparse_add o A B) i j = kadd o (coo_dense o A i j) (coo_dense o B i j).
Proof. exact sparse_add_dense. Qed.

(* DensityMatrix.from_state_vector: rho[k,k'] = psi_k conj(psi_k'). *)
Theorem C12_from_state_vector_entry : forall (o : Kops), Klaws o -> forall (psi : list o) r c,
  r < length psi -> c < length psi ->
  get (from_state_vector o psi) (r * length psi + c) = kmul o (get psi r) (kconj o (get psi c)).
Proof. intros o _. exact (from_state_vector_entry o). Qed.

(* inner / overlap are by definition the sums  sum_k conj(a_k) b_k  (vdot); DensityMatrix.overlap is the same sum
   over the flattened matrices, i.e. sum_{k,k'} conj(rho_kk') sigma_kk' = tr(rho^dagger sigma). *)
Theorem C12_inner_overlap_def : forall (o : Kops) (a b : list o),
  sv_inner o a b = ksumn (length a) (fun k => kmul o (kconj o (get a k)) (get b k)) /\
  dm_overlap o a b = ksumn (length a) (fun k => kmul o (kconj o (get a k)) (get b k)).
Proof. intros; split; reflexivity. Qed.

(* C12_dense_sparse_agree_partial: the step lemmas above (sparse_kron_dense, sparse_add_dense) give dense ==
   sparse for each kron / add step; their composition over a whole operator representation
   (sparse_from_repr vs dense_from_repr) is not stated as a single theorem: it is validated by the exact
   correspondence (N <= 3 through the model, N <= 8 on the real code). *)

(* DensityMatrix.overlap on ARBITRARY (not necessarily Hermitian) D x D data is Tr(A^dagger B):
   overlap(A,B) = sum_c sum_r conj(A[r,c]) * B[r,c] = sum_c (A^dagger B)[c,c]. *)
Theorem C12_dm_overlap_trace : forall (o : Kops), Klaws o -> forall D (a b : list o), length a = D * D ->
  dm_overlap o a b =
  ksumn D (fun c => ksumn D (fun r => kmul o (kconj o (get a (r * D + c))) (get b (r * D + c)))).
Proof. exact dm_overlap_trace. Qed.

(* inner / overlap (both are vdot) are anti-linear in the first slot and conjugate-symmetric. *)
Theorem C12_overlap_antilinear : forall (o : Kops), Klaws o -> forall s (a b : list o),
  dm_overlap o (vscale s a) b = kmul o (kconj o s) (dm_overlap o a b) /\
  sv_inner o (vscale s a) b = kmul o (kconj o s) (sv_inner o a b).
Proof. intros o H s a b. split; exact (vdot_antilinear o H s a b). Qed.

Theorem C12_overlap_conj_sym : forall (o : Kops), Klaws o -> forall (a b : list o), length a = length b ->
  dm_overlap o a b = kconj o (dm_overlap o b a) /\ sv_inner o a b = kconj o (sv_inner o b a).
Proof. intros o H a b E. split; exact (vdot_conj_sym o H a b E). Qed.
