(* C12 — state-vector and density-matrix objects are faithful to their definitions.
   Only final statements.  [o : Kops] is ANY coefficient structure with [Klaws o] (commutative ring with
   involution; the complex numbers are an instance, C12_laws_satisfiable).  Conventions: qubit 0 is the most
   significant bit, bit N q k = (k / 2^(N-q-1)) mod 2, 'r' = 1, 'g' = 0; strings are lists of digits.
   Model functions: Model/SvState.v and Model/SvOps.v, tied to /repo by the exact correspondences of
   tools/props/c12.py. *)
From Coq Require Import List Arith Bool.
From EV Require Import Model.SvBase Model.SvState Model.SvOps Proofs.SvBaseProofs Proofs.SvStateProofs
  Proofs.SvOpsProofs Proofs.SvComplexInstance.
Import ListNotations.

Theorem C12_laws_satisfiable : Klaws CK.
Proof. exact CK_laws. Qed.

(* index -> bitstring -> index: for every N and k < 2^N, index_to_bitstring(N,k) is a string s of length N with
   int(s,2) = k whose character q is bit_q(k) (big-endian). *)
Theorem C12_bitstring_of_index : forall N k, k < 2 ^ N ->
  exists s, index_to_bits N k = Some s /\ length s = N /\ bits_to_index s = k /\
            forall q, q < N -> nth q s 0 = bit N q k.
Proof. exact bitstring_of_index. Qed.

(* bitstring -> index -> bitstring: for every string s of binary digits, index_to_bitstring(len s, int(s,2)) = s
   (so the amplitude of string s is stored at the index whose bits are s). *)
Theorem C12_index_of_bitstring : forall s, Forall (fun b => b < 2) s ->
  index_to_bits (length s) (bits_to_index s) = Some s.
Proof. exact index_of_bitstring. Qed.

(* indices outside the Hilbert space are rejected (the assert). *)
Theorem C12_index_to_bits_rejects : forall N k, 2 ^ N <= k -> index_to_bits N k = None.
Proof. exact index_to_bits_rejects. Qed.

(* reduce(torch.kron, [A_0, ..., A_{N-1}]) for 2x2 factors, every N >= 1:
   it is 2^N x 2^N and entry [k,k'] = prod_q A_q[bit_q k][bit_q k']. *)
Theorem C12_kron_elem : forall (o : Kops), Klaws o -> forall (gates : list (M2 o)), gates <> [] ->
  let N := length gates in
  fst (kron_all o gates) = 2 ^ N /\
  forall k k', k < 2 ^ N -> k' < 2 ^ N ->
    mget o (kron_all o gates) k k' =
    kprod o (seq 0 N) (fun q => m2 (nth q gates m2zero) (bit N q k) (bit N q k')).
Proof. exact kron_elem. Qed.

(* one torch.kron step, entrywise (the definition of the Kronecker product). *)
Theorem C12_kron_entry : forall (o : Kops), Klaws o -> forall (A B : mat o) i j,
  0 < fst B -> i < fst A * fst B -> j < fst A * fst B ->
  mget o (kron o A B) i j = kmul o (mget o A (i / fst B) (j / fst B)) (mget o B (i mod fst B) (j mod fst B)).
Proof. intros o _. exact (kron_entry o). Qed.

(* sparse_kron on COO inputs (entries of b inside its shape) equals the dense Kronecker product entrywise. *)
Theorem C12_sparse_kron_dense : forall (o : Kops), Klaws o -> forall (A B : coo o) i j,
  (let '(rb, cb, eb) := B in Forall (fun e => let '(ib, jb, _) := e in ib < rb /\ jb < cb) eb) ->
  let '(rb, cb, _) := B in
  coo_dense o (sparse_kron o A B) i j =
  kmul o (coo_dense o A (i / rb) (j / cb)) (coo_dense o B (i mod rb) (j mod cb)).
Proof. exact sparse_kron_dense. Qed.

(* sparse_add equals the dense sum entrywise. *)
Theorem C12_sparse_add_dense : forall (o : Kops), Klaws o -> forall (A B : coo o) i j,
  coo_dense o (sparse_add o A B) i j = kadd o (coo_dense o A i j) (coo_dense o B i j).
Proof. exact sparse_add_dense. Qed.

(* DensityMatrix.from_state_vector: rho[k,k'] = psi_k conj(psi_k'). *)
Theorem C12_from_state_vector_entry : forall (o : Kops), Klaws o -> forall (psi : list o) r c,
  r < length psi -> c < length psi ->
  get (from_state_vector o psi) (r * length psi + c) = kmul o (get psi r) (kconj o (get psi c)).
Proof. intros o _. exact (from_state_vector_entry o). Qed.

(* inner / overlap are by definition the sums  sum_k conj(a_k) b_k  (vdot); DensityMatrix.overlap is the same sum
   over the flattened matrices, i.e. sum_{k,k'} conj(rho_kk') sigma_kk' = tr(rho^dagger sigma). *)
Theorem C12_inner_overlap_def : forall (o : Kops) (a b : list o),
  sv_inner o a b = ksumn (length a) (fun k => kmul o (kconj o (get a k)) (get b k)) /\
  dm_overlap o a b = ksumn (length a) (fun k => kmul o (kconj o (get a k)) (get b k)).
Proof. intros; split; reflexivity. Qed.

(* ---- operator representations: meaning, dense == sparse, for EVERY N (also 0) and EVERY representation -------
   (any number of terms, nested tensor factors, multi-qubit and repeated targets, out-of-range targets ignored).
   Model/SvOps.v states the meaning directly on the representation:
     qudit_entry terms a b   = sum of the coefficients of the keys "ab" of a QuditOp,
     site_entry top q a b    = qudit_entry of the LAST (op, targets) pair of the tensor term with q among its
                               targets, delta_ab when no pair targets q,
     repr_entry N ops i j    = sum_terms coeff * prod_{q < N} site_entry top q (bit_q i) (bit_q j). *)

(* build_torch_operator_from_string on a QuditOp: element [a][b] = sum of the coefficients of "ab". *)
Theorem C12_qudit_op_entry : forall (o : Kops), Klaws o -> forall (terms : list (nat * nat * o)) a b,
  a < 2 -> b < 2 -> m2 (build_qudit_op o terms) a b = qudit_entry o terms a b.
Proof. exact build_qudit_op_entry. Qed.

(* single_qubit_gates after the assignment loops: N factors, factor q is the last assignment to q (identity if
   none), whatever the nesting / repetition of targets. *)
Theorem C12_tensor_gates_last_wins : forall (o : Kops), Klaws o ->
  forall N (top : list (list (nat * nat * o) * list nat)),
  length (tensor_gates o N top) = N /\
  forall q, q < N -> nth q (tensor_gates o N top) m2zero = gate_at o top q /\
  forall a b, a < 2 -> b < 2 -> m2 (gate_at o top q) a b = site_entry o top q a b.
Proof.
  intros o H N top. destruct (tensor_gates_spec o N top) as [E G]. split; [exact E|].
  intros q Hq. split; [exact (G q Hq) | intros a b; exact (gate_at_entry o H top q a b)].
Qed.

(* DenseOperator._from_operator_repr: the matrix is 2^N x 2^N and <i|O|j> = repr_entry. *)
Theorem C12_dense_from_repr_entry : forall (o : Kops), Klaws o ->
  forall N (ops : list (o * list (list (nat * nat * o) * list nat))),
  fst (dense_from_repr o N ops) = 2 ^ N /\
  forall i j, i < 2 ^ N -> j < 2 ^ N -> mget o (dense_from_repr o N ops) i j = repr_entry o N ops i j.
Proof. exact dense_from_repr_entry. Qed.

(* reduce(sparse_kron, gates) == reduce(torch.kron, gates) for every list of 2x2 factors. *)
Theorem C12_sparse_kron_all_dense : forall (o : Kops), Klaws o -> forall (gates : list (M2 o)) i j,
  i < 2 ^ length gates -> j < 2 ^ length gates ->
  coo_dense o (sparse_kron_all o gates) i j = mget o (kron_all o gates) i j.
Proof. exact sparse_kron_all_dense. Qed.

(* THE DENSE AND SPARSE OPERATORS ALWAYS AGREE: SparseOperator._from_operator_repr(...).to_dense() equals
   DenseOperator._from_operator_repr(...) entry by entry (hence both equal repr_entry), same shape. *)
Theorem C12_dense_sparse_agree : forall (o : Kops), Klaws o ->
  forall N (ops : list (o * list (list (nat * nat * o) * list nat))),
  fst (sparse_from_repr o N ops) = (2 ^ N, 2 ^ N) /\
  forall i j, i < 2 ^ N -> j < 2 ^ N ->
    coo_dense o (sparse_from_repr o N ops) i j = mget o (dense_from_repr o N ops) i j.
Proof. exact sparse_dense_from_repr. Qed.

(* SparseOperator.apply_to / expect (scatter-add over the stored COO entries, duplicates adding up) equal the dense
   matrix-vector product / vdot(v, M v) of the to_dense() matrix, for ANY entry list (uncoalesced, any order). *)
Theorem C12_coo_apply_dense : forall (o : Kops), Klaws o -> forall (S : coo o) (v : list o),
  (let '(r, _, _) := S in length v <= r) ->
  coo_apply o S v = mapply o (coo_to_mat o S) v /\ coo_expect o S v = mexpect o (coo_to_mat o S) v.
Proof.
  intros o H S v Hv. pose proof (coo_apply_dense o H S v Hv) as E. split; [exact E|].
  unfold coo_expect, mexpect. rewrite E. reflexivity.
Qed.

(* ... and for operators built from a representation, sparse apply_to / expect == dense apply_to / expect. *)
Theorem C12_dense_sparse_apply_agree : forall (o : Kops), Klaws o ->
  forall N (ops : list (o * list (list (nat * nat * o) * list nat))) (v : list o), length v <= 2 ^ N ->
  coo_apply o (sparse_from_repr o N ops) v = mapply o (dense_from_repr o N ops) v /\
  coo_expect o (sparse_from_repr o N ops) v = mexpect o (dense_from_repr o N ops) v.
Proof. exact sparse_dense_apply. Qed.

(* SparseOperator.__rmul__ (scalar * values) is the entrywise scaling (with C12_sparse_add_dense for __add__). *)
Theorem C12_coo_scale_dense : forall (o : Kops), Klaws o -> forall s (A : coo o) i j,
  coo_dense o (coo_scale o s A) i j = kmul o s (coo_dense o A i j).
Proof. exact coo_scale_dense. Qed.

(* ---- operator algebra of DenseOperator: @, +, scalar *, apply_to, expect --------------------------------- *)
(* (A @ B).apply_to(v) = A.apply_to(B.apply_to(v)) *)
Theorem C12_apply_matmul : forall (o : Kops), Klaws o -> forall (A B : mat o) (v : list o), fst B = fst A ->
  mapply o (matmul o A B) v = mapply o A (mapply o B v).
Proof. exact mapply_matmul. Qed.

(* apply_to is linear in the operator *)
Theorem C12_apply_linear : forall (o : Kops), Klaws o -> forall s (A B : mat o) (v : list o), fst B = fst A ->
  mapply o (madd o A B) v = vadd (mapply o A v) (mapply o B v) /\
  mapply o (mscale o s A) v = vscale s (mapply o A v).
Proof. intros o H s A B v E. split; [exact (mapply_madd o H A B v E) | exact (mapply_mscale o H s A v)]. Qed.

(* expect is linear in the operator *)
Theorem C12_expect_linear : forall (o : Kops), Klaws o -> forall s (A B : mat o) (v : list o),
  fst B = fst A -> length v <= fst A ->
  mexpect o (madd o A B) v = kadd o (mexpect o A v) (mexpect o B v) /\
  mexpect o (mscale o s A) v = kmul o s (mexpect o A v).
Proof. exact mexpect_linear. Qed.

(* non-vacuity: the premises of the theorems above are satisfiable (complex numbers, one qubit, the operator
   2 * n = 2 |r><r| given with a repeated target, the state (1, 1)); and the meaning function is not degenerate:
   over the dyadic Gaussian rationals, X_0 (x) n_1 + i * Y_1 (Y written gr: i, rg: -i) has the expected entries. *)
Example C12_premises_satisfiable :
  let ops : list (CK * list (list (nat * nat * CK) * list nat)) := [(k1 CK, [([(1, 1, kadd CK (k1 CK) (k1 CK))], [0; 0])])] in
  let v : list CK := [k1 CK; k1 CK] in
  length v <= 2 ^ 1 /\ fst (dense_from_repr CK 1 ops) = fst (dense_from_repr CK 1 ops) /\ length v <= fst (dense_from_repr CK 1 ops) /\
  (let '(r, _, _) := sparse_from_repr CK 1 ops in length v <= r) /\ 1 < 2 ^ 1.
Proof. cbv zeta. rewrite (proj1 (dense_from_repr_entry CK CK_laws 1 _)). simpl. repeat split; auto. Qed.

Example C12_repr_entry_sample :
  let one := k1 DyK in let i := kI DyK in
  let ops := [(one, [([(0, 1, one); (1, 0, one)], [0]); ([(1, 1, one)], [1])]);
              (i, [([(0, 1, i); (1, 0, kopp DyK i)], [1])])] in
  map (fun ij => repr_entry DyK 2 ops (fst ij) (snd ij)) [(1, 3); (3, 1); (0, 1); (1, 0); (2, 3); (0, 0)] =
  [one; one; kopp DyK one; one; kopp DyK one; k0 DyK] /\
  map (fun ij => mget DyK (dense_from_repr DyK 2 ops) (fst ij) (snd ij)) [(1, 3); (3, 1); (0, 1); (1, 0); (2, 3); (0, 0)] =
  [one; one; kopp DyK one; one; kopp DyK one; k0 DyK].
Proof. vm_compute. split; reflexivity. Qed.

(* DensityMatrix.overlap on ARBITRARY (not necessarily Hermitian) D x D data is Tr(A^dagger B):
   overlap(A,B) = sum_c sum_r conj(A[r,c]) * B[r,c] = sum_c (A^dagger B)[c,c]. *)
Theorem C12_dm_overlap_trace : forall (o : Kops), Klaws o -> forall D (a b : list o), length a = D * D ->
  dm_overlap o a b =
  ksumn D (fun c => ksumn D (fun r => kmul o (kconj o (get a (r * D + c))) (get b (r * D + c)))).
Proof. exact dm_overlap_trace. Qed.

(* inner / overlap (both are vdot) are anti-linear in the first slot and conjugate-symmetric. *)
Theorem C12_overlap_antilinear : forall (o : Kops), Klaws o -> forall s (a b : list o),
  dm_overlap o (vscale s a) b = kmul o (kconj o s) (dm_overlap o a b) /\
  sv_inner o (vscale s a) b = kmul o (kconj o s) (sv_inner o a b).
Proof. intros o H s a b. split; exact (vdot_antilinear o H s a b). Qed.

Theorem C12_overlap_conj_sym : forall (o : Kops), Klaws o -> forall (a b : list o), length a = length b ->
  dm_overlap o a b = kconj o (dm_overlap o b a) /\ sv_inner o a b = kconj o (sv_inner o b a).
Proof. intros o H a b E. split; exact (vdot_conj_sym o H a b E). Qed.
