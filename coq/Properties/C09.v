(* C09 — the DMRG solver finds the ground state of the final Hamiltonian.
   Proved here: the control contract of DMRGBackendImpl (sweep schedule and convergence logic) for EVERY
   number of sites N = n+3 >= 3 and EVERY stream of energies returned by the two-site minimiser.
   That the converged energy is the ground energy is numerical and only validated (dense eigvalsh).
   The machine (Model/MpsMachine.v, kind DMRG) is tied to /repo/emu_mps/mps_backend_impl.py by the exact
   trace correspondence of tools/props/_mps_trace.py.  Only final statements here. *)
From Coq Require Import ZArith List Bool PrimFloat.
From EV Require Import Base.Arith Gen.Brent Model.MpsMachine Proofs.MpsStep Proofs.MpsPhase Proofs.MpsSweep
  Proofs.MpsTdvpComplete Proofs.DmrgStep Proofs.DmrgPhase Proofs.DmrgSweep Proofs.DmrgContract Proofs.MpsTdvpTrace Proofs.DmrgStepContract Proofs.MpsTdvpRun Proofs.DmrgRun Proofs.DmrgN2 Proofs.MpsRunLoop Proofs.MpsRunLoopCor.
Import ListNotations.
Open Scope Z_scope.

(* One sweep is exactly 2N-4 progress() calls: N-2 two-site minimisations to the right (sites 0..N-3),
   N-2 to the left (sites N-2..1), one energy consumed per call; bath stacks never underflow, no assertion
   fires; afterwards orthogonalize(0) and sweep_complete run on a state at the sweep start position whose
   current energy is the LAST minimisation's energy. *)
Theorem C09_sweep_schedule :
  forall (A : Type) (ar : Arith A) (s : mstate A) (n : nat) (ea : list A) (eb : A) (ec : list A) (el : A)
         (rest : list A),
  dmrg_like A s -> m_N s = Z.of_nat n + 3 -> dstart A s -> length ea = n -> length ec = n ->
  o_energy s = ea ++ eb :: ec ++ el :: rest ->
  exists s1, dframe A s s1 /\ dpos A s1 1 false 2 (m_N s - 2) /\ o_energy s1 = el :: rest /\
    m_ev s1 = rev (flat_map (ev_l2r A) (zup 0 (S n)) ++ flat_map (ev_r2l A) (zdown (Z.of_nat n + 1) n)) ++ m_ev s /\
    iter_progress ar (n + 1 + n + 1) s =
      res_bind (sweep_complete ar (dmrg_before_complete A s1 el rest)) (fun s => Ok (emit s (EvSave A))).
Proof. exact dmrg_sweep_body. Qed.

(* Convergence contract, case 1: the sweep's final energy is within the tolerance of the previous
   sweep's final energy  ==>  the time step completes now: fill_results at the step's end time, time step
   index + 1, next drive row installed, baths re-initialised. *)
Theorem C09_converged_sweep_completes_step :
  forall (A : Type) (ar : Arith A) (s : mstate A) (n : nat) (ea : list A) (eb : A) (ec : list A) (el : A)
         (rest : list A),
  dmrg_like A s -> m_N s = Z.of_nat n + 3 -> dstart A s -> length ea = n -> length ec = n ->
  o_energy s = ea ++ eb :: ec ++ el :: rest ->
  forall (same : bool) (srest : list bool) (next : option A),
  converges A ar (m_prevE s) el (m_etol s) = true -> o_same s = same :: srest ->
  (m_tidx s + 1 < m_steps s -> exists t, next = Some t /\ nthZ (m_times s) (m_tidx s + 2) = Some t) ->
  (m_steps s <= m_tidx s + 1 -> next = None) ->
  exists s', iter_progress ar (n + 1 + n + 1) s = Ok s' /\
    m_kind s' = DMRG /\ m_N s' = m_N s /\ m_steps s' = m_steps s /\ m_times s' = m_times s /\
    m_tidx s' = m_tidx s + 1 /\ m_cur s' = m_tgt s /\
    m_tgt s' = match next with Some t => t | None => m_tgt s end /\
    (match next with Some _ => dstart A s' | None => True end) /\
    m_etol s' = m_etol s /\ m_maxsw s' = m_maxsw s /\ o_same s' = srest /\
    m_prevE s' = m_prevE s /\ m_sweeps s' = m_sweeps s + 1 /\ o_energy s' = rest /\
    m_ev s' = EvSave A :: rev (complete_events A ar (m_tidx s) (m_tgt s) same next) ++ sweep_trace A s n.
Proof. exact dmrg_sweep_converged. Qed.

(* case 2: not converged and the sweep budget is exhausted ==> RuntimeError, nothing is recorded *)
Theorem C09_unconverged_out_of_budget_raises :
  forall (A : Type) (ar : Arith A) (s : mstate A) (n : nat) (ea : list A) (eb : A) (ec : list A) (el : A)
         (rest : list A),
  dmrg_like A s -> m_N s = Z.of_nat n + 3 -> dstart A s -> length ea = n -> length ec = n ->
  o_energy s = ea ++ eb :: ec ++ el :: rest ->
  converges A ar (m_prevE s) el (m_etol s) = false -> m_maxsw s < m_sweeps s + 2 ->
  iter_progress ar (n + 1 + n + 1) s = Err E_DMRG_NOCONV.
Proof. exact dmrg_sweep_gives_up. Qed.

(* case 3: not converged, budget left ==> same time step, no result recorded, another sweep starts from
   the sweep start position with previous energy := this sweep's final energy *)
Theorem C09_unconverged_sweep_repeats :
  forall (A : Type) (ar : Arith A) (s : mstate A) (n : nat) (ea : list A) (eb : A) (ec : list A) (el : A)
         (rest : list A),
  dmrg_like A s -> m_N s = Z.of_nat n + 3 -> dstart A s -> length ea = n -> length ec = n ->
  o_energy s = ea ++ eb :: ec ++ el :: rest ->
  converges A ar (m_prevE s) el (m_etol s) = false -> m_sweeps s + 2 <= m_maxsw s ->
  exists s', iter_progress ar (n + 1 + n + 1) s = Ok s' /\
    dstart A s' /\ dmrg_like A s' /\ m_N s' = m_N s /\ m_steps s' = m_steps s /\ m_times s' = m_times s /\
    m_tidx s' = m_tidx s /\ m_cur s' = m_cur s /\ m_tgt s' = m_tgt s /\ m_etol s' = m_etol s /\
    m_maxsw s' = m_maxsw s /\ o_same s' = o_same s /\
    m_prevE s' = Some el /\ m_sweeps s' = m_sweeps s + 1 /\ o_energy s' = rest /\
    m_ev s' = EvSave A :: sweep_trace A s n.
Proof. exact dmrg_sweep_continue. Qed.

(* A whole DMRG time step, for every energy stream: any number of unconverged sweeps (none records a
   result; the reference energy becomes the last sweep's final energy), then the FIRST sweep whose final
   energy is within the tolerance completes the step with exactly one fill_results at the step's end
   time.  `bl` are the energy blocks of the unconverged sweeps, `bf` the block of the converged one. *)
Theorem C09_step_completes_at_first_converged_sweep :
  forall (A : Type) (ar : Arith A) (n : nat) (bl : list (block A)) (s : mstate A) (bf : block A) (rest : list A)
         (same : bool) (srest : list bool) (next : option A),
  dmrg_like A s -> m_N s = Z.of_nat n + 3 -> dstart A s ->
  Forall (block_ok A n) bl -> block_ok A n bf ->
  o_energy s = flat_map (block_flat A) bl ++ block_flat A bf ++ rest ->
  unconverged A ar (m_prevE s) (m_etol s) bl ->
  converges A ar (last_prev A (m_prevE s) bl) (block_last A bf) (m_etol s) = true ->
  m_sweeps s + Z.of_nat (length bl) + 1 <= m_maxsw s ->
  o_same s = same :: srest ->
  (m_tidx s + 1 < m_steps s -> exists t, next = Some t /\ nthZ (m_times s) (m_tidx s + 2) = Some t) ->
  (m_steps s <= m_tidx s + 1 -> next = None) ->
  exists s', iter_progress ar ((length bl + 1) * (n + 1 + n + 1)) s = Ok s' /\
    m_tidx s' = m_tidx s + 1 /\ m_cur s' = m_tgt s /\
    m_tgt s' = match next with Some t => t | None => m_tgt s end /\
    (match next with Some _ => dstart A s' | None => True end) /\
    m_sweeps s' = m_sweeps s + Z.of_nat (length bl) + 1 /\ o_energy s' = rest /\ o_same s' = srest /\
    m_prevE s' = last_prev A (m_prevE s) bl /\
    (m_kind s' = DMRG /\ m_N s' = m_N s /\ m_steps s' = m_steps s /\ m_times s' = m_times s /\
     m_etol s' = m_etol s /\ m_maxsw s' = m_maxsw s) /\
    exists new, m_ev s' = new ++ m_ev s /\ flat_map (@fill_of A) new = [(m_tidx s, m_tgt s)].
Proof. exact dmrg_step_contract. Qed.

(* A whole DMRG run, for every energy stream that splits into one plan per time step (the blocks of the
   unconverged sweeps followed by the block of the first converged sweep; plan_ok states exactly this and that the
   cumulative sweep counter stays within max_sweeps -- sweep_count is never reset between time steps): the run
   never fails, performs (#sweeps)*(2N-4) progress() calls, consumes exactly the planned energies, and records
   every time step exactly once, in order, at its end time. *)
Theorem C09_dmrg_whole_run :
  forall (A : Type) (ar : Arith A) (n : nat) (t0 t1 : A) (rest : list A) (plan : list (dstep A)) (erest : list A)
         (same : list bool) onorm ounif etol maxsw,
  length plan = S (length rest) -> (length plan <= length same)%nat ->
  plan_ok A ar n None etol 0 maxsw plan ->
  exists s0 sf,
    mk_initial ar DMRG (Z.of_nat n + 3) (1 + Z.of_nat (length rest)) (t0 :: t1 :: rest) etol maxsw
               onorm ounif (flat_map (dstep_flat A) plan ++ erest) same = Ok s0 /\
    iter_progress ar (plan_calls A n plan) s0 = Ok sf /\ is_finished sf = true /\
    o_energy sf = erest /\ m_sweeps sf = plan_sweeps A plan /\
    exists new, m_ev sf = new ++ rev (init_events A ar t1) /\
      flat_map (@fill_of A) new = rev (expected_fills A 0 (t1 :: rest)).
Proof. exact dmrg_whole_run. Qed.

Theorem C09_calls_per_sweep :
  forall (A : Type) (n : nat) (plan : list (dstep A)),
  Z.of_nat (plan_calls A n plan) = plan_sweeps A plan * (2 * Z.of_nat n + 2).
Proof. exact plan_calls_sweeps. Qed.

(* the premises are satisfiable: 3 sites, two time steps; step 0 needs two sweeps (final energies 5 then 5),
   step 1 converges with its first sweep because the reference energy of step 0 is never cleared *)
Example C09_plan_satisfiable :
  plan_ok PrimFloat.float float_arith 0 None 1%float 0 10
    [([([], 7%float, [], 5%float)], ([], 6%float, [], 5%float)); ([], ([], 4%float, [], 5%float))].
Proof.
  cbn [plan_ok fst snd length]. unfold block_ok.
  repeat split; try (repeat constructor; fail); try (vm_compute; reflexivity); vm_compute; discriminate.
Qed.

(* Two sites (the smallest register the property quantifies over): a sweep is two minimisations of the single
   pair; the same convergence contract and whole-run statement hold. *)
Theorem C09_two_sites_step_contract :
  forall (A : Type) (ar : Arith A) (bl : list (block2 A)) (s : mstate A) (bf : block2 A) (rest : list A)
         (same : bool) (srest : list bool) (next : option A),
  dmrg_like2 A s -> dstart2 A s ->
  o_energy s = flat_map (block2_flat A) bl ++ block2_flat A bf ++ rest ->
  unconverged2 A ar (m_prevE s) (m_etol s) bl ->
  converges A ar (last_prev2 A (m_prevE s) bl) (snd bf) (m_etol s) = true ->
  m_sweeps s + Z.of_nat (length bl) + 1 <= m_maxsw s ->
  o_same s = same :: srest ->
  (m_tidx s + 1 < m_steps s -> exists t, next = Some t /\ nthZ (m_times s) (m_tidx s + 2) = Some t) ->
  (m_steps s <= m_tidx s + 1 -> next = None) ->
  exists s', iter_progress ar ((length bl + 1) * 2) s = Ok s' /\
    m_tidx s' = m_tidx s + 1 /\ m_cur s' = m_tgt s /\
    m_tgt s' = match next with Some t => t | None => m_tgt s end /\
    (match next with Some _ => dstart2 A s' | None => True end) /\
    m_sweeps s' = m_sweeps s + Z.of_nat (length bl) + 1 /\ o_energy s' = rest /\ o_same s' = srest /\
    m_prevE s' = last_prev2 A (m_prevE s) bl /\
    (m_kind s' = DMRG /\ m_N s' = 2 /\ m_steps s' = m_steps s /\ m_times s' = m_times s /\
     m_etol s' = m_etol s /\ m_maxsw s' = m_maxsw s) /\
    exists new, m_ev s' = new ++ m_ev s /\ flat_map (@fill_of A) new = [(m_tidx s, m_tgt s)].
Proof. exact dmrg2_step_contract. Qed.

Theorem C09_two_sites_out_of_budget_raises :
  forall (A : Type) (ar : Arith A) (s : mstate A) (e1 e2 : A) (rest : list A),
  dmrg_like2 A s -> dstart2 A s -> o_energy s = e1 :: e2 :: rest ->
  converges A ar (m_prevE s) e2 (m_etol s) = false -> m_maxsw s < m_sweeps s + 2 ->
  iter_progress ar 2 s = Err E_DMRG_NOCONV.
Proof. exact dmrg2_sweep_gives_up. Qed.

Theorem C09_two_sites_whole_run :
  forall (A : Type) (ar : Arith A) (t0 t1 : A) (rest : list A) (plan : list (dstep2 A)) (erest : list A)
         (same : list bool) onorm ounif etol maxsw,
  length plan = S (length rest) -> (length plan <= length same)%nat ->
  plan2_ok A ar None etol 0 maxsw plan ->
  exists s0 sf,
    mk_initial ar DMRG 2 (1 + Z.of_nat (length rest)) (t0 :: t1 :: rest) etol maxsw
               onorm ounif (flat_map (dstep2_flat A) plan ++ erest) same = Ok s0 /\
    iter_progress ar (plan2_calls A plan) s0 = Ok sf /\ is_finished sf = true /\ o_energy sf = erest /\
    exists new, m_ev sf = new ++ rev (init_events A ar t1) /\
      flat_map (@fill_of A) new = rev (expected_fills A 0 (t1 :: rest)).
Proof. exact dmrg2_whole_run. Qed.

(* The loop MPSBackend._run executes terminates for every fuel >= the planned number of progress() calls. *)
Theorem C09_run_loop_terminates :
  forall (A : Type) (ar : Arith A) (n : nat) (t0 t1 : A) (rest : list A) (plan : list (dstep A)) (erest : list A)
         (same : list bool) onorm ounif etol maxsw,
  length plan = S (length rest) -> (length plan <= length same)%nat ->
  plan_ok A ar n None etol 0 maxsw plan ->
  exists s0 sf,
    mk_initial ar DMRG (Z.of_nat n + 3) (1 + Z.of_nat (length rest)) (t0 :: t1 :: rest) etol maxsw
               onorm ounif (flat_map (dstep_flat A) plan ++ erest) same = Ok s0 /\
    (forall fuel, (plan_calls A n plan <= fuel)%nat -> run ar fuel s0 = Ok sf) /\ is_finished sf = true /\
    o_energy sf = erest /\
    exists new, m_ev sf = new ++ rev (init_events A ar t1) /\
      flat_map (@fill_of A) new = rev (expected_fills A 0 (t1 :: rest)).
Proof. exact dmrg_run_loop. Qed.
