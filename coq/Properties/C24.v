(* C24 — noise-model channels act on the intended atomic levels.
   Only final statements; every proof is `exact <lemma>`.
   Model: Model/NoiseOps.v (hand model of emu_base/jump_lindblad_operators.py and of
   pulser_adapter._get_all_lindblad_noise_operators, tied to /repo by the exact correspondence of
   tools/props/c24.py).  K is ANY carrier with the listed operations; where ring laws matter the premise CRing_ok K
   (commutative ring with conjugation and imaginary unit) is stated:
   the complex numbers (C_ok) and the Gaussian integers (zi_ok) are instances.  Coefficients c are the
   already square-rooted rates (the driver checks c == math.sqrt(rate*k) bit-exactly).
   Levels: emulator order (g, r[, x]), Pulser order (r, g[, x]) / XY (u, d[, x]) in both.
   [rb] says which basis change the modelled source performs: RebaseFlipBlock = current source
   (flip of the upper-left 2x2 block), RebasePermute = proposed fix (permute rows and columns [1,0,2..]);
   the driver determines which of the two the source corresponds to. *)
From Coq Require Import String.
From Coq Require Import ZArith List Bool.
From EV Require Import Base.Arith Model.NoiseOps Proofs.NoiseOpsProofs.
Import ListNotations.
Open Scope string_scope.

(* The premises "CRing_ok K" are satisfiable: complex numbers and Gaussian integers. *)
Theorem C24_premises_satisfiable : CRing_ok C_ring /\ CRing_ok zi_ring.
Proof. exact (conj C_ok zi_ok). Qed.

(* Relaxation (dims 2 and 3): exactly one operator, c|g><r| in emulator order; it equals the operator
   Pulser defines (c * sigma_gr) expressed in the emulator's basis, and its <g|.|r> entry is c. *)
Theorem C24_relaxation_table : forall A (K : CRing A),
  forall rb (nm : @noise_model A) dim, dim_ok dim ->
  str_in "relaxation" (nm_types nm) = true ->
  get_lindblad_operators K rb "relaxation" nm true dim = Ok [unit_mat K dim 0 1 (nm_c_relax nm)] /\
  [unit_mat K dim 0 1 (nm_c_relax nm)] =
    map (to_emu_basis K true dim) (pulser_ops K "relaxation" nm true dim) /\
  mget K (unit_mat K dim 0 1 (nm_c_relax nm)) (emu_index Lg) (emu_index Lr) = nm_c_relax nm.
Proof. exact relaxation_table. Qed.

(* Dephasing: raises when the hyperfine rate is non-zero, else the single diagonal operator with -c on
   level 1 (r, resp. d for XY) and +c on every other level (g, and x when present), dims 2 and 3. *)
Theorem C24_dephasing_table : forall A (K : CRing A),
  forall rb (nm : @noise_model A) ising dim, dim_ok dim ->
  str_in "dephasing" (nm_types nm) = true ->
  get_lindblad_operators K rb "dephasing" nm ising dim =
    if nm_hyperfine_nonzero nm then Err E_NOTIMPL else Ok [dephasing_emu A K dim (nm_c_deph nm)].
Proof. exact dephasing_table. Qed.

(* Dephasing is the process Pulser defines (2c|r><r|, resp. 2c|d><d| for XY, 2c = sqrt(2 rate)), for qubits
   AND with the leakage level: the emulator operator is c*Id minus that operator in emulator order, and for
   real c both have the same Lindblad dissipator on every dim x dim rho (dim 2 and 3, ising and XY). *)
Theorem C24_dephasing_same_process : forall A (K : CRing A), CRing_ok K ->
  forall (nm : @noise_model A) ising dim, dim_ok dim ->
  [dephasing_emu A K dim (nm_c_deph nm)] =
    map (fun P => msub K dim (mscale K dim (nm_c_deph nm) (mid K dim)) (to_emu_basis K ising dim P))
        (pulser_ops K "dephasing" nm ising dim) /\
  forall rho, rconj K (nm_c_deph nm) = nm_c_deph nm -> has_shape dim rho = true ->
    dissip2_sum K dim [dephasing_emu A K dim (nm_c_deph nm)] rho =
    dissip2_sum K dim (map (to_emu_basis K ising dim) (pulser_ops K "dephasing" nm ising dim)) rho.
Proof.
  exact (fun A K H nm ising dim Hd => conj (dephasing_shift A K H nm ising dim Hd)
           (fun rho Hc Hs => dephasing_same_dissipator A K H nm ising dim rho Hd Hc Hs)).
Qed.

(* Regression of the fixed finding dephasing-qutrit: on rho = |g><x| Pulser's dissipator vanishes, the
   FORMER operator (0 on x) did not, the current one does. *)
Theorem C24_dephasing_qutrit_regression :
  let rho := unit_mat zi_ring 3 0 2 (1,0)%Z in
  let old_op := mset zi_ring 3 (mset zi_ring 3 (zeros zi_ring 3) 0 0 (1,0)%Z) 1 1 (-1,0)%Z in
  dissip2_sum zi_ring 3 (map (to_emu_basis zi_ring true 3) (pulser_ops zi_ring "dephasing" witness_deph true 3)) rho
    = zeros zi_ring 3 /\
  dissip2_sum zi_ring 3 [old_op] rho <> zeros zi_ring 3 /\
  (exists L, get_lindblad_operators zi_ring RebaseFlipBlock "dephasing" witness_deph true 3 = Ok [L] /\
             dissip2_sum zi_ring 3 [L] rho = zeros zi_ring 3).
Proof. exact dephasing_qutrit_regression. Qed.

(* Depolarizing: the three operators c{sx, sy, sz} on the first two levels (dims 2, 3); each has the
   same dissipator as Pulser's corresponding operator in emulator order (they differ at most by a sign). *)
Theorem C24_depolarizing_table : forall A (K : CRing A), CRing_ok K ->
  forall rb (nm : @noise_model A) ising dim, dim_ok dim ->
  str_in "depolarizing" (nm_types nm) = true ->
  get_lindblad_operators K rb "depolarizing" nm ising dim = Ok (depol_emu A K dim (nm_c_depol nm)) /\
  forall rho, has_shape dim rho = true ->
    map (fun L => dissip2 K dim L rho) (depol_emu A K dim (nm_c_depol nm)) =
    map (fun P => dissip2 K dim (to_emu_basis K ising dim P) rho) (pulser_ops K "depolarizing" nm ising dim).
Proof.
  exact (fun A K H rb nm ising dim Hd Hin => conj (depolarizing_table A K rb nm ising dim Hd Hin)
           (fun rho Hr => depolarizing_same_dissipators A K H nm ising dim rho Hd Hr)).
Qed.

(* A global sign of a jump operator is unobservable (what "same process" means above). *)
Theorem C24_sign_unobservable : forall A (K : CRing A), CRing_ok K ->
  forall dim L rho, dim_ok dim -> has_shape dim L = true -> has_shape dim rho = true ->
  dissip2 K dim (mopp K dim L) rho = dissip2 K dim L rho.
Proof. exact dissip2_opp. Qed.

(* Effective noise, basis change: for EVERY list of operators of the right shape the result is
   sqrt(rate_k) * A_k moved to the emulator's basis (P A P^T, P = swap of the first two levels) —
   for XY (unchanged, every dim), for every 2x2 operator (both source variants), and for every 3x3
   operator when the source permutes rows and columns (proposed fix). *)
Theorem C24_eff_noise_basis_change : forall A (K : CRing A),
  forall rb (nm : @noise_model A) ising dim,
  (ising = false \/ dim = 2 \/ (dim = 3 /\ rb = RebasePermute)) ->
  str_in "eff_noise" (nm_types nm) = true ->
  forallb (has_shape dim) (nm_eff_ops nm) = true ->
  get_lindblad_operators K rb "eff_noise" nm ising dim =
    Ok (map (to_emu_basis K ising dim) (pulser_ops K "eff_noise" nm ising dim)).
Proof. exact eff_noise_basis_change. Qed.

(* ... which means: every entry keeps its meaning, <a|L_k|b> in emulator order is
   c_k * <a|A_k|b> in Pulser order, for all levels a, b of the dimension, including x. *)
Theorem C24_eff_noise_entries_keep_meaning : forall A (K : CRing A),
  forall rb (nm : @noise_model A) dim ops,
  (dim = 2 \/ (dim = 3 /\ rb = RebasePermute)) ->
  str_in "eff_noise" (nm_types nm) = true ->
  forallb (has_shape dim) (nm_eff_ops nm) = true ->
  get_lindblad_operators K rb "eff_noise" nm true dim = Ok ops ->
  Forall2 (fun L co => forall a b, level_in_dim dim a = true -> level_in_dim dim b = true ->
             mget K L (emu_index a) (emu_index b) =
             rmul K (fst co) (mget K (snd co) (pulser_index a) (pulser_index b)))
          ops (combine (nm_eff_c nm) (nm_eff_ops nm)).
Proof. exact eff_noise_entries. Qed.

(* REFUTED for the current source on 3x3 operators (finding F-12): Pulser's |x><r| (rate 1) becomes
   |x><g| in the emulator: only the upper-left 2x2 block is re-based. *)
Theorem C24_eff_noise_3x3_refuted :
  str_in "eff_noise" (nm_types witness_xr) = true /\
  forallb (has_shape 3) (nm_eff_ops witness_xr) = true /\
  exists L,
    get_lindblad_operators zi_ring RebaseFlipBlock "eff_noise" witness_xr true 3 = Ok [L] /\
    mget zi_ring L (emu_index Lx) (emu_index Lg) = (1,0)%Z /\
    mget zi_ring L (emu_index Lx) (emu_index Lr) = (0,0)%Z /\
    mget zi_ring (hd [] (nm_eff_ops witness_xr)) (pulser_index Lx) (pulser_index Lr) = (1,0)%Z /\
    [L] <> map (to_emu_basis zi_ring true 3) (pulser_ops zi_ring "eff_noise" witness_xr true 3).
Proof. exact eff_noise_3x3_flip_block_wrong. Qed.

(* Filter: the operators of a noise model are the concatenation, in order, of the operators of the
   kinds that are not skipped; a failure of any kept kind is the failure of the whole. *)
Theorem C24_all_ops_is_filter_concat : forall A (K : CRing A),
  forall rb types (nm : @noise_model A) ising dim,
  all_ops_from K rb types nm ising dim =
  seq_concat (map (fun t => get_lindblad_operators K rb t nm ising dim)
                  (filter (fun t => negb (str_in t non_lindbladian)) types)).
Proof. exact all_ops_is_filter. Qed.

(* exactly the seven shot-to-shot kinds are skipped *)
Theorem C24_skipped_iff_seven_kinds : forall t,
  str_in t non_lindbladian = true <->
  (t = "SPAM" \/ t = "doppler" \/ t = "amplitude" \/ t = "detuning" \/ t = "register" \/
   t = "dmm_sigma" \/ t = "dmm_crosstalk").
Proof. exact skipped_iff_seven. Qed.

(* leakage contributes no operator by itself; any kind outside the five Lindbladian ones raises *)
Theorem C24_leakage_and_unknown : forall A (K : CRing A),
  forall rb (nm : @noise_model A) ising dim,
  (str_in "leakage" (nm_types nm) = true ->
     get_lindblad_operators K rb "leakage" nm ising dim = Ok []) /\
  (forall t, str_in t lindbladian_kinds = false ->
     exists e, get_lindblad_operators K rb t nm ising dim = Err e).
Proof.
  exact (fun A K rb nm ising dim => conj (leakage_no_operator A K rb nm ising dim)
           (fun t Ht => unknown_raises A K rb t nm ising dim Ht)).
Qed.
