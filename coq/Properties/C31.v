(* C31 — every pulser-core version the package accepts can run the emulators.  PARTIAL: the part of
   the property that is logic (call-site conformance against the installed signatures, PEP 440
   admission).  Only final statements.  `binds` is the operational model of Python argument binding
   (Model/PyBind.v), `call_ok` the declarative check applied to the facts of Gen/Api.v. *)
From Coq Require Import Bool List String.
From EV Require Import Model.PyBind Proofs.PyBindProofs.
Import ListNotations.

(* Generic: whenever the declarative check passes, binding the call does not raise TypeError —
   for every signature and every call (any number of parameters and keywords). *)
Theorem C31_call_ok_sound : forall s c, call_ok s c = true -> binds s c = BindOk.
Proof. exact call_ok_sound. Qed.

(* Lifted to a list of call sites.  ./check instantiates it with Gen.Api.api_calls (regenerated from
   /repo and the installed pulser on every run) and discharges the premise with the Coq VM
   (obligation closed:C31_all_calls_bind_partial). *)
Theorem C31_all_calls_ok_sound : forall l, all_calls_ok l = true ->
  forall s c, In (s, c) l -> binds s c = BindOk.
Proof. exact all_calls_ok_sound. Qed.

(* The shape of finding F-01: a call that does not pass a required keyword-only parameter (pulser
   1.9's Observable.__init__(default_aggregation_method=...)) never binds. *)
Theorem C31_missing_required_kwonly_fails : forall s c name,
  In (name, false) (s_kwonly s) -> ~ In name (names (s_pos s)) -> ~ In name (c_kws c) ->
  binds s c <> BindOk.
Proof. exact missing_required_kwonly. Qed.

(* The premises of the soundness theorem are satisfiable, and the F-01 shape is rejected by the
   check: pulser 1.9.1's Observable.__init__ with and without default_aggregation_method. *)
Example C31_f01_shapes :
  let sig := MkSig [] [("default_aggregation_method", false); ("evaluation_times", true); ("tag_suffix", true)]%string
                   false false in
  call_ok sig (MkCall "fixed"%string 0 ["evaluation_times"; "default_aggregation_method"]%string) = true /\
  call_ok sig (MkCall "pre-fix"%string 0 ["evaluation_times"]%string) = false.
Proof. exact f01_shapes. Qed.

(* A specifier consisting of one `>=` clause has no upper bound: it admits exactly the versions
   whose release tuple is >= the bound (so ">=1.8.0" admits every later release). *)
Theorem C31_ge_spec_no_upper_bound : forall w v, admits [(GE, w)] v = ver_leb w v.
Proof. exact ge_spec_admits. Qed.
