(* C02 — emu-mps TDVP runs reproduce the Pulser Hamiltonian dynamics.
   What is proved here is the discrete core: the complete schedule of kernel calls and side effects
   of a noiseless TDVP run, for EVERY number of sites N = n+3 >= 3, every list of target times and
   every answer of the "did the interaction matrix change" oracle.  The numerical accuracy of the
   kernels (Krylov exponential, truncation) is not proved; see DESIGN.md C02 and the evidence file.
   The machine (Model/MpsMachine.v) is tied to /repo/emu_mps/mps_backend_impl.py by the trace
   correspondence of tools/props/_mps_trace.py.  Only final statements here. *)
From Coq Require Import ZArith List Bool.
From EV Require Import Base.Arith Gen.Brent Model.MpsMachine
  Proofs.MpsStep Proofs.MpsPhase Proofs.MpsSweep Proofs.MpsTdvpComplete Proofs.MpsTdvpStep
  Proofs.MpsTdvpRun Proofs.MpsTdvpTrace Proofs.MpsTdvpN2 Proofs.MpsRunLoop Proofs.MpsRunLoopCor Proofs.MpsTimeSymmetry.
Import ListNotations.
Open Scope Z_scope.

(* A whole run: from __init__/init(), exactly (#intervals) * (2N-3) progress() calls succeed (no
   assertion of _evolve/init_baths fires, no bath stack underflows), the run is then finished, and the
   chronological trace is init_events ++ run_events, where run_events concatenates, per time step k,
   the left-to-right half (pair(i,i+1,dt/2) ; single(i+1,-dt/2)), the rightmost pair with the full
   dt, the right-to-left half, then fill_results / interaction query / update_H(row k+1) / baths. *)
Theorem C02_tdvp_whole_run :
  forall (A : Type) (ar : Arith A) (n : nat) (t0 t1 : A) (rest : list A) (same : list bool)
         onorm ounif oenergy etol maxsw,
  (length (t1 :: rest) <= length same)%nat ->
  exists s0 sf,
    mk_initial ar TDVP (Z.of_nat n + 3) (1 + Z.of_nat (length rest)) (t0 :: t1 :: rest) etol maxsw
               onorm ounif oenergy same = Ok s0 /\
    iter_progress ar (length (t1 :: rest) * (2 * n + 3)) s0 = Ok sf /\ is_finished sf = true /\
    m_ev sf = rev (init_events A ar t1 ++ run_events A ar n 0 (a_ofZ ar 0) (t1 :: rest) same).
Proof. exact tdvp_whole_run. Qed.

(* Results are filled exactly once per time step, in order, at the END time of that step
   (plus once at t = 0 by init): step k is recorded at target_times[k+1]. *)
Theorem C02_fills_once_in_order :
  forall (A : Type) (ar : Arith A) (n : nat) (ts : list A) (k : Z) (cur : A) (same : list bool),
  (length ts <= length same)%nat ->
  flat_map (@fill_of A) (run_events A ar n k cur ts same) = expected_fills A k ts.
Proof. exact run_fills. Qed.

(* The drive row installed for step k+1 is row k+1; nothing is installed after the last step. *)
Theorem C02_update_rows_in_order :
  forall (A : Type) (ar : Arith A) (n : nat) (ts : list A) (k : Z) (cur : A) (same : list bool),
  (length ts <= length same)%nat ->
  flat_map (@update_of A) (run_events A ar n k cur ts same) = expected_updates A k ts.
Proof. exact run_updates. Qed.

(* The kernel calls of one time step, in closed form ... *)
Theorem C02_step_kernels :
  forall (A : Type) (ar : Arith A) (n : nat) (k : Z) (cur tgt : A) (sm : bool) (next : option A),
  flat_map (@kernel_of A) (step_events A ar n k cur tgt sm next) =
  let dt := a_sub ar tgt cur in
  flat_map (kernels_l2r A ar dt) (zup 0 (S n)) ++ [(true, Z.of_nat n + 1, dt)] ++
  flat_map (kernels_r2l A ar dt) (zdown (Z.of_nat n + 1) (S n)).
Proof. exact step_kernels. Qed.

(* ... and they form a palindrome: the second half of the sweep mirrors the first (symmetric,
   second-order composition of the local propagators). *)
Theorem C02_step_kernels_symmetric :
  forall (A : Type) (ar : Arith A) (n : nat) (k : Z) (cur tgt : A) (sm : bool) (next : option A),
  rev (flat_map (@kernel_of A) (step_events A ar n k cur tgt sm next)) =
  flat_map (@kernel_of A) (step_events A ar n k cur tgt sm next).
Proof. exact step_kernels_symmetric. Qed.

(* The two-site corner case of progress(): exactly one progress() call per interval, each a single pair
   evolution over the whole interval followed by the same end-of-step bookkeeping; never fails. *)
Theorem C02_tdvp_whole_run_two_sites :
  forall (A : Type) (ar : Arith A) (t0 t1 : A) (rest : list A) (same : list bool)
         onorm ounif oenergy etol maxsw,
  (length (t1 :: rest) <= length same)%nat ->
  exists s0 sf,
    mk_initial ar TDVP 2 (1 + Z.of_nat (length rest)) (t0 :: t1 :: rest) etol maxsw
               onorm ounif oenergy same = Ok s0 /\
    iter_progress ar (length (t1 :: rest)) s0 = Ok sf /\ is_finished sf = true /\
    m_ev sf = rev (init_events A ar t1 ++ run_events2 A ar 0 (a_ofZ ar 0) (t1 :: rest) same).
Proof. exact tdvp_whole_run2. Qed.

Theorem C02_two_sites_fills_updates_kernels :
  forall (A : Type) (ar : Arith A) (ts : list A) (k : Z) (cur : A) (same : list bool),
  (length ts <= length same)%nat ->
  flat_map (@fill_of A) (run_events2 A ar k cur ts same) = expected_fills A k ts /\
  flat_map (@update_of A) (run_events2 A ar k cur ts same) = expected_updates A k ts /\
  flat_map (@kernel_of A) (run_events2 A ar k cur ts same) = expected_kernels2 A ar cur ts.
Proof. intros; repeat split; [apply run2_fills|apply run2_updates|apply run2_kernels]; assumption. Qed.

(* Fewer than two sites: the constructor refuses (assert self.qubit_count >= 2), for every solver kind. *)
Theorem C02_fewer_than_two_sites_rejected :
  forall (A : Type) (ar : Arith A) (k : kind) (N steps : Z) times etol maxsw onorm ounif oenergy same t1,
  nthZ times 1 = Some t1 -> N < 2 ->
  mk_initial ar k N steps times etol maxsw onorm ounif oenergy same = Err 120.
Proof. exact mk_initial_rejects_small. Qed.

(* The same, for the loop MPSBackend._run actually executes (`while not impl.is_finished(): impl.progress()`,
   modelled by [run] with a fuel bound): it terminates for every fuel >= #intervals*(2N-3), in a finished state,
   with the closed-form trace; more fuel changes nothing; and the loop's result is always a finished state. *)
Theorem C02_run_loop_terminates_with_trace :
  forall (A : Type) (ar : Arith A) (n : nat) (t0 t1 : A) (rest : list A) (same : list bool)
         onorm ounif oenergy etol maxsw,
  (length (t1 :: rest) <= length same)%nat ->
  exists s0 sf,
    mk_initial ar TDVP (Z.of_nat n + 3) (1 + Z.of_nat (length rest)) (t0 :: t1 :: rest) etol maxsw
               onorm ounif oenergy same = Ok s0 /\
    (forall fuel, (length (t1 :: rest) * (2 * n + 3) <= fuel)%nat -> run ar fuel s0 = Ok sf) /\
    is_finished sf = true /\
    m_ev sf = rev (init_events A ar t1 ++ run_events A ar n 0 (a_ofZ ar 0) (t1 :: rest) same).
Proof. exact tdvp_run_loop. Qed.

Theorem C02_run_loop_two_sites :
  forall (A : Type) (ar : Arith A) (t0 t1 : A) (rest : list A) (same : list bool) onorm ounif oenergy etol maxsw,
  (length (t1 :: rest) <= length same)%nat ->
  exists s0 sf,
    mk_initial ar TDVP 2 (1 + Z.of_nat (length rest)) (t0 :: t1 :: rest) etol maxsw
               onorm ounif oenergy same = Ok s0 /\
    (forall fuel, (length (t1 :: rest) <= fuel)%nat -> run ar fuel s0 = Ok sf) /\
    is_finished sf = true /\
    m_ev sf = rev (init_events A ar t1 ++ run_events2 A ar 0 (a_ofZ ar 0) (t1 :: rest) same).
Proof. exact tdvp_run_loop2. Qed.

(* for every solver kind: the loop returns only finished states, and is the iteration of progress() *)
Theorem C02_run_loop_is_iteration :
  forall (A : Type) (ar : Arith A) (n : nat) (s sf : mstate A),
  run ar n s = Ok sf -> is_finished sf = true /\ iter_progress ar n s = Ok sf.
Proof. intros A ar n s sf H. split; [eapply run_result_finished; exact H | apply run_is_iter; exact H]. Qed.

(* What the palindrome buys: over ANY monoid of propagators in which every local kernel satisfies
   K(p,i,-t) * K(p,i,t) = 1 (as exact exponentials do; for the real projected/truncated kernels this is an
   idealisation and stays a premise), the TDVP step taken backwards in time undoes the step taken forwards:
   Phi(tgt -> cur) o Phi(cur -> tgt) = id, for every N = n+3 >= 3.  A one-step method with this property is
   self-adjoint, hence of even order in dt. *)
From Coq Require Import Reals.
Theorem C02_step_time_symmetric :
  forall (M : Type) (mul : M -> M -> M) (one : M),
  (forall a b c, mul a (mul b c) = mul (mul a b) c) -> (forall a, mul one a = a) -> (forall a, mul a one = a) ->
  forall (K : bool -> Z -> R -> M), (forall p i t, mul (K p i (- t)%R) (K p i t) = one) ->
  forall (n : nat) (k k' : Z) (cur tgt : R) (sm sm' : bool) (next next' : option R),
  mul (compose M mul one K (flat_map (@kernel_of R) (step_events R R_arith n k' tgt cur sm' next')))
      (compose M mul one K (flat_map (@kernel_of R) (step_events R R_arith n k cur tgt sm next))) = one.
Proof. exact tdvp_step_time_symmetric. Qed.

(* the premises are satisfiable by a non-trivial instance: the additive group of R with K(p,i,t) = t *)
Example C02_time_symmetry_premises_satisfiable :
  (forall a b c : R, (a + (b + c) = (a + b) + c)%R) /\ (forall a : R, (0 + a = a)%R) /\ (forall a : R, (a + 0 = a)%R) /\
  (forall (p : bool) (i : Z) (t : R), ((fun _ _ x => x) p i (- t) + (fun _ _ x => x) p i t = 0)%R).
Proof. repeat split; intros; cbv beta; ring. Qed.

(* The environment tensors the sweeps are built on (hand model Model/Bath.v of emu_mps.utils.new_left_bath and
   emu_mps.solver_utils.new_right_bath / right_baths, tied exactly on Gaussian-integer tensors by every run of the
   check).  Over EVERY commutative ring with involution, every physical dimension, every state factor A, operator
   factor W and baths L, R of any sizes: growing the left bath by one site and contracting with R is the same
   number as contracting L with the right bath grown by that site.  (A right bath built from the transposed
   operator factors is not adjoint to the left one: that is a broken correspondence here.) *)
From EV Require Import Model.TransferMat Model.Bath Proofs.BathProofs.
Theorem C02_bath_updates_adjoint :
  forall (K : Type) (Ko : RingOps K),
  ring_theory (k0 Ko) (k1 Ko) (kadd Ko) (kmul Ko) (ksub Ko) (kopp Ko) (@eq K) ->
  forall (d : nat) (A W : T3 K) (L R : B3 K),
  pair3 Ko (rdims A W) (left_step Ko d A W L) R = pair3 Ko (ldims A W) L (right_step Ko d A W R).
Proof. exact bath_adjoint. Qed.

(* Hence the contraction of the left environment with the right environment is the same number at EVERY cut of
   EVERY chain whose bond dimensions fit (any length, any bond dimensions, any boundary baths): the effective
   Hamiltonians that TDVP/DMRG build at the different sites of a sweep all project one and the same operator, and
   the value is <psi|H|psi> computed from either end. *)
Theorem C02_environment_contraction_is_cut_independent :
  forall (K : Type) (Ko : RingOps K),
  ring_theory (k0 Ko) (k1 Ko) (kadd Ko) (kmul Ko) (ksub Ko) (kopp Ko) (@eq K) ->
  forall (d : nat) (As1 Ws1 As2 Ws2 : list (T3 K)) (L R : B3 K) (n m : I3),
  chain_ok n As1 Ws1 m ->
  pair3 Ko m (lbath Ko d As1 Ws1 L) (rbath Ko d As2 Ws2 R)
  = pair3 Ko n L (rbath Ko d (As1 ++ As2) (Ws1 ++ Ws2) R).
Proof. exact cut_independent. Qed.

(* the premise is satisfiable by a non-trivial chain (two sites, bond dimension 2 in the middle) *)
Example C02_chain_ok_satisfiable :
  chain_ok (K := GI) (1, 1, 1)%nat
    [MkT3 1 2 2 (fun _ _ _ => (1, 0)); MkT3 2 2 1 (fun _ _ _ => (0, 1))]
    [MkT3 1 4 3 (fun _ _ _ => (1, 1)); MkT3 3 4 1 (fun _ _ _ => (2, 0))] (1, 1, 1)%nat.
Proof. repeat split. Qed.

(* the check evaluates the whole-chain right bath with every intermediate bath tabulated; it is the same function *)
Theorem C02_tabulated_right_bath_is_right_bath :
  forall (K : Type) (Ko : RingOps K) (d : nat) (As Ws : list (T3 K)) (R : B3 K) (t : I3),
  at3 (rbath_m Ko d As Ws R) t = at3 (rbath Ko d As Ws R) t.
Proof. exact rbath_m_eq. Qed.

(* The right environments the sweeps build (right_baths: new_right_bath folded from the right end) are the dense
   operator seen through the state: for every number of sites, all bond dimensions, every local dimension, over every
   commutative ring with a ring involution, the entry (a, b, c) of the environment of a sub-chain is
       sum over bra strings i and ket strings j of  conj(<i|A..>_a) * <i (x) j|W..>_b * <j|A..>_c
   (ramp is the amplitude of the sub-chain entered at the given left bond index).  Together with cut-independence this
   is why every effective Hamiltonian of a sweep is a projection of one and the same dense operator. *)
From EV Require Import Model.MPSAlg Proofs.MPSInner Proofs.ExpectProofs.
Theorem C02_right_environment_is_dense : forall (K : Type) (Ko : RingOps K),
  ring_theory (k0 Ko) (k1 Ko) (kadd Ko) (kmul Ko) (ksub Ko) (kopp Ko) (@eq K) ->
  (forall a b, kconj Ko (kadd Ko a b) = kadd Ko (kconj Ko a) (kconj Ko b)) ->
  (forall a b, kconj Ko (kmul Ko a b) = kmul Ko (kconj Ko a) (kconj Ko b)) ->
  kconj Ko (k0 Ko) = k0 Ko -> kconj Ko (k1 Ko) = k1 Ko ->
  forall (d : nat) (As Ws : list (T3 K)) (a b c : nat), length Ws = length As ->
  rbath Ko d As Ws (ones3 Ko) a b c =
  sumL Ko (strings (repeat d (length As))) (fun i => sumL Ko (strings (repeat d (length As))) (fun j =>
    kmul Ko (kmul Ko (kconj Ko (ramp K Ko As i a)) (ramp K Ko Ws (pair_idx d i j) b)) (ramp K Ko As j c))).
Proof. exact rbath_strings. Qed.
