(* C29 — physically equivalent inputs give equivalent results.  Only final statements.
   The emulators read the pulse phases only through e_n = exp(i phi_n) (Model/SvHam.v, tied to emu_sv/hamiltonian.py by
   C06's correspondence) and the positions only through the interaction matrix U (they receive a SequenceData; checked
   by tools/props/c29.py on every run).  The statements are entrywise identities on the dense Hamiltonian
       Hdense N (ham_site omega delta e) (Uint N U)
   that C06_H_apply_dense proves emu-sv applies, for EVERY N, every drive/interaction data and every commutative ring
   with involution (Klaws; the complex numbers are an instance, C06_laws_satisfiable).
     shift_e u e = e * u   : the phases after adding the constant c to all of them, u = exp(i c);
     conj_e e   = conj e   : the phases after negating all of them;
     Du u N k   = u ^ popcount N k : the diagonal unitary D_u (popcount = number of excited atoms in basis state k). *)
From Coq Require Import List Arith Bool Ring.
From EV Require Import Model.SvBase Model.SvHam Model.PhaseSym Proofs.SvBaseProofs Proofs.SvHamProofs
  Proofs.SvComplexInstance Proofs.PhaseSymProofs Proofs.TimeRevProofs.
Import ListNotations.

(* phase_offset_covariance: adding a constant to every phase conjugates the Hamiltonian by D_u:
   H(Omega, phi + c)[k,k'] = D_u[k] * H(Omega, phi)[k,k'] * conj(D_u[k'])      (all k, k', no side condition). *)
Theorem C29_phase_offset_covariance : forall (o : Kops), Klaws o -> forall (u : o), kmul o u (kconj o u) = k1 o ->
  forall N (omega delta e : list o) (U : list (list o)) k k',
  Hdense o N (ham_site o omega delta (shift_e o u e)) (Uint o N U) k k' =
  kmul o (kmul o (Du o u N k) (Hdense o N (ham_site o omega delta e) (Uint o N U) k k')) (kconj o (Du o u N k')).
Proof. exact phase_offset_covariance. Qed.

(* D_u is unitary (diagonal with D_u[k] conj(D_u[k]) = 1) ... *)
Theorem C29_Du_unitary : forall (o : Kops), Klaws o -> forall (u : o), kmul o u (kconj o u) = k1 o ->
  forall N k, kmul o (Du o u N k) (kconj o (Du o u N k)) = k1 o.
Proof. exact Du_inverse. Qed.

(* ... and leaves the weight of every basis state unchanged: |(D_u v)_k|^2 = |v_k|^2.  D_u is diagonal, so it commutes
   with every n_i; occupations, correlations <n_i n_j> and bitstring probabilities are functions of these weights. *)
Theorem C29_Du_preserves_weights : forall (o : Kops), Klaws o -> forall (u : o), kmul o u (kconj o u) = k1 o ->
  forall N (v : nat -> o) k,
  kmul o (kconj o (kmul o (Du o u N k) (v k))) (kmul o (Du o u N k) (v k)) = kmul o (kconj o (v k)) (v k).
Proof. exact Du_preserves_weights. Qed.

(* phase_negation_conjugate: negating every phase conjugates the Hamiltonian entrywise (Omega, delta, U real). *)
Theorem C29_phase_negation_conjugate : forall (o : Kops), Klaws o ->
  forall N (omega delta e : list o) (U : list (list o)),
  (forall n, kconj o (get omega n) = get omega n) -> (forall n, kconj o (get delta n) = get delta n) ->
  (forall i j, kconj o (getU o U i j) = getU o U i j) ->
  forall k k', Hdense o N (ham_site o omega delta (conj_e o e)) (Uint o N U) k k' =
               kconj o (Hdense o N (ham_site o omega delta e) (Uint o N U) k k').
Proof. exact phase_negation_conjugate. Qed.

(* Negating the phases ALONE is therefore not an equivalence: exp(-i conj(H) t) = conj(exp(+i H t)) is the time-reversed
   evolution (both emulators and the independent dense reference change their results alike, see tools/props/c29.py).
   time_reversal: negating phases, detunings and interactions together gives  H' = - conj H(Omega, phi + pi, delta, U)
   (shift_e (-1) e = the phases shifted by pi, an equivalent sequence by C29_phase_offset_covariance), hence
   exp(-i H' t) = conj(exp(-i H(phi+pi) t)): same weights for every basis state, energy negated. *)
Theorem C29_time_reversal : forall (o : Kops), Klaws o ->
  forall N (omega delta e : list o) (U : list (list o)),
  (forall n, kconj o (get omega n) = get omega n) -> (forall n, kconj o (get delta n) = get delta n) ->
  (forall i j, kconj o (getU o U i j) = getU o U i j) ->
  forall k k',
  Hdense o N (ham_site o omega (neg_l o delta) (conj_e o e)) (Uint o N (negU o U)) k k' =
  kopp o (kconj o (Hdense o N (ham_site o omega delta (shift_e o (kopp o (k1 o)) e)) (Uint o N U) k k')).
Proof. exact time_reversal. Qed.

(* -1 is a unit, so the pi-shifted sequence is covered by C29_phase_offset_covariance *)
Theorem C29_minus_one_unit : forall (o : Kops), Klaws o -> kmul o (kopp o (k1 o)) (kconj o (kopp o (k1 o))) = k1 o.
Proof. exact minus_one_unit. Qed.

(* the flipped bit is the only way popcount changes between two basis states connected by a single-site term *)
Theorem C29_popcount_same_except : forall N n k k', n < N -> same_except N n k k' = true ->
  popcount N k + bit N n k' = popcount N k' + bit N n k.
Proof. exact popcount_same_except. Qed.

(* premises are satisfiable: over the complex numbers, u = i is a unit *)
Section Satisfiable.
Add Ring CKr29 : (K_ring CK CK_laws).
Example C29_premises_satisfiable : Klaws CK /\ kmul CK (kI CK) (kconj CK (kI CK)) = k1 CK.
Proof.
  split; [exact CK_laws|]. rewrite (conj_I CK CK_laws).
  transitivity (kopp CK (kmul CK (kI CK) (kI CK))); [ring|]. rewrite (I_sq CK CK_laws). ring.
Qed.
End Satisfiable.
