(* C05 — the MPO Hamiltonian equals the dense neutral-atom Hamiltonian.
   Only final statements.  The model (Model/MpoHam.v) is a hand transcription of
   /repo/emu_mps/hamiltonian.py with labelled bonds; it is tied to the code on every run by an exact
   entry-by-entry comparison of all factors (tools/props/c05.py).
   Formalism F3: <b|MPO|b'> is the single entry of the ordered product of the per-site scalar bond
   matrices; "contracts to the dense Hamiltonian" is "for all b, b' the entries agree".
   Everything is proved for EVERY commutative ring K (so for the complex numbers). *)
From Coq Require Import List ZArith Arith Ring_theory.
Import ListNotations.
From EV Require Import Model.MpoHam Proofs.MpoHamProofs.

Definition comm_ring {K} (R : ringops K) : Prop :=
  ring_theory (k0 R) (k1 R) (kadd R) (kmul R) (ksub R) (kopp R) eq.
(* the test behind torch's .any() may only call zero what is zero *)
Definition sound_zero_test {K} (R : ringops K) : Prop := forall x, kisz R x = true -> x = k0 R.
Definition symmetric {K} (U : nat -> nat -> K) : Prop := forall i j, U i j = U j i.

(* For every N >= 2 and every symmetric interaction matrix (any sparsity pattern): the left bond of
   the first factor and the right bond of the last factor have dimension 1, and the right bond
   dimension of every factor equals the left bond dimension of the next one -- indeed the two
   LABEL LISTS agree, which is what lets the contraction go through. *)
Theorem C05_mpo_shapes_chain : forall K (R : ringops K) ht N (Uraw : nat -> nat -> K),
  symmetric Uraw -> 2 <= N ->
  dimL R ht N Uraw 0 = 1 /\ dimR R ht N Uraw (N - 1) = 1 /\
  (forall n, S n < N -> dimR R ht N Uraw n = dimL R ht N Uraw (S n)) /\
  (forall n, S n < N -> labs_out R ht N Uraw n = labs_in R ht N Uraw (S n)).
Proof.
  intros K R ht N Uraw Hs HN. destruct (boundary_bonds R ht N Uraw HN) as [A B].
  repeat split; auto.
  - intros. apply dims_chain; auto.
  - intros n Hn. rewrite (shapes_chain R ht N Uraw Hs HN n) by (apply Nat.lt_succ_l; exact Hn).
    unfold bond. apply Nat.ltb_lt in Hn. rewrite Hn. reflexivity.
Qed.

(* update_H overwrites exactly the entries [0,:,:,0] of factor 0 and [1,:,:,0] of the other factors
   with the new single-site block, leaves every other entry alone, and a second update erases the
   first: "still holds after the drive terms are updated in place" reduces to one update.  The
   written slot is precisely the Idle -> Done transition of the labelled model, for every N >= 2 and
   every interaction pattern. *)
Theorem C05_update_H_local : forall K (R : ringops K) (F : nat -> nat -> nat -> nat -> nat -> K) p q n l b b' r,
  update_H R F p n (upd_row n) b b' 0 = hterm R p n b b' /\
  (l <> upd_row n \/ r <> 0 -> update_H R F p n l b b' r = F n l b b' r) /\
  update_H R (update_H R F p) q n l b b' r = update_H R F q n l b b' r.
Proof.
  intros. split; [apply update_H_writes|split; [apply update_H_frame|apply update_H_overwrite]].
Qed.

(* Any sequence of in-place update_H calls on the same factors leaves exactly what the LAST call alone
   would have written on the original factors: no entry of an earlier update (e.g. third-level noise
   entries) survives, nothing accumulates.  With C05_mpo_elem_dense: after every call of a sequence the
   MPO is the dense Hamiltonian of the drive just written. *)
Theorem C05_update_H_sequence : forall K (R : ringops K) (F : nat -> nat -> nat -> nat -> nat -> K)
  (ps : list (drive K)) q n l b b' r,
  fold_left (update_H R) (ps ++ [q]) F n l b b' r = update_H R F q n l b b' r.
Proof. exact @update_H_sequence. Qed.

Theorem C05_update_H_slot_is_idle_to_done : forall K (R : ringops K) ht N (Uraw : nat -> nat -> K),
  2 <= N -> forall n l r,
  (nth_error (labs_in R ht N Uraw n) l = Some Idle <-> l = upd_row n) /\
  (nth_error (labs_out R ht N Uraw n) r = Some Done <-> r = 0).
Proof. intros. split. apply idle_slot; auto. apply done_slot. Qed.

(* MAIN THEOREM.  For every commutative ring K, every N >= 2, Rydberg and XY, every symmetric
   interaction matrix of any sparsity pattern and any values (the diagonal is ignored), every drive
   (omega cos phi, omega sin phi, delta per site) and every noise block, and all physical index strings
   bo (out) and bi (in) -- of any local dimension --: the element <bo| H_MPO |bi> of the factors built
   by make_H and filled by update_H equals
       sum_i h_i[bo_i,bi_i] prod_{k<>i} delta(bo_k,bi_k)
     + sum_{i<j} U_ij sum_c A_c[bo_i,bi_i] A_c[bo_j,bi_j] prod_{k<>i,j} delta(bo_k,bi_k)
   with A = n (Rydberg) or A_0 = sx, A_1 = sy and U_ij doubled (XY): the dense Hamiltonian. *)
Theorem C05_mpo_elem_dense : forall K (R : ringops K), comm_ring R -> sound_zero_test R ->
  forall ht N (Uraw : nat -> nat -> K), symmetric Uraw -> 2 <= N ->
  forall (p : drive K) (bo bi : nat -> nat),
  mpo_elem R ht N Uraw (update_H R (ent0 R ht N Uraw) p) bo bi
  = dense_elem R ht N Uraw (hterm R p) bo bi.
Proof. exact @mpo_elem_dense. Qed.

(* the same before any update_H (single-site blocks still zero) *)
Theorem C05_mpo_elem_dense_make_H : forall K (R : ringops K), comm_ring R -> sound_zero_test R ->
  forall ht N (Uraw : nat -> nat -> K), symmetric Uraw -> 2 <= N ->
  forall (bo bi : nat -> nat),
  mpo_elem R ht N Uraw (ent0 R ht N Uraw) bo bi
  = dense_elem R ht N Uraw (fun _ => zero_block R) bo bi.
Proof. exact @mpo_elem_dense_make_H. Qed.

(* The main theorem written out for 2 and 3 sites (h_k, d_k, A_c,k are the entries of the drive block,
   the identity and the interaction operator of site k at the physical indices (bo k, bi k)). *)
Theorem C05_mpo_elem_N2 : forall K (R : ringops K), comm_ring R -> sound_zero_test R ->
  forall ht (Uraw : nat -> nat -> K), symmetric Uraw -> forall (p : drive K) (bo bi : nat -> nat),
  let d k := idm R (bo k) (bi k) in
  let a c k := emb2 R (opc R ht c) (bo k) (bi k) in
  let h k := hterm R p k (bo k) (bi k) in
  mpo_elem R ht 2 Uraw (update_H R (ent0 R ht 2 Uraw) p) bo bi
  = kadd R (kadd R (kmul R (h 0) (d 1)) (kmul R (d 0) (h 1)))
      (sumc R ht (fun c => kmul R (kmul R (a c 0) (a c 1)) (scale R ht (Uraw 0 1)))).
Proof. exact @mpo_elem_N2. Qed.

Theorem C05_mpo_elem_N3 : forall K (R : ringops K), comm_ring R -> sound_zero_test R ->
  forall ht (Uraw : nat -> nat -> K), symmetric Uraw -> forall (p : drive K) (bo bi : nat -> nat),
  let d k := idm R (bo k) (bi k) in
  let a c k := emb2 R (opc R ht c) (bo k) (bi k) in
  let h k := hterm R p k (bo k) (bi k) in
  let add := kadd R in let mul := kmul R in
  mpo_elem R ht 3 Uraw (update_H R (ent0 R ht 3 Uraw) p) bo bi
  = add (add (add (add (add (mul (mul (h 0) (d 1)) (d 2)) (mul (mul (d 0) (h 1)) (d 2)))
                           (mul (mul (d 0) (d 1)) (h 2)))
      (sumc R ht (fun c => mul (mul (mul (a c 0) (a c 1)) (d 2)) (scale R ht (Uraw 0 1)))))
      (sumc R ht (fun c => mul (mul (mul (a c 0) (d 1)) (a c 2)) (scale R ht (Uraw 0 2)))))
      (sumc R ht (fun c => mul (mul (mul (d 0) (a c 1)) (a c 2)) (scale R ht (Uraw 1 2)))).
Proof. exact @mpo_elem_N3. Qed.

(* The premises are satisfiable: the Gaussian integers are such a ring, with a sound zero test, and
   e.g. U_ij = |i-j|-dependent integer values form a symmetric matrix. *)
Theorem C05_premises_satisfiable :
  comm_ring gi_ops /\ sound_zero_test gi_ops /\
  symmetric (fun i j => (Z.of_nat (i * j), 0%Z) : GI) /\ 2 <= 5.
Proof.
  split; [exact gi_ring|split; [exact gi_isz_sound|split]].
  - intros i j. rewrite Nat.mul_comm. reflexivity.
  - repeat constructor.
Qed.
