(* C26 — resuming from an autosave gives the same results as an uninterrupted run; the autosave file
   is removed at the end.  Only final statements (proofs in Proofs/ResumeProofs.v, Proofs/FsProofs.v).

   Model (Model/Resume.v): the solver object is a map field -> value; `progress()` is an oracle
   kernel [step] consuming external inputs [Env] (Python `random` numbers, clock readings) — explicit
   premises say that stepping, termination, the results and their permutation depend only on the
   fields [reads].  Generated from the source on every run (Gen/ResumeFlow.v): the orchestration of a
   normal run ([run_flow]) and of `MPSBackend.resume` ([resume_flow]), the clean-up after the
   progress loop ([run_tail]), the fields transformed by __getstate__/__setstate__ ([get_over],
   [set_over]) and every `self.<field>` of the stepping methods ([step_reads]).  The check evaluates
   `pickle_ok step_reads get_over set_over (rebinds resume_flow)`, `same_post run_flow resume_flow`
   and `removes run_tail` with vm_compute; the theorems below turn `true` into the property. *)
From Coq Require Import List String.
From EV Require Import Model.Fs Model.Resume Proofs.FsProofs Proofs.ResumeProofs.
Import ListNotations.

(* pickle_roundtrip_state: after save + load + the rebinding done by resume, the solver object agrees
   with the saved one on every field the stepping reads — provided no such field is rebound by
   resume or transformed by __getstate__/__setstate__ other than through an accepted round trip
   (config, results, state: premise [roundtrip], validated by the real crash/resume runs). *)
Theorem C26_pickle_roundtrip_state :
  forall (V : Type) (gT sT : string -> V -> V) (get_over set_over resume_sets reads : list string)
         (rebind : string -> option V),
    (forall f, rebind f <> None -> In f resume_sets) ->
    (forall f v, In f roundtrip_ok ->
       (let p := if smem f get_over then gT f v else v in if smem f set_over then sT f p else p) = v) ->
    forall s : st V,
      pickle_ok reads get_over set_over resume_sets = true ->
      agree reads (restore sT set_over rebind (snapshot gT get_over s)) s.
Proof. exact restore_snapshot_agree. Qed.

(* resume_equals_run: for EVERY machine satisfying the locality premises, every start state, every
   number k of completed units of work before the interruption and every continuation of the external
   inputs: if the run resumed from the snapshot taken after k units returns (r, ef), the uninterrupted
   run returns the same (r, ef) — results INCLUDING the post-processing each entry point applies. *)
Theorem C26_resume_equals_run :
  forall (V Env Res : Type) (step : st V -> Env -> st V * Env) (finished : st V -> bool)
         (results_of : st V -> Res) (permute : st V -> Res -> Res) (gT sT : string -> V -> V)
         (get_over set_over resume_sets reads : list string) (rebind : string -> option V),
    (forall s s' e, agree reads s s' ->
        agree reads (fst (step s e)) (fst (step s' e)) /\ snd (step s e) = snd (step s' e)) ->
    (forall s s', agree reads s s' -> finished s = finished s') ->
    (forall s s', agree reads s s' -> results_of s = results_of s') ->
    (forall s s' r, agree reads s s' -> permute s r = permute s' r) ->
    (forall f, rebind f <> None -> In f resume_sets) ->
    (forall f v, In f roundtrip_ok ->
       (let p := if smem f get_over then gT f v else v in if smem f set_over then sT f p else p) = v) ->
    forall run_flow resume_flow : list stage,
      pickle_ok reads get_over set_over resume_sets = true ->
      same_post run_flow resume_flow = true ->
      forall (s0 : st V) (e0 : Env) (k fuel : nat) (sk : st V) (ek : Env) (r : Res) (ef : Env),
        iter step finished k s0 e0 = (sk, ek) ->
        outcome step finished results_of permute resume_flow fuel
                (restore sT set_over rebind (snapshot gT get_over sk)) ek = Some (r, ef) ->
        outcome step finished results_of permute run_flow (k + fuel) s0 e0 = Some (r, ef).
Proof. exact resume_equals_run. Qed.

(* autosave_removed: a clean-up routine passing the check `removes` always runs to its end and leaves
   nothing under the advertised name, whatever was on disk (both platforms). *)
Theorem C26_autosave_removed :
  forall (p : list op), removes p = true ->
  forall (C : Type) (C_eq_dec : forall x y : C, {x = y} + {x <> y})
         (pl : platform) (c : C) (s : fs C),
    exists s', final pl c p s = Some s' /\ s' Adv = None.
Proof. exact removes_sound. Qed.

(* The file the resumed run advertises — the one it autosaves to and `_run` removes at the end
   (C26_autosave_removed is about that name) — is the path GIVEN to resume, not the path recorded in
   the pickle by the interrupted run (they differ when the file was moved/renamed/copied or the cwd
   changed), for every flow passing the check `file_rebound`. *)
Theorem C26_resumed_file_is_given :
  forall (P : Type) (fl : list stage) (given recorded : P),
    file_rebound fl = true -> adv_at_run fl None given recorded = Some given.
Proof. exact resumed_file_is_given. Qed.

(* ... and a flow without the rebinding runs with the recorded path. *)
Example C26_file_rebound_example :
  file_rebound [SLoad; SRebind "autosave_file"%string; SRun] = true /\
  file_rebound [SLoad; SLog; SRun] = false /\
  adv_at_run [SLoad; SLog; SRun] None 1 2 = Some 2.
Proof. exact file_rebound_example. Qed.

(* The premises are satisfiable, and the post-processing premise matters: a machine whose resume flow
   lacks the permutation returns its results in internal order. *)
Example C26_post_mismatch_example :
  same_post ex_flow_run ex_flow_resume = false /\
  let s : st (list nat) := fun _ => [1; 2; 3] in
  outcome ex_step (fun _ => true) (fun s => s "results"%string) (fun _ r => rev r) ex_flow_run 1 s tt
  <> outcome ex_step (fun _ => true) (fun s => s "results"%string) (fun _ r => rev r) ex_flow_resume 1 s tt.
Proof. exact post_mismatch_example. Qed.
