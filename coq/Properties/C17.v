(* C17 — emu-mps quantum-jump trajectories reproduce Lindblad dynamics on average.
   Only final statements.  [o : Kops] is ANY commutative ring with involution, imaginary unit and 1/2 satisfying
   [Klaws o] (the complex numbers are an instance: C06_laws_satisfiable).  Matrices are functions nat -> nat -> K
   used on [0,D)^2, vectors functions nat -> K used on [0,D), for EVERY dimension D and EVERY list of jump
   matrices Js (for the code: Js = every 2x2/3x3 operator placed on every site):
       mv D A v r = sum_{k<D} A r k v k       ip D u v = <u|v> = sum_k conj(u k) v k       outer u v = |u><v|
       JdJ D Js = sum_J J^dagger J            noise_mat D Js = -(i/2) JdJ D Js             heff D H Js = H + noise_mat
       nojump D H Js dt psi = (1 - i dt H_eff) psi
       lindL D Heff Js rho = -i (Heff rho - rho Heff^dagger) + sum_J J rho J^dagger     (Proofs/LindbladAlg.v, C16)
   Executable model of the code's ingredients (dim 2, dense vectors): Model/McwfOps.v, tied to
   NoisyMPSBackendImpl.init_lindblad_noise / do_random_quantum_jump by tools/props/c17.py.

   NOT a theorem (validated statistically by tools/props/c17.py against the dense Lindblad reference of C16):
   convergence of the trajectory average (law of large numbers, finite time-step and root-finding error). *)
From Coq Require Import List Arith Bool ZArith.
From Coq Require Rdefinitions R_sqrt.
Import Rdefinitions.
From EV Require Import Model.SvBase Model.SvHam Model.McwfOps
  Proofs.SvBaseProofs Proofs.SvHamProofs Proofs.SvLindProofs Proofs.LindbladAlg Proofs.LindbladCode
  Proofs.McwfAlg Proofs.McwfOpsProofs Proofs.McwfReal.
Import ListNotations.

(* noise_term_spec (1): init_lindblad_noise.  lindblad_noise[b][b'] = -(i/2) sum_k (L_k^dagger L_k)[b][b'] and
   aggregated_lindblad_ops has one entry per jump operator, in the same order, with
   aggregated[k][b][b'] = (L_k^dagger L_k)[b][b'] = sum_a conj(L_k[a][b]) L_k[a][b']. *)
Theorem C17_noise_term_spec : forall (o : Kops), Klaws o -> forall (Ls : list (M2 o)),
  (forall b b', b < 2 -> b' < 2 ->
     m2 (lindblad_noise o Ls) b b' =
     kmul o (kopp o (kmul o (khalf o) (kI o)))
       (ksum Ls (fun Lk => kadd o (kmul o (kconj o (m2 Lk 0 b)) (m2 Lk 0 b')) (kmul o (kconj o (m2 Lk 1 b)) (m2 Lk 1 b'))))) /\
  length (aggregate o Ls) = length Ls /\
  (forall k d b b', k < length Ls -> b < 2 -> b' < 2 ->
     m2 (nth k (aggregate o Ls) (m2mul (m2mH d) d)) b b' =
     kadd o (kmul o (kconj o (m2 (nth k Ls d) 0 b)) (m2 (nth k Ls d) 0 b'))
            (kmul o (kconj o (m2 (nth k Ls d) 1 b)) (m2 (nth k Ls d) 1 b'))).
Proof.
  intros o laws Ls. split; [|split].
  - intros b b' Hb Hb'. exact (compute_noise_spec o laws Ls b b' Hb Hb').
  - exact (aggregate_length o Ls).
  - intros k d b b' Hk Hb Hb'. rewrite (aggregate_nth o Ls k d Hk). exact (aggregate_entry o laws (nth k Ls d) b b' Hb Hb').
Qed.

(* the premises "H Hermitian" and "dt real" of the theorems below are satisfiable *)
Example C17_premises_satisfiable : forall (o : Kops), Klaws o -> forall D,
  herm_on o D (fun _ _ => k0 o) /\ kconj o (k1 o) = k1 o.
Proof. intros o laws D. split; [intros a b _ _; symmetry; apply (conj_0 o laws) | apply (conj_1 o laws)]. Qed.

(* noise_term_spec (2): with a Hermitian H, the effective Hamiltonian H_eff = H - (i/2) sum_J J^dagger J satisfies
   H_eff - H_eff^dagger = -i sum_J J^dagger J   (every dimension, every jump list).  This is exactly the premise under
   which the Lindblad generator built from H_eff and Js is trace-free (C16_lindblad_trace_free). *)
Theorem C17_heff_antihermitian_part : forall (o : Kops), Klaws o ->
  forall D (H : nat -> nat -> o) (Js : list (nat -> nat -> o)), herm_on o D H ->
  forall r c, r < D -> c < D ->
    ksub o (heff o D H Js r c) (dag o (heff o D H Js) r c) = kopp o (kmul o (kI o) (JdJ o D Js r c)).
Proof. exact heff_antihermitian_part. Qed.

(* norm_decay: as a polynomial identity in the real number dt,
     |(1 - i H_eff dt) psi|^2 = |psi|^2 - dt * <psi| sum_J J^dagger J |psi> + dt^2 |H_eff psi|^2,
   i.e. the squared norm the code compares with the uniform threshold decays at the total jump rate. *)
Theorem C17_norm_decay_first_order : forall (o : Kops), Klaws o ->
  forall D (H : nat -> nat -> o) (Js : list (nat -> nat -> o)) (dt : o) (psi : nat -> o),
  herm_on o D H -> kconj o dt = dt ->
  ip o D (nojump o D H Js dt psi) (nojump o D H Js dt psi) =
  kadd o (ksub o (ip o D psi psi) (kmul o dt (ip o D psi (mv o D (JdJ o D Js) psi))))
         (kmul o (kmul o dt dt) (ip o D (mv o D (heff o D H Js) psi) (mv o D (heff o D H Js) psi))).
Proof. exact norm_decay_first_order. Qed.

(* The weight the code gives to a jump, <psi|J^dagger J|psi>, is the squared norm of the jumped vector J psi, and
   the weights add up to the norm-decay rate of C17_norm_decay_first_order. *)
Theorem C17_jump_weight_is_norm : forall (o : Kops), Klaws o ->
  forall D (Js : list (nat -> nat -> o)) (psi : nat -> o),
  (forall J, ip o D psi (mv o D (mmul o D (dag o J) J) psi) = ip o D (mv o D J psi) (mv o D J psi)) /\
  ip o D psi (mv o D (JdJ o D Js) psi) = ksum Js (fun J => ip o D (mv o D J psi) (mv o D J psi)).
Proof.
  intros o laws D Js psi. split.
  - intros J. exact (jump_weight_is_norm o laws D J psi).
  - exact (jump_weights_sum o laws D Js psi).
Qed.

(* mcwf_first_order: one Monte-Carlo step averaged over its outcomes.  With rho = |psi><psi|,
   "no jump" contributing |phi><phi| with phi = (1 - i H_eff dt) psi (probability 1 - dp and renormalisation cancel
   to this order) and "jump J" contributing dt * |J psi><J psi| (probability dt <J^dagger J> times the normalised
   jumped state), the average is, as a polynomial identity in dt,
       rho + dt * lindL(rho) + dt^2 * H_eff rho H_eff^dagger
   where lindL is the Lindblad generator of C16 built from the SAME H_eff and jump list: the jump weights and the
   effective Hamiltonian the code uses are mutually consistent.  Every dimension, every jump list, every psi. *)
Theorem C17_mcwf_first_order : forall (o : Kops), Klaws o ->
  forall D (H : nat -> nat -> o) (Js : list (nat -> nat -> o)) (dt : o) (psi : nat -> o), kconj o dt = dt ->
  forall r c,
    kadd o (outer o (nojump o D H Js dt psi) (nojump o D H Js dt psi) r c)
           (kmul o dt (ksum Js (fun J => outer o (mv o D J psi) (mv o D J psi) r c))) =
    kadd o (kadd o (outer o psi psi r c) (kmul o dt (lindL o D (heff o D H Js) Js (outer o psi psi) r c)))
           (kmul o (kmul o dt dt) (mmul o D (mmul o D (heff o D H Js) (outer o psi psi)) (dag o (heff o D H Js)) r c)).
Proof. exact mcwf_first_order. Qed.

(* ... and that generator is trace-free (Hermitian H), so the averaged state keeps its trace to first order:
   tr(average) = <psi|psi> + dt^2 |H_eff psi|^2. *)
Theorem C17_mcwf_trace : forall (o : Kops), Klaws o ->
  forall D (H : nat -> nat -> o) (Js : list (nat -> nat -> o)) (dt : o) (psi rho : nat -> nat -> o) (v : nat -> o),
  herm_on o D H -> kconj o dt = dt ->
  tr o D (lindL o D (heff o D H Js) Js rho) = k0 o /\
  tr o D (fun r c => kadd o (outer o (nojump o D H Js dt v) (nojump o D H Js dt v) r c)
                            (kmul o dt (ksum Js (fun J => outer o (mv o D J v) (mv o D J v) r c)))) =
  kadd o (ip o D v v) (kmul o (kmul o dt dt) (ip o D (mv o D (heff o D H Js) v) (mv o D (heff o D H Js) v))).
Proof.
  intros o laws D H Js dt psi rho v HH Hdt. split.
  - exact (mcwf_first_order_trace o laws D H Js rho HH).
  - exact (mcwf_average_trace o laws D H Js dt v HH Hdt).
Qed.

(* jump_choice_weights (ordering lemma): the candidate list [(qubit, op) for qubit ... for op ...] and the
   flattened weights expect_batch(...).view(-1) are both row-major in (qubit, operator): entry q*K + k is
   candidate (q, k) and weight <psi| (L_k^dagger L_k) on qubit q |psi>; both have N*K entries. *)
Theorem C17_jump_choice_weights : forall (o : Kops), Klaws o ->
  forall N (Ls : list (M2 o)) (psi : list o) (d : M2 o),
  length (jump_candidates N (length Ls)) = N * length Ls /\
  length (jump_weights o N Ls psi) = N * length Ls /\
  forall q k, q < N -> k < length Ls ->
    nth (q * length Ls + k) (jump_candidates N (length Ls)) (0, 0) = (q, k) /\
    nth (q * length Ls + k) (jump_weights o N Ls psi) (k0 o) =
      expect_site o N q (m2mul (m2mH (nth k Ls d)) (nth k Ls d)) psi.
Proof.
  intros o laws N Ls psi d.
  destruct (jump_candidates_spec N (length Ls)) as [Lc Gc].
  destruct (jump_weights_spec o N Ls psi d) as [Lw Gw].
  split; [exact Lc|]. split; [exact Lw|].
  intros q k Hq Hk. split; [exact (Gc q k Hq Hk) | exact (Gw q k Hq Hk)].
Qed.

(* The model's weight is the dense expectation value of the single-site operator, and L^dagger L on qubit q is
   J^dagger J for J = L on qubit q: the weights of C17_jump_choice_weights are the <psi|J^dagger J|psi> of
   C17_jump_weight_is_norm / C17_mcwf_first_order.  The jumped state apply_site is J psi. *)
Theorem C17_weights_are_dense_expectations : forall (o : Kops), Klaws o ->
  forall N q (Lk : M2 o) (psi : list o), q < N ->
  expect_site o N q (m2mul (m2mH Lk) Lk) psi =
    ksumn (2 ^ N) (fun r => kmul o (kconj o (get psi r))
       (ksumn (2 ^ N) (fun c => kmul o (site o N q (m2mul (m2mH Lk) Lk) r c) (get psi c)))) /\
  (forall r c, r < 2 ^ N -> c < 2 ^ N ->
     mmul o (2 ^ N) (dag o (site o N q Lk)) (site o N q Lk) r c = site o N q (m2mul (m2mH Lk) Lk) r c) /\
  length (apply_site o N q Lk psi) = 2 ^ N /\
  (forall r, r < 2 ^ N ->
     get (apply_site o N q Lk psi) r = ksumn (2 ^ N) (fun c => kmul o (site o N q Lk r c) (get psi c))).
Proof.
  intros o laws N q Lk psi Hq. split; [|split].
  - exact (expect_site_dense o laws N q _ psi Hq).
  - intros r c Hr Hc.
    rewrite <- (site_mul o laws N q (m2mH Lk) Lk r c Hq Hr Hc).
    apply (mmul_ext o). 
    + intros k _. apply (site_dag o laws).
    + intros k _. reflexivity.
  - exact (apply_site_dense o laws N q Lk psi Hq).
Qed.

(* preserve_norm_rescale (split_matrix(preserve_norm=True), used for every truncation of a noisy run so that the
   squared norm only decays through H_eff): with d the eigenvalues of m m^dagger (all >= 0) and max_bond dropped,
   factor = sqrt(sum(d) / sum(d[max_bond:])) satisfies factor^2 * sum(d[max_bond:]) = sum(d) — the kept part,
   whose squared Frobenius norm is sum(d[max_bond:]), gets the squared norm of m back — and factor >= 1.
   Guard: sum(d[max_bond:]) > 0.  (That the kept part has that norm is the spectral theorem: validated on the
   real split_matrix by tools/props/c17.py, not proved.) *)
Theorem C17_preserve_norm_rescale : forall (d : list Rdefinitions.R) (max_bond : nat),
  (forall x, In x d -> (0 <= x)%R) -> (0 < sumR (skipn max_bond d))%R ->
  let factor := R_sqrt.sqrt (sumR d / sumR (skipn max_bond d))%R in
  (factor * factor * sumR (skipn max_bond d) = sumR d /\ 1 <= factor)%R.
Proof. exact preserve_norm_rescale. Qed.
