(* C22 — per-step drive values are the interpolated Pulser samples; the amplitude is never negative.
   Only final statements; every proof is `exact <lemma>`.
   [extract] is the model of emu_base/pulser_adapter.py:_extract_omega_delta_phi as PulserData.get_sequences
   calls it (all_register_atoms=True) (Model/DriveSamples.v, bit-exact with the real function at the PrimFloat
   instance, checked on every run) at the real-number instance; it uses the PCHIP model of C20.
   samples = Pulser's per-atom sample lists (amp, det, phase) keyed by atom; qids = the register's atoms;
   tt = target times; md = duration; grid md = [0, 1, .., md-1]; interp = C20 interpolation at a list of points.
   History: before /repo 085d359 only the last amplitude row was clamped (F-09) and before 8603313 columns
   existed only for addressed atoms (F-05); both variants are still refuted in Proofs/DriveProofs.v
   (amp_nonneg_refuted, columns_refuted) and their witnesses are regression cases in corpus/C22.json. *)
From Coq Require Import Reals ZArith List.
From EV Require Import Base.Arith Model.Pchip Model.DriveSamples Proofs.PchipProofs Proofs.DriveProofs.
Import ListNotations.
Open Scope R_scope.

Theorem C22_midpoints_spec : forall (tt : list R),
  length (midpoints R_arith tt) = pred (length tt) /\
  forall k, (S k < length tt)%nat -> nth k (midpoints R_arith tt) 0 = (nth k tt 0 + nth (S k) tt 0) / 2.
Proof. intros tt. split; [exact (midpoints_length tt) | exact (midpoints_nth tt)]. Qed.

(* Whenever the function returns: omega, delta, phi have one column per REGISTER atom, in register order;
   for an addressed atom delta and phi are the PCHIP interpolation (C20) of its samples at every step midpoint
   and omega is max(that interpolation, 0); for an atom no channel addresses all three are 0;
   every amplitude entry is >= 0. *)
Theorem C22_drive_values_are_midpoint_interpolation : forall (samples : list (Z * sample_t R)) qids tt md om de ph,
  extract R_arith samples qids tt md = Ok (om, de, ph) ->
  IZR md = last tt 0 /\
  length om = length qids /\ length de = length qids /\ length ph = length qids /\
  Forall (Forall (fun v => 0 <= v)) om /\
  forall j, (j < length qids)%nat ->
    match lookup (nth j qids 0%Z) samples with
    | Some s =>
        nth j om [] = map (clamp0 R_arith) (interp md (sel_amp s) (midpoints R_arith tt)) /\
        nth j de [] = interp md (sel_det s) (midpoints R_arith tt) /\
        nth j ph [] = interp md (sel_phase s) (midpoints R_arith tt)
    | None =>
        nth j om [] = repeat 0 (length tt - 1) /\ nth j de [] = repeat 0 (length tt - 1) /\
        nth j ph [] = repeat 0 (length tt - 1)
    end.
Proof. exact extract_fixed_spec. Qed.

(* The amplitude is never negative: every entry of omega, every step (also after the last Pulser sample),
   every register atom. *)
Theorem C22_amplitude_nonnegative : forall (samples : list (Z * sample_t R)) qids tt md om de ph,
  extract R_arith samples qids tt md = Ok (om, de, ph) -> Forall (Forall (fun v => 0 <= v)) om.
Proof. exact (amp_nonneg_all_rows true). Qed.

(* ... and this does not lean on the clamp inside the sampled range: for an atom with non-negative amplitude
   samples, at every step whose midpoint lies in [0, md-1] the amplitude IS the PCHIP interpolation of the
   samples (the clamp is inactive) and that interpolation is >= 0, by C20's min <= P <= max on each interval.
   The clamp only acts on steps after the last sample (extrapolation). *)
Theorem C22_amplitude_inside_range_is_interpolation :
  forall (samples : list (Z * sample_t R)) qids tt md om de ph,
  extract R_arith samples qids tt md = Ok (om, de, ph) ->
  forall j s, (j < length qids)%nat -> lookup (nth j qids 0%Z) samples = Some s ->
  Forall (fun v => 0 <= v) (sel_amp s) ->
  forall k, (S k < length tt)%nat -> 0 <= nth k (midpoints R_arith tt) 0 <= IZR md - 1 ->
  nth k (nth j om []) 0 = pchip_eval R_arith (grid md) (sel_amp s) (nth k (midpoints R_arith tt) 0) /\
  0 <= pchip_eval R_arith (grid md) (sel_amp s) (nth k (midpoints R_arith tt) 0).
Proof. exact amp_inside_is_interpolation. Qed.

(* the function does return on well-formed input (premises satisfiable) *)
Example C22_extract_runs : exists om de ph,
  extract R_arith [(0%Z, ([5; 3; 1], [0; 0; 0], [0; 0; 0]))] [0%Z] [0; 5 / 2; 11 / 4; 3] 3%Z = Ok (om, de, ph).
Proof. exact fixed_runs_example. Qed.

(* the clamp is max(.,0): it changes nothing where the interpolation is already >= 0 *)
Theorem C22_clamp_spec : (forall v, 0 <= clamp0 R_arith v) /\ (forall v, 0 <= v -> clamp0 R_arith v = v).
Proof. split; [exact clamp0_nonneg | exact clamp0_id]. Qed.
