(* C22 — per-step drive values are the interpolated Pulser samples; the amplitude is never negative.
   Only final statements; every proof is `exact <lemma>`.
   [extract] is the model of emu_base/pulser_adapter.py:_extract_omega_delta_phi (Model/DriveSamples.v,
   bit-exact with the real function at the PrimFloat instance, checked on every run) at the real-number
   instance; it uses the PCHIP model of C20.  samples = Pulser's per-atom sample lists
   (amp, det, phase) keyed by atom; qids = the register's atoms; tt = target times; md = duration.
   grid md = [0, 1, .., md-1]; kept samples qids = the register atoms that some channel addresses.
   STATUS: the model follows the source as it is today.  Two parts of the property are false of it and are
   refuted below: only the LAST amplitude row is clamped (finding F-09) and columns exist only for
   ADDRESSED atoms (finding F-05).  The positive statements that hold after the proposed fixes are already
   proved for the switched model (extract_with true _ / extract_with _ true) and are listed in
   proposed_fixes/C22_after_F05_F09.v. *)
From Coq Require Import Reals ZArith List.
From EV Require Import Base.Arith Model.Pchip Model.DriveSamples Proofs.PchipProofs Proofs.DriveProofs.
Import ListNotations.
Open Scope R_scope.

(* Step midpoints: one per step, the mean of the step's two ends. *)
Theorem C22_midpoints_spec : forall (tt : list R),
  length (midpoints R_arith tt) = pred (length tt) /\
  forall k, (S k < length tt)%nat -> nth k (midpoints R_arith tt) 0 = (nth k tt 0 + nth (S k) tt 0) / 2.
Proof. intros tt. split; [exact (midpoints_length tt) | exact (midpoints_nth tt)]. Qed.

(* Whenever the function returns: max_duration = tt[-1]; omega, delta, phi have one column per addressed
   register atom, in register order; column j of delta and phi is the PCHIP interpolation (C20) of that
   atom's samples on the 1 ns grid at every step midpoint; column j of omega is the same except that its
   last entry is clamped at 0. *)
Theorem C22_values_are_midpoint_interpolation : forall (samples : list (Z * sample_t R)) qids tt md om de ph,
  extract R_arith samples qids tt md = Ok (om, de, ph) ->
  IZR md = last tt 0 /\
  length om = length (kept samples qids) /\ length de = length (kept samples qids) /\
  length ph = length (kept samples qids) /\
  forall j, (j < length (kept samples qids))%nat -> exists s,
    lookup (nth j (kept samples qids) 0%Z) samples = Some s /\
    nth j om [] = clamp_last R_arith (interp md (sel_amp s) (midpoints R_arith tt)) /\
    nth j de [] = interp md (sel_det s) (midpoints R_arith tt) /\
    nth j ph [] = interp md (sel_phase s) (midpoints R_arith tt).
Proof. exact extract_spec. Qed.

(* clamp_last changes nothing but the last entry, which becomes max(.,0). *)
Theorem C22_clamp_last_spec : forall (l : list R),
  length (clamp_last R_arith l) = length l /\
  (forall k, (S k < length l)%nat -> nth k (clamp_last R_arith l) 0 = nth k l 0) /\
  (l <> [] -> nth (length l - 1) (clamp_last R_arith l) 0 = clamp0 R_arith (nth (length l - 1) l 0)) /\
  (forall v, 0 <= clamp0 R_arith v) /\ (forall v, 0 <= v -> clamp0 R_arith v = v).
Proof.
  intros l. split; [exact (clamp_last_length l)|]. split; [exact (clamp_last_nth l)|].
  split; [exact (clamp_last_last l)|]. split; [exact clamp0_nonneg | exact clamp0_id].
Qed.

(* The last amplitude row is never negative (the clamp of the source). *)
Theorem C22_amplitude_nonnegative_partial : forall (samples : list (Z * sample_t R)) qids tt md om de ph,
  extract R_arith samples qids tt md = Ok (om, de, ph) -> (2 <= length tt)%nat ->
  forall j, (j < length om)%nat -> 0 <= nth (length tt - 2) (nth j om []) 0.
Proof. exact (amp_last_row_nonneg false). Qed.

(* The function does return on well-formed input (premises satisfiable). *)
Example C22_extract_runs : exists om de ph,
  extract R_arith [(0%Z, ([5; 3; 1], [0; 0; 0], [0; 0; 0]))] [0%Z] [0; 5 / 2; 11 / 4; 3] 3%Z = Ok (om, de, ph).
Proof. exact extract_runs_example. Qed.

(* REFUTED (finding F-09): non-negative samples 5,3,1 at 0,1,2 ns (duration 3), steps ending at 5/2, 11/4, 3:
   the amplitude of the step before the last is the extrapolated value P(21/8) = -1/4 < 0. *)
Theorem C22_amplitude_nonnegative_refuted : exists (samples : list (Z * sample_t R)) qids tt md om de ph,
  Forall (fun e => Forall (fun v => 0 <= v) (sel_amp (snd e))) samples /\
  extract R_arith samples qids tt md = Ok (om, de, ph) /\
  exists j k, (j < length om)%nat /\ (k < length tt - 1)%nat /\ nth k (nth j om []) 0 < 0.
Proof. exact amp_nonneg_refuted. Qed.

(* REFUTED (finding F-05): a 3-atom register where only atom 1 is addressed yields ONE column, not three. *)
Theorem C22_columns_are_register_atoms_refuted : exists (samples : list (Z * sample_t R)) qids tt md om de ph,
  extract R_arith samples qids tt md = Ok (om, de, ph) /\ length qids = 3%nat /\ length om = 1%nat.
Proof. exact columns_refuted. Qed.
