(* C33 — configuration safeguards are always applied.
   Only final statements; every proof is `exact <lemma>`.  `mps_config_init`, `create_impl`,
   `dmrg_init_guard`, `allowed_permutable_obs`, `permuted_result_tags` are regenerated on every run
   from /repo/emu_mps/mps_config.py and /repo/emu_mps/mps_backend_impl.py (Gen/Guards.v). *)
From Coq Require Import ZArith Reals Bool List String.
From EV Require Import Base.Arith Gen.Guards Model.ConfigGuards Proofs.ConfigGuardsProofs.
Import ListNotations.
Open Scope R_scope.

(* Krylov tolerance floor, in real arithmetic (tol_min = 1/10^12): for every positive precision and
   every accepted autosave interval the constructor succeeds, the effective
   precision * extra_krylov_tolerance is at least 1e-12, the requested value is kept when it was
   already large enough, and otherwise the product is exactly 1e-12. *)
Theorem C33_krylov_floor : forall p e a o tags, 0 < p -> 10 < a ->
  exists e', mps_config_init R_arith p e a o tags = Ok (e', andb o (check_permutable_observables tags)) /\
    tol_min <= p * e' /\
    (tol_min <= p * e -> e' = e) /\
    (p * e < tol_min -> p * e' = tol_min).
Proof. exact krylov_floor. Qed.

(* The premises are satisfiable and the floor is active: precision 1e-9 (= 1/10^9), extra 0. *)
Example C33_krylov_floor_witness :
  exists e', mps_config_init R_arith (1 / 1000000000) 0 11 true [] = Ok (e', true) /\
             (1 / 1000000000) * e' = tol_min.
Proof. exact krylov_floor_witness. Qed.

(* precision = 0 with a too small product is an explicit ZeroDivisionError, never a value *)
Theorem C33_zero_precision_is_error : forall e a o tags, 10 < a ->
  err_class (mps_config_init R_arith 0 e a o tags) = Some exc_ZeroDivisionError.
Proof. exact zero_precision_is_error. Qed.

(* An autosave interval of 10 s or less is rejected (AssertionError), whatever the other arguments;
   conversely every successful construction has autosave_dt > 10. *)
Theorem C33_autosave_rejected : forall p e a o tags, a <= 10 ->
  err_class (mps_config_init R_arith p e a o tags) = Some exc_AssertionError.
Proof. exact autosave_rejected. Qed.

Theorem C33_autosave_accepted_only_above : forall p e a o tags v,
  mps_config_init R_arith p e a o tags = Ok v -> 10 < a.
Proof. exact autosave_accepted_only_above. Qed.

(* Reordering stays on exactly when it was requested and every observable's base tag is whitelisted
   (any arithmetic instance, in particular binary64). *)
Theorem C33_reordering_guard : forall (A : Type) (ar : Arith A) p e a o tags e' o',
  mps_config_init ar p e a o tags = Ok (e', o') ->
  (o' = true <-> o = true /\ Forall (fun t => In t allowed_permutable_obs) tags).
Proof. exact reordering_guard. Qed.

(* Every whitelisted tag is either un-permuted by permute_results (tags extracted from the
   permute_* helpers) or a scalar that does not depend on the qubit order (specification list
   Model.ConfigGuards.order_invariant_tags). *)
Theorem C33_whitelist_sound : forall t, In t allowed_permutable_obs ->
  In t permuted_result_tags \/ In t order_invariant_tags.
Proof. exact whitelist_sound. Qed.

(* The DMRG constructor refuses every non-empty tuple of noise types (NotImplementedError) and
   accepts the empty one. *)
Theorem C33_dmrg_guard : forall noise_types,
  (noise_types <> [] -> err_class (dmrg_init_guard noise_types) = Some exc_NotImplementedError) /\
  (noise_types = [] -> dmrg_init_guard noise_types = Ok tt).
Proof. exact dmrg_guard. Qed.

(* A DMRG request with noise is refused before any implementation object exists, PROVIDED the
   dispatcher create_impl sends every DMRG request to the DMRG constructor.  The premise is a
   closed boolean over the whole (2-element) domain; ./check evaluates it on the generated
   create_impl on every run and proves the unconditional statement from it (obligation
   `closed:C33_dmrg_refuses_noise`).  When create_impl routes a noisy DMRG request elsewhere the
   premise is false and the check reports the violation with a concrete sequence. *)
Theorem C33_dmrg_refuses_noise_if_dispatched : dmrg_dispatch_ok = true ->
  forall has_lindblad noise_types, noise_types <> [] ->
  err_class (mps_select has_lindblad true noise_types) = Some exc_NotImplementedError.
Proof. exact dmrg_refuses_noise. Qed.
