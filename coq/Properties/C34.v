(* C34 — multi-trajectory results aggregate all simulated trajectories.
   Hand model (Model/Aggregate.v) of PulserData.get_sequences' reps expansion, of the run() loops of both
   backends, of pulser 1.9.1's Results.aggregate with the MEAN / BAG_UNION aggregators, and of emu-sv's
   in-place zeroing of shared drive tensors.  Tied to the code by the exact correspondence of
   tools/props/c34.py (stubbed kernels, real get_sequences / run() / Results.aggregate).
   That the reps handed out by Pulser add up to n_trajectories is Pulser's and is checked, not proved.
   Only final statements here. *)
From Coq Require Import ZArith QArith List Bool.
From EV Require Import Base.Arith Model.Aggregate Proofs.AggregateProofs.
Import ListNotations.
Open Scope Z_scope.

(* expansion_count: get_sequences yields sum(reps) SequenceData: each trajectory's data repeated reps
   times, trajectories in order. *)
Theorem C34_expansion_count : forall (T : Type) (trajs : list (T * nat)),
  length (expand trajs) = total_reps trajs /\
  expand trajs = concat (map (fun tr => repeat (fst tr) (snd tr)) trajs).
Proof. exact expansion_full. Qed.

(* run(): aggregate is applied to exactly one result per yielded SequenceData, i.e. sum(reps) results,
   the result of trajectory j appearing reps_j times. *)
Theorem C34_run_aggregates_every_trajectory : forall (T : Type) (runner : T -> results) (trajs : list (T * nat)),
  run_all runner trajs = aggregate (map runner (expand trajs)) /\
  length (map runner (expand trajs)) = total_reps trajs /\
  map runner (expand trajs) = concat (map (fun tr => repeat (runner (fst tr)) (snd tr)) trajs).
Proof. exact run_all_inputs. Qed.

(* single_run_identity: one run is returned unchanged. *)
Theorem C34_single_run_identity : forall r, aggregate [r] = Ok r.
Proof. exact aggregate_single. Qed.

(* aggregate_mean: whenever aggregation of >= 2 results succeeds, every value stored for a MEAN
   observable at (tag, t) is mean_vec of exactly one vector per run, in run order, each being that run's own
   value at (tag, t). *)
Theorem C34_aggregate_mean :
  forall (r0 r1 : results) (rest : list results) (agg : results) (tag t : Z) (v : value),
  aggregate (r0 :: r1 :: rest) = Ok agg ->
  (forall e, In e (r_entries r0) -> e_tag e = tag -> e_meth e = MEAN) ->
  get_result agg tag t = Some v ->
  exists vs : list (list Q),
    Forall2 (fun r w => get_result r tag t = Some (VNum w)) (r0 :: r1 :: rest) vs /\
    length vs = length (r0 :: r1 :: rest) /\ v = VNum (mean_vec vs).
Proof. exact aggregate_mean_thm. Qed.

(* ... and mean_vec is the arithmetic mean: n_runs * (component k of the mean) = sum over the runs of
   component k (for vectors of one length). *)
Theorem C34_mean_is_arithmetic_mean : forall (v : list Q) (r : list (list Q)) (k : nat),
  Forall (fun w => length w = length v) r -> (k < length v)%nat ->
  (nth k (mean_vec (v :: r)) 0 * inject_Z (Z.of_nat (length (v :: r))) == col k (v :: r))%Q.
Proof. exact mean_vec_component. Qed.

(* aggregate_counts: the aggregated Counter at (tag, t) is the multiset union of the runs' Counters ... *)
Theorem C34_aggregate_counts :
  forall (r0 r1 : results) (rest : list results) (agg : results) (tag t : Z) (v : value),
  aggregate (r0 :: r1 :: rest) = Ok agg ->
  (forall e, In e (r_entries r0) -> e_tag e = tag -> e_meth e = BAG_UNION) ->
  get_result agg tag t = Some v ->
  exists bs : list bag,
    Forall2 (fun r b => get_result r tag t = Some (VBag b)) (r0 :: r1 :: rest) bs /\
    length bs = length (r0 :: r1 :: rest) /\ v = VBag (concat bs).
Proof. exact aggregate_counts_thm. Qed.

(* ... in which every bitstring's count is the sum of its counts in the runs, and whose total is
   n_runs * shots when every run sampled `shots` bitstrings. *)
Theorem C34_counts_add_up : forall (k : Z) (bs : list bag),
  bag_count k (concat bs) = fold_right (fun b acc => bag_count k b + acc) 0 bs.
Proof. exact bag_count_concat. Qed.

Theorem C34_counts_total : forall (shots : Z) (bs : list bag),
  Forall (fun b => bag_total b = shots) bs -> bag_total (concat bs) = Z.of_nat (length bs) * shots.
Proof. exact bag_total_shots. Qed.

(* shared_data_idempotent: zeroing the columns of the bad atoms of a trajectory once or k+1 times (its
   repetitions share the tensors) gives the same rows ... *)
Theorem C34_shared_data_idempotent : forall (T : Type) (z : T) (m : list bool) (r : list T) (k : nat),
  Nat.iter (S k) (zero_cols z m) r = zero_cols z m r.
Proof. exact zero_cols_iter. Qed.

(* ... whereas tensors shared by trajectories with DIFFERENT bad atoms would accumulate the union of the
   masks: this is why get_sequences must build fresh tensors per trajectory (checked by the tie). *)
Theorem C34_shared_rows_masks_accumulate : forall (T : Type) (z : T) (m1 m2 : list bool) (r : list T),
  length m1 = length r -> length m2 = length r ->
  zero_cols z m2 (zero_cols z m1 r) = zero_cols z (mask_or m1 m2) r.
Proof. exact zero_cols_compose. Qed.

Example C34_premises_satisfiable :
  exists agg, aggregate [ex_run 1 2; ex_run 3 4; ex_run 5 9] = Ok agg /\
    get_result agg 8 20 = Some (VBag [(0, 1); (3, 5); (0, 3); (3, 5); (0, 5); (3, 5)]) /\
    get_result agg 9 20 = None.
Proof. eexists. split; [vm_compute; reflexivity|]. split; vm_compute; reflexivity. Qed.
