(* C06 — emu-sv operators apply exactly the Hamiltonian and Lindbladian they represent.
   Only final statements.  [o : Kops] is ANY coefficient structure satisfying [Klaws o] (commutative ring
   with involution conj, imaginary unit, 1/2); the complex numbers are an instance (C06_laws_satisfiable).
   Arrays are flat lists, [get l k] is entry k, qubit 0 is the most significant bit:
   bit N n k = (k / 2^(N-n-1)) mod 2,  r = 1, g = 0.   The model functions (create_diagonal, sigma_real,
   sigma_complex, ham_mul, matmul_2x2_with_batched, lind_matmul, ...) are Model/SvHam.v, tied to /repo by the
   exact correspondence of tools/props/c06.py.

   Dense reference objects (defined entrywise, independently of the index maps of the code):
     site N n h k k'   = [k,k' agree outside qubit n] * h[bit_n k][bit_n k']      (1 x..x h x..x 1)
     Hdense N h Ud k k' = [k = k'] * Ud k + sum_{n<N} site N n (h n) k k'
     matvec D A v k    = sum_{k'<D} A k k' * v k'
     ham_site n        = [[0, conj c_n], [c_n, -delta_n]],  c_n = (Omega_n * 1/2) * e_n,  e_n = exp(i phi_n)
     Uint N U k        = sum_{i<j<N} U_ij * bit_i k * bit_j k
   i.e. H = sum_n (Omega_n/2)(e^{-i phi_n}|g><r|_n + e^{+i phi_n}|r><g|_n) - sum_n delta_n n_n + sum_{i<j} U_ij n_i n_j. *)
From Coq Require Import List Arith Bool.
From EV Require Import Model.SvBase Model.SvHam Proofs.SvBaseProofs Proofs.SvHamProofs Proofs.SvLindProofs
  Proofs.SvComplexInstance.
Import ListNotations.

(* The premises are satisfiable: the complex numbers (pairs of reals) satisfy the laws. *)
Theorem C06_laws_satisfiable : Klaws CK.
Proof. exact CK_laws. Qed.

(* _create_diagonal, for every N and every index k < 2^N:
   diag[k] = - sum_i delta_i bit_i(k) + sum_{i<j} U_ij bit_i(k) bit_j(k)   (wd = true: RydbergHamiltonian;
   wd = false: the interaction-only diagonal of RydbergLindbladian). *)
Theorem C06_diag_spec : forall (o : Kops), Klaws o -> forall (wd : bool) N (delta : list o) U,
  length (create_diagonal o wd N delta U) = 2 ^ N /\
  forall k, k < 2 ^ N ->
    get (create_diagonal o wd N delta U) k =
    kadd o (if wd then ksumn N (fun i => kif (bit N i k =? 1) (kopp o (get delta i))) else k0 o)
           (ksumn N (fun i => ksum (seq (i + 1) (N - (i + 1)))
                       (fun j => kif ((bit N i k =? 1) && (bit N j k =? 1)) (getU o U i j)))).
Proof. exact diag_spec. Qed.

(* The complex sigma loop adds  sum_n (c_n sigma+_n + conj(c_n) sigma-_n) v  to the result:
   entry k receives  sum_n ( [bit_n k = 1] c_n v[k with bit n := 0] + [bit_n k = 0] conj(c_n) v[k with bit n := 1] ),
   written with the 2x2 matrix hop c (conj c) 0 = [[0, conj c],[c, 0]] and
   site_apply N n h v k = h[bit_n k][0] v[setbit n k 0] + h[bit_n k][1] v[setbit n k 1]. *)
Theorem C06_sigma_complex_spec : forall (o : Kops), Klaws o -> forall N (omh e vec res : list o),
  length (sigma_complex o N omh e vec res) = length res /\
  forall k, k < length res ->
    get (sigma_complex o N omh e vec res) k =
    kadd o (get res k) (ksumn (length omh) (fun n =>
       site_apply o N n (hop o (kmul o (get omh n) (get e n)) (kconj o (kmul o (get omh n) (get e n))) (k0 o))
                  (get vec) k)).
Proof. exact sigma_complex_spec. Qed.

(* The real (phi = 0) loop adds  sum_n omega_n sigma^x_n v. *)
Theorem C06_sigma_real_spec : forall (o : Kops), Klaws o -> forall N (omh vec res : list o),
  length (sigma_real o N omh vec res) = length res /\
  forall k, k < length res ->
    get (sigma_real o N omh vec res) k =
    kadd o (get res k) (ksumn (length omh) (fun n =>
       site_apply o N n (hop o (get omh n) (get omh n) (k0 o)) (get vec) k)).
Proof. exact sigma_real_spec. Qed.

(* The phi = 0 fast path is sound: with e_n = 1 and real amplitudes both loops return the same array. *)
Theorem C06_sigma_paths_coincide : forall (o : Kops), Klaws o -> forall N (omh e vec res : list o),
  (forall n, n < length omh -> get e n = k1 o /\ kconj o (get omh n) = get omh n) ->
  sigma_complex o N omh e vec res = sigma_real o N omh vec res.
Proof. exact sigma_paths_coincide. Qed.

(* site_apply is the dense product with the single-site operator (what "applies sigma on qubit n" means). *)
Theorem C06_site_apply_dense : forall (o : Kops), Klaws o -> forall N n (h : M2 o) (v : nat -> o) k,
  n < N -> k < 2 ^ N ->
  ksumn (2 ^ N) (fun k' => kmul o (site o N n h k k') (v k')) = site_apply o N n h v k.
Proof. exact site_apply_dense. Qed.

(* H * v equals the dense matrix-vector product, for every N and every vector v.  Premise of the real path:
   when no phase is non-zero (complex = phis.any() is False) then e_n = exp(i*0) = 1 and Omega_n is real. *)
Theorem C06_H_apply_dense : forall (o : Kops), Klaws o ->
  forall N (omega delta : list o) (phinz : list bool) (e : list o) (U : list (list o)) (vec : list o),
  length omega = N -> length vec = 2 ^ N ->
  (any_nonzero phinz = false -> forall n, n < N -> get e n = k1 o /\ kconj o (get omega n) = get omega n) ->
  length (ham_mul o N omega delta phinz e U vec) = 2 ^ N /\
  forall k, k < 2 ^ N ->
    get (ham_mul o N omega delta phinz e U vec) k =
    matvec o (2 ^ N) (Hdense o N (ham_site o omega delta e) (Uint o N U)) (get vec) k.
Proof. exact H_apply_dense. Qed.

(* The dense Hamiltonian is Hermitian when delta and U are real (any complex c_n). *)
Theorem C06_H_hermitian : forall (o : Kops), Klaws o -> forall N (omega delta e : list o) (U : list (list o)),
  (forall n, kconj o (get delta n) = get delta n) -> (forall i j, kconj o (getU o U i j) = getU o U i j) ->
  forall k k', Hdense o N (ham_site o omega delta e) (Uint o N U) k k' =
               kconj o (Hdense o N (ham_site o omega delta e) (Uint o N U) k' k).
Proof. exact H_hermitian. Qed.

(* The GPU path: four index_add_ on zeros == the batched 2x2 product (for every shape (d0,2,d2)). *)
Theorem C06_matmul_2x2_batched_spec : forall (o : Kops), Klaws o -> forall (op : M2 o) d2 (x : list o),
  matmul_2x2_with_batched o op d2 x = matmul_batched o op d2 x.
Proof. exact matmul_2x2_batched_spec. Qed.

(* RydbergLindbladian.__matmul__ for every N, any list of 2x2 jump operators Ls, both the CPU and the GPU
   (matmul_2x2_with_batched) path, every Hermitian rho (D x D, row-major, D = 2^N), entrywise:
       (L @ rho)[r,c] = (H_eff rho)[r,c] - (rho H_eff^dagger)[r,c] + i * sum_{q<N} sum_{L in Ls} (L_q rho L_q^dagger)[r,c]
   where  mmul D A B r c = sum_{k<D} A r k * B k c,  dag A r c = conj (A c r),  L_q = site N q L  and
   H_eff = diag(Uint) + sum_q site q (heff_site q),  heff_site q = _local_terms_hamiltonian(q, S),
   S = compute_noise Ls  (their entries: C06_local_terms_spec, C06_compute_noise_spec below, i.e.
   H_eff = H - (i/2) sum_{q,k} (L_k^dagger L_k)_q).  (The code returns i times the Lindblad generator.) *)
Theorem C06_lindblad_apply_spec : forall (o : Kops), Klaws o ->
  forall (cpu : bool) N (omega delta : list o) (phinz : list bool) (cosphi sinphi : list o)
         (U : list (list o)) (Ls : list (M2 o)) (dm : list o),
  length omega = N -> length dm = 2 ^ N * 2 ^ N ->
  let D := 2 ^ N in
  let Heff := Hdense o N (heff_site o (any_nonzero phinz) (halve o omega) delta cosphi sinphi (compute_noise o Ls))
                     (Uint o N U) in
  let rho := rho_of o D dm in
  (forall a b, a < D -> b < D -> rho a b = kconj o (rho b a)) ->
  forall r c, r < D -> c < D ->
    get (lind_matmul o cpu N omega delta phinz cosphi sinphi U Ls dm) (r * D + c) =
    kadd o (ksub o (mmul o D Heff rho r c) (mmul o D rho (dag o Heff) r c))
      (kmul o (kI o) (ksumn N (fun q => ksum Ls (fun Lk =>
          mmul o D (mmul o D (site o N q Lk) rho) (dag o (site o N q Lk)) r c)))).
Proof. exact lind_apply_spec. Qed.

(* Without the Hermiticity premise the code computes  X - X^dagger + i sum L rho L^dagger  with X = H_eff rho
   (this is why the property is restricted to Hermitian rho), and the output has D*D entries. *)
Theorem C06_lindblad_apply_general : forall (o : Kops), Klaws o ->
  forall (cpu : bool) N (omega delta : list o) (phinz : list bool) (cosphi sinphi : list o)
         (U : list (list o)) (Ls : list (M2 o)) (dm : list o),
  length omega = N -> length dm = 2 ^ N * 2 ^ N ->
  let D := 2 ^ N in
  let Heff := Hdense o N (heff_site o (any_nonzero phinz) (halve o omega) delta cosphi sinphi (compute_noise o Ls))
                     (Uint o N U) in
  let rho := rho_of o D dm in
  length (lind_matmul o cpu N omega delta phinz cosphi sinphi U Ls dm) = D * D /\
  forall r c, r < D -> c < D ->
    get (lind_matmul o cpu N omega delta phinz cosphi sinphi U Ls dm) (r * D + c) =
    kadd o (ksub o (mmul o D Heff rho r c) (kconj o (mmul o D Heff rho c r)))
      (kmul o (kI o) (ksumn N (fun q => ksum Ls (fun Lk =>
          mmul o D (mmul o D (site o N q Lk) rho) (dag o (site o N q Lk)) r c)))).
Proof. exact lind_apply_general. Qed.

(* compute_noise_from_lindbladians:  S[b][b'] = -(1/2) i * sum_k (L_k^dagger L_k)[b][b']. *)
Theorem C06_compute_noise_spec : forall (o : Kops), Klaws o -> forall (Ls : list (M2 o)) b b', b < 2 -> b' < 2 ->
  m2 (compute_noise o Ls) b b' =
  kmul o (kopp o (kmul o (khalf o) (kI o)))
    (ksum Ls (fun Lk => kadd o (kmul o (kconj o (m2 Lk 0 b)) (m2 Lk 0 b')) (kmul o (kconj o (m2 Lk 1 b)) (m2 Lk 1 b')))).
Proof. exact compute_noise_spec. Qed.

(* _local_terms_hamiltonian = [[S00, w (cos - i sin) + S01], [w (cos + i sin) + S10, -delta + S11]]
   with w = Omega/2; on the real path (no non-zero phase) cos = 1, sin = 0.  Hence, with e = cos + i sin, it is
   ham_site + S: the same single-site matrix as in C06_H_apply_dense. *)
Theorem C06_local_terms_spec : forall (o : Kops), Klaws o -> forall (cplx : bool) (w d cs sn : o) (S : M2 o),
  let cs' : o := if cplx then cs else k1 o in
  let sn' : o := if cplx then sn else k0 o in
  local_terms o cplx w d cs sn S =
  (m2 S 0 0, kadd o (kmul o w (ksub o cs' (kmul o (kI o) sn'))) (m2 S 0 1),
   kadd o (kmul o w (kadd o cs' (kmul o (kI o) sn'))) (m2 S 1 0), kadd o (kopp o d) (m2 S 1 1)).
Proof. exact local_terms_spec. Qed.

(* apply_local / apply_density_matrix_to_local_op_T are the left product with L_q and the right product with
   L_q^dagger (entry form used above). *)
Theorem C06_jump_term_spec : forall (o : Kops), Klaws o -> forall (cpu : bool) N (dm : list o) (Lk : M2 o) q,
  length dm = 2 ^ N * 2 ^ N -> q < N ->
  length (apply_T o cpu N (apply_local o cpu dm Lk q) Lk q) = 2 ^ N * 2 ^ N /\
  forall r c, r < 2 ^ N -> c < 2 ^ N ->
    get (apply_T o cpu N (apply_local o cpu dm Lk q) Lk q) (r * 2 ^ N + c) =
    mmul o (2 ^ N) (mmul o (2 ^ N) (site o N q Lk) (rho_of o (2 ^ N) dm)) (dag o (site o N q Lk)) r c.
Proof. exact jump_spec. Qed.
