(* C19 — Brent root finding terminates inside the bracket at a sign change.
   Only final statements; every proof is `exact <lemma>`.  The algorithm is the term generated
   from /repo/emu_base/math/brents_root_finding.py (Gen/Brent.v) at the R instance. *)
From Coq Require Import Reals List.
From EV Require Import Base.Arith Gen.Brent Model.BrentLoop Proofs.BrentProofs Proofs.BrentTermination.
Open Scope R_scope.

(* Every round (query + arbitrary ordinate) from a state satisfying the invariant succeeds — no
   assertion fires, no division by zero — queries a point between a and b, keeps the invariant
   (opposite signs or an exact root at b, |fb| <= |fa|, guess = b), replaces one bracket end by the
   queried point (the bracket never grows), keeps fa = f(a), fb = f(b), and a bisection round
   halves the bracket. *)
Theorem C19_bracket_invariant : forall (s : st R) (yf : R -> R), Inv s -> live s ->
  exists s' x,
    round R_arith s yf = Ok (s', x) /\ Inv s' /\ between (f_a s) (f_b s) x /\
    f_epsilon s' = f_epsilon s /\
    ((f_a s' = x /\ (f_b s' = f_a s \/ f_b s' = f_b s)) \/
     (f_b s' = x /\ (f_a s' = f_a s \/ f_a s' = f_b s))) /\
    (forall f, Tracks f s -> yf x = f x -> Tracks f s') /\
    (f_bisection s' = true -> Rabs (f_b s' - f_a s') = Rabs (f_b s - f_a s) / 2).
Proof. exact round_spec. Qed.

(* find_root_brents on any f with opposite signs at the ends: never raises; if it returns, the
   result r lies in [start,end] and a sign change (or exact root) of f lies within tol of it. *)
Theorem C19_find_root_sound : forall fuel (f : R -> R) start end_ tol eps,
  start <= end_ -> f start * f end_ < 0 -> 0 < eps ->
  match find_root R_arith fuel f start end_ tol eps with
  | Ok r => exists a, start <= a <= end_ /\ start <= r <= end_ /\ f a * f r <= 0 /\
                      (Rabs (r - a) < tol \/ (f a = 0 /\ f r = 0))
  | Err _ => False
  | OutOfFuel => True
  end.
Proof. exact find_root_sound. Qed.

(* Incremental use with an arbitrary (adversarial) ordinate stream: never raises, every queried
   abscissa lies in [start,end], and on convergence the invariant and the box hold. *)
Theorem C19_incremental_sound : forall (ys : list R) start end_ fs fe tol eps,
  start <= end_ -> fs * fe < 0 -> 0 < eps ->
  exists s, init R_arith start end_ fs fe eps = Ok s /\
    Forall (fun x => start <= x <= end_) (fst (run_script R_arith ys tol s)) /\
    match snd (run_script R_arith ys tol s) with
    | Ok s' => Inv s' /\ in_box start end_ s' /\ converged s' tol
    | Err _ => False
    | OutOfFuel => True
    end.
Proof. exact incremental_sound. Qed.

(* Feeding ordinates one at a time gives exactly the state the driver loop reaches. *)
Theorem C19_incremental_equals_loop : forall (f : R -> R) tol ys (s : st R) xs s',
  run_script R_arith ys tol s = (xs, Ok s') ->
  Forall2 (fun x y => y = f x) xs (firstn (length xs) ys) ->
  find_root_loop R_arith (Datatypes.S (length xs)) f tol s = Ok s'.
Proof. exact loop_eq_script. Qed.

(* The constructor accepts exactly ordered brackets with opposite signs. *)
Theorem C19_init_accepts_iff_bracket : forall start end_ fs fe eps (s : st R),
  init R_arith start end_ fs fe eps = Ok s -> start <= end_ /\ fs * fe < 0.
Proof. exact init_ok_inv. Qed.

(* Partial termination: whenever every round the search takes is a bisection (this is what epsilon = 1
   forces in the quantum-jump search once the bracket is shorter than 2|b|), a script of n ordinates
   is enough as soon as |b - a| < tol * 2^n; the search then stops converged after at most n queries.
   Unconditional termination is false in exact arithmetic (accepted secant steps can shrink the bracket
   by less than any fixed factor forever); see DESIGN.md. *)
Theorem C19_bisection_terminates_partial : forall (ys : list R) (tol : R) (s : st R),
  Inv s -> all_bisections ys tol s ->
  Rabs (f_b s - f_a s) < tol * 2 ^ (length ys) ->
  exists s', snd (run_script R_arith ys tol s) = Ok s' /\ converged s' tol /\
             (length (fst (run_script R_arith ys tol s)) <= length ys)%nat.
Proof. exact bisection_terminates. Qed.
