(* C10 — MPS truncation and canonical form honour their contract.
   Only final statements; every proof is `exact <lemma>`.
   Part 1: `_determine_cutoff_index` / `split_matrix` rank arithmetic (Model/Canon.v, the R instance of the term
   whose binary64 instance is compared bit-for-bit with the code).
   Part 2: canonical-form bookkeeping as a state machine over ABSTRACT tensors: the numerical kernels (QR, LQ,
   eigh-split, zip-up step, scaling, gate application, direct sum) are arbitrary functions; the only premises
   are "Q of a QR is a left isometry", "Q of an LQ is a right isometry", "the eigenvector factor of the split is
   a right isometry", "the factor emitted by a zip-up step is a left isometry". [valid m] = the declared
   orthogonality centre (if any) is inside the chain, every tensor left of it is left-isometric and every tensor
   right of it right-isometric. *)
From Coq Require Import ZArith List Reals.
From EV Require Import Base.Arith Model.Canon Proofs.Canon.
Import ListNotations.

(* For every list d (any signs, any order) and eps > 0 the function returns an index i (never raises) with:
   the weight strictly before i is <= eps^2; i is 0 or inside the list; and i is maximal: the weight up to and
   including i exceeds eps^2, or no prefix at all exceeds eps^2 (then i = 0: nothing is discarded). *)
Theorem C10_cutoff_discarded_weight : forall (d : list R) (eps : R), (0 < eps)%R ->
  exists i, determine_cutoff_index R_arith d eps = Ok i /\
    (sumR (firstn i d) <= eps * eps)%R /\
    (i = 0 \/ i < length d) /\
    ((eps * eps < sumR (firstn (S i) d))%R \/
     (i = 0 /\ forall j, (sumR (firstn j d) <= eps * eps)%R)).
Proof. exact cutoff_discarded_weight. Qed.

(* split_matrix keeps `len - max(cutoff, len - max_rank)` columns: never more than max_rank, at least one when
   max_rank >= 1, and when the cap does not bind (len - max_rank <= cutoff) the discarded eigenvalues (the first
   len - kept ones, ascending order of eigh) weigh at most eps^2. *)
Theorem C10_split_rank_bound : forall (d : list R) (eps : R) (max_rank : Z), (0 < eps)%R ->
  exists i, determine_cutoff_index R_arith d eps = Ok i /\
    let kept := split_kept i (length d) max_rank in
    ((0 <= max_rank)%Z -> (Z.of_nat kept <= max_rank)%Z) /\
    ((1 <= max_rank)%Z -> d <> [] -> 1 <= kept) /\
    ((Z.of_nat (length d) - max_rank <= Z.of_nat i)%Z ->
       (sumR (firstn (length d - kept) d) <= eps * eps)%R).
Proof. exact split_rank_bound. Qed.

(* orthogonalize(c), from any valid declared centre or from None, succeeds for every c inside the chain and yields
   declared centre c with every tensor left of c left-isometric and every tensor right of c right-isometric;
   the number of sites is unchanged. *)
Theorem C10_orthogonalize_canonical :
  forall (T : Type) (isL isR : T -> Prop) (qr_q : T -> T) (qr_r_into : T -> T -> T)
         (lq_q : T -> T) (lq_r_into : T -> T -> T),
  (forall t : T, isL (qr_q t)) -> (forall t : T, isR (lq_q t)) ->
  forall (c : nat) (m : mps T), valid T isL isR m -> c < length (fac m) ->
  exists m' : mps T,
    orthogonalize qr_q qr_r_into lq_q lq_r_into c m = Ok m' /\
    oc m' = Some c /\ length (fac m') = length (fac m) /\ canon_at T isL isR (fac m') c.
Proof. exact orthogonalize_spec. Qed.

(* ... and it is the identity when the state is already centred at c *)
Theorem C10_orthogonalize_idempotent :
  forall (T : Type) (qr_q : T -> T) (qr_r_into : T -> T -> T) (lq_q : T -> T) (lq_r_into : T -> T -> T)
         (c : nat) (fs : list T), c < length fs ->
  orthogonalize qr_q qr_r_into lq_q lq_r_into c (MkMps fs (Some c)) = Ok (MkMps fs (Some c)).
Proof. exact orthogonalize_noop. Qed.

(* Every public operation (orthogonalize, truncate, +, scalar*, apply, expect_batch, norm, sample,
   entanglement_entropy, get_correlation_matrix, MPO.apply_to, inner/overlap/expect) maps a state whose declared
   centre is valid to a state whose declared centre is valid, with the same number of sites. *)
Theorem C10_public_ops_canonical :
  forall (T M Sl : Type) (isL isR Pbond : T -> Prop) (qr_q : T -> T) (qr_r_into : T -> T -> T)
         (lq_q : T -> T) (lq_r_into : T -> T -> T) (eig_ok : nat -> T -> bool) (eig_right : nat -> T -> T)
         (eig_left_into : nat -> T -> T -> T) (scaleT applyT : T -> T) (addT : nat -> T -> T -> option T)
         (slider0 : Sl) (zip_step : Sl -> M -> T -> option (T * Sl)) (zip_absorb : T -> Sl -> option T),
  (forall t : T, isL (qr_q t)) -> (forall t : T, isR (lq_q t)) ->
  (forall (k : nat) (t : T), isR (eig_right k t)) ->
  (forall (k : nat) (t : T), eig_ok k t = true -> Pbond (eig_right k t)) ->
  (forall (s : Sl) (m : M) (t q : T) (s' : Sl), zip_step s m t = Some (q, s') -> isL q) ->
  forall (o : op T M) (m m' : mps T), valid T isL isR m -> 2 <= length (fac m) ->
  step qr_q qr_r_into lq_q lq_r_into eig_ok eig_right eig_left_into scaleT applyT addT slider0 zip_step
       zip_absorb o m = Ok m' ->
  valid T isL isR m' /\ length (fac m') = length (fac m).
Proof. exact step_valid. Qed.

(* ... hence along every history of operations, every intermediate state is valid. *)
Theorem C10_histories_canonical :
  forall (T M Sl : Type) (isL isR Pbond : T -> Prop) (qr_q : T -> T) (qr_r_into : T -> T -> T)
         (lq_q : T -> T) (lq_r_into : T -> T -> T) (eig_ok : nat -> T -> bool) (eig_right : nat -> T -> T)
         (eig_left_into : nat -> T -> T -> T) (scaleT applyT : T -> T) (addT : nat -> T -> T -> option T)
         (slider0 : Sl) (zip_step : Sl -> M -> T -> option (T * Sl)) (zip_absorb : T -> Sl -> option T),
  (forall t : T, isL (qr_q t)) -> (forall t : T, isR (lq_q t)) ->
  (forall (k : nat) (t : T), isR (eig_right k t)) ->
  (forall (k : nat) (t : T), eig_ok k t = true -> Pbond (eig_right k t)) ->
  (forall (s : Sl) (m : M) (t q : T) (s' : Sl), zip_step s m t = Some (q, s') -> isL q) ->
  forall (os : list (op T M)) (m : mps T), valid T isL isR m -> 2 <= length (fac m) ->
  Forall (fun r : res (mps T) =>
            match r with
            | Ok m' => valid T isL isR m' /\ length (fac m') = length (fac m)
            | _ => True
            end)
         (run qr_q qr_r_into lq_q lq_r_into eig_ok eig_right eig_left_into scaleT applyT addT slider0
              zip_step zip_absorb os m).
Proof. exact run_valid. Qed.

(* truncate() re-centres on the last site before sweeping (truncate_impl's documented precondition), declares
   centre 0, and every tensor from site 1 on satisfies whatever the rank admissibility check establishes. *)
Theorem C10_truncate_contract :
  forall (T : Type) (isL isR Pbond : T -> Prop) (qr_q : T -> T) (qr_r_into : T -> T -> T)
         (lq_q : T -> T) (lq_r_into : T -> T -> T) (eig_ok : nat -> T -> bool) (eig_right : nat -> T -> T)
         (eig_left_into : nat -> T -> T -> T),
  (forall t : T, isL (qr_q t)) -> (forall t : T, isR (lq_q t)) ->
  (forall (k : nat) (t : T), isR (eig_right k t)) ->
  (forall (k : nat) (t : T), eig_ok k t = true -> Pbond (eig_right k t)) ->
  forall (ks : list nat) (m m' : mps T), valid T isL isR m -> 1 <= length (fac m) ->
  truncate qr_q qr_r_into lq_q lq_r_into eig_ok eig_right eig_left_into ks m = Ok m' ->
  valid T isL isR m' /\ oc m' = Some 0 /\ length (fac m') = length (fac m) /\
  (forall (j : nat) (t : T), 1 <= j -> nth_error (fac m') j = Some t -> Pbond t) /\
  (exists m1 : mps T,
     orthogonalize qr_q qr_r_into lq_q lq_r_into (length (fac m) - 1) m = Ok m1 /\
     canon_at T isL isR (fac m1) (length (fac m) - 1) /\
     truncate_impl eig_ok eig_right eig_left_into ks (fac m1) = Ok (fac m')).
Proof. exact truncate_spec. Qed.

(* zip_right (MPO.apply_to, MPO.__matmul__) hands truncate_impl a chain centred on its last site. *)
Theorem C10_zip_right_precondition :
  forall (T M Sl : Type) (isL isR : T -> Prop) (slider0 : Sl)
         (zip_step : Sl -> M -> T -> option (T * Sl)) (zip_absorb : T -> Sl -> option T),
  (forall (s : Sl) (m : M) (t q : T) (s' : Sl), zip_step s m t = Some (q, s') -> isL q) ->
  forall (tops : list M) (fs qs : list T),
  zip_factors slider0 zip_step zip_absorb tops fs = Some qs ->
  length qs = length fs /\ canon_at T isL isR qs (length qs - 1).
Proof. exact zip_factors_canonical. Qed.

(* In the executable instance (bond dimensions + claimed isometries; the one compared with the real objects) the
   premises hold, and after every truncating operation (truncate, +, apply_to) whose kept ranks pass the
   admissibility check 1 <= k <= min(d*chi_right, max_bond_dim) -- what C10_split_rank_bound guarantees for
   split_matrix -- every internal bond is at most max_bond_dim. *)
Theorem C10_truncating_ops_bond_bound : forall (d : nat) (max_bond_dim : Z) o m m',
  valid FT ft_isL ft_isR m -> 2 <= length (fac m) -> f_step d max_bond_dim o m = Ok m' ->
  match o with OTrunc _ _ _ | OAdd _ _ _ | OApplyTo _ _ _ => True | _ => False end ->
  forall j t, 1 <= j -> nth_error (fac m') j = Some t -> (Z.of_nat (fl t) <= max_bond_dim)%Z.
Proof. exact f_truncating_bounded. Qed.

(* the premises of the machine theorems are satisfiable (by the executable instance) *)
Theorem C10_premises_satisfiable : forall (d : nat) (mr : Z),
  (forall t, ft_isL (f_qr_q d t)) /\ (forall t, ft_isR (f_lq_q d t)) /\
  (forall k t, ft_isR (f_eig_right k t)) /\
  (forall k t, f_eig_ok d mr k t = true -> ft_bond mr (f_eig_right k t)) /\
  (forall s m t q s', f_zip_step d s m t = Some (q, s') -> ft_isL q).
Proof. exact f_premises. Qed.
