(* C11 — MPS/MPO operations are faithful to their dense counterparts.
   Only final statements; every proof is `exact <lemma>`.  Formalism F3: a factor is, per physical
   index, a bond matrix over a commutative ring K; [amp Ts b] is the single entry of the ordered
   product of the bond matrices selected by b (None when a size does not fit), i.e. the dense
   amplitude <b|psi>, or the dense element <b|O|b'> of an MPO with b_q := out_q*d + in_q.
   The model functions are those of Model/MPSAlg.v, tied to /repo by tools/props/c11.py. *)
From Coq Require Import List Ring ZArith.
From EV Require Import Model.TransferMat Model.MPSAlg Proofs.TransferMat Proofs.MPSAlg.
Import ListNotations.

(* add_factors (direct sum [A|B], diag(A,B), ..., [A;B]) represents the sum: for every number of
   sites N >= 2, all bond dimensions and every index string on which both operands have an
   amplitude, the amplitude of the result is the sum of the amplitudes.  Holds verbatim for MPO
   elements (flattened physical index). *)
Theorem C11_add_factors_sum : forall (K : Type) (Ko : RingOps K),
  ring_theory (k0 Ko) (k1 Ko) (kadd Ko) (kmul Ko) (ksub Ko) (kopp Ko) (@eq K) ->
  forall (A B C : list (T3 K)) (b : list nat) (x y : K),
  2 <= length A -> add_factors Ko A B = Some C ->
  amp Ko A b = Some x -> amp Ko B b = Some y -> amp Ko C b = Some (kadd Ko x y).
Proof. exact add_factors_amp. Qed.

(* scale_factors multiplies every amplitude by c, whichever site `which` (inside the chain) carries
   the scalar; a `which` outside the chain changes nothing.  Definedness is preserved exactly. *)
Theorem C11_scale_factors_scale : forall (K : Type) (Ko : RingOps K),
  ring_theory (k0 Ko) (k1 Ko) (kadd Ko) (kmul Ko) (ksub Ko) (kopp Ko) (@eq K) ->
  forall (A : list (T3 K)) (c : K) (which : nat) (b : list nat),
  amp Ko (scale_factors Ko A c which) b =
  if Nat.ltb which (length A) then option_map (fun x => kmul Ko c x) (amp Ko A b) else amp Ko A b.
Proof. exact scale_factors_amp. Qed.

(* the premises are satisfiable: the Gaussian integers used for execution form such a ring *)
Theorem C11_gaussian_integers_ring :
  ring_theory (k0 gi_ops) (k1 gi_ops) (kadd gi_ops) (kmul gi_ops) (ksub gi_ops) (kopp gi_ops) (@eq GI).
Proof. exact gi_ring. Qed.
