(* C11 — MPS/MPO operations are faithful to their dense counterparts.
   Only final statements; every proof is `exact <lemma>`.  Formalism F3: a factor is, per physical
   index, a bond matrix over a commutative ring K; [amp Ts b] is the single entry of the ordered
   product of the bond matrices selected by b (None when a size does not fit), i.e. the dense
   amplitude <b|psi>, or the dense element <b|O|b'> of an MPO with b_q := out_q*d + in_q.
   The model functions are those of Model/MPSAlg.v, tied to /repo by tools/props/c11.py. *)
From Coq Require Import List Ring ZArith Bool.
From EV Require Import Model.TransferMat Model.MPSAlg Model.Zip Proofs.TransferMat Proofs.MPSAlg Proofs.MPSInner Proofs.ZipProofs Model.Bath Proofs.ExpectProofs Proofs.FromAmpsProofs Proofs.ApplyExpect.
Import ListNotations.

(* add_factors (direct sum [A|B], diag(A,B), ..., [A;B]) represents the sum: for every number of
   sites N >= 2, all bond dimensions and every index string on which both operands have an
   amplitude, the amplitude of the result is the sum of the amplitudes.  Holds verbatim for MPO
   elements (flattened physical index). *)
Theorem C11_add_factors_sum : forall (K : Type) (Ko : RingOps K),
  ring_theory (k0 Ko) (k1 Ko) (kadd Ko) (kmul Ko) (ksub Ko) (kopp Ko) (@eq K) ->
  forall (A B C : list (T3 K)) (b : list nat) (x y : K),
  2 <= length A -> add_factors Ko A B = Some C ->
  amp Ko A b = Some x -> amp Ko B b = Some y -> amp Ko C b = Some (kadd Ko x y).
Proof. exact add_factors_amp. Qed.

(* scale_factors multiplies every amplitude by c, whichever site `which` (inside the chain) carries
   the scalar; a `which` outside the chain changes nothing.  Definedness is preserved exactly. *)
Theorem C11_scale_factors_scale : forall (K : Type) (Ko : RingOps K),
  ring_theory (k0 Ko) (k1 Ko) (kadd Ko) (kmul Ko) (ksub Ko) (kopp Ko) (@eq K) ->
  forall (A : list (T3 K)) (c : K) (which : nat) (b : list nat),
  amp Ko (scale_factors Ko A c which) b =
  if Nat.ltb which (length A) then option_map (fun x => kmul Ko c x) (amp Ko A b) else amp Ko A b.
Proof. exact scale_factors_amp. Qed.

(* MPS.inner (left-to-right transfer contraction, left operand conjugated) equals the dense inner product
   sum over all index strings b of conj(<b|A>) * <b|B>, for every number of sites and all bond dimensions, over
   every commutative ring with a ring involution. *)
Theorem C11_inner_spec : forall (K : Type) (Ko : RingOps K),
  ring_theory (k0 Ko) (k1 Ko) (kadd Ko) (kmul Ko) (ksub Ko) (kopp Ko) (@eq K) ->
  (forall a b, kconj Ko (kadd Ko a b) = kadd Ko (kconj Ko a) (kconj Ko b)) ->
  (forall a b, kconj Ko (kmul Ko a b) = kmul Ko (kconj Ko a) (kconj Ko b)) ->
  kconj Ko (k0 Ko) = k0 Ko -> kconj Ko (k1 Ko) = k1 Ko ->
  forall (A B : list (T3 K)) (x : K) (fa fb : list nat -> K),
  inner Ko A B = Some x ->
  (forall b, In b (strings (map (@dp K) A)) -> amp Ko A b = Some (fa b)) ->
  (forall b, In b (strings (map (@dp K) A)) -> amp Ko B b = Some (fb b)) ->
  x = sumL Ko (strings (map (@dp K) A)) (fun b => kmul Ko (kconj Ko (fa b)) (fb b)).
Proof. exact inner_spec. Qed.

(* its premises are satisfiable: a concrete Gaussian-integer chain with inner product and all amplitudes defined,
   and conjugation on Z[i] is a ring involution *)
Theorem C11_inner_spec_premises_satisfiable :
  (inner gi_ops ex_chain ex_chain <> None /\
   forallb (fun b => match amp gi_ops ex_chain b with Some _ => true | None => false end)
           (strings (map (@dp GI) ex_chain)) = true) /\
  (forall a b, kconj gi_ops (kadd gi_ops a b) = kadd gi_ops (kconj gi_ops a) (kconj gi_ops b)) /\
  (forall a b, kconj gi_ops (kmul gi_ops a b) = kmul gi_ops (kconj gi_ops a) (kconj gi_ops b)) /\
  kconj gi_ops (k0 gi_ops) = k0 gi_ops /\ kconj gi_ops (k1 gi_ops) = k1 gi_ops.
Proof. exact (conj inner_spec_example (conj gi_conj_add (conj gi_conj_mul (conj gi_conj_zero gi_conj_one)))). Qed.

(* the premises are satisfiable: the Gaussian integers used for execution form such a ring *)
Theorem C11_gaussian_integers_ring :
  ring_theory (k0 gi_ops) (k1 gi_ops) (kadd gi_ops) (kmul gi_ops) (ksub gi_ops) (kopp gi_ops) (@eq GI).
Proof. exact gi_ring. Qed.

(* The zip-up product zip_right (what MPO.apply_to and MPO.__matmul__ run, before the final truncation sweep of C10)
   represents the dense product, whatever the QR factorisations return as long as they factorise (L R = M): for every
   number of sites, all bond dimensions, every physical dimension d, every commutative ring and every oracle,
       <bo| zip_right(tops, bots)>  =  sum over m in {0..d-1}^N of  <top_idx bo m| tops> * <bot_idx bo m| bots>,
   where the operator is read at (out, in) = (o_q, m_q) and the operand at m_q (e = 1: an MPS, this is (O psi)(o) =
   sum_m O(o,m) psi(m)) or at (m_q, j_q) (e = d: an MPO, this is (O1 O2)(o,j) = sum_m O1(o,m) O2(m,j)).
   Premises: the chains end with bond 1 (as every MPS/MPO does), the index string is in range, and the amplitudes are
   defined (bonds fit); a chain whose bonds do not fit makes zip_right return None = the ValueError of the code. *)
Theorem C11_zip_contract : forall (K : Type) (Ko : RingOps K),
  ring_theory (k0 Ko) (k1 Ko) (kadd Ko) (kmul Ko) (ksub Ko) (kopp Ko) (@eq K) ->
  forall (d e : nat), 0 < e -> forall (qr : QR K), QRok K Ko qr ->
  forall (tops bots Fs : list (T3 K)),
  zip_right Ko d e qr tops bots = Some Fs ->
  forall top bot, dr (last tops top) = 1 -> dr (last bots bot) = 1 ->
  forall (bo : list nat) (x : K) (ft fb : list nat -> K),
  length bo = length tops -> Forall (fun s => s < d * e) bo ->
  amp Ko Fs bo = Some x ->
  (forall m, In m (strings (repeat d (length tops))) -> amp Ko tops (top_idx d e bo m) = Some (ft m)) ->
  (forall m, In m (strings (repeat d (length tops))) -> amp Ko bots (bot_idx e bo m) = Some (fb m)) ->
  x = sumL Ko (strings (repeat d (length tops))) (fun m => kmul Ko (ft m) (fb m)).
Proof. exact zip_contract. Qed.

(* its premises are satisfiable: both scripted oracles of the correspondence factorise, and on a concrete
   Gaussian-integer operator / state pair the product, all its amplitudes and all operand amplitudes are defined *)
Theorem C11_zip_contract_premises_satisfiable :
  QRok GI gi_ops (qr_gauge []) /\ QRok GI gi_ops qr_left_identity /\
  (match zip_right gi_ops 2 1 qr_left_identity ex_top ex_bot with
   | Some Fs =>
       forallb (fun bo => match amp gi_ops Fs bo with Some _ => true | None => false end) (strings [2; 2]) &&
       forallb (fun bo => forallb (fun m =>
                  match amp gi_ops ex_top (top_idx 2 1 bo m), amp gi_ops ex_bot (bot_idx 1 bo m) with
                  | Some _, Some _ => true | _, _ => false end) (strings [2; 2])) (strings [2; 2])
   | None => false
   end = true /\ dr (last ex_top (zeros3 gi_ops 0 0 0)) = 1 /\ dr (last ex_bot (zeros3 gi_ops 0 0 0)) = 1).
Proof. exact (conj qr_identity_gauge_ok (conj qr_left_identity_ok zip_example)). Qed.

(* MPO.expect (the left environment new_left_bath swept over the whole chain, read at its single entry) is the dense
   expectation value  sum_{i,j} conj(<i|psi>) <i|O|j> <j|psi>  - for every number of sites, all bond dimensions, every
   physical dimension, over every commutative ring with a ring involution.  No normalisation or canonical form is
   assumed.  (Bath adjointness of C02 moves the contraction to the right environment, which is the double sum over
   index strings by induction over the sites.) *)
Theorem C11_expect_spec : forall (K : Type) (Ko : RingOps K),
  ring_theory (k0 Ko) (k1 Ko) (kadd Ko) (kmul Ko) (ksub Ko) (kopp Ko) (@eq K) ->
  (forall a b, kconj Ko (kadd Ko a b) = kadd Ko (kconj Ko a) (kconj Ko b)) ->
  (forall a b, kconj Ko (kmul Ko a b) = kmul Ko (kconj Ko a) (kconj Ko b)) ->
  kconj Ko (k0 Ko) = k0 Ko -> kconj Ko (k1 Ko) = k1 Ko ->
  forall (d : nat) (As Ws : list (T3 K)),
  chain_ok (1, 1, 1) As Ws (1, 1, 1) ->
  forall (x : K) (fa fw : list nat -> K),
  lbath Ko d As Ws (ones3 Ko) 0 0 0 = x ->
  (forall i, In i (strings (repeat d (length As))) -> amp Ko As i = Some (fa i)) ->
  (forall i j, In i (strings (repeat d (length As))) -> In j (strings (repeat d (length As))) ->
     amp Ko Ws (pair_idx d i j) = Some (fw (pair_idx d i j))) ->
  x = sumL Ko (strings (repeat d (length As))) (fun i => sumL Ko (strings (repeat d (length As))) (fun j =>
        kmul Ko (kmul Ko (kconj Ko (fa i)) (fw (pair_idx d i j))) (fa j))).
Proof. exact expect_spec. Qed.

Theorem C11_expect_spec_premises_satisfiable :
  chain_ok (1, 1, 1) ex_bot ex_top (1, 1, 1) /\
  forallb (fun i => match amp gi_ops ex_bot i with Some _ => true | None => false end) (strings (repeat 2 2)) = true /\
  forallb (fun i => forallb (fun j => match amp gi_ops ex_top (pair_idx 2 i j) with Some _ => true | None => false end)
                      (strings (repeat 2 2))) (strings (repeat 2 2)) = true.
Proof. exact expect_example. Qed.

(* The accumulation loop of MPS._from_state_amplitudes (zero state, then `accum += amplitude * product_state` per
   dictionary entry; before the truncation and normalisation of the real constructor) represents the dictionary:
   the amplitude at the index string b is the sum of the amplitudes of the entries whose string is b (deltaL is the
   Kronecker delta of two strings) - every number of sites >= 2, every local dimension, every entry list. *)
Theorem C11_from_amplitudes_spec : forall (K : Type) (Ko : RingOps K),
  ring_theory (k0 Ko) (k1 Ko) (kadd Ko) (kmul Ko) (ksub Ko) (kopp Ko) (@eq K) ->
  forall (d n : nat) (terms : list (list nat * K)) (C : list (T3 K)) (b : list nat),
  2 <= n -> from_amplitudes Ko d n terms = Some C ->
  Forall (fun t => length (fst t) = n) terms -> length b = n -> Forall (fun s => s < d) b ->
  amp Ko C b = Some (sumL Ko terms (fun t => kmul Ko (snd t) (deltaL K Ko (fst t) b))).
Proof. exact from_amplitudes_spec. Qed.

Theorem C11_deltaL_is_kronecker : forall (K : Type) (Ko : RingOps K),
  ring_theory (k0 Ko) (k1 Ko) (kadd Ko) (kmul Ko) (ksub Ko) (kopp Ko) (@eq K) ->
  forall ks b, (ks = b -> deltaL K Ko ks b = k1 Ko) /\ (ks <> b -> deltaL K Ko ks b = k0 Ko).
Proof. exact deltaL_kronecker. Qed.

Theorem C11_from_amplitudes_spec_premises_satisfiable :
  match from_amplitudes gi_ops 3 3 [([0;1;2]%nat, (2,1)%Z); ([2;2;0]%nat, (0,-1)%Z); ([0;1;2]%nat, (1,0)%Z)] with
  | Some C => amp gi_ops C [0;1;2]%nat = Some (3,1)%Z /\ amp gi_ops C [2;2;0]%nat = Some (0,-1)%Z /\
              amp gi_ops C [1;1;1]%nat = Some (0,0)%Z
  | None => False
  end.
Proof. exact from_amplitudes_example. Qed.

(* <psi|O psi> computed two ways agree: MPS.inner(psi, MPO.apply_to(psi)) - the zip-up product with ANY factorising QR
   oracle, then the transfer contraction of inner - equals MPO.expect(psi), the left bath swept over the chain; every
   number of sites, all bond dimensions, every local dimension, every commutative ring with a ring involution.
   (Composition of C11_zip_contract, C11_inner_spec and C11_expect_spec in right-amplitude form; no definedness
   premise is needed beyond the three computations succeeding.) *)
Theorem C11_inner_apply_is_expect : forall (K : Type) (Ko : RingOps K),
  ring_theory (k0 Ko) (k1 Ko) (kadd Ko) (kmul Ko) (ksub Ko) (kopp Ko) (@eq K) ->
  (forall a b, kconj Ko (kadd Ko a b) = kadd Ko (kconj Ko a) (kconj Ko b)) ->
  (forall a b, kconj Ko (kmul Ko a b) = kmul Ko (kconj Ko a) (kconj Ko b)) ->
  kconj Ko (k0 Ko) = k0 Ko -> kconj Ko (k1 Ko) = k1 Ko ->
  forall (d : nat) (qr : QR K), QRok K Ko qr ->
  forall (As Ws Fs : list (T3 K)) (x : K),
  zip_right Ko d 1 qr Ws As = Some Fs ->
  chain_ok (1, 1, 1) As Ws (1, 1, 1) ->
  forall A0 W0, dr (last As A0) = 1 -> dr (last Ws W0) = 1 ->
  inner Ko As Fs = Some x ->
  x = lbath Ko d As Ws (ones3 Ko) 0 0 0.
Proof. exact inner_apply_is_expect. Qed.

Theorem C11_inner_apply_is_expect_premises_satisfiable :
  match zip_right gi_ops 2 1 qr_left_identity ex_top ex_bot with
  | Some Fs => inner gi_ops ex_bot Fs = Some (lbath gi_ops 2 ex_bot ex_top (ones3 gi_ops) 0 0 0)
  | None => False
  end /\ chain_ok (1, 1, 1) ex_bot ex_top (1, 1, 1).
Proof. exact inner_apply_example. Qed.
