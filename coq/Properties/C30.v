(* C30 — emu-sv gradients equal finite differences of the emulated results, and are finite.
   Only final statements.

   Part 1 (emu_sv/time_evolution.py, DHD{Omega,Phi,Delta,U}Sparse; models Model/SvGrad.v and, for the
   Hamiltonian, Model/SvHam.v of C06).  [o : Kops] is ANY commutative ring with involution satisfying
   [Klaws o] (the complex numbers are an instance: C06_laws_satisfiable / C30_laws_satisfiable).  Arrays are
   flat lists, [get l k] is entry k, qubit 0 is the most significant bit.  [upd l i x] is l with entry i
   replaced by x, [updU U i j x] the matrix U with entry (i,j) replaced by x.
   [real_path_ok N omega phinz e] is the premise of C06_H_apply_dense: when no phase is non-zero (the code then
   takes the sigma^x fast path) e_n = exp(i*0) = 1 and Omega_n is real.

   Part 2 (emu_base/math/pchip_torch.py differentiated by torch.autograd; model Model/PchipAD.v: the tape of
   elementwise operations PCHIP1D records and torch's VJP rules for + - * / where).
   [pchip_vjp ar fixed xs ys qs ws] is  sum_q ws_q * d PCHIP1D(xs, ys)(qs_q) / d ys_i  for every i, as reverse
   mode computes it; fixed = false is the source as it is, fixed = true the source with
   proposed_fixes/pchip-nan-gradient.diff (tools/props/c30.py selects the variant by inspecting the source and
   checks it against torch.autograd.grad on every run).  [pchip_vjp_checked] is the same in the model of
   division with an explicit error: Err 10 = some division of the forward or backward pass divides by zero
   (Err 1/2/3 = the ValueErrors of PCHIP1D._validate_xy).

   Part 3 (emu_base/math/double_krylov.py, the evaluation of the Frechet derivative called by
   EvolveStateVector.backward; model Model/DoubleKrylov.v, tied by an exact event trace in tools/props/c30.py).
   [lanczos_ctl ar n2 err1 err2 tol max_dim] is `lanczos` with max_krylov_dim = max_dim as a machine over the oracle
   streams n2 j (norm after orthogonalisation), err1 j, err2 j (the two error estimates read off matrix_exp) for ANY
   scalar type with a comparison [a_ltb ar] (binary64 included): it returns the list of kernel-call events in program
   order and Ok (size, iterations, happy) or Err 3 (RecursionError).  The machine carries len(lanczos_vectors) as
   state; [EOp k j] = iteration j applies the operator to vector k, [EDot k j] = overlap with vector k stored in
   T[k, j], [EAppend i] = the appended vector has index i, [EExp n] = matrix_exp of T[:n, :n].
   [lz_iter_events j] are the events of a complete iteration in lock-step (operator on vector j, overlaps with
   vectors max(0, j-1)..j, new vector j+1, matrix_exp of size j+3).
   [double_krylov_ctl] runs it on state, then on grad, then builds and exponentiates the block matrix. *)
From Coq Require Import ZArith Reals List Arith Bool Lra.
From Coq Require Import PrimFloat.
From EV Require Import Base.Arith Model.Pchip Model.PchipAD Proofs.PchipADProofs.
From EV Require Import Model.SvBase Model.SvHam Model.SvGrad Proofs.SvBaseProofs Proofs.SvHamProofs
  Proofs.SvGradProofs Proofs.SvComplexInstance Proofs.SvGradPhase.
From EV Require Import Model.KrylovExp Model.DoubleKrylov Proofs.DoubleKrylovProofs.
Import ListNotations.
Open Scope nat_scope.

(* The premises on the coefficient ring are satisfiable: the complex numbers. *)
Theorem C30_laws_satisfiable : Klaws CK.
Proof. exact CK_laws. Qed.

(* dH_linear, amplitude.  For every N, every real increment t (conj t = t) and every vector v:
       H(Omega + t e_i) v - H(Omega) v = t * (DHDOmegaSparse_i v),
   i.e. DHDOmegaSparse(i, ., N, phi_i) is exactly dH/dOmega_i, on the fast path (phi_i = 0, alpha = 1/2 on both
   off-diagonal entries) and on the general path (alpha = e_i/2 and its conjugate). *)
Theorem C30_dH_dOmega_linear : forall (o : Kops), Klaws o ->
  forall N (omega delta : list o) (phinz : list bool) (e : list o) (U : list (list o)) (vec : list o) i (t : o),
  length omega = N -> length vec = 2 ^ N -> real_path_ok o N omega phinz e -> i < N ->
  kconj o t = t -> (nth i phinz false = false -> get e i = k1 o) ->
  forall k, k < 2 ^ N ->
    ksub o (get (ham_mul o N (upd o omega i (kadd o (get omega i) t)) delta phinz e U vec) k)
           (get (ham_mul o N omega delta phinz e U vec) k)
    = kmul o t (get (dhd_omega o N i (nth i phinz false) (get e i) vec) k).
Proof. exact dH_dOmega. Qed.

(* dH_linear, detuning:  H(delta + t e_i) v - H(delta) v = t * (DHDDeltaSparse_i v)  for every t. *)
Theorem C30_dH_dDelta_linear : forall (o : Kops), Klaws o ->
  forall N (omega delta : list o) (phinz : list bool) (e : list o) (U : list (list o)) (vec : list o) i (t : o),
  length omega = N -> length vec = 2 ^ N -> real_path_ok o N omega phinz e -> i < N -> i < length delta ->
  forall k, k < 2 ^ N ->
    ksub o (get (ham_mul o N omega (upd o delta i (kadd o (get delta i) t)) phinz e U vec) k)
           (get (ham_mul o N omega delta phinz e U vec) k)
    = kmul o t (get (dhd_delta o N i vec) k).
Proof. exact dH_dDelta. Qed.

(* dH_linear, interaction:  for i < j,  H(U + t E_ij) v - H(U) v = t * (DHDUSparse_ij v)  for every t. *)
Theorem C30_dH_dU_linear : forall (o : Kops), Klaws o ->
  forall N (omega delta : list o) (phinz : list bool) (e : list o) (U : list (list o)) (vec : list o) i j (t : o),
  length omega = N -> length vec = 2 ^ N -> real_path_ok o N omega phinz e ->
  i < j -> j < N -> length U = N -> length (nth i U []) = N ->
  forall k, k < 2 ^ N ->
    ksub o (get (ham_mul o N omega delta phinz e (updU o U i j (kadd o (getU o U i j) t)) vec) k)
           (get (ham_mul o N omega delta phinz e U vec) k)
    = kmul o t (get (dhd_U o N i j vec) k).
Proof. exact dH_dU. Qed.

(* ... and H does not depend on the diagonal or the lower triangle of U (backward leaves those gradients 0). *)
Theorem C30_dH_dU_lower_is_zero : forall (o : Kops), Klaws o ->
  forall N (omega delta : list o) (phinz : list bool) (e : list o) (U : list (list o)) (vec : list o) i j (x : o),
  j <= i -> length U = N -> i < N -> j < length (nth i U []) ->
  ham_mul o N omega delta phinz e (updU o U i j x) vec = ham_mul o N omega delta phinz e U vec.
Proof. exact dH_dU_lower. Qed.

(* dH_dphi.  H depends on phi_i through e_i = exp(i phi_i) only, and real-linearly: for a real s and ANY direction ep
       H(e_i + s * ep) v - H(e_i) v = s * (DHDPhiSparse_i[omega_i, ep] v)
   (the perturbed configuration may be on the general path while the unperturbed one is on the fast path: phinz').
   DHDPhiSparse passes ep = exp(i (phi_i + pi/2)), which is the derivative of exp(i phi) (next theorem). *)
Theorem C30_dH_dphi_direction : forall (o : Kops), Klaws o ->
  forall N (omega delta : list o) (phinz phinz' : list bool) (e : list o) (U : list (list o)) (vec : list o) i (ep s : o),
  length omega = N -> length vec = 2 ^ N -> i < N -> i < length e -> kconj o s = s ->
  real_path_ok o N omega phinz e -> real_path_ok o N omega phinz' (upd o e i (kadd o (get e i) (kmul o s ep))) ->
  forall k, k < 2 ^ N ->
    ksub o (get (ham_mul o N omega delta phinz' (upd o e i (kadd o (get e i) (kmul o s ep))) U vec) k)
           (get (ham_mul o N omega delta phinz e U vec) k)
    = kmul o s (get (dhd_phi o N i (get omega i) ep vec) k).
Proof. exact dH_de. Qed.

(* Over the complex numbers, with exp(i phi) = (cos phi, sin phi):  exp(i (phi + pi/2)) = i * exp(i phi)
   = (-sin phi, cos phi), and it is the derivative of phi |-> exp(i phi), component by component:
   (c, s) |-> (-s, c). *)
Theorem C30_phase_direction_is_derivative : forall phi : R,
  expi (phi + PI / 2)%R = kmul CK (kI CK) (expi phi) /\
  expi (phi + PI / 2)%R = (- sin phi, cos phi)%R /\
  derivable_pt_lim (fun x => fst (expi x)) phi (fst (expi (phi + PI / 2)%R)) /\
  derivable_pt_lim (fun x => snd (expi x)) phi (snd (expi (phi + PI / 2)%R)).
Proof.
  intros phi. split; [apply expi_shift | split; [apply expi_shift_components | apply expi_derivative]].
Qed.

(* The phi = 0 fast path of DHDOmegaSparse agrees with the general one (e = exp(i*0) = 1). *)
Theorem C30_dhd_omega_paths_coincide : forall (o : Kops), Klaws o -> forall N i (e : o) (vec : list o),
  e = k1 o -> dhd_omega o N i true e vec = dhd_omega o N i false e vec.
Proof. exact dhd_omega_paths_coincide. Qed.

(* vjp_algebra: the contraction EvolveStateVector.backward evaluates for every parameter,
       tensordot(Vg.conj(), dH @ (dS.mT @ Vs))  =  tr( dH . (Vs^T dS conj(Vg)) ),
   for any matrices Vs (ms x D), Vg (mg x D), dS (ms x mg) and any D x D matrix dH (given by its entries). *)
Theorem C30_vjp_algebra : forall (o : Kops), Klaws o -> forall ms mg D (Vs dS Vg E : nat -> nat -> o),
  tdot o mg D Vg (fun a k => matvec o D E (e_l o ms dS Vs a) k) = trace_prod o D E (dUmat o ms mg Vs dS Vg).
Proof. exact vjp_algebra. Qed.

(* pchip_grad_defined for the source WITH the double where (proposed_fixes/pchip-nan-gradient.diff):
   for every number of knots >= 2, strictly increasing knots, ALL values (flat segments included), all query
   points and seeds, no division of the forward or the backward pass divides by zero (real-division model). *)
Theorem C30_pchip_grad_defined_fixed : forall xs ys qs ws : list R,
  length xs = length ys -> 2 <= length xs -> strictly_increasing R_arith xs = true ->
  pchip_vjp_checked R_arith true xs ys qs ws = Ok (pchip_vjp R_arith true xs ys qs ws).
Proof. exact pchip_grad_defined_fixed. Qed.

(* the premises are satisfiable, and the guards are live *)
Example C30_pchip_grad_defined_fixed_example :
  pchip_vjp_checked R_arith true [0; 1; 2; 3]%R [0; 1; 1; 0]%R [] [] = Ok (pchip_vjp R_arith true [0; 1; 2; 3]%R [0; 1; 1; 0]%R [] []).
Proof.
  apply pchip_grad_defined_fixed; [reflexivity | simpl; auto |].
  cbv -[Rltb IZR]. rewrite !Rltb_t by lra. reflexivity.
Qed.

(* pchip_grad_defined for the source AS IT IS is false.  Real-division model: for knots 0,1,2,3 and the values
   0,1,1,0 (a pulse that rises, stays flat and falls) _weighted_harmonic_mean divides by the zero secant of the
   flat segment (the torch.where that masks the result comes after the division). *)
Theorem C30_pchip_grad_defined_refuted :
  exists xs ys qs ws : list R,
    length xs = length ys /\ 2 <= length xs /\ strictly_increasing R_arith xs = true /\
    pchip_vjp_checked R_arith false xs ys qs ws = Err 10%Z.
Proof.
  exists [0; 1; 2; 3]%R, [0; 1; 1; 0]%R, [], []. split; [reflexivity|]. split; [simpl; auto|]. split.
  - cbv -[Rltb IZR]. rewrite !Rltb_t by lra. reflexivity.
  - exact pchip_faithful_divides_by_zero.
Qed.

(* ... and in IEEE binary64 (what torch computes) the forward values are finite while the gradient with respect
   to y_1 and y_2 is NaN (0 * inf in the VJP of the division): finding F-16. *)
Theorem C30_pchip_grad_finite_float_refuted :
  exists xs ys qs ws : list float,
    strictly_increasing float_arith xs = true /\ length xs = length ys /\
    forallb f_finite (xs ++ ys ++ qs ++ ws) = true /\
    forallb f_finite (pchip_fwd float_arith false xs ys qs) = true /\
    existsb f_nan (pchip_vjp float_arith false xs ys qs ws) = true.
Proof.
  exists [0; 1; 2; 3]%float, [0; 1; 1; 0]%float, [0.5; 1.5; 2.5]%float, [1; 1; 1]%float.
  vm_compute. repeat split.
Qed.

(* The double where leaves the forward values of that witness bit-identical and makes its gradient finite. *)
Theorem C30_pchip_witness_fixed_float :
  let xs := [0; 1; 2; 3]%float in let ys := [0; 1; 1; 0]%float in
  let qs := [0.5; 1.5; 2.5]%float in let ws := [1; 1; 1]%float in
  forallb f_finite (pchip_vjp float_arith true xs ys qs ws) = true /\
  pchip_fwd float_arith true xs ys qs = pchip_fwd float_arith false xs ys qs.
Proof. exact pchip_grad_finite_float_fixed. Qed.

(* The same defect without any flat segment: at a symmetric extremum (secants -1/2 and +1/2 around the peak of
   0.5, 1, 0.5, 0) w_l/delta_l + w_r/delta_r = 0, the masked harmonic mean is (w_l + w_r)/0 = inf, and the gradient is
   NaN as well (the peak of every symmetric pulse, e.g. a Blackman waveform). *)
Theorem C30_pchip_grad_finite_float_peak_refuted :
  let xs := [0; 1; 2; 3]%float in let ys := [0.5; 1; 0.5; 0]%float in
  let qs := [0.5; 1.5; 2.5]%float in let ws := [1; 1; 1]%float in
  forallb f_finite (pchip_fwd float_arith false xs ys qs) = true /\
  existsb f_nan (pchip_vjp float_arith false xs ys qs ws) = true /\
  forallb f_finite (pchip_vjp float_arith true xs ys qs ws) = true /\
  pchip_fwd float_arith true xs ys qs = pchip_fwd float_arith false xs ys qs.
Proof. vm_compute. repeat split. Qed.

(* ---------------------------------------------------------------------------------------------------------- *)
(* lanczos_contract.  For every oracle stream, tolerance and max_krylov_dim: `lanczos` returns at the FIRST iteration
   m < max_krylov_dim that meets one of the two exit tests and raises RecursionError (Err 3) when there is none; it
   never indexes lanczos_vectors out of range; the iterations before m are complete lock-step iterations (operator
   applied to the newest vector j = len - 1, orthogonalised against vectors max(0, j-1)..j only, one new vector, one
   matrix_exp of size j + 3), the last one stops after n2 on a breakdown (no vector appended, T is m+1 x m+1) and
   is complete otherwise (T is m+2 x m+2). *)
Theorem C30_lanczos_contract : forall (A : Type) (ar : Arith A) (n2 err1 err2 : nat -> A) (tol : A) max_dim t r,
  lanczos_ctl ar n2 err1 err2 tol max_dim = (t, r) ->
  match r with
  | Ok l => exists m, m < max_dim /\ (forall i, i < m -> lz_trigger ar n2 err1 err2 tol i = false) /\
      lz_trigger ar n2 err1 err2 tol m = true /\
      l_iters l = S m /\ l_happy l = lz_breakdown ar n2 tol m /\
      l_size l = (if lz_breakdown ar n2 tol m then S m else S (S m)) /\
      t = ENorm0 :: flat_map lz_iter_events (seq 0 m) ++ lz_head (S m) m ++
                    (if lz_breakdown ar n2 tol m then [] else lz_tail (S m) m)
  | Err e => e = E_RECURSION /\ (forall i, i < max_dim -> lz_trigger ar n2 err1 err2 tol i = false) /\
      t = ENorm0 :: flat_map lz_iter_events (seq 0 max_dim)
  | OutOfFuel => False
  end.
Proof. exact lanczos_contract. Qed.

(* Both outcomes occur (binary64 streams): a breakdown in iteration 1 returns two vectors after two operator
   applications; streams that never meet a test (NaN, what a zero start vector produces: finding F-27) raise. *)
Example C30_lanczos_contract_examples :
  snd (lanczos_ctl float_arith (stream nan [1; 0]%float) (stream nan [1]%float) (stream nan [2]%float) 0.5%float 5)
    = Ok (MkL 2 2 true) /\
  snd (lanczos_ctl float_arith (stream nan []) (stream nan []) (stream nan []) 0.5%float 5) = Err E_RECURSION /\
  fst (lanczos_ctl float_arith (stream nan [1; 0]%float) (stream nan [1]%float) (stream nan [2]%float) 0.5%float 5)
    = [ENorm0; EOp 0 0; ENorm 0; EDot 0 0; ENorm2 0; EAppend 1; EExp 3;
       EOp 1 1; ENorm 1; EDot 0 1; EDot 1 1; ENorm2 1].
Proof. vm_compute. repeat split. Qed.

(* The operator applications of a run are op(v_0), op(v_1), ..., each exactly once and in this order; their number
   is the iteration count (max_krylov_dim when the run raises). *)
Theorem C30_lanczos_operator_applications : forall (A : Type) (ar : Arith A) (n2 err1 err2 : nat -> A) (tol : A) max_dim t r,
  lanczos_ctl ar n2 err1 err2 tol max_dim = (t, r) ->
  filter is_op t = map (fun i => EOp i i) (seq 0 (match r with Ok l => l_iters l | _ => max_dim end)).
Proof. exact lanczos_operator_applications. Qed.

(* lanczos returns iff some iteration below max_krylov_dim meets a test; then 1 <= iterations <= max_krylov_dim and
   the basis has `iterations` vectors after a breakdown, `iterations + 1` otherwise. *)
Theorem C30_lanczos_returns_iff : forall (A : Type) (ar : Arith A) (n2 err1 err2 : nat -> A) (tol : A) max_dim t r,
  lanczos_ctl ar n2 err1 err2 tol max_dim = (t, r) ->
  ((exists l, r = Ok l) <-> exists j, j < max_dim /\ lz_trigger ar n2 err1 err2 tol j = true) /\
  (forall l, r = Ok l -> 1 <= l_iters l <= max_dim /\ l_iters l <= l_size l <= S (l_iters l) /\
                         (l_size l = l_iters l <-> l_happy l = true)).
Proof. exact lanczos_returns_iff. Qed.

(* double_krylov_contract.  double_krylov returns iff both Lanczos runs return; then dS is len(Vs) x len(Vg), both
   lengths are in 1..max_krylov_dim+1 (so the corner entry big_mat[0, len(Vs)] exists and lies in the top-right
   block), the operator has been applied iterations_s + iterations_g <= 2 max_krylov_dim times, and the trace is
   the state run, the gradient run, block_diag, the two norms, the corner write, one matrix_exp of the
   (len(Vs)+len(Vg))-square matrix.  Otherwise it raises RecursionError, after max_krylov_dim operator applications
   of the state run (the gradient run is not started) or after the complete state run and max_krylov_dim
   applications of the gradient run. *)
Theorem C30_double_krylov_contract : forall (A : Type) (ar : Arith A) (n2s e1s e2s n2g e1g e2g : nat -> A) (tol : A) max_dim t r,
  double_krylov_ctl ar n2s e1s e2s n2g e1g e2g tol max_dim = (t, r) ->
  match r with
  | Ok d => exists ts ls tg lg,
      lanczos_ctl ar n2s e1s e2s tol max_dim = (ts, Ok ls) /\ lanczos_ctl ar n2g e1g e2g tol max_dim = (tg, Ok lg) /\
      d_ns d = l_size ls /\ d_ng d = l_size lg /\ d_rows d = l_size ls /\ d_cols d = l_size lg /\
      1 <= d_ns d <= S max_dim /\ 1 <= d_ng d <= S max_dim /\
      d_ops d = l_iters ls + l_iters lg /\ count_ops t = d_ops d /\ d_ops d <= 2 * max_dim /\
      t = tag 0 ts ++ tag 1 tg ++
          tag 2 [EBlock (d_ns d) (d_ng d); ENormS; ENormG; ECorner 0 (d_ns d); EBigExp (d_ns d + d_ng d)]
  | Err e => e = E_RECURSION /\
      ((exists ts, lanczos_ctl ar n2s e1s e2s tol max_dim = (ts, Err E_RECURSION) /\ t = tag 0 ts /\
                   count_ops t = max_dim) \/
       (exists ts ls tg, lanczos_ctl ar n2s e1s e2s tol max_dim = (ts, Ok ls) /\
                         lanczos_ctl ar n2g e1g e2g tol max_dim = (tg, Err E_RECURSION) /\
                         t = tag 0 ts ++ tag 1 tg /\ count_ops t = l_iters ls + max_dim))
  | OutOfFuel => False
  end.
Proof. exact double_krylov_contract. Qed.

(* Every event of the state run precedes every event of the gradient run, which precede the events of
   double_krylov itself; the latter exist iff the call returns. *)
Theorem C30_double_krylov_sequencing : forall (A : Type) (ar : Arith A) (n2s e1s e2s n2g e1g e2g : nat -> A) (tol : A) max_dim t r,
  double_krylov_ctl ar n2s e1s e2s n2g e1g e2g tol max_dim = (t, r) ->
  exists t0 t1 t2, t = t0 ++ t1 ++ t2 /\
    Forall (fun p => run_of p = 0) t0 /\ Forall (fun p => run_of p = 1) t1 /\ Forall (fun p => run_of p = 2) t2 /\
    (forall ts e, lanczos_ctl ar n2s e1s e2s tol max_dim = (ts, Err e) -> t1 = [] /\ t2 = []) /\
    ((exists d, r = Ok d) <-> t2 <> []).
Proof. exact double_krylov_sequencing. Qed.

(* all three outcomes occur: both runs return (sizes 1 and 2); a zero cotangent (NaN streams of the gradient run,
   finding F-27) raises after the state run; a state run that does not converge skips the gradient run *)
Example C30_double_krylov_contract_examples :
  let good := stream nan [0]%float in let slow := stream nan [1; 0]%float in let never := stream nan [] in
  let e := stream nan [1; 1]%float in
  dk_outcome (snd (double_krylov_ctl float_arith good e e slow e e 0.5%float 4)) = (0%Z, (1, 2, (1, 2), 3)) /\
  dk_outcome (snd (double_krylov_ctl float_arith good e e never never never 0.5%float 4)) = (3%Z, (0, 0, (0, 0), 0)) /\
  count_ops (fst (double_krylov_ctl float_arith good e e never never never 0.5%float 4)) = 5 /\
  count_ops (fst (double_krylov_ctl float_arith never never never good e e 0.5%float 4)) = 4.
Proof. vm_compute. repeat split. Qed.

(* block_triangular_powers: the algebra behind "derivative = top-right block of exp of [[A, E], [0, B]]".  Over ANY
   ring satisfying [NRingLaws] (no commutativity of the product: matrices are an instance), for every n
       [[a, e], [0, b]]^n = [[a^n, sum_{k<n} a^k e b^(n-1-k)], [0, b^n]],
   so every power series sum_n c_n M^n of the block matrix has sum_n c_n sum_k a^k e b^(n-1-k) in its top-right
   block, which for c_n = 1/n! and b = a is the Frechet derivative of exp at a in the direction e. *)
Theorem C30_block_triangular_powers : forall (R : NRing), NRingLaws R -> forall (a e b : nr R) n,
  blk_pow (upper R a e b) n = upper R (npow R a n) (frechet_sum R a e b n) (npow R b n).
Proof. exact block_upper_pow. Qed.

(* the laws are satisfiable by a ring whose product is not commutative (2x2 integer matrices), and there the
   third power of a concrete block matrix has the stated top-right block *)
Theorem C30_block_laws_satisfiable : NRingLaws M2ring /\ (exists x y : nr M2ring, nmul M2ring x y <> nmul M2ring y x).
Proof. split; [exact M2_laws | exact M2_not_commutative]. Qed.

Example C30_block_triangular_powers_example :
  let a : nr M2ring := (0, 1, 0, 0)%Z in let e : nr M2ring := (1, 2, 3, 4)%Z in let b : nr M2ring := (0, 0, 1, 0)%Z in
  b12 (blk_pow (upper M2ring a e b) 2) = nadd M2ring (nmul M2ring a e) (nmul M2ring e b) /\
  b12 (blk_pow (upper M2ring a e b) 2) = (5, 4, 4, 0)%Z.
Proof. vm_compute. split; reflexivity. Qed.
