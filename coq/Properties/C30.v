(* C30 — emu-sv gradients equal finite differences of the emulated results, and are finite.
   Only final statements.

   Part 1 (emu_sv/time_evolution.py, DHD{Omega,Phi,Delta,U}Sparse; models Model/SvGrad.v and, for the
   Hamiltonian, Model/SvHam.v of C06).  [o : Kops] is ANY commutative ring with involution satisfying
   [Klaws o] (the complex numbers are an instance: C06_laws_satisfiable / C30_laws_satisfiable).  Arrays are
   flat lists, [get l k] is entry k, qubit 0 is the most significant bit.  [upd l i x] is l with entry i
   replaced by x, [updU U i j x] the matrix U with entry (i,j) replaced by x.
   [real_path_ok N omega phinz e] is the premise of C06_H_apply_dense: when no phase is non-zero (the code then
   takes the sigma^x fast path) e_n = exp(i*0) = 1 and Omega_n is real.

   Part 2 (emu_base/math/pchip_torch.py differentiated by torch.autograd; model Model/PchipAD.v: the tape of
   elementwise operations PCHIP1D records and torch's VJP rules for + - * / where).
   [pchip_vjp ar fixed xs ys qs ws] is  sum_q ws_q * d PCHIP1D(xs, ys)(qs_q) / d ys_i  for every i, as reverse
   mode computes it; fixed = false is the source as it is, fixed = true the source with
   proposed_fixes/pchip-nan-gradient.diff (tools/props/c30.py selects the variant by inspecting the source and
   checks it against torch.autograd.grad on every run).  [pchip_vjp_checked] is the same in the model of
   division with an explicit error: Err 10 = some division of the forward or backward pass divides by zero
   (Err 1/2/3 = the ValueErrors of PCHIP1D._validate_xy). *)
From Coq Require Import ZArith Reals List Arith Bool Lra.
From Coq Require Import PrimFloat.
From EV Require Import Base.Arith Model.Pchip Model.PchipAD Proofs.PchipADProofs.
From EV Require Import Model.SvBase Model.SvHam Model.SvGrad Proofs.SvBaseProofs Proofs.SvHamProofs
  Proofs.SvGradProofs Proofs.SvComplexInstance Proofs.SvGradPhase.
Import ListNotations.
Open Scope nat_scope.

(* The premises on the coefficient ring are satisfiable: the complex numbers. *)
Theorem C30_laws_satisfiable : Klaws CK.
Proof. exact CK_laws. Qed.

(* dH_linear, amplitude.  For every N, every real increment t (conj t = t) and every vector v:
       H(Omega + t e_i) v - H(Omega) v = t * (DHDOmegaSparse_i v),
   i.e. DHDOmegaSparse(i, ., N, phi_i) is exactly dH/dOmega_i, on the fast path (phi_i = 0, alpha = 1/2 on both
   off-diagonal entries) and on the general path (alpha = e_i/2 and its conjugate). *)
Theorem C30_dH_dOmega_linear : forall (o : Kops), Klaws o ->
  forall N (omega delta : list o) (phinz : list bool) (e : list o) (U : list (list o)) (vec : list o) i (t : o),
  length omega = N -> length vec = 2 ^ N -> real_path_ok o N omega phinz e -> i < N ->
  kconj o t = t -> (nth i phinz false = false -> get e i = k1 o) ->
  forall k, k < 2 ^ N ->
    ksub o (get (ham_mul o N (upd o omega i (kadd o (get omega i) t)) delta phinz e U vec) k)
           (get (ham_mul o N omega delta phinz e U vec) k)
    = kmul o t (get (dhd_omega o N i (nth i phinz false) (get e i) vec) k).
Proof. exact dH_dOmega. Qed.

(* dH_linear, detuning:  H(delta + t e_i) v - H(delta) v = t * (DHDDeltaSparse_i v)  for every t. *)
Theorem C30_dH_dDelta_linear : forall (o : Kops), Klaws o ->
  forall N (omega delta : list o) (phinz : list bool) (e : list o) (U : list (list o)) (vec : list o) i (t : o),
  length omega = N -> length vec = 2 ^ N -> real_path_ok o N omega phinz e -> i < N -> i < length delta ->
  forall k, k < 2 ^ N ->
    ksub o (get (ham_mul o N omega (upd o delta i (kadd o (get delta i) t)) phinz e U vec) k)
           (get (ham_mul o N omega delta phinz e U vec) k)
    = kmul o t (get (dhd_delta o N i vec) k).
Proof. exact dH_dDelta. Qed.

(* dH_linear, interaction:  for i < j,  H(U + t E_ij) v - H(U) v = t * (DHDUSparse_ij v)  for every t. *)
Theorem C30_dH_dU_linear : forall (o : Kops), Klaws o ->
  forall N (omega delta : list o) (phinz : list bool) (e : list o) (U : list (list o)) (vec : list o) i j (t : o),
  length omega = N -> length vec = 2 ^ N -> real_path_ok o N omega phinz e ->
  i < j -> j < N -> length U = N -> length (nth i U []) = N ->
  forall k, k < 2 ^ N ->
    ksub o (get (ham_mul o N omega delta phinz e (updU o U i j (kadd o (getU o U i j) t)) vec) k)
           (get (ham_mul o N omega delta phinz e U vec) k)
    = kmul o t (get (dhd_U o N i j vec) k).
Proof. exact dH_dU. Qed.

(* ... and H does not depend on the diagonal or the lower triangle of U (backward leaves those gradients 0). *)
Theorem C30_dH_dU_lower_is_zero : forall (o : Kops), Klaws o ->
  forall N (omega delta : list o) (phinz : list bool) (e : list o) (U : list (list o)) (vec : list o) i j (x : o),
  j <= i -> length U = N -> i < N -> j < length (nth i U []) ->
  ham_mul o N omega delta phinz e (updU o U i j x) vec = ham_mul o N omega delta phinz e U vec.
Proof. exact dH_dU_lower. Qed.

(* dH_dphi.  H depends on phi_i through e_i = exp(i phi_i) only, and real-linearly: for a real s and ANY direction ep
       H(e_i + s * ep) v - H(e_i) v = s * (DHDPhiSparse_i[omega_i, ep] v)
   (the perturbed configuration may be on the general path while the unperturbed one is on the fast path: phinz').
   DHDPhiSparse passes ep = exp(i (phi_i + pi/2)), which is the derivative of exp(i phi) (next theorem). *)
Theorem C30_dH_dphi_direction : forall (o : Kops), Klaws o ->
  forall N (omega delta : list o) (phinz phinz' : list bool) (e : list o) (U : list (list o)) (vec : list o) i (ep s : o),
  length omega = N -> length vec = 2 ^ N -> i < N -> i < length e -> kconj o s = s ->
  real_path_ok o N omega phinz e -> real_path_ok o N omega phinz' (upd o e i (kadd o (get e i) (kmul o s ep))) ->
  forall k, k < 2 ^ N ->
    ksub o (get (ham_mul o N omega delta phinz' (upd o e i (kadd o (get e i) (kmul o s ep))) U vec) k)
           (get (ham_mul o N omega delta phinz e U vec) k)
    = kmul o s (get (dhd_phi o N i (get omega i) ep vec) k).
Proof. exact dH_de. Qed.

(* Over the complex numbers, with exp(i phi) = (cos phi, sin phi):  exp(i (phi + pi/2)) = i * exp(i phi)
   = (-sin phi, cos phi), and it is the derivative of phi |-> exp(i phi), component by component:
   (c, s) |-> (-s, c). *)
Theorem C30_phase_direction_is_derivative : forall phi : R,
  expi (phi + PI / 2)%R = kmul CK (kI CK) (expi phi) /\
  expi (phi + PI / 2)%R = (- sin phi, cos phi)%R /\
  derivable_pt_lim (fun x => fst (expi x)) phi (fst (expi (phi + PI / 2)%R)) /\
  derivable_pt_lim (fun x => snd (expi x)) phi (snd (expi (phi + PI / 2)%R)).
Proof.
  intros phi. split; [apply expi_shift | split; [apply expi_shift_components | apply expi_derivative]].
Qed.

(* The phi = 0 fast path of DHDOmegaSparse agrees with the general one (e = exp(i*0) = 1). *)
Theorem C30_dhd_omega_paths_coincide : forall (o : Kops), Klaws o -> forall N i (e : o) (vec : list o),
  e = k1 o -> dhd_omega o N i true e vec = dhd_omega o N i false e vec.
Proof. exact dhd_omega_paths_coincide. Qed.

(* vjp_algebra: the contraction EvolveStateVector.backward evaluates for every parameter,
       tensordot(Vg.conj(), dH @ (dS.mT @ Vs))  =  tr( dH . (Vs^T dS conj(Vg)) ),
   for any matrices Vs (ms x D), Vg (mg x D), dS (ms x mg) and any D x D matrix dH (given by its entries). *)
Theorem C30_vjp_algebra : forall (o : Kops), Klaws o -> forall ms mg D (Vs dS Vg E : nat -> nat -> o),
  tdot o mg D Vg (fun a k => matvec o D E (e_l o ms dS Vs a) k) = trace_prod o D E (dUmat o ms mg Vs dS Vg).
Proof. exact vjp_algebra. Qed.

(* pchip_grad_defined for the source WITH the double where (proposed_fixes/pchip-nan-gradient.diff):
   for every number of knots >= 2, strictly increasing knots, ALL values (flat segments included), all query
   points and seeds, no division of the forward or the backward pass divides by zero (real-division model). *)
Theorem C30_pchip_grad_defined_fixed : forall xs ys qs ws : list R,
  length xs = length ys -> 2 <= length xs -> strictly_increasing R_arith xs = true ->
  pchip_vjp_checked R_arith true xs ys qs ws = Ok (pchip_vjp R_arith true xs ys qs ws).
Proof. exact pchip_grad_defined_fixed. Qed.

(* the premises are satisfiable, and the guards are live *)
Example C30_pchip_grad_defined_fixed_example :
  pchip_vjp_checked R_arith true [0; 1; 2; 3]%R [0; 1; 1; 0]%R [] [] = Ok (pchip_vjp R_arith true [0; 1; 2; 3]%R [0; 1; 1; 0]%R [] []).
Proof.
  apply pchip_grad_defined_fixed; [reflexivity | simpl; auto |].
  cbv -[Rltb IZR]. rewrite !Rltb_t by lra. reflexivity.
Qed.

(* pchip_grad_defined for the source AS IT IS is false.  Real-division model: for knots 0,1,2,3 and the values
   0,1,1,0 (a pulse that rises, stays flat and falls) _weighted_harmonic_mean divides by the zero secant of the
   flat segment (the torch.where that masks the result comes after the division). *)
Theorem C30_pchip_grad_defined_refuted :
  exists xs ys qs ws : list R,
    length xs = length ys /\ 2 <= length xs /\ strictly_increasing R_arith xs = true /\
    pchip_vjp_checked R_arith false xs ys qs ws = Err 10%Z.
Proof.
  exists [0; 1; 2; 3]%R, [0; 1; 1; 0]%R, [], []. split; [reflexivity|]. split; [simpl; auto|]. split.
  - cbv -[Rltb IZR]. rewrite !Rltb_t by lra. reflexivity.
  - exact pchip_faithful_divides_by_zero.
Qed.

(* ... and in IEEE binary64 (what torch computes) the forward values are finite while the gradient with respect
   to y_1 and y_2 is NaN (0 * inf in the VJP of the division): finding F-16. *)
Theorem C30_pchip_grad_finite_float_refuted :
  exists xs ys qs ws : list float,
    strictly_increasing float_arith xs = true /\ length xs = length ys /\
    forallb f_finite (xs ++ ys ++ qs ++ ws) = true /\
    forallb f_finite (pchip_fwd float_arith false xs ys qs) = true /\
    existsb f_nan (pchip_vjp float_arith false xs ys qs ws) = true.
Proof.
  exists [0; 1; 2; 3]%float, [0; 1; 1; 0]%float, [0.5; 1.5; 2.5]%float, [1; 1; 1]%float.
  vm_compute. repeat split.
Qed.

(* The double where leaves the forward values of that witness bit-identical and makes its gradient finite. *)
Theorem C30_pchip_witness_fixed_float :
  let xs := [0; 1; 2; 3]%float in let ys := [0; 1; 1; 0]%float in
  let qs := [0.5; 1.5; 2.5]%float in let ws := [1; 1; 1]%float in
  forallb f_finite (pchip_vjp float_arith true xs ys qs ws) = true /\
  pchip_fwd float_arith true xs ys qs = pchip_fwd float_arith false xs ys qs.
Proof. exact pchip_grad_finite_float_fixed. Qed.

(* The same defect without any flat segment: at a symmetric extremum (secants -1/2 and +1/2 around the peak of
   0.5, 1, 0.5, 0) w_l/delta_l + w_r/delta_r = 0, the masked harmonic mean is (w_l + w_r)/0 = inf, and the gradient is
   NaN as well (the peak of every symmetric pulse, e.g. a Blackman waveform). *)
Theorem C30_pchip_grad_finite_float_peak_refuted :
  let xs := [0; 1; 2; 3]%float in let ys := [0.5; 1; 0.5; 0]%float in
  let qs := [0.5; 1.5; 2.5]%float in let ws := [1; 1; 1]%float in
  forallb f_finite (pchip_fwd float_arith false xs ys qs) = true /\
  existsb f_nan (pchip_vjp float_arith false xs ys qs ws) = true /\
  forallb f_finite (pchip_vjp float_arith true xs ys qs ws) = true /\
  pchip_fwd float_arith true xs ys qs = pchip_fwd float_arith false xs ys qs.
Proof. vm_compute. repeat split. Qed.
