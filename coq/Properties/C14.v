(* C14 — observables are recorded exactly at their requested times.
   Only final statements; every proof is `exact <lemma>`.  The model is Model/TimeGrid.v
   (`run`, `run_config`: hand model of the adapter's grid, of the recording logic of emu-sv and
   emu-mps, and of pulser-core 1.9.1's Observable.__call__ / _validate_eval_times /
   Results._store_raw), tied to /repo by tools/props/c14.py (bit-exact at PrimFloat on real runs
   of emu-sv, emu-mps TDVP and DMRG).
   Notation: gate tolb dflt tolp o t = the backend's _is_evaluation_time (tolerance tolb = 1e-10)
   AND pulser's time gate (tolerance tolp = tolp_of tol0 T = 0.5/int(T), or tol0 when int(T)=0);
   on_grid g T t k = "t is the k-th target time divided by T"; a stored pair (t, k) = value
   stored under time t, computed from the state after exactly k solver steps; lists of stored
   pairs are most-recent-first, `desc r` = times strictly decreasing along r, i.e. stored in
   strictly increasing time order; requested_of dflt o e = e is one of o's own times, or o has
   none and e is a default time of the config. *)
From Coq Require Import ZArith List Reals Sorted PrimFloat.
From EV Require Import Base.Arith Model.TimeGrid Proofs.TimeGridProofs Proofs.RecordProofs.
Import ListNotations.
Open Scope R_scope.

(* Adapter + backend, NO separation premise (it is derived from C21_grid_spec): for every
   duration > 0, dt > 0, merge tolerance 0 < tolu < 1, observables with requested times in [0,1]
   ("Full" default only if all have own times), either backend flavour, the whole pipeline
   never raises (neither pulser's uniqueness/ordering validation of the run's times, nor "value
   already stored", nor the "times are not sorted" assertion, nor an index error), and
   - every observable holds a value for (t, k) iff t = g_k/T and both time gates accept t:
     at most once per grid time, computed after exactly k steps (time 0 included);
   - values are stored in strictly increasing time order;
   - the Statistics observable holds exactly one value per completed step;
   - exactly the steps (g_k, g_k+1 - g_k) were taken. *)
Theorem C14_pipeline_records_gated_grid_times :
  forall tolb tol0 tolu mps dur dt (obs : list (option (list R))) dflt,
  0 < dur -> 0 < dt -> 0 < tolu < 1 -> 0 <= tol0 ->
  (forall t, requested_by obs dflt t -> 0 <= t <= 1) ->
  (dflt = None -> Forall (fun o => o <> None) obs) ->
  exists g st,
    get_target_times R_arith R_floor tolu dur dt obs dflt = Ok g /\
    run_config R_arith R_floor tolb tol0 tolu mps dur dt obs dflt = Ok st /\
    0 <= tolp_of tol0 dur /\
    Forall2 (fun o r => forall t k, In (t, k) r <->
                          on_grid g dur t k /\ gate tolb dflt (tolp_of tol0 dur) o t = true)
            obs (r_recs st) /\
    (forall t k, In (t, k) (r_stat st) <-> on_grid g dur t k /\ (1 <= k)%nat) /\
    Forall desc (r_recs st) /\
    rev (r_steps st) = intervals g.
Proof. exact run_config_recorded. Qed.

(* Recorded exactly at the requested times, once, in order.  Additional premises: the merge
   tolerance is not larger than the two gate tolerances (1e-12 <= 1e-10 and <= 0.5/T), and the
   INPUT is sane: two distinct candidate points (multiples of dt, requested times, the
   duration) are never within 2*tolb = 2e-10 (relative) of each other unless they are within
   tolu = 1e-12, i.e. unless they are the same instant for pulser and get merged.  Then for
   every observable:
   - every stored value sits on the grid (t = g_k/T, computed after exactly k steps) and t is
     within tolu of a time requested for THIS observable (own times; config default only if
     it has none);
   - every requested time e has a stored value within tolu of e, and that is the only stored
     value within tolb of e;
   - values are stored in strictly increasing time order.
   The input premise is NOT implied by what pulser accepts, and the case it excludes is a genuine
   violation of the property on the current code: the open known finding
   `recorded-within-gate-tolerance` (see C14_recorded_exactly_requested_refuted below).  When a
   requested time e lies between 1e-12 and 1e-10 (relative) of another grid time g that is not
   requested for the observable (a multiple of dt, or a time of another observable), the adapter
   does not merge them (merge tolerance 1e-12) but both backends' _is_evaluation_time accepts g
   (gate tolerance 1e-10): the observable is recorded at g as well.  Two genuinely requested
   times that close are both recorded, which is correct. *)
Theorem C14_recorded_exactly_at_requested_times :
  forall tolb tol0 tolu mps dur dt (obs : list (option (list R))) dflt,
  0 < dur -> 0 < dt -> 0 < tolu < 1 -> 0 <= tol0 ->
  tolu <= tolb -> tolu <= tolp_of tol0 dur ->
  (forall t, requested_by obs dflt t -> 0 <= t <= 1) ->
  (dflt = None -> Forall (fun o => o <> None) obs) ->
  (forall x y, is_candidate dur dt obs dflt x -> is_candidate dur dt obs dflt y ->
     Rabs (x / dur - y / dur) <= 2 * tolb -> Rabs (x / dur - y / dur) < tolu) ->
  exists g st,
    get_target_times R_arith R_floor tolu dur dt obs dflt = Ok g /\
    run_config R_arith R_floor tolb tol0 tolu mps dur dt obs dflt = Ok st /\
    Forall2 (fun o r =>
      (forall t k, In (t, k) r ->
         on_grid g dur t k /\ exists e, requested_of dflt o e /\ Rabs (e - t) < tolu) /\
      (forall e, requested_of dflt o e ->
         exists t k, In (t, k) r /\ Rabs (e - t) < tolu /\
           forall t' k', In (t', k') r -> Rabs (e - t') <= tolb -> t' = t /\ k' = k))
      obs (r_recs st) /\
    Forall desc (r_recs st).
Proof. exact recorded_exactly_requested. Qed.

(* The same for a run on any given separated grid (not necessarily produced by the adapter,
   e.g. a hand-built SequenceData): never raises, recorded iff gated, in order. *)
Theorem C14_run_records_gated_grid_times :
  forall tolb tol0 tolu mps suf (obs : list (option (list R))) dflt,
  let tt := 0 :: suf in
  let T := last tt 0 in
  0 < T -> 0 <= tol0 -> 0 < tolu ->
  StronglySorted Rlt tt -> (forall t, In t tt -> 0 <= t <= T) ->
  adjP (fun a b => a + tolu <= b) (map (fun t => t / T) tt) ->
  exists st tolp,
    run R_arith R_floor tolb tol0 tolu mps tt (length tt - 1) obs dflt = Ok st /\
    0 <= tolp /\ tolp = (if (Int_part T =? 0)%Z then tol0 else 1 / 2 / IZR (Int_part T)) /\
    Forall2 (fun o r => forall t k, In (t, k) r <-> on_grid tt T t k /\ gate tolb dflt tolp o t = true)
            obs (r_recs st) /\
    (forall t k, In (t, k) (r_stat st) <-> on_grid tt T t k /\ (1 <= k)%nat) /\
    Forall desc (r_recs st).
Proof. exact run_recorded. Qed.

(* The gates: every requested time in [0,1] is accepted ... *)
Theorem C14_requested_times_are_accepted : forall tolb dflt tolp o t,
  0 <= tolb -> 0 <= tolp -> 0 <= t <= 1 -> requested_of dflt o t -> gate tolb dflt tolp o t = true.
Proof. exact gate_complete. Qed.

(* ... and (since the F-07 fix, whatever the config default) an accepted time is within the
   backend tolerance 1e-10 of a time requested for this very observable. *)
Theorem C14_accepted_times_are_requested : forall tolb dflt tolp o t,
  gate tolb dflt tolp o t = true ->
  0 <= t <= 1 /\
  match o, dflt with
  | None, None => True
  | _, _ => exists e, requested_of dflt o e /\ Rabs (e - t) <= tolb
  end.
Proof. exact gate_sound. Qed.

(* Regression of finding F-07 (fixed in d77be2b) on the faithful binary64 model: duration
   1000 ns, dt 10, observable 0 with own times [0.5], observable 1 on the default times
   [0.5003, 1.0]: observable 0 is recorded at 0.5 only, observable 1 at 0.5003 and 1.0. *)
Theorem C14_f07_witness_now_passes_float :
  forall mps, exists st,
    run_config float_arith float_floor w_tolb w_tol0 w_tolu mps 1000%float 10%float
               [Some w07_own; None] (Some w07_dflt) = Ok st /\
    recorded_times (Ok st) 0 = w07_own /\
    recorded_times (Ok st) 1 = w07_dflt.
Proof. exact f07_witness_float. Qed.

(* Regression of F-07 with default_evaluation_times = "Full": recorded once, for dt = 1 ns and
   for dt = 0.25 ns (formerly three times). *)
Theorem C14_f07_full_witness_now_passes_float :
  exists st st2,
    run_config float_arith float_floor w_tolb w_tol0 w_tolu true 100%float 1%float [Some w07_own] None = Ok st /\
    recorded_times (Ok st) 0 = w07_own /\
    run_config float_arith float_floor w_tolb w_tol0 w_tolu true 100%float 0.25%float [Some w07_own] None = Ok st2 /\
    recorded_times (Ok st2) 0 = w07_own.
Proof. exact f07_full_witness_float. Qed.

(* REFUTED without the input premise, on the faithful binary64 model (open known finding
   recorded-within-gate-tolerance): duration 100 ns, dt 10, one observable with the single own
   time 0.5 + 5e-11.  The grid keeps both 50 ns (multiple of dt) and 50.000000005 ns, and the
   observable is recorded at 0.5 (not requested) and at 0.50000000005, on both backend flavours. *)
Theorem C14_recorded_exactly_requested_refuted :
  forall mps, exists st,
    run_config float_arith float_floor w_tolb w_tol0 w_tolu mps 100%float 10%float
               [Some [w_gate_q]] (Some [1%float]) = Ok st /\
    recorded_times (Ok st) 0 = [0.5%float; w_gate_q].
Proof. exact gate_tolerance_witness_float. Qed.
