(* C14 — observables are recorded exactly at their requested times.
   Only final statements; every proof is `exact <lemma>`.  The model is Model/TimeGrid.v (`run`:
   hand model of the recording logic of emu-sv and emu-mps and of pulser-core 1.9.1's
   Observable.__call__ / _validate_eval_times / Results._store_raw), tied to /repo by
   tools/props/c14.py (bit-exact at PrimFloat on real runs of emu-sv, emu-mps TDVP and DMRG).
   Notation: gate tolb dflt tolp o t = the backend's _is_evaluation_time (tolerance tolb = 1e-10)
   AND pulser's time gate (tolerance tolp = 0.5/int(T)); on_grid tt T t k = "t is the k-th
   target time divided by T"; a stored pair (t, k) = value stored under time t, computed from the
   state after exactly k solver steps. *)
From Coq Require Import ZArith List Reals Sorted PrimFloat.
From EV Require Import Base.Arith Model.TimeGrid Proofs.TimeGridProofs Proofs.RecordProofs.
Import ListNotations.
Open Scope R_scope.

(* A run (either backend flavour) on any strictly increasing grid 0 = t_0 < ... < t_n = T whose
   relative times are at least tolu (pulser's 1e-12) apart NEVER raises (neither pulser's
   uniqueness/ordering validation of the Statistics times, nor "value already stored", nor the
   "times are not sorted" assertion, nor an index error), and:
   - every observable o holds a value for (t, k) iff t = t_k/T and both time gates accept t:
     so at most once per grid time, in grid order, computed after exactly k steps (time 0
     included, multiples of dt or not);
   - the Statistics observable holds exactly one value per completed step. *)
Theorem C14_run_records_gated_grid_times :
  forall tolb tol0 tolu mps suf (obs : list (option (list R))) dflt,
  let tt := 0 :: suf in
  let T := last tt 0 in
  0 < T -> 0 <= tol0 -> 0 < tolu ->
  StronglySorted Rlt tt -> (forall t, In t tt -> 0 <= t <= T) ->
  adjP (fun a b => a + tolu <= b) (map (fun t => t / T) tt) ->
  exists st tolp,
    run R_arith R_floor tolb tol0 tolu mps tt (length tt - 1) obs dflt = Ok st /\
    0 <= tolp /\ tolp = (if (Int_part T =? 0)%Z then tol0 else 1 / 2 / IZR (Int_part T)) /\
    Forall2 (fun o r => forall t k, In (t, k) r <-> on_grid tt T t k /\ gate tolb dflt tolp o t = true)
            obs (r_recs st) /\
    (forall t k, In (t, k) (r_stat st) <-> on_grid tt T t k /\ (1 <= k)%nat).
Proof. exact run_recorded. Qed.

(* Every requested time in [0,1] passes both gates (with C21_grid_spec: it is on the grid, hence
   it is recorded). *)
Theorem C14_requested_times_are_recorded : forall tolb dflt tolp o t,
  0 <= tolb -> 0 <= tolp -> 0 <= t <= 1 -> requested_of dflt o t -> gate tolb dflt tolp o t = true.
Proof. exact gate_complete. Qed.

(* Exactly the requested times, under the separation premise: if no requested time of the
   observable lies within max(1e-10, 0.5/T) of the grid time t other than t itself, then t is
   recorded iff it is requested (own times, or the config default when it has none). *)
Theorem C14_recorded_iff_requested_under_separation : forall tolb dflt tolp o t,
  0 <= tolb -> 0 <= tolp -> 0 <= t <= 1 ->
  (forall e, requested_of dflt o e -> Rabs (e - t) <= Rmax tolb tolp -> e = t) ->
  (gate tolb dflt tolp o t = true <-> requested_of dflt o t).
Proof. exact gate_exact. Qed.

(* Without the separation the property is false, already in exact arithmetic (finding F-07, key
   recorded-at-unrequested-default-time): an observable with own times ts is accepted at any
   DEFAULT evaluation time d of the config lying within pulser's tolerance 0.5/T of an own time,
   because _is_evaluation_time ORs over the default times. *)
Theorem C14_unrequested_default_time_accepted : forall tolb tolp ts d e (dl : list R),
  0 <= tolb -> 0 <= d <= 1 -> In d dl -> In e ts -> Rabs (e - d) <= tolp ->
  gate tolb (Some dl) tolp (Some ts) d = true.
Proof. exact gate_accepts_near_default. Qed.

(* REFUTED on the faithful binary64 model (F-07): duration 1000 ns, dt 10, observable 0 with own
   times [0.5], observable 1 on the default times [0.5003, 1.0]: observable 0 is recorded at 0.5
   AND at 0.5003. *)
Theorem C14_recorded_exactly_requested_refuted :
  exists st,
    run_config float_arith float_floor w_tolb w_tol0 w_tolu false 1000%float 10%float
               [Some w07_own; None] (Some w07_dflt) = Ok st /\
    recorded_times (Ok st) 0 = [0.5; 0x1.0027525460aa6p-1]%float /\
    recorded_times (Ok st) 1 = [0x1.0027525460aa6p-1; 1]%float.
Proof. exact f07_float. Qed.

(* REFUTED (F-07 with default_evaluation_times = "Full"): with dt = 1 ns the observable with own
   times [0.5] is recorded once, with dt = 0.25 ns three times (every grid time within 0.5/T). *)
Theorem C14_recorded_once_full_default_refuted :
  exists st,
    run_config float_arith float_floor w_tolb w_tol0 w_tolu true 100%float 1%float [Some w07_own] None = Ok st /\
    length (recorded_times (Ok st) 0) = 1%nat /\
    exists st2,
    run_config float_arith float_floor w_tolb w_tol0 w_tolu true 100%float 0.25%float [Some w07_own] None = Ok st2 /\
    length (recorded_times (Ok st2) 0) = 3%nat.
Proof. exact f07_full_float. Qed.
