(* C21 — the simulation time grid covers the sequence and every evaluation time.
   Only final statements; every proof is `exact <lemma>`.  The model is Model/TimeGrid.v (hand
   model of _get_target_times/_unique_observable_times, the step loops of both backends and the
   reps loop of get_sequences), tied to /repo by tools/props/c21.py (bit-exact at PrimFloat). *)
From Coq Require Import ZArith List Reals Sorted PrimFloat.
From EV Require Import Base.Arith Model.TimeGrid Proofs.TimeGridProofs.
Import ListNotations.
Open Scope R_scope.

(* Exact arithmetic, any duration > 0, any dt > 0 (dividing the duration or not, larger than it
   or not), any observables whose requested times lie in [0,1] ("Full" default only when every
   observable has its own times): the adapter returns a grid that is strictly increasing, starts
   at 0, ends at the duration, and whose members are exactly: the duration, the multiples i*dt
   for 0 <= i <= floor(duration/dt), and t*duration for every requested t.  Nothing else. *)
Theorem C21_grid_spec : forall dur dt (obs : list (option (list R))) dflt,
  0 < dur -> 0 < dt ->
  (forall t, requested_by obs dflt t -> 0 <= t <= 1) ->
  (dflt = None -> Forall (fun o => o <> None) obs) ->
  exists g, get_target_times R_arith R_floor dur dt obs dflt = Ok g /\
    StronglySorted Rlt g /\ hd_error g = Some 0 /\ last g 0 = dur /\
    (forall x, In x g <->
       x = dur \/
       (exists i, (0 <= i <= Int_part (dur / dt))%Z /\ x = IZR i * dt) \/
       (exists t, requested_by obs dflt t /\ x = t * dur)).
Proof. exact grid_spec. Qed.

(* dt above the duration: the grid is {0, duration} plus the requested times. *)
Theorem C21_grid_large_dt : forall dur dt (obs : list (option (list R))) dflt x,
  0 < dur -> dur < dt ->
  (is_candidate dur dt obs dflt x <->
   x = 0 \/ x = dur \/ exists t, requested_by obs dflt t /\ x = t * dur).
Proof. exact grid_spec_large_dt. Qed.

(* Which times are requested: t is in the set collected by _unique_observable_times iff some
   observable lists it, or has no times of its own and the config default lists it. *)
Theorem C21_requested_times : forall (obs : list (option (list R))) dflt req,
  unique_observable_times obs dflt = Ok req -> forall t, In t req <-> requested_by obs dflt t.
Proof. exact uot_spec. Qed.

(* One solver step per interval: a run (emu-sv or emu-mps flavour) that completes on a grid
   starting at 0, with one row of drive samples per interval, performed exactly the steps
   (t_k, t_{k+1} - t_k) for k = 0 .. len-2, in that order: len(grid) - 1 steps. *)
Theorem C21_one_step_per_interval : forall tolb tol0 tolu mps tt (obs : list (option (list R))) dflt st,
  hd_error tt = Some 0 ->
  run R_arith R_floor tolb tol0 tolu mps tt (length tt - 1) obs dflt = Ok st ->
  rev (r_steps st) = intervals tt /\ length (r_steps st) = (length tt - 1)%nat.
Proof. exact run_steps. Qed.

(* If distinct candidate points are more than sep apart, so are consecutive grid points
   (no spurious short step).  The premise is what binary64 does not give: see below. *)
Theorem C21_no_short_step_under_separation : forall (sep : R) g,
  StronglySorted Rlt g ->
  (forall x y, In x g -> In y g -> x < y -> sep < y - x) ->
  forall pre a b suf, g = pre ++ a :: b :: suf -> sep < b - a.
Proof. exact sorted_gap. Qed.

(* get_sequences yields sum(reps) SequenceData, and every trajectory exactly reps times. *)
Theorem C21_trajectory_repetitions : forall (T : Type) (eq_dec : forall a b : T, {a = b} + {a <> b})
    (samples : list (T * nat)) (x : T),
  length (get_sequences samples) = fold_right (fun s acc => (snd s + acc)%nat) 0%nat samples /\
  count_occ eq_dec (get_sequences samples) x =
  fold_right (fun s acc => ((if eq_dec (fst s) x then snd s else 0) + acc)%nat) 0%nat samples.
Proof. intros. split; [apply get_sequences_length | apply get_sequences_count]. Qed.

(* REFUTED in binary64 (finding F-08, key near-duplicate-grid-points): for the valid input
   duration 10, dt 0.1, evaluation times [0.03, 1.0] the float grid has 102 points instead of 101:
   3*0.1/10*10 = 0.30000000000000004 and 0.03*10 = 0.3 are both kept, 5.6e-17 ns apart (relative
   gap < 2^-52), i.e. a spurious zero-length solver step; and the run then fails in both
   backends with ValueError "Evaluation times must be unique" (code 20) before simulating. *)
Theorem C21_no_short_step_float_refuted :
  exists g,
    PrimFloat.ltb 0 w08_dur = true /\ PrimFloat.ltb 0 w08_dt = true /\
    validate_times float_arith w_tolu w08_ts = Ok tt /\
    get_target_times float_arith float_floor w08_dur w08_dt [Some w08_ts] (Some [1%float]) = Ok g /\
    length g = 102%nat /\
    PrimFloat.ltb (min_rel_gap w08_dur g 1) 0x1p-52 = true /\
    (forall mps, run float_arith float_floor w_tolb w_tol0 w_tolu mps g (length g - 1)
                     [Some w08_ts] (Some [1%float]) = Err 20%Z).
Proof. exact grid_near_duplicates_float. Qed.
