(* C21 — the simulation time grid covers the sequence and every evaluation time.
   Only final statements; every proof is `exact <lemma>`.  The model is Model/TimeGrid.v (hand
   model of _get_target_times/_unique_observable_times, the step loops of both backends and the
   reps loop of get_sequences), tied to /repo by tools/props/c21.py (bit-exact at PrimFloat). *)
From Coq Require Import ZArith List Reals Sorted PrimFloat.
From EV Require Import Base.Arith Model.TimeGrid Proofs.TimeGridProofs.
Import ListNotations.
Open Scope R_scope.

(* Exact arithmetic, any duration > 0, any dt > 0 (dividing the duration or not, larger than it
   or not), merge tolerance 0 < tolu < 1 (the code uses 1e-12), any observables whose requested
   times lie in [0,1] ("Full" default only when every observable has its own times).  Call
   candidates the duration, the multiples i*dt for 0 <= i <= floor(duration/dt), and t*duration
   for every requested t.  The adapter returns a grid g that
   - is strictly increasing, starts at 0 and ends at the duration;
   - has consecutive points at least tolu*duration apart (no near-zero solver step; pulser's
     uniqueness check of the run's evaluation times cannot fail);
   - contains only candidates (nothing else);
   - contains, for every candidate (every multiple of dt, every requested time), a point
     closer than tolu*duration to it. *)
Theorem C21_grid_spec : forall tolu dur dt (obs : list (option (list R))) dflt,
  0 < dur -> 0 < dt -> 0 < tolu < 1 ->
  (forall t, requested_by obs dflt t -> 0 <= t <= 1) ->
  (dflt = None -> Forall (fun o => o <> None) obs) ->
  exists g, get_target_times R_arith R_floor tolu dur dt obs dflt = Ok g /\
    StronglySorted Rlt g /\ hd_error g = Some 0 /\ last g 0 = dur /\
    adjP (fun a b => a + tolu <= b) (map (fun t => t / dur) g) /\
    (forall x, In x g -> is_candidate dur dt obs dflt x /\ 0 <= x <= dur) /\
    (forall x, is_candidate dur dt obs dflt x ->
       exists y, In y g /\ Rabs (x / dur - y / dur) < tolu).
Proof. exact grid_spec. Qed.

(* Before merging, the sorted candidate list is exactly the candidate set: strictly increasing,
   first 0, last the duration, x is a member iff it is the duration, a multiple of dt up to the
   duration, or t*duration for a requested t. *)
Theorem C21_candidates_spec : forall dur dt (obs : list (option (list R))) dflt req,
  0 < dur -> 0 < dt ->
  (forall t, requested_by obs dflt t -> 0 <= t <= 1) ->
  unique_observable_times obs dflt = Ok req ->
  let S := candidates R_arith dur dt (Int_part (dur / dt)) req in
  StronglySorted Rlt S /\ hd_error S = Some 0 /\ last S 0 = dur /\
  (forall x, In x S <->
     x = dur \/
     (exists i, (0 <= i <= Int_part (dur / dt))%Z /\ x = IZR i * dt) \/
     (exists t, requested_by obs dflt t /\ x = t * dur)) /\
  (forall x, is_candidate dur dt obs dflt x -> 0 <= x <= dur).
Proof. exact candidates_spec. Qed.

(* dt above the duration: the grid is {0, duration} plus the requested times. *)
Theorem C21_grid_large_dt : forall dur dt (obs : list (option (list R))) dflt x,
  0 < dur -> dur < dt ->
  (is_candidate dur dt obs dflt x <->
   x = 0 \/ x = dur \/ exists t, requested_by obs dflt t /\ x = t * dur).
Proof. exact grid_spec_large_dt. Qed.

(* Which times are requested: t is in the set collected by _unique_observable_times iff some
   observable lists it, or has no times of its own and the config default lists it. *)
Theorem C21_requested_times : forall (obs : list (option (list R))) dflt req,
  unique_observable_times obs dflt = Ok req -> forall t, In t req <-> requested_by obs dflt t.
Proof. exact uot_spec. Qed.

(* One solver step per interval: a run (emu-sv or emu-mps flavour) that completes on a grid
   starting at 0, with one row of drive samples per interval, performed exactly the steps
   (t_k, t_{k+1} - t_k) for k = 0 .. len-2, in that order: len(grid) - 1 steps. *)
Theorem C21_one_step_per_interval : forall tolb tol0 tolu mps tt (obs : list (option (list R))) dflt st,
  hd_error tt = Some 0 ->
  run R_arith R_floor tolb tol0 tolu mps tt (length tt - 1) obs dflt = Ok st ->
  rev (r_steps st) = intervals tt /\ length (r_steps st) = (length tt - 1)%nat.
Proof. exact run_steps. Qed.

(* If distinct candidate points are more than sep apart, so are consecutive grid points
   (no spurious short step).  Since the F-08 fix the grid theorem above gives this
   unconditionally with sep = tolu*duration; this is the general list fact. *)
Theorem C21_no_short_step_under_separation : forall (sep : R) g,
  StronglySorted Rlt g ->
  (forall x y, In x g -> In y g -> x < y -> sep < y - x) ->
  forall pre a b suf, g = pre ++ a :: b :: suf -> sep < b - a.
Proof. exact sorted_gap. Qed.

(* get_sequences yields sum(reps) SequenceData, and every trajectory exactly reps times. *)
Theorem C21_trajectory_repetitions : forall (T : Type) (eq_dec : forall a b : T, {a = b} + {a <> b})
    (samples : list (T * nat)) (x : T),
  length (get_sequences samples) = fold_right (fun s acc => (snd s + acc)%nat) 0%nat samples /\
  count_occ eq_dec (get_sequences samples) x =
  fold_right (fun s acc => ((if eq_dec (fst s) x then snd s else 0) + acc)%nat) 0%nat samples.
Proof. intros. split; [apply get_sequences_length | apply get_sequences_count]. Qed.

(* Regression of finding F-08 (fixed in 319efe0) on the faithful binary64 model: duration 10,
   dt 0.1, evaluation times [0.03, 1.0] now give 101 grid points (0.30000000000000004 is merged
   into 0.3), no relative gap below 1e-12, and the run of either backend flavour completes and
   records the observable exactly at 0.03 and 1.0. *)
Theorem C21_f08_witness_now_passes_float :
  exists g,
    get_target_times float_arith float_floor w_tolu w08_dur w08_dt [Some w08_ts] (Some [1%float]) = Ok g /\
    length g = 101%nat /\
    PrimFloat.ltb (min_rel_gap w08_dur g 1) w_tolu = false /\
    (forall mps, exists st,
       run float_arith float_floor w_tolb w_tol0 w_tolu mps g (length g - 1)
           [Some w08_ts] (Some [1%float]) = Ok st /\
       map fst (rev (nth 0 (r_recs st) [])) = w08_ts).
Proof. exact f08_witness_merged_float. Qed.
