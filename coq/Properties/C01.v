(* C01 — emu-sv noiseless runs reproduce the Pulser Hamiltonian dynamics.
   What is proved here is the discrete core: what the step loop of SVBackendImpl hands to the stepper
   and to the callbacks, for EVERY number of steps, every list of target times, every drive table and
   every stepper / Hamiltonian constructor / interaction-matrix callable / evaluation-time predicate
   (all are oracles), plus the abstract accumulation of the per-step error along the product of exact
   propagators.  That one Krylov step meets its tolerance is NOT proved (C07's numerical clause): it
   is validated end to end against an independent dense reference (tools/props/c01.py).
   The machine (Model/SvMachine.v) is tied to /repo/emu_sv/sv_backend_impl.py by the trace
   correspondence of tools/props/_sv_trace.py.  Only final statements here.

   Well-formed data below means: target times t0 :: t1 :: rest (n + 1 >= 2 of them), n rows in each of
   omega / delta / phi, last target time non-zero.  Rows and matrix are seen through eff_row / eff_U
   (identity for noiseless runs, p_dark = None). *)
From Coq Require Import ZArith List Bool Reals PrimFloat.
From EV Require Import Base.Arith Model.SvMachine Proofs.SvMachineProofs Proofs.ErrorAccum Proofs.SvRunProofs.
Import ListNotations.

(* A whole run succeeds (no IndexError / ZeroDivisionError), its final state is the ordered fold over
   the intervals k = 0..n-1 of  stepper((t_{k+1} - t_k) * 0.001, omega[k], delta[k], phi[k], U(t_k), .),
   and the complete chronological trace is: the events of _apply_observables(0), then per interval
   [query U(t_k); stepper call; callbacks at t_{k+1}/t_n; statistics at t_{k+1}/t_n]. *)
Theorem C01_sv_run_closed_form :
  forall (A : Type) (ar : Arith A) (Row UM St Hm : Type)
         (zero_row : list bool -> Row -> Row) (mask_U : list bool -> UM -> UM) (umat : A -> UM)
         (stepper : A -> Row -> Row -> Row -> UM -> St -> St * Hm)
         (get_ham : Row -> Row -> Row -> UM -> Hm) (is_eval : nat -> A -> bool)
         (P : params A Row) (s0 : St) (t0 t1 tn : A) (rest : list A) (o d p : Row) (os ds ps : list Row),
  p_times P = t0 :: t1 :: rest -> p_omega P = o :: os -> p_delta P = d :: ds -> p_phi P = p :: ps ->
  length os = length rest -> length ds = length rest -> length ps = length rest ->
  lastA (p_times P) = Some tn -> a_eqb ar tn (zero ar) = false ->
  exists sf, run ar zero_row mask_U umat stepper get_ham is_eval P s0 = Ok sf /\
    sv_state sf = fold_steps A ar Row UM St Hm zero_row mask_U umat stepper P t0 (t1 :: rest) (o :: os) (d :: ds) (p :: ps) s0 /\
    rev (sv_ev sf) =
      initial_events A ar Row UM St Hm zero_row mask_U umat get_ham is_eval P tn t0 t1 o d p s0 ++
      steps_events A ar Row UM St Hm zero_row mask_U umat stepper is_eval P tn t0 (t1 :: rest) (o :: os) (d :: ds) (p :: ps) s0.
Proof. exact sv_run_closed_form_full. Qed.

(* sv_run_is_ordered_fold: the stepper calls found in the trace are exactly one per interval, in
   order, call k on the state returned by call k-1, with dt = (t_{k+1}-t_k)*0.001, row k of each drive
   table and the interaction matrix queried at the START t_k of the interval. *)
Theorem C01_sv_run_is_ordered_fold :
  forall (A : Type) (ar : Arith A) (Row UM St Hm : Type)
         (zero_row : list bool -> Row -> Row) (mask_U : list bool -> UM -> UM) (umat : A -> UM)
         (stepper : A -> Row -> Row -> Row -> UM -> St -> St * Hm)
         (get_ham : Row -> Row -> Row -> UM -> Hm) (is_eval : nat -> A -> bool)
         (P : params A Row) (s0 : St) (t0 t1 tn : A) (rest : list A) (o d p : Row) (os ds ps : list Row),
  p_times P = t0 :: t1 :: rest -> p_omega P = o :: os -> p_delta P = d :: ds -> p_phi P = p :: ps ->
  length os = length rest -> length ds = length rest -> length ps = length rest ->
  lastA (p_times P) = Some tn -> a_eqb ar tn (zero ar) = false ->
  exists sf, run ar zero_row mask_U umat stepper get_ham is_eval P s0 = Ok sf /\
    sv_state sf = fold_left (fun s f => f s)
                    (step_funs A ar Row UM St Hm zero_row mask_U umat stepper P t0 (t1 :: rest) (o :: os) (d :: ds) (p :: ps)) s0 /\
    flat_map (step_of A Row UM St Hm) (rev (sv_ev sf)) =
      expected_steps A ar Row UM St Hm zero_row mask_U umat stepper P t0 (t1 :: rest) (o :: os) (d :: ds) (p :: ps) s0 /\
    length (flat_map (step_of A Row UM St Hm) (rev (sv_ev sf))) = length (t1 :: rest).
Proof. exact sv_run_is_ordered_fold_full. Qed.

(* sv_callbacks_at_boundaries: the callback and statistics invocations found in the trace are: at
   boundary 0 the callbacks whose evaluation times contain t_0/t_n, on the initial state, with the
   Hamiltonian built from ROW 0 and U at the midpoint of the first interval; then for every k >= 0, at
   boundary k+1, the callbacks selected at t_{k+1}/t_n followed by the statistics callback, all on the
   state returned by stepper call k and the Hamiltonian object returned by that same call (row k). *)
Theorem C01_sv_callbacks_at_boundaries :
  forall (A : Type) (ar : Arith A) (Row UM St Hm : Type)
         (zero_row : list bool -> Row -> Row) (mask_U : list bool -> UM -> UM) (umat : A -> UM)
         (stepper : A -> Row -> Row -> Row -> UM -> St -> St * Hm)
         (get_ham : Row -> Row -> Row -> UM -> Hm) (is_eval : nat -> A -> bool)
         (P : params A Row) (s0 : St) (t0 t1 tn : A) (rest : list A) (o d p : Row) (os ds ps : list Row),
  p_times P = t0 :: t1 :: rest -> p_omega P = o :: os -> p_delta P = d :: ds -> p_phi P = p :: ps ->
  length os = length rest -> length ds = length rest -> length ps = length rest ->
  lastA (p_times P) = Some tn -> a_eqb ar tn (zero ar) = false ->
  exists sf, run ar zero_row mask_U umat stepper get_ham is_eval P s0 = Ok sf /\
    flat_map (boundary_of A Row UM St Hm) (rev (sv_ev sf)) =
      callback_events A Row UM St Hm is_eval P (a_div ar t0 tn) s0
        (initial_ham A ar Row UM Hm zero_row mask_U umat get_ham P t0 t1 o d p) ++
      expected_boundaries A ar Row UM St Hm zero_row mask_U umat stepper is_eval P tn t0 (t1 :: rest) (o :: os) (d :: ds) (p :: ps) s0.
Proof. exact sv_callbacks_at_boundaries_full. Qed.

(* The interaction matrix is queried at the start time of every interval (t_0 .. t_{n-1}), never at
   t_n, after at most one query at the midpoint of the first interval. *)
Theorem C01_sv_matrix_query_times :
  forall (A : Type) (ar : Arith A) (Row UM St Hm : Type)
         (zero_row : list bool -> Row -> Row) (mask_U : list bool -> UM -> UM) (umat : A -> UM)
         (stepper : A -> Row -> Row -> Row -> UM -> St -> St * Hm)
         (get_ham : Row -> Row -> Row -> UM -> Hm) (is_eval : nat -> A -> bool)
         (P : params A Row) (s0 : St) (t0 t1 tn : A) (rest : list A) (o d p : Row) (os ds ps : list Row),
  p_times P = t0 :: t1 :: rest -> p_omega P = o :: os -> p_delta P = d :: ds -> p_phi P = p :: ps ->
  length os = length rest -> length ds = length rest -> length ps = length rest ->
  lastA (p_times P) = Some tn -> a_eqb ar tn (zero ar) = false ->
  exists sf, run ar zero_row mask_U umat stepper get_ham is_eval P s0 = Ok sf /\
    flat_map (query_of A Row UM St Hm) (rev (sv_ev sf)) =
      flat_map (query_of A Row UM St Hm)
        (initial_events A ar Row UM St Hm zero_row mask_U umat get_ham is_eval P tn t0 t1 o d p s0) ++
      butlast A (t0 :: t1 :: rest).
Proof. exact sv_matrix_query_times_full. Qed.

(* error_accumulation: in any space with a distance d and a norm (triangle inequalities only), if every
   exact propagator E_k is an isometry and the map S_k actually applied satisfies
   d(S_k v, E_k v) <= eps_k |v|, then after all steps the computed vector is within
   |psi| (prod_k (1 + eps_k) - 1) of the exact product applied to the same start vector. *)
Theorem C01_error_accumulation :
  forall (V : Type) (d : V -> V -> R) (nrm : V -> R),
  (forall a b c, (d a c <= d a b + d b c)%R) -> (forall a b, (nrm a <= nrm b + d a b)%R) ->
  (forall a, (0 <= nrm a)%R) ->
  forall (steps : list ((V -> V) * (V -> V) * R)) (phi : V),
  Forall (good_step V d nrm) steps -> (d phi phi <= 0)%R ->
  (d (apply_all V (map (fun x => fst (fst x)) steps) phi) (apply_all V (map (fun x => snd (fst x)) steps) phi)
   <= nrm phi * (prod1 (map (@snd _ _) steps) - 1))%R.
Proof. exact error_accumulation_full. Qed.

(* The two together: if the k-th stepper call of the run is eps_k-close to an isometry E_k, the state
   returned by the run is within |s0| (prod (1 + eps_k) - 1) of E_{n-1} ... E_0 s0. *)
Theorem C01_sv_run_error_bound :
  forall (A : Type) (ar : Arith A) (Row UM St Hm : Type)
         (zero_row : list bool -> Row -> Row) (mask_U : list bool -> UM -> UM) (umat : A -> UM)
         (stepper : A -> Row -> Row -> Row -> UM -> St -> St * Hm)
         (get_ham : Row -> Row -> Row -> UM -> Hm) (is_eval : nat -> A -> bool)
         (P : params A Row) (s0 : St) (t0 t1 tn : A) (rest : list A) (o d p : Row) (os ds ps : list Row)
         (dist : St -> St -> R) (nrm : St -> R) (steps : list ((St -> St) * (St -> St) * R)),
  p_times P = t0 :: t1 :: rest -> p_omega P = o :: os -> p_delta P = d :: ds -> p_phi P = p :: ps ->
  length os = length rest -> length ds = length rest -> length ps = length rest ->
  lastA (p_times P) = Some tn -> a_eqb ar tn (zero ar) = false ->
  (forall a b c, (dist a c <= dist a b + dist b c)%R) -> (forall a b, (nrm a <= nrm b + dist a b)%R) ->
  (forall a, (0 <= nrm a)%R) -> (dist s0 s0 <= 0)%R ->
  map (fun x => fst (fst x)) steps =
    step_funs A ar Row UM St Hm zero_row mask_U umat stepper P t0 (t1 :: rest) (o :: os) (d :: ds) (p :: ps) ->
  Forall (good_step St dist nrm) steps ->
  exists sf, run ar zero_row mask_U umat stepper get_ham is_eval P s0 = Ok sf /\
    (dist (sv_state sf) (apply_all St (map (fun x => snd (fst x)) steps) s0)
     <= nrm s0 * (prod1 (map (@snd _ _) steps) - 1))%R.
Proof. exact sv_run_error_bound_full. Qed.

(* the premises of the run theorems are satisfiable: a concrete 2-step run on the trace instance *)
Example C01_run_premises_satisfiable :
  fst (trace_run Arith.float_arith [0%float; 10%float; 25%float] [[1%Z]; [33%Z]] [[2001%Z]; [2033%Z]]
         [[4001%Z]; [4033%Z]] None 1 [(0%float, [true]); (1%float, [true])]) = 0%Z.
Proof. vm_compute. reflexivity. Qed.
