(* C18 — quantum-jump stepping completes every time step once, in order, and terminates.
   The noisy solver shares the TDVP sweep with the noiseless one; what differs is sweep_complete
   (norm check, Brent root search for the jump time, the jump itself).  Model: Model/MpsMachine.v, kind
   Noisy, with the root finder being the term GENERATED from brents_root_finding.py (Gen/Brent.v) and the
   squared norms / uniform random numbers being oracle streams.  Tied to NoisyMPSBackendImpl by the exact
   trace correspondence (tools/props/_mps_trace.py).  Only final statements here. *)
From Coq Require Import ZArith List Bool.
From EV Require Import Base.Arith Gen.Brent Model.MpsMachine Proofs.MpsStep Proofs.MpsPhase Proofs.MpsSweep
  Proofs.MpsSweepComplete.
Import ListNotations.
Open Scope Z_scope.

(* For every N = n+3 >= 3, every noisy (or noiseless) TDVP state at the start of a sweep, whatever the
   target time (a grid time or a root-finder abscissa, forward or backward in time): the next 2N-3
   progress() calls never fail, run exactly the symmetric kernel schedule with dt = target - current, touch
   nothing else, and end by calling sweep_complete on the state `before_complete`. *)
Theorem C18_sweep_then_complete :
  forall (A : Type) (ar : Arith A) (s : mstate A) (n : nat),
  tdvp_like A s -> m_N s = Z.of_nat n + 3 -> sweep_start A s ->
  exists s1, same_frame A s s1 /\ pos A s1 1 false 2 (m_N s - 2) 1 /\
    m_ev s1 = rev (sweep_prefix A ar s n) ++ m_ev s /\
    iter_progress ar (S n + 1 + n + 1) s =
      res_bind (res_bind (sweep_complete ar (before_complete A ar s1)) (fun s => Ok (set_l2r s true)))
               (fun s => Ok (emit s (EvSave A))).
Proof. exact sweep_then_complete. Qed.

(* ---- the noisy invariant (times over R because the root finder's theorems are over R) ---------- *)
From Coq Require Import Reals.
From EV Require Import Model.BrentLoop Proofs.BrentProofs Proofs.NoisyInv Proofs.NoisyBranches
  Proofs.NoisyComplete Proofs.NoisySweep Proofs.NoisyRun.

(* One sweep of the noisy solver, for EVERY norm / random / matrix-change oracle stream: either it stops
   with one of three explicit errors (an oracle stream ran out; the root-finder constructor was handed a
   norm gap that is exactly zero; the renormalised state's norm was not 1), or the invariant is kept:
   the current time stays inside the time step in progress; when a root search is running the target
   time is the pending abscissa of a valid Brent bracket contained in the step; fill_results is called
   at most once, and exactly when the step index advances, at the step's end time; every quantum jump
   of the sweep happens at a time inside the step in progress. *)
Theorem C18_noisy_sweep_invariant :
  forall (s : mstate R) (n : nat),
  wf s -> m_N s = Z.of_nat n + 3 -> sweep_start R s -> tinv s ->
  match iter_progress R_arith (Datatypes.S n + 1 + n + 1) s with
  | Ok s' => wf s' /\ m_N s' = m_N s /\ m_steps s' = m_steps s /\ m_times s' = m_times s /\
             sweep_start R s' /\ (is_finished s' = true \/ tinv s') /\ step_effect s s'
  | Err m => allowed_err m
  | OutOfFuel => False
  end.
Proof. exact noisy_sweep_inv. Qed.

(* A whole noisy run from the constructor, after any number m of sweeps (2N-3 progress() calls each). *)
Theorem C18_noisy_whole_run :
  forall (n : nat) (t1 : R) (rest : list R) etol maxsw onorm ounif oenergy osame (m : nat),
  (forall k, 0 <= k < 1 + Z.of_nat (length rest) ->
             (tmL (0%R :: t1 :: rest) k < tmL (0%R :: t1 :: rest) (k + 1))%R) ->
  match mk_initial R_arith Noisy (Z.of_nat n + 3) (1 + Z.of_nat (length rest)) (0%R :: t1 :: rest) etol maxsw
                   onorm ounif oenergy osame with
  | Ok s0 =>
      match iter_progress R_arith (m * (2 * n + 3)) s0 with
      | Ok s' => RunInv n s'
      | Err e => allowed_err e
      | OutOfFuel => False
      end
  | Err e => e = E_ORACLE
  | OutOfFuel => False
  end.
Proof. exact noisy_whole_run. Qed.

(* Once finished: every time step was recorded exactly once, in order, at its end time (plus the
   record at t = 0), and every quantum jump happened inside some time step. *)
Theorem C18_finished_run_records_each_step_once :
  forall (n : nat) (s : mstate R),
  RunInv n s -> is_finished s = true ->
  flat_map fill_of (rev (m_ev s)) = (0, 0%R) :: fills_upto s (Z.to_nat (m_steps s)) /\ jumps_ok s.
Proof. exact finished_run_fills. Qed.

(* The loop MPSBackend._run executes (`while not impl.is_finished(): impl.progress()`, [run] with a fuel bound):
   for every oracle stream, WHENEVER the loop returns, the returned state is finished, satisfies the run
   invariant, every time step was recorded exactly once, in order, at its end time, and every jump happened
   inside some time step.  (That it returns for every stream is not provable: see C19.) *)
From EV Require Import Proofs.MpsRunLoop Proofs.MpsRunLoopCor.
Theorem C18_run_loop_result :
  forall (n : nat) (t1 : R) (rest : list R) etol maxsw onorm ounif oenergy osame (fuel : nat),
  (forall k, 0 <= k < 1 + Z.of_nat (length rest) ->
             (tmL (0%R :: t1 :: rest) k < tmL (0%R :: t1 :: rest) (k + 1))%R) ->
  forall s0 sf,
    mk_initial R_arith Noisy (Z.of_nat n + 3) (1 + Z.of_nat (length rest)) (0%R :: t1 :: rest) etol maxsw
               onorm ounif oenergy osame = Ok s0 ->
    run R_arith fuel s0 = Ok sf ->
    is_finished sf = true /\ RunInv n sf /\
    flat_map fill_of (rev (m_ev sf)) = (0, 0%R) :: fills_upto sf (Z.to_nat (m_steps sf)) /\ jumps_ok sf.
Proof. exact noisy_run_loop. Qed.

(* Two sites (one pair evolution per progress() call): the same invariant for every oracle stream and any number of
   calls, and the same statement about the loop. *)
From EV Require Import Proofs.NoisyN2.
Theorem C18_two_sites_whole_run :
  forall (t1 : R) (rest : list R) etol maxsw onorm ounif oenergy osame (m : nat),
  (forall k, 0 <= k < 1 + Z.of_nat (length rest) ->
             (tmL (0%R :: t1 :: rest) k < tmL (0%R :: t1 :: rest) (k + 1))%R) ->
  match mk_initial R_arith Noisy 2 (1 + Z.of_nat (length rest)) (0%R :: t1 :: rest) etol maxsw
                   onorm ounif oenergy osame with
  | Ok s0 =>
      match iter_progress R_arith m s0 with
      | Ok s' => RunInv2 s'
      | Err e => allowed_err e
      | OutOfFuel => False
      end
  | Err e => e = E_ORACLE
  | OutOfFuel => False
  end.
Proof. exact noisy_whole_run2. Qed.

Theorem C18_two_sites_run_loop_result :
  forall (t1 : R) (rest : list R) etol maxsw onorm ounif oenergy osame (fuel : nat),
  (forall k, 0 <= k < 1 + Z.of_nat (length rest) ->
             (tmL (0%R :: t1 :: rest) k < tmL (0%R :: t1 :: rest) (k + 1))%R) ->
  forall s0 sf,
    mk_initial R_arith Noisy 2 (1 + Z.of_nat (length rest)) (0%R :: t1 :: rest) etol maxsw
               onorm ounif oenergy osame = Ok s0 ->
    run R_arith fuel s0 = Ok sf ->
    is_finished sf = true /\ RunInv2 sf /\
    flat_map fill_of (rev (m_ev sf)) = (0, 0%R) :: fills_upto sf (Z.to_nat (m_steps sf)) /\ jumps_ok sf.
Proof. exact noisy_run_loop2. Qed.
