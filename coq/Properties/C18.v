(* C18 — quantum-jump stepping completes every time step once, in order, and terminates.
   The noisy solver shares the TDVP sweep with the noiseless one; what differs is sweep_complete
   (norm check, Brent root search for the jump time, the jump itself).  Model: Model/MpsMachine.v, kind
   Noisy, with the root finder being the term GENERATED from brents_root_finding.py (Gen/Brent.v) and the
   squared norms / uniform random numbers being oracle streams.  Tied to NoisyMPSBackendImpl by the exact
   trace correspondence (tools/props/_mps_trace.py).  Only final statements here. *)
From Coq Require Import ZArith List Bool.
From EV Require Import Base.Arith Gen.Brent Model.MpsMachine Proofs.MpsStep Proofs.MpsPhase Proofs.MpsSweep
  Proofs.MpsSweepComplete.
Import ListNotations.
Open Scope Z_scope.

(* For every N = n+3 >= 3, every noisy (or noiseless) TDVP state at the start of a sweep, whatever the
   target time (a grid time or a root-finder abscissa, forward or backward in time): the next 2N-3
   progress() calls never fail, run exactly the symmetric kernel schedule with dt = target - current, touch
   nothing else, and end by calling sweep_complete on the state `before_complete`. *)
Theorem C18_sweep_then_complete :
  forall (A : Type) (ar : Arith A) (s : mstate A) (n : nat),
  tdvp_like A s -> m_N s = Z.of_nat n + 3 -> sweep_start A s ->
  exists s1, same_frame A s s1 /\ pos A s1 1 false 2 (m_N s - 2) 1 /\
    m_ev s1 = rev (sweep_prefix A ar s n) ++ m_ev s /\
    iter_progress ar (S n + 1 + n + 1) s =
      res_bind (res_bind (sweep_complete ar (before_complete A ar s1)) (fun s => Ok (set_l2r s true)))
               (fun s => Ok (emit s (EvSave A))).
Proof. exact sweep_then_complete. Qed.
