(* C03 — results are independent of the internal qubit reordering and always list atoms in register
   order.  Only final statements.  Model: Model/QubitOrder.v (bookkeeping of MPSBackendImpl /
   MPSBackend / MPSConfig) on top of Model/Permutations.v.  The model has one switch per place where
   the code was found to deviate; tools/props/c03.py determines on every run which variant the real
   code follows and reports a VIOLATION unless it is [fixed].  Helper laws: see Properties/C32.v. *)
From Coq Require Import String Ascii ZArith List Bool Arith.
From EV Require Import Base.Arith Model.Permutations Model.Optimiser Model.QubitOrder
  Proofs.PermutationsProofs Proofs.QubitOrderProofs.
Import ListNotations.
Open Scope nat_scope.

(* Routing.  When drives and bad-atom mask are permuted like the interaction matrix, then for every
   permutation of every size, chain site s gets the interaction row, the drive column and the
   bad-atom flag of one and the same atom perm[s]. *)
Theorem C03_routing_consistent :
  forall v n perm (m : list (list Z)) (row : list Z) (bad : list bool),
  v_drives v = true -> v_mask v = true -> is_perm n perm -> wf n m -> length row = n -> length bad = n ->
  exists m' row' bad', site_interaction perm m = Ok m' /\ site_drive v perm row = Ok row' /\
    site_bad v perm bad = Ok bad' /\
    forall s, s < n ->
      nth s row' 0%Z = nth (nth s perm 0) row 0%Z /\
      nth s bad' false = nth (nth s perm 0) bad false /\
      forall t, t < n -> nth t (nth s m' []) 0%Z = nth (nth t perm 0) (nth (nth s perm 0) m []) 0%Z.
Proof. exact routing_consistent. Qed.

(* F-03: in the legacy variant (drives not permuted) a site gets the drive of the wrong atom. *)
Theorem C03_legacy_drive_routing_refuted :
  exists perm row row' s, is_perm 2 perm /\ length row = 2 /\ s < 2 /\
    site_drive legacy perm row = Ok row' /\ nth s row' 0%Z <> nth (nth s perm 0) row 0%Z.
Proof. exact legacy_drive_routing_refuted. Qed.

(* F-03 (mask): in the legacy variant the bad-atom flag of the wrong atom is used. *)
Theorem C03_legacy_mask_routing_refuted :
  exists perm bad bad' s, is_perm 2 perm /\ length bad = 2 /\ s < 2 /\
    site_bad legacy perm bad = Ok bad' /\ nth s bad' false <> nth (nth s perm 0) bad false.
Proof. exact legacy_mask_routing_refuted. Qed.

(* Results in register order.  When stored results are selected by the tag-string rule of
   _tags_with_base (tag == base or tag starts with base + "_"): for every permutation, every atom order
   and every set of stored results of an accepted (whitelisted) configuration -- ANY tag_suffix string:
   empty, "-", "=", ".", blanks, "_", unicode bytes, names of other tags, any length; any number of
   evaluation times -- whose per-atom values have one slot per atom: if the simulation stored at slot s the value
   of atom perm[s], permute_results returns exactly the register-order results and atom order. *)
Theorem C03_results_in_register_order : forall v n perm ao es, v_tags v = true -> is_perm n perm ->
  length ao = n -> Forall (sized_entry n) es -> config_keeps_reordering (map e_base es) = true ->
  exists r', to_internal perm (ao, es) = Ok r' /\ permute_results v perm true r' = Ok (ao, es).
Proof. exact results_roundtrip. Qed.

(* F-04: in the legacy variant (exact-tag lookup) an accepted configuration with a suffixed
   occupation comes back in internal order. *)
Theorem C03_legacy_suffixed_tag_refuted :
  exists perm r r', is_perm 2 perm /\ length (fst r) = 2 /\ Forall (sized_entry 2) (snd r) /\
    config_keeps_reordering (map e_base (snd r)) = true /\
    to_internal perm r = Ok r' /\ permute_results legacy perm true r' <> Ok r.
Proof. exact legacy_suffixed_tag_refuted. Qed.

(* Every exit that hands results to the user (run and resume) un-permutes them exactly once. *)
Theorem C03_every_exit_unpermutes : forall v n perm ao es x, v_tags v = true -> v_resume v = true ->
  is_perm n perm -> length ao = n -> Forall (sized_entry n) es ->
  config_keeps_reordering (map e_base es) = true ->
  exists r', to_internal perm (ao, es) = Ok r' /\ exit_results v x perm true r' = Ok (ao, es).
Proof. exact every_exit_unpermutes. Qed.

(* F-10: in the legacy variant resume() returns the internal order where run() returns register order. *)
Theorem C03_legacy_resume_refuted :
  exists perm r r', is_perm 2 perm /\ length (fst r) = 2 /\ Forall (sized_entry 2) (snd r) /\
    to_internal perm r = Ok r' /\
    exit_results legacy ExitRun perm true r' = Ok r /\ exit_results legacy ExitResume perm true r' <> Ok r.
Proof. exact legacy_resume_refuted. Qed.

(* Whitelist: every base tag with which reordering stays enabled is either one of the three per-atom
   tags that permute_results handles or has no per-atom structure. *)
Theorem C03_allowed_tags_covered : forall b, mem b allowed_permutable = true ->
  mem b per_atom_tags = true \/ mem b invariant_tags = true.
Proof. exact allowed_tags_covered. Qed.

(* The whitelist premise is needed: the rule looks at the tag string only, so a result of a
   non-whitelisted observable tagged "occupation_probe" would be re-ordered though never permuted.
   (The code is safe because check_permutable_observables switches reordering off for it.) *)
Theorem C03_prefix_rule_needs_whitelist :
  exists perm r r', is_perm 2 perm /\ length (fst r) = 2 /\ Forall (sized_entry 2) (snd r) /\
    config_keeps_reordering (map e_base (snd r)) = false /\
    to_internal perm r = Ok r' /\ permute_results fixed perm true r' <> Ok r.
Proof. exact prefix_rule_needs_whitelist. Qed.

(* premises are satisfiable *)
Example C03_premises_satisfiable :
  is_perm 3 [2; 0; 1] /\ Forall (sized_entry 3) [MkEntry "occupation" (Some "b") [PVec [1; 2; 3]%Z]] /\
  permute_results fixed [2; 0; 1] true
    (["c"; "a"; "b"]%string, [MkEntry "occupation" (Some "b") [PVec [3; 1; 2]%Z]])
  = Ok (["a"; "b"; "c"]%string, [MkEntry "occupation" (Some "b") [PVec [1; 2; 3]%Z]]).
Proof. split. apply is_permb_spec; reflexivity. split. repeat constructor. vm_compute. reflexivity. Qed.
