(* C27 — a loadable autosave always survives a crash during autosaving.
   Only final statements; every proof is `exact <lemma>` (Proofs/FsProofs.v).

   Vocabulary (Model/Fs.v): a disk is a map  name -> option (content, complete?);  [Adv] is the
   advertised autosave path `self.autosave_file`, [Sfx s] its sibling with another suffix;
   [holds s c] = the advertised name holds the COMPLETE snapshot c;  [trace pl c p s] = every state
   the disk passes through while the routine p writes snapshot c starting from s — a crash before or
   after any call, in the middle of the write, or an exception escaping the routine leaves one of
   them;  [safe p], [fresh p], [completes p] are decidable checks (exhaustive symbolic runs over 7
   abstract file conditions per mentioned name, both platforms).  [save_ops] (Gen/SaveOps.v) is
   regenerated from MPSBackendImpl.save_simulation on every run; the check evaluates
   `safe save_ops` with vm_compute: `true` discharges C27 through C27_save_simulation_verdict,
   `false` makes it report the crash point found by `find_bad_on` and replay it on a real directory. *)
From Coq Require Import List String.
From EV Require Import Model.Fs Gen.SaveOps Proofs.FsProofs.
Import ListNotations.

(* One autosave.  For EVERY routine p that passes the check, every content type, every platform,
   every disk s (whatever other files, complete or partial, lie around) whose advertised file is the
   complete previous snapshot, and every crash point: the advertised file is still a complete
   snapshot, the previous or the new one. *)
Theorem C27_crash_safe :
  forall (p : list op), safe p = true ->
  forall (C : Type) (C_eq_dec : forall x y : C, {x = y} + {x <> y})
         (pl : platform) (old new : C) (s s' : fs C),
    holds s old -> In s' (trace pl new p s) -> holds s' old \/ holds s' new.
Proof. exact crash_safe. Qed.

(* Any number of successive autosaves (snapshots cs, in order), each of which either ran to its end,
   raised, or was cut by a crash at any point (the next one then starts from the disk as the crash
   left it): once the advertised file holds a complete snapshot c0 ("the first autosave has
   completed"), it holds a complete snapshot ever after, and it is c0 or one of those written. *)
Theorem C27_every_later_autosave :
  forall (p : list op), safe p = true ->
  forall (C : Type) (C_eq_dec : forall x y : C, {x = y} + {x <> y}) (pl : platform)
         (s : fs C) (c0 : C) (cs : list C) (s' : fs C),
    holds s c0 -> history pl p s cs s' -> exists c, holds s' c /\ In c (c0 :: cs).
Proof. exact every_later_autosave. Qed.

(* An autosave that runs to its end — from ANY disk, in particular the very first one — leaves the
   complete NEW snapshot under the advertised name. *)
Theorem C27_completed_autosave_is_new :
  forall (p : list op), fresh p = true ->
  forall (C : Type) (C_eq_dec : forall x y : C, {x = y} + {x <> y})
         (pl : platform) (new : C) (s s' : fs C),
    final pl new p s = Some s' -> holds s' new.
Proof. exact fresh_sound. Qed.

(* From a tidy directory (none of the routine's auxiliary files present) the routine does not raise,
   on either platform (rules out "fixes" that are crash-safe only because they always fail). *)
Theorem C27_no_raise_from_tidy_directory :
  forall (p : list op), completes p = true ->
  forall (C : Type) (C_eq_dec : forall x y : C, {x = y} + {x <> y})
         (pl : platform) (new : C) (s : fs C),
    (forall n, In n (names_of p) -> n <> Adv -> s n = None) ->
    exists s', final pl new p s = Some s'.
Proof. exact completes_sound. Qed.

(* The check is exact: when it fails, a concrete disk with a good advertised file and a crash
   state without one exist. *)
Theorem C27_check_complete :
  forall (p : list op), safe p = false ->
  exists (pl : platform) (s s' : fs tok),
    (holds s Old \/ holds s New) /\ In s' (trace pl New p s) /\ ~ (holds s' Old \/ holds s' New).
Proof. exact safe_complete. Qed.

(* Paths alias.  `with_suffix(".s")` of an advertised name that itself ends in ".s" IS the advertised
   file (a resumed run advertises whatever path the user passed to resume); an appended name and a
   replaced suffix coincide when the advertised name has no suffix.  [resolve sg p] is the routine as
   it acts on real paths when the advertised name ends in sg; a check that passes on p and on the
   finitely many classes that matter passes for EVERY ending. *)
Theorem C27_alias_classes_cover :
  forall (chk : list op -> bool) (p : list op),
    all_classes chk p = true -> forall sg : option string, chk (resolve sg p) = true.
Proof. exact all_classes_sound. Qed.

(* The routine translated from the current source: either it is crash-safe for every history of
   autosaves WHATEVER the advertised file is called, or a violating disk and crash point exist for
   some ending of the advertised name — decided by evaluating `all_classes safe save_ops`. *)
Theorem C27_save_simulation_verdict :
  if all_classes safe save_ops
  then forall (sg : option string)
              (C : Type) (C_eq_dec : forall x y : C, {x = y} + {x <> y}) (pl : platform)
              (s : fs C) (c0 : C) (cs : list C) (s' : fs C),
         holds s c0 -> history pl (resolve sg save_ops) s cs s' ->
         exists c, holds s' c /\ In c (c0 :: cs)
  else exists q : list op, (q = save_ops \/ exists sg, q = resolve sg save_ops) /\
       exists (pl : platform) (s s' : fs tok),
         (holds s Old \/ holds s New) /\ In s' (trace pl New q s) /\
         ~ (holds s' Old \/ holds s' New).
Proof. exact (verdict_all save_ops). Qed.

(* The premises are satisfiable: write-then-atomic-replace passes all three checks; writing the
   advertised file in place does not. *)
Example C27_atomic_replace_passes :
  safe atomic_replace = true /\ fresh atomic_replace = true /\ completes atomic_replace = true.
Proof. exact atomic_replace_safe. Qed.

(* write-then-replace with an APPENDED temporary name passes for every ending of the advertised name;
   with a REPLACED suffix it fails exactly when the advertised name ends in that suffix. *)
Example C27_appended_temp_name_passes :
  all_classes safe atomic_replace_appended = true /\ all_classes fresh atomic_replace_appended = true /\
  all_classes completes atomic_replace_appended = true.
Proof. exact appended_safe_every_class. Qed.

Example C27_replaced_suffix_aliases :
  all_classes safe atomic_replace = false /\ safe (resolve (Some "new"%string) atomic_replace) = false.
Proof. exact replaced_suffix_unsafe_when_aliased. Qed.

Example C27_write_in_place_fails : safe [Do (Write Adv)] = false.
Proof. exact write_in_place_unsafe. Qed.
