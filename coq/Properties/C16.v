(* C16 — emu-sv open-system runs solve the Lindblad equation and stay physical.
   Only final statements.  [o : Kops] is ANY commutative ring with involution, imaginary unit and 1/2
   satisfying [Klaws o] (the complex numbers are an instance: C06_laws_satisfiable).  Matrices are functions
   nat -> nat -> K used on [0,D)^2, for EVERY dimension D:
       mmul D A B r c = sum_{k<D} A r k * B k c      dag A r c = conj (A c r)      tr D A = sum_{k<D} A k k
       jump_sum D Js rho = sum_{J in Js} J rho J^dagger        JdJ D Js = sum_{J in Js} J^dagger J
       lindG D Heff Js rho = Heff rho - rho Heff^dagger + i * jump_sum D Js rho
   lindG is what RydbergLindbladian.__matmul__ computes for Hermitian rho (C06_lindblad_apply_spec, with
   Js = the 2x2 operators placed on every qubit); the Lindblad generator is lindL = -i * lindG, the factor
   -i * dt being applied by EvolveDensityMatrix.apply (model dm_op, tied exactly by tools/props/c16.py).

   NOT theorems (validated only by the falsifier of tools/props/c16.py against an independent dense
   4^N x 4^N Liouvillian): accuracy of the Arnoldi exponential versus krylov_tolerance, and positivity of
   rho(t) (needs complete positivity of exp(t L), an analytic fact). *)
From Coq Require Import List Arith Bool ZArith.
From EV Require Import Base.Arith Model.SvBase Model.SvHam Model.SvLindRun
  Proofs.SvBaseProofs Proofs.SvHamProofs Proofs.SvLindProofs Proofs.LindbladAlg Proofs.LindbladCode
  Proofs.LindbladStep Proofs.SvLindRunProofs.
Import ListNotations.

(* Cyclicity of the trace, every dimension. *)
Theorem C16_trace_cyclic : forall (o : Kops), Klaws o -> forall D (A B : nat -> nat -> o),
  tr o D (mmul o D A B) = tr o D (mmul o D B A).
Proof. exact tr_cyclic. Qed.

(* lindblad_trace_free: for EVERY matrix rho (Hermitian or not), every H_eff and every list of jump matrices
   whose anti-Hermitian part matches,  H_eff - H_eff^dagger = -i sum_J J^dagger J  on [0,D)^2,
   the trace of the generator applied to rho is 0.  (The premise is discharged for the code's H_eff and jump
   operators, for every N, by C16_code_heff_antihermitian_part below.) *)
Theorem C16_lindblad_trace_free : forall (o : Kops), Klaws o ->
  forall D (Heff : nat -> nat -> o) (Js : list (nat -> nat -> o)) (rho : nat -> nat -> o),
  (forall r c, r < D -> c < D ->
     ksub o (Heff r c) (dag o Heff r c) = kopp o (kmul o (kI o) (JdJ o D Js r c))) ->
  tr o D (lindG o D Heff Js rho) = k0 o /\ tr o D (lindL o D Heff Js rho) = k0 o.
Proof. intros o laws D Heff Js rho H. split; [exact (lindblad_trace_free o laws D Heff Js rho H)
                                              | exact (lindblad_generator_trace_free o laws D Heff Js rho H)]. Qed.

(* the premise of C16_lindblad_trace_free is satisfiable (trivially: no jumps, H_eff = 0) *)
Example C16_trace_free_premise_satisfiable : forall (o : Kops), Klaws o -> forall D r c, r < D -> c < D ->
  ksub o ((fun _ _ => k0 o) r c) (dag o (fun _ _ => k0 o) r c) =
  kopp o (kmul o (kI o) (JdJ o D [] r c)).
Proof.
  intros o laws D r c _ _. unfold dag, JdJ. cbn. rewrite (conj_0 o laws).
  pose proof (K_ring o laws) as R. destruct R. 
  rewrite Rsub_def. rewrite (Radd_0_l (kopp o (k0 o))).
  assert (Z : forall x, kmul o x (k0 o) = k0 o).
  { intros x. pose proof (ring_theory_mul0 := @Ring_theory.ARmul_0_l). 
    rewrite Rmul_comm. apply (Ring_theory.ARmul_0_l (Ring_theory.Rth_ARth (Eqsth _) 
      (Ring_theory.Eq_ext _ _ _) (mk_rt _ _ _ _ _ _ _ Radd_0_l Radd_comm Radd_assoc Rmul_1_l Rmul_comm Rmul_assoc
         Rdistr_l Rsub_def Ropp_def))). }
  rewrite Z. reflexivity.
Qed.

(* The premise of C16_lindblad_trace_free holds for the code's own objects, for EVERY N, every list of 2x2 jump
   operators and both phase paths, provided the drive data are real (omega/2, delta, cos phi, sin phi, U):
   with H_eff = diag(Uint) + sum_q site q (_local_terms_hamiltonian(q, compute_noise Ls)) and
   Js = [L on qubit q | q < N, L in Ls]:   H_eff - H_eff^dagger = -i sum_J J^dagger J. *)
Theorem C16_code_heff_antihermitian_part : forall (o : Kops), Klaws o ->
  forall N (cplx : bool) (omh delta cosphi sinphi : list o) (U : list (list o)) (Ls : list (M2 o)),
  (forall n, kconj o (get omh n) = get omh n) -> (forall n, kconj o (get delta n) = get delta n) ->
  (forall n, kconj o (get cosphi n) = get cosphi n) -> (forall n, kconj o (get sinphi n) = get sinphi n) ->
  (forall i j, kconj o (getU o U i j) = getU o U i j) ->
  let Heff := Hdense o N (heff_site o cplx omh delta cosphi sinphi (compute_noise o Ls)) (Uint o N U) in
  let Js := flat_map (fun q => map (site o N q) Ls) (seq 0 N) in
  forall r c, r < 2 ^ N -> c < 2 ^ N ->
    ksub o (Heff r c) (dag o Heff r c) = kopp o (kmul o (kI o) (JdJ o (2 ^ N) Js r c)).
Proof. exact code_heff_antihermitian_part. Qed.

(* lindblad_trace_free for the code: RydbergLindbladian.__matmul__ (model lind_matmul, both the CPU and the GPU
   path) and the operator handed to krylov_exp (model dm_op = -i*dt*(L @ rho)) return a matrix of trace 0 for
   every N, every jump list, every dt and every Hermitian input, when the drive data are real. *)
Theorem C16_code_generator_trace_free : forall (o : Kops), Klaws o ->
  forall (cpu : bool) N (dt : o) (omega delta : list o) (phinz : list bool) (cosphi sinphi : list o)
         (U : list (list o)) (Ls : list (M2 o)) (dm : list o),
  length omega = N -> length dm = 2 ^ N * 2 ^ N ->
  (forall n, kconj o (get omega n) = get omega n) -> (forall n, kconj o (get delta n) = get delta n) ->
  (forall n, kconj o (get cosphi n) = get cosphi n) -> (forall n, kconj o (get sinphi n) = get sinphi n) ->
  (forall i j, kconj o (getU o U i j) = getU o U i j) ->
  (forall a b, a < 2 ^ N -> b < 2 ^ N -> rho_of o (2 ^ N) dm a b = kconj o (rho_of o (2 ^ N) dm b a)) ->
  ksumn (2 ^ N) (fun r => get (lind_matmul o cpu N omega delta phinz cosphi sinphi U Ls dm) (r * 2 ^ N + r)) = k0 o /\
  ksumn (2 ^ N) (fun r => get (dm_op o cpu N dt omega delta phinz cosphi sinphi U Ls dm) (r * 2 ^ N + r)) = k0 o.
Proof.
  intros o laws cpu N dt omega delta phinz cosphi sinphi U Ls dm Lo Ld Ho Hd Hcs Hsn HU Hh. split.
  - exact (lind_matmul_trace_free o laws cpu N omega delta phinz cosphi sinphi U Ls dm Lo Ld Ho Hd Hcs Hsn HU Hh).
  - exact (dm_op_trace_free o laws cpu N dt omega delta phinz cosphi sinphi U Ls dm Lo Ld Ho Hd Hcs Hsn HU Hh).
Qed.

(* The premises of C16_code_generator_trace_free are satisfiable: one atom, the ground-state density matrix,
   one (relaxation) jump operator, over the dyadic Gaussian rationals the check executes the model at; the
   result there is computed, not assumed: the trace of L @ rho is 0 and L @ rho is not the zero matrix. *)
Section Witness.
Local Open Scope Z_scope.
Example C16_code_trace_free_witness :
  let z := (0, 0, 0%N) in let one := (1, 0, 0%N) in
  let out := lind_matmul DyK true 1%nat [(3, 0, 0%N)] [one] [false] [one] [z] [[z]] [(z, one, z, z)]
               [z; z; z; one] in
  dy_eqb (dy_add (nth 0%nat out z) (nth 3%nat out z)) z = true /\ dy_eqb (nth 0%nat out z) z = false.
Proof. vm_compute. split; reflexivity. Qed.
End Witness.

(* lindblad_hermiticity_preserving for the code: for Hermitian rho, L @ rho is anti-Hermitian (it is i times the
   generator) and the Krylov operator -i*dt*(L @ rho) with real dt is Hermitian.  Every N, no reality premise. *)
Theorem C16_code_generator_hermiticity : forall (o : Kops), Klaws o ->
  forall (cpu : bool) N (dt : o) (omega delta : list o) (phinz : list bool) (cosphi sinphi : list o)
         (U : list (list o)) (Ls : list (M2 o)) (dm : list o),
  length omega = N -> length dm = 2 ^ N * 2 ^ N -> kconj o dt = dt ->
  (forall a b, a < 2 ^ N -> b < 2 ^ N -> rho_of o (2 ^ N) dm a b = kconj o (rho_of o (2 ^ N) dm b a)) ->
  forall r c, r < 2 ^ N -> c < 2 ^ N ->
    get (lind_matmul o cpu N omega delta phinz cosphi sinphi U Ls dm) (r * 2 ^ N + c) =
      kopp o (kconj o (get (lind_matmul o cpu N omega delta phinz cosphi sinphi U Ls dm) (c * 2 ^ N + r))) /\
    get (dm_op o cpu N dt omega delta phinz cosphi sinphi U Ls dm) (r * 2 ^ N + c) =
      kconj o (get (dm_op o cpu N dt omega delta phinz cosphi sinphi U Ls dm) (c * 2 ^ N + r)).
Proof.
  intros o laws cpu N dt omega delta phinz cosphi sinphi U Ls dm Lo Ld Hdt Hh r c Hr Hc. split.
  - exact (lind_matmul_antihermitian o laws cpu N omega delta phinz cosphi sinphi U Ls dm Lo Ld Hh r c Hr Hc).
  - exact (dm_op_hermitian o laws cpu N dt omega delta phinz cosphi sinphi U Ls dm Lo Ld Hdt Hh r c Hr Hc).
Qed.

(* lindblad_hermiticity_preserving: for Hermitian rho the quantity the code returns, G = lindG(rho), is
   ANTI-Hermitian, G[r,c] = - conj G[c,r]; equivalently the generator -i*G (lindL) is Hermitian, and so is
   rho + s * lindL(rho) for every real s (s = dt: the first Krylov/Taylor term).  No premise on H_eff or Js. *)
Theorem C16_lindblad_hermiticity_preserving : forall (o : Kops), Klaws o ->
  forall D (Heff : nat -> nat -> o) (Js : list (nat -> nat -> o)) (rho : nat -> nat -> o),
  herm_on o D rho ->
  (forall r c, r < D -> c < D -> lindG o D Heff Js rho r c = kopp o (kconj o (lindG o D Heff Js rho c r))) /\
  herm_on o D (lindL o D Heff Js rho) /\
  (forall s : o, kconj o s = s -> herm_on o D (fun r c => kadd o (rho r c) (kmul o s (lindL o D Heff Js rho r c)))).
Proof.
  intros o laws D Heff Js rho Hh. split; [|split].
  - exact (lindG_antihermitian o laws D Heff Js rho Hh).
  - exact (lindblad_hermiticity_preserving o laws D Heff Js rho Hh).
  - intros s Hs. exact (lindblad_step_hermitian o laws D Heff Js rho s Hs Hh).
Qed.

(* the Hermiticity premises are satisfiable (zero matrix; the ground-state density matrix of the witness above) *)
Example C16_hermitian_premise_satisfiable : forall (o : Kops), Klaws o -> forall D,
  herm_on o D (fun _ _ => k0 o) /\ kconj o (k1 o) = k1 o.
Proof. intros o laws D. split; [intros a b _ _; symmetry; apply (conj_0 o laws) | apply (conj_1 o laws)]. Qed.

(* krylov_preserves_linear_invariants: V any module over the scalars (vadd, vscale, vzero arbitrary operations),
   A ANY map V -> V, f a linear functional annihilated by A (f (A v) = 0, e.g. f = trace, A = the Lindbladian:
   C16_lindblad_trace_free).  Then along the partial sums  psum c n v = sum_{k<=n} c_k A^k v  of any power series
   (Taylor sums of exp(A), every polynomial a Krylov space of any dimension can represent)
       f (psum c n v) = c_0 * f v        for every n, every coefficient sequence c.
   With c_0 = 1 (exp series): the trace is constant. *)
Theorem C16_krylov_preserves_linear_invariants : forall (o : Kops), Klaws o ->
  forall (V : Type) (vzero : V) (vadd : V -> V -> V) (vscale : o -> V -> V) (A : V -> V) (f : V -> o),
  f vzero = k0 o -> (forall u v, f (vadd u v) = kadd o (f u) (f v)) ->
  (forall c v, f (vscale c v) = kmul o c (f v)) -> (forall v, f (A v) = k0 o) ->
  (forall c n v, f (psum o V vadd vscale A c n v) = kmul o (c 0) (f v)) /\
  (forall cs v, f (poly_apply o V vzero vadd vscale A cs v) = kmul o (hd (k0 o) cs) (f v)).
Proof.
  intros o laws V vzero vadd vscale A f f0 fa fs fA. split.
  - exact (krylov_preserves_linear_invariants o laws V vadd vscale A f fa fs fA).
  - exact (poly_preserves_invariant o laws V vzero vadd vscale A f f0 fa fs fA).
Qed.

(* The run loop (SVBackendImpl._run/step/_compute_dt/_evolve_step, model sv_run), for EVERY stepper (oracle
   [step]: the Krylov exponential), every time list and row count nsteps < len(target_times): it returns
   normally and evaluation index j (0 <= j <= nsteps) sees exactly the state obtained by applying steps
   0, 1, ..., j-1 in this order, where step k is called with row k of omega/delta/phi,
   dt = (target_times[k+1] - target_times[k]) * coef and the interaction matrix queried at target_times[k]
   (args_total).  state_from 0 (j+1) = step (args j) (state_from 0 j). *)
Theorem C16_run_is_ordered_fold : forall (St T : Type) (tsub tmul : T -> T -> T) (coef : T)
    (step : step_args T -> St -> St) (d : T) (times : list T) (nsteps : nat) (s0 : St),
  nsteps < length times ->
  sv_run St T tsub tmul coef step times nsteps s0 =
    Ok (map (fun j => (j, state_from St T tsub tmul coef step d times 0 j s0)) (seq 0 (S nsteps))) /\
  forall j, state_from St T tsub tmul coef step d times 0 (S j) s0 =
            step (args_total T tsub tmul coef d times j) (state_from St T tsub tmul coef step d times 0 j s0).
Proof.
  intros St T tsub tmul coef step d times nsteps s0 H. split.
  - exact (sv_run_spec St T tsub tmul coef step d times nsteps s0 H).
  - intros j. exact (state_from_snoc St T tsub tmul coef step d times j 0 s0).
Qed.

(* More drive rows than time intervals (malformed SequenceData): IndexError, never a result. *)
Theorem C16_run_index_error : forall (St T : Type) (tsub tmul : T -> T -> T) (coef : T)
    (step : step_args T -> St -> St) (times : list T) (nsteps : nat) (s0 : St),
  0 < nsteps -> length times <= nsteps ->
  sv_run St T tsub tmul coef step times nsteps s0 = Err E_SV_INDEX.
Proof.
  intros St T tsub tmul coef step times nsteps s0 Hp H.
  destruct times as [|t0 times']; [|exact (sv_run_index_error St T tsub tmul coef step t0 _ nsteps s0 Hp H)].
  destruct nsteps; [inversion Hp|reflexivity].
Qed.
