(* C28 — noiseless evolution conserves norm, and energy when the drive is constant.
   IMPORTANT: the conservation laws themselves are NOT proved here (they need the matrix exponential and,
   for emu-mps, control of the truncation).  They are VALIDATED on the real backends by tools/props/c28.py.
   What is proved is the algebraic reason they hold in exact arithmetic: the operator handed to krylov_exp by
   EvolveStateVector.evolve, solver_utils.evolve_pair and solver_utils.evolve_single is
   (-i * real) * (Hermitian), hence anti-Hermitian, over any commutative ring with involution and imaginary
   unit (Kops/Klaws of C06; satisfiable: C06_laws_satisfiable).  Hermiticity of the Hamiltonians is
   C06_H_hermitian (emu-sv, used below) and Proofs/MpoHamProofs.mpo_hermitian (emu-mps MPO, by reference);
   the palindromic TDVP schedule is C02_step_kernels_symmetric.  "exp of an anti-Hermitian operator is
   unitary" is deliberately left as a premise of the informal argument and is not axiomatised.
   Only final statements here. *)
From Coq Require Import List.
From EV Require Import Model.SvBase Model.SvHam Proofs.SvBaseProofs Proofs.SvHamProofs Proofs.AntiHermitian.

(* generator_antihermitian: (anti-real scalar) * (Hermitian matrix) is anti-Hermitian *)
Theorem C28_generator_antihermitian : forall (o : Kops), Klaws o -> forall (I : Type) (s : o) (H : I -> I -> o),
  is_antireal o s -> hermitian o H -> antihermitian o (fun a b => kmul o s (H a b)).
Proof. exact scale_antihermitian. Qed.

(* the three scalars used by the code are anti-real for real dt and real unit-conversion coefficient *)
Theorem C28_generator_sv : forall (o : Kops), Klaws o -> forall (I : Type) (dt : o) (H : I -> I -> o),
  is_real o dt -> hermitian o H -> antihermitian o (fun a b => kmul o (kmul o (kopp o (kI o)) dt) (H a b)).
Proof. exact generator_sv. Qed.

Theorem C28_generator_evolve_pair : forall (o : Kops), Klaws o -> forall (I : Type) (coeff dt : o) (H : I -> I -> o),
  is_real o coeff -> is_real o dt -> hermitian o H ->
  antihermitian o (fun a b => kmul o (kmul o (kmul o (kopp o (kI o)) coeff) dt) (H a b)).
Proof. exact generator_pair. Qed.

Theorem C28_generator_evolve_single : forall (o : Kops), Klaws o -> forall (I : Type) (coeff dt : o) (H : I -> I -> o),
  is_real o coeff -> is_real o dt -> hermitian o H ->
  antihermitian o (fun a b => kmul o (kmul o (kmul o (kopp o coeff) (kI o)) dt) (H a b)).
Proof. exact generator_single. Qed.

(* for emu-sv the Hermitian operand is the dense form of the matrix-free Hamiltonian (C06), for every N *)
Theorem C28_sv_generator_antihermitian :
  forall (o : Kops), Klaws o -> forall N (omega delta e : list o) (U : list (list o)) (dt : o),
  (forall n, kconj o (get delta n) = get delta n) -> (forall i j, kconj o (getU o U i j) = getU o U i j) ->
  is_real o dt ->
  antihermitian o (fun k k' => kmul o (kmul o (kopp o (kI o)) dt)
                                 (Hdense o N (ham_site o omega delta e) (Uint o N U) k k')).
Proof. exact sv_generator_antihermitian. Qed.
