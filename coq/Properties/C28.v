(* C28 — noiseless evolution conserves norm, and energy when the drive is constant.
   Two layers.  (A) Whole-run conservation in EXACT arithmetic over an abstract non-commutative matrix
   *-algebra (Model/StarAlg.v) in which the matrix exponential is an operation constrained only by the record
   StarLaws: its three laws  exp(A^+) = exp(A)^+,  exp(A) exp(-A) = 1,  A exp(c.A) = exp(c.A) A  are PREMISES of
   every theorem (not proved: exp is abstract), together with the usual *-algebra / inner-product laws.
   From them: every propagator exp(s.H) (s anti-real, H Hermitian) is unitary, any ordered fold of such
   propagators (the fold shape of C01_sv_run_is_ordered_fold) preserves <psi|psi>, and inside a window of
   constant H it preserves <H> and <H H>, for every number of steps and every dt list.  The premises are
   satisfiable with non-trivial unitaries (dual-number instance).
   NOT proved: that krylov_exp computes that exponential (validated only, tools/props/c28.py) and anything about
   emu-mps truncation.  (B) the algebraic reason the generators are anti-Hermitian: the operator handed to krylov_exp by
   EvolveStateVector.evolve, solver_utils.evolve_pair and solver_utils.evolve_single is
   (-i * real) * (Hermitian), hence anti-Hermitian, over any commutative ring with involution and imaginary
   unit (Kops/Klaws of C06; satisfiable: C06_laws_satisfiable).  Hermiticity of the Hamiltonians is
   C06_H_hermitian (emu-sv, used below) and Proofs/MpoHamProofs.mpo_hermitian (emu-mps MPO, by reference);
   the palindromic TDVP schedule is C02_step_kernels_symmetric.
   Only final statements here. *)
From Coq Require Import List.
From Coq Require Import ZArith.
From EV Require Import Model.SvBase Model.SvHam Proofs.SvBaseProofs Proofs.SvHamProofs Proofs.AntiHermitian
  Base.Arith Model.SvMachine Proofs.SvMachineProofs Model.StarAlg Proofs.StarAlgProofs.
Import ListNotations.

(* generator_antihermitian: (anti-real scalar) * (Hermitian matrix) is anti-Hermitian *)
Theorem C28_generator_antihermitian : forall (o : Kops), Klaws o -> forall (I : Type) (s : o) (H : I -> I -> o),
  is_antireal o s -> hermitian o H -> antihermitian o (fun a b => kmul o s (H a b)).
Proof. exact scale_antihermitian. Qed.

(* the three scalars used by the code are anti-real for real dt and real unit-conversion coefficient *)
Theorem C28_generator_sv : forall (o : Kops), Klaws o -> forall (I : Type) (dt : o) (H : I -> I -> o),
  is_real o dt -> hermitian o H -> antihermitian o (fun a b => kmul o (kmul o (kopp o (kI o)) dt) (H a b)).
Proof. exact generator_sv. Qed.

Theorem C28_generator_evolve_pair : forall (o : Kops), Klaws o -> forall (I : Type) (coeff dt : o) (H : I -> I -> o),
  is_real o coeff -> is_real o dt -> hermitian o H ->
  antihermitian o (fun a b => kmul o (kmul o (kmul o (kopp o (kI o)) coeff) dt) (H a b)).
Proof. exact generator_pair. Qed.

Theorem C28_generator_evolve_single : forall (o : Kops), Klaws o -> forall (I : Type) (coeff dt : o) (H : I -> I -> o),
  is_real o coeff -> is_real o dt -> hermitian o H ->
  antihermitian o (fun a b => kmul o (kmul o (kmul o (kopp o coeff) (kI o)) dt) (H a b)).
Proof. exact generator_single. Qed.

(* for emu-sv the Hermitian operand is the dense form of the matrix-free Hamiltonian (C06), for every N *)
Theorem C28_sv_generator_antihermitian :
  forall (o : Kops), Klaws o -> forall N (omega delta e : list o) (U : list (list o)) (dt : o),
  (forall n, kconj o (get delta n) = get delta n) -> (forall i j, kconj o (getU o U i j) = getU o U i j) ->
  is_real o dt ->
  antihermitian o (fun k k' => kmul o (kmul o (kopp o (kI o)) dt)
                                 (Hdense o N (ham_site o omega delta e) (Uint o N U) k k')).
Proof. exact sv_generator_antihermitian. Qed.

(* ---- (A) whole-run conservation over an abstract *-algebra with exponential ----------------------- *)

(* C28_generator_antihermitian restated in adjoint form (adj G = -G), the hypothesis used below *)
Theorem C28_generator_antihermitian_adjoint_form : forall (k : Kops), Klaws k ->
  forall (I : Type) (s : k) (H : I -> I -> k), is_antireal k s -> hermitian k H ->
  (fun a b => kconj k (kmul k s (H b a))) = (fun a b => kopp k (kmul k s (H a b))).
Proof. exact generator_antihermitian_adjoint_form. Qed.

(* "exp of an anti-Hermitian operator is unitary", derived from the three exp laws *)
Theorem C28_exp_antihermitian_unitary : forall (o : StarOps), StarLaws o ->
  forall G : sM o, antihermitian_op o G -> unitary o (m_exp o G).
Proof. exact exp_antihermitian_unitary. Qed.

(* (1) every step propagator exp(s.H), s anti-real, H Hermitian, is unitary *)
Theorem C28_propagator_unitary : forall (o : StarOps), StarLaws o ->
  forall st, good_sstep o st -> unitary o (propagator o st).
Proof. exact propagator_unitary. Qed.

(* (2) the state after the ordered fold of ANY list of such propagators, and every intermediate state, has
   the squared norm of the initial state *)
Theorem C28_norm_conserved : forall (o : StarOps), StarLaws o -> forall (steps : list (sstep o)) psi,
  Forall (good_sstep o) steps -> norm2 o (evolve o steps psi) = norm2 o psi.
Proof. exact norm_conserved. Qed.

Theorem C28_norm_conserved_at_every_step : forall (o : StarOps), StarLaws o -> forall (steps : list (sstep o)) psi,
  Forall (good_sstep o) steps -> Forall (fun v => norm2 o v = norm2 o psi) (trajectory o steps psi).
Proof. exact norm_conserved_trajectory. Qed.

(* (3) a window of constant Hermitian H, any number of steps with any anti-real scalars (any dt list):
   <H>, <H H> and the norm are the same at every step of the window *)
Theorem C28_window_conserved : forall (o : StarOps), StarLaws o -> forall (H : sM o) (ss : list (sS o)) psi,
  hermitian_op o H -> Forall (antireal_scalar o) ss ->
  Forall (fun v => expect o H v = expect o H psi /\ expect o (m_mul o H H) v = expect o (m_mul o H H) psi /\
                   norm2 o v = norm2 o psi)
         (trajectory o (window o H ss) psi).
Proof. exact window_conserved. Qed.

(* the fold is C01's fold of per-step maps ... *)
Theorem C28_evolve_is_C01_fold : forall (o : StarOps) (steps : list (sstep o)) psi,
  evolve o steps psi = fold_left (fun s f => f s) (map (fun st => m_app o (propagator o st)) steps) psi.
Proof. exact evolve_as_funs. Qed.

(* ... so on the emu-sv step loop: if the k-th stepper call acts as the propagator of a good step, run()
   succeeds and returns a state with the squared norm of the initial one (well-formedness as in C01) *)
Theorem C28_sv_run_norm_conserved :
  forall (o : StarOps), StarLaws o ->
  forall (A : Type) (ar : Arith A) (Row UM Hm : Type)
         (zero_row : list bool -> Row -> Row) (mask_U : list bool -> UM -> UM) (umat : A -> UM)
         (stepper : A -> Row -> Row -> Row -> UM -> sV o -> sV o * Hm)
         (get_ham : Row -> Row -> Row -> UM -> Hm) (is_eval : nat -> A -> bool)
         (P : params A Row) (s0 : sV o) (t0 t1 tn : A) (rest : list A) (om d p : Row) (os ds ps : list Row)
         (steps : list (sstep o)),
  p_times P = t0 :: t1 :: rest -> p_omega P = om :: os -> p_delta P = d :: ds -> p_phi P = p :: ps ->
  length os = length rest -> length ds = length rest -> length ps = length rest ->
  lastA (p_times P) = Some tn -> a_eqb ar tn (zero ar) = false ->
  step_funs A ar Row UM (sV o) Hm zero_row mask_U umat stepper P t0 (t1 :: rest) (om :: os) (d :: ds) (p :: ps)
    = map (fun st => m_app o (propagator o st)) steps ->
  Forall (good_sstep o) steps ->
  exists sf, run ar zero_row mask_U umat stepper get_ham is_eval P s0 = Ok sf /\
             norm2 o (sv_state sf) = norm2 o s0.
Proof. exact sv_run_norm_conserved. Qed.

(* (4) non-vacuity: the laws hold in a concrete algebra (dual numbers over Z, exp(b eps) = 1 + b eps) ... *)
Theorem C28_laws_satisfiable : StarLaws dual_ops.
Proof. exact dual_laws. Qed.

(* ... with non-trivial unitaries and a state that really moves while its norm is conserved *)
Theorem C28_nontrivial_instance :
  let H : dual := (3, 0)%Z in let steps := [((0, 1), H); ((0, -5), H); ((0, 7), (2, 0))]%Z in
  Forall (good_sstep dual_ops) steps /\
  propagator dual_ops ((0, 1)%Z, H) = (1, 3)%Z /\
  evolve dual_ops steps (2, 5)%Z = (2, 9)%Z /\
  norm2 dual_ops (evolve dual_ops steps (2, 5)%Z) = norm2 dual_ops (2, 5)%Z.
Proof. exact dual_run_conserves. Qed.
