(* C20 — PCHIP interpolation is exact at knots, C1 and shape-preserving.
   Only final statements; every proof is `exact <lemma>` (or a conversion of one).
   [pchip_eval]/[pchip_evalD]/[pchip_init] are the model of /repo/emu_base/math/pchip_torch.py
   (Model/Pchip.v, bit-exact with torch at the PrimFloat instance, checked on every run) at the real-number
   instance.  incr xs = knots strictly increasing; in_box d s = Fritsch-Carlson box (d has the sign of the
   secant s and |d| <= 3|s|, d = 0 when s = 0); secant_i = (y[i+1]-y[i])/(x[i+1]-x[i]); piece_i = Hermite
   cubic of interval i.  History: before /repo b976cb3 the end-slope limiter tested d*s < 0 and the
   interpolant overshot next to a flat end interval (finding F-11); that variant is still refuted in
   Proofs/PchipProofs.v (src_shape_refuted) and its witnesses are regression cases in corpus/C20.json. *)
From Coq Require Import Reals List.
From Coq Require Import PrimFloat.
From EV Require Import Base.Arith Model.Pchip Proofs.PchipProofs Proofs.PchipFloatWitness.
Import ListNotations.
Open Scope R_scope.

Notation Lim := (limit_endpoint R_arith).

(* The constructor accepts exactly: equal lengths, at least 2 knots, strictly increasing knots;
   a call then returns the model interpolant at every query point. *)
Theorem C20_init_accepts_iff_valid : forall xs ys : list R,
  (length ys = length xs /\ (2 <= length xs)%nat /\ incr xs) <-> exists ps, pchip_init R_arith xs ys = Ok ps.
Proof. exact init_spec. Qed.

Theorem C20_call_is_eval : forall xs ys qs : list R,
  length ys = length xs -> (2 <= length xs)%nat -> incr xs ->
  pchip_call R_arith xs ys qs = Ok (map (pchip_eval R_arith xs ys) qs).
Proof. exact call_spec. Qed.

(* Exact at every knot (any number n >= 2 of knots, any values), including the last one. *)
Theorem C20_interpolates_knots : forall (xs ys : list R),
  incr xs -> length ys = length xs -> (2 <= length xs)%nat -> forall i, (i < length xs)%nat ->
  pchip_eval R_arith xs ys (nth i xs 0) = nth i ys 0.
Proof. exact (g_interpolates Lim). Qed.

(* Piecewise representation: on [x_i, x_{i+1}) (first piece extended to the left, last piece to
   the right: extrapolation) the interpolant and its derivative function are cubic i and its
   derivative ... *)
Theorem C20_piecewise_cubic : forall (xs ys : list R), incr xs -> length ys = length xs ->
  (2 <= length xs)%nat -> forall q i, (S i < length xs)%nat ->
  (i = 0%nat \/ nth i xs 0 <= q) -> (S (S i) = length xs \/ q < nth (S i) xs 0) ->
  pchip_eval R_arith xs ys q = horner R_arith (piece_i Lim xs ys i) (q - nth i xs 0) /\
  pchip_evalD R_arith xs ys q = hornerD R_arith (piece_i Lim xs ys i) (q - nth i xs 0).
Proof. exact (g_select Lim). Qed.

(* ... each cubic is differentiable with that derivative ... *)
Theorem C20_cubic_derivative : forall (p : R * R * R * R) t,
  derivable_pt_lim (horner R_arith p) t (hornerD R_arith p t).
Proof. exact horner_derivable. Qed.

(* ... and at every interior knot x_k the two adjacent cubics have the same value y_k and the same
   derivative d_k: the interpolant is C1. *)
Theorem C20_C1_at_interior_knots : forall (xs ys : list R), incr xs -> length ys = length xs ->
  (2 <= length xs)%nat -> forall k, (1 <= k)%nat -> (S k < length xs)%nat ->
  let h := nth k xs 0 - nth (k - 1) xs 0 in
  horner R_arith (piece_i Lim xs ys (k - 1)) h = nth k ys 0 /\
  horner R_arith (piece_i Lim xs ys k) 0 = nth k ys 0 /\
  hornerD R_arith (piece_i Lim xs ys (k - 1)) h = nth k (slopesL Lim xs ys) 0 /\
  hornerD R_arith (piece_i Lim xs ys k) 0 = nth k (slopesL Lim xs ys) 0.
Proof. exact (g_C1 Lim). Qed.

(* Hermite piece: if both end slopes are in the Fritsch-Carlson box of the secant, the derivative
   has the sign of the secant on the whole piece, the piece is monotone and stays between its end
   values (constant when the secant is 0). *)
Theorem C20_hermite_piece_monotone : forall y0 y1 h d0 d1, 0 < h ->
  in_box d0 ((y1 - y0) / h) -> in_box d1 ((y1 - y0) / h) ->
  let p := coeff R_arith y0 h ((y1 - y0) / h) d0 d1 in
  (forall t, 0 <= t <= h -> 0 <= (y1 - y0) / h * hornerD R_arith p t) /\
  (forall t1 t2, 0 <= t1 -> t1 <= t2 -> t2 <= h -> 0 <= (y1 - y0) / h * (horner R_arith p t2 - horner R_arith p t1)) /\
  (forall t, 0 <= t <= h -> Rmin y0 y1 <= horner R_arith p t <= Rmax y0 y1).
Proof.
  intros y0 y1 h d0 d1 Hh B0 B1 p. split; [|split].
  - intros t Ht. exact (hornerD_sign y0 h _ d0 d1 t Hh B0 B1 Ht).
  - intros t1 t2. exact (piece_monotone y0 h _ d0 d1 t1 t2 Hh B0 B1).
  - intros t. exact (piece_between y0 y1 h d0 d1 t Hh B0 B1).
Qed.

(* Every knot slope (interior: weighted harmonic mean or 0; ends: limited three-point estimate) lies in
   the Fritsch-Carlson box of each adjacent secant. *)
Theorem C20_slopes_in_box : forall (xs ys : list R),
  incr xs -> length ys = length xs -> (2 <= length xs)%nat ->
  forall i, (S i < length xs)%nat ->
  in_box (nth i (slopesL Lim xs ys) 0) (secant_i xs ys i) /\
  in_box (nth (S i) (slopesL Lim xs ys) 0) (secant_i xs ys i).
Proof. exact fixed_slopes_boxed. Qed.

(* Shape preservation on every interval: values between the two data values, monotone in the direction
   of the data (constant on flat intervals). *)
Theorem C20_shape_preserving : forall (xs ys : list R),
  incr xs -> length ys = length xs -> (2 <= length xs)%nat ->
  forall i, (S i < length xs)%nat ->
  (forall q, nth i xs 0 <= q <= nth (S i) xs 0 ->
     Rmin (nth i ys 0) (nth (S i) ys 0) <= pchip_eval R_arith xs ys q <= Rmax (nth i ys 0) (nth (S i) ys 0)) /\
  (forall q1 q2, nth i xs 0 <= q1 -> q1 <= q2 -> q2 <= nth (S i) xs 0 ->
     0 <= secant_i xs ys i * (pchip_eval R_arith xs ys q2 - pchip_eval R_arith xs ys q1)).
Proof. exact fixed_shape. Qed.

(* The model IS the standard PCHIP interpolant (independently written reference: Fritsch-Carlson slopes,
   SciPy sign-based three-point end rule, Hermite-basis evaluation) at every query point, inside and
   outside the knot range. *)
Theorem C20_is_reference : forall (xs ys : list R) q,
  incr xs -> length ys = length xs -> (2 <= length xs)%nat ->
  pchip_eval R_arith xs ys q = ref_eval R_arith xs ys q.
Proof. exact fixed_is_reference. Qed.

(* Corollary used by C22: non-negative data give a non-negative interpolant on the whole knot range. *)
Theorem C20_nonnegative_data_nonnegative_interpolant : forall (xs ys : list R) q,
  incr xs -> length ys = length xs -> (2 <= length xs)%nat ->
  Forall (fun v => 0 <= v) ys -> nth 0 xs 0 <= q <= nth (length xs - 1) xs 0 ->
  0 <= pchip_eval R_arith xs ys q.
Proof. exact fixed_nonneg_inside. Qed.

(* The premises are satisfiable, and the former counterexample (knots 0,1,2,3, values 1,1,3,4) now
   evaluates to 1 at 1/4. *)
Example C20_premises_satisfiable : incr wx /\ length wy = length wx /\ (2 <= length wx)%nat.
Proof. exact witness_valid. Qed.

Theorem C20_former_witness_fixed : pchip_eval R_arith wx wy (1 / 4) = 1.
Proof. exact witness_fixed_value. Qed.

(* Regression witness for finding F-28 (binary64 instance, by computation): for secants 2^-600 (finite and
   normal) the former product-based sign tests underflow and answer "not the same sign" / "no sign change",
   while the sign tests of the source today ([same_sign_mask]/[opp_sign_mask], /repo 79a08c0) answer
   correctly.  Over R the two forms agree, so all theorems above hold for both. *)
Theorem C20_product_mask_underflows :
  same_sign_mask_src float_arith (0x1p-600)%float (0x1p-600)%float = false /\
  same_sign_mask float_arith (0x1p-600)%float (0x1p-600)%float = true /\
  opp_sign_mask_src float_arith (0x1p-600)%float (-0x1p-600)%float = false /\
  opp_sign_mask float_arith (0x1p-600)%float (-0x1p-600)%float = true.
Proof. exact product_mask_underflows. Qed.
