(* C20 — PCHIP interpolation is exact at knots, C1 and shape-preserving.
   Only final statements; every proof is `exact <lemma>` (or a conversion of one).
   [pchip_eval]/[pchip_evalD]/[pchip_init] are the model of /repo/emu_base/math/pchip_torch.py
   (Model/Pchip.v, bit-exact with torch at the PrimFloat instance) taken at the real-number instance.
   incr xs = knots strictly increasing; in_box d s = Fritsch-Carlson box (d has the sign of the
   secant s and |d| <= 3|s|, d = 0 when s = 0); secant_i = (y[i+1]-y[i])/(x[i+1]-x[i]);
   piece_i = the Hermite cubic of interval i; ends_regular = neither end interval is flat next to a
   non-flat interval.
   STATUS: the model follows the source as it is today, whose end-slope limiter tests d*s < 0
   (finding F-11).  Hence shape preservation / equality with the standard PCHIP are proved only
   under [ends_regular] (`_partial`) and refuted without it (`_refuted`).  The unconditional
   statements, proved for the limiter of the proposed fix, are in proposed_fixes/C20_after_F11.v. *)
From Coq Require Import Reals List.
From EV Require Import Base.Arith Model.Pchip Proofs.PchipProofs.
Import ListNotations.
Open Scope R_scope.

Notation Lsrc := (limit_endpoint_src R_arith).

(* The constructor accepts exactly: equal lengths, at least 2 knots, strictly increasing knots;
   a call then returns the model interpolant at every query point. *)
Theorem C20_init_accepts_iff_valid : forall xs ys : list R,
  (length ys = length xs /\ (2 <= length xs)%nat /\ incr xs) <-> exists ps, pchip_init R_arith xs ys = Ok ps.
Proof. exact init_spec. Qed.

Theorem C20_call_is_eval : forall xs ys qs : list R,
  length ys = length xs -> (2 <= length xs)%nat -> incr xs ->
  pchip_call R_arith xs ys qs = Ok (map (pchip_eval R_arith xs ys) qs).
Proof. exact call_spec. Qed.

(* Exact at every knot (any number n >= 2 of knots, any values), including the last one. *)
Theorem C20_interpolates_knots : forall (xs ys : list R),
  incr xs -> length ys = length xs -> (2 <= length xs)%nat -> forall i, (i < length xs)%nat ->
  pchip_eval R_arith xs ys (nth i xs 0) = nth i ys 0.
Proof. exact (g_interpolates Lsrc). Qed.

(* Piecewise representation: on [x_i, x_{i+1}) (first piece extended to the left, last piece to
   the right: extrapolation) the interpolant and its derivative function are cubic i and its
   derivative ... *)
Theorem C20_piecewise_cubic : forall (xs ys : list R), incr xs -> length ys = length xs ->
  (2 <= length xs)%nat -> forall q i, (S i < length xs)%nat ->
  (i = 0%nat \/ nth i xs 0 <= q) -> (S (S i) = length xs \/ q < nth (S i) xs 0) ->
  pchip_eval R_arith xs ys q = horner R_arith (piece_i Lsrc xs ys i) (q - nth i xs 0) /\
  pchip_evalD R_arith xs ys q = hornerD R_arith (piece_i Lsrc xs ys i) (q - nth i xs 0).
Proof. exact (g_select Lsrc). Qed.

(* ... each cubic is differentiable with that derivative ... *)
Theorem C20_cubic_derivative : forall (p : R * R * R * R) t,
  derivable_pt_lim (horner R_arith p) t (hornerD R_arith p t).
Proof. exact horner_derivable. Qed.

(* ... and at every interior knot x_k the two adjacent cubics have the same value y_k and the same
   derivative d_k: the interpolant is C1. *)
Theorem C20_C1_at_interior_knots : forall (xs ys : list R), incr xs -> length ys = length xs ->
  (2 <= length xs)%nat -> forall k, (1 <= k)%nat -> (S k < length xs)%nat ->
  let h := nth k xs 0 - nth (k - 1) xs 0 in
  horner R_arith (piece_i Lsrc xs ys (k - 1)) h = nth k ys 0 /\
  horner R_arith (piece_i Lsrc xs ys k) 0 = nth k ys 0 /\
  hornerD R_arith (piece_i Lsrc xs ys (k - 1)) h = nth k (slopesL Lsrc xs ys) 0 /\
  hornerD R_arith (piece_i Lsrc xs ys k) 0 = nth k (slopesL Lsrc xs ys) 0.
Proof. exact (g_C1 Lsrc). Qed.

(* Hermite piece: if both end slopes are in the Fritsch-Carlson box of the secant, the derivative
   has the sign of the secant on the whole piece, the piece is monotone and stays between its end
   values (constant when the secant is 0). *)
Theorem C20_hermite_piece_monotone : forall y0 y1 h d0 d1, 0 < h ->
  in_box d0 ((y1 - y0) / h) -> in_box d1 ((y1 - y0) / h) ->
  let p := coeff R_arith y0 h ((y1 - y0) / h) d0 d1 in
  (forall t, 0 <= t <= h -> 0 <= (y1 - y0) / h * hornerD R_arith p t) /\
  (forall t1 t2, 0 <= t1 -> t1 <= t2 -> t2 <= h -> 0 <= (y1 - y0) / h * (horner R_arith p t2 - horner R_arith p t1)) /\
  (forall t, 0 <= t <= h -> Rmin y0 y1 <= horner R_arith p t <= Rmax y0 y1).
Proof.
  intros y0 y1 h d0 d1 Hh B0 B1 p. split; [|split].
  - intros t Ht. exact (hornerD_sign y0 h _ d0 d1 t Hh B0 B1 Ht).
  - intros t1 t2. exact (piece_monotone y0 h _ d0 d1 t1 t2 Hh B0 B1).
  - intros t. exact (piece_between y0 y1 h d0 d1 t Hh B0 B1).
Qed.

(* Every interior knot slope (weighted harmonic mean or 0) lies in the box of both adjacent secants. *)
Theorem C20_interior_slopes_in_box : forall (xs ys : list R) k,
  incr xs -> length ys = length xs -> (1 <= k)%nat -> (S k < length xs)%nat ->
  in_box (nth k (slopesL Lsrc xs ys) 0) (secant_i xs ys (k - 1)) /\
  in_box (nth k (slopesL Lsrc xs ys) 0) (secant_i xs ys k).
Proof. exact src_interior_slopes_boxed. Qed.

(* Shape preservation of the model on every interval, when no end interval is flat next to a
   non-flat one: values between the two data values, monotone in the direction of the data. *)
Theorem C20_shape_preserving_partial : forall (xs ys : list R),
  incr xs -> length ys = length xs -> (2 <= length xs)%nat ->
  ends_regular (secants R_arith ys (diffs R_arith xs)) ->
  forall i, (S i < length xs)%nat ->
  (forall q, nth i xs 0 <= q <= nth (S i) xs 0 ->
     Rmin (nth i ys 0) (nth (S i) ys 0) <= pchip_eval R_arith xs ys q <= Rmax (nth i ys 0) (nth (S i) ys 0)) /\
  (forall q1 q2, nth i xs 0 <= q1 -> q1 <= q2 -> q2 <= nth (S i) xs 0 ->
     0 <= secant_i xs ys i * (pchip_eval R_arith xs ys q2 - pchip_eval R_arith xs ys q1)).
Proof. exact src_shape_partial. Qed.

(* ... and unconditionally on every interval that is not the first or the last one. *)
Theorem C20_shape_preserving_inner_intervals : forall (xs ys : list R),
  incr xs -> length ys = length xs -> (2 <= length xs)%nat ->
  forall i, (1 <= i)%nat -> (S (S i) < length xs)%nat ->
  (forall q, nth i xs 0 <= q <= nth (S i) xs 0 ->
     Rmin (nth i ys 0) (nth (S i) ys 0) <= pchip_eval R_arith xs ys q <= Rmax (nth i ys 0) (nth (S i) ys 0)) /\
  (forall q1 q2, nth i xs 0 <= q1 -> q1 <= q2 -> q2 <= nth (S i) xs 0 ->
     0 <= secant_i xs ys i * (pchip_eval R_arith xs ys q2 - pchip_eval R_arith xs ys q1)).
Proof. exact src_shape_inner. Qed.

(* Under the same side condition the model IS the standard PCHIP interpolant (independently written
   reference: Fritsch-Carlson slopes, SciPy sign-based three-point end rule, Hermite-basis evaluation),
   at every query point, inside and outside the knot range. *)
Theorem C20_is_reference_partial : forall (xs ys : list R) q,
  incr xs -> length ys = length xs -> (2 <= length xs)%nat ->
  ends_regular (secants R_arith ys (diffs R_arith xs)) ->
  pchip_eval R_arith xs ys q = ref_eval R_arith xs ys q.
Proof. exact src_is_reference_partial. Qed.

(* The reference itself is exact at the knots, has all its slopes in the box and is shape preserving
   on every interval, with no side condition (so the reference is the right specification). *)
Theorem C20_reference_is_shape_preserving : forall (xs ys : list R),
  incr xs -> length ys = length xs -> (2 <= length xs)%nat ->
  (forall i, (i < length xs)%nat -> ref_eval R_arith xs ys (nth i xs 0) = nth i ys 0) /\
  forall i, (S i < length xs)%nat ->
  (forall q, nth i xs 0 <= q <= nth (S i) xs 0 ->
     Rmin (nth i ys 0) (nth (S i) ys 0) <= ref_eval R_arith xs ys q <= Rmax (nth i ys 0) (nth (S i) ys 0)) /\
  (forall q1 q2, nth i xs 0 <= q1 -> q1 <= q2 -> q2 <= nth (S i) xs 0 ->
     0 <= secant_i xs ys i * (ref_eval R_arith xs ys q2 - ref_eval R_arith xs ys q1)).
Proof. exact ref_shape. Qed.

(* The premises above are satisfiable (and the witness below satisfies all but ends_regular). *)
Example C20_premises_satisfiable :
  incr [0; 1; 3] /\ ends_regular (secants R_arith [1; 2; 4] (diffs R_arith [0; 1; 3])).
Proof. exact premises_example. Qed.

(* REFUTED (finding F-11): with a flat first interval next to a rising one the model undershoots the
   data: knots 0,1,2,3, values 1,1,3,4: P(1/4) = 55/64 < 1 = min(y0,y1), whereas the standard PCHIP
   interpolant is 1 there.  So the model is neither shape preserving nor the standard interpolant. *)
Theorem C20_shape_preserving_refuted : exists (xs ys : list R) q,
  incr xs /\ length ys = length xs /\ (2 <= length xs)%nat /\
  nth 0 xs 0 <= q <= nth 1 xs 0 /\
  pchip_eval R_arith xs ys q < Rmin (nth 0 ys 0) (nth 1 ys 0).
Proof. exact src_shape_refuted. Qed.

Theorem C20_is_reference_refuted : exists (xs ys : list R) q,
  incr xs /\ length ys = length xs /\ (2 <= length xs)%nat /\
  pchip_eval R_arith xs ys q <> ref_eval R_arith xs ys q.
Proof. exact src_is_reference_refuted. Qed.
