(* C25 — badly prepared atoms behave as absent, on both backends.  Only final statements.
   Models: Model/DarkSv.v (SVBackendImpl.init_dark_qubits and the __init__ guards), Model/DarkMps.v
   (MPSBackendImpl.init_dark_qubits/_get_interaction_matrix/update_H routing on top of Model/QubitOrder.v,
   emu_mps/utils.py padding on tensor shapes, the guards up to the first fill_results); both tied to /repo by the
   exact correspondence of tools/props/c25.py.  The dense Hamiltonian (Hdense, ham_site, Uint) is the one that
   C06_H_apply_dense proves emu-sv applies; [o] is any commutative ring with involution (Klaws), the complex
   numbers are an instance (C06_laws_satisfiable).

   Vocabulary.  bad : list bool is Pulser's bad-atom mask in register order.  goods bad = the indices of the
   well-prepared atoms, increasing.  in_sector N bad k: every bad atom is in g (bit 0) in basis state k.
   sub_index N (goods bad) k = the basis index of the sub-register of good atoms carrying the bits of k.
   sv_dark_H = the Hamiltonian emu-sv builds from the zeroed drives/interactions;  good_H = the Hamiltonian of the
   same sequence on the register with the bad atoms removed (drives and U restricted to the good atoms). *)
From Coq Require Import ZArith List Arith Bool Permutation Lia.
From EV Require Import Base.Arith Model.SvBase Model.SvHam Model.SvState Model.DarkSv Model.Permutations
  Model.QubitOrder Model.DarkMps Proofs.SvBaseProofs Proofs.SvHamProofs Proofs.PermutationsProofs
  Proofs.BitIndex Proofs.DarkSvProofs Proofs.DarkMpsProofs.
Import ListNotations.

(* emu-sv, for every N, every mask, every drive/interaction data: the Hamiltonian built after init_dark_qubits
   has no matrix element between a basis state with bad atom i in g and one with bad atom i in r.  Hence
   (H v)_k' = 0 for every state v supported on the sector: bad atoms that start in g stay in g. *)
Theorem C25_sv_dark_sector_invariant : forall (o : Kops), Klaws o ->
  forall N bad (omega delta e : list o) (U : list (list o)) k k' i,
  length bad = N -> length omega = N ->
  i < N -> nth i bad false = true -> bit N i k = 0 -> bit N i k' = 1 ->
  sv_dark_H o N bad omega delta e U k k' = k0 o /\ sv_dark_H o N bad omega delta e U k' k = k0 o.
Proof. exact sv_dark_invariant. Qed.

(* emu-sv: on the sector the Hamiltonian is, entry for entry, the Hamiltonian of the register with the bad atoms
   deleted — for every N, every set of bad atoms (none, some, all but one, all) and all drive data. *)
Theorem C25_sv_dark_decouples : forall (o : Kops), Klaws o ->
  forall N bad (omega delta e : list o) (U : list (list o)) k k',
  length bad = N -> length omega = N -> length delta = N -> length e = N -> wfU o N U ->
  k < 2 ^ N -> k' < 2 ^ N -> in_sector N bad k -> in_sector N bad k' ->
  sv_dark_H o N bad omega delta e U k k' =
  good_H o bad omega delta e U (sub_index N (goods bad) k) (sub_index N (goods bad) k').
Proof. exact sv_dark_reduced. Qed.

(* sub_index maps the sector injectively into the basis of the sub-register and carries bit (nth s goods) to
   bit s, so an observable n_j of a good atom reads the same bit on both sides.  (Surjectivity onto the 2^#good
   basis states is not proved; it is exercised by the end-to-end falsifier.) *)
Theorem C25_sub_index_embeds_partial : forall N bad k k', length bad = N -> k < 2 ^ N -> k' < 2 ^ N ->
  in_sector N bad k -> in_sector N bad k' ->
  sub_index N (goods bad) k < 2 ^ length (goods bad) /\
  (sub_index N (goods bad) k = sub_index N (goods bad) k' -> k = k') /\
  forall s, s < length (goods bad) ->
    bit (length (goods bad)) s (sub_index N (goods bad) k) = bit N (nth s (goods bad) 0) k.
Proof. exact sub_index_injective. Qed.

(* the general algebraic fact behind it (any drives, nothing zeroed): the block of the dense Hamiltonian on the
   sector is the sub-register Hamiltonian; zeroing Omega on the bad atoms is what makes the sector invariant. *)
Theorem C25_sector_block_is_subregister : forall bad N, length bad = N -> forall (o : Kops), Klaws o ->
  forall (omega delta e : list o) (U : list (list o)) k k',
  k < 2 ^ N -> k' < 2 ^ N -> in_sector N bad k -> in_sector N bad k' ->
  Hdense o N (ham_site o omega delta e) (Uint o N U) k k' =
  good_H o bad omega delta e U (sub_index N (goods bad) k) (sub_index N (goods bad) k').
Proof. exact dark_sector_reduced. Qed.

(* emu-mps, for every size, every permutation chosen by the optimiser and every mask: the reduced internal problem
   is the sub-problem of the good atoms — site s of the reduced chain is the s-th good atom in internal order
   (internal_goods perm bad = filter good perm), with that atom's own drive and U restricted to good x good;
   qubit_count becomes the number of good atoms, and the good atoms in internal order are a rearrangement of the
   good atoms in register order. *)
Theorem C25_mps_dark_routing : forall n perm (m : list (list Z)) (row : list Z) (bad : list bool),
  is_perm n perm -> wf n m -> length row = n -> length bad = n ->
  let IG := internal_goods perm bad in
  mps_filter true perm bad = Ok (Some (map (fun a => negb (nth a bad false)) perm)) /\
  mps_dark_drive true perm bad row = Ok (map (fun a => nth a row 0%Z) IG) /\
  mps_dark_interaction true perm bad m = Ok (map (fun a => map (fun b => nth b (nth a m []) 0%Z) IG) IG) /\
  mps_dark_count true perm bad = Ok (length IG) /\
  Permutation IG (filter (fun a => negb (nth a bad false)) (seq 0 n)).
Proof. exact mps_dark_routing. Qed.

(* without state-preparation error nothing is filtered *)
Theorem C25_mps_no_spe_routing : forall n perm (m : list (list Z)) (row : list Z) (bad : list bool),
  is_perm n perm -> wf n m -> length row = n ->
  mps_dark_drive false perm bad row = Ok (map (fun a => nth a row 0%Z) perm) /\
  mps_dark_interaction false perm bad m = Ok (map (fun a => map (fun b => nth b (nth a m []) 0%Z) perm) perm) /\
  mps_dark_count false perm bad = Ok (length perm).
Proof. exact mps_no_spe_routing. Qed.

(* padding: extended_mps_factors returns one factor per chain position; the inserted |g> factors sit exactly at
   the positions where the (permuted) filter is False, the original factors are kept in order, and every
   inserted factor has physical dimension pad_phys v factors (v = false, the tree as analysed: always 2;
   v = true, the proposed fix: the physical dimension of the first original factor). *)
Theorem C25_padding_roundtrip : forall v factors wh, length factors = count_true wh ->
  exists r, extended_mps_shapes v factors wh = Ok r /\
    length r = length wh /\
    map (fun x : bool * shape => negb (fst x)) r = wh /\
    map snd (filter (fun x : bool * shape => negb (fst x)) r) = factors /\
    Forall (fun x : bool * shape => fst x = true -> s_phys (snd x) = pad_phys v factors) r.
Proof. exact padding_roundtrip. Qed.

(* get_extended_site_index(where, d) is the position of the d-th True *)
Theorem C25_extended_site_index_spec : forall wh d j, extended_site_index wh d = Ok j ->
  nth j wh false = true /\ count_true (firstn j wh) = d.
Proof. exact extended_site_index_spec. Qed.

(* mask_domain.  emu-sv accepts every mask (no initial state). *)
Theorem C25_sv_mask_domain : forall nq spe bad, sv_accepts nq None spe bad = Ok tt.
Proof. reflexivity. Qed.

(* emu-mps accepts a mask exactly when at least two atoms are well prepared and, for a 3-level basis, no atom is bad. *)
Theorem C25_mps_mask_domain : forall n dim bad,
  mps_accepts false n dim true false bad = Ok tt <->
  2 <= n /\ 2 <= count_true (map negb bad) /\ (dim = 2 \/ (dim = 3 /\ existsb (fun b => b) bad = false)).
Proof. exact mps_mask_domain. Qed.

(* F-13: the property demands every mask; emu-mps refuses a register in which one atom is well prepared. *)
Theorem C25_mps_few_good_atoms_refuted :
  exists n bad, 2 <= n /\ length bad = n /\ In false bad /\ forall v, mps_accepts v n 2 true false bad = Err E_ONE_QUBIT.
Proof. exists 2, [true; false]. split; [auto|]. split; [reflexivity|]. split; [simpl; auto|]. intros []; reflexivity. Qed.

(* F-14: with a 3-level (leakage) basis the padded chain is rejected by the MPS constructor whenever an atom is bad,
   for every chain and every mask. *)
Theorem C25_mps_qutrit_padding_refuted : forall factors wh dim r,
  length factors = count_true wh -> In false wh -> dim <> 2 ->
  extended_mps_shapes false factors wh = Ok r -> mps_ctor_ok dim (map snd r) <> Ok tt.
Proof. exact padding_rejected_for_qudits. Qed.

(* with the proposed fix (inserted factors sized like the state) the 3-level basis is accepted with bad atoms, and the
   inserted factors have the physical dimension of the original ones *)
Theorem C25_mps_mask_domain_pad_fixed : forall n dim bad,
  mps_accepts true n dim true false bad = Ok tt <->
  2 <= n /\ 2 <= count_true (map negb bad) /\ (dim = 2 \/ dim = 3).
Proof. exact mps_mask_domain_pad_fixed. Qed.

Theorem C25_padding_fixed_phys : forall factors wh f0, length factors = count_true wh -> nth_error factors 0 = Some f0 ->
  exists r, extended_mps_shapes true factors wh = Ok r /\
    Forall (fun x : bool * shape => fst x = true -> s_phys (snd x) = s_phys f0) r.
Proof. exact padding_fixed_phys. Qed.

(* premises are satisfiable / concrete instance: 3 atoms, atom 1 bad, a valid qutrit chain of the two good atoms *)
Example C25_premises_satisfiable :
  in_sector 3 [false; true; false] 5 /\ goods [false; true; false] = [0; 2] /\
  sub_index 3 (goods [false; true; false]) 5 = 3 /\
  is_perm 3 [2; 0; 1] /\ internal_goods [2; 0; 1] [false; true; false] = [2; 0] /\
  extended_mps_shapes false [(1, 3, 2); (2, 3, 1)] [true; false; true]
    = Ok [(false, (1, 3, 2)); (true, (2, 2, 2)); (false, (2, 3, 1))] /\
  extended_mps_shapes true [(1, 3, 2); (2, 3, 1)] [true; false; true]
    = Ok [(false, (1, 3, 2)); (true, (2, 3, 2)); (false, (2, 3, 1))] /\
  mps_ctor_ok 3 [(1, 3, 2); (2, 2, 2); (2, 3, 1)] = Err E_ASSERT /\
  mps_ctor_ok 2 [(1, 2, 2); (2, 2, 2); (2, 2, 1)] = Ok tt.
Proof.
  split. { intros i Hi Hb. destruct i as [|[|[|i]]]; try discriminate; try lia; reflexivity. }
  split; [reflexivity|]. split; [reflexivity|]. split; [apply is_permb_spec; reflexivity|].
  repeat split; reflexivity.
Qed.
