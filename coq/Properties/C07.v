(* C07 — Krylov exponentiation is accurate and honest about convergence.
   Only final statements; every proof is `exact <lemma>`.  The model is Model/KrylovExp.v (hand-written,
   tied to /repo/emu_base/math/krylov_exp.py by the correspondences of tools/props/c07.py).
   NOT a theorem here (validated only by the falsifier): "error <= 10 x tolerance". *)
From Coq Require Import ZArith List Bool Arith.
From EV Require Import Base.Arith Model.KrylovExp Proofs.KrylovExpProofs.

(* Control contract of krylov_exp_impl, for EVERY arithmetic [ar] (binary64 or reals), every oracle
   stream n2/err1/err2/err2c, all three variants of the estimate ([fixed]) and every max_krylov_dim >= 1: it returns normally (the constructor assert never
   fires); converged = true iff some iteration j < max_dim had n2_j < norm_tol or err_j < exp_tol;
   then iteration_count is the least such j plus one and happy_breakdown says whether that iteration
   stopped on n2_j < norm_tol; otherwise iteration_count = max_dim; happy_breakdown -> converged. *)
Theorem C07_converged_iff_estimate :
  forall (A : Type) (ar : Arith A) (fixed : variant) (n2 err1 err2 err2c : nat -> A) (norm_tol exp_tol : A) (max_dim : nat),
  0 < max_dim ->
  exists r, kexp_impl ar fixed n2 err1 err2 err2c norm_tol exp_tol max_dim = Ok r /\
    (k_converged r = true <->
       exists j, j < max_dim /\ trigger ar fixed n2 err1 err2 err2c norm_tol exp_tol j = true) /\
    (k_converged r = true ->
       exists j0, j0 < max_dim /\ first_trigger ar fixed n2 err1 err2 err2c norm_tol exp_tol 0 j0 /\
                  k_iters r = S j0 /\ k_happy r = breakdown_at ar n2 norm_tol j0) /\
    (k_converged r = false -> k_iters r = max_dim /\ k_happy r = false) /\
    (k_happy r = true -> k_converged r = true).
Proof. exact kexp_impl_spec. Qed.

(* max_krylov_dim = 0: the loop body never runs and the tail reads the unbound local `expd`. *)
Theorem C07_max_dim_zero_raises :
  forall (A : Type) (ar : Arith A) (fixed : variant) (n2 err1 err2 err2c : nat -> A) (norm_tol exp_tol : A),
  kexp_impl ar fixed n2 err1 err2 err2c norm_tol exp_tol 0 = Err E_UNBOUND.
Proof. exact kexp_impl_zero. Qed.

(* The public entry point krylov_exp, for every max_krylov_dim including 0: it returns (a converged
   result) iff some iteration triggered; in every other case it raises (RecursionError, or the
   UnboundLocalError of max_dim = 0) — it never returns a vector from a non-converged run. *)
Theorem C07_public_raises_iff_not_converged :
  forall (A : Type) (ar : Arith A) (fixed : variant) (n2 err1 err2 err2c : nat -> A) (norm_tol exp_tol : A) (max_dim : nat),
  ((exists j, j < max_dim /\ trigger ar fixed n2 err1 err2 err2c norm_tol exp_tol j = true) ->
     exists r, kexp_public ar fixed n2 err1 err2 err2c norm_tol exp_tol max_dim = Ok r /\ k_converged r = true) /\
  (~ (exists j, j < max_dim /\ trigger ar fixed n2 err1 err2 err2c norm_tol exp_tol j = true) ->
     kexp_public ar fixed n2 err1 err2 err2c norm_tol exp_tol max_dim =
       Err (if Nat.eqb max_dim 0 then E_UNBOUND else E_RECURSION)).
Proof. exact kexp_public_spec. Qed.

(* The control outcome (converged, happy_breakdown, iteration_count) of the FULL model of
   krylov_exp_impl (vectors, T, matrix_exp oracle) is the control model run on the streams the full
   model itself computes: the three theorems above therefore speak about krylov_exp_impl's flags. *)
Theorem C07_full_model_follows_control :
  forall (A : Type) (ar : Arith A) (K V : Type) (kone : K) (kmul : K -> K -> K) (ofreal : A -> K)
         (kabs : K -> A) (vzero : V) (vadd vsub : V -> V -> V) (vscale : K -> V -> V) (vdiv : V -> A -> V)
         (Aop : V -> V) (inner : V -> V -> K) (nrm : V -> A) (mexp : (nat -> nat -> K) -> nat -> nat -> K)
         (fixed : variant) (herm : bool) (norm_tol exp_tol n0 : A) (st0 : kstate K V) (d : A)
         (fuel j : nat) (st : kstate K V) (k : kres) (r : V) (st' : kstate K V),
  ghost kone kmul ofreal kabs vzero vadd vsub vscale vdiv Aop inner nrm mexp herm st0 j = Ok st ->
  floop ar kone kmul ofreal kabs vzero vadd vsub vscale vdiv Aop inner nrm mexp
        fixed herm norm_tol exp_tol n0 fuel j st = Ok (k, r, st') ->
  let gs := gstream kone kmul ofreal kabs vzero vadd vsub vscale vdiv Aop inner nrm mexp herm st0 d in
  kloop ar fixed (gs (@b_n2 A K V)) (gs (@b_err1 A K V)) (gs (@b_err2 A K V)) (gs (@b_err2c A K V))
        norm_tol exp_tol fuel j = Ok k.
Proof. exact floop_control. Qed.

(* Arnoldi relation, by construction.  Over ANY scalars K, vectors V with the module laws listed as
   premises (no orthogonality, no linearity of op, inner/nrm arbitrary functions), for both the full
   (is_hermitian = False) and the two-term (is_hermitian = True) variant — the two-term variant needs NO
   additional premise: whenever krylov_exp_impl returns, with m = number of completed iterations
   (iteration_count, minus one on happy breakdown),
     - there are m + 1 Lanczos vectors,
     - op(v_j) = sum_{k<=j} T[k,j] v_k + T[j+1,j] v_{j+1}  for every j < m,
     - T is upper Hessenberg (T[i,j] = 0 for i > j + 1).
   The only numeric premise: a norm that is not below norm_tolerance is invertible
   (w / n2 * n2 = w), which is what the breakdown test guarantees in a field when norm_tol > 0. *)
Theorem C07_arnoldi_relation :
  forall (A : Type) (ar : Arith A) (K V : Type) (kzero kone : K) (kmul : K -> K -> K) (ofreal : A -> K)
         (kabs : K -> A) (vzero : V) (vadd vsub : V -> V -> V) (vscale : K -> V -> V) (vdiv : V -> A -> V)
         (Aop : V -> V) (inner : V -> V -> K) (nrm : V -> A) (mexp : (nat -> nat -> K) -> nat -> nat -> K)
         (runit : A -> Prop),
  (forall u v w, vadd u (vadd v w) = vadd (vadd u v) w) ->
  (forall u v, vadd u v = vadd v u) ->
  (forall v, vadd vzero v = v) ->
  (forall v, vscale kzero v = vzero) ->
  (forall u v, vadd (vsub u v) v = u) ->
  (forall w c, runit c -> vscale (ofreal c) (vdiv w c) = w) ->
  forall (fixed : variant) (v : V) (herm : bool) (exp_tol norm_tol : A) (max_dim : nat) (k : kres) (r : V)
         (st' : kstate K V),
  (forall c, a_ltb ar c norm_tol = false -> runit c) ->
  kexp_full ar kzero kone kmul ofreal kabs vzero vadd vsub vscale vdiv Aop inner nrm mexp
            fixed v herm exp_tol norm_tol max_dim = Ok (k, r, st') ->
  length (s_vs st') = S (completed k) /\
  (forall j, j < completed k -> relation vzero vadd vscale Aop (s_T st') (s_vs st') j) /\
  (forall i j, S j < i -> s_T st' i j = kzero).
Proof. exact kexp_full_relation. Qed.

(* The cached operator product (w_next) is part of the control state.  For every variant, every oracle
   stream and every max_krylov_dim: the loop executes one trace entry per counted iteration, and every
   iteration j orthogonalises the operator product of ITS OWN newest Lanczos vector v_j — either freshly
   computed or the product cached by the failed confirmation of iteration j - 1, which was computed from
   v_j.  (The harness logs, per iteration, on which vector op was called and which product was used, and
   compares with this trace; a product computed from another vector is `stale-operator-product`.) *)
Theorem C07_cached_product_is_fresh :
  forall (A : Type) (ar : Arith A) (fixed : variant) (n2 err1 err2 err2c : nat -> A) (norm_tol exp_tol : A)
         (max_dim : nat),
  Forall (fun e => fst (snd e) = fst e)
         (ktrace ar fixed n2 err1 err2 err2c norm_tol exp_tol max_dim 0 None) /\
  (forall r, kloop ar fixed n2 err1 err2 err2c norm_tol exp_tol max_dim 0 = Ok r ->
     length (ktrace ar fixed n2 err1 err2 err2c norm_tol exp_tol max_dim 0 None) = k_iters r).
Proof. exact cached_product_fresh. Qed.
