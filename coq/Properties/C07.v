(* C07 — Krylov exponentiation is accurate and honest about convergence.
   Only final statements; every proof is `exact <lemma>`.  The model is Model/KrylovExp.v (hand-written,
   tied to /repo/emu_base/math/krylov_exp.py by the correspondences of tools/props/c07.py).
   NOT a theorem here (validated only by the falsifier): "error <= 10 x tolerance". *)
From Coq Require Import ZArith List Bool Arith.
From EV Require Import Base.Arith Model.KrylovExp Proofs.KrylovExpProofs.

(* Control contract of krylov_exp_impl, for EVERY arithmetic [ar] (binary64 or reals), every oracle
   stream n2/err1/err2 and every max_krylov_dim >= 1: it returns normally (the constructor assert never
   fires); converged = true iff some iteration j < max_dim had n2_j < norm_tol or err_j < exp_tol;
   then iteration_count is the least such j plus one and happy_breakdown says whether that iteration
   stopped on n2_j < norm_tol; otherwise iteration_count = max_dim; happy_breakdown -> converged. *)
Theorem C07_converged_iff_estimate :
  forall (A : Type) (ar : Arith A) (n2 err1 err2 : nat -> A) (norm_tol exp_tol : A) (max_dim : nat),
  0 < max_dim ->
  exists r, kexp_impl ar n2 err1 err2 norm_tol exp_tol max_dim = Ok r /\
    (k_converged r = true <->
       exists j, j < max_dim /\ trigger ar n2 err1 err2 norm_tol exp_tol j = true) /\
    (k_converged r = true ->
       exists j0, j0 < max_dim /\ first_trigger ar n2 err1 err2 norm_tol exp_tol 0 j0 /\
                  k_iters r = S j0 /\ k_happy r = breakdown_at ar n2 norm_tol j0) /\
    (k_converged r = false -> k_iters r = max_dim /\ k_happy r = false) /\
    (k_happy r = true -> k_converged r = true).
Proof. exact kexp_impl_spec. Qed.

(* max_krylov_dim = 0: the loop body never runs and the tail reads the unbound local `expd`. *)
Theorem C07_max_dim_zero_raises :
  forall (A : Type) (ar : Arith A) (n2 err1 err2 : nat -> A) (norm_tol exp_tol : A),
  kexp_impl ar n2 err1 err2 norm_tol exp_tol 0 = Err E_UNBOUND.
Proof. exact kexp_impl_zero. Qed.

(* The public entry point krylov_exp, for every max_krylov_dim including 0: it returns (a converged
   result) iff some iteration triggered; in every other case it raises (RecursionError, or the
   UnboundLocalError of max_dim = 0) — it never returns a vector from a non-converged run. *)
Theorem C07_public_raises_iff_not_converged :
  forall (A : Type) (ar : Arith A) (n2 err1 err2 : nat -> A) (norm_tol exp_tol : A) (max_dim : nat),
  ((exists j, j < max_dim /\ trigger ar n2 err1 err2 norm_tol exp_tol j = true) ->
     exists r, kexp_public ar n2 err1 err2 norm_tol exp_tol max_dim = Ok r /\ k_converged r = true) /\
  (~ (exists j, j < max_dim /\ trigger ar n2 err1 err2 norm_tol exp_tol j = true) ->
     kexp_public ar n2 err1 err2 norm_tol exp_tol max_dim =
       Err (if Nat.eqb max_dim 0 then E_UNBOUND else E_RECURSION)).
Proof. exact kexp_public_spec. Qed.
