(* Scalar-parametric arithmetic (formalism F1 of DESIGN.md).
   A scalar algorithm is written once over [Arith A]; it is executed bit-exactly at
   [float_arith] (binary64, what Python/torch compute) and reasoned about at [R_arith]. *)
From Coq Require Import ZArith Reals Bool Lra.
From Coq Require Import PrimFloat Uint63.

Record Arith (A : Type) := MkArith {
  a_add : A -> A -> A;
  a_sub : A -> A -> A;
  a_mul : A -> A -> A;
  a_div : A -> A -> A;
  a_neg : A -> A;
  a_abs : A -> A;
  a_ltb : A -> A -> bool;
  a_leb : A -> A -> bool;
  a_eqb : A -> A -> bool;
  a_ofZ : Z -> A;
}.
Arguments a_add {A} _. Arguments a_sub {A} _. Arguments a_mul {A} _. Arguments a_div {A} _.
Arguments a_neg {A} _. Arguments a_abs {A} _. Arguments a_ltb {A} _. Arguments a_leb {A} _.
Arguments a_eqb {A} _. Arguments a_ofZ {A} _.

(* ---- binary64 instance -------------------------------------------------------- *)
Definition float_ofZ (z : Z) : float :=
  match z with
  | Z0 => PrimFloat.of_uint63 (Uint63.of_Z 0)
  | Zpos _ => PrimFloat.of_uint63 (Uint63.of_Z z)
  | Zneg p => PrimFloat.opp (PrimFloat.of_uint63 (Uint63.of_Z (Zpos p)))
  end.

Definition float_arith : Arith float := {|
  a_add := PrimFloat.add; a_sub := PrimFloat.sub; a_mul := PrimFloat.mul; a_div := PrimFloat.div;
  a_neg := PrimFloat.opp; a_abs := PrimFloat.abs;
  a_ltb := PrimFloat.ltb; a_leb := PrimFloat.leb; a_eqb := PrimFloat.eqb;
  a_ofZ := float_ofZ |}.

(* ---- real instance ------------------------------------------------------------ *)
Definition Rltb (x y : R) : bool := if Rlt_dec x y then true else false.
Definition Rleb (x y : R) : bool := if Rle_dec x y then true else false.
Definition Reqb (x y : R) : bool := if Req_EM_T x y then true else false.

Lemma Rltb_true x y : Rltb x y = true <-> (x < y)%R.
Proof. unfold Rltb; destruct (Rlt_dec x y); split; intros; try easy. Qed.
Lemma Rltb_false x y : Rltb x y = false <-> (y <= x)%R.
Proof. unfold Rltb; destruct (Rlt_dec x y); split; intros; try easy; lra. Qed.
Lemma Rleb_true x y : Rleb x y = true <-> (x <= y)%R.
Proof. unfold Rleb; destruct (Rle_dec x y); split; intros; try easy. Qed.
Lemma Rleb_false x y : Rleb x y = false <-> (y < x)%R.
Proof. unfold Rleb; destruct (Rle_dec x y); split; intros; try easy; lra. Qed.
Lemma Reqb_true x y : Reqb x y = true <-> x = y.
Proof. unfold Reqb; destruct (Req_EM_T x y); split; intros; try easy. Qed.
Lemma Reqb_false x y : Reqb x y = false <-> x <> y.
Proof. unfold Reqb; destruct (Req_EM_T x y); split; intros; try easy. Qed.

Definition R_arith : Arith R := {|
  a_add := Rplus; a_sub := Rminus; a_mul := Rmult; a_div := Rdiv;
  a_neg := Ropp; a_abs := Rabs;
  a_ltb := Rltb; a_leb := Rleb; a_eqb := Reqb;
  a_ofZ := IZR |}.

(* Results of translated functions: a value, a failed [assert]/raise, or fuel exhaustion
   (the latter is always excluded by theorem statements). *)
Inductive res (T : Type) := Ok (v : T) | Err (msg : Z) | OutOfFuel.
Arguments Ok {T} _. Arguments Err {T} _. Arguments OutOfFuel {T}.

Definition res_bind {T U} (r : res T) (k : T -> res U) : res U :=
  match r with Ok v => k v | Err m => Err m | OutOfFuel => OutOfFuel end.
