(* Formalism F3 of DESIGN.md, reusable part: scalars of a commutative ring with involution given as a
   record of operations (so that one definition is executed at the Gaussian integers Z[i] and reasoned
   about for every commutative ring), finite sums, row vectors as lists, and "bond tensors"
   T[l][s][r] as functions with explicit sizes.  No proofs in this file. *)
From Coq Require Import ZArith List Bool Arith.
Import ListNotations.
Set Implicit Arguments.

Record RingOps (K : Type) := MkRingOps {
  k0 : K; k1 : K;
  kadd : K -> K -> K; kmul : K -> K -> K; ksub : K -> K -> K; kopp : K -> K;
  kconj : K -> K;           (* the involution (complex conjugation) *)
}.

(* ---- Gaussian integers: the execution instance (exact image of complex128 tensors with small
   integer real/imaginary parts) ---------------------------------------------------------------- *)
Definition GI := (Z * Z)%type.
Definition gi_ops : RingOps GI := {|
  k0 := (0, 0)%Z; k1 := (1, 0)%Z;
  kadd := fun a b => (fst a + fst b, snd a + snd b)%Z;
  kmul := fun a b => (fst a * fst b - snd a * snd b, fst a * snd b + snd a * fst b)%Z;
  ksub := fun a b => (fst a - fst b, snd a - snd b)%Z;
  kopp := fun a => (- fst a, - snd a)%Z;
  kconj := fun a => (fst a, - snd a)%Z |}.

Section TM.
Variable K : Type.
Variable Ko : RingOps K.
Local Notation "'zero'" := (k0 Ko).
Local Notation "'one'" := (k1 Ko).
Local Infix "[+]" := (kadd Ko) (at level 50, left associativity).
Local Infix "[*]" := (kmul Ko) (at level 40, left associativity).

(* f 0 + f 1 + ... + f (n-1) *)
Fixpoint sumn (n : nat) (f : nat -> K) : K :=
  match n with O => zero | S n' => sumn n' f [+] f n' end.

(* sum of f over a list *)
Fixpoint sumL (A : Type) (l : list A) (f : A -> K) : K :=
  match l with [] => zero | x :: l' => f x [+] sumL l' f end.

(* <v, f> = sum_l v[l] * f l   (a row vector against a column given as a function) *)
Fixpoint dotf (v : list K) (f : nat -> K) : K :=
  match v with [] => zero | x :: v' => x [*] f O [+] dotf v' (fun l => f (S l)) end.

Definition vscale (c : K) (v : list K) : list K := map (fun x => c [*] x) v.

(* A bond tensor: left bond size, physical size, right bond size, entries T[l][s][r].
   For an MPO factor the physical index is the flattened pair s = out*d + in. *)
Record T3 := MkT3 { dl : nat; dp : nat; dr : nat; tf : nat -> nat -> nat -> K }.

(* input/output encodings used by the correspondence harness (nested lists [l][s][r]) *)
Definition of_list3 (l p r : nat) (data : list (list (list K))) : T3 :=
  MkT3 l p r (fun i s j => nth j (nth s (nth i data []) []) zero).
Definition shape_ok3 (l p r : nat) (data : list (list (list K))) : bool :=
  (length data =? l) &&
  forallb (fun m => (length m =? p) && forallb (fun row => length row =? r) m) data.
Definition to_list3 (T : T3) : list (list (list K)) :=
  map (fun l => map (fun s => map (fun r => tf T l s r) (seq 0 (dr T))) (seq 0 (dp T))) (seq 0 (dl T)).

(* row vector times the bond matrix T[.][s][.] *)
Definition vstep (v : list K) (T : T3) (s : nat) : list K :=
  map (fun r => dotf v (fun l => tf T l s r)) (seq 0 (dr T)).

(* Ordered product of the bond matrices selected by the physical indices [b], applied to the row
   vector [v]; defined only when all sizes fit and the final vector has a single entry. *)
Fixpoint ampv (v : list K) (Ts : list T3) (b : list nat) : option K :=
  match Ts, b with
  | [], [] => match v with [x] => Some x | _ => None end
  | T :: Ts', s :: b' =>
      if (length v =? dl T) && (s <? dp T) then ampv (vstep v T s) Ts' b' else None
  | _, _ => None
  end.

(* the amplitude <b|psi> (or the element <b|O|b'> with b_q := out_q*d + in_q) *)
Definition amp (Ts : list T3) (b : list nat) : option K := ampv [one] Ts b.

(* all physical index strings of a chain (used by the dense comparison and by inner_spec) *)
Fixpoint strings (ds : list nat) : list (list nat) :=
  match ds with
  | [] => [[]]
  | d :: ds' => flat_map (fun s => map (cons s) (strings ds')) (seq 0 d)
  end.

End TM.
