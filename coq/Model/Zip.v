(* Hand model (formalism F3) of the zip-up product of /repo/emu_mps/algebra.py:
     zip_right_step  (contraction of the slider with the MPO factor `top` and the MPS/MPO factor `bottom`,
                      reshape to a matrix, QR, reshape back)
     zip_right       (the loop over the sites, `new_factors[-1] @= slider[:, :, 0]`; the final truncation sweep is
                      the subject of C10 and is not part of this model)
   which is what MPO.apply_to (bottom = MPS factors) and MPO.__matmul__ (bottom = MPO factors) call.
   The QR factorisation is an ORACLE: any function returning an inner dimension k and two matrices L (rows x k),
   R (k x cols).  Theorems quantify over every oracle with L R = M; the correspondence scripts it.
   Conventions: an MPO factor has the flattened physical index out*d + in (square, out = in = d); the bottom
   factor has the physical index m*e + j where m < d is contracted with the operator's `in` index and j < e is
   carried along (e = 1 for an MPS, e = d for an MPO); the result has the physical index o*e + j.
   Every new tensor is tabulated (memo3) so that evaluation inside Coq is polynomial.  No proofs in this file. *)
From Coq Require Import ZArith List Bool Arith.
From EV Require Import Model.TransferMat Model.MPSAlg.
Import ListNotations.
Set Implicit Arguments.

Section Zip.
Variable K : Type.
Variable Ko : RingOps K.
Local Notation "'zero'" := (k0 Ko).
Local Notation "'one'" := (k1 Ko).
Local Infix "[+]" := (kadd Ko) (at level 50, left associativity).
Local Infix "[*]" := (kmul Ko) (at level 40, left associativity).
Local Notation T3 := (T3 K).

(* oracle: site index, rows, cols, matrix |-> (k, L, R) *)
Definition QR := nat -> nat -> nat -> (nat -> nat -> K) -> (nat * (nat -> nat -> K) * (nat -> nat -> K))%type.

Variable d e : nat.
Variable qr : QR.

Definition memo3 (T : T3) : T3 := of_list3 Ko (dl T) (dp T) (dr T) (to_list3 T).

(* slider[a][t][b] (x) top[t][o][m][t'] (x) bottom[b][m][j][b'], summed over t, b, m *)
Definition zentry (Sl top bot : T3) (a s t' b' : nat) : K :=
  sumn Ko (dl top) (fun t => sumn Ko (dl bot) (fun b => sumn Ko d (fun m =>
    tf Sl a t b [*] tf top t ((s / e) * d + m) t' [*] tf bot b (m * e + s mod e) b'))).

(* `.view(prod(left_inds), prod(right_inds))`: row = a*(d*e) + s, col = t'*dr(bottom) + b' *)
Definition zmat (Sl top bot : T3) (row col : nat) : K :=
  zentry Sl top bot (row / (d * e)) (row mod (d * e)) (col / dr bot) (col mod dr bot).

(* `new_factors[-1] @= slider[:, :, 0]` *)
Definition last_mul (F Sl : T3) : T3 :=
  memo3 (MkT3 (dl F) (dp F) (dp Sl) (fun a s t' => sumn Ko (dr F) (fun c => tf F a s c [*] tf Sl c t' 0))).

(* one site and the rest of the chain; None = the code raises (ValueError of zip_right_step for bond sizes that
   do not fit, RuntimeError of tensordot / view for physical sizes that do not fit) *)
Fixpoint zip_go (i : nat) (Sl top bot : T3) (tops bots : list T3) : option (list T3) :=
  if (dp Sl =? dl top) && (dr Sl =? dl bot) && (dp top =? d * d) && (dp bot =? d * e) then
    let '(k, L, R) := qr i (dl Sl * (d * e)) (dr top * dr bot) (zmat Sl top bot) in
    let F := memo3 (MkT3 (dl Sl) (d * e) k (fun a s c => L (a * (d * e) + s) c)) in
    let Sl' := memo3 (MkT3 k (dr top) (dr bot) (fun c t' b' => R c (t' * dr bot + b'))) in
    match tops, bots with
    | [], [] => Some [last_mul F Sl']
    | top2 :: tops', bot2 :: bots' =>
        match zip_go (S i) Sl' top2 bot2 tops' bots' with Some Fs => Some (F :: Fs) | None => None end
    | _, _ => None
    end
  else None.

Definition ones_slider : T3 := MkT3 1 1 1 (fun _ _ _ => one).

(* None also for different lengths (ValueError) and for empty chains (IndexError on new_factors[-1]) *)
Definition zip_right (tops bots : list T3) : option (list T3) :=
  if length tops =? length bots then
    match tops, bots with
    | top :: tops', bot :: bots' => zip_go 0 ones_slider top bot tops' bots'
    | _, _ => None
    end
  else None.

(* index strings of the dense statement: for the result string bo (entries o*e + j) and the contracted string m,
   the operator is read at o*d + m and the operand at m*e + j *)
Fixpoint top_idx (bo m : list nat) : list nat :=
  match bo, m with s :: bo', x :: m' => ((s / e) * d + x) :: top_idx bo' m' | _, _ => [] end.
Fixpoint bot_idx (bo m : list nat) : list nat :=
  match bo, m with s :: bo', x :: m' => (x * e + s mod e) :: bot_idx bo' m' | _, _ => [] end.

End Zip.

(* ---- scripted oracles for the correspondence (Gaussian integers) ---------------------------------------- *)
Definition gmat := list (list GI).
Definition gm_at (A : gmat) (i j : nat) : GI := nth j (nth i A []) (0, 0)%Z.
Definition delta (i j : nat) : GI := if i =? j then (1, 0)%Z else (0, 0)%Z.

(* L = M G_i, R = G_i^{-1}   (k = cols); an exhausted script means G = identity, i.e. L = M, R = I *)
Definition qr_gauge (gs : list (gmat * gmat)) : QR GI := fun i rows cols M =>
  match nth_error gs i with
  | Some (G, Ginv) =>
      (cols, (fun r c => sumn gi_ops cols (fun x => kmul gi_ops (M r x) (gm_at G x c))), gm_at Ginv)
  | None => (cols, M, delta)
  end.
(* L = I, R = M   (k = rows) *)
Definition qr_left_identity : QR GI := fun _ rows _ M => (rows, delta, M).

Definition zip_eqb (d e : nat) (qr : QR GI) (tops bots : list RawT) (expect : list RawT) : option bool :=
  ochain_eqb (zip_right gi_ops d e qr (map of_raw tops) (map of_raw bots)) expect.
