(* Hand-written executable model of /repo/emu_base/math/krylov_exp.py (krylov_exp_impl, krylov_exp).
   Tied to the source by the correspondence of tools/props/c07.py (exact on the control outcome,
   tol on T / result for small dimensions).  No proofs here.

   (a) [Control]: the control contract as a state machine over oracle streams (formalism F4):
       n2 j   = norm of w after orthogonalisation in iteration j   (python: n2)
       err1 j = abs(expd[j+1,0]),  err2 j = abs(expd[j+2,0]*n)     (python: err1, err2)
   (b) [Full]: the whole function over an abstract module V over scalars K with real-typed norms A
       (formalism F6); vector operations, the operator, inner product, norm and matrix_exp are
       Section variables. *)
From Coq Require Import ZArith List Bool Arith.
From EV Require Import Base.Arith.
Import ListNotations.
Set Implicit Arguments.

(* error codes of the model *)
Definition E_ASSERT : Z := 1%Z.      (* KrylovExpResult.__init__ assert *)
Definition E_UNBOUND : Z := 2%Z.     (* UnboundLocalError: expd read before assignment (max_krylov_dim = 0) *)
Definition E_RECURSION : Z := 3%Z.   (* RecursionError raised by krylov_exp *)
Definition E_INDEX : Z := 4%Z.       (* IndexError on lanczos_vectors[k] *)

(* which variant of the convergence test the source has (chosen by tools/props/c07.py from the source
   text; the correspondence checks the choice):
     Original     err2 uses |op(v_j)|                                   (upstream)
     Confirmed    + confirmation with |op(v_{j+1})|, same formula       (proposed_fixes/converged-inaccurate.diff)
     ConfirmedMax + the confirmation takes err2 when err1 < err2        (proposed_fixes/converged-inaccurate-followup.diff) *)
Inductive variant := Original | Confirmed | ConfirmedMax.
Definition is_fixed (v : variant) : bool := match v with Original => false | _ => true end.

Record kres := MkKres { k_converged : bool; k_happy : bool; k_iters : nat }.

(* KrylovExpResult.__init__: assert (not happy_breakdown) or converged *)
Definition mk_result (c h : bool) (it : nat) : res kres :=
  if negb h || c then Ok (MkKres c h it) else Err E_ASSERT.

(* ------------------------------------------------------------------------------------------ *)
Section Control.
Variable A : Type.
Variable ar : Arith A.
(* [fixed] selects the variant of the source (see [variant]); err2c j = abs(expd[j+2,0] * |op(v_{j+1})|) is
   the additional oracle value of the confirmation step.  tools/props/c07.py chooses the variant from the
   source text and the correspondence checks the choice. *)
Variable fixed : variant.
Variables n2 err1 err2 err2c : nat -> A.
Variables norm_tol exp_tol : A.

(* err = err1 if err1 < err2 else (err1 * err2 / (err1 - err2)) *)
Definition err_formula (e1 e2 : A) : A :=
  if a_ltb ar e1 e2 then e1 else a_div ar (a_mul ar e1 e2) (a_sub ar e1 e2).
(* confirmed = (err1 | err2) if err1 < err2 else (err1 * err2 / (err1 - err2)) *)
Definition confirm_formula (e1 e2 : A) : A :=
  match fixed with
  | ConfirmedMax => if a_ltb ar e1 e2 then e2 else a_div ar (a_mul ar e1 e2) (a_sub ar e1 e2)
  | _ => err_formula e1 e2
  end.
Definition err_of (j : nat) : A := err_formula (err1 j) (err2 j).
Definition confirmed_of (j : nat) : A := confirm_formula (err1 j) (err2c j).
Definition SLACK : Z := 3%Z.

Definition breakdown_at (j : nat) : bool := a_ltb ar (n2 j) norm_tol.
(* original:  if err < exp_tolerance: converged
   fixed:     if err < exp_tolerance:
                  confirmed = ...; if not confirmed < 3 * exp_tolerance: err = confirmed
              if err < exp_tolerance: converged *)
Definition estimate_at (j : nat) : bool :=
  if a_ltb ar (err_of j) exp_tol then
    if is_fixed fixed then
      if a_ltb ar (confirmed_of j) (a_mul ar (a_ofZ ar SLACK) exp_tol) then true
      else a_ltb ar (confirmed_of j) exp_tol
    else true
  else false.
Definition trigger (j : nat) : bool := breakdown_at j || estimate_at j.

(* for j in range(max_krylov_dim): ...   [fuel = max_krylov_dim - j] *)
Fixpoint kloop (fuel j : nat) : res kres :=
  match fuel with
  | O => mk_result false false j            (* fell out of the loop: iteration_count = max_krylov_dim *)
  | S f =>
    if breakdown_at j then mk_result true true (S j)
    else if estimate_at j then mk_result true false (S j)
    else kloop f (S j)
  end.

(* The cached operator product (python: w_next) as explicit control state.  [cache = Some k] means
   "w_next holds op applied to Lanczos vector k".  One trace entry per executed iteration:
     (j, (index of the Lanczos vector whose product iteration j orthogonalises,
          was the confirmation product op(v_{j+1}) computed in iteration j)).
   python:  w = op(lanczos_vectors[-1]) if w_next is None else w_next;  w_next = None
            ...  if err < exp_tolerance: w_next = op(lanczos_vectors[-1]) ...            *)
Definition confirm_called (j : nat) : bool := a_ltb ar (err_of j) exp_tol && is_fixed fixed.

Fixpoint ktrace (fuel j : nat) (cache : option nat) : list (nat * (nat * bool)) :=
  match fuel with
  | O => []
  | S f =>
    let used := match cache with Some k => k | None => j end in
    if breakdown_at j then [(j, (used, false))]
    else
      let cache' := if confirm_called j then Some (S j) else None in
      (j, (used, confirm_called j)) :: (if estimate_at j then [] else ktrace f (S j) cache')
  end.

(* krylov_exp_impl: with max_krylov_dim = 0 the tail reads the unbound local `expd` *)
Definition kexp_impl (max_dim : nat) : res kres :=
  match max_dim with
  | O => Err E_UNBOUND
  | _ => kloop max_dim 0
  end.

(* krylov_exp: raise RecursionError unless converged *)
Definition kexp_public (max_dim : nat) : res kres :=
  res_bind (kexp_impl max_dim) (fun r =>
    if k_converged r then Ok r else Err E_RECURSION).

End Control.

(* outcome tuple for the correspondence: (code, converged, happy, iteration_count) with
   code 0 = returned, n > 0 = raised with error code n *)
Definition outcome (r : res kres) : Z * (bool * (bool * nat)) :=
  match r with
  | Ok k => (0%Z, (k_converged k, (k_happy k, k_iters k)))
  | Err m => (m, (false, (false, 0)))
  | OutOfFuel => ((-1)%Z, (false, (false, 0)))
  end.

Definition stream (A : Type) (d : A) (l : list A) : nat -> A := fun j => nth j l d.

(* ------------------------------------------------------------------------------------------ *)
Section Full.
Variable A : Type.            (* real scalars: norms, tolerances, error estimates *)
Variable ar : Arith A.
Variables K V : Type.         (* scalars of the vectors (complex), vectors *)
Variables kzero kone : K.
Variable kmul : K -> K -> K.
Variable ofreal : A -> K.     (* T[j+1, j] = n2 stores a real norm into the complex matrix *)
Variable kabs : K -> A.
Variable vzero : V.           (* the python int 0 that `sum` starts from *)
Variables vadd vsub : V -> V -> V.
Variable vscale : K -> V -> V.
Variable vdiv : V -> A -> V.  (* w /= n2 *)
Variable Aop : V -> V.        (* op *)
Variable inner : V -> V -> K. (* tensordot(v_k.conj(), w, dims=w.dim()) *)
Variable nrm : V -> A.        (* .norm() *)
(* first column of torch.linalg.matrix_exp(T[:n, :n]):  mexp T n i = expd[i, 0] *)
Variable mexp : (nat -> nat -> K) -> nat -> nat -> K.

Definition tmat := nat -> nat -> K.
Definition tzero : tmat := fun _ _ => kzero.
Definition tset (T : tmat) (r c : nat) (x : K) : tmat :=
  fun r' c' => if Nat.eqb r r' && Nat.eqb c c' then x else T r' c'.

(* for k in range(k_start, j + 1): overlap = <v_k, w>; T[k, j] = overlap; w -= overlap * v_k *)
Fixpoint ortho (vs : list V) (j : nat) (ks : list nat) (T : tmat) (w : V) : res (tmat * V) :=
  match ks with
  | [] => Ok (T, w)
  | k :: ks' =>
    match nth_error vs k with
    | None => Err E_INDEX
    | Some vk =>
      let ov := inner vk w in
      ortho vs j ks' (tset T k j ov) (vsub w (vscale ov vk))
    end
  end.

(* k_start = max(0, j - 1) if is_hermitian else 0 *)
Definition k_start (herm : bool) (j : nat) : nat := if herm then Nat.pred j else 0.
Definition band (herm : bool) (j : nat) : list nat := seq (k_start herm j) (S j - k_start herm j).

(* sum(a * b for a, b in zip(expd[:, 0], lanczos_vectors)) *)
Fixpoint lincomb_from (e : nat -> K) (i : nat) (vs : list V) (acc : V) : V :=
  match vs with
  | [] => acc
  | v :: vs' => lincomb_from e (S i) vs' (vadd acc (vscale (e i) v))
  end.
Definition lincomb (e : nat -> K) (vs : list V) : V := lincomb_from e 0 vs vzero.

Record kstate := MkKstate { s_vs : list V; s_T : tmat; s_expd : option (nat -> K) }.

(* Everything one loop iteration computes.  All of it is pure, so computing the values of both
   branches is extensionally the python body. *)
Record body_out := MkBody {
  b_n : A;               (* n  = op(v_j).norm() *)
  b_w : V;               (* w after orthogonalisation *)
  b_n2 : A;              (* n2 = w.norm() *)
  b_Tbd : tmat;          (* T after T[j+1, j] = n2 *)
  b_res_bd : V;          (* result returned on happy breakdown (without initial_norm) *)
  b_err1 : A; b_err2 : A;
  b_err2c : A;           (* abs(expd[j+2,0] * op(v_{j+1}).norm()), used by the fixed variant only *)
  b_next : kstate;       (* state after the iteration: appended vector, T[j+2,j+1] = 1, expd *)
}.

Definition body (herm : bool) (st : kstate) (j : nat) : res body_out :=
  match nth_error (s_vs st) (Nat.pred (length (s_vs st))) with   (* lanczos_vectors[-1] *)
  | None => Err E_INDEX
  | Some vj =>
    let w0 := Aop vj in
    let n := nrm w0 in
    res_bind (ortho (s_vs st) j (band herm j) (s_T st) w0) (fun '(T1, w) =>
      let n2 := nrm w in
      let T2 := tset T1 (S j) j (ofreal n2) in
      let vs' := s_vs st ++ [vdiv w n2] in
      let T3 := tset T2 (S (S j)) (S j) kone in
      let e := mexp T3 (S (S (S j))) in
      Ok (MkBody n w n2 T2 (lincomb (mexp T2 (S j)) (s_vs st))
                 (kabs (e (S j))) (kabs (kmul (e (S (S j))) (ofreal n)))
                 (kabs (kmul (e (S (S j))) (ofreal (nrm (Aop (vdiv w n2))))))
                 (MkKstate vs' T3 (Some e))))
  end.

(* the convergence test of one iteration (see Control.estimate_at) *)
Definition b_estimate (fixed : variant) (exp_tol : A) (b : body_out) : bool :=
  if a_ltb ar (err_formula ar (b_err1 b) (b_err2 b)) exp_tol then
    if is_fixed fixed then
      if a_ltb ar (confirm_formula ar fixed (b_err1 b) (b_err2c b)) (a_mul ar (a_ofZ ar SLACK) exp_tol) then true
      else a_ltb ar (confirm_formula ar fixed (b_err1 b) (b_err2c b)) exp_tol
    else true
  else false.

Definition final_vec (st : kstate) : res V :=
  match s_expd st with
  | None => Err E_UNBOUND
  | Some e => Ok (lincomb e (s_vs st))   (* zip(expd[:len(vs), 0], vs) *)
  end.

Section Loop.
Variable fixed : variant.
Variables (herm : bool) (norm_tol exp_tol : A) (initial_norm : A).
Definition scale0 (v : V) : V := vscale (ofreal initial_norm) v.

Fixpoint floop (fuel j : nat) (st : kstate) : res (kres * V * kstate) :=
  match fuel with
  | O => res_bind (final_vec st) (fun r =>
         res_bind (mk_result false false j) (fun k => Ok (k, scale0 r, st)))
  | S f =>
    res_bind (body herm st j) (fun b =>
      if a_ltb ar (b_n2 b) norm_tol then
        res_bind (mk_result true true (S j)) (fun k =>
          Ok (k, scale0 (b_res_bd b), MkKstate (s_vs st) (b_Tbd b) None))
      else if b_estimate fixed exp_tol b then
        res_bind (final_vec (b_next b)) (fun r =>
        res_bind (mk_result true false (S j)) (fun k => Ok (k, scale0 r, b_next b)))
      else floop f (S j) (b_next b))
  end.
End Loop.

(* krylov_exp_impl(op, v, is_hermitian, exp_tolerance, norm_tolerance, max_krylov_dim) *)
Definition kexp_full (fixed : variant) (v : V) (herm : bool) (exp_tol norm_tol : A) (max_dim : nat)
  : res (kres * V * kstate) :=
  let n0 := nrm v in
  floop fixed herm norm_tol exp_tol n0 max_dim 0 (MkKstate [vdiv v n0] tzero None).

(* the iteration without the exits (ghost run): state at the start of iteration j *)
Fixpoint ghost (herm : bool) (st0 : kstate) (j : nat) : res kstate :=
  match j with
  | O => Ok st0
  | S j' => res_bind (ghost herm st0 j') (fun st =>
            res_bind (body herm st j') (fun b => Ok (b_next b)))
  end.

End Full.

(* ------------------------------------------------------------------------------------------ *)
(* Concrete instance used by the numeric correspondence: complex binary64 pairs, vectors = lists,
   naive left-to-right summation, matrix_exp values supplied as a table (oracle) keyed by size. *)
From Coq Require Import PrimFloat.
Module CF.
Local Open Scope float_scope.
Definition C := (float * float)%type.
Definition c0 : C := (0, 0).
Definition c1 : C := (1, 0).
Definition cadd (x y : C) : C := (fst x + fst y, snd x + snd y).
Definition csub (x y : C) : C := (fst x - fst y, snd x - snd y).
Definition cmul (x y : C) : C := (fst x * fst y - snd x * snd y, fst x * snd y + snd x * fst y).
Definition cconj (x : C) : C := (fst x, - snd x).
Definition cofreal (r : float) : C := (r, 0).
Definition cabs (x : C) : float := PrimFloat.sqrt (fst x * fst x + snd x * snd x).
Definition cdivr (x : C) (r : float) : C := (fst x / r, snd x / r).
Definition vec := list C.
Fixpoint vadd (u w : vec) : vec :=
  match u, w with
  | [], _ => w          (* python: 0 + tensor *)
  | _, [] => u
  | a :: u', b :: w' => cadd a b :: vadd u' w'
  end.
Fixpoint vsub (u w : vec) : vec :=
  match u, w with
  | a :: u', b :: w' => csub a b :: vsub u' w'
  | _, _ => []
  end.
Definition vscale (c : C) (u : vec) : vec := map (cmul c) u.
Definition vdiv (u : vec) (r : float) : vec := map (fun x => cdivr x r) u.
Definition dot (u w : vec) : C :=
  fold_left (fun acc p => cadd acc (cmul (fst p) (snd p))) (combine u w) c0.
Definition inner (u w : vec) : C := dot (map cconj u) w.
Definition nrm (w : vec) : float :=
  PrimFloat.sqrt (fold_left (fun acc x => acc + (fst x * fst x + snd x * snd x)) w 0).
Definition matvec (M : list vec) (v : vec) : vec := map (fun row => dot row v) M.
Fixpoint lookup (n : nat) (tab : list (nat * vec)) : vec :=
  match tab with
  | [] => []
  | (m, e) :: tab' => if Nat.eqb m n then e else lookup n tab'
  end.
Definition mexp_tab (tab : list (nat * vec)) : (nat -> nat -> C) -> nat -> nat -> C :=
  fun _ n i => nth i (lookup n tab) (nan, nan).

Definition tdump (T : nat -> nat -> C) (n : nat) : list C :=
  flat_map (fun r => map (fun c => T r c) (seq 0 n)) (seq 0 n).

Definition kexp_float (fixed : variant) (M : list vec) (v : vec) (herm : bool) (exp_tol norm_tol : float)
    (max_dim : nat) (tab : list (nat * vec)) : (Z * (bool * (bool * nat))) * (vec * list C) :=
  match kexp_full float_arith c0 c1 cmul cofreal cabs [] vadd vsub vscale vdiv (matvec M)
                  inner nrm (mexp_tab tab) fixed v herm exp_tol norm_tol max_dim with
  | Ok (k, r, st) => (outcome (Ok k), (r, tdump (s_T st) (k_iters k + 2)))
  | Err m => (outcome (Err m), ([], []))
  | OutOfFuel => (outcome OutOfFuel, ([], []))
  end.
End CF.
