(* Hand model (H-tie, checked by tools/props/c21.py and c14.py on every run) of
   - emu_base/pulser_adapter.py : _unique_observable_times, _get_target_times, the
     `for _ in range(samples.reps)` loop of PulserData.get_sequences;
   - the step loops of emu_sv/sv_backend_impl.py (SVBackendImpl._run/step/_compute_dt) and
     emu_mps/mps_backend_impl.py (progress/sweep_complete/timestep_complete), both copies of
     `_is_evaluation_time`, `_apply_observables`/`fill_results`, the Statistics call;
   - pulser-core 1.9.1: Observable._validate_eval_times, Observable.__call__ (time gate),
     EmulationConfig.is_evaluation_time / is_time_in_evaluation_times, Results._store_raw.
   Written once over [Arith A]; run bit-exactly at PrimFloat, reasoned about at R.
   Executable definitions only, no proofs. *)
From Coq Require Import ZArith List Bool Reals.
From Coq Require Import PrimFloat FloatOps SpecFloat.
From EV Require Import Base.Arith.
Import ListNotations.
Set Implicit Arguments.

(* ---- floor : A -> option Z (None: math.floor / int() raise on inf, nan) ------------------ *)
Definition float_floor (x : float) : option Z :=
  match Prim2SF x with
  | S754_zero _ => Some 0%Z
  | S754_finite s m e =>
      let mz := Zpos m in
      Some (if (0 <=? e)%Z then (if s then - (mz * 2 ^ e) else mz * 2 ^ e)%Z
            else let d := (2 ^ (- e))%Z in
                 if s then (- ((mz + d - 1) / d))%Z else (mz / d)%Z)
  | _ => None
  end.
Definition R_floor (x : R) : option Z := Some (Int_part x).

(* Error codes (all are Python exceptions of the real code):
   1  ValueError  default_evaluation_times "Full" with an observable without own times
   2  ZeroDivisionError (dt == 0, or duration == 0)
   3  OverflowError/ValueError of math.floor / int on inf, nan
   10 RuntimeError "A value is already stored" (Results._store_raw)
   11 AssertionError "Evaluation times are not sorted" (Results._store_raw)
   20 ValueError "Evaluation times must be unique up to 1e-12"
   21 ValueError "Evaluation times must be in ascending order"
   22 ValueError "All evaluation times must be between 0. and 1."
   30 IndexError target_times[...] *)

Section Grid.
Variable A : Type.
Variable ar : Arith A.
Variable fl : A -> option Z.
Variable tolb : A.  (* 1e-10 : tolerance of the backends' _is_evaluation_time *)
Variable tol0 : A.  (* 1e-6  : pulser's gate tolerance when total_duration == 0 *)
Variable tolu : A.  (* 1e-12 : pulser.backend.observable.TIME_TOLERANCE, and the adapter's
                       _TIME_TOLERANCE (merging of near-duplicate target times) *)

Definition zero : A := a_ofZ ar 0.
Definition one : A := a_ofZ ar 1.

(* Python set of floats followed by sorted(): insertion into a strictly sorted list, dropping
   elements equal (==) to one already present. *)
Fixpoint insert (x : A) (l : list A) : list A :=
  match l with
  | [] => [x]
  | h :: t => if a_ltb ar x h then x :: l
              else if a_eqb ar x h then l else h :: insert x t
  end.
Definition sort_dedup (l : list A) : list A := fold_right insert [] l.

(* config.observables is abstracted to the evaluation_times of each observable
   (None = use the config default); dflt = None stands for default_evaluation_times == "Full" *)
Definition obs_times (dflt : option (list A)) (o : option (list A)) : res (list A) :=
  match o with
  | Some ts => Ok ts
  | None => match dflt with Some d => Ok d | None => Err 1%Z end
  end.

Fixpoint unique_observable_times (obs : list (option (list A))) (dflt : option (list A))
  : res (list A) :=
  match obs with
  | [] => Ok []
  | o :: r => res_bind (obs_times dflt o) (fun ts =>
              res_bind (unique_observable_times r dflt) (fun l => Ok (ts ++ l)))
  end.

(* { i * float(dt) / duration for i in range(n_steps + 1) } *)
Definition grid_rel (dur dt : A) (n : Z) : list A :=
  map (fun i => a_div ar (a_mul ar (a_ofZ ar (Z.of_nat i)) dt) dur) (seq 0 (Z.to_nat (n + 1))).

Definition n_steps (dur dt : A) : res Z :=
  if a_eqb ar dt zero then Err 2%Z
  else match fl (a_div ar dur dt) with None => Err 3%Z | Some n => Ok n end.

(* the loop of _get_target_times over the sorted points: a point is skipped when its relative
   distance to the last point kept is below _TIME_TOLERANCE *)
Fixpoint merge_from (dur prev : A) (l : list A) : list A :=
  match l with
  | [] => []
  | t :: r => if a_ltb ar (a_sub ar (a_div ar t dur) (a_div ar prev dur)) tolu
              then merge_from dur prev r else t :: merge_from dur t r
  end.
Definition merge_close (dur : A) (l : list A) : list A :=
  match l with [] => [] | t0 :: r => t0 :: merge_from dur t0 r end.

(* target_times[-1] = duration *)
Fixpoint set_last (d : A) (l : list A) : list A :=
  match l with
  | [] => []
  | x :: r => match r with [] => [d] | _ :: _ => x :: set_last d r end
  end.

Definition candidates (dur dt : A) (n : Z) (req : list A) : list A :=
  sort_dedup (map (fun t => a_mul ar t dur) (grid_rel dur dt n ++ one :: req)).

Definition target_times_of (dur dt : A) (n : Z) (req : list A) : list A :=
  set_last dur (merge_close dur (candidates dur dt n req)).

Definition get_target_times (dur dt : A) (obs : list (option (list A))) (dflt : option (list A))
  : res (list A) :=
  res_bind (n_steps dur dt) (fun n =>
    if (0 <=? n)%Z && a_eqb ar dur zero then Err 2%Z
    else res_bind (unique_observable_times obs dflt) (fun req =>
         match target_times_of dur dt n req with
         | [] => Err 30%Z   (* unreachable: 1.0 * duration is always a point *)
         | g => Ok g
         end)).

(* get_sequences: one SequenceData per repetition, trajectory after trajectory.  A trajectory
   is abstracted to an identifier of type T. *)
Definition get_sequences (T : Type) (samples : list (T * nat)) : list T :=
  flat_map (fun s => repeat (fst s) (snd s)) samples.

(* ---- recording --------------------------------------------------------------------------- *)
Definition in01 (t : A) : bool := a_leb ar zero t && a_leb ar t one.

(* EmulationConfig.is_time_in_evaluation_times *)
Definition in_times (t : A) (times : list A) (tol : A) : bool :=
  in01 t && existsb (fun e => a_leb ar (a_abs ar (a_sub ar e t)) tol) times.

(* EmulationConfig.is_evaluation_time *)
Definition is_evaluation_time (dflt : option (list A)) (t : A) (tol : A) : bool :=
  match dflt with
  | None => in01 t
  | Some d => in_times t d tol
  end.

(* _is_evaluation_time of both backends (tolerance 1e-10): the config default only applies to
   observables without evaluation times of their own *)
Definition backend_gate (dflt : option (list A)) (o : option (list A)) (t : A) : bool :=
  match o with
  | Some ts => in_times t ts tolb
  | None => is_evaluation_time dflt t tolb
  end.

(* time gate of pulser's Observable.__call__ (tolerance tolp = 0.5/total_duration) *)
Definition pulser_gate (dflt : option (list A)) (tolp : A) (o : option (list A)) (t : A) : bool :=
  match o with
  | Some ts => in_times t ts tolp
  | None => is_evaluation_time dflt t tolp
  end.

Fixpoint adj_all (p : A -> A -> bool) (l : list A) : bool :=
  match l with
  | a :: t => match t with b :: _ => p a b && adj_all p t | [] => true end
  | [] => true
  end.

(* Observable._validate_eval_times *)
Definition validate_times (ts : list A) : res unit :=
  if existsb (fun x => a_ltb ar x zero || a_ltb ar one x) ts then Err 22%Z
  else if negb (adj_all (fun a b => negb (a_ltb ar (a_abs ar (a_sub ar a b)) tolu)) ts)
       then Err 20%Z
  else if negb (adj_all (a_ltb ar) ts) then Err 21%Z
  else Ok tt.

(* Results._store_raw; times are kept most-recent-first, tagged with the number of solver
   steps completed when the value was computed *)
Definition store (times : list (A * nat)) (t : A) (k : nat) : res (list (A * nat)) :=
  if existsb (fun e => a_eqb ar (fst e) t) times then Err 10%Z
  else match times with
       | [] => Ok [(t, k)]
       | (h, _) :: _ => if a_ltb ar h t then Ok ((t, k) :: times) else Err 11%Z
       end.

Fixpoint apply_obs (dflt : option (list A)) (tolp t : A) (k : nat)
         (obs : list (option (list A))) (recs : list (list (A * nat)))
  : res (list (list (A * nat))) :=
  match obs, recs with
  | o :: obs', r :: recs' =>
      res_bind (if backend_gate dflt o t && pulser_gate dflt tolp o t then store r t k else Ok r)
        (fun r' => res_bind (apply_obs dflt tolp t k obs' recs') (fun rs => Ok (r' :: rs)))
  | _, _ => Ok []
  end.

Record rstate := MkR {
  r_recs : list (list (A * nat));   (* per observable, most recent first *)
  r_stat : list (A * nat);          (* the Statistics observable *)
  r_steps : list (A * A);           (* (start time, dt) of every solver step, most recent first *)
}.

Section Loop.
Variable tt : list A.             (* target_times *)
Variable obs : list (option (list A)).
Variable dflt : option (list A).
Variable T tolp : A.
Variable rel : list A.            (* evaluation times of the Statistics observable *)

(* step = index of the interval being simulated; cur = current time *)
Fixpoint loop (n step : nat) (cur : A) (st : rstate) : res rstate :=
  match n with
  | O => Ok st
  | S n' =>
    match nth_error tt (S step) with
    | None => Err 30%Z
    | Some t1 =>
      let steps := (cur, a_sub ar t1 cur) :: r_steps st in
      let trel := a_div ar t1 T in
      res_bind (apply_obs dflt tolp trel (S step) obs (r_recs st)) (fun recs =>
      res_bind (if in_times trel rel tolp then store (r_stat st) trel (S step) else Ok (r_stat st))
        (fun sts => loop n' (S step) t1 (MkR recs sts steps)))
    end
  end.
End Loop.

(* A whole noiseless run on the grid [tt] with [nsteps] rows of drive samples.
   [mps] = true: emu-mps (current_time starts at the literal 0.0);
   [mps] = false: emu-sv (first step starts at target_times[0]). *)
Definition run (mps : bool) (tt : list A) (nsteps : nat)
           (obs : list (option (list A))) (dflt : option (list A)) : res rstate :=
  match tt with
  | [] => Err 30%Z
  | t0 :: _ =>
    let T := last tt zero in
    match fl T with
    | None => Err 3%Z
    | Some td =>
      let tolp := if (td =? 0)%Z then tol0
                  else a_div ar (a_div ar one (a_ofZ ar 2)) (a_ofZ ar td) in
      let rel := map (fun t => a_div ar t T) tt in
      res_bind (validate_times rel) (fun _ =>
      let cur0 := if mps then zero else t0 in
      res_bind (apply_obs dflt tolp (a_div ar cur0 T) 0 obs (map (fun _ => []) obs)) (fun recs =>
      loop tt obs dflt T tolp rel nsteps 0 cur0 (MkR recs [] [])))
    end
  end.

(* what the correspondence compares: per observable (time, steps done) in storage order, the
   Statistics times, the solver steps in execution order *)
Definition summary (r : res rstate)
  : Z * (list (list (A * nat)) * (list (A * nat) * list (A * A))) :=
  match r with
  | Ok st => (0%Z, (map (@rev _) (r_recs st), (rev (r_stat st), rev (r_steps st))))
  | Err m => (m, ([], ([], [])))
  | OutOfFuel => ((-1)%Z, ([], ([], [])))
  end.

(* adapter + backend: the full pipeline for a sequence of duration [dur] *)
Definition run_config (mps : bool) (dur dt : A) (obs : list (option (list A)))
           (dflt : option (list A)) : res rstate :=
  res_bind (get_target_times dur dt obs dflt) (fun tt =>
    run mps tt (length tt - 1) obs dflt).

End Grid.

Definition res_list (A : Type) (r : res (list A)) : Z * list A :=
  match r with Ok l => (0%Z, l) | Err m => (m, []) | OutOfFuel => ((-1)%Z, []) end.

(* compare two float lists with == (used to keep printed values small on big grids) *)
Fixpoint flist_eqb (a b : list float) : bool :=
  match a, b with
  | [], [] => true
  | x :: a', y :: b' => PrimFloat.eqb x y && flist_eqb a' b'
  | _, _ => false
  end.

(* smallest gap between consecutive elements, relative to [dur] (for the F-08 witnesses) *)
Fixpoint min_rel_gap (dur : float) (l : list float) (acc : float) : float :=
  match l with
  | a :: t => match t with
              | b :: _ => let g := PrimFloat.div (PrimFloat.sub b a) dur in
                          min_rel_gap dur t (if PrimFloat.ltb g acc then g else acc)
              | [] => acc
              end
  | [] => acc
  end.
