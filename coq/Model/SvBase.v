(* Formalism F2 (DESIGN.md): flat arrays over a ring with involution, and a tiny semantics of the
   torch operations emu_sv uses, as index maps on ONE flat row-major store.
   Shared by C06 (Hamiltonian / Lindbladian) and C12 (states / operators).  No proofs here.

   A contiguous tensor of shape (d0,d1,d2) viewed on a flat list: the element with coordinates
   (a,b,c) sits at flat index a*d1*d2 + b*d2 + c;  conversely flat index k has coordinates
   (k / (d1*d2), (k / d2) mod d1, k mod d2).  Qubit 0 is the most significant bit. *)
From Coq Require Import List Arith Bool ZArith.
Import ListNotations.

(* Operations of a commutative ring with involution, imaginary unit and 1/2.  The laws are a
   separate record in Proofs/SvBaseProofs.v; the model only needs the operations. *)
Record Kops := MkKops {
  K :> Type;
  k0 : K; k1 : K;
  kadd : K -> K -> K; kmul : K -> K -> K; ksub : K -> K -> K; kopp : K -> K;
  kconj : K -> K;
  kI : K;       (* imaginary unit (torch 1j) *)
  khalf : K;    (* 1/2 (torch "/ 2.0", "0.5") *)
}.

Declare Scope K_scope.
Delimit Scope K_scope with K.
Notation "x + y" := (kadd _ x y) : K_scope.
Notation "x * y" := (kmul _ x y) : K_scope.
Notation "x - y" := (ksub _ x y) : K_scope.
Notation "- x" := (kopp _ x) : K_scope.

(* ---- view (d0,d1,d2): coordinates of a flat index ------------------------------------------ *)
Definition co0 (d1 d2 k : nat) : nat := k / (d1 * d2).
Definition co1 (d1 d2 k : nat) : nat := (k / d2) mod d1.
Definition co2 (d2 k : nat) : nat := k mod d2.
Definition flat3 (d1 d2 a b c : nat) : nat := a * (d1 * d2) + b * d2 + c.
(* size of the last dimension of  t.view(d0, d1, -1)  for a tensor with [len] elements *)
Definition rest (len d0 d1 : nat) : nat := len / (d0 * d1).

(* x[:, b, :] of the view (d0,d1,d2) is an alias: its logical (row-major) index of base index k *)
Definition slice_idx (d1 d2 k : nat) : nat := co0 d1 d2 k * d2 + co2 d2 k.

(* big-endian bits of an index of an N-qubit register *)
Definition qrest (N n : nat) : nat := 2 ^ (N - n - 1).   (* 2 ** (nqubits - n - 1) *)
Definition bit (N n k : nat) : nat := (k / qrest N n) mod 2.
Definition setbit (N n k b : nat) : nat := flat3 2 (qrest N n) (co0 2 (qrest N n) k) b (co2 (qrest N n) k).

Section Ops.
Variable o : Kops.
Open Scope K_scope.
Notation zero := (k0 o).
Notation one := (k1 o).

(* ---- arrays ----------------------------------------------------------------------------- *)
Definition tab (n : nat) (f : nat -> o) : list o := map f (seq 0 n).
Definition get (l : list o) (k : nat) : o := nth k l zero.
Definition zeros (n : nat) : list o := tab n (fun _ => zero).

(* finite sums *)
Definition ksum {A} (l : list A) (f : A -> o) : o := fold_right (fun a acc => f a + acc) zero l.
Definition ksumn (n : nat) (f : nat -> o) : o := ksum (seq 0 n) f.

(* 0/1 valued indicator as a ring element *)
Definition kif (b : bool) (x : o) : o := if b then x else zero.

(* in-place   alias op= x   through an alias that covers exactly the base indices with [p k] *)
Definition inplace_add_where (p : nat -> bool) (x : o) (l : list o) : list o :=
  tab (length l) (fun k => if p k then get l k + x else get l k).

(* res.view(d0,d1,d2).index_add_(1, inds, src, alpha)  where src has shape (d0, len inds, d2) and
   is given by its accessor:   res[a, inds[b], c] += alpha * src[a, b, c]   for every a, b, c *)
Definition index_add1 (d1 d2 : nat) (inds : list nat) (alpha : o) (src : nat -> nat -> nat -> o)
           (res : list o) : list o :=
  tab (length res) (fun k =>
    let a := co0 d1 d2 k in let b' := co1 d1 d2 k in let c := co2 d2 k in
    fold_left (fun acc b => if nth b inds d1 =? b' then acc + alpha * src a b c else acc)
              (seq 0 (length inds)) (get res k)).

(* accessor of a full 3-d view of a flat list, and of  x[:, b0, :].unsqueeze(1) *)
Definition view3 (d1 d2 : nat) (x : list o) : nat -> nat -> nat -> o :=
  fun a b c => get x (flat3 d1 d2 a b c).
Definition select1 (d1 d2 b0 : nat) (x : list o) : nat -> nat -> nat -> o :=
  fun a _ c => get x (flat3 d1 d2 a b0 c).

(* elementwise *)
Definition vadd (x y : list o) : list o := tab (length x) (fun k => get x k + get y k).
Definition vsub (x y : list o) : list o := tab (length x) (fun k => get x k - get y k).
Definition vmul (x y : list o) : list o := tab (length x) (fun k => get x k * get y k).
Definition vscale (a : o) (x : list o) : list o := tab (length x) (fun k => a * get x k).

(* ---- 2x2 matrices ----------------------------------------------------------------------------- *)
Definition M2 : Type := (o * o * o * o)%type.          (* (m00, m01, m10, m11) *)
Definition m2 (m : M2) (b b' : nat) : o :=
  let '(m00, m01, m10, m11) := m in
  match b, b' with
  | O, O => m00 | O, _ => m01 | _, O => m10 | _, _ => m11
  end.
Definition m2tab (f : nat -> nat -> o) : M2 := (f 0 0, f 0 1, f 1 0, f 1 1)%nat.
Definition m2conj (m : M2) : M2 := m2tab (fun b b' => kconj o (m2 m b b')).
Definition m2mH (m : M2) : M2 := m2tab (fun b b' => kconj o (m2 m b' b)).
Definition m2mul (x y : M2) : M2 :=
  m2tab (fun b b' => zero + m2 x b 0%nat * m2 y 0%nat b' + m2 x b 1%nat * m2 y 1%nat b').
Definition m2add (x y : M2) : M2 := m2tab (fun b b' => m2 x b b' + m2 y b b').
Definition m2zero : M2 := (zero, zero, zero, zero).

End Ops.

Arguments tab {o}. Arguments get {o}. Arguments zeros {o}. Arguments ksum {o A}. Arguments ksumn {o}.
Arguments kif {o}. Arguments inplace_add_where {o}. Arguments index_add1 {o}. Arguments view3 {o}.
Arguments select1 {o}. Arguments vadd {o}. Arguments vsub {o}. Arguments vmul {o}. Arguments vscale {o}.
Arguments m2 {o}. Arguments m2tab {o}. Arguments m2conj {o}. Arguments m2mH {o}. Arguments m2mul {o}.
Arguments m2add {o}. Arguments m2zero {o}.

(* ---- execution instance: dyadic Gaussian rationals (re + i im) / 2^ex ------------------------
   Every finite float64 complex number is of this form, and + - * are exact here, so torch on
   small-integer / half-integer data must agree with this instance exactly. *)
Definition Dy : Type := (Z * Z * N)%type.
Definition dy_align (x y : Dy) : (Z * Z * Z * Z * N) :=
  let '(a, b, e) := x in let '(c, d, f) := y in
  if (e <=? f)%N then (Z.shiftl a (Z.of_N (f - e)), Z.shiftl b (Z.of_N (f - e)), c, d, f)
  else (a, b, Z.shiftl c (Z.of_N (e - f)), Z.shiftl d (Z.of_N (e - f)), e).
Definition dy_add (x y : Dy) : Dy := let '(a, b, c, d, e) := dy_align x y in ((a + c)%Z, (b + d)%Z, e).
Definition dy_sub (x y : Dy) : Dy := let '(a, b, c, d, e) := dy_align x y in ((a - c)%Z, (b - d)%Z, e).
Definition dy_mul (x y : Dy) : Dy :=
  let '(a, b, e) := x in let '(c, d, f) := y in ((a * c - b * d)%Z, (a * d + b * c)%Z, (e + f)%N).
Definition dy_opp (x : Dy) : Dy := let '(a, b, e) := x in ((- a)%Z, (- b)%Z, e).
Definition dy_conj (x : Dy) : Dy := let '(a, b, e) := x in (a, (- b)%Z, e).
Definition dy_eqb (x y : Dy) : bool :=
  let '(a, b, c, d, _) := dy_align x y in (a =? c)%Z && (b =? d)%Z.

Definition DyK : Kops :=
  MkKops Dy (0%Z, 0%Z, 0%N) (1%Z, 0%Z, 0%N) dy_add dy_mul dy_sub dy_opp dy_conj
         (0%Z, 1%Z, 0%N) (1%Z, 0%Z, 1%N).

(* index of the first entry where two arrays differ (as Z), -1 when equal, -2 on length mismatch *)
Fixpoint dy_first_diff (i : Z) (x y : list Dy) : Z :=
  match x, y with
  | [], [] => (-1)%Z
  | a :: x', b :: y' => if dy_eqb a b then dy_first_diff (i + 1)%Z x' y' else i
  | _, _ => (-2)%Z
  end.
