(* Hand model of the control of /repo/emu_mps/optimatrix/optimiser.py over integer matrices.
   SciPy's reverse_cuthill_mckee and torch.randperm are oracles: [rcm] is an arbitrary function of
   the truncated matrix it is given, the random restarts are an arbitrary list [rnds].
   Thresholds are exact fractions (num, den), den > 0:  x < t*A  <->  x*den < num*A.
   Every exception of the Python code is an explicit [Err].  No proofs. *)
From Coq Require Import ZArith List Bool Arith.
From EV Require Import Base.Arith Model.Permutations.
Import ListNotations.
Set Implicit Arguments.
Open Scope Z_scope.

Definition E_EMPTY_MAX : Z := 210.     (* torch.max of an empty tensor: RuntimeError *)
Definition E_EMPTY_MIN : Z := 211.     (* min() of an empty sequence: ValueError *)
Definition E_NOT_CONVERGING : Z := 212.  (* NotImplementedError after 100 accepted rounds *)
Definition E_ASSERT_SYMMETRIC : Z := 213.  (* assert is_symmetric(input_matrix) *)
Definition E_ASSERT_OPTIMISED : Z := 214.  (* assert best_bandwidth <= matrix_bandwidth(input_matrix) *)

Definition matrix := list (list Z).

(* torch.max over a flat list *)
Definition max_list (l : list Z) : res Z :=
  match l with [] => Err E_EMPTY_MAX | x :: l' => Ok (fold_left Z.max l' x) end.

(* weighted = abs(mat * (j_arr - i_arr)), flattened row-major *)
Definition weighted_row (i : nat) (row : list Z) : list Z :=
  map (fun '(j, x) => Z.abs (x * (Z.of_nat j - Z.of_nat i))) (combine (seq 0 (length row)) row).
Definition weighted (m : matrix) : list Z :=
  concat (map (fun '(i, row) => weighted_row i row) (combine (seq 0 (length m)) m)).

(* matrix_bandwidth *)
Definition matrix_bandwidth (m : matrix) : res Z := max_list (weighted m).

Definition mabs (m : matrix) : matrix := map (map Z.abs) m.

(* is_symmetric for integer matrices with |entries| small enough that rtol*|x| < 1: exact *)
Definition entry (m : matrix) (i j : nat) : Z := nth j (nth i m []) 0.
Definition is_symmetric (m : matrix) : bool :=
  let n := length m in
  forallb (fun i => forallb (fun j => entry m i j =? entry m j i) (seq 0 n)) (seq 0 n).

(* first minimum of [key] over a sequence, as Python's min(iterable, key=...) *)
Fixpoint argmin_from {C} (key : C -> res Z) (best : C) (bk : Z) (l : list C) : res (C * Z) :=
  match l with
  | [] => Ok (best, bk)
  | c :: l' => res_bind (key c) (fun k =>
                 if k <? bk then argmin_from key c k l' else argmin_from key best bk l')
  end.
Definition argmin_first {C} (key : C -> res Z) (l : list C) : res (C * Z) :=
  match l with
  | [] => Err E_EMPTY_MIN
  | c :: l' => res_bind (key c) (fun k => argmin_from key c k l')
  end.

Section Opt.
Variable rcm : matrix -> list nat.          (* reverse_cuthill_mckee(csr_matrix(m_trunc)) *)
Variable thresholds : list (Z * Z).         (* torch.arange(0.1, 1.0, 0.01) as exact fractions *)

(* m_trunc = mat.clone(); m_trunc[mat < threshold] = 0 *)
Definition truncate (m : matrix) (t : Z * Z) (amp : Z) : matrix :=
  map (map (fun x => if x * snd t <? fst t * amp then 0 else x)) m.

Definition minimize_bandwidth_above_threshold (m : matrix) (t : Z * Z) (amp : Z) : list nat :=
  rcm (truncate m t amp).

(* matrix_bandwidth(permute_tensor(mat, perm)) *)
Definition score (m : matrix) (perm : list nat) : res Z :=
  res_bind (permute_matrix m perm) matrix_bandwidth.

Definition minimize_bandwidth_global (m : matrix) : res (list nat) :=
  res_bind (max_list (concat (mabs m))) (fun amp =>
  res_bind (argmin_first (score m)
              (map (fun t => minimize_bandwidth_above_threshold m t amp) thresholds))
           (fun r => Ok (fst r))).

(* the `for counter in range(101)` loop; [fuel] = rounds left before NotImplementedError *)
Fixpoint impl_loop (fuel : nat) (m : matrix) (acc : list nat) (bw : Z) : res (list nat * Z) :=
  match fuel with
  | O => Err E_NOT_CONVERGING
  | S f =>
    res_bind (minimize_bandwidth_global m) (fun opt =>
    res_bind (permute_matrix m opt) (fun test_mat =>
    res_bind (matrix_bandwidth test_mat) (fun nb =>
    if bw <=? nb then Ok (acc, bw)
    else res_bind (permute_vector acc opt) (fun acc' => impl_loop f test_mat acc' nb))))
  end.

Definition list_nat_eqb (a b : list nat) : bool :=
  (length a =? length b)%nat && forallb (fun '(x, y) => (x =? y)%nat) (combine a b).

Definition minimize_bandwidth_impl (m : matrix) (initial_perm : list nat) : res (list nat * Z) :=
  res_bind (if list_nat_eqb initial_perm (seq 0 (length m)) then Ok m
            else permute_matrix m initial_perm) (fun m1 =>
  res_bind (matrix_bandwidth m1) (fun bw => impl_loop 100 m1 initial_perm bw)).

(* min over (perm, bandwidth) pairs by bandwidth, first minimum *)
Fixpoint best_pair (best : list nat * Z) (l : list (list nat * Z)) : list nat * Z :=
  match l with
  | [] => best
  | c :: l' => if snd c <? snd best then best_pair c l' else best_pair best l'
  end.

Definition minimize_bandwidth (input : matrix) (rnds : list (list nat)) : res (list nat) :=
  if negb (is_symmetric input) then Err E_ASSERT_SYMMETRIC else
  let m := mabs input in
  res_bind (mapM (minimize_bandwidth_impl m) (seq 0 (length m) :: rnds)) (fun rs =>
  match rs with
  | [] => Err E_EMPTY_MIN
  | r0 :: rs' =>
    let best := best_pair r0 rs' in
    res_bind (matrix_bandwidth input) (fun b0 =>
    if snd best <=? b0 then Ok (fst best) else Err E_ASSERT_OPTIMISED)
  end).
End Opt.

(* torch.arange(0.1, 1.0, 0.01) (float32 values) as exact fractions over 2^27; compared with what
   torch returns on every run by tools/props/c32.py *)
Definition den27 : Z := 134217728.
Definition torch_thresholds : list (Z * Z) := map (fun k => (k, den27))
  [
   13421773; 14763950; 16106128; 17448304; 18790482; 20132660; 21474836; 22817014;
   24159192; 25501370; 26843546; 28185724; 29527902; 30870078; 32212256; 33554432;
   34896608; 36238784; 37580964; 38923140; 40265316; 41607496; 42949672; 44291848;
   45634028; 46976204; 48318384; 49660560; 51002736; 52344916; 53687092; 55029268;
   56371444; 57713620; 59055800; 60397976; 61740152; 63082332; 64424508; 65766684;
   67108864; 68451040; 69793216; 71135392; 72477576; 73819752; 75161928; 76504104;
   77846280; 79188456; 80530632; 81872808; 83214992; 84557168; 85899344; 87241520;
   88583704; 89925880; 91268056; 92610232; 93952416; 95294592; 96636768; 97978944;
   99321120; 100663296; 102005472; 103347648; 104689832; 106032008; 107374184; 108716360;
   110058536; 111400712; 112742888; 114085064; 115427248; 116769424; 118111600; 119453776;
   120795952; 122138136; 123480312; 124822488; 126164664; 127506840; 128849016; 130191200;
   131533376; 132875552
  ].

(* the predicate the theorems state, executable: used to judge the real optimiser's output *)
Definition result_ok (input : matrix) (p : list nat) : bool :=
  is_permb (length input) p &&
  match score input p, matrix_bandwidth input with
  | Ok b, Ok b0 => b <=? b0
  | _, _ => false
  end.

(* replayed RCM oracle: a finite table from truncated matrices to the recorded answers
   (a miss answers [], which the correspondence then reports as a disagreement) *)
Definition row_eqb (a b : list Z) : bool :=
  (length a =? length b)%nat && forallb (fun '(x, y) => x =? y) (combine a b).
Definition matrix_eqb (a b : matrix) : bool :=
  (length a =? length b)%nat && forallb (fun '(x, y) => row_eqb x y) (combine a b).
Fixpoint lookup_oracle (tbl : list (matrix * list nat)) (m : matrix) : list nat :=
  match tbl with
  | [] => []
  | (k, v) :: t => if matrix_eqb k m then v else lookup_oracle t m
  end.
