(* C33 — hand-written glue around the generated guards (Gen/Guards.v): definitions only. *)
From Coq Require Import ZArith Bool List String.
From Coq Require Import PrimFloat.
From EV Require Import Base.Arith Gen.Guards.
Import ListNotations.
Open Scope string_scope.

(* exception class of a failed construction (Err codes are class*100000 + source line) *)
Definition err_class {T} (r : res T) : option Z :=
  match r with Err m => Some (m / 100000)%Z | _ => None end.

(* What MPSBackend._run_from_sequence_data does before any time step: create_impl picks the
   implementation class, whose constructor may refuse (only DMRGBackendImpl has a guard). *)
Definition mps_select (has_lindblad solver_is_dmrg : bool) (noise_types : list string) : res impl_kind :=
  match create_impl has_lindblad solver_is_dmrg with
  | ImplDMRG => res_bind (dmrg_init_guard noise_types) (fun _ => Ok ImplDMRG)
  | k => Ok k
  end.

(* the dispatcher sends every DMRG request to the DMRG constructor (whole domain: 2 cases) *)
Definition dmrg_dispatch_ok : bool :=
  forallb (fun hl => match create_impl hl true with ImplDMRG => true | _ => false end) [true; false].

(* Specification side: observables whose value does not depend on the order of the qubits. *)
Definition order_invariant_tags : list string :=
  ["statistics"; "energy"; "energy_variance"; "energy_second_moment"].

Definition mem_tag (t : string) (l : list string) : bool := existsb (String.eqb t) l.

(* binary64 instance used by the correspondence *)
Definition config_float (p e a : float) (o : bool) (tags : list string) : res (float * bool) :=
  mps_config_init float_arith p e a o tags.
(* precision * effective extra tolerance, and whether it reaches the binary64 value of 1e-12 *)
Definition floor_product_float (p e a : float) : option (float * bool) :=
  match mps_config_init float_arith p e a true [] with
  | Ok (e', _) => Some (PrimFloat.mul p e', PrimFloat.leb (PrimFloat.div (float_ofZ 1) (float_ofZ 1000000000000)) (PrimFloat.mul p e'))
  | _ => None
  end.
