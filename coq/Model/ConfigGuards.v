(* C33 — hand-written glue around the generated guards (Gen/Guards.v): definitions only. *)
From Coq Require Import ZArith Bool List String.
From Coq Require Import PrimFloat.
From EV Require Import Base.Arith Gen.Guards.
From EV Require Export Model.DispatchModel.
Import ListNotations.
Open Scope string_scope.

(* Specification side: observables whose value does not depend on the order of the qubits. *)
Definition order_invariant_tags : list string :=
  ["statistics"; "energy"; "energy_variance"; "energy_second_moment"].

Definition mem_tag (t : string) (l : list string) : bool := existsb (String.eqb t) l.

(* binary64 instance used by the correspondence *)
Definition config_float (p e a : float) (o : bool) (tags : list string) : res (float * bool) :=
  mps_config_init float_arith p e a o tags.
(* precision * effective extra tolerance, and whether it reaches the binary64 value of 1e-12 *)
Definition floor_product_float (p e a : float) : option (float * bool) :=
  match mps_config_init float_arith p e a true [] with
  | Ok (e', _) => Some (PrimFloat.mul p e', PrimFloat.leb (PrimFloat.div (float_ofZ 1) (float_ofZ 1000000000000)) (PrimFloat.mul p e'))
  | _ => None
  end.
