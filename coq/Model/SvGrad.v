(* C30: executable model of the sparse derivative operators of /repo/emu_sv/time_evolution.py
   (DHDOmegaSparse, DHDPhiSparse, DHDDeltaSparse, DHDUSparse: __init__ + __matmul__) in the index-map
   semantics of Model/SvBase.v, over any coefficient structure [Kops].  The batch of Krylov vectors
   e_l of shape (m, 2^N) is the flat list of length m * 2^N: a view (m, 2^i, 2, r) indexed on dim 2 is
   the view (m * 2^i, 2, r) indexed on dim 1 of the same store.  No proofs here; the tie to /repo is the
   exact correspondence of tools/props/c30.py. *)
From Coq Require Import List Arith Bool.
From EV Require Import Model.SvBase Model.SvHam.
Import ListNotations.

Section Grad.
Variable o : Kops.
Open Scope K_scope.
Notation zero := (k0 o).
Notation L := (list o).

(* _apply_omega_real:  result.index_add_(2, [1, 0], source, alpha=alpha)   on result = zeros_like(vec) *)
Definition apply_omega_real (d2 : nat) (alpha : o) (vec : L) : L :=
  index_add1 2 d2 [1; 0] alpha (view3 2 d2 vec) (zeros (length vec)).

(* _apply_omega_complex:
     result.index_add_(2, inds[0] = 1, source.select(2, 0).unsqueeze(2), alpha=alpha)
     result.index_add_(2, inds[1] = 0, source.select(2, 1).unsqueeze(2), alpha=alpha.conjugate()) *)
Definition apply_omega_complex (d2 : nat) (alpha : o) (vec : L) : L :=
  let r1 := index_add1 2 d2 [1] alpha (select1 2 d2 0 vec) (zeros (length vec)) in
  index_add1 2 d2 [0] (kconj o alpha) (select1 2 d2 1 vec) r1.

(* DHDOmegaSparse(index, device, nqubits, phi) @ vec.
   [phinz] is phi.is_nonzero(), [e] is torch.exp(1j * phi) as computed by torch;
   self.alpha = 0.5 * torch.exp(1j * phi).item();  shape (2**index, 2, 2**(nqubits-index-1)) *)
Definition dhd_omega (N i : nat) (phinz : bool) (e : o) (vec : L) : L :=
  let alpha := khalf o * e in
  if phinz then apply_omega_complex (qrest N i) alpha vec else apply_omega_real (qrest N i) alpha vec.

(* DHDPhiSparse(index, device, nqubits, omega, phi) @ vec.
   [ep] is torch.exp(1j * (phi + torch.pi / 2));  self.alpha = 0.5 * (omega * ep).item() *)
Definition dhd_phi (N i : nat) (omega ep : o) (vec : L) : L :=
  apply_omega_complex (qrest N i) (khalf o * (omega * ep)) vec.

(* DHDDeltaSparse(i, nqubits) @ vec:  result = vec.clone().view(m, 2**i, 2, r); result[:, :, 0] = 0; -result *)
Definition dhd_delta (N i : nat) (vec : L) : L :=
  tab (length vec) (fun k => - (if co1 2 (qrest N i) k =? 0 then zero else get vec k)).

(* DHDUSparse(i, j, nqubits) @ vec:  shape (2**i, 2, 2**(j-i-1), 2, 2**(nqubits-j-1));
     result[:, :, 0] = 0.0 ; result[:, :, 1, :, 0] = 0.0 *)
Definition dhd_U (N i j : nat) (vec : L) : L :=
  let d4 := (2 ^ (N - j - 1))%nat in
  let d2 := (2 ^ (j - i - 1) * (2 * d4))%nat in
  tab (length vec) (fun k =>
    if co1 2 d2 k =? 0 then zero else if co1 2 d4 k =? 0 then zero else get vec k).

(* functional update of one entry (statements only):  l[k] := x *)
Definition upd (l : L) (k : nat) (x : o) : L := tab (length l) (fun n => if n =? k then x else get l n).
Definition updU (U : list (list o)) (i j : nat) (x : o) : list (list o) :=
  map (fun a => if a =? i then upd (nth a U []) j x else nth a U []) (seq 0 (length U)).

End Grad.

Definition dhd_checked (o : Kops) (N : nat) (vec r : list o) : option (list o) :=
  if (0 <? length vec) && (length vec mod 2 ^ N =? 0) then Some r else None.
