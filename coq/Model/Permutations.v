(* Hand model of /repo/emu_mps/optimatrix/permutations.py (tied by the C32/C03 correspondence).
   Tensors of indices are lists of nat, lists/tuples/1D tensors are lists, strings are Coq strings,
   square 2D tensors are lists of rows.  Every Python exception is an explicit [Err].  No proofs. *)
From Coq Require Import String Ascii ZArith List Bool Arith.
From EV Require Import Base.Arith.
Import ListNotations.
Set Implicit Arguments.

Definition E_INDEX : Z := 201%Z.   (* IndexError: index out of range *)
Definition E_UNINIT : Z := 202%Z.  (* result would expose torch.empty_like memory (input not a permutation) *)
Definition E_SHAPE : Z := 203%Z.   (* ValueError: only 1D or square 2D tensors *)

Fixpoint mapM {A B} (f : A -> res B) (l : list A) : res (list B) :=
  match l with
  | [] => Ok []
  | x :: l' => res_bind (f x) (fun y => res_bind (mapM f l') (fun ys => Ok (y :: ys)))
  end.

(* l[i] for a non-negative index *)
Definition get {A} (l : list A) (i : nat) : res A :=
  match nth_error l i with Some x => Ok x | None => Err E_INDEX end.

(* Python / torch index normalisation: -n <= z < n, negative counts from the end *)
Definition py_index (n : nat) (z : Z) : res nat :=
  if ((0 <=? z) && (z <? Z.of_nat n))%Z then Ok (Z.to_nat z)
  else if ((z <? 0) && (- Z.of_nat n <=? z))%Z then Ok (Z.to_nat (z + Z.of_nat n))
  else Err E_INDEX.
Definition py_perm (n : nat) (pz : list Z) : res (list nat) := mapM (py_index n) pz.

(* eye_permutation(n) = torch.arange(n) *)
Definition eye_permutation (n : nat) : list nat := seq 0 n.

(* permute_list: [input_list[i] for i in perm.tolist()] *)
Definition permute_list {A} (l : list A) (perm : list nat) : res (list A) := mapM (get l) perm.

(* permute_tuple: tuple(permute_list(list(t), perm)) *)
Definition permute_tuple {A} (l : list A) (perm : list nat) : res (list A) := permute_list l perm.

(* permute_string: "".join(permute_list(list(s), perm)) *)
Definition permute_string (s : string) (perm : list nat) : res string :=
  res_bind (permute_list (list_ascii_of_string s) perm) (fun cs => Ok (string_of_list_ascii cs)).

(* permute_tensor, 1D: tensor[perm] *)
Definition permute_vector {A} (v : list A) (perm : list nat) : res (list A) := permute_list v perm.

(* permute_tensor, 2D: shape check, then tensor[perm][:, perm] *)
Definition is_square {A} (m : list (list A)) : bool :=
  forallb (fun r => length r =? length m) m.
Definition permute_matrix {A} (m : list (list A)) (perm : list nat) : res (list (list A)) :=
  if is_square m then
    res_bind (permute_list m perm) (fun rows => mapM (fun r => permute_list r perm) rows)
  else Err E_SHAPE.

(* inv_permutation: inv = empty_like(p); inv[p] = arange(len(p)).
   [None] = a cell of the uninitialised buffer never written. *)
Fixpoint set_nth {A} (l : list A) (i : nat) (v : A) : option (list A) :=
  match l, i with
  | [], _ => None
  | _ :: l', O => Some (v :: l')
  | x :: l', S i' => match set_nth l' i' v with Some r => Some (x :: r) | None => None end
  end.
Fixpoint scatter (arr : list (option nat)) (p : list nat) (k : nat) : res (list (option nat)) :=
  match p with
  | [] => Ok arr
  | i :: p' => match set_nth arr i (Some k) with
               | None => Err E_INDEX
               | Some arr' => scatter arr' p' (S k)
               end
  end.
Fixpoint all_some {A} (l : list (option A)) : option (list A) :=
  match l with
  | [] => Some []
  | None :: _ => None
  | Some x :: l' => match all_some l' with Some r => Some (x :: r) | None => None end
  end.
Definition inv_permutation (p : list nat) : res (list nat) :=
  res_bind (scatter (repeat None (length p)) p 0) (fun arr =>
    match all_some arr with Some q => Ok q | None => Err E_UNINIT end).

(* The same helpers as Python sees them: index tensors may hold negative entries. *)
Definition permute_list_py {A} (l : list A) (pz : list Z) : res (list A) :=
  res_bind (py_perm (length l) pz) (permute_list l).
Definition permute_string_py (s : string) (pz : list Z) : res string :=
  res_bind (py_perm (String.length s) pz) (permute_string s).
Definition permute_matrix_py {A} (m : list (list A)) (pz : list Z) : res (list (list A)) :=
  if is_square m then res_bind (py_perm (length m) pz) (permute_matrix m) else Err E_SHAPE.
Definition inv_permutation_py (pz : list Z) : res (list nat) :=
  res_bind (py_perm (length pz) pz) inv_permutation.

(* decidable "p is a permutation of 0..n-1" *)
Fixpoint nodupb (l : list nat) : bool :=
  match l with [] => true | x :: l' => negb (existsb (Nat.eqb x) l') && nodupb l' end.
Definition is_permb (n : nat) (p : list nat) : bool :=
  (length p =? n) && forallb (fun i => i <? n) p && nodupb p.
