(* Hand model (formalism F3) of the ring-only MPS/MPO algebra of /repo:
     emu_mps/algebra.py : add_factors, scale_factors, zip_right_step/zip_right (contraction part, QR as oracle)
     emu_mps/mps.py     : MPS.inner, MPS._from_state_amplitudes (accumulation, before truncation)
     emu_mps/utils.py   : new_left_bath  / emu_mps/mpo.py : MPO.expect
   Tied to the code by the exact Gaussian-integer correspondence of tools/props/c11.py.
   No proofs in this file. *)
From Coq Require Import ZArith List Bool Arith.
From EV Require Import Model.TransferMat.
Import ListNotations.
Set Implicit Arguments.

Section Alg.
Variable K : Type.
Variable Ko : RingOps K.
Local Notation "'zero'" := (k0 Ko).
Local Notation "'one'" := (k1 Ko).
Local Infix "[+]" := (kadd Ko) (at level 50, left associativity).
Local Infix "[*]" := (kmul Ko) (at level 40, left associativity).
Local Notation T3 := (T3 K).

(* ---- torch.cat along the right bond (dim=-1) / the left bond (dim=0); torch raises when the
   other dimensions differ ------------------------------------------------------------------- *)
Definition cat_r (A B : T3) : option T3 :=
  if (dl A =? dl B) && (dp A =? dp B) then
    Some (MkT3 (dl A) (dp A) (dr A + dr B)
               (fun l s r => if r <? dr A then tf A l s r else tf B l s (r - dr A)))
  else None.
Definition cat_l (A B : T3) : option T3 :=
  if (dr A =? dr B) && (dp A =? dp B) then
    Some (MkT3 (dl A + dl B) (dp A) (dr A)
               (fun l s r => if l <? dl A then tf A l s r else tf B (l - dl A) s r))
  else None.
Definition zeros3 (l p r : nat) : T3 := MkT3 l p r (fun _ _ _ => zero).

Definition obind (A B : Type) (x : option A) (f : A -> option B) : option B :=
  match x with Some a => f a | None => None end.

(* the `else` branch of add_factors: [[core1, 0], [0, core2]] *)
Definition add_mid (A B : T3) : option T3 :=
  obind (cat_l A (zeros3 (dl B) (dp A) (dr A))) (fun p1 =>
  obind (cat_l (zeros3 (dl A) (dp B) (dr B)) B) (fun p2 => cat_r p1 p2)).

Fixpoint add_go (i n : nat) (A B : list T3) : option (list T3) :=
  match A, B with
  | a :: A', b :: B' =>
      obind (if i =? 0 then cat_r a b else if i =? n - 1 then cat_l a b else add_mid a b) (fun c =>
      obind (add_go (S i) n A' B') (fun C => Some (c :: C)))
  | _, _ => Some []      (* zip stops at the shorter list; lengths are checked before *)
  end.

(* None = the code raises (ValueError for different lengths, RuntimeError from torch.cat) *)
Definition add_factors (A B : list T3) : option (list T3) :=
  if length A =? length B then add_go 0 (length A) A B else None.

(* ---- scale_factors: [scalar * f if i == which else f for i, f in enumerate(factors)] -------- *)
Definition tscale (c : K) (T : T3) : T3 := MkT3 (dl T) (dp T) (dr T) (fun l s r => c [*] tf T l s r).
Fixpoint scale_go (i which : nat) (c : K) (A : list T3) : list T3 :=
  match A with
  | [] => []
  | a :: A' => (if i =? which then tscale c a else a) :: scale_go (S i) which c A'
  end.
Definition scale_factors (A : list T3) (c : K) (which : nat) : list T3 := scale_go 0 which c A.

(* ---- MPS.inner: acc[a][l], starting from [[1]];
        acc <- tensordot(acc, B_i, 1); acc <- tensordot(conj A_i, acc, ([0,1],[0,1])) ---------- *)
Definition inner_step (acc : list (list K)) (A B : T3) : list (list K) :=
  map (fun a' => map (fun r =>
        sumn Ko (dl A) (fun a => sumn Ko (dp A) (fun s =>
          kconj Ko (tf A a s a') [*] dotf Ko (nth a acc []) (fun l => tf B l s r))))
      (seq 0 (dr B))) (seq 0 (dr A)).

Definition acc_shape_ok (acc : list (list K)) (n m : nat) : bool :=
  (length acc =? n) && forallb (fun row => length row =? m) acc.

Fixpoint inner_go (acc : list (list K)) (A B : list T3) : option K :=
  match A, B with
  | [], [] => match acc with [[x]] => Some x | _ => None end
  | a :: A', b :: B' =>
      if acc_shape_ok acc (dl a) (dl b) && (dp a =? dp b) then inner_go (inner_step acc a b) A' B'
      else None
  | _, _ => None
  end.
Definition inner (A B : list T3) : option K := inner_go [[one]] A B.

(* ---- product states and the accumulation loop of MPS._from_state_amplitudes ---------------- *)
Definition basis3 (d k : nat) : T3 := MkT3 1 d 1 (fun _ s _ => if s =? k then one else zero).
Definition product_state (d : nat) (ks : list nat) : list T3 := map (basis3 d) ks.
Definition zero_state (d n : nat) : list T3 := repeat (zeros3 1 d 1) n.

(* accum_mps += amplitude * MPS(factors)   (without the truncation of __add__) *)
Fixpoint accumulate (d : nat) (acc : list T3) (terms : list (list nat * K)) : option (list T3) :=
  match terms with
  | [] => Some acc
  | (ks, a) :: rest =>
      obind (add_factors acc (scale_factors (product_state d ks) a 0)) (fun acc' => accumulate d acc' rest)
  end.
Definition from_amplitudes (d n : nat) (terms : list (list nat * K)) : option (list T3) :=
  accumulate d (zero_state d n) terms.

End Alg.

(* ---- executable comparison helpers at the Gaussian integers (used by the correspondence) ---- *)
Definition gi_eqb (a b : GI) : bool := (Z.eqb (fst a) (fst b) && Z.eqb (snd a) (snd b))%bool.
Fixpoint list_eqb (A B : Type) (e : A -> B -> bool) (x : list A) (y : list B) : bool :=
  match x, y with
  | [], [] => true
  | a :: x', b :: y' => e a b && list_eqb e x' y'
  | _, _ => false
  end.
(* a real tensor is passed as (l, p, r, nested list) *)
Definition RawT := (nat * nat * nat * list (list (list GI)))%type.
Definition of_raw (t : RawT) : T3 GI :=
  match t with (l, p, r, data) => of_list3 gi_ops l p r data end.
Definition raw_ok (t : RawT) : bool := match t with (l, p, r, data) => shape_ok3 l p r data end.
Definition t3_eqb (T : T3 GI) (t : RawT) : bool :=
  match t with (l, p, r, data) =>
    (dl T =? l) && (dp T =? p) && (dr T =? r) &&
    list_eqb (list_eqb (list_eqb gi_eqb)) (to_list3 T) data
  end.
Definition chain_eqb (Ts : list (T3 GI)) (ts : list RawT) : bool := list_eqb t3_eqb Ts ts.
(* Some true = equal, Some false = differs, None = the model raised *)
Definition ochain_eqb (Ts : option (list (T3 GI))) (ts : list RawT) : option bool :=
  match Ts with Some C => Some (chain_eqb C ts) | None => None end.
Definition amps (Ts : list (T3 GI)) (bs : list (list nat)) : list (option GI) := map (amp gi_ops Ts) bs.
