(* Hand-written executable model of /repo/emu_base/math/double_krylov.py (lanczos, double_krylov), the evaluation
   of the Frechet derivative used by EvolveStateVector.backward.  Tied to the source by the event-trace
   correspondence of tools/props/c30.py (exact).  No proofs here.

   (a) [Lanczos]: the control flow and bookkeeping of `lanczos` as a state machine over oracle streams
       (formalism F4, as Model/KrylovExp.v does for krylov_exp_impl):
         n2 j   = norm of w after orthogonalisation in iteration j    (python: n2)
         err1 j = abs(expd[j+1,0]),  err2 j = abs(expd[j+2,0]*n)      (python: err1, err2)
         ov k j = the overlap stored in T[k, j]                       (python: overlap)
       The machine state is (j, len) with len = len(lanczos_vectors); that len = j + 1 (the operator is always
       applied to the newest vector, no IndexError) is a THEOREM (Proofs/DoubleKrylovProofs.v), not built in.
       It produces the event trace (which kernel is called on which vector, in which order), the write log of T
       and the outcome.
   (b) [Double]: double_krylov = lanczos on state, then lanczos on grad, block_diag, the single corner entry,
       matrix_exp of the block matrix, the top-right block.
   (c) [Block]: 2x2 block matrices over a (non-commutative) ring: the algebra the method rests on. *)
From Coq Require Import ZArith List Bool Arith.
From EV Require Import Base.Arith Model.KrylovExp.
Import ListNotations.
Set Implicit Arguments.

(* One event per kernel call / list operation of the source, in program order. *)
Inductive event :=
| ENorm0                 (* v.norm()  in  lanczos_vectors = [v / v.norm()] *)
| EOp (k j : nat)        (* iteration j: w = op(lanczos_vectors[k]) *)
| ENorm (j : nat)        (* n = w.norm() *)
| EDot (k j : nat)       (* overlap = tensordot(lanczos_vectors[k].conj(), w); T[k, j] = overlap; w -= overlap * v_k *)
| ENorm2 (j : nat)       (* n2 = w.norm(); T[j + 1, j] = n2 *)
| EAppend (i : nat)      (* lanczos_vectors.append(w / n2): the new vector has index i *)
| EExp (n : nat)         (* torch.linalg.matrix_exp(T[:n, :n]) *)
| EBlock (ns ng : nat)   (* torch.block_diag(Ts, Tg) with Ts ns x ns, Tg ng x ng *)
| ENormS | ENormG        (* state.norm(), grad.norm() *)
| ECorner (r c : nat)    (* big_mat[r, c] = state.norm() * grad.norm() *)
| EBigExp (n : nat).     (* torch.matrix_exp(big_mat), big_mat n x n *)

(* encoding for the correspondence: (tag, (a, b)) *)
Definition ev_code (e : event) : nat * (nat * nat) :=
  match e with
  | ENorm0 => (0, (0, 0)) | EOp k j => (1, (k, j)) | ENorm j => (2, (j, 0)) | EDot k j => (3, (k, j))
  | ENorm2 j => (4, (j, 0)) | EAppend i => (5, (i, 0)) | EExp n => (6, (n, 0)) | EBlock a b => (7, (a, b))
  | ENormS => (8, (0, 0)) | ENormG => (9, (0, 0)) | ECorner r c => (10, (r, c)) | EBigExp n => (11, (n, 0))
  end.
Definition is_op (e : event) : bool := match e with EOp _ _ => true | _ => false end.
Definition is_dot (e : event) : bool := match e with EDot _ _ => true | _ => false end.

(* what lanczos returns: len(lanczos_vectors) (T is size x size), the number of executed iterations
   (= operator applications), and whether the exit was the n2 < tolerance one *)
Record lres := MkL { l_size : nat; l_iters : nat; l_happy : bool }.

(* for k in range(max(0, j - 1), j + 1) *)
Definition lz_band (j : nat) : list nat := seq (Nat.pred j) (S j - Nat.pred j).

Section Lanczos.
Variable A : Type.
Variable ar : Arith A.
Variable K : Type.
Variables kzero kone : K.
Variable ofreal : A -> K.
Variables n2 err1 err2 : nat -> A.
Variable ov : nat -> nat -> K.
Variable tol : A.

Definition lz_breakdown (j : nat) : bool := a_ltb ar (n2 j) tol.                            (* if n2 < tolerance *)
Definition lz_estimate (j : nat) : bool := a_ltb ar (err_formula ar (err1 j) (err2 j)) tol.  (* if err < tolerance *)
Definition lz_trigger (j : nat) : bool := lz_breakdown j || lz_estimate j.

(* events of one iteration up to the first exit test / after it *)
Definition lz_head (len j : nat) : list event :=
  [EOp (Nat.pred len) j; ENorm j] ++ map (fun k => EDot k j) (lz_band j) ++ [ENorm2 j].
Definition lz_tail (len j : nat) : list event := [EAppend len; EExp (j + 3)].

(* for j in range(max_krylov_dim): ...      [fuel = max_krylov_dim - j], len = len(lanczos_vectors) *)
Fixpoint lz_loop (fuel j len : nat) : list event * res lres :=
  match fuel with
  | O => ([], Err E_RECURSION)                       (* not converged: raise RecursionError *)
  | S f =>
    if negb (forallb (fun k => Nat.ltb k len) (lz_band j)) then ([EOp (Nat.pred len) j; ENorm j], Err E_INDEX)
    else if lz_breakdown j then (lz_head len j, Ok (MkL len (S j) true))
    else if lz_estimate j then (lz_head len j ++ lz_tail len j, Ok (MkL (S len) (S j) false))
    else let (t, r) := lz_loop f (S j) (S len) in (lz_head len j ++ lz_tail len j ++ t, r)
  end.

(* specification vocabulary of the theorems: the events of a complete iteration j in the intended lock-step
   (the operator is applied to vector j, the new vector gets index j + 1) *)
Definition lz_iter_events (j : nat) : list event := lz_head (S j) j ++ lz_tail (S j) j.

Definition lanczos_ctl (max_dim : nat) : list event * res lres :=
  let (t, r) := lz_loop max_dim 0 1 in (ENorm0 :: t, r).

(* the assignments to T in program order: (row, column, value) *)
Definition twrite := (nat * nat * K)%type.
Fixpoint lz_writes (fuel j : nat) : list twrite :=
  match fuel with
  | O => []
  | S f =>
    let w1 := map (fun k => (k, j, ov k j)) (lz_band j) ++ [(S j, j, ofreal (n2 j))] in
    if lz_breakdown j then w1
    else let w2 := w1 ++ [(S (S j), S j, kone)] in
         if lz_estimate j then w2 else w2 ++ lz_writes f (S j)
  end.
(* T = zeros; the writes in order; read T[r, c] *)
Definition tread (ws : list twrite) (r c : nat) : K :=
  fold_left (fun acc w => match w with (r', c', x) => if Nat.eqb r r' && Nat.eqb c c' then x else acc end) ws kzero.
(* return lanczos_vectors, T[:size, :size] *)
Definition lanczos_T (max_dim : nat) (r c : nat) : K := tread (lz_writes max_dim 0) r c.

End Lanczos.

(* ------------------------------------------------------------------------------------------ *)
Section Double.
Variable A : Type.
Variable ar : Arith A.
Variables n2s e1s e2s n2g e1g e2g : nat -> A.     (* the oracle streams of the two runs *)
Variable tol : A.

(* events tagged with the run they belong to: 0 = lanczos(op, state), 1 = lanczos(op, grad), 2 = double_krylov *)
Definition tag (n : nat) (t : list event) : list (nat * event) := map (pair n) t.

Record dres := MkD { d_ns : nat; d_ng : nat;            (* len(Vs), len(Vg) *)
                     d_rows : nat; d_cols : nat;       (* dS.shape *)
                     d_ops : nat }.                    (* operator applications *)

Definition double_krylov_ctl (max_dim : nat) : list (nat * event) * res dres :=
  let (ts, rs) := lanczos_ctl ar n2s e1s e2s tol max_dim in
  match rs with
  | Ok ls =>
    let (tg, rg) := lanczos_ctl ar n2g e1g e2g tol max_dim in
    match rg with
    | Ok lg =>
      let ns := l_size ls in let ng := l_size lg in
      (tag 0 ts ++ tag 1 tg ++ tag 2 [EBlock ns ng; ENormS; ENormG; ECorner 0 ns; EBigExp (ns + ng)],
       (* dS = matrix_exp(big_mat)[:size_s, size_s:] *)
       Ok (MkD ns ng (Nat.min ns (ns + ng)) (ns + ng - ns) (l_iters ls + l_iters lg)))
    | Err e => (tag 0 ts ++ tag 1 tg, Err e)
    | OutOfFuel => (tag 0 ts ++ tag 1 tg, OutOfFuel)
    end
  | Err e => (tag 0 ts, Err e)
  | OutOfFuel => (tag 0 ts, OutOfFuel)
  end.

(* outcome for the correspondence *)
Definition dk_outcome (r : res dres) : Z * (nat * nat * (nat * nat) * nat) :=
  match r with
  | Ok d => (0%Z, (d_ns d, d_ng d, (d_rows d, d_cols d), d_ops d))
  | Err m => (m, (0, 0, (0, 0), 0))
  | OutOfFuel => ((-1)%Z, (0, 0, (0, 0), 0))
  end.
Definition dk_codes (t : list (nat * event)) : list (nat * (nat * (nat * nat))) :=
  map (fun p => (fst p, ev_code (snd p))) t.
End Double.

(* big_mat = block_diag(Ts, Tg); big_mat[0, size_s] = c *)
Section BigMat.
Variable K : Type.
Variable kzero : K.
Definition big_mat (ns ng : nat) (Ts Tg : nat -> nat -> K) (c : K) (r col : nat) : K :=
  if Nat.eqb r 0 && Nat.eqb col ns then c
  else if Nat.ltb r ns && Nat.ltb col ns then Ts r col
  else if Nat.leb ns r && Nat.leb ns col then Tg (r - ns) (col - ns)
  else kzero.
End BigMat.

(* ------------------------------------------------------------------------------------------ *)
(* (c) 2x2 block matrices [[a, e], [z, b]] over a ring that need not be commutative. *)
Record NRing := MkNRing {
  nr : Type;
  n0 : nr; n1 : nr;
  nadd : nr -> nr -> nr;
  nmul : nr -> nr -> nr;
}.
Section Block.
Variable R : NRing.
Record blk := MkBlk { b11 : nr R; b12 : nr R; b21 : nr R; b22 : nr R }.
Definition blk_mul (x y : blk) : blk :=
  MkBlk (nadd R (nmul R (b11 x) (b11 y)) (nmul R (b12 x) (b21 y)))
        (nadd R (nmul R (b11 x) (b12 y)) (nmul R (b12 x) (b22 y)))
        (nadd R (nmul R (b21 x) (b11 y)) (nmul R (b22 x) (b21 y)))
        (nadd R (nmul R (b21 x) (b12 y)) (nmul R (b22 x) (b22 y))).
Definition blk_one : blk := MkBlk (n1 R) (n0 R) (n0 R) (n1 R).
(* powers by multiplication on the right: x^(n+1) = x^n x *)
Fixpoint blk_pow (x : blk) (n : nat) : blk :=
  match n with O => blk_one | S m => blk_mul (blk_pow x m) x end.
Fixpoint npow (a : nr R) (n : nat) : nr R :=
  match n with O => n1 R | S m => nmul R (npow a m) a end.
(* f 0 + f 1 + ... + f (n-1) *)
Fixpoint nsum (f : nat -> nr R) (n : nat) : nr R :=
  match n with O => n0 R | S m => nadd R (nsum f m) (f m) end.
(* sum_{k < n} a^k e b^(n-1-k) *)
Definition frechet_sum (a e b : nr R) (n : nat) : nr R :=
  nsum (fun k => nmul R (nmul R (npow a k) e) (npow b (n - 1 - k))) n.
(* [[a, e], [0, b]] *)
Definition upper (a e b : nr R) : blk := MkBlk a e (n0 R) b.
End Block.

(* a non-commutative instance: 2x2 integer matrices *)
Definition M2 := (Z * Z * Z * Z)%type.
Definition m2_add (x y : M2) : M2 :=
  match x, y with (a, b, c, d), (a', b', c', d') => (a + a', b + b', c + c', d + d')%Z end.
Definition m2_mul (x y : M2) : M2 :=
  match x, y with (a, b, c, d), (a', b', c', d') =>
    (a * a' + b * c', a * b' + b * d', c * a' + d * c', c * b' + d * d')%Z end.
Definition M2ring : NRing := MkNRing (0, 0, 0, 0)%Z (1, 0, 0, 1)%Z m2_add m2_mul.
