(* Vocabulary of C29 (phase symmetries of the Rydberg Hamiltonian), executable definitions only.
   The Hamiltonian reads the phases only through e_n = exp(i phi_n) (Model/SvHam.v: ham_mul, sigma_complex).
   A constant phase offset c multiplies every e_n by the unit u = exp(i c); negating the phases conjugates e_n. *)
From Coq Require Import List Arith Bool.
From EV Require Import Model.SvBase Model.SvHam.
Import ListNotations.

(* number of excited atoms in basis state k *)
Definition popcount (N k : nat) : nat := fold_right (fun i acc => bit N i k + acc) 0 (seq 0 N).

Section PhaseSym.
Variable o : Kops.
Open Scope K_scope.

Fixpoint upow (u : o) (n : nat) : o := match n with O => k1 o | S m => u * upow u m end.

(* D_u = diag(u^popcount(k)) *)
Definition Du (u : o) (N k : nat) : o := upow u (popcount N k).

(* exp(i (phi + c)) = exp(i phi) * u ;  exp(i (-phi)) = conj (exp(i phi)) *)
Definition shift_e (u : o) (e : list o) : list o := map (fun x => x * u) e.
Definition conj_e (e : list o) : list o := map (kconj o) e.
End PhaseSym.
