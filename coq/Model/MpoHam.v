(* C05 — executable model of /repo/emu_mps/hamiltonian.py (both factor families, make_H, update_H)
   in the transfer-matrix formalism F3 of DESIGN.md, over an arbitrary ring-like structure K.

   An MPO factor is an array  ent l b b' r  (left bond slot, physical out, physical in, right bond
   slot) with explicit bond dimensions.  The code's slot bookkeeping (i/j counters, [-1], [2::2]
   strides, masks) is modelled through LABELLED bonds: every bond is a list of labels
        Done | Idle | Chan c s
   (Done: the term is complete; Idle: nothing placed yet; Chan c s: channel of site s, copy c
   (c = 0 for Rydberg n; c = 0/1 for the XY sx/sy copies) -- "Open s" on a left-half bond,
   "Need s" on a right-half bond) and the integer slot of a label IS its position in that list.
   Definitions only; no proofs here. *)
From Coq Require Import List ZArith Bool Arith.
Import ListNotations.

Record ringops (K : Type) := mkRingOps {
  k0 : K; k1 : K;
  kadd : K -> K -> K; kmul : K -> K -> K; ksub : K -> K -> K; kopp : K -> K;
  kisz : K -> bool;      (* the zero test behind torch's .any() *)
  khalf : K;             (* 0.5 of Operators.sx / Operators.sy *)
  kiu : K                (* the imaginary unit of Operators.sy *)
}.
Arguments k0 {K}. Arguments k1 {K}. Arguments kadd {K}. Arguments kmul {K}. Arguments ksub {K}.
Arguments kopp {K}. Arguments kisz {K}. Arguments khalf {K}. Arguments kiu {K}.

Inductive htype := Ryd | XY.
Inductive lab := Done | Idle | Chan (c s : nat).
Inductive kind := KFirst | KLeft | KMid | KRight | KLast.

(* update_H's arguments: oc = omega*cos(phi), os = omega*sin(phi) (computed by torch before any
   matrix is touched), dl = delta, nz = the (dim x dim) noise block. *)
Record drive (K : Type) := mkDrive {
  d_oc : nat -> K; d_os : nat -> K; d_dl : nat -> K; d_nz : nat -> nat -> K }.
Arguments d_oc {K}. Arguments d_os {K}. Arguments d_dl {K}. Arguments d_nz {K}.

Section Model.
Context {K : Type} (R : ringops K).
Local Notation "0" := (k0 R).
Local Notation "1" := (k1 R).
Local Notation "x +! y" := (kadd R x y) (at level 50, left associativity).
Local Notation "x -! y" := (ksub R x y) (at level 50, left associativity).
Local Notation "x *! y" := (kmul R x y) (at level 40, left associativity).

Definition lsum (l : list K) : K := fold_right (kadd R) 0 l.
Definition sumn (n : nat) (f : nat -> K) : K := lsum (map f (seq O n)).
Definition lprod (l : list K) : K := fold_right (kmul R) 1 l.

(* ---- single-site matrices of class Operators as functions of the physical indices ---------------- *)
Definition idm (b b' : nat) : K := if Nat.eqb b b' then 1 else 0.
Definition nmat (b b' : nat) : K := if Nat.eqb b 1%nat && Nat.eqb b' 1%nat then 1 else 0.
Definition sxm (b b' : nat) : K :=
  match b, b' with O, S O => khalf R | S O, O => khalf R | _, _ => 0 end.
Definition sym (b b' : nat) : K :=
  match b, b' with
  | O, S O => kopp R (khalf R *! kiu R)
  | S O, O => khalf R *! kiu R
  | _, _ => 0
  end.
(* factor[..., :2, :2, ...] = M : the 2x2 block of a (dim x dim) physical matrix *)
Definition emb2 (M : nat -> nat -> K) (b b' : nat) : K :=
  if Nat.ltb b 2 && Nat.ltb b' 2 then M b b' else 0.

Section Sys.
Variable ht : htype.
Variable N : nat.
Variable Uraw : nat -> nat -> K.

(* interaction_matrix.clone().fill_diagonal_(0.0) *)
Definition U (i j : nat) : K := if Nat.eqb i j then 0 else Uraw i j.
Definition mid : nat := Nat.div N 2.

(* tensor[lo : lo+len].any() *)
Definition anyrange (f : nat -> K) (lo len : nat) : bool :=
  existsb (fun j => negb (kisz R (f j))) (seq lo len).

Definition hasR (n : nat) : bool := anyrange (U n) (n + 1) (N - n - 1).   (* U[n, n+1:].any() *)
Definition hasL (n : nat) : bool := anyrange (U n) O n.                    (* U[n, :n].any()   *)
Definition curL (n i : nat) : bool := anyrange (U i) n (N - n).            (* U[:n, n:].any(1)[i] *)
Definition keepL (n i : nat) : bool := anyrange (U i) (n + 1) (N - n - 1). (* U[:n, n+1:].any(1)[i] *)
Definition curR (n j : nat) : bool := anyrange (U j) O (n + 1).            (* U[n+1:, :n+1].any(1)[j-n-1] *)
Definition keepR (n j : nat) : bool := anyrange (U j) O n.                 (* U[n+1:, :n].any(1)[j-n-1] *)

Definition cops : list nat := match ht with Ryd => [O] | XY => [O; 1%nat] end.
Definition copies (s : nat) : list lab := map (fun c => Chan c s) cops.
Definition chans (mask : nat -> bool) (sites : list nat) : list lab :=
  flat_map (fun s => if mask s then copies s else []) sites.

Definition kind_of (n : nat) : kind :=
  if Nat.eqb n O then KFirst
  else if Nat.eqb n (N - 1) then KLast
  else if Nat.ltb n mid then KLeft
  else if Nat.eqb n mid then KMid
  else KRight.

(* the channel a 2-site chain closes on its last site is the one opened by site 0 *)
Definition last_chan : nat := if Nat.eqb N 2 then O else (N - 1)%nat.

Definition labs_in (n : nat) : list lab :=
  match kind_of n with
  | KFirst => [Idle]
  | KLeft | KMid => Done :: Idle :: chans (curL n) (seq O n)
  | KRight => Done :: Idle :: (if hasL n then copies n else [])
                ++ chans (keepR n) (seq (n + 1) (N - n - 1))
  | KLast => Done :: Idle :: (if hasL n then copies last_chan else [])
  end.

Definition labs_out (n : nat) : list lab :=
  match kind_of n with
  | KFirst => Done :: Idle :: (if hasR O then copies O else [])
  | KLeft => Done :: Idle :: chans (keepL n) (seq O n) ++ (if hasR n then copies n else [])
  | KMid | KRight => Done :: Idle :: chans (curR n) (seq (n + 1) (N - n - 1))
  | KLast => [Done]
  end.

Definition dimL (n : nat) : nat := length (labs_in n).
Definition dimR (n : nat) : nat := length (labs_out n).

(* `coeff * n` (Rydberg)  /  `coeff * 2 * sx` (XY) *)
Definition scale (x : K) : K := match ht with Ryd => x | XY => x *! (1 +! 1) end.
Definition opc (c : nat) : nat -> nat -> K :=
  match ht with Ryd => nmat | XY => if Nat.eqb c O then sxm else sym end.
Definition sumc (f : nat -> K) : K := lsum (map f cops).

(* ---- label-to-label weights of one site, as 2x2/3x3 physical matrices ------------------------ *)
Section Site.
Variable hn : nat -> nat -> K.    (* the single-site block currently stored (0 after make_H) *)
Variable n : nat.
Variables b b' : nat.
Let dd := idm b b'.
Let aa (c : nat) := emb2 (opc c) b b'.

(* first_factor, left_factor, and last_factor of a 2-site chain *)
Definition wL (l r : lab) : K :=
  match l, r with
  | Done, Done => dd
  | Idle, Idle => dd
  | Idle, Done => hn b b'
  | Idle, Chan c s => if Nat.eqb s n then aa c else 0
  | Chan c s, Done => scale (U s n) *! aa c
  | Chan c s, Chan c' s' => if Nat.eqb c c' && Nat.eqb s s' then dd else 0
  | _, _ => 0
  end.

(* middle_factor *)
Definition wM (l r : lab) : K :=
  match l, r with
  | Done, Done => dd
  | Idle, Idle => dd
  | Idle, Done => hn b b'
  | Chan c s, Done => scale (U s n) *! aa c
  | Idle, Chan c s => scale (U s n) *! aa c
  | Chan c s, Chan c' s' => if Nat.eqb c c' then scale (U s s') *! dd else 0
  | _, _ => 0
  end.

(* right_factor and last_factor (N >= 3) *)
Definition wR (l r : lab) : K :=
  match l, r with
  | Done, Done => dd
  | Idle, Idle => dd
  | Idle, Done => hn b b'
  | Chan c s, Done => if Nat.eqb s n then aa c else 0
  | Idle, Chan c s => scale (U s n) *! aa c
  | Chan c s, Chan c' s' => if Nat.eqb c c' && Nat.eqb s s' then dd else 0
  | _, _ => 0
  end.

Definition w (l r : lab) : K :=
  match kind_of n with
  | KFirst | KLeft => wL l r
  | KMid => wM l r
  | KRight => wR l r
  | KLast => if Nat.eqb N 2 then wL l r else wR l r
  end.
End Site.

(* ---- factors as slot-indexed arrays ---------------------------------------------------------- *)
Definition zero_block (b b' : nat) : K := 0.

(* make_H: entry [l, b, b', r] of the factor of site n (single-site blocks left at zero) *)
Definition ent0 (n l b b' r : nat) : K :=
  match nth_error (labs_in n) l, nth_error (labs_out n) r with
  | Some ll, Some rr => w zero_block n b b' ll rr
  | _, _ => 0
  end.

(* update_H: single_qubit_terms[n] = noise; [:2,:2] += a + b - c *)
Definition hterm (p : drive K) (n b b' : nat) : K :=
  d_nz p b b' +!
  emb2 (fun x y => (d_oc p n *! sxm x y +! d_os p n *! sym x y) -! d_dl p n *! nmat x y) b b'.

(* factors[0][0,:,:,0] = terms[0];  factors[i][1,:,:,0] = terms[i]  (in place) *)
Definition upd_row (n : nat) : nat := if Nat.eqb n O then O else 1%nat.
Definition update_H (F : nat -> nat -> nat -> nat -> nat -> K) (p : drive K)
  : nat -> nat -> nat -> nat -> nat -> K :=
  fun n l b b' r => if Nat.eqb l (upd_row n) && Nat.eqb r O then hterm p n b b' else F n l b b' r.

(* <b| MPO |b'> : the single entry of the ordered product of the per-site scalar bond matrices,
   computed as a left-to-right row-vector sweep over slot indices. *)
Section Elem.
Variable F : nat -> nat -> nat -> nat -> nat -> K.
Variables bo bi : nat -> nat.    (* physical out / in index of every site *)
Fixpoint sweep (k : nat) : nat -> K :=
  match k with
  | O => fun _ => 1
  | S k' => fun r => sumn (dimL k') (fun l => sweep k' l *! F k' l (bo k') (bi k') r)
  end.
Definition mpo_elem : K := sweep N O.
End Elem.

(* list-based variant of the same sweep (linear cost; used for execution) *)
Section ElemL.
Variable F : nat -> nat -> nat -> nat -> nat -> K.
Variables bo bi : nat -> nat.
Fixpoint sweepL (k : nat) : list K :=
  match k with
  | O => [1]
  | S k' => let v := sweepL k' in
            map (fun r => sumn (dimL k') (fun l => nth l v 0 *! F k' l (bo k') (bi k') r))
                (seq O (dimR k'))
  end.
Definition mpo_elemL : K := nth O (sweepL N) 0.
End ElemL.

(* ---- the dense Hamiltonian element (Pulser convention), written out explicitly ---------------- *)
Section Dense.
Variable hn : nat -> nat -> nat -> K.     (* hn i = single-site block of site i *)
Variables bo bi : nat -> nat.
Definition dl_ (t : nat) : K := idm (bo t) (bi t).
Definition a_ (c t : nat) : K := emb2 (opc c) (bo t) (bi t).
Definition h_ (t : nat) : K := hn t (bo t) (bi t).
(* product of the identity elements of sites lo <= t < hi *)
Definition Pr (lo hi : nat) : K := lprod (map dl_ (seq lo (hi - lo))).
Definition single (n i : nat) : K := Pr O i *! h_ i *! Pr (i + 1) n.
Definition pair (n c i j : nat) : K :=
  Pr O i *! a_ c i *! Pr (i + 1) j *! a_ c j *! Pr (j + 1) n *! scale (U i j).
(* sum_i h_i (x) 1...  +  sum_{i<j} U_ij A_i B_j (x) 1...   restricted to sites < n *)
Definition dense_upto (n : nat) : K :=
  sumn n (single n) +! sumn n (fun j => sumn j (fun i => sumc (fun c => pair n c i j))).
Definition dense_elem : K := dense_upto N.
End Dense.

End Sys.

(* ---- exported view for the correspondence ------------------------------------------------------ *)
Definition rows_fun (rows : list (list K)) (i j : nat) : K := nth j (nth i rows []) 0.
Definition list_fun (l : list K) (i : nat) : K := nth i l 0.

(* all nonzero entries (l, b, b', r, value) of the factor of site n, with its bond dimensions *)
Definition export_factor (ht : htype) (N dim : nat) (Uraw : nat -> nat -> K)
    (F : nat -> nat -> nat -> nat -> nat -> K) (n : nat)
  : nat * nat * list (nat * nat * nat * nat * K) :=
  let dl := dimL ht N Uraw n in
  let dr := dimR ht N Uraw n in
  (dl, dr,
   flat_map (fun l => flat_map (fun b => flat_map (fun b' => flat_map (fun r =>
      let x := F n l b b' r in if kisz R x then [] else [(l, b, b', r, x)])
      (seq O dr)) (seq O dim)) (seq O dim)) (seq O dl)).

Definition export_H (ht : htype) (N dim : nat) (Urows : list (list K)) (p : option (drive K)) :=
  let Uraw := rows_fun Urows in
  let F0 := ent0 ht N Uraw in
  let F := match p with None => F0 | Some q => update_H F0 q end in
  map (export_factor ht N dim Uraw F) (seq O N).

End Model.

(* ---- execution instance: dyadic Gaussian numbers (re + i im) / 2^e ---------------------------- *)
Definition DG := (Z * Z * Z)%type.
Definition dg_align (x y : DG) : Z * Z * Z * Z * Z :=
  let '(a, b, e) := x in let '(c, d, f) := y in
  if (e <=? f)%Z then (a * 2 ^ (f - e), b * 2 ^ (f - e), c, d, f)%Z
  else (a, b, c * 2 ^ (e - f), d * 2 ^ (e - f), e)%Z.
Definition dg_add (x y : DG) : DG :=
  let '(a, b, c, d, e) := dg_align x y in (a + c, b + d, e)%Z.
Definition dg_sub (x y : DG) : DG :=
  let '(a, b, c, d, e) := dg_align x y in (a - c, b - d, e)%Z.
Definition dg_mul (x y : DG) : DG :=
  let '(a, b, e) := x in let '(c, d, f) := y in (a * c - b * d, a * d + b * c, e + f)%Z.
Definition dg_opp (x : DG) : DG := let '(a, b, e) := x in (- a, - b, e)%Z.
Definition dg_isz (x : DG) : bool := let '(a, b, e) := x in (a =? 0)%Z && (b =? 0)%Z.
Definition dg_ops : ringops DG :=
  mkRingOps DG (0, 0, 0)%Z (1, 0, 0)%Z dg_add dg_mul dg_sub dg_opp dg_isz (1, 0, 1)%Z (0, 1, 0)%Z.

Definition dg_drive (oc os dl : list DG) (nz : list (list DG)) : drive DG :=
  mkDrive DG (list_fun dg_ops oc) (list_fun dg_ops os) (list_fun dg_ops dl) (rows_fun dg_ops nz).

(* ---- Gaussian integers: a genuine commutative ring instance (used for Examples) ---------------- *)
Definition GI := (Z * Z)%type.
Definition gi_add (x y : GI) : GI := (fst x + fst y, snd x + snd y)%Z.
Definition gi_mul (x y : GI) : GI := (fst x * fst y - snd x * snd y, fst x * snd y + snd x * fst y)%Z.
Definition gi_opp (x : GI) : GI := (- fst x, - snd x)%Z.
Definition gi_sub (x y : GI) : GI := gi_add x (gi_opp y).
Definition gi_isz (x : GI) : bool := (fst x =? 0)%Z && (snd x =? 0)%Z.
Definition gi_conj (x : GI) : GI := (fst x, - snd x)%Z.
Definition gi_ops : ringops GI :=
  mkRingOps GI (0, 0)%Z (1, 0)%Z gi_add gi_mul gi_sub gi_opp gi_isz (1, 0)%Z (0, 1)%Z.
