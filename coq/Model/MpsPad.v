(* C13, MPS part: executable model of emu_mps/utils.py extended_mps_factors, extended_mpo_factors and
   get_extended_site_index (the dark-atom padding MPSBackendImpl.fill_results applies before the callbacks) in the
   transfer-matrix formalism F3 of Model/TransferMat.v.  An MPO factor (l, out, in, r) is the bond tensor with
   the flattened physical index s = out * d + in.  No proofs here; tied to /repo by the exact Gaussian-integer
   correspondence of tools/props/c13.py. *)
From Coq Require Import ZArith List Bool Arith.
From EV Require Import Model.TransferMat Model.MPSAlg.
Import ListNotations.
Set Implicit Arguments.

Section Pad.
Variable K : Type.
Variable Ko : RingOps K.
Local Notation "'zero'" := (k0 Ko).
Local Notation "'one'" := (k1 Ko).
Local Notation T3 := (T3 K).

(* the padding factor:  torch.zeros(l, p.., r); factor[:, s, :] = torch.eye(l, r)  for every s with [keep s] *)
Definition pad_factor (l p r : nat) (keep : nat -> bool) : T3 :=
  MkT3 l p r (fun a s b => if keep s && (a =? b) then one else zero).

(* the loop of extended_mps_factors / extended_mpo_factors.  [bd] is `bond_dimension`, [fs] the factors not
   yet consumed (factor_index = len(mps_factors) - len fs), [rd] reads the right bond of a real factor
   (shape[2] resp. shape[3]).  None = IndexError (more True entries than factors; excluded by the assert). *)
Fixpoint pad_go (p : nat) (keep : nat -> bool) (bd : nat) (fs : list T3) (mask : list bool)
  : option (list T3) :=
  match mask with
  | [] => Some []
  | true :: m =>
      match fs with
      | f :: fs' => option_map (cons f) (pad_go p keep (dr f) fs' m)
      | [] => None
      end
  | false :: m =>
      match fs with
      | [] => option_map (cons (pad_factor bd p 1 keep)) (pad_go p keep 1 [] m)   (* factor_index == len *)
      | _ :: _ => option_map (cons (pad_factor bd p bd keep)) (pad_go p keep bd fs m)
      end
  end.

Definition count_true (mask : list bool) : nat := length (filter (fun b => b) mask).

(* assert len(factors) == sum(1 for b in where if b) *)
Definition pad_factors (p : nat) (keep : nat -> bool) (fs : list T3) (mask : list bool) : option (list T3) :=
  if length fs =? count_true mask then pad_go p keep 1 fs mask else None.

(* MPS: physical dimension 2 (also when the state has dimension 3: see finding F-14), only |0> kept *)
Definition keep_mps (s : nat) : bool := s =? 0.
Definition extended_mps_factors := pad_factors 2 keep_mps.
(* MPO: factor[:, 0, 0, :] = factor[:, 1, 1, :] = eye, i.e. s = out*2 + in with out = in *)
Definition keep_mpo (s : nat) : bool := (s / 2 =? s mod 2) && (s <? 4).
Definition extended_mpo_factors := pad_factors 4 keep_mpo.

(* the padding a dimension-aware version would apply (proposed fix of finding F-14): physical dimension of the
   given factors, identity on every level for the MPO.  [d] is the dimension of the MPO's physical legs. *)
Definition phys_dim (fs : list T3) : nat := match fs with f :: _ => dp f | [] => 2 end.
Definition extended_mps_factors_v2 (fs : list T3) := pad_factors (phys_dim fs) keep_mps fs.
Definition keep_mpo_d (d s : nat) : bool := (s / d =? s mod d) && (s <? d * d).
Definition extended_mpo_factors_v2 (d : nat) := pad_factors (d * d) (keep_mpo_d d).
(* the MPS / MPO constructors assert that every factor has the physical dimension of the state *)
Definition uniform_dim (d : nat) (Ts : list T3) : bool := forallb (fun T => dp T =? d) Ts.

(* the physical indices of the well-prepared sites *)
Fixpoint restrict (A : Type) (mask : list bool) (b : list A) : list A :=
  match mask, b with
  | true :: m, s :: b' => s :: restrict m b'
  | false :: m, _ :: b' => restrict m b'
  | _, _ => []
  end.
(* every dark site carries a kept index *)
Fixpoint dark_ok (keep : nat -> bool) (mask : list bool) (b : list nat) : bool :=
  match mask, b with
  | true :: m, _ :: b' => dark_ok keep m b'
  | false :: m, s :: b' => keep s && dark_ok keep m b'
  | _, _ => true
  end.

End Pad.

(* ---- get_extended_site_index(where, desired_index) --------------------------------------------------
   index = -1; for extended_index, v in enumerate(where): if v: index += 1; if index == desired: return extended_index
   raise ValueError.   [seen] = index + 1 (number of True entries met so far), [pos] = extended_index. *)
Fixpoint ext_index_go (mask : list bool) (desired seen pos : nat) : option nat :=
  match mask with
  | [] => None                                         (* ValueError *)
  | true :: m => if seen =? desired then Some pos else ext_index_go m desired (S seen) (S pos)
  | false :: m => ext_index_go m desired seen (S pos)
  end.
Definition ext_index (mask : list bool) (desired : nat) : option nat := ext_index_go mask desired 0 0.
(* the Optional[int] argument: None passes through (outer option = raised or not) *)
Definition get_extended_site_index (mask : list bool) (desired : option nat) : option (option nat) :=
  match desired with
  | None => Some None
  | Some k => option_map (@Some nat) (ext_index mask k)
  end.

(* ---- helpers for the correspondence at the Gaussian integers ------------------------------------------ *)
Definition opad_eqb (Ts : option (list (T3 GI))) (ts : list RawT) : option bool := ochain_eqb Ts ts.
