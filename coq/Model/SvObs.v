(* C13, state-vector / density-matrix part: executable model of emu_sv/custom_callback_implementations.py in the
   F2 semantics of Model/SvBase.v (a view / slice of a contiguous tensor is an ALIAS described by the predicate
   on base indices it covers; the predicates of `x.view(2**i, 2, -1)[:, 1]` and of
   `that.view(2**i, 2**(j-i-1), 2, -1)[:, :, 1, :]` are Model/SvHam.v's diag_pred_i / diag_pred_ij, the very same
   views the Hamiltonian diagonal uses).  `torch.linalg.vector_norm(alias) ** 2` is modelled as the sum of
   conj(x) * x over the alias (the square root followed by the square is not a ring operation; the tie replaces
   it by the exact sum of squares, and the unmodified function is compared with tolerance).  `.real` is
   (z + conj z) / 2.  The Hamiltonian object is an arbitrary matrix H (what `hamiltonian * v`, resp.
   `hamiltonian.h_eff(rho)`, applies; C06 proves which matrix that is).  No proofs here; tied to /repo by the
   exact correspondence of tools/props/c13.py. *)
From Coq Require Import List Arith Bool ZArith.
From EV Require Import Model.SvBase Model.SvHam Model.SvState.
Import ListNotations.

Section Obs.
Variable o : Kops.
Open Scope K_scope.
Notation L := (list o).

Definition nrm2 (x : o) : o := kconj o x * x.                 (* |x|^2 *)
Definition kre (x : o) : o := khalf o * (x + kconj o x).      (* z.real *)

(* torch.linalg.vector_norm(alias) ** 2   and   alias.sum() *)
Definition alias_norm2 (p : nat -> bool) (x : L) : o := ksumn (length x) (fun k => kif (p k) (nrm2 (get x k))).
Definition alias_sum (p : nat -> bool) (x : L) : o := ksumn (length x) (fun k => kif (p k) (get x k)).

(* ---- qubit_occupation_sv_impl / correlation_matrix_sv_impl ----------------------------------------- *)
Definition sv_occ_entry (psi : L) (i : nat) : o := alias_norm2 (diag_pred_i (length psi) i) psi.
Definition sv_pair_entry (psi : L) (i j : nat) : o := alias_norm2 (diag_pred_ij (length psi) i j) psi.
Definition sv_occupation (N : nat) (psi : L) : L := tab N (sv_occ_entry psi).

(* correlation[i,i] = occ i; for j > i: correlation[i,j] = pair i j; correlation[j,i] = correlation[i,j] *)
Definition corr_entry (N : nat) (occ : nat -> o) (pair : nat -> nat -> o) (k : nat) : o :=
  let i := k / N in let j := k mod N in
  if i =? j then occ i else if i <? j then pair i j else pair j i.
Definition sv_correlation (N : nat) (psi : L) : L :=
  tab (N * N) (corr_entry N (sv_occ_entry psi) (sv_pair_entry psi)).

(* ---- density matrices: state.data.diagonal(), explicit view shapes --------------------------------- *)
Definition diagonal (D : nat) (rho : L) : L := tab D (fun k => get rho (k * D + k)).
(* diag.view(2**i, 2, 2**(N-i-1))[:, 1, :] *)
Definition dm_pred_i (N i k : nat) : bool := co1 2 (qrest N i) k =? 1.
(* that.view(2**i, 2**(j-i-1), 2, 2**(N-1-j))[:, :, 1, :] *)
Definition dm_pred_ij (N i j k : nat) : bool :=
  (co1 2 (qrest N i) k =? 1) && (co1 2 (qrest N j) (slice_idx 2 (qrest N i) k) =? 1).
Definition dm_occ_entry (N : nat) (rho : L) (i : nat) : o :=
  kre (alias_sum (dm_pred_i N i) (diagonal (2 ^ N) rho)).
Definition dm_pair_entry (N : nat) (rho : L) (i j : nat) : o :=
  kre (alias_sum (dm_pred_ij N i j) (diagonal (2 ^ N) rho)).
Definition dm_occupation (N : nat) (rho : L) : L := tab N (dm_occ_entry N rho).
Definition dm_correlation (N : nat) (rho : L) : L :=
  tab (N * N) (corr_entry N (dm_occ_entry N rho) (dm_pair_entry N rho)).

(* ---- energy moments --------------------------------------------------------------------------------- *)
Definition mfun : Type := nat -> nat -> o.
Definition of_flat (D : nat) (m : L) : mfun := fun i j => get m (i * D + j).
(* hamiltonian * v *)
Definition happly (D : nat) (H : mfun) (v : L) : L := tab D (fun k => ksumn D (fun k' => H k k' * get v k')).
(* RydbergHamiltonian.expect: vdot(psi, H psi).real *)
Definition sv_energy (D : nat) (H : mfun) (psi : L) : o := kre (vdot o psi (happly D H psi)).
(* energy_second_moment_sv_impl: vdot(H psi, H psi).real *)
Definition sv_second_moment (D : nat) (H : mfun) (psi : L) : o :=
  let h := happly D H psi in kre (vdot o h h).
(* energy_variance_sv_impl: h_squared - energy**2 *)
Definition sv_variance (D : nat) (H : mfun) (psi : L) : o :=
  let h := happly D H psi in
  let e := kre (vdot o psi h) in kre (vdot o h h) - e * e.

(* hamiltonian.h_eff(rho) with the default (zero) jump term: the matrix product H rho, row-major *)
Definition mmul_l (D : nat) (H : mfun) (rho : L) : L :=
  tab (D * D) (fun k => ksumn D (fun m => H (k / D) m * get rho (m * D + k mod D))).
Definition trace (D : nat) (x : L) : o := ksumn D (fun k => get x (k * D + k)).
(* RydbergLindbladian.expect: h_eff(rho).trace().real *)
Definition dm_energy (D : nat) (H : mfun) (rho : L) : o := kre (trace D (mmul_l D H rho)).
(* energy_second_moment_den_mat_impl: expect(DensityMatrix(h_eff(rho))) *)
Definition dm_second_moment (D : nat) (H : mfun) (rho : L) : o := dm_energy D H (mmul_l D H rho).
(* energy_variance_sv_den_mat_impl *)
Definition dm_variance (D : nat) (H : mfun) (rho : L) : o :=
  let e := dm_energy D H rho in dm_second_moment D H rho - e * e.

End Obs.

Arguments nrm2 {o}. Arguments kre {o}. Arguments alias_norm2 {o}. Arguments alias_sum {o}.
