(* Crash-semantics model of the part of a file system touched by an autosave (C27).

   A file system is a map  name -> option (content * complete?).  `Write` creates (or truncates) a
   file that is INCOMPLETE until the write has finished; rename / replace / remove are atomic; a
   process crash (or an exception escaping the save routine) may happen before or after every
   operation and in the middle of a write: the states a crash can leave behind are exactly the
   states the run passes through ([trace]).  Content is an abstract snapshot identity of any type;
   the semantics never inspects it.  No proofs here. *)
From Coq Require Import List Bool String.
Import ListNotations.
Set Implicit Arguments.

(* File names relative to the advertised autosave path `self.autosave_file` ("<prefix><uuid>.dat" for a
   fresh run, ANY path the user passes for a resumed run):
   [Adv] is that path itself,
   [Sfx s] is `autosave_file.with_suffix("." ++ s)`  (the last suffix REPLACED, or appended if none),
   [App s] is `autosave_file.with_name(autosave_file.name + "." ++ s)`  (appended).
   As symbols they are distinct; as paths they can coincide, depending on how the advertised name ends:
   see [canon] below. *)
Inductive name := Adv | Sfx (s : string) | App (s : string).

Definition name_eqb (a b : name) : bool :=
  match a, b with
  | Adv, Adv => true
  | Sfx s, Sfx t => String.eqb s t
  | App s, App t => String.eqb s t
  | _, _ => false
  end.

Inductive platform := Posix | Windows.

(* primitive file-system calls made by the save routine *)
Inductive prim :=
| Write (n : name)            (* with open(n,"wb") as f: pickle.dump(self, f) *)
| Rename (a b : name)         (* os.rename(a,b): POSIX overwrites b atomically, Windows raises if b exists *)
| Replace (a b : name)        (* os.replace(a,b): overwrites b atomically on both *)
| Remove (n : name)           (* os.remove(n) *)
| Stat (n : name).            (* os.path.getsize(n): read only, raises if n is missing *)

(* a statement of the save routine: a primitive, possibly under an `if [not] n.is_file():` guard
   evaluated immediately before it *)
Inductive op :=
| Do (p : prim)
| IfFile (n : name) (p : prim)
| IfNotFile (n : name) (p : prim).

(* what the routine does, as observed from outside (compared 1-1 with the real calls) *)
Inductive ev :=
| EWriteBegin (n : name)      (* file opened/truncated, dump not finished *)
| EWriteEnd (n : name)        (* dump finished and file closed *)
| EIsFile (n : name) (r : bool)
| EMove (a b : name)          (* rename or replace succeeded *)
| ERemove (n : name)
| EStat (n : name)
| ERaise (p : prim).          (* the call raised (missing source / existing target on Windows) *)

Definition names_prim (p : prim) : list name :=
  match p with
  | Write n | Remove n | Stat n => [n]
  | Rename a b | Replace a b => [a; b]
  end.

Definition names_op (o : op) : list name :=
  match o with
  | Do p => names_prim p
  | IfFile n p | IfNotFile n p => n :: names_prim p
  end.

Fixpoint mem (n : name) (l : list name) : bool :=
  match l with [] => false | m :: l' => name_eqb n m || mem n l' end.

Fixpoint dedup (l : list name) : list name :=
  match l with
  | [] => []
  | n :: l' => if mem n l' then dedup l' else n :: dedup l'
  end.

(* every name the routine can touch, the advertised one first *)
Definition names_of (p : list op) : list name :=
  Adv :: dedup (filter (fun n => negb (name_eqb n Adv)) (flat_map names_op p)).

(* ---- aliasing of paths -------------------------------------------------------------------------
   [sg] = the last suffix of the advertised file name (None: no suffix).  With last suffix s,
   `with_suffix(".s")` IS the advertised path; without a suffix `with_suffix(".u")` and the appended
   name coincide; nothing else coincides (suffixes are alphanumeric).  [canon sg] maps every symbolic
   name to the representative of its path, so that distinct results are distinct paths. *)
Definition canon (sg : option string) (n : name) : name :=
  match n, sg with
  | Sfx t, Some s => if String.eqb t s then Adv else n
  | App u, None => Sfx u
  | _, _ => n
  end.

Definition map_prim (f : name -> name) (p : prim) : prim :=
  match p with
  | Write n => Write (f n)
  | Rename a b => Rename (f a) (f b)
  | Replace a b => Replace (f a) (f b)
  | Remove n => Remove (f n)
  | Stat n => Stat (f n)
  end.

Definition map_op (f : name -> name) (o : op) : op :=
  match o with
  | Do p => Do (map_prim f p)
  | IfFile n p => IfFile (f n) (map_prim f p)
  | IfNotFile n p => IfNotFile (f n) (map_prim f p)
  end.

(* the routine as it acts on real paths when the advertised name ends in [sg] *)
Definition resolve (sg : option string) (p : list op) : list op := map (map_op (canon sg)) p.

Fixpoint sfx_strings (l : list name) : list string :=
  match l with
  | [] => []
  | Sfx s :: l' => s :: sfx_strings l'
  | _ :: l' => sfx_strings l'
  end.

Fixpoint smem' (s : string) (l : list string) : bool :=
  match l with [] => false | t :: l' => String.eqb s t || smem' s l' end.

(* the ways the advertised name can end that matter: no suffix, or one of the suffixes the routine
   passes to with_suffix; every other ending behaves like the symbolic list itself *)
Definition classes (p : list op) : list (option string) :=
  None :: map Some (sfx_strings (flat_map names_op p)).

Definition all_classes (chk : list op -> bool) (p : list op) : bool :=
  chk p && forallb (fun sg => chk (resolve sg p)) (classes p).

Section FS.
Variable C : Type.                       (* snapshot identity *)

Definition file := (C * bool)%type.      (* content, complete? *)
Definition fs := name -> option file.

Definition upd (s : fs) (n : name) (v : option file) : fs :=
  fun m => if name_eqb m n then v else s m.

Definition is_file (s : fs) (n : name) : bool :=
  match s n with Some _ => true | None => false end.

Definition empty_fs : fs := fun _ => None.

(* [step_prim pl c p s] = (events with the state after each, final state if the call returned).
   [c] is the content written by this autosave. *)
Definition move (s : fs) (a b : name) (f : file) : fs := upd (upd s b (Some f)) a None.

Definition step_prim (pl : platform) (c : C) (p : prim) (s : fs)
  : list (ev * fs) * option fs :=
  match p with
  | Write n =>
      let s1 := upd s n (Some (c, false)) in
      let s2 := upd s n (Some (c, true)) in
      ([(EWriteBegin n, s1); (EWriteEnd n, s2)], Some s2)
  | Rename a b =>
      match s a with
      | None => ([(ERaise p, s)], None)
      | Some f =>
          if name_eqb a b then ([(EMove a b, s)], Some s)
          else match pl, s b with
               | Windows, Some _ => ([(ERaise p, s)], None)
               | _, _ => let s' := move s a b f in ([(EMove a b, s')], Some s')
               end
      end
  | Replace a b =>
      match s a with
      | None => ([(ERaise p, s)], None)
      | Some f =>
          if name_eqb a b then ([(EMove a b, s)], Some s)
          else let s' := move s a b f in ([(EMove a b, s')], Some s')
      end
  | Remove n =>
      match s n with
      | None => ([(ERaise p, s)], None)
      | Some _ => let s' := upd s n None in ([(ERemove n, s')], Some s')
      end
  | Stat n =>
      match s n with
      | None => ([(ERaise p, s)], None)
      | Some _ => ([(EStat n, s)], Some s)
      end
  end.

Definition step_op (pl : platform) (c : C) (o : op) (s : fs) : list (ev * fs) * option fs :=
  match o with
  | Do p => step_prim pl c p s
  | IfFile n p =>
      if is_file s n
      then let '(v, r) := step_prim pl c p s in ((EIsFile n true, s) :: v, r)
      else ([(EIsFile n false, s)], Some s)
  | IfNotFile n p =>
      if is_file s n
      then ([(EIsFile n true, s)], Some s)
      else let '(v, r) := step_prim pl c p s in ((EIsFile n false, s) :: v, r)
  end.

(* one autosave: events/states passed through, and the final state if it ran to the end *)
Fixpoint run (pl : platform) (c : C) (p : list op) (s : fs) : list (ev * fs) * option fs :=
  match p with
  | [] => ([], Some s)
  | o :: p' =>
      match step_op pl c o s with
      | (v, Some s') => let '(v', r) := run pl c p' s' in (v ++ v', r)
      | (v, None) => (v, None)
      end
  end.

(* every state a crash (before/after any call, or inside a write) or an escaping exception can
   leave on disk *)
Definition trace (pl : platform) (c : C) (p : list op) (s : fs) : list fs :=
  s :: map snd (fst (run pl c p s)).

Definition final (pl : platform) (c : C) (p : list op) (s : fs) : option fs :=
  snd (run pl c p s).

(* for printing / comparison with a real directory *)
Definition listing (ns : list name) (s : fs) : list (name * option file) :=
  map (fun n => (n, s n)) ns.

End FS.

(* ---- the decidable check: exhaustive symbolic run over abstract contents ------------------- *)
Inductive tok := Old | New | Other.

Definition tok_eqb (a b : tok) : bool :=
  match a, b with Old, Old | New, New | Other, Other => true | _, _ => false end.

(* the advertised file is complete and holds the previous or the new snapshot *)
Definition goodb (s : fs tok) : bool :=
  match s Adv with
  | Some (Old, true) | Some (New, true) => true
  | _ => false
  end.

Definition vals : list (option (file tok)) :=
  [None; Some (Old, true); Some (Old, false); Some (New, true); Some (New, false);
   Some (Other, true); Some (Other, false)].

(* all assignments of [vals] to the names [ns] (absent elsewhere) *)
Fixpoint enum (ns : list name) : list (fs tok) :=
  match ns with
  | [] => [@empty_fs tok]
  | n :: ns' => flat_map (fun s => map (fun v => upd s n v) vals) (enum ns')
  end.

Definition platforms := [Posix; Windows].

(* crash safety: from every initial state with a good advertised file, on both platforms, every
   state passed through has a good advertised file *)
Definition safe_on (pl : platform) (p : list op) : bool :=
  forallb (fun s0 => implb (goodb s0) (forallb goodb (trace pl New p s0))) (enum (names_of p)).

Definition safe (p : list op) : bool := forallb (fun pl => safe_on pl p) platforms.

(* freshness: from every initial state at all (also the very first autosave, nothing on disk),
   if the routine runs to its end the advertised file is the complete NEW snapshot *)
Definition holds_new (s : fs tok) : bool :=
  match s Adv with Some (New, true) => true | _ => false end.

Definition fresh_on (pl : platform) (p : list op) : bool :=
  forallb (fun s0 => match final pl New p s0 with Some s' => holds_new s' | None => true end)
          (enum (names_of p)).

Definition fresh (p : list op) : bool := forallb (fun pl => fresh_on pl p) platforms.

(* no exception from a tidy directory: nothing but (possibly) the advertised file exists, in any
   condition; then the routine runs to its end on both platforms *)
Definition tidy_states : list (fs tok) := map (fun v => upd (@empty_fs tok) Adv v) vals.

Definition completes_on (pl : platform) (p : list op) : bool :=
  forallb (fun s0 => match final pl New p s0 with Some _ => true | None => false end) tidy_states.

Definition completes (p : list op) : bool := forallb (fun pl => completes_on pl p) platforms.

(* the routine always runs to its end and leaves nothing under the advertised name (used for the
   clean-up at the end of a run, C26) *)
Definition removes_on (pl : platform) (p : list op) : bool :=
  forallb (fun s0 => match final pl New p s0 with Some s' => negb (is_file s' Adv) | None => false end)
          (enum (names_of p)).

Definition removes (p : list op) : bool := forallb (fun pl => removes_on pl p) platforms.

(* ---- witness search (used by the check to report the crash point) -------------------------- *)
Fixpoint find_idx {A} (f : A -> bool) (l : list A) (i : nat) : option (nat * A) :=
  match l with
  | [] => None
  | x :: l' => if f x then Some (i, x) else find_idx f l' (S i)
  end.

(* first (initial state, crash index) whose crash state has no good advertised file; the crash
   index counts the states of [trace] (0 = before the routine started) *)
Definition find_bad_on (pl : platform) (p : list op)
  : option (list (name * option (file tok)) * nat * list (name * option (file tok))) :=
  let ns := names_of p in
  match find_idx (fun s0 => goodb s0 && negb (forallb goodb (trace pl New p s0))) (enum ns) 0 with
  | None => None
  | Some (_, s0) =>
      match find_idx (fun s => negb (goodb s)) (trace pl New p s0) 0 with
      | None => None
      | Some (k, s') => Some (listing ns s0, k, listing ns s')
      end
  end.

(* the canonical "second autosave" situation: only the previous complete snapshot on disk *)
Definition after_first_save : fs tok := upd (@empty_fs tok) Adv (Some (Old, true)).

Definition show_run (pl : platform) (p : list op) (s0 : fs tok)
  : list (ev * list (name * option (file tok))) * option (list (name * option (file tok))) :=
  let ns := names_of p in
  let '(v, r) := run pl New p s0 in
  (map (fun x => (fst x, listing ns (snd x))) v, option_map (listing ns) r).

(* build an initial state from a listing (for the correspondence) *)
Fixpoint of_listing (l : list (name * option (file tok))) : fs tok :=
  match l with
  | [] => @empty_fs tok
  | (n, v) :: l' => upd (of_listing l') n v
  end.
