(* C30: a tiny define-by-run reverse-mode AD evaluator (what torch.autograd does for the elementwise
   float64 operators + - * / where) and the tape that /repo/emu_base/math/pchip_torch.py (PCHIP1D.__init__
   followed by __call__) records when y requires grad.  Written once over [Arith A]: executed at
   [float_arith] (IEEE binary64: 0 * inf = nan, x / 0 = inf) and reasoned about at [R_arith], where the
   evaluator reports 'division by zero' explicitly ([ad_checked]).

   torch semantics mirrored (torch/csrc/autograd + tools/autograd/derivatives.yaml):
     add:   ga = g            gb = g
     sub:   ga = g            gb = -g
     mul:   ga = g * b        gb = g * a
     div:   ga = g / b        gb = -g * ((a / b) / b)
     where(c, a, b):  ga = where(c, g, 0)    gb = where(c, 0, g)     (a ZERO cotangent enters the masked branch
                                                                     and its VJP is still evaluated)
   Every tensor-level node that the output depends on is executed for ALL its elements (elements the output
   does not use receive the cotangent 0), which is why the tape below contains every knot and every piece.
   Sub-expressions that do not depend on y (knots, widths h, weights w, the local coordinate t) are not
   graph nodes in torch; here they are [IConst] leaves.  Masks are evaluated from forward values while
   the tape is recorded.  No proofs here. *)
From Coq Require Import ZArith List Bool.
From EV Require Import Base.Arith Model.Pchip.
Import ListNotations.
Set Implicit Arguments.

Section AD.
Variable A : Type.
Variable ar : Arith A.

Local Notation "x + y" := (a_add ar x y).
Local Notation "x - y" := (a_sub ar x y).
Local Notation "x * y" := (a_mul ar x y).
Local Notation "x / y" := (a_div ar x y).
Local Notation "x <? y" := (a_ltb ar x y).
Local Notation "x <=? y" := (a_leb ar x y).
Local Notation z0 := (c0 ar).
Local Notation z1 := (c1 ar).
Local Notation z2 := (c2 ar).
Local Notation z3 := (c3 ar).

(* one recorded operation; operands are node ids; mul and div save their operands' forward values
   (torch: saved tensors) *)
Inductive instr : Type :=
| ILeaf (v : A)                      (* an entry of y (requires grad) *)
| IConst (v : A)                     (* a value that does not depend on y *)
| IAdd (a b : nat)
| ISub (a b : nat)
| IMul (a b : nat) (va vb : A)
| IDiv (a b : nat) (va vb : A)
| IWhere (c : bool) (a b : nat).

(* recording state: number of nodes, instructions newest first.  A handle is (node id, forward value). *)
Definition st : Type := (nat * list instr)%type.
Definition hd : Type := (nat * A)%type.
Definition M (X : Type) : Type := st -> X * st.
Definition ret {X} (x : X) : M X := fun s => (x, s).
Definition bind {X Y} (m : M X) (k : X -> M Y) : M Y := fun s => let (x, s') := m s in k x s'.
Notation "x <- m ;; k" := (bind m (fun x => k)) (at level 61, m at next level, right associativity).

Definition push (i : instr) (v : A) : M hd := fun s => ((fst s, v), (S (fst s), i :: snd s)).
Definition leaf (v : A) : M hd := push (ILeaf v) v.
Definition const (v : A) : M hd := push (IConst v) v.
Definition add (x y : hd) : M hd := push (IAdd (fst x) (fst y)) (snd x + snd y).
Definition sub (x y : hd) : M hd := push (ISub (fst x) (fst y)) (snd x - snd y).
Definition mul (x y : hd) : M hd := push (IMul (fst x) (fst y) (snd x) (snd y)) (snd x * snd y).
Definition div (x y : hd) : M hd := push (IDiv (fst x) (fst y) (snd x) (snd y)) (snd x / snd y).
Definition where_ (c : bool) (x y : hd) : M hd := push (IWhere c (fst x) (fst y)) (if c then snd x else snd y).

Fixpoint leaves (ys : list A) : M (list hd) :=
  match ys with
  | [] => ret []
  | y :: t => h <- leaf y ;; r <- leaves t ;; ret (h :: r)
  end.

(* ---- the PCHIP tape, function by function as in pchip_torch.py ------------------------------- *)
(* delta = (self.y[1:] - self.y[:-1]) / h *)
Fixpoint b_secants (ys : list hd) (hs : list A) : M (list hd) :=
  match ys, hs with
  | y0 :: ((y1 :: _) as t), h :: hs' =>
      dy <- sub y1 y0 ;; hc <- const h ;; d <- div dy hc ;; r <- b_secants t hs' ;; ret (d :: r)
  | _, _ => ret []
  end.

(* _weighted_harmonic_mean(delta_l, delta_r, h_l, h_r):  (w_l + w_r) / (w_l / delta_l + w_r / delta_r) *)
Definition b_whm (dl dr : hd) (hl hr : A) : M hd :=
  let wl := hl + z2 * hr in
  let wr := z2 * hl + hr in
  cl <- const wl ;; q1 <- div cl dl ;;
  cr <- const wr ;; q2 <- div cr dr ;;
  den <- add q1 q2 ;;
  cn <- const (wl + wr) ;; div cn den.

(* one interior knot of _pchip_derivatives.
   fixed = false (the source as it is):   dh = whm(delta_l, delta_r, ..) ; where(mask, dh, 0)
   fixed = true  (proposed_fixes/pchip-nan-gradient.diff, the 'double where'):
       safe_l = where(mask, delta_l, 1) ; safe_r = where(mask, delta_r, 1) ; dh = whm(safe_l, safe_r, ..) ;
       where(mask, dh, 0) *)
Definition b_interior_slope (fixed : bool) (dl dr : hd) (hl hr : A) : M hd :=
  let mask := same_sign_mask ar (snd dl) (snd dr) in   (* the sign test of Model/Pchip.v (follows /repo 79a08c0) *)
  dh <- (if fixed
         then (one1 <- const z1 ;; sl <- where_ mask dl one1 ;;
               one2 <- const z1 ;; sr <- where_ mask dr one2 ;; b_whm sl sr hl hr)
         else b_whm dl dr hl hr) ;;
  zz <- const z0 ;;
  where_ mask dh zz.

Fixpoint b_interior (fixed : bool) (hs : list A) (ds : list hd) : M (list hd) :=
  match hs, ds with
  | hl :: ((hr :: _) as hs'), dl :: ((dr :: _) as ds') =>
      d <- b_interior_slope fixed dl dr hl hr ;; r <- b_interior fixed hs' ds' ;; ret (d :: r)
  | _, _ => ret []
  end.

(* _endpoint_slope:  (w1 * delta_l - h_l * delta_r) / (h_l + h_r),  w1 = 2 h_l + h_r *)
Definition b_endpoint_slope (dl dr : hd) (hl hr : A) : M hd :=
  w1 <- const (z2 * hl + hr) ;; m1 <- mul w1 dl ;;
  chl <- const hl ;; m2 <- mul chl dr ;;
  s <- sub m1 m2 ;;
  cd <- const (hl + hr) ;; div s cd.

(* _limit_endpoint (masks exactly as Model/Pchip.v limit_endpoint_fixed, i.e. /repo after b976cb3):
     d = where(sign(d) != sign(s_l), 0, d) ; where((sign(s_l)*sign(s_r) < 0) & (|d| > 3|s_l|), 3.0 * s_l, d)
   (sign tests = same_sign_mask / opp_sign_mask of Model/Pchip.v, /repo 79a08c0) *)
Definition b_limit_endpoint (d sl sr : hd) : M hd :=
  zz <- const z0 ;;
  d1 <- where_ (a_neqb ar (a_sign ar (snd d)) (a_sign ar (snd sl))) zz d ;;
  k3 <- const z3 ;; t <- mul k3 sl ;;
  where_ ((opp_sign_mask ar (snd sl) (snd sr)) && ((z3 * a_abs ar (snd sl)) <? a_abs ar (snd d1))) t d1.

Definition b_end_slope (hs : list A) (ds : list hd) : M hd :=
  match hs, ds with
  | h0 :: h1 :: _, s0 :: s1 :: _ => d <- b_endpoint_slope s0 s1 h0 h1 ;; b_limit_endpoint d s0 s1
  | _, _ => const z0
  end.

(* _pchip_derivatives: n == 2 fills d with delta[0]; otherwise interior knots, then both ends *)
Definition b_derivs (fixed : bool) (hs : list A) (ds : list hd) : M (list hd) :=
  match ds with
  | [] => ret []
  | [s0] => ret [s0; s0]
  | _ => mid <- b_interior fixed hs ds ;;
         d0 <- b_end_slope hs ds ;;
         dn <- b_end_slope (rev hs) (rev ds) ;;
         ret (d0 :: mid ++ [dn])
  end.

(* _polynomial_coeffs, one piece:  p2 = (3 delta - 2 d0 - d1) / h ;  p3 = (d0 + d1 - 2 delta) / (h*h) *)
Definition hpiece : Type := (hd * hd * hd * hd)%type.
Definition b_coeff (y0 : hd) (h : A) (s d0 d1 : hd) : M hpiece :=
  k3 <- const z3 ;; a1 <- mul k3 s ;; k2 <- const z2 ;; a2 <- mul k2 d0 ;;
  a3 <- sub a1 a2 ;; a4 <- sub a3 d1 ;; ch <- const h ;; p2 <- div a4 ch ;;
  b1 <- add d0 d1 ;; k2' <- const z2 ;; b2 <- mul k2' s ;; b3 <- sub b1 b2 ;;
  chh <- const (h * h) ;; p3 <- div b3 chh ;;
  ret (y0, d0, p2, p3).

Fixpoint b_coeffs (ys : list hd) (hs : list A) (ss dd : list hd) : M (list hpiece) :=
  match ys, hs, ss, dd with
  | y0 :: ys', h :: hs', s :: ss', d0 :: ((d1 :: _) as dd') =>
      p <- b_coeff y0 h s d0 d1 ;; r <- b_coeffs ys' hs' ss' dd' ;; ret (p :: r)
  | _, _, _, _ => ret []
  end.

(* __call__, one query point: t = xq - x[i];  p0 + t*(p1 + t*(p2 + t*p3)) *)
Definition b_horner (p : hpiece) (t : A) : M hd :=
  let '(p0, p1, p2, p3) := p in
  ct <- const t ;; m1 <- mul ct p3 ;; a1 <- add p2 m1 ;; m2 <- mul ct a1 ;; a2 <- add p1 m2 ;;
  m3 <- mul ct a2 ;; add p0 m3.

(* piece selection as Model/Pchip.v eval_pieces (searchsorted(right=True) - 1, clamped) *)
Fixpoint b_eval (xs : list A) (ps : list hpiece) (xq : A) : M hd :=
  match xs, ps with
  | x0 :: xs', p :: ps' =>
      match xs', ps' with
      | x1 :: _, _ :: _ => if x1 <=? xq then b_eval xs' ps' xq else b_horner p (xq - x0)
      | _, _ => b_horner p (xq - x0)
      end
  | _, _ => const z0
  end.

Fixpoint b_evals (xs : list A) (ps : list hpiece) (qs : list A) : M (list hd) :=
  match qs with
  | [] => ret []
  | q :: t => o <- b_eval xs ps q ;; r <- b_evals xs ps t ;; ret (o :: r)
  end.

(* PCHIP1D(x, y)(xq) with y requiring grad: handles of y, handles of the outputs *)
Definition b_pchip (fixed : bool) (xs ys qs : list A) : M (list hd * list hd) :=
  let hs := diffs ar xs in
  yh <- leaves ys ;;
  ss <- b_secants yh hs ;;
  dd <- b_derivs fixed hs ss ;;
  ps <- b_coeffs yh hs ss dd ;;
  outs <- b_evals xs ps qs ;;
  ret (yh, outs).

Definition record (fixed : bool) (xs ys qs : list A) : (list hd * list hd) * st :=
  b_pchip fixed xs ys qs (0, []).

(* ---- backward pass ------------------------------------------------------------------------------ *)
(* cotangents newest first, aligned with the instruction list *)
Fixpoint add_at (i : nat) (g : A) (l : list A) : list A :=
  match l, i with
  | [], _ => []
  | x :: t, O => (x + g) :: t
  | x :: t, S i' => x :: add_at i' g t
  end.

(* [rc] holds the cotangents of nodes k-1, ..., 0 *)
Definition contrib (k a : nat) (g : A) (rc : list A) : list A := add_at (k - 1 - a) g rc.

Fixpoint backward (k : nat) (rt : list instr) (rc : list A) : list A :=
  match k, rt, rc with
  | S k', ins :: rt', g :: rc' =>
      let rc'' :=
        match ins with
        | ILeaf _ | IConst _ => rc'
        | IAdd a b => contrib k' b g (contrib k' a g rc')
        | ISub a b => contrib k' b (a_neg ar g) (contrib k' a g rc')
        | IMul a b va vb => contrib k' b (g * va) (contrib k' a (g * vb) rc')
        | IDiv a b va vb => contrib k' b (a_neg ar g * ((va / vb) / vb)) (contrib k' a (g / vb) rc')
        | IWhere c a b => contrib k' b (if c then z0 else g) (contrib k' a (if c then g else z0) rc')
        end in
      g :: backward k' rt' rc''
  | _, _, _ => []
  end.

Fixpoint seed (k : nat) (outs : list hd) (ws : list A) (rc : list A) : list A :=
  match outs, ws with
  | o :: outs', w :: ws' => seed k outs' ws' (contrib k (fst o) w rc)
  | _, _ => rc
  end.

(* vector-Jacobian product  sum_q w_q * d out_q / d y_i  for every i  (torch.autograd.grad(out, y, grad_outputs=w)) *)
Definition vjp_of (r : (list hd * list hd) * st) (ws : list A) : list A :=
  let '((yh, outs), (n, rt)) := r in
  let cot := backward n rt (seed n outs ws (repeat z0 n)) in      (* newest first *)
  map (fun h => nth (n - 1 - fst h) cot z0) yh.

Definition pchip_vjp (fixed : bool) (xs ys qs ws : list A) : list A := vjp_of (record fixed xs ys qs) ws.
Definition pchip_fwd (fixed : bool) (xs ys qs : list A) : list A := map snd (snd (fst (record fixed xs ys qs))).

(* ---- definedness: the divisors the tape divides by (forward AND backward divide by exactly these) ----- *)
Fixpoint divisors (rt : list instr) : list A :=
  match rt with
  | [] => []
  | IDiv _ _ _ vb :: t => vb :: divisors t
  | _ :: t => divisors t
  end.

Definition pchip_divisors (fixed : bool) (xs ys qs : list A) : list A :=
  divisors (snd (snd (record fixed xs ys qs))).

(* real-division model with an explicit error: Err 10 = 'division by zero' somewhere in the forward or the
   backward pass; guards of PCHIP1D._validate_xy as in Model/Pchip.v pchip_init (Err 1/2/3) *)
Definition pchip_vjp_checked (fixed : bool) (xs ys qs ws : list A) : res (list A) :=
  if negb (Nat.eqb (length xs) (length ys)) then Err 1%Z
  else if Nat.ltb (length xs) 2 then Err 2%Z
  else if negb (strictly_increasing ar xs) then Err 3%Z
  else if existsb (fun d => a_eqb ar d z0) (pchip_divisors fixed xs ys qs) then Err 10%Z
  else Ok (pchip_vjp fixed xs ys qs ws).

End AD.

(* what the correspondence prints: (error code, (forward values, vjp)) *)
Definition pchip_ad_case {A} (ar : Arith A) (fixed : bool) (xs ys qs ws : list A) : Z * (list A * list A) :=
  match pchip_init ar xs ys with
  | Ok _ => (0%Z, (pchip_fwd ar fixed xs ys qs, pchip_vjp ar fixed xs ys qs ws))
  | Err m => (m, ([], []))
  | OutOfFuel => ((-1)%Z, ([], []))
  end.
