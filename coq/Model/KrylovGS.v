(* Hand-written executable model of /repo/emu_base/math/krylov_energy_min.py
   (krylov_energy_minimization, krylov_energy_minimization_impl, _lowest_eigenvector_krylov_method,
   _next_lanczos_iteration, _ritz_vector).  Tied to the source by the correspondences of
   tools/props/c08.py.  No proofs here.

   (a) [GControl]: control contract over oracle streams indexed by (restart cycle r, iteration j):
       vnorm r   = v_init.norm() of cycle r
       beta r j  = betas[j] (norm of the new Lanczos direction)
       resid r j = |betas[j] * y[j]|  (Ritz residual estimate)
       rnorm r j = norm of the un-normalised Ritz vector (ValueError if <= 1e-12)
   (b) [Lanczos]: _next_lanczos_iteration / _ritz_vector over an abstract module. *)
From Coq Require Import ZArith List Bool Arith.
From EV Require Import Base.Arith.
Import ListNotations.
Set Implicit Arguments.

Definition E_START : Z := 11%Z.      (* ValueError("Starting vector has zero norm") *)
Definition E_RITZ : Z := 12%Z.       (* ValueError("Ritz vector has zero norm") *)
Definition E_GS_RECURSION : Z := 13%Z. (* RecursionError raised by krylov_energy_minimization *)
Definition E_GS_INDEX : Z := 14%Z.

Section GControl.
Variable A : Type.
Variable ar : Arith A.
Variable inf : A.                (* float("inf") *)
Variable numtol : A.             (* NUMERICAL_TOLERANCE = 1e-12 *)
Variables beta resid rnorm : nat -> nat -> A.
Variable vnorm : nat -> A.
Variables norm_tol residual_tol : A.

(* result of one cycle (_lowest_eigenvector_krylov_method): c_best = Some j when the returned pair is the
   Ritz pair of iteration j, None when it is still (q_0, inf) *)
Record cyc := MkCyc { c_conv : bool; c_happy : bool; c_iters : nat; c_best : option nat; c_bresid : A }.

Definition gtrigger (r j : nat) : bool :=
  a_ltb ar (beta r j) norm_tol || a_ltb ar (resid r j) residual_tol.

(* for j in range(max_krylov_dim): ...  [fuel = max_krylov_dim - j] *)
Fixpoint cloop (r : nat) (fuel j : nat) (best : option nat) (bres : A) : res cyc :=
  match fuel with
  | O => Ok (MkCyc false false j best bres)
  | S f =>
    if a_leb ar (rnorm r j) numtol then Err E_RITZ      (* _ritz_vector raises *)
    else
      let upd := a_ltb ar (resid r j) bres in           (* if resid < best_resid *)
      let best' := if upd then Some j else best in
      let bres' := if upd then resid r j else bres in
      if a_ltb ar (beta r j) norm_tol then Ok (MkCyc true true (S j) best' bres')
      else if a_ltb ar (resid r j) residual_tol then Ok (MkCyc true false (S j) best' bres')
      else cloop r f (S j) best' bres'
  end.

Definition cycle (r max_dim : nat) : res cyc :=
  if a_ltb ar (vnorm r) norm_tol then Err E_START
  else cloop r max_dim 0 None inf.

Record gres := MkGres { g_converged : bool; g_happy : bool; g_iters : nat; g_restart : nat;
                        g_best : option nat; g_bresid : A }.

(* for r in range(max_restarts + 1): ...  [fuel = max_restarts + 1 - r] *)
Fixpoint gouter (max_dim : nat) (fuel r total : nat) (cur : gres) : res gres :=
  match fuel with
  | O => Ok cur
  | S f =>
    res_bind (cycle r max_dim) (fun c =>
      let total' := total + c_iters c in
      let cur' := MkGres (c_conv c) (c_happy c) total' r (c_best c) (c_bresid c) in
      if c_happy c || c_conv c then Ok cur' else gouter max_dim f (S r) total' cur')
  end.

(* krylov_energy_minimization_impl; n_cycles = max_restarts + 1 *)
Definition gmin_impl (max_dim n_cycles : nat) : res gres :=
  gouter max_dim n_cycles 0 0 (MkGres false false 0 0 None inf).

(* krylov_energy_minimization: raise unless converged or happy_breakdown *)
Definition gmin_public (max_dim n_cycles : nat) : res gres :=
  res_bind (gmin_impl max_dim n_cycles) (fun g =>
    if negb (g_converged g) && negb (g_happy g) then Err E_GS_RECURSION else Ok g).

End GControl.

Definition gs_outcome (A : Type) (r : res (gres A)) : Z * (bool * (bool * (nat * (nat * option nat)))) :=
  match r with
  | Ok g => (0%Z, (g_converged g, (g_happy g, (g_iters g, (g_restart g, g_best g)))))
  | Err m => (m, (false, (false, (0, (0, None)))))
  | OutOfFuel => ((-1)%Z, (false, (false, (0, (0, None)))))
  end.

Definition stream2 (A : Type) (d : A) (l : list (list A)) : nat -> nat -> A :=
  fun r j => nth j (nth r l []) d.

(* ------------------------------------------------------------------------------------------ *)
Section Lanczos.
Variable A : Type.            (* real scalars (alphas, betas, norms) *)
Variables K V : Type.
Variable ofreal : A -> K.
Variable toreal : K -> A.     (* alphas[i] = vdot(...) stores a complex number into a real tensor *)
Variables vsub : V -> V -> V.
Variable vscale : K -> V -> V.
Variable vdiv : V -> A -> V.
Variable Aop : V -> V.
Variable vdot : V -> V -> K.
Variable nrm : V -> A.

(* _next_lanczos_iteration: i = len(vs) - 1; returns (w, alpha_i, beta_i) *)
Definition next_lanczos (vs : list V) (betas : list A) : res (V * A * A) :=
  let i := Nat.pred (length vs) in
  match nth_error vs i with
  | None => Err E_GS_INDEX
  | Some qi =>
    let w0 := Aop qi in
    let alpha := toreal (vdot qi w0) in
    let w1 := vsub w0 (vscale (ofreal alpha) qi) in
    match i with
    | O => Ok (w1, alpha, nrm w1)
    | S i' =>
      match nth_error vs i', nth_error betas i' with
      | Some qp, Some bp => let w2 := vsub w1 (vscale (ofreal bp) qp) in Ok (w2, alpha, nrm w2)
      | _, _ => Err E_GS_INDEX
      end
    end
  end.

(* the Lanczos iteration without exits: n steps from [q0]; returns vectors, alphas, betas *)
Fixpoint lanczos_run (n : nat) (q0 : V) : res (list V * list A * list A) :=
  match n with
  | O => Ok ([q0], [], [])
  | S n' =>
    res_bind (lanczos_run n' q0) (fun '(vs, als, bes) =>
    res_bind (next_lanczos vs bes) (fun '(w, a, b) =>
      Ok (vs ++ [vdiv w b], als ++ [a], bes ++ [b])))
  end.

(* _ritz_vector: ritz_v / norm (ValueError when norm <= NUMERICAL_TOLERANCE is in the control model) *)
Definition normalize (x : V) : V := vdiv x (nrm x).

End Lanczos.

(* concrete instance for the numeric correspondence (complex binary64, lists) *)
From Coq Require Import PrimFloat.
From EV Require Import Model.KrylovExp.
Module GF.
Import CF.
Definition lanczos_float (M : list vec) (v : vec) (n : nat) : list float * list float :=
  match lanczos_run cofreal (fun z : C => fst z) vsub vscale vdiv (matvec M) inner nrm n (vdiv v (nrm v)) with
  | Ok (_, als, bes) => (als, bes)
  | _ => ([], [])
  end.
End GF.
