(* Abstract (non-commutative) matrix *-algebra acting on a space with an inner product, with the matrix
   exponential as an OPERATION whose laws are premises (record StarLaws in Proofs/StarAlgProofs.v).
   Used by C28: whole-run conservation of norm, energy and second moment in exact arithmetic.
   Definitions only. *)
From Coq Require Import List.
Import ListNotations.

Record StarOps := MkStar {
  sM : Type;                         (* operators / matrices *)
  sV : Type;                         (* state vectors *)
  sK : Type;                         (* values of the inner product *)
  sS : Type;                         (* scalars multiplying operators *)
  m_one : sM;
  m_mul : sM -> sM -> sM;
  m_opp : sM -> sM;
  m_adj : sM -> sM;                  (* conjugate transpose *)
  s_mul : sS -> sM -> sM;            (* scalar . operator *)
  s_conj : sS -> sS;
  s_opp : sS -> sS;
  m_exp : sM -> sM;                  (* matrix exponential: only its three laws are used *)
  m_app : sM -> sV -> sV;            (* operator applied to a vector *)
  ip : sV -> sV -> sK;               (* <x|y> *)
}.

Section Defs.
Variable o : StarOps.

Definition unitary (U : sM o) : Prop := m_mul o (m_adj o U) U = m_one o.
Definition hermitian_op (H : sM o) : Prop := m_adj o H = H.
Definition antihermitian_op (G : sM o) : Prop := m_adj o G = m_opp o G.
Definition antireal_scalar (s : sS o) : Prop := s_conj o s = s_opp o s.

(* one step: scalar s (the code's -i*dt) and Hamiltonian H; its propagator exp(s . H) *)
Definition sstep := (sS o * sM o)%type.
Definition propagator (st : sstep) : sM o := m_exp o (s_mul o (fst st) (snd st)).
Definition good_sstep (st : sstep) : Prop := antireal_scalar (fst st) /\ hermitian_op (snd st).

(* the ordered fold of the propagators over the steps (the shape of C01_sv_run_is_ordered_fold) *)
Definition evolve (steps : list sstep) (psi : sV o) : sV o :=
  fold_left (fun v st => m_app o (propagator st) v) steps psi.

(* all states visited: psi_0, psi_1, ..., psi_n *)
Fixpoint trajectory (steps : list sstep) (psi : sV o) : list (sV o) :=
  psi :: match steps with
         | [] => []
         | st :: r => trajectory r (m_app o (propagator st) psi)
         end.

Definition norm2 (psi : sV o) : sK o := ip o psi psi.
Definition expect (O : sM o) (psi : sV o) : sK o := ip o psi (m_app o O psi).
End Defs.

(* ---- a concrete instance: dual numbers a + b eps (eps^2 = 0) over Z, conjugation eps -> -eps ----------
   exp(b eps) = 1 + b eps exactly; operators, scalars, vectors and inner-product values are all dual numbers *)
From Coq Require Import ZArith.
Open Scope Z_scope.
Definition dual := (Z * Z)%type.
Definition d_mul (x y : dual) : dual := (fst x * fst y, fst x * snd y + snd x * fst y).
Definition d_opp (x : dual) : dual := (- fst x, - snd x).
Definition d_conj (x : dual) : dual := (fst x, - snd x).
Definition d_exp (x : dual) : dual := (1, snd x).       (* exponential of the nilpotent part *)
Definition dual_ops : StarOps :=
  MkStar dual dual dual dual (1, 0) d_mul d_opp d_conj d_mul d_conj d_opp d_exp d_mul (fun x y => d_mul (d_conj x) y).
