(* Model of emu-mps autosave / resume (C26).

   The solver object is a map  field name -> value  (its instance __dict__).  Stepping (`progress()`)
   is an oracle kernel [step] that consumes external inputs [Env] (the Python `random` stream for the
   jump method, wall-clock readings) and reads/writes only the fields listed in [reads].
   `__getstate__` / `__setstate__` transform some fields ([get_over], [set_over]); `resume` rebinds
   some ([resume_sets]).  The orchestration of a normal run and of `resume` is a list of stages
   translated from mps_backend.py (Gen/ResumeFlow.v).  No proofs here. *)
From Coq Require Import List Bool String.
Import ListNotations.
Set Implicit Arguments.

Inductive stage :=
| SCoerce            (* str -> pathlib.Path *)
| SCheckFile         (* raise unless the autosave file exists *)
| SCreate            (* create_impl(sequence_data, config) *)
| SInit              (* impl.init() *)
| SLoad              (* pickle.load *)
| SRebind (f : string)   (* impl.f = ... *)
| SLog
| SRun               (* MPSBackend._run(impl) *)
| SPermute.          (* impl.permute_results(results, <config>.optimize_qubit_ordering) *)

Fixpoint smem (f : string) (l : list string) : bool :=
  match l with [] => false | g :: l' => String.eqb f g || smem f l' end.

(* stages after the run: the post-processing applied to the results *)
Fixpoint after_run (fl : list stage) : list stage :=
  match fl with
  | [] => []
  | SRun :: fl' => fl'
  | _ :: fl' => after_run fl'
  end.

Fixpoint n_permutes (fl : list stage) : nat :=
  match fl with
  | [] => 0
  | SPermute :: fl' => S (n_permutes fl')
  | _ :: fl' => n_permutes fl'
  end.

(* a normal run and a resume post-process the results the same way *)
Definition same_post (run_flow resume_flow : list stage) : bool :=
  Nat.eqb (n_permutes (after_run run_flow)) (n_permutes (after_run resume_flow)).

Fixpoint rebinds (fl : list stage) : list string :=
  match fl with
  | [] => []
  | SRebind f :: fl' => f :: rebinds fl'
  | _ :: fl' => rebinds fl'
  end.

(* Which file does the resumed run advertise (autosave to, and remove at the end)?  [SLoad] installs the
   path RECORDED in the pickle by the interrupted run; [SRebind "autosave_file"] (the translator only
   accepts `impl.autosave_file = autosave_file`, the argument of resume) installs the path GIVEN to
   resume; [SRun] starts the run with whatever is installed then. *)
Section AdvFile.
Variable P : Type.
Fixpoint adv_at_run (fl : list stage) (cur : option P) (given recorded : P) : option P :=
  match fl with
  | [] => None                                   (* the run is never started *)
  | SRun :: _ => cur
  | SLoad :: fl' => adv_at_run fl' (Some recorded) given recorded
  | SRebind f :: fl' =>
      if String.eqb f "autosave_file" then adv_at_run fl' (Some given) given recorded
      else adv_at_run fl' cur given recorded
  | _ :: fl' => adv_at_run fl' cur given recorded
  end.
End AdvFile.

(* decidable: between the load and the run the flow rebinds autosave_file (to the given path) *)
Fixpoint file_rebound_from (fl : list stage) (seen : bool) : bool :=
  match fl with
  | [] => false
  | SRun :: _ => seen
  | SLoad :: fl' => file_rebound_from fl' false
  | SRebind f :: fl' => file_rebound_from fl' (String.eqb f "autosave_file" || seen)
  | _ :: fl' => file_rebound_from fl' seen
  end.

Definition file_rebound (fl : list stage) : bool := file_rebound_from fl false.

(* fields whose pickle round trip is accepted as a premise (validated by the real crash/resume runs) *)
Definition roundtrip_ok : list string := ["config"; "results"; "state"]%string.

(* every field the stepping reads survives save + load + resume: it is neither rebound by resume nor
   transformed by __getstate__/__setstate__, except for the accepted round trips *)
Definition pickle_ok (reads get_over set_over resume_sets : list string) : bool :=
  forallb (fun f => negb (smem f resume_sets) &&
                    (negb (smem f get_over || smem f set_over) || smem f roundtrip_ok)) reads.

Section Machine.
Variable V : Type.        (* field values *)
Variable Env : Type.      (* external inputs consumed by stepping *)
Variable Res : Type.      (* Results *)

Definition st := string -> V.

Variable step : st -> Env -> st * Env.
Variable finished : st -> bool.
Variable results_of : st -> Res.
Variable permute : st -> Res -> Res.
Variables gT sT : string -> V -> V.          (* per-field transformations of __getstate__ / __setstate__ *)
Variables get_over set_over : list string.
Variable rebind : string -> option V.        (* what resume assigns *)

(* `progress()` returns at once when finished *)
Definition gstep (s : st) (e : Env) : st * Env := if finished s then (s, e) else step s e.

Fixpoint iter (k : nat) (s : st) (e : Env) : st * Env :=
  match k with
  | O => (s, e)
  | S k' => let '(s', e') := gstep s e in iter k' s' e'
  end.

(* `_run`: while not finished: progress *)
Fixpoint finish (fuel : nat) (s : st) (e : Env) : option (st * Env) :=
  match fuel with
  | O => None
  | S n => if finished s then Some (s, e) else let '(s', e') := step s e in finish n s' e'
  end.

Definition snapshot (s : st) : st :=
  fun f => if smem f get_over then gT f (s f) else s f.

Definition restore (p : st) : st :=
  fun f => match rebind f with
           | Some v => v
           | None => if smem f set_over then sT f (p f) else p f
           end.

Definition apply_post (fl : list stage) (s : st) (r : Res) : Res :=
  fold_left (fun r stg => match stg with SPermute => permute s r | _ => r end) (after_run fl) r.

(* what the caller gets: the results of the final state, post-processed as the flow says *)
Definition outcome (fl : list stage) (fuel : nat) (s : st) (e : Env) : option (Res * Env) :=
  match finish fuel s e with
  | Some (sf, ef) => Some (apply_post fl sf (results_of sf), ef)
  | None => None
  end.

End Machine.
