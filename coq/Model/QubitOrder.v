(* Hand model of the qubit-reordering bookkeeping of emu-mps (C03):
   - MPSBackendImpl.__init__ / _get_interaction_matrix / init_dark_qubits / update_H: which atom's
     interaction row, drive column and bad-atom flag each internal chain site receives;
   - permute_results (+ permute_bitstrings, permute_occupations_and_correlations, permute_atom_order):
     which result tags are brought back to register order;
   - the exits that hand a Results to the user (MPSBackend._run_from_sequence_data, MPSBackend.resume);
   - MPSConfig.check_permutable_observables (whitelist).
   The four places where the code was found to deviate are switches of a [variant]; the check
   determines on every run which variant the real code follows ([legacy] = the tree as first
   analysed, [fixed] = every switch on).  No proofs here. *)
From Coq Require Import String Ascii ZArith List Bool Arith.
From EV Require Import Base.Arith Model.Permutations Model.Optimiser.
Import ListNotations.
Set Implicit Arguments.
Open Scope string_scope.

Record variant := MkVariant {
  v_drives : bool;   (* omega/delta/phi columns are permuted like the interaction matrix *)
  v_mask : bool;     (* the bad-atom mask is permuted like the interaction matrix *)
  v_tags : bool;     (* results are selected for un-permutation by base tag (suffix-insensitive) *)
  v_resume : bool    (* MPSBackend.resume applies permute_results *)
}.
Definition legacy : variant := MkVariant false false false false.
Definition fixed : variant := MkVariant true true true true.

(* ---------------- routing of per-atom inputs to chain sites ---------------- *)
Section Routing.
Variable v : variant.

(* _get_interaction_matrix: permuted unless the permutation is the identity *)
Definition site_interaction (perm : list nat) (m : list (list Z)) : res (list (list Z)) :=
  if list_nat_eqb perm (seq 0 (length m)) then Ok m else permute_matrix m perm.

(* the row of omega (delta, phi) used by update_H at one time step *)
Definition site_drive (perm : list nat) (row : list Z) : res (list Z) :=
  if v_drives v then permute_vector row perm else Ok row.

(* init_dark_qubits: bad_atoms as laid over the (permuted) chain *)
Definition site_bad (perm : list nat) (bad : list bool) : res (list bool) :=
  if v_mask v then permute_list bad perm else Ok bad.
End Routing.

(* ---------------- results ---------------- *)
Inductive payload :=
| PVec (x : list Z)               (* occupation-like: one number per chain site *)
| PMat (m : list (list Z))        (* correlation-matrix-like *)
| PBits (keys : list string)      (* the bitstrings of a Counter *)
| POther (x : Z).                 (* anything without per-atom structure *)

Record entry := MkEntry { e_base : string; e_suffix : option string; e_data : list payload }.

(* Observable.tag: base tag, plus "_" + tag_suffix when given *)
Definition e_tag (e : entry) : string :=
  match e_suffix e with None => e_base e | Some s => e_base e ++ "_" ++ s end.

Definition per_atom_tags : list string := ["bitstrings"; "occupation"; "correlation_matrix"].
Definition invariant_tags : list string :=
  ["statistics"; "energy"; "energy_variance"; "energy_second_moment"].
(* MPSConfig.check_permutable_observables: allowed base tags *)
Definition allowed_permutable : list string := per_atom_tags ++ invariant_tags.
Definition mem (s : string) (l : list string) : bool := existsb (String.eqb s) l.
Definition config_keeps_reordering (bases : list string) : bool :=
  forallb (fun b => mem b allowed_permutable) bases.

(* _tags_with_base: tag == base_tag or tag.startswith(base_tag + "_") *)
Definition tag_has_base (tag base : string) : bool :=
  String.eqb tag base || prefix (base ++ "_") tag.

(* apply an index tensor to one stored value (permute_string / permute_tensor by ndim) *)
Definition permute_payload (q : list nat) (p : payload) : res payload :=
  match p with
  | PVec x => res_bind (permute_vector x q) (fun r => Ok (PVec r))
  | PMat m => res_bind (permute_matrix m q) (fun r => Ok (PMat r))
  | PBits ks => res_bind (mapM (fun k => permute_string k q) ks) (fun r => Ok (PBits r))
  | POther x => Ok (POther x)
  end.

Section Results.
Variable v : variant.

(* does permute_bitstrings / permute_occupations_and_correlations pick this stored result?
   fixed: _tags_with_base, a rule on the tag STRING only (tag == base or tag.startswith(base + "_"));
   legacy: the tag must be exactly one of the three bare tags *)
Definition selected (e : entry) : bool :=
  if v_tags v then existsb (tag_has_base (e_tag e)) per_atom_tags else mem (e_tag e) per_atom_tags.

Definition unpermute_entry (q : list nat) (e : entry) : res entry :=
  if selected e then
    res_bind (mapM (permute_payload q) (e_data e)) (fun d => Ok (MkEntry (e_base e) (e_suffix e) d))
  else Ok e.

(* MPSBackendImpl.permute_results on (atom_order, stored results) *)
Definition permute_results (perm : list nat) (permute : bool)
    (r : list string * list entry) : res (list string * list entry) :=
  if permute then
    res_bind (inv_permutation perm) (fun q =>
    res_bind (mapM (unpermute_entry q) (snd r)) (fun es =>
    res_bind (permute_list (fst r) q) (fun ao => Ok (ao, es))))
  else Ok r.

(* exits *)
Inductive exit_path := ExitRun | ExitResume.
Definition exit_results (x : exit_path) (perm : list nat) (optimize : bool)
    (r : list string * list entry) : res (list string * list entry) :=
  match x with
  | ExitRun => permute_results perm optimize r
  | ExitResume => if v_resume v then permute_results perm optimize r else Ok r
  end.
End Results.

(* what the simulation stores internally: chain site s holds atom perm[s], so every per-atom
   value is the register-order value permuted by perm; atom_order = permute_tuple(qubit_ids, perm) *)
Definition to_internal_entry (perm : list nat) (e : entry) : res entry :=
  if mem (e_base e) per_atom_tags then
    res_bind (mapM (permute_payload perm) (e_data e)) (fun d => Ok (MkEntry (e_base e) (e_suffix e) d))
  else Ok e.
Definition to_internal (perm : list nat) (r : list string * list entry) : res (list string * list entry) :=
  res_bind (mapM (to_internal_entry perm) (snd r)) (fun es =>
  res_bind (permute_tuple (fst r) perm) (fun ao => Ok (ao, es))).
