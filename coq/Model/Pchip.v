(* Executable model of /repo/emu_base/math/pchip_torch.py (class PCHIP1D and its helpers), written once
   over [Arith A] lists: run bit-exactly at [float_arith] (torch evaluates every Python-level
   elementwise operator as one correctly rounded binary64 operation; no reductions, no FMA) and
   reasoned about at [R_arith].  The operator order of every formula follows the source.
   Also contains an independently written reference (SciPy / Fritsch-Carlson style, [sign]-based
   end-slope limiter, Hermite-basis evaluation).  No proofs here. *)
From Coq Require Import ZArith List Bool.
From EV Require Import Base.Arith.
Import ListNotations.
Set Implicit Arguments.

Section Pchip.
Variable A : Type.
Variable ar : Arith A.

Local Notation "x + y" := (a_add ar x y).
Local Notation "x - y" := (a_sub ar x y).
Local Notation "x * y" := (a_mul ar x y).
Local Notation "x / y" := (a_div ar x y).
Local Notation "x <? y" := (a_ltb ar x y).
Local Notation "x <=? y" := (a_leb ar x y).
Definition c0 : A := a_ofZ ar 0.
Definition c1 : A := a_ofZ ar 1.
Definition c2 : A := a_ofZ ar 2.
Definition c3 : A := a_ofZ ar 3.
Definition c6 : A := a_ofZ ar 6.

(* derived operations (torch.where / torch.sign / comparisons against zero) *)
Definition a_sign (x : A) : A :=            (* torch.sign: (0<x) - (x<0); sign(nan)=sign(-0)=0 *)
  (if c0 <? x then c1 else c0) - (if x <? c0 then c1 else c0).
Definition a_neqb (x y : A) : bool := negb (a_eqb ar x y).

(* x[1:] - x[:-1] *)
Fixpoint diffs (xs : list A) : list A :=
  match xs with
  | x0 :: ((x1 :: _) as t) => (x1 - x0) :: diffs t
  | _ => []
  end.

Fixpoint map2 (f : A -> A -> A) (l1 l2 : list A) : list A :=
  match l1, l2 with
  | a :: t1, b :: t2 => f a b :: map2 f t1 t2
  | _, _ => []
  end.

(* delta = (y[1:] - y[:-1]) / h *)
Definition secants (ys hs : list A) : list A := map2 (fun dy h => dy / h) (diffs ys) hs.

(* _weighted_harmonic_mean *)
Definition whm (dl dr hl hr : A) : A :=
  let wl := hl + c2 * hr in
  let wr := c2 * hl + hr in
  (wl + wr) / (wl / dl + wr / dr).

(* _endpoint_slope *)
Definition endpoint_slope (dl dr hl hr : A) : A :=
  let w1 := c2 * hl + hr in
  (w1 * dl - hl * dr) / (hl + hr).

(* Sign tests of the source.  Since /repo 79a08c0 (finding F-28, pchip-sign-product-underflow) both compare
   torch.sign values: [torch.sign(delta_l) * torch.sign(delta_r) > 0] in _pchip_derivatives and
   [torch.sign(s_l) * torch.sign(s_r) < 0] in _limit_endpoint (the [_v2] variants).  Before, they were written
   as products ([_src] variants), which underflow to 0 for secants below ~1e-162.  Over R the variants agree
   (Proofs/PchipProofs.v: same_sign_mask_R, opp_sign_mask_R); at PrimFloat they differ
   (Properties/C20.v: C20_product_mask_underflows). *)
Definition same_sign_mask_src (dl dr : A) : bool := c0 <? (dl * dr).
Definition same_sign_mask_v2 (dl dr : A) : bool := c0 <? (a_sign dl * a_sign dr).
Definition opp_sign_mask_src (sl sr : A) : bool := (sl * sr) <? c0.
Definition opp_sign_mask_v2 (sl sr : A) : bool := (a_sign sl * a_sign sr) <? c0.
(* THE MODEL OF THE TWO SIGN TESTS; must follow /repo (bit-exact correspondence incl. values scaled by
   2^-700).  Also used by Model/PchipAD.v (C30). *)
Definition same_sign_mask : A -> A -> bool := same_sign_mask_v2.
Definition opp_sign_mask : A -> A -> bool := opp_sign_mask_v2.

(* _limit_endpoint as it was before the fix of finding F-11 (/repo b976cb3): first mask [d_end * s_l < 0].
   Kept because Proofs/PchipProofs.v proves that THIS variant overshoots (regression documentation). *)
Definition limit_endpoint_src (d sl sr : A) : A :=
  let d1 := if (d * sl) <? c0 then c0 else d in
  if (opp_sign_mask sl sr) && ((c3 * a_abs ar sl) <? a_abs ar d1) then c3 * sl else d1.

(* the sign-based limiter of the reference (SciPy _edge_case):
     if sign(d) != sign(s_l): d = 0
     elif sign(s_l) != sign(s_r) and |d| > 3|s_l|: d = 3 s_l *)
Definition limit_endpoint_ref (d sl sr : A) : A :=
  if a_neqb (a_sign d) (a_sign sl) then c0
  else if a_neqb (a_sign sl) (a_sign sr) && ((c3 * a_abs ar sl) <? a_abs ar d) then c3 * sl
  else d.

(* _limit_endpoint as in the source today (after the fix of F-11, /repo b976cb3):
   first mask [torch.sign(d_end) != torch.sign(s_l)] *)
Definition limit_endpoint_fixed (d sl sr : A) : A :=
  let d1 := if a_neqb (a_sign d) (a_sign sl) then c0 else d in
  if (opp_sign_mask sl sr) && ((c3 * a_abs ar sl) <? a_abs ar d1) then c3 * sl else d1.

(* THE MODEL OF _limit_endpoint.  It must follow /repo (the bit-exact correspondence of ./check C20
   fails otherwise). *)
Definition limit_endpoint : A -> A -> A -> A := limit_endpoint_fixed.

(* interior knot slope: where(mask_same_sign, whm(safe_l, safe_r), 0); the masked entries of safe_l/safe_r
   (secants replaced by 1, /repo 229c652, for finite gradients) never reach the output *)
Definition interior_slope (dl dr hl hr : A) : A :=
  if same_sign_mask dl dr then whm dl dr hl hr else c0.

Fixpoint interior (hs ds : list A) : list A :=
  match hs, ds with
  | hl :: ((hr :: _) as hs'), dl :: ((dr :: _) as ds') =>
      interior_slope dl dr hl hr :: interior hs' ds'
  | _, _ => []
  end.

(* end slope from the first two entries of (hs, ds); used on the reversed lists for the last knot *)
Definition end_slope (lim : A -> A -> A -> A) (hs ds : list A) : A :=
  match hs, ds with
  | h0 :: h1 :: _, s0 :: s1 :: _ => lim (endpoint_slope s0 s1 h0 h1) s0 s1
  | _, _ => c0
  end.

(* _pchip_derivatives, parametrised by the end limiter *)
Definition derivs_with (lim : A -> A -> A -> A) (hs ds : list A) : list A :=
  match ds with
  | [] => []
  | [s0] => [s0; s0]
  | _ => end_slope lim hs ds :: interior hs ds ++ [end_slope lim (rev hs) (rev ds)]
  end.

Definition pchip_derivs : list A -> list A -> list A := derivs_with limit_endpoint.
Definition ref_derivs : list A -> list A -> list A := derivs_with limit_endpoint_ref.

(* _polynomial_coeffs: one (p0,p1,p2,p3) per interval *)
Definition piece : Type := (A * A * A * A)%type.

Definition coeff (y0 h s d0 d1 : A) : piece :=
  (y0, d0, (c3 * s - c2 * d0 - d1) / h, (d0 + d1 - c2 * s) / (h * h)).

Fixpoint coeffs (ys hs ss dd : list A) : list piece :=
  match ys, hs, ss, dd with
  | y0 :: ys', h :: hs', s :: ss', d0 :: ((d1 :: _) as dd') =>
      coeff y0 h s d0 d1 :: coeffs ys' hs' ss' dd'
  | _, _, _, _ => []
  end.

(* p0 + t*(p1 + t*(p2 + t*p3)) *)
Definition horner (p : piece) (t : A) : A :=
  let '(p0, p1, p2, p3) := p in p0 + t * (p1 + t * (p2 + t * p3)).

(* formal derivative of the cubic (used only in statements) *)
Definition hornerD (p : piece) (t : A) : A :=
  let '(_, p1, p2, p3) := p in p1 + t * (c2 * p2 + c3 * p3 * t).

(* _interval_index + __call__ for one query point: piece i is used when x[i] <= xq < x[i+1],
   the first piece left of x[0], the last piece right of x[-1]
   (searchsorted(x, xq, right=True) - 1 clamped to [0, n-2], x sorted). *)
Fixpoint eval_pieces (xs : list A) (ps : list piece) (xq : A) : A :=
  match xs, ps with
  | x0 :: xs', p :: ps' =>
      match xs', ps' with
      | x1 :: _, _ :: _ => if x1 <=? xq then eval_pieces xs' ps' xq else horner p (xq - x0)
      | _, _ => horner p (xq - x0)
      end
  | _, _ => c0
  end.

(* same, for the derivative of the interpolant (statements only) *)
Fixpoint evalD_pieces (xs : list A) (ps : list piece) (xq : A) : A :=
  match xs, ps with
  | x0 :: xs', p :: ps' =>
      match xs', ps' with
      | x1 :: _, _ :: _ => if x1 <=? xq then evalD_pieces xs' ps' xq else hornerD p (xq - x0)
      | _, _ => hornerD p (xq - x0)
      end
  | _, _ => c0
  end.

Fixpoint strictly_increasing (xs : list A) : bool :=
  match xs with
  | x0 :: ((x1 :: _) as t) => (x0 <? x1) && strictly_increasing t
  | _ => true
  end.

(* PCHIP1D.__init__ : _validate_xy then the coefficient table.
   Err 1: lengths differ; Err 2: fewer than 2 points; Err 3: x not strictly increasing. *)
Definition pchip_coeffs_with (lim : A -> A -> A -> A) (xs ys : list A) : list piece :=
  let hs := diffs xs in
  let ss := secants ys hs in
  coeffs ys hs ss (derivs_with lim hs ss).

Definition pchip_init (xs ys : list A) : res (list piece) :=
  if negb (Nat.eqb (length xs) (length ys)) then Err 1%Z
  else if Nat.ltb (length xs) 2 then Err 2%Z
  else if negb (strictly_increasing xs) then Err 3%Z
  else Ok (pchip_coeffs_with limit_endpoint xs ys).

(* PCHIP1D(x, y)(xq) for a list of query points *)
Definition pchip_call (xs ys xq : list A) : res (list A) :=
  res_bind (pchip_init xs ys) (fun ps => Ok (map (eval_pieces xs ps) xq)).

(* total versions used in theorem statements (guards are premises there) *)
Definition pchip_eval (xs ys : list A) (q : A) : A :=
  eval_pieces xs (pchip_coeffs_with limit_endpoint xs ys) q.
Definition pchip_evalD (xs ys : list A) (q : A) : A :=
  evalD_pieces xs (pchip_coeffs_with limit_endpoint xs ys) q.

(* ---- independent reference: standard PCHIP (Fritsch-Carlson slopes, SciPy end rule), evaluated
   in the cubic Hermite basis on the normalised coordinate s = (q - x_i)/h_i ------------------- *)
Definition hermite_basis (y0 y1 h d0 d1 s : A) : A :=
  let s2 := s * s in
  let s3 := s2 * s in
  (c2 * s3 - c3 * s2 + c1) * y0 + (s3 - c2 * s2 + s) * (h * d0)
  + (c3 * s2 - c2 * s3) * y1 + (s3 - s2) * (h * d1).

Fixpoint ref_eval_pieces (xs ys dd : list A) (q : A) : A :=
  match xs, ys, dd with
  | x0 :: ((x1 :: xs'') as xs'), y0 :: ((y1 :: _) as ys'), d0 :: ((d1 :: _) as dd') =>
      match xs'' with
      | _ :: _ => if x1 <=? q then ref_eval_pieces xs' ys' dd' q
                  else hermite_basis y0 y1 (x1 - x0) d0 d1 ((q - x0) / (x1 - x0))
      | [] => hermite_basis y0 y1 (x1 - x0) d0 d1 ((q - x0) / (x1 - x0))
      end
  | _, _, _ => c0
  end.

Definition ref_eval (xs ys : list A) (q : A) : A :=
  let hs := diffs xs in
  ref_eval_pieces xs ys (ref_derivs hs (secants ys hs)) q.

End Pchip.

(* summary printed by the correspondence: coefficient table flattened + values *)
Definition flat_pieces {A} (ps : list (A * A * A * A)) : list A :=
  flat_map (fun '(p0, p1, p2, p3) => [p0; p1; p2; p3]) ps.

Definition pchip_case {A} (ar : Arith A) (xs ys xq : list A) : Z * (list A * list A) :=
  match pchip_init ar xs ys with
  | Ok ps => (0%Z, (flat_pieces ps, map (eval_pieces ar xs ps) xq))
  | Err m => (m, ([], []))
  | OutOfFuel => ((-1)%Z, ([], []))
  end.
