(* Executable model of SVBackendImpl.init_dark_qubits (emu_sv/sv_backend_impl.py) and of the guards of
   SVBackendImpl.__init__ that concern state-preparation errors, plus the index/gather vocabulary used to
   state "the remaining atoms evolve as in the register without the bad atoms" (C25).
   No proofs here; tied to /repo by the exact correspondence of tools/props/c25.py. *)
From Coq Require Import List Arith Bool ZArith.
From EV Require Import Base.Arith Model.SvBase Model.SvHam Model.SvState.
Import ListNotations.

(* register-order indices of the well-prepared atoms of a bad-atom mask *)
Definition goods (bad : list bool) : list nat :=
  filter (fun i => negb (nth i bad false)) (seq 0 (length bad)).

(* index of the basis state of the sub-register [idx] that carries the bits of k at the positions idx *)
Definition sub_index (N : nat) (idx : list nat) (k : nat) : nat :=
  bits_to_index (map (fun i => bit N i k) idx).

Section DarkSv.
Variable o : Kops.

(* x[:, mask] = v   for one row x *)
Definition mask_set (v : o) (bad : list bool) (l : list o) : list o :=
  map (fun bx : bool * o => if fst bx then v else snd bx) (combine bad l).

(* self.omega[:, filter] = 0.0 ; self.delta[:, filter] = 0.0 ; self.phi[:, filter] = 0.0 *)
Definition sv_dark_vec (bad : list bool) (l : list o) : list o := mask_set (k0 o) bad l.
(* what the zeroed phase becomes in the Hamiltonian: exp(1j * 0) = 1 *)
Definition sv_dark_e (bad : list bool) (e : list o) : list o := mask_set (k1 o) bad e.
(* mat[indices, :] = 0.0 ; mat[:, indices] = 0.0 *)
Definition sv_dark_U (bad : list bool) (U : list (list o)) : list (list o) :=
  map (fun br : bool * list o => map (fun bx : bool * o => if fst br || fst bx then k0 o else snd bx) (combine bad (snd br)))
      (combine bad U).

(* init_dark_qubits: the filter exists only when state_prep_error > 0 *)
Definition sv_init_dark (spe_pos : bool) (bad : list bool) (omega delta phi : list o) (U : list (list o))
  : list o * list o * list o * list (list o) :=
  if spe_pos then (sv_dark_vec bad omega, sv_dark_vec bad delta, sv_dark_vec bad phi, sv_dark_U bad U)
  else (omega, delta, phi, U).

(* sub-register data: entries of the atoms idx, in that order *)
Definition gather (l : list o) (idx : list nat) : list o := map (fun i => get l i) idx.
Definition gatherU (U : list (list o)) (idx : list nat) : list (list o) :=
  map (fun i => map (fun j => getU o U i j) idx) idx.
End DarkSv.

(* guards of SVBackendImpl.__init__ around the initial state and the state-preparation error, in
   source order.  [init] = Some n when config.initial_state is given with n qudits (of the right class). *)
Definition E_SV_MISMATCH : Z := 2501%Z.   (* ValueError: Mismatch in number of atoms *)
Definition E_SV_NOTIMPL : Z := 2502%Z.    (* NotImplementedError: initial state + state preparation error *)
Definition sv_accepts (nqubits : nat) (init : option nat) (spe_pos : bool) (bad : list bool) : res unit :=
  match init with
  | Some n => if negb (n =? nqubits) then Err E_SV_MISMATCH
              else if spe_pos then Err E_SV_NOTIMPL else Ok tt
  | None => Ok tt
  end.
