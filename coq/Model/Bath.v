(* Environment ("bath") tensors of the emu-mps TDVP/DMRG sweeps: hand model of
   emu_mps/utils.py:new_left_bath, emu_mps/solver_utils.py:new_right_bath and :right_baths over an arbitrary
   commutative ring with involution (executed at the Gaussian integers, where float64 tensor arithmetic on small
   integer data is exact).  A bath is B[top][middle][bottom] = (bond of the conjugated state, bond of the operator,
   bond of the state); a state factor is A[l][s][r]; an operator factor is W[l][out*d+in][r].  No proofs here. *)
From Coq Require Import ZArith List Bool Arith.
From EV Require Import Model.TransferMat.
Import ListNotations.
Set Implicit Arguments.

Section Bath.
Variable K : Type.
Variable Ko : RingOps K.
Local Infix "[*]" := (kmul Ko) (at level 40, left associativity).
Local Notation sumL := (sumL Ko).

Definition B3 := nat -> nat -> nat -> K.
Definition I3 := (nat * nat * nat)%type.

Definition at3 (B : B3) (t : I3) : K := match t with (a, b, c) => B a b c end.

Definition idx3 (n1 n2 n3 : nat) : list I3 :=
  flat_map (fun a => flat_map (fun b => map (fun c => (a, b, c)) (seq 0 n3)) (seq 0 n2)) (seq 0 n1).
Definition idx2 (d : nat) : list (nat * nat) :=
  flat_map (fun i => map (fun j => (i, j)) (seq 0 d)) (seq 0 d).

(* weight of one site: conj(A[a][i][a']) * W[b][i,j][b'] * A[c][j][c']  (bra on the operator's out index) *)
Definition tw (d : nat) (A W : T3 K) (l : I3) (ij : nat * nat) (r : I3) : K :=
  match l, ij, r with
  | (a, b, c), (i, j), (a', b', c') =>
      kconj Ko (tf A a i a') [*] tf W b (i * d + j) b' [*] tf A c j c'
  end.

Definition ldims (A W : T3 K) : I3 := (dl A, dl W, dl A).
Definition rdims (A W : T3 K) : I3 := (dr A, dr W, dr A).
Definition idxd (n : I3) : list I3 := match n with (n1, n2, n3) => idx3 n1 n2 n3 end.

(* new_right_bath(bath, state, op) *)
Definition rstep_at (d : nat) (A W : T3 K) (R : B3) (l : I3) : K :=
  sumL (idx2 d) (fun ij => sumL (idxd (rdims A W)) (fun r => tw d A W l ij r [*] at3 R r)).
Definition right_step (d : nat) (A W : T3 K) (R : B3) : B3 := fun a b c => rstep_at d A W R (a, b, c).

(* new_left_bath(bath, state, op) *)
Definition lstep_at (d : nat) (A W : T3 K) (L : B3) (r : I3) : K :=
  sumL (idx2 d) (fun ij => sumL (idxd (ldims A W)) (fun l => at3 L l [*] tw d A W l ij r)).
Definition left_step (d : nat) (A W : T3 K) (L : B3) : B3 := fun a b c => lstep_at d A W L (a, b, c).

(* full contraction of a left bath with a right bath over a cut of the chain *)
Definition pair3 (n : I3) (X Y : B3) : K := sumL (idxd n) (fun t => at3 X t [*] at3 Y t).

(* baths of whole sub-chains: left baths grow to the right, right baths to the left (right_baths) *)
Fixpoint lbath (d : nat) (As Ws : list (T3 K)) (L : B3) : B3 :=
  match As, Ws with
  | A :: As', W :: Ws' => lbath d As' Ws' (left_step d A W L)
  | _, _ => L
  end.
Fixpoint rbath (d : nat) (As Ws : list (T3 K)) (R : B3) : B3 :=
  match As, Ws with
  | A :: As', W :: Ws' => right_step d A W (rbath d As' Ws' R)
  | _, _ => R
  end.

(* bond dimensions fit along a chain that starts with bath dimensions n and ends with m *)
Fixpoint chain_ok (n : I3) (As Ws : list (T3 K)) (m : I3) : Prop :=
  match As, Ws with
  | [], [] => n = m
  | A :: As', W :: Ws' => ldims A W = n /\ chain_ok (rdims A W) As' Ws' m
  | _, _ => False
  end.

Definition ones3 : B3 := fun _ _ _ => k1 Ko.

(* output encoding for the correspondence *)
Definition bath_list (n : I3) (B : B3) : list (list (list K)) :=
  match n with (n1, n2, n3) =>
    map (fun a => map (fun b => map (fun c => B a b c) (seq 0 n3)) (seq 0 n2)) (seq 0 n1) end.
Definition bath_of_list (data : list (list (list K))) : B3 :=
  fun a b c => nth c (nth b (nth a data []) []) (k0 Ko).

(* the same right bath with every intermediate bath tabulated (call-by-value evaluation then costs one pass per
   site instead of re-evaluating the nested sums); Proofs/BathProofs.v shows it is the same function *)
Definition memo (n : I3) (B : B3) : B3 := bath_of_list (bath_list n B).
Fixpoint rbath_m (d : nat) (As Ws : list (T3 K)) (R : B3) : B3 :=
  match As, Ws with
  | A :: As', W :: Ws' => right_step d A W (memo (rdims A W) (rbath_m d As' Ws' R))
  | _, _ => R
  end.

End Bath.
