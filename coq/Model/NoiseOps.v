(* C24 — hand model (H-tie) of
     /repo/emu_base/jump_lindblad_operators.py : get_lindblad_operators, compute_noise_from_lindbladians
     /repo/emu_base/pulser_adapter.py          : _NON_LINDBLADIAN_NOISE, _get_all_lindblad_noise_operators
   and of the reference semantics
     pulser/_hamiltonian_data/hamiltonian_data.py : HamiltonianData._build_local_collapse_operators
   Operators are dim x dim matrices (lists of rows) over a commutative ring with an involution
   (conjugation) and an imaginary unit; executed at the Gaussian integers Z[i], reasoned about for
   every such ring (in particular C).  The model is parametric in the ALREADY square-rooted
   coefficients c (the driver checks c == math.sqrt(rate * k) bit-exactly on the real code).
   No proofs here. *)
From Coq Require Import String.
From Coq Require Import ZArith List Bool Arith.
From EV Require Import Base.Arith.
Import ListNotations.
Open Scope string_scope.
Open Scope nat_scope.

Record CRing (A : Type) := MkCRing {
  r0 : A; r1 : A;
  radd : A -> A -> A; rmul : A -> A -> A; ropp : A -> A;
  rconj : A -> A;      (* complex conjugation *)
  ri : A               (* imaginary unit *)
}.
Arguments r0 {A} _. Arguments r1 {A} _. Arguments radd {A} _. Arguments rmul {A} _.
Arguments ropp {A} _. Arguments rconj {A} _. Arguments ri {A} _.

(* ---- Gaussian integers: the execution instance ------------------------------------------ *)
Definition Zi := (Z * Z)%type.
Definition zi_ring : CRing Zi := {|
  r0 := (0, 0)%Z; r1 := (1, 0)%Z;
  radd := fun x y => (fst x + fst y, snd x + snd y)%Z;
  rmul := fun x y => (fst x * fst y - snd x * snd y, fst x * snd y + snd x * fst y)%Z;
  ropp := fun x => (- fst x, - snd x)%Z;
  rconj := fun x => (fst x, - snd x)%Z;
  ri := (0, 1)%Z |}.

(* error codes of the model (= exception classes of the real code) *)
Definition E_ASSERT : Z := 1.       (* AssertionError *)
Definition E_NOTIMPL : Z := 2.      (* NotImplementedError: hyperfine dephasing *)
Definition E_SHAPE : Z := 3.        (* ValueError: Only dim by dim effective noise operator ... *)
Definition E_UNKNOWN : Z := 4.      (* ValueError: Unknown noise type *)
Definition E_INDEX : Z := 5.        (* IndexError: dim < 2 *)

Section Ops.
Context {A : Type} (K : CRing A).

Definition mat := list (list A).
Definition mget (m : mat) (i j : nat) : A := nth j (nth i m []) (r0 K).
Definition mbuild (n : nat) (f : nat -> nat -> A) : mat :=
  map (fun i => map (f i) (seq 0 n)) (seq 0 n).
Definition has_shape (n : nat) (m : mat) : bool :=
  (length m =? n) && forallb (fun r => length r =? n) m.

Definition zeros (n : nat) : mat := mbuild n (fun _ _ => r0 K).
(* tensor[i, j] = v *)
Definition mset (n : nat) (m : mat) (i j : nat) (v : A) : mat :=
  mbuild n (fun a b => if (a =? i) && (b =? j) then v else mget m a b).
Definition mscale (n : nat) (c : A) (m : mat) : mat := mbuild n (fun a b => rmul K c (mget m a b)).
Definition mopp (n : nat) (m : mat) : mat := mbuild n (fun a b => ropp K (mget m a b)).
Definition madd (n : nat) (x y : mat) : mat := mbuild n (fun a b => radd K (mget x a b) (mget y a b)).
Definition msub (n : nat) (x y : mat) : mat :=
  mbuild n (fun a b => radd K (mget x a b) (ropp K (mget y a b))).
Definition rsum (n : nat) (f : nat -> A) : A := fold_left (fun acc k => radd K acc (f k)) (seq 0 n) (r0 K).
Definition mmul (n : nat) (x y : mat) : mat :=
  mbuild n (fun a b => rsum n (fun k => rmul K (mget x a k) (mget y k b))).
(* L.mH : conjugate transpose *)
Definition dagger (n : nat) (x : mat) : mat := mbuild n (fun a b => rconj K (mget x b a)).
Definition mid (n : nat) : mat := mbuild n (fun a b => if a =? b then r1 K else r0 K).

(* ---- the basis change ---------------------------------------------------------------------
   CURRENT source:  tensor[:2, :2] = torch.flip(tensor[:2, :2], (0, 1))
   (rows and columns of the upper-left min(2,dim) block reversed, everything else untouched) *)
Definition flip_block (n : nat) (m : mat) : mat :=
  let k := Nat.min 2 n in
  mbuild n (fun a b => if (a <? k) && (b <? k) then mget m (k - 1 - a) (k - 1 - b) else mget m a b).

(* PROPOSED source (proposed_fixes/eff-noise-3x3.diff):
     perm = [1, 0] + list(range(2, dim));  tensor[perm][:, perm]          (index-select rows, then columns) *)
Definition rg_perm (n : nat) : list nat := firstn n (1 :: 0 :: seq 2 (n - 2)).
Definition select_rows (perm : list nat) (m : mat) : mat := map (fun i => nth i m []) perm.
Definition select_cols (perm : list nat) (m : mat) : mat :=
  map (fun r => map (fun j => nth j r (r0 K)) perm) m.
Definition perm_rows_cols (n : nat) (m : mat) : mat := select_cols (rg_perm n) (select_rows (rg_perm n) m).

(* which basis change the modelled source performs *)
Inductive rebase := RebaseFlipBlock | RebasePermute.
Definition rebase_op (rb : rebase) (n : nat) (m : mat) : mat :=
  match rb with RebaseFlipBlock => flip_block n m | RebasePermute => perm_rows_cols n m end.

(* ---- NoiseModel data the functions read ---------------------------------------------------- *)
Record noise_model := MkNM {
  nm_types : list string;        (* noise_model.noise_types, in order *)
  nm_c_relax : A;                (* math.sqrt(relaxation_rate) *)
  nm_c_deph : A;                 (* math.sqrt(dephasing_rate / 2) *)
  nm_hyperfine_nonzero : bool;   (* hyperfine_dephasing_rate != 0.0 *)
  nm_c_depol : A;                (* math.sqrt(depolarizing_rate / 4) *)
  nm_eff_c : list A;             (* [math.sqrt(rate) for rate in eff_noise_rates] *)
  nm_eff_ops : list mat          (* eff_noise_opers, Pulser basis order *)
}.

Definition str_in (s : string) (l : list string) : bool := existsb (String.eqb s) l.

(* get_lindblad_operators(noise_type=, noise_model=, interact_type=, dim=) *)
Definition get_lindblad_operators (rb : rebase) (noise_type : string) (nm : noise_model)
    (ising : bool) (dim : nat) : res (list mat) :=
  if negb (str_in noise_type (nm_types nm)) then Err E_ASSERT
  else if String.eqb noise_type "relaxation" then
    if dim <? 2 then Err E_INDEX
    else Ok [mset dim (zeros dim) 0 1 (nm_c_relax nm)]
  else if String.eqb noise_type "dephasing" then
    if nm_hyperfine_nonzero nm then Err E_NOTIMPL
    else if dim <? 2 then Err E_INDEX
    else let c := nm_c_deph nm in
         (* dephasing[0,0] = c; dephasing[1,1] = -c; for level in range(2, dim): dephasing[level,level] = c *)
         Ok [mbuild dim (fun a b => if a =? b then (if a =? 1 then ropp K c else c) else r0 K)]
  else if String.eqb noise_type "depolarizing" then
    if dim <? 2 then Err E_INDEX
    else let c := nm_c_depol nm in
         let ci := rmul K c (ri K) in
         Ok [mset dim (mset dim (zeros dim) 0 1 c) 1 0 c;
             mset dim (mset dim (zeros dim) 0 1 (ropp K ci)) 1 0 ci;
             mset dim (mset dim (zeros dim) 0 0 c) 1 1 (ropp K c)]
  else if String.eqb noise_type "eff_noise" then
    if negb (forallb (has_shape dim) (nm_eff_ops nm)) then Err E_SHAPE
    else let lops := map (fun co => mscale dim (fst co) (snd co)) (combine (nm_eff_c nm) (nm_eff_ops nm)) in
         Ok (if ising then map (rebase_op rb dim) lops else lops)
  else if String.eqb noise_type "leakage" then Ok []
  else Err E_UNKNOWN.

(* pulser_adapter._NON_LINDBLADIAN_NOISE (the driver compares this list with the real set) *)
Definition non_lindbladian : list string :=
  ["SPAM"; "doppler"; "amplitude"; "detuning"; "register"; "dmm_sigma"; "dmm_crosstalk"].

Fixpoint all_ops_from (rb : rebase) (types : list string) (nm : noise_model) (ising : bool) (dim : nat)
    : res (list mat) :=
  match types with
  | [] => Ok []
  | t :: ts =>
    if str_in t non_lindbladian then all_ops_from rb ts nm ising dim
    else res_bind (get_lindblad_operators rb t nm ising dim) (fun ops =>
         res_bind (all_ops_from rb ts nm ising dim) (fun rest => Ok (List.app ops rest)))
  end.

(* _get_all_lindblad_noise_operators(noise_model, dim, interact_type) *)
Definition get_all_lindblad_noise_operators (rb : rebase) (onm : option noise_model) (ising : bool)
    (dim : nat) : res (list mat) :=
  match onm with
  | None => Ok []
  | Some nm => all_ops_from rb (nm_types nm) nm ising dim
  end.

(* compute_noise_from_lindbladians: returns -0.5j * sum(L^dagger L).  The model returns TWICE that
   value, -i * sum(L^dagger L), to stay inside the ring (the driver doubles the real result, exact). *)
Definition sum_LdL (dim : nat) (ls : list mat) : mat :=
  fold_left (fun acc L => madd dim acc (mmul dim (dagger dim L) L)) ls (zeros dim).
Definition compute_noise_x2 (ls : list mat) (dim : nat) : res mat :=
  if negb (forallb (has_shape dim) ls) then Err E_ASSERT
  else Ok (mscale dim (ropp K (ri K)) (sum_LdL dim ls)).

(* ---- reference: what Pulser defines (HamiltonianData._build_local_collapse_operators), in
   Pulser's basis order eigenbasis = (r, g[, x]) for ising and (u, d[, x]) for XY.
   sigma_ab = |a><b| is the unit matrix with a 1 at [index a][index b].
   Coefficients: dephasing sqrt(2*rate) (= 2 * nm_c_deph exactly), relaxation sqrt(rate),
   depolarizing sqrt(rate/4), eff_noise sqrt(rate_k). *)
Definition unit_mat (n i j : nat) (v : A) : mat := mset n (zeros n) i j v.
Definition two : A := radd K (r1 K) (r1 K).

Definition pulser_ops (noise_type : string) (nm : noise_model) (ising : bool) (dim : nat) : list mat :=
  if String.eqb noise_type "relaxation" then            (* coeff * sigma_gr = |g><r| : row g=1, column r=0 *)
    [unit_mat dim 1 0 (nm_c_relax nm)]
  else if String.eqb noise_type "dephasing" then        (* sqrt(2 rate) * sigma_rr (ising) / sigma_dd (XY) *)
    let s := if ising then 0 else 1 in
    [unit_mat dim s s (rmul K two (nm_c_deph nm))]
  else if String.eqb noise_type "depolarizing" then     (* b, a = eigenbasis[:2] : b has index 0, a index 1 *)
    let c := nm_c_depol nm in
    let ci := rmul K c (ri K) in
    [ mset dim (unit_mat dim 1 0 c) 0 1 c;                 (* sigma_ab + sigma_ba *)
      mset dim (unit_mat dim 1 0 ci) 0 1 (ropp K ci);      (* 1j sigma_ab - 1j sigma_ba *)
      mset dim (unit_mat dim 0 0 c) 1 1 (ropp K c) ]       (* sigma_bb - sigma_aa *)
  else if String.eqb noise_type "eff_noise" then
    map (fun co => mscale dim (fst co) (snd co)) (combine (nm_eff_c nm) (nm_eff_ops nm))
  else [].

(* ---- atomic levels and their index in each convention ---------------------------------------- *)
Inductive level := Lg | Lr | Lx.
Definition pulser_index (l : level) : nat := match l with Lr => 0 | Lg => 1 | Lx => 2 end.
Definition emu_index (l : level) : nat := match l with Lg => 0 | Lr => 1 | Lx => 2 end.
Definition level_in_dim (dim : nat) (l : level) : bool := pulser_index l <? dim.

(* spec of the basis change: the operator whose <a|.|b> entry in emulator order is the <a|.|b> entry
   of the Pulser-order operator, for all levels a, b *)
Definition swap01 (k : nat) : nat := match k with 0 => 1 | 1 => 0 | _ => k end.
Definition to_emu_basis (ising : bool) (dim : nat) (m : mat) : mat :=
  if ising then mbuild dim (fun a b => mget m (swap01 a) (swap01 b)) else m.

(* ---- the physical content of a jump operator: twice its Lindblad dissipator
   2 D[L](rho) = 2 L rho L^+ - L^+ L rho - rho L^+ L *)
Definition dissip2 (n : nat) (L rho : mat) : mat :=
  let Ld := dagger n L in
  let LdL := mmul n Ld L in
  let a := mmul n (mmul n L rho) Ld in
  msub n (msub n (madd n a a) (mmul n LdL rho)) (mmul n rho LdL).
Definition dissip2_sum (n : nat) (ls : list mat) (rho : mat) : mat :=
  fold_left (fun acc L => madd n acc (dissip2 n L rho)) ls (zeros n).

End Ops.

(* ---- helpers for the execution at Z[i] (used by the correspondence driver) ---------------------- *)
Definition zi_mat := @mat Zi.
Definition mk_nm (types : list string) (c_relax c_deph : Zi) (hf : bool) (c_depol : Zi)
    (eff_c : list Zi) (eff_ops : list zi_mat) : @noise_model Zi :=
  MkNM types c_relax c_deph hf c_depol eff_c eff_ops.
