(* C15: executable model of the samplers.
     emu_base/utils.py   readout_with_error, apply_measurement_errors   (random.random() = a stream of rationals)
     emu_mps/mps.py      MPS.sample: batch loop, sequential conditional sampling (torch.multinomial = an oracle [pick]
                         that returns an index given the list of weights), printing, the error gate
     emu_sv              StateVector.sample / DensityMatrix.sample: weights, index -> bitstring
   Characters are nat: 0 = '0', 1 = '1'.  No proofs here; tied to /repo by tools/props/c15.py (scripted random streams
   and scripted multinomial, exact comparison). *)
From Coq Require Import List Arith Bool ZArith QArith.
From EV Require Import Model.TransferMat.
Import ListNotations.
Set Implicit Arguments.
Local Open Scope nat_scope.

(* ---- readout errors --------------------------------------------------------------------------------------- *)
Definition Qltb (a b : Q) : bool := negb (Qle_bool b a).

(* r = random.random(); if c == "0" and r < p_false_pos: "1"; if c == "1" and r < p_false_neg: "0"; else c *)
Definition readout (c : nat) (r pfp pfn : Q) : nat :=
  if (c =? 0) && Qltb r pfp then 1
  else if (c =? 1) && Qltb r pfn then 0
  else c.

(* one bitstring: one fresh r per character, left to right; None = the stream is exhausted *)
Fixpoint readout_string (pfp pfn : Q) (s : list nat) (rs : list Q) : option (list nat * list Q) :=
  match s with
  | [] => Some ([], rs)
  | c :: s' =>
      match rs with
      | [] => None
      | r :: rs' =>
          match readout_string pfp pfn s' rs' with
          | Some (t, rest) => Some (readout c r pfp pfn :: t, rest)
          | None => None
          end
      end
  end.

(* for _ in range(count): result[with_error(bitstring)] += 1 *)
Fixpoint readout_repeat (pfp pfn : Q) (s : list nat) (count : nat) (rs : list Q)
  : option (list (list nat) * list Q) :=
  match count with
  | O => Some ([], rs)
  | S n =>
      match readout_string pfp pfn s rs with
      | Some (t, rest) =>
          match readout_repeat pfp pfn s n rest with
          | Some (ts, rest') => Some (t :: ts, rest')
          | None => None
          end
      | None => None
      end
  end.

(* for bitstring, count in bitstrings.items(): ...   The result Counter is the multiset of the produced strings,
   returned here as the sequence in which they are produced. *)
Fixpoint apply_measurement_errors (pfp pfn : Q) (items : list (list nat * nat)) (rs : list Q)
  : option (list (list nat) * list Q) :=
  match items with
  | [] => Some ([], rs)
  | (s, count) :: items' =>
      match readout_repeat pfp pfn s count rs with
      | Some (ts, rest) =>
          match apply_measurement_errors pfp pfn items' rest with
          | Some (us, rest') => Some (ts ++ us, rest')
          | None => None
          end
      | None => None
      end
  end.

Definition total_count (items : list (list nat * nat)) : nat := fold_right (fun it acc => snd it + acc) 0 items.

(* ---- the gate of MPS.sample:  if p_false_neg > 0 or p_false_pos > 0 and self.dim == 2: apply errors
                                  if p_false_pos > 0 and self.dim > 2: raise NotImplementedError ----------------- *)
Definition gate_applies (pfn_pos pfp_pos : bool) (dim : nat) : bool := pfn_pos || (pfp_pos && (dim =? 2)).
Definition gate_intended (pfn_pos pfp_pos : bool) (dim : nat) : bool := (pfn_pos || pfp_pos) && (dim =? 2).
Definition gate_raises (pfp_pos : bool) (dim : nat) : bool := pfp_pos && (2 <? dim).
(* the gate of StateVector.sample / DensityMatrix.sample *)
Definition gate_sv (pfn_pos pfp_pos : bool) : bool := pfn_pos || pfp_pos.

(* ---- the batch loop:  while shots_done < num_shots: batch = min(32, num_shots - shots_done); shots_done += batch *)
Inductive lres (A : Type) := LOk (a : A) | LOutOfFuel.
Arguments LOutOfFuel {A}.
Fixpoint batches (fuel max_batch shots_done num_shots : nat) : lres (list nat) :=
  if shots_done <? num_shots then
    match fuel with
    | O => LOutOfFuel
    | S f =>
        let b := Nat.min max_batch (num_shots - shots_done) in
        match batches f max_batch (shots_done + b) num_shots with
        | LOk l => LOk (b :: l)
        | LOutOfFuel => LOutOfFuel
        end
    end
  else LOk [].

(* ---- sequential conditional sampling of one shot --------------------------------------------------------- *)
Section MpsSample.
Variable K : Type.
Variable Ko : RingOps K.
Local Notation "'zero'" := (k0 Ko).
Local Infix "[+]" := (kadd Ko) (at level 50, left associativity).
Local Infix "[*]" := (kmul Ko) (at level 40, left associativity).

(* sum_l conj(v_l) v_l  =  torch.linalg.vector_norm(v) ** 2 *)
Definition norm2 (v : list K) : K := sumL Ko v (fun x => kconj Ko x [*] x).

(* probn for one shot: the weight of each outcome s of the site with factor T, given the accumulator v *)
Definition site_weights (v : list K) (T : T3 K) : list K :=
  map (fun s => norm2 (vstep Ko v T s)) (seq 0 (dp T)).

(* [pick ws] is what torch.multinomial returns for the weight row ws (an oracle).  Returns the outcomes and the
   weight rows that were presented to the oracle; None = an outcome outside the physical dimension. *)
Fixpoint sample_shot (pick : list K -> nat) (v : list K) (Ts : list (T3 K)) : option (list nat * list (list K)) :=
  match Ts with
  | [] => Some ([], [])
  | T :: Ts' =>
      let ws := site_weights v T in
      let s := pick ws in
      if s <? dp T then
        match sample_shot pick (vstep Ko v T s) Ts' with
        | Some (b, wss) => Some (s :: b, ws :: wss)
        | None => None
        end
      else None
  end.

(* the weight rows presented to the oracle along a given outcome string *)
Fixpoint weight_rows (v : list K) (Ts : list (T3 K)) (b : list nat) : list (list K) :=
  match Ts, b with
  | T :: Ts', s :: b' => site_weights v T :: weight_rows (vstep Ko v T s) Ts' b'
  | _, _ => []
  end.

(* the running weights W_0 .. W_{n-1} along a given outcome string, and the denominators D_q = sum_s w_q(s) *)
Fixpoint run_weights (v : list K) (Ts : list (T3 K)) (b : list nat) : list K :=
  match Ts, b with
  | T :: Ts', s :: b' => norm2 (vstep Ko v T s) :: run_weights (vstep Ko v T s) Ts' b'
  | _, _ => []
  end.
Fixpoint run_denoms (v : list K) (Ts : list (T3 K)) (b : list nat) : list K :=
  match Ts, b with
  | T :: Ts', s :: b' => sumL Ko (site_weights v T) (fun w => w) :: run_denoms (vstep Ko v T s) Ts' b'
  | _, _ => []
  end.
Definition prodL (l : list K) : K := fold_right (fun x acc => x [*] acc) (k1 Ko) l.

End MpsSample.

(* "".join("1" if x == 1 else "0" for x in outcome): the qutrit outcome 2 is printed as '0' *)
Definition print_outcome (b : list nat) : list nat := map (fun x => if x =? 1 then 1 else 0) b.

(* ---- state vector / density matrix: weights over the Gaussian integers ------------------------------------- *)
Definition sv_weights (psi : list GI) : list Z := map (fun z => (fst z * fst z + snd z * snd z)%Z) psi.
(* torch.abs(rho.diagonal()) for a diagonal with integer real entries (|x + 0i| = |x|) *)
Definition dm_weights (D : nat) (rho : list GI) : list Z := map (fun k => Z.abs (fst (nth (k * D + k) rho (0, 0)%Z))) (seq 0 D).
