(* C04 — decision-table model of "does backend b accept a sequence with features f?".
   Definitions only.  The SV constructor guards (Gen/SvGuards.v) and the emu-mps dispatcher and
   DMRG guard (Gen/Dispatch.v) are regenerated from the source on every run; the pulser-adapter
   stages (Lindblad operator construction, channel checks) and emu-sv's run-time Lindblad shape
   assertion are hand-written here and validated by the exhaustive correspondence. *)
From Coq Require Import ZArith Bool List String.
From EV Require Import Base.Arith Gen.Dispatch Gen.SvGuards Model.DispatchModel.
Import ListNotations.
Open Scope Z_scope.

Inductive backend := SV | MPS.
(* which bases the sequence's channels address: rydberg_global, mw_global, raman (digital) only,
   rydberg + raman *)
Inductive chan := ChRyd | ChXY | ChDig | ChBoth
  (* rydberg_global driven + a raman channel that is: declared but idle / played with zero amplitude
     and non-zero detuning / played with zero amplitude, zero detuning and a phase only.  Pulser counts
     a channel as used when amplitude OR detuning is non-zero: ChRydDet is a three-level sequence,
     ChRydIdle and ChRydPhase are two-level ground-rydberg sequences. *)
  | ChRydIdle | ChRydDet | ChRydPhase
  (* mw_global declared, only a delay / zero pulse played: no basis is "used" but pulser's Hamiltonian
     still is the XY exchange *)
  | ChXYIdle.
Inductive effk := EffNone | Eff2 | Eff3.   (* effective-noise operators: none, 2x2, 3x3 *)

Record feat := mkFeat {
  f_chan : chan;
  f_leak : bool;          (* NoiseModel(with_leakage=True): one more level *)
  f_relax : bool; f_deph : bool; f_hyper : bool (* hyperfine_dephasing_rate <> 0 *); f_depol : bool;
  f_eff : effk;
  f_prep : bool;          (* state_prep_error > 0 *)
  f_other : bool;         (* a non-Lindbladian noise type (amplitude) *)
  f_dmrg : bool;          (* emu-mps only: solver = DMRG *)
  f_init : bool;          (* an initial state is given *)
}.

Definition is_xy (f : feat) : bool := match f_chan f with ChXY | ChXYIdle => true | _ => false end.
Definition dim (f : feat) : Z :=
  (match f_chan f with ChBoth | ChRydDet => 3 | _ => 2 end) + (if f_leak f then 1 else 0).
(* shapes of the effective noise operators handed to pulser (a leakage model needs a 3x3 one) *)
Definition eff_shapes (f : feat) : list Z :=
  match f_eff f with Eff2 => [2] | Eff3 => [3] | EffNone => if f_leak f then [3] else [] end.
Definition has_lindblad (f : feat) : bool :=
  f_relax f || f_deph f || f_depol f || negb (match eff_shapes f with [] => true | _ => false end).
Definition noise_nonempty (f : feat) : bool :=
  f_leak f || f_relax f || f_deph f || f_hyper f || f_depol f ||
  negb (match f_eff f with EffNone => true | _ => false end) || f_prep f || f_other f.
Definition noise_types (f : feat) : list string := if noise_nonempty f then ["noise"%string] else [].

Definition E (cls : Z) : res unit := Err (cls * 100000).

(* emu_base.pulser_adapter.PulserData.__init__ -> get_lindblad_operators *)
Definition lindblad_stage (f : feat) : res unit :=
  if f_hyper f then E exc_NotImplementedError
  else if negb (forallb (Z.eqb (dim f)) (eff_shapes f)) then E exc_ValueError
  else Ok tt.
(* emu_base.pulser_adapter._extract_omega_delta_phi *)
Definition channel_stage (f : feat) : res unit :=
  match f_chan f with
  | ChBoth | ChRydIdle | ChRydDet | ChRydPhase =>
      E exc_ValueError   (* "Only single interaction type is supported." (one key per declared basis) *)
  | ChDig => E exc_ValueError    (* "Only ground-rydberg and mw_global(XY) channels are supported." *)
  | _ => Ok tt
  end.
Definition sv_stage (f : feat) : res unit :=
  res_bind (sv_init_guards (f_init f) false (f_prep f) (negb (is_xy f)) (dim f =? 2))
    (fun _ => (* compute_noise_from_lindbladians(ops) with the default dim = 2, first time step *)
       if has_lindblad f && negb (dim f =? 2) then E exc_AssertionError else Ok tt).
Definition mps_stage (f : feat) : res unit :=
  res_bind (mps_select (has_lindblad f) (f_dmrg f) (noise_types f))
    (fun _ => (* MPSBackendImpl.init_initial_state *)
       if f_init f && f_prep f then E exc_NotImplementedError else Ok tt).

Definition decide (b : backend) (f : feat) : res unit :=
  res_bind (lindblad_stage f) (fun _ =>
  res_bind (channel_stage f) (fun _ =>
  match b with SV => sv_stage f | MPS => mps_stage f end)).
Definition accepts (b : backend) (f : feat) : bool :=
  match decide b f with Ok _ => true | _ => false end.

(* ---- specification: what each backend implements ------------------------------------------- *)
Definition supported (b : backend) (f : feat) : bool :=
  negb (f_hyper f) && negb (f_init f && f_prep f) &&
  match b with
  | SV => (match f_chan f with ChRyd | ChRydIdle | ChRydPhase => true | _ => false end) && negb (f_leak f)
          && (match f_eff f with Eff3 => false | _ => true end)
  | MPS => (match f_chan f with ChRyd | ChXY | ChXYIdle | ChRydIdle | ChRydPhase => true | _ => false end)
           && forallb (Z.eqb (dim f)) (eff_shapes f)
           && (negb (f_dmrg f) || negb (noise_nonempty f))
  end.

(* ---- whole-domain enumeration ---------------------------------------------------------------- *)
Definition all_bool (P : bool -> bool) : bool := P true && P false.
Definition all_chan (P : chan -> bool) : bool :=
  P ChRyd && P ChXY && P ChDig && P ChBoth && P ChRydIdle && P ChRydDet && P ChRydPhase && P ChXYIdle.
Definition all_eff (P : effk -> bool) : bool := P EffNone && P Eff2 && P Eff3.
Definition all_backend (P : backend -> bool) : bool := P SV && P MPS.
Definition all_feat (P : feat -> bool) : bool :=
  all_chan (fun c => all_bool (fun lk => all_bool (fun rx => all_bool (fun dp => all_bool (fun hy =>
  all_bool (fun dl => all_eff (fun ef => all_bool (fun pr => all_bool (fun ot => all_bool (fun dm =>
  all_bool (fun it => P (mkFeat c lk rx dp hy dl ef pr ot dm it)))))))))))).

(* every accepted combination is supported — over the whole feature domain (2 x 12288 cases) *)
Definition table_ok : bool :=
  all_backend (fun b => all_feat (fun f => implb (accepts b f) (supported b f))).
Definition table_ok_for (b : backend) : bool :=
  all_feat (fun f => implb (accepts b f) (supported b f)).
