(* Executable model of emu_sv/hamiltonian.py (RydbergHamiltonian), emu_sv/lindblad_operator.py
   (RydbergLindbladian), emu_base/math/matmul.py and compute_noise_from_lindbladians, in the
   index-map semantics of Model/SvBase.v.  One definition per Python function, statements in the
   same order as the source.  No proofs here; the tie to /repo is the exact correspondence run by
   tools/props/c06.py. *)
From Coq Require Import List Arith Bool.
From EV Require Import Model.SvBase.
Import ListNotations.

Section Ham.
Variable o : Kops.
Open Scope K_scope.
Notation zero := (k0 o).
Notation one := (k1 o).
Notation L := (list o).

Definition getU (U : list (list o)) (i j : nat) : o := get (nth i U []) j.

(* ---- _create_diagonal (both classes; the Lindbladian one has no detuning line) ----------------
     for i: diag = diag.view(2**i, 2, -1); i_fixed = diag[:, 1, :]; i_fixed -= deltas[i]
       for j>i: i_fixed = i_fixed.view(2**i, 2**(j-i-1), 2, -1); i_fixed[:, :, 1, :] += U[i, j]   *)
Definition diag_pred_i (len i k : nat) : bool := co1 2 (rest len (2 ^ i) 2) k =? 1.
Definition diag_pred_ij (len i j k : nat) : bool :=
  let d2 := rest len (2 ^ i) 2 in                      (* i_fixed has logical shape (2^i, d2) *)
  let d3 := rest (2 ^ i * d2) (2 ^ i * 2 ^ (j - i - 1)) 2 in
  (co1 2 d2 k =? 1) && (co1 2 d3 (slice_idx 2 d2 k) =? 1).

Definition diag_loop_j (len i : nat) (U : list (list o)) (js : list nat) (d : L) : L :=
  fold_left (fun d j => inplace_add_where (diag_pred_ij len i j) (getU U i j) d) js d.

Definition create_diagonal (with_delta : bool) (N : nat) (delta : L) (U : list (list o)) : L :=
  fold_left (fun d i =>
      let d' := if with_delta then inplace_add_where (diag_pred_i (2 ^ N) i) (- get delta i) d else d in
      diag_loop_j (2 ^ N) i U (seq (i + 1) (N - (i + 1))) d')
    (seq 0 N) (zeros (2 ^ N)).

(* ---- _apply_sigma_operators_real:  result.view(shape_n).index_add_(1, [1,0], vec.view(shape_n), alpha=omega_n) *)
Definition sigma_real (N : nat) (omh : L) (vec res : L) : L :=
  fold_left (fun res n =>
      let d2 := qrest N n in   (* shape_n = (2**n, 2, 2**(nqubits-n-1)) *)
      index_add1 2 d2 [1; 0] (get omh n) (view3 2 d2 vec) res)
    (seq 0 (length omh)) res.

(* ---- _apply_sigma_operators_complex: c = omegas * exp(1j*phis);
        result.index_add_(1, inds[0]=1, vec[:,0,:].unsqueeze(1), alpha=c_n)
        result.index_add_(1, inds[1]=0, vec[:,1,:].unsqueeze(1), alpha=c_n.conj())   *)
Definition sigma_complex (N : nat) (omh e : L) (vec res : L) : L :=
  fold_left (fun res n =>
      let d2 := qrest N n in   (* shape_n = (2**n, 2, 2**(nqubits-n-1)) *)
      let c := get omh n * get e n in
      let res1 := index_add1 2 d2 [1] c (select1 2 d2 0 vec) res in
      index_add1 2 d2 [0] (kconj o c) (select1 2 d2 1 vec) res1)
    (seq 0 (length omh)) res.

(* __init__: self.omegas = omegas / 2.0 ; self.complex = self.phis.any() *)
Definition halve (omega : L) : L := map (fun w => w * khalf o) omega.
Definition any_nonzero (phinz : list bool) : bool := existsb (fun b => b) phinz.

(* __mul__ :  result = diag * vec ; sigma terms added in place.
   [phinz n] says whether phis[n] != 0, [e n] is exp(1j*phis[n]) as computed by torch. *)
Definition ham_mul (N : nat) (omega delta : L) (phinz : list bool) (e : L) (U : list (list o)) (vec : L) : L :=
  let omh := halve omega in
  let diag := create_diagonal true N delta U in
  let result := vmul diag vec in
  if any_nonzero phinz then sigma_complex N omh e vec result else sigma_real N omh vec result.

Definition ham_mul_checked (N : nat) (omega delta : L) (phinz : list bool) (e : L) (U : list (list o)) (vec : L)
  : option L :=
  if (length omega =? N) && (length delta =? N) && (length phinz =? N) && (length e =? N) &&
     (length U =? N) && forallb (fun r => length r =? N) U && (length vec =? 2 ^ N)
  then Some (ham_mul N omega delta phinz e U vec) else None.

(* ---- emu_base/math/matmul.py --------------------------------------------------------------------------- *)
(* torch:  op @ x.view(d0, 2, d2)   (batched matmul, the CPU path) *)
Definition matmul_batched (op : M2 o) (d2 : nat) (x : L) : L :=
  tab (length x) (fun k =>
    let a := co0 2 d2 k in let b := co1 2 d2 k in let c := co2 d2 k in
    m2 op b 0 * get x (flat3 2 d2 a 0 c) + m2 op b 1 * get x (flat3 2 d2 a 1 c)).

(* matmul_2x2_with_batched(left, right) with right of shape (d0, 2, d2): four index_add_ on zeros *)
Definition matmul_2x2_with_batched (op : M2 o) (d2 : nat) (x : L) : L :=
  let r0 := zeros (length x) in
  let r1 := index_add1 2 d2 [0] (m2 op 0 0) (select1 2 d2 0 x) r0 in
  let r2 := index_add1 2 d2 [0] (m2 op 0 1) (select1 2 d2 1 x) r1 in
  let r3 := index_add1 2 d2 [1] (m2 op 1 0) (select1 2 d2 0 x) r2 in
  index_add1 2 d2 [1] (m2 op 1 1) (select1 2 d2 1 x) r3.

(* ---- RydbergLindbladian -------------------------------------------------------------------------------- *)
Definition apply_local (cpu : bool) (dm : L) (op : M2 o) (q : nat) : L :=
  let d2 := rest (length dm) (2 ^ q) 2 in
  if cpu then matmul_batched op d2 dm else matmul_2x2_with_batched op d2 dm.

Definition apply_T (cpu : bool) (N : nat) (dm : L) (op : M2 o) (q : nat) : L :=
  let d2 := rest (length dm) (2 ^ (q + N)) 2 in
  if cpu then matmul_batched (m2conj op) d2 dm else matmul_2x2_with_batched (m2conj op) d2 dm.

Definition sigmax : M2 o := (zero, one, one, zero).
Definition sigmay : M2 o := (zero, - kI o, kI o, zero).
Definition n_op : M2 o := (zero, zero, zero, one).

(* _local_terms_hamiltonian *)
Definition local_terms (cplx : bool) (omh delta cosphi sinphi : o) (S : M2 o) : M2 o :=
  if negb cplx
  then m2tab (fun b b' => omh * m2 sigmax b b' - delta * m2 n_op b b' + m2 S b b')
  else m2tab (fun b b' =>
         omh * (cosphi * m2 sigmax b b' + sinphi * m2 sigmay b b') - delta * m2 n_op b b' + m2 S b b').

(* _apply_interaction_terms: diag.view(-1, 1) * density_matrix *)
Definition apply_interaction (diag dm : L) : L :=
  let ncols := length dm / length diag in
  tab (length dm) (fun k => get diag (k / ncols) * get dm k).

(* h_eff *)
Definition h_eff (cpu cplx : bool) (omh delta cosphi sinphi : L) (diag : L) (S : M2 o) (dm : L) : L :=
  let H0 := zeros (length dm) in
  let H1 := fold_left (fun H q =>
      let Hq := local_terms cplx (get omh q) (get delta q) (get cosphi q) (get sinphi q) S in
      vadd H (apply_local cpu dm Hq q)) (seq 0 (length omh)) H0 in
  vadd H1 (apply_interaction diag dm).

(* compute_noise_from_lindbladians: -0.5j * sum((L.mH @ L for L in ...), start=zero) *)
Definition compute_noise (Ls : list (M2 o)) : M2 o :=
  let s := fold_left (fun acc Lk => m2add acc (m2mul (m2mH Lk) Lk)) Ls m2zero in
  m2tab (fun b b' => (- (khalf o * kI o)) * m2 s b b').

(* x.conj().T for a D x D matrix stored row-major *)
Definition conjT (D : nat) (x : L) : L :=
  tab (length x) (fun k => kconj o (get x ((k mod D) * D + k / D))).

(* __matmul__ *)
Definition lind_matmul (cpu : bool) (N : nat) (omega delta : L) (phinz : list bool) (cosphi sinphi : L)
           (U : list (list o)) (Ls : list (M2 o)) (dm : L) : L :=
  let omh := halve omega in
  let cplx := any_nonzero phinz in
  let diag := create_diagonal false N delta U in
  let S := compute_noise Ls in
  let Hd := h_eff cpu cplx omh delta cosphi sinphi diag S dm in
  let Hd2 := vsub Hd (conjT (2 ^ N) Hd) in
  let LL := fold_left (fun acc q =>
              fold_left (fun acc Lk => vadd acc (apply_T cpu N (apply_local cpu dm Lk q) Lk q)) Ls acc)
            (seq 0 N) (zeros (length dm)) in
  vadd Hd2 (vscale (kI o) LL).

Definition lind_matmul_checked (cpu : bool) (N : nat) (omega delta : L) (phinz : list bool) (cosphi sinphi : L)
           (U : list (list o)) (Ls : list (M2 o)) (dm : L) : option L :=
  if (length omega =? N) && (length delta =? N) && (length phinz =? N) && (length cosphi =? N) &&
     (length sinphi =? N) && (length U =? N) && forallb (fun r => length r =? N) U &&
     (length dm =? 2 ^ N * 2 ^ N) && (1 <=? N)
  then Some (lind_matmul cpu N omega delta phinz cosphi sinphi U Ls dm) else None.

End Ham.
