(* Executable model of emu_sv/utils.py (index_to_bitstring), state_vector.py, density_matrix_state.py,
   dense_operator.py and sparse_operator.py in the F2 semantics of Model/SvBase.v.  No proofs here; tied to
   /repo by the exact correspondence of tools/props/c12.py. *)
From Coq Require Import List Arith Bool.
From EV Require Import Model.SvBase.
Import ListNotations.

(* ---- bitstrings (digits as nat 0/1; 'r' -> 1, 'g' -> 0) ------------------------------------------- *)
(* format(index, "0Nb"): the N binary digits, most significant first *)
Fixpoint bits_lsb (n k : nat) : list nat :=
  match n with O => [] | S n' => (k mod 2) :: bits_lsb n' (k / 2) end.
Definition index_to_bits (N k : nat) : option (list nat) :=
  if k <? 2 ^ N then Some (rev (bits_lsb N k)) else None.       (* assert index < 2**nqubits *)
(* int(s, 2) *)
Definition bits_to_index (s : list nat) : nat := fold_left (fun acc b => 2 * acc + b) s 0.

Section State.
Variable o : Kops.
Open Scope K_scope.
Notation zero := (k0 o).
Notation one := (k1 o).
Notation L := (list o).

(* ---- StateVector ----------------------------------------------------------------------------------- *)
(* _from_state_amplitudes before _normalize: zeros, then data[int(state,2)] = amplitude in dict order *)
Definition set_at (l : L) (i : nat) (x : o) : L := tab (length l) (fun k => if k =? i then x else get l k).
Definition from_amplitudes (N : nat) (amps : list (list nat * o)) : L :=
  fold_left (fun acc sa => set_at acc (bits_to_index (fst sa)) (snd sa)) amps (zeros (2 ^ N)).
(* torch.vdot(a, b) = sum conj(a_k) b_k *)
Definition vdot (a b : L) : o := ksumn (length a) (fun k => kconj o (get a k) * get b k).
Definition sv_inner (a b : L) : o := vdot a b.
Definition sv_add (a b : L) : L := vadd a b.
Definition sv_rmul (s : o) (a : L) : L := vscale s a.

(* ---- DensityMatrix ---------------------------------------------------------------------------------- *)
(* torch.outer(psi, psi.conj()) row-major *)
Definition from_state_vector (psi : L) : L :=
  let D := length psi in tab (D * D)%nat (fun k => get psi (k / D) * kconj o (get psi (k mod D))).
Definition dm_overlap (a b : L) : o := vdot a b.       (* vdot of the flattened matrices *)

(* ---- square matrices: (dimension, row-major data) ---------------------------------------------------- *)
Definition mat : Type := (nat * L)%type.
Definition mget (A : mat) (i j : nat) : o := get (snd A) (i * fst A + j).
Definition mtab (d : nat) (f : nat -> nat -> o) : mat := (d, tab (d * d) (fun k => f (k / d) (k mod d))).
Definition of_m2 (h : M2 o) : mat := mtab 2 (fun i j => m2 h i j).
(* torch.kron *)
Definition kron (A B : mat) : mat :=
  let da := fst A in let db := fst B in
  mtab (da * db) (fun i j => mget A (i / db) (j / db) * mget B (i mod db) (j mod db)).
Definition madd (A B : mat) : mat := mtab (fst A) (fun i j => mget A i j + mget B i j).
Definition mscale (s : o) (A : mat) : mat := mtab (fst A) (fun i j => s * mget A i j).
Definition matmul (A B : mat) : mat := mtab (fst A) (fun i j => ksumn (fst A) (fun k => mget A i k * mget B k j)).
Definition mapply (A : mat) (v : L) : L := tab (fst A) (fun i => ksumn (fst A) (fun k => mget A i k * get v k)).
Definition mexpect (A : mat) (v : L) : o := vdot v (mapply A v).

(* ---- operator representation ------------------------------------------------------------------------- *)
(* "xy" -> |x><y| with g = 0, r = 1;  QuditOp = [(x, y, coeff)];  result += tensor * coeff *)
Definition basis_op (x y : nat) : M2 o := m2tab (fun i j => if (i =? x) && (j =? y) then one else zero).
Definition build_qudit_op (terms : list (nat * nat * o)) : M2 o :=
  fold_left (fun acc t => let '(x, y, c) := t in m2tab (fun i j => m2 acc i j + m2 (basis_op x y) i j * c))
            terms m2zero.
Definition eye2 : M2 o := (one, zero, zero, one).
Fixpoint set_nth {A} (l : list A) (i : nat) (x : A) : list A :=
  match l, i with
  | [], _ => []
  | _ :: t, O => x :: t
  | h :: t, S i' => h :: set_nth t i' x
  end.
(* single_qubit_gates = [eye]*n; for (op, targets): for t in targets: gates[t] = build(op) *)
Definition tensor_gates (N : nat) (top : list (list (nat * nat * o) * list nat)) : list (M2 o) :=
  fold_left (fun gates ot => let f := build_qudit_op (fst ot) in
                             fold_left (fun g t => set_nth g t f) (snd ot) gates)
            top (repeat eye2 N).
(* reduce(torch.kron, gates) *)
Definition kron_all (gates : list (M2 o)) : mat :=
  match gates with
  | [] => mtab 1 (fun _ _ => one)
  | g :: gs => fold_left (fun acc h => kron acc (of_m2 h)) gs (of_m2 g)
  end.
(* DenseOperator._from_operator_repr: accum += coeff * reduce(kron, gates) *)
Definition dense_from_repr (N : nat) (ops : list (o * list (list (nat * nat * o) * list nat))) : mat :=
  fold_left (fun acc ct => madd acc (mscale (fst ct) (kron_all (tensor_gates N (snd ct)))))
            ops (mtab (2 ^ N) (fun _ _ => zero)).

(* ---- sparse COO: shape (rows, cols) and entries ((i,j), v); to_dense sums duplicates ------------------- *)
Definition coo : Type := (nat * nat * list (nat * nat * o))%type.
Definition coo_dense (S : coo) (i j : nat) : o :=
  let '(_, _, es) := S in ksum es (fun e => let '(a, b, v) := e in kif ((a =? i) && (b =? j)) v).
(* sparse_add: concatenate indices and values, coalesce *)
Definition sparse_add (A B : coo) : coo :=
  let '(ra, ca, ea) := A in let '(_, _, eb) := B in (ra, ca, ea ++ eb).
(* sparse_kron: i = sb * ia + ib ; v = outer(va, vb).flatten() *)
Definition sparse_kron (A B : coo) : coo :=
  let '(ra, ca, ea) := A in let '(rb, cb, eb) := B in
  ((ra * rb)%nat, (ca * cb)%nat,
   flat_map (fun x => let '(ia, ja, va) := x in
             map (fun y => let '(ib, jb, vb) := y in ((rb * ia + ib)%nat, (cb * ja + jb)%nat, va * vb)) eb) ea).
Definition coo_scale (s : o) (A : coo) : coo :=
  let '(r, c, es) := A in (r, c, map (fun e => let '(a, b, v) := e in (a, b, s * v)) es).
(* to_sparse_coo of a 2x2 matrix: its non-structural-zero entries (all four kept; zeros do not change to_dense) *)
Definition coo_of_m2 (h : M2 o) : coo :=
  (2, 2, [(0, 0, m2 h 0 0); (0, 1, m2 h 0 1); (1, 0, m2 h 1 0); (1, 1, m2 h 1 1)]).
Definition sparse_kron_all (gates : list (M2 o)) : coo :=
  match gates with
  | [] => (1, 1, [(0, 0, one)])
  | g :: gs => fold_left (fun acc h => sparse_kron acc (coo_of_m2 h)) gs (coo_of_m2 g)
  end.
Definition sparse_from_repr (N : nat) (ops : list (o * list (list (nat * nat * o) * list nat))) : coo :=
  fold_left (fun acc ct => sparse_add acc (coo_scale (fst ct) (sparse_kron_all (tensor_gates N (snd ct)))))
            ops (2 ^ N, 2 ^ N, []).
Definition coo_to_mat (S : coo) : mat := let '(r, _, _) := S in mtab r (fun i j => coo_dense S i j).

End State.

Arguments set_nth {A}.
