(* Hand model (formalism F3: bond tensors over an arbitrary commutative ring with involution, executed at the
   Gaussian integers) of the single-site expectation values of emu-mps:
     emu_mps/mps.py : MPS.expect_batch (both sweeps away from the orthogonality centre; torch.linalg.qr is an ORACLE
                      [qr : Mat -> Mat] returning the R factor, the code discards Q), the matrix action of MPS.apply
     emu_mps/custom_callback_implementations.py : qubit_occupation_mps_impl (operator |1><1|, one value per site)
   and the specification vocabulary used by Proofs/MpsObsProofs.v and Properties/C13.v (orthonormality of a factor,
   Gram matrix of a matrix, dense expectation value of a one-site operator).  Tied to the code by the exact
   Gaussian-integer correspondence of tools/props/c13.py (torch.linalg.qr interposed by the same integer oracles).
   No proofs in this file. *)
From Coq Require Import ZArith List Bool Arith.
From EV Require Import Model.TransferMat Model.MPSAlg.
Import ListNotations.
Set Implicit Arguments.

Section Obs.
Variable K : Type.
Variable Ko : RingOps K.
Local Notation "'zero'" := (k0 Ko).
Local Notation "'one'" := (k1 Ko).
Local Infix "[+]" := (kadd Ko) (at level 50, left associativity).
Local Infix "[*]" := (kmul Ko) (at level 40, left associativity).
Local Notation cj := (kconj Ko).
Local Notation sumn := (sumn Ko).
Local Notation sumL := (sumL Ko).
Local Notation T3 := (T3 K).

(* a matrix with explicit sizes; a one-site operator O[s][s'] = <s|O|s'> *)
Record Mat := MkMat { mr : nat; mc : nat; mf : nat -> nat -> K }.
Definition Op := nat -> nat -> K.
Definition op_of_list (rows : list (list K)) : Op := fun s s' => nth s' (nth s rows []) zero.

(* center_factor.view(-1, chi)  and  center_factor.view(chi_left, -1).mT *)
Definition mat_r (C : T3) : Mat := MkMat (dl C * dp C) (dr C) (fun i r => tf C (i / dp C) (i mod dp C) r).
Definition mat_l (C : T3) : Mat := MkMat (dp C * dr C) (dl C) (fun i l => tf C l (i / dr C) (i mod dr C)).

(* temp = tensordot(C.conj(), C, ([0, 2], [0, 2]));  tensordot(op, temp, dims=2) *)
Definition site_temp (C : T3) (s s' : nat) : K :=
  sumn (dl C) (fun l => sumn (dr C) (fun r => cj (tf C l s r) [*] tf C l s' r)).
Definition site_expect (C : T3) (O : Op) : K :=
  sumn (dp C) (fun s => sumn (dp C) (fun s' => O s s' [*] site_temp C s s')).

(* tensordot(r, A, dims=1)  and  tensordot(A, r, ([2], [1])) *)
Definition absorb_l (R : Mat) (A : T3) : T3 :=
  MkT3 (mr R) (dp A) (dr A) (fun k s r => sumn (dl A) (fun l => mf R k l [*] tf A l s r)).
Definition absorb_r (A : T3) (R : Mat) : T3 :=
  MkT3 (dl A) (dp A) (mr R) (fun l s k => sumn (dr A) (fun r => tf A l s r [*] mf R k r)).

Variable qr : Mat -> Mat.     (* the R factor returned by torch.linalg.qr *)

(* the centre tensors of the first loop (sites c, c+1, ..) and of the second loop (sites c-1, c-2, ..) *)
Fixpoint centres_r (C : T3) (rest : list T3) : list T3 :=
  C :: match rest with [] => [] | A :: rest' => centres_r (absorb_l (qr (mat_r C)) A) rest' end.
Fixpoint centres_l (C : T3) (revpre : list T3) : list T3 :=
  match revpre with
  | [] => []
  | A :: pre' => let C' := absorb_r A (qr (mat_l C)) in C' :: centres_l C' pre'
  end.

(* MPS.expect_batch with a declared orthogonality centre c: T[q][i]; None = IndexError (no factor c) *)
Definition expect_batch (c : nat) (fs : list T3) (ops : list Op) : option (list (list K)) :=
  match nth_error fs c with
  | None => None
  | Some C =>
      Some (map (fun X => map (site_expect X) ops)
                (rev (centres_l C (rev (firstn c fs))) ++ centres_r C (skipn (S c) fs)))
  end.

(* qubit_occupation_mps_impl: op[0, 1, 1] = 1; expect_batch(op).view(-1)  (the code then takes .real) *)
Definition n_op : Op := fun s s' => if (s =? 1) && (s' =? 1) then one else zero.
Definition occupation (c : nat) (fs : list T3) : option (list K) :=
  option_map (map (fun row => nth 0 row zero)) (expect_batch c fs [n_op]).

(* MPS.apply after its orthogonalize: factor <- operator @ factor *)
Definition apply_op (O : Op) (A : T3) : T3 :=
  MkT3 (dl A) (dp A) (dr A) (fun l s r => sumn (dp A) (fun s' => O s s' [*] tf A l s' r)).
Fixpoint app_at (q : nat) (O : Op) (fs : list T3) : list T3 :=
  match fs, q with
  | [], _ => []
  | A :: fs', 0 => apply_op O A :: fs'
  | A :: fs', S q' => A :: app_at q' O fs'
  end.

(* ---- specification vocabulary ------------------------------------------------------------------------------ *)
Definition delta (a b : nat) : K := if a =? b then one else zero.
(* columns of A[(l,s), r] orthonormal (sites left of the centre) / rows of A[l, (s,r)] orthonormal (right of it) *)
Definition left_orth (A : T3) : Prop := forall r r', r < dr A -> r' < dr A ->
  sumn (dl A) (fun l => sumn (dp A) (fun s => cj (tf A l s r) [*] tf A l s r')) = delta r r'.
Definition right_orth (A : T3) : Prop := forall l l', l < dl A -> l' < dl A ->
  sumn (dp A) (fun s => sumn (dr A) (fun r => cj (tf A l s r) [*] tf A l' s r)) = delta l l'.
(* (M^dagger M)[j][j'] ; what a QR factorisation M = Q R with Q^dagger Q = 1 preserves *)
Definition gram (M : Mat) (j j' : nat) : K := sumn (mr M) (fun k => cj (mf M k j) [*] mf M k j').
Definition qr_gram_ok : Prop := forall M j j', j < mc M -> j' < mc M -> gram (qr M) j j' = gram M j j'.
(* consecutive bonds fit, from left bond n to right bond m *)
Fixpoint bonds_ok (n : nat) (Ts : list T3) (m : nat) : Prop :=
  match Ts with [] => n = m | T :: Ts' => dl T = n /\ bonds_ok (dr T) Ts' m end.

Fixpoint set_nth (q s : nat) (b : list nat) : list nat :=
  match b, q with
  | [], _ => []
  | _ :: b', 0 => s :: b'
  | x :: b', S q' => x :: set_nth q' s b'
  end.
(* <psi| O_q |psi> = sum_b sum_s' conj(psi_b) O[b_q][s'] psi_{b[q := s']}  for amplitudes psi over the strings of
   physical dimensions ds *)
Definition dense_expect (psi : list nat -> K) (ds : list nat) (q : nat) (O : Op) : K :=
  sumL (strings ds) (fun b => sumn (nth q ds 0) (fun s' =>
    cj (psi b) [*] (O (nth q b 0) s' [*] psi (set_nth q s' b)))).

End Obs.

(* ---- execution at the Gaussian integers: the integer "QR" oracles of the correspondence ---------------------- *)
(* R = M (Q = identity): Gram-preserving *)
Definition qr_id (M : Mat GI) : Mat GI := M.
(* a deliberately wrong R of the reduced shape (min(m,n) rows): R[k][j] = (k+1) * M[m-1-k][j] + i * M[k][j] *)
Definition qr_mix (M : Mat GI) : Mat GI :=
  MkMat (Nat.min (mr M) (mc M)) (mc M)
        (fun k j => kadd gi_ops (kmul gi_ops (Z.of_nat (S k), 0%Z) (mf M (mr M - 1 - k) j))
                                (kmul gi_ops (0%Z, 1%Z) (mf M k j))).
Definition ops_of_raw (ops : list (list (list GI))) : list (Op GI) := map (op_of_list gi_ops) ops.
Definition t3s_of_raw (ts : list RawT) : list (T3 GI) := map of_raw ts.
