(* Executable model, continued (C12): the MEANING of an operator representation entry by entry, and the
   SparseOperator methods on COO data with torch's duplicate-summing semantics.  No proofs here; tied to /repo
   by the exact correspondence of tools/props/c12.py.
     - site_entry / repr_entry : what dense_operator.py / sparse_operator.py _from_operator_repr must produce,
       written directly from the representation (sum over terms of coeff * prod over qubits of the 2x2 element
       of the LAST tensor factor that targets the qubit, identity when none does);
     - coo_apply / coo_expect  : SparseOperator.apply_to / expect  (CSR @ vector: scatter-add of v[col] * value
       into row; duplicate (row, col) entries add up);
     - sparse_add / coo_scale (Model/SvState.v) : SparseOperator.__add__ / __rmul__. *)
From Coq Require Import List Arith Bool.
From EV Require Import Model.SvBase Model.SvState.
Import ListNotations.

Section Ops2.
Variable o : Kops.
Open Scope K_scope.
Notation zero := (k0 o).
Notation one := (k1 o).
Notation L := (list o).
Notation qop := (list (nat * nat * o)).                 (* QuditOp: [(x, y, coeff)] for "xy" -> coeff *)
Notation tensor := (list (qop * list nat)).             (* TensorOp: [(QuditOp, targets)] *)

(* element [a][b] of  sum_t coeff_t |x_t><y_t| *)
Definition qudit_entry (terms : qop) (a b : nat) : o :=
  ksum terms (fun t => let '(x, y, c) := t in kif ((a =? x) && (b =? y)) c).

(* the 2x2 factor acting on qubit q: the last (op, targets) with q among the targets wins; identity otherwise *)
Definition gate_at (top : tensor) (q : nat) : M2 o :=
  fold_left (fun g ot => if existsb (Nat.eqb q) (snd ot) then build_qudit_op o (fst ot) else g) top (eye2 o).
Definition site_entry (top : tensor) (q a b : nat) : o :=
  fold_left (fun e ot => if existsb (Nat.eqb q) (snd ot) then qudit_entry (fst ot) a b else e) top
            (if a =? b then one else zero).

Definition kprodl {A} (l : list A) (f : A -> o) : o := fold_right (fun a acc => f a * acc) one l.

(* <i| O |j> of the operator denoted by the representation, N qubits, qubit 0 most significant *)
Definition repr_entry (N : nat) (ops : list (o * tensor)) (i j : nat) : o :=
  ksum ops (fun ct => fst ct * kprodl (seq 0 N) (fun q => site_entry (snd ct) q (bit N q i) (bit N q j))).
Definition repr_mat (N : nat) (ops : list (o * tensor)) : mat o := mtab o (2 ^ N) (repr_entry N ops).

(* ---- SparseOperator on COO entries (duplicates allowed) ------------------------------------------------ *)
(* self.data @ other.data for a sparse matrix: out[a] += x * v[b] for every stored ((a, b), x) *)
Definition coo_apply (S : coo o) (v : L) : L :=
  let '(r, _, es) := S in
  tab r (fun i => ksum es (fun e => let '(a, b, x) := e in kif (a =? i) (x * get v b))).
(* torch.vdot(state, self.apply_to(state)) *)
Definition coo_expect (S : coo o) (v : L) : o := vdot o v (coo_apply S v).
(* every stored index lies inside the shape (torch.sparse_coo_tensor / to_dense require it) *)
Definition coo_in_shape (S : coo o) : bool :=
  let '(r, c, es) := S in forallb (fun e => let '(a, b, _) := e in (a <? r) && (b <? c)) es.

End Ops2.

Arguments kprodl {o A}.
