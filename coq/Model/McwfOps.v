(* C17: hand-written executable model of the quantum-jump ingredients of emu-mps
     NoisyMPSBackendImpl.init_lindblad_noise   (aggregated_lindblad_ops, lindblad_noise)
     NoisyMPSBackendImpl.do_random_quantum_jump (candidate list, weights, application of the jump)
   on DENSE state vectors of N qubits (dim = 2; qubit 0 most significant), over a ring with involution.
   The MPS of the code represents such a vector; tools/props/c17.py contracts the real MPS and compares
   (exact for init_lindblad_noise, 1e-9 relative for the weights / jumped state, which go through a QR).
   No proofs here. *)
From Coq Require Import List Arith Bool ZArith.
From EV Require Import Model.SvBase Model.SvHam.
Import ListNotations.

Section Mcwf.
Variable o : Kops.
Open Scope K_scope.

(* stacked.conj().transpose(1, 2) @ stacked : one matrix L_k^dagger L_k per jump operator, same order *)
Definition aggregate (Ls : list (M2 o)) : list (M2 o) := map (fun Lk => m2mul (m2mH Lk) Lk) Ls.
(* compute_noise_from_lindbladians(self.lindblad_ops, dim) : C06's model of the same function *)
Definition lindblad_noise (Ls : list (M2 o)) : M2 o := compute_noise o Ls.

(* (1 x .. x h x .. x 1) psi at index r: two terms *)
Definition site_act (N q : nat) (h : M2 o) (v : nat -> o) (r : nat) : o :=
  m2 h (bit N q r) 0 * v (setbit N q r 0) + m2 h (bit N q r) 1 * v (setbit N q r 1).
(* <psi| h_q |psi> *)
Definition expect_site (N q : nat) (h : M2 o) (psi : list o) : o :=
  ksumn (2 ^ N) (fun r => kconj o (get psi r) * site_act N q h (get psi) r).

(* state.expect_batch(aggregated_lindblad_ops).real.view(-1): row-major (qubit, operator) *)
Definition jump_weights (N : nat) (Ls : list (M2 o)) (psi : list o) : list o :=
  flat_map (fun q => map (fun A => expect_site N q A psi) (aggregate Ls)) (seq 0 N).
(* [(qubit, op) for qubit in range(num_sites) for op in lindblad_ops]   (op given by its index) *)
Definition jump_candidates (N K : nat) : list (nat * nat) :=
  flat_map (fun q => map (fun k => (q, k)) (seq 0 K)) (seq 0 N).

(* state.apply(q, L): the unnormalised jumped state *)
Definition apply_site (N q : nat) (h : M2 o) (psi : list o) : list o :=
  tab (2 ^ N) (site_act N q h (get psi)).
(* squared norm <psi|psi> *)
Definition norm2 (psi : list o) : o := ksumn (length psi) (fun r => kconj o (get psi r) * get psi r).
End Mcwf.

(* printing helpers for the correspondence *)
Definition m2_list {o : Kops} (m : M2 o) : list o := let '(a, b, c, d) := m in [a; b; c; d].
