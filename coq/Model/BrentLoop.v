(* Hand-written glue around the generated Brent class (Gen/Brent.v):
   the driver loop of `find_root_brents` and the incremental (one ordinate at a time) use made
   by the noisy emu-mps solver.  No proofs here. *)
From Coq Require Import ZArith List Bool.
From EV Require Import Base.Arith Gen.Brent.
Import ListNotations.
Set Implicit Arguments.

Section Loop.
Variable A : Type.
Variable ar : Arith A.

(* one round: ask for an abscissa, feed back the ordinate [y_of x] *)
Definition round (s : st A) (y_of : A -> A) : res (st A * A) :=
  res_bind (get_next_abscissa ar s) (fun '(s1, ox) =>
    match ox with
    | None => Err 1%Z
    | Some x => res_bind (provide_ordinate ar s1 x (y_of x)) (fun s2 => Ok (s2, x))
    end).

(* while not converged: round.  Mirrors the loop of find_root_brents. *)
Fixpoint find_root_loop (fuel : nat) (f : A -> A) (tol : A) (s : st A) : res (st A) :=
  match fuel with
  | O => OutOfFuel
  | S n =>
    res_bind (is_converged ar s tol) (fun '(s', c) =>
      if c then Ok s'
      else res_bind (round s' f) (fun '(s2, _) => find_root_loop n f tol s2))
  end.

Definition find_root (fuel : nat) (f : A -> A) (start end_ tol eps : A) : res A :=
  res_bind (init ar start end_ (f start) (f end_) eps) (fun s =>
  res_bind (find_root_loop fuel f tol s) (fun s' => Ok (f_current_guess s'))).

(* Incremental use: ordinates arrive one at a time from a script (whatever produced them).
   Returns the abscissas queried and the final outcome. The script plays the role of fuel. *)
Fixpoint run_script (ys : list A) (tol : A) (s : st A) : list A * res (st A) :=
  match is_converged ar s tol with
  | Ok (s', true) => ([], Ok s')
  | Ok (s', false) =>
    match ys with
    | [] => ([], OutOfFuel)
    | y :: ys' =>
      match round s' (fun _ => y) with
      | Ok (s2, x) => let '(xs, r) := run_script ys' tol s2 in (x :: xs, r)
      | Err m => ([], Err m)
      | OutOfFuel => ([], OutOfFuel)
      end
    end
  | Err m => ([], Err m)
  | OutOfFuel => ([], OutOfFuel)
  end.

End Loop.

Section Run.
Variable A : Type.
Variable ar : Arith A.

Definition summ (s : st A) : list A * bool :=
  ([f_a s; f_b s; f_fa s; f_fb s; f_c s; f_d s; f_fc s; f_current_guess s], f_bisection s).

(* outcome code: 0 = converged, -1 = script exhausted, n > 0 = Err n *)
Definition run_case (start end_ fs fe eps tol : A) (ys : list A)
  : list A * (Z * option (list A * bool)) :=
  match init ar start end_ fs fe eps with
  | Ok s =>
    let '(xs, r) := run_script ar ys tol s in
    (xs, match r with
         | Ok s' => (0%Z, Some (summ s'))
         | Err m => (m, None)
         | OutOfFuel => ((-1)%Z, None)
         end)
  | Err m => ([], (m, None))
  | OutOfFuel => ([], ((-1)%Z, None))
  end.
End Run.
