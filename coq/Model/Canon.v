(* Hand model for property C10 (truncation and canonical form of emu_mps.MPS):
     emu_mps/utils.py : _determine_cutoff_index (over [Arith A]: bit-exact at binary64, theorems at R),
                        split_matrix rank arithmetic, truncate_impl (sweep)
     emu_mps/mps.py   : orthogonalize, truncate, and the orthogonality_center bookkeeping of every public
                        operation; emu_mps/algebra.py zip_right, emu_mps/mpo.py apply_to
   Formalism F4: tensors are abstract; QR / eigh / zip-up kernels are Section oracles.  The instance
   [FT] (bond dimensions + claimed isometry flags) is executed and compared with measurements on the
   real objects by tools/props/c10.py.  No proofs in this file. *)
From Coq Require Import ZArith List Bool Arith.
From EV Require Import Base.Arith.
Import ListNotations.
Set Implicit Arguments.

(* ---------------- _determine_cutoff_index ---------------- *)
Section Cutoff.
Variable A : Type.
Variable ar : Arith A.

(* for i in range(len d): acc += d[i]; if acc > squared_max_error: return i   /  return 0 *)
Fixpoint cutoff_go (d : list A) (sq acc : A) (i : nat) : nat :=
  match d with
  | [] => 0
  | x :: d' => let acc' := a_add ar acc x in
               if a_ltb ar sq acc' then i else cutoff_go d' sq acc' (S i)
  end.

Definition determine_cutoff_index (d : list A) (max_error : A) : res nat :=
  if a_ltb ar (a_ofZ ar 0) max_error                       (* assert max_error > 0 *)
  then Ok (cutoff_go d (a_mul ar max_error max_error) (a_ofZ ar 0) 0)
  else Err 1%Z.
End Cutoff.

(* max_bond = max(cutoff, d.shape[0] - max_rank); kept columns = q[:, max_bond:] *)
Definition split_max_bond (cut len : nat) (max_rank : Z) : Z :=
  Z.max (Z.of_nat cut) (Z.of_nat len - max_rank).
Definition split_kept (cut len : nat) (max_rank : Z) : nat :=
  Z.to_nat (Z.of_nat len - split_max_bond cut len max_rank).

(* ---------------- canonical-form machine ---------------- *)
Fixpoint upd (T : Type) (i : nat) (x : T) (l : list T) : list T :=
  match l, i with
  | [], _ => []
  | _ :: l', O => x :: l'
  | y :: l', S j => y :: upd j x l'
  end.

Section Machine.
Variables T M Sl : Type.           (* MPS factors, MPO factors, zip-up sliders *)
(* oracles (numerical kernels); [x_into a b]: the non-isometric factor of [a] contracted into the neighbour [b] *)
Variable qr_q : T -> T.
Variable qr_r_into : T -> T -> T.
Variable lq_q : T -> T.
Variable lq_r_into : T -> T -> T.
Variable eig_ok : nat -> T -> bool.              (* is the kept rank offered by the environment admissible *)
Variable eig_right : nat -> T -> T.
Variable eig_left_into : nat -> T -> T -> T.
Variable scaleT : T -> T.
Variable applyT : T -> T.
Variable addT : nat -> T -> T -> option T.       (* 0 first / 1 middle / 2 last site of add_factors *)
Variable slider0 : Sl.
Variable zip_step : Sl -> M -> T -> option (T * Sl).
Variable zip_absorb : T -> Sl -> option T.

Record mps := MkMps { fac : list T; oc : option nat }.

Definition qr_step (i : nat) (fs : list T) : res (list T) :=
  match nth_error fs i, nth_error fs (S i) with
  | Some a, Some b => Ok (upd (S i) (qr_r_into a b) (upd i (qr_q a) fs))
  | _, _ => Err 2%Z
  end.
Fixpoint lr_sweep (i cnt : nat) (fs : list T) : res (list T) :=
  match cnt with O => Ok fs | S c => res_bind (qr_step i fs) (lr_sweep (S i) c) end.

Definition lq_step (i : nat) (fs : list T) : res (list T) :=
  match i with
  | O => Err 2%Z
  | S j => match nth_error fs i, nth_error fs j with
           | Some a, Some b => Ok (upd j (lq_r_into a b) (upd i (lq_q a) fs))
           | _, _ => Err 2%Z
           end
  end.
Fixpoint rl_sweep (i cnt : nat) (fs : list T) : res (list T) :=
  match cnt with O => Ok fs | S c => res_bind (lq_step i fs) (rl_sweep (pred i) c) end.

(* MPS.orthogonalize *)
Definition orthogonalize (c : nat) (m : mps) : res mps :=
  if c <? length (fac m) then
    let s1 := match oc m with Some k => k | None => 0 end in
    res_bind (lr_sweep s1 (c - s1) (fac m)) (fun fs1 =>
    let s2 := match oc m with Some k => k | None => length (fac m) - 1 end in
    res_bind (rl_sweep s2 (s2 - c) fs1) (fun fs2 => Ok (MkMps fs2 (Some c))))
  else Err 1%Z.

(* truncate_impl: for i in range(len-1, 0, -1): split factors[i], absorb into factors[i-1] *)
Definition eig_step (k i : nat) (fs : list T) : res (list T) :=
  match i with
  | O => Err 2%Z
  | S j => match nth_error fs i, nth_error fs j with
           | Some a, Some b =>
               if eig_ok k a then Ok (upd j (eig_left_into k a b) (upd i (eig_right k a) fs)) else Err 3%Z
           | _, _ => Err 2%Z
           end
  end.
Fixpoint trunc_sweep (i : nat) (ks : list nat) (fs : list T) : res (list T) :=
  match i, ks with
  | O, [] => Ok fs
  | S j, k :: ks' => res_bind (eig_step k i fs) (trunc_sweep j ks')
  | _, _ => Err 4%Z
  end.
Definition truncate_impl (ks : list nat) (fs : list T) : res (list T) :=
  trunc_sweep (length fs - 1) ks fs.

(* MPS.truncate *)
Definition truncate (ks : list nat) (m : mps) : res mps :=
  res_bind (orthogonalize (length (fac m) - 1) m) (fun m1 =>
  res_bind (truncate_impl ks (fac m1)) (fun fs => Ok (MkMps fs (Some 0)))).

(* add_factors on the abstract tensors *)
Fixpoint add_go (i n : nat) (A B : list T) : option (list T) :=
  match A, B with
  | a :: A', b :: B' =>
      match addT (if i =? 0 then 0 else if i =? n - 1 then 2 else 1) a b, add_go (S i) n A' B' with
      | Some c, Some C => Some (c :: C)
      | _, _ => None
      end
  | _, _ => Some []
  end.

(* zip_right: the zip-up loop, `new_factors[-1] @= slider[:, :, 0]`, truncate_impl *)
Fixpoint zip_go (s : Sl) (tops : list M) (fs : list T) : option (list T * Sl) :=
  match tops, fs with
  | [], [] => Some ([], s)
  | m :: tops', t :: fs' =>
      match zip_step s m t with
      | Some (q, s') => match zip_go s' tops' fs' with
                        | Some (qs, sf) => Some (q :: qs, sf)
                        | None => None
                        end
      | None => None
      end
  | _, _ => None
  end.
Definition zip_factors (tops : list M) (fs : list T) : option (list T) :=
  match zip_go slider0 tops fs with
  | Some (qs, sf) =>
      match nth_error qs (length qs - 1) with
      | Some lastq => match zip_absorb lastq sf with
                      | Some t => Some (upd (length qs - 1) t qs)
                      | None => None
                      end
      | None => None
      end
  | None => None
  end.

Inductive op :=
| OOrth (c : nat)                              (* orthogonalize(c) *)
| OTrunc (ks : list nat)                       (* truncate(); ks = kept ranks reported by the environment *)
| OAdd (other : list T) (ks : list nat)        (* self + other *)
| OScale                                       (* scalar * self *)
| OApply (q : nat)                             (* apply(q, op) *)
| OExpectBatch | ONorm | OSample               (* expect_batch / norm / sample *)
| OEntropy (site : nat)                        (* entanglement_entropy(site) *)
| OCorr                                        (* get_correlation_matrix *)
| OApplyTo (tops : list M) (ks : list nat)     (* mpo.apply_to(self) *)
| OInner.                                      (* inner / overlap / expect: no mutation *)

Fixpoint corr_loop (left cnt : nat) (m : mps) : res mps :=
  match cnt with
  | O => Ok m
  | S c => res_bind (orthogonalize left m) (corr_loop (S left) c)
  end.

Definition step (o : op) (m : mps) : res mps :=
  match o with
  | OOrth c => orthogonalize c m
  | OTrunc ks => truncate ks m
  | OAdd other ks =>
      if length (fac m) =? length other then
        match add_go 0 (length (fac m)) (fac m) other with
        | Some fs => truncate ks (MkMps fs None)
        | None => Err 5%Z
        end
      else Err 5%Z
  | OScale =>
      let which := match oc m with Some k => k | None => 0 end in
      match nth_error (fac m) which with
      | Some t => Ok (MkMps (upd which (scaleT t) (fac m)) (oc m))
      | None => Err 2%Z
      end
  | OApply q =>
      res_bind (orthogonalize q m) (fun m1 =>
      match nth_error (fac m1) q with
      | Some t => Ok (MkMps (upd q (applyT t) (fac m1)) (oc m1))
      | None => Err 2%Z
      end)
  | OExpectBatch | ONorm => match oc m with Some _ => Ok m | None => orthogonalize 0 m end
  | OSample => orthogonalize 0 m
  | OEntropy site => res_bind (orthogonalize site m) (orthogonalize 0)
  | OCorr => corr_loop 0 (length (fac m)) m
  | OApplyTo tops ks =>
      match zip_factors tops (fac m) with
      | Some qs => res_bind (truncate_impl ks qs) (fun fs => Ok (MkMps fs (Some 0)))
      | None => Err 6%Z
      end
  | OInner => Ok m
  end.

Fixpoint run (os : list op) (m : mps) : list (res mps) :=
  match os with
  | [] => []
  | o :: os' => match step o m with
                | Ok m' => Ok m' :: run os' m'
                | e => [e]
                end
  end.
End Machine.

(* ---------------- executable instance: bond dimensions and claimed isometry flags ---------------- *)
Record FT := MkFT { fl : nat; fr : nat; cL : bool; cR : bool }.
Definition FM := (nat * nat)%type.                (* MPO factor: left/right bond *)
Definition FS := (nat * nat * nat)%type.          (* slider: (rows, mpo bond, mps bond) *)

Section Inst.
Variable d : nat.          (* physical dimension *)
Variable max_rank : Z.     (* max_bond_dim in force for eigen-splits *)

Definition f_qr_q (t : FT) := MkFT (fl t) (Nat.min (fl t * d) (fr t)) true false.
Definition f_qr_r_into (a b : FT) := MkFT (Nat.min (fl a * d) (fr a)) (fr b) false false.
Definition f_lq_q (t : FT) := MkFT (Nat.min (d * fr t) (fl t)) (fr t) false true.
Definition f_lq_r_into (a b : FT) := MkFT (fl b) (Nat.min (d * fr a) (fl a)) false false.
(* admissible kept rank of split_matrix on the (l, d*r) matrix: what split_rank_bound guarantees *)
Definition f_eig_ok (k : nat) (t : FT) : bool :=
  (1 <=? k) && (k <=? d * fr t) && (Z.of_nat k <=? max_rank)%Z.
Definition f_eig_right (k : nat) (t : FT) := MkFT k (fr t) false true.
Definition f_eig_left_into (k : nat) (a b : FT) := MkFT (fl b) k false false.
Definition f_scale (t : FT) := MkFT (fl t) (fr t) false false.
Definition f_apply (t : FT) := MkFT (fl t) (fr t) false false.
Definition f_add (pos : nat) (a b : FT) : option FT :=
  match pos with
  | 0 => if fl a =? fl b then Some (MkFT (fl a) (fr a + fr b) false false) else None
  | 1 => Some (MkFT (fl a + fl b) (fr a + fr b) false false)
  | _ => if fr a =? fr b then Some (MkFT (fl a + fl b) (fr a) false false) else None
  end.
Definition f_slider0 : FS := (1, 1, 1).
Definition f_zip_step (s : FS) (m : FM) (t : FT) : option (FT * FS) :=
  match s, m with
  | (s0, sw, sb), (wl, wr) =>
      if (sw =? wl) && (sb =? fl t) then
        let k := Nat.min (s0 * d) (wr * fr t) in
        Some (MkFT s0 k true false, (k, wr, fr t))
      else None
  end.
Definition f_zip_absorb (t : FT) (s : FS) : option FT :=
  match s with (s0, sw, sb) => if (sw =? 1) && (sb =? 1) then Some (MkFT (fl t) 1 false false) else None end.

Definition f_step := @step FT FM FS f_qr_q f_qr_r_into f_lq_q f_lq_r_into f_eig_ok f_eig_right f_eig_left_into
                           f_scale f_apply f_add f_slider0 f_zip_step f_zip_absorb.
Definition f_run := @run FT FM FS f_qr_q f_qr_r_into f_lq_q f_lq_r_into f_eig_ok f_eig_right f_eig_left_into
                         f_scale f_apply f_add f_slider0 f_zip_step f_zip_absorb.
End Inst.

(* observation printed for the correspondence: (bond dims incl. boundaries, claimed L flags, claimed R flags, centre) *)
Definition observe (m : mps FT) : list nat * list bool * list bool * option nat :=
  (match fac m with [] => [] | t :: _ => fl t :: map fr (fac m) end, map cL (fac m), map cR (fac m), oc m).
Definition observe_res (r : res (mps FT)) : option (list nat * list bool * list bool * option nat) :=
  match r with Ok m => Some (observe m) | _ => None end.
