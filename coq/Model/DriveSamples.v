(* Executable model of emu_base/pulser_adapter.py:_extract_omega_delta_phi, over [Arith A], using the
   PCHIP model of Model/Pchip.v (C20).  Input = what the function reads from Pulser:
     samples      : the nested dict  to_nested_dict(all_local=True)["Local"][basis]
                    as an association list  qubit id -> (amp, det, phase) sample lists (1 ns grid),
     qubit_ids    : the register's qubit ids (ids are encoded as integers by the harness),
     tt           : target_times,
     max_duration : noisy_samples.max_duration.
   Output = the columns (one list per kept qubit, one entry per time step) of omega, delta, phi
   (their real parts; the source casts to complex128 with zero imaginary part).
   Two switches: the model of the call made by PulserData.get_sequences today is
   [extract] = [extract_with true true]:
     all_rows  : clamp every amplitude row at 0 (false = before the fix of F-09, /repo 085d359: only the
                 last row was clamped)
     all_atoms : the keyword all_register_atoms of the source (fix of F-05, /repo 8603313): true = one
                 column per register atom, zero for atoms no channel addresses (what get_sequences
                 passes); false = the keyword's default, columns only for addressed atoms
   No proofs here. *)
From Coq Require Import ZArith List Bool.
From EV Require Import Base.Arith Model.Pchip.
Import ListNotations.
Set Implicit Arguments.

Section Extract.
Variable A : Type.
Variable ar : Arith A.

Definition half : A := a_div ar (c1 ar) (c2 ar).          (* 0.5 *)

(* t_mid = 0.5 * (target_t[:-1] + target_t[1:]) *)
Fixpoint midpoints (tt : list A) : list A :=
  match tt with
  | t0 :: ((t1 :: _) as r) => a_mul ar half (a_add ar t0 t1) :: midpoints r
  | _ => []
  end.

(* t_grid = torch.arange(max_duration) *)
Fixpoint grid_from (z : Z) (n : nat) : list A :=
  match n with
  | O => []
  | S n' => a_ofZ ar z :: grid_from (z + 1) n'
  end.

(* torch.where(v > 0, v, 0) *)
Definition clamp0 (v : A) : A := if a_ltb ar (c0 ar) v then v else c0 ar.

Fixpoint clamp_last (l : list A) : list A :=
  match l with
  | [] => []
  | [v] => [clamp0 v]
  | v :: r => v :: clamp_last r
  end.

Definition sample_t : Type := (list A * list A * list A)%type.

Fixpoint lookup (q : Z) (samples : list (Z * sample_t)) : option sample_t :=
  match samples with
  | [] => None
  | (k, v) :: r => if Z.eqb k q then Some v else lookup q r
  end.

Definition addressed (samples : list (Z * sample_t)) (q : Z) : bool :=
  match lookup q samples with Some _ => true | None => false end.

(* one output column: PCHIP1D(t_grid, signal)(t_mid), then the amplitude clamp *)
Definition column (all_rows : bool) (grid sig tmid : list A) (is_amp : bool) : res (list A) :=
  res_bind (pchip_call ar grid sig tmid) (fun v =>
    Ok (if is_amp then (if all_rows then map clamp0 v else clamp_last v) else v)).

Fixpoint mapM {T U} (f : T -> res U) (l : list T) : res (list U) :=
  match l with
  | [] => Ok []
  | x :: r => res_bind (f x) (fun y => res_bind (mapM f r) (fun ys => Ok (y :: ys)))
  end.

Definition zeros (n : nat) : list A := repeat (c0 ar) n.

Definition quantity (all_rows all_atoms : bool) (samples : list (Z * sample_t)) (qubit_ids : list Z)
    (grid tmid : list A) (sel : sample_t -> list A) (is_amp : bool) : res (list (list A)) :=
  if all_atoms then
    mapM (fun q => match lookup q samples with
                   | Some s => column all_rows grid (sel s) tmid is_amp
                   | None => Ok (zeros (length tmid))
                   end) qubit_ids
  else
    mapM (fun q => match lookup q samples with
                   | Some s => column all_rows grid (sel s) tmid is_amp
                   | None => Ok []      (* unreachable: q was filtered *)
                   end) (filter (addressed samples) qubit_ids).

Definition sel_amp (s : sample_t) : list A := fst (fst s).
Definition sel_det (s : sample_t) : list A := snd (fst s).
Definition sel_phase (s : sample_t) : list A := snd s.

(* Err 10: assert noisy_samples.max_duration == target_times[-1];
   Err 1/2/3: ValueError raised by PCHIP1D (length mismatch / < 2 samples / grid not increasing) *)
Definition extract_with (all_rows all_atoms : bool) (samples : list (Z * sample_t)) (qubit_ids : list Z)
    (tt : list A) (max_duration : Z) : res (list (list A) * list (list A) * list (list A)) :=
  if negb (a_eqb ar (a_ofZ ar max_duration) (last tt (c0 ar))) then Err 10%Z
  else
    let tmid := midpoints tt in
    let grid := grid_from 0%Z (Z.to_nat max_duration) in
    res_bind (quantity all_rows all_atoms samples qubit_ids grid tmid sel_amp true) (fun om =>
    res_bind (quantity all_rows all_atoms samples qubit_ids grid tmid sel_det false) (fun de =>
    res_bind (quantity all_rows all_atoms samples qubit_ids grid tmid sel_phase false) (fun ph =>
    Ok (om, de, ph)))).

(* THE MODEL OF THE SOURCE AS IT IS TODAY, called as get_sequences calls it
   (bit-exact correspondence in ./check C22, also for the keyword's default [extract_with true false]). *)
Definition extract := extract_with true true.

End Extract.
