(* Executable model of the bad-atom handling of emu-mps (C25):
   - MPSBackendImpl.init_dark_qubits + _get_interaction_matrix + update_H: which drive columns and which
     interaction entries reach make_H / update_H (on top of the routing model Model/QubitOrder.v, variant [fixed]);
   - emu_mps/utils.py: extended_mps_factors / extended_mpo_factors (on tensor SHAPES) and get_extended_site_index;
   - the guards on the way from create_impl to the first fill_results (which masks are accepted).
   No proofs here; tied to /repo by the exact correspondence of tools/props/c25.py. *)
From Coq Require Import ZArith List Bool Arith.
From EV Require Import Base.Arith Model.Permutations Model.Optimiser Model.QubitOrder.
Import ListNotations.
Open Scope nat_scope.

Definition E_MASK_SHAPE : Z := 2511%Z.   (* IndexError: boolean mask of the wrong length *)
Definition E_ASSERT : Z := 2512%Z.       (* AssertionError *)
Definition E_ONE_QUBIT : Z := 2513%Z.    (* ValueError: For 1 qubit states, do state vector *)
Definition E_BASIS : Z := 2514%Z.        (* ValueError: Unsupported basis provided *)
Definition E_NOTIMPL : Z := 2515%Z.      (* NotImplementedError: initial state + state preparation errors *)
Definition E_VALUE : Z := 2516%Z.        (* ValueError: Index does not exist *)

(* x[mask] for a boolean mask *)
Definition filter_mask {A} (keep : list bool) (l : list A) : list A := map snd (filter fst (combine keep l)).
Definition filter_mask_checked {A} (keep : list bool) (l : list A) : res (list A) :=
  if length keep =? length l then Ok (filter_mask keep l) else Err E_MASK_SHAPE.

(* init_dark_qubits: well_prepared_qubits_filter = logical_not(permute_tuple(bad_atoms, perm)), or None *)
Definition mps_filter (spe_pos : bool) (perm : list nat) (bad : list bool) : res (option (list bool)) :=
  if spe_pos then res_bind (site_bad fixed perm bad) (fun b => Ok (Some (map negb b))) else Ok None.

(* the row of omega (delta, phi) handed to update_H *)
Definition mps_dark_drive (spe_pos : bool) (perm : list nat) (bad : list bool) (row : list Z) : res (list Z) :=
  res_bind (site_drive fixed perm row) (fun r =>
  res_bind (mps_filter spe_pos perm bad) (fun f =>
  match f with Some keep => filter_mask_checked keep r | None => Ok r end)).

(* the matrix handed to make_H:  matrix[filter, :][:, filter]  of the permuted matrix *)
Definition mps_dark_interaction (spe_pos : bool) (perm : list nat) (bad : list bool) (m : list (list Z))
  : res (list (list Z)) :=
  res_bind (site_interaction perm m) (fun m' =>
  res_bind (mps_filter spe_pos perm bad) (fun f =>
  match f with
  | Some keep => res_bind (filter_mask_checked keep m') (fun rows => mapM (filter_mask_checked keep) rows)
  | None => Ok m'
  end)).

(* self.qubit_count after init_dark_qubits *)
Definition mps_dark_count (spe_pos : bool) (perm : list nat) (bad : list bool) : res nat :=
  res_bind (mps_filter spe_pos perm bad) (fun f =>
  match f with Some keep => Ok (count_occ bool_dec keep true) | None => Ok (length perm) end).

(* ---- padding (emu_mps/utils.py), on shapes (left bond, physical dimension, right bond) ------------------- *)
Definition shape : Type := (nat * nat * nat)%type.
Definition s_left (s : shape) : nat := fst (fst s).
Definition s_phys (s : shape) : nat := snd (fst s).
Definition s_right (s : shape) : nat := snd s.

(* physical dimension of the inserted factors.  [pad_fixed = false]: the tree as first analysed (hard-coded 2, F-14);
   [pad_fixed = true]: taken from the first factor (proposed_fixes/mps-qutrit-bad-atom.diff).  tools/props/c25.py
   determines on every run which variant the real code follows. *)
Definition pad_phys (pad_fixed : bool) (factors : list shape) : nat :=
  if pad_fixed then match factors with f :: _ => s_phys f | [] => 2 end else 2.

(* the loop of extended_mps_factors; the flag says "inserted |g> factor" *)
Fixpoint ext_loop (pd : nat) (rest : list shape) (bond : nat) (wh : list bool) : res (list (bool * shape)) :=
  match wh with
  | [] => Ok []
  | true :: w =>
      match rest with
      | [] => Err E_INDEX
      | f :: rest' => res_bind (ext_loop pd rest' (s_right f) w) (fun r => Ok ((false, f) :: r))
      end
  | false :: w =>
      match rest with
      | [] => res_bind (ext_loop pd [] 1 w) (fun r => Ok ((true, (bond, pd, 1)) :: r))
      | _ => res_bind (ext_loop pd rest bond w) (fun r => Ok ((true, (bond, pd, bond)) :: r))
      end
  end.
Definition count_true (l : list bool) : nat := count_occ bool_dec l true.
Definition extended_mps_shapes (pad_fixed : bool) (factors : list shape) (wh : list bool) : res (list (bool * shape)) :=
  if length factors =? count_true wh then ext_loop (pad_phys pad_fixed factors) factors 1 wh else Err E_ASSERT.

(* MPS.__init__ assertions on the shapes of the factors *)
Fixpoint bonds_match (l : list shape) : bool :=
  match l with
  | a :: ((b :: _) as t) => (s_right a =? s_left b) && bonds_match t
  | _ => true
  end.
Definition mps_ctor_ok (dim : nat) (l : list shape) : res unit :=
  match l with
  | [] => Err E_INDEX
  | f0 :: _ =>
      if negb (bonds_match l) then Err E_ASSERT
      else if negb ((s_left f0 =? 1) && (s_right (last l f0) =? 1)) then Err E_ASSERT
      else if negb (1 <? length l) then Err E_ASSERT
      else if negb (forallb (fun f => s_phys f =? dim) l) then Err E_ASSERT
      else Ok tt
  end.

(* get_extended_site_index(where, desired_index) *)
Fixpoint ext_index_loop (wh : list bool) (pos : nat) (remaining : nat) : res nat :=
  match wh with
  | [] => Err E_VALUE
  | true :: w => match remaining with O => Ok pos | S r => ext_index_loop w (S pos) r end
  | false :: w => ext_index_loop w (S pos) remaining
  end.
Definition extended_site_index (wh : list bool) (desired : nat) : res nat := ext_index_loop wh 0 desired.

(* ---- which (mask, basis, initial state) combinations reach the first observable -------------------------------
   create_impl -> __init__ (assert qubit_count >= 2) -> init_dark_qubits -> init_initial_state
   (MPS.make raises for <= 1 site / unknown basis; NotImplementedError for initial state + filter)
   -> fill_results (extended_mps_factors + MPS(...): the inserted factors have physical dimension 2). *)
Definition mps_accepts (pad_fixed : bool) (n dim : nat) (spe_pos has_init : bool) (bad : list bool) : res unit :=
  if negb (2 <=? n) then Err E_ASSERT
  else
    let good := if spe_pos then count_true (map negb bad) else n in
    if has_init then (if spe_pos then Err E_NOTIMPL else Ok tt)
    else if good <=? 1 then Err E_ONE_QUBIT
    else if negb ((dim =? 2) || (dim =? 3)) then Err E_BASIS
    else if negb pad_fixed && spe_pos && existsb (fun b => b) bad && negb (dim =? 2) then Err E_ASSERT
    else Ok tt.
