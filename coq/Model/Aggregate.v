(* Hand-written model (H-tie) of the multi-trajectory plumbing:
     - PulserData.get_sequences: the `for _ in range(samples.reps): yield SequenceData(...)` expansion
       (/repo/emu_base/pulser_adapter.py),
     - SVBackend.run / MPSBackend.run: results = [run(sd) for sd in get_sequences()]; Results.aggregate(results),
     - pulser 1.9.1 Results.aggregate with the MEAN and BAG_UNION aggregators
       (pulser/backend/results.py, aggregators.py),
     - emu-sv's in-place zeroing of the drive columns of badly prepared atoms on tensors shared by the
       repetitions of one trajectory (SVBackendImpl.init_dark_qubits).
   Observable values are vectors over Q (mean) or bags of (bitstring code, count) (bag union).
   No proofs in this file. *)
From Coq Require Import ZArith QArith List Bool.
From EV Require Import Base.Arith.
Import ListNotations.
Open Scope Z_scope.

(* ---- get_sequences ----------------------------------------------------------------------- *)
Definition expand {T : Type} (trajs : list (T * nat)) : list T :=
  flat_map (fun tr => repeat (fst tr) (snd tr)) trajs.

(* ---- dark-atom zeroing on shared rows --------------------------------------------------------- *)
(* row[bad] = zero, mask and row of equal length (torch raises otherwise) *)
Fixpoint zero_cols {T : Type} (z : T) (m : list bool) (r : list T) : list T :=
  match m, r with
  | b :: m', x :: r' => (if b then z else x) :: zero_cols z m' r'
  | _, _ => r
  end.

(* ---- Results ----------------------------------------------------------------------------------- *)
Inductive method := SKIP | SKIP_WARN | MEAN | BAG_UNION | MEANSTD.
Definition method_eqb (a b : method) : bool :=
  match a, b with
  | SKIP, SKIP | SKIP_WARN, SKIP_WARN | MEAN, MEAN | BAG_UNION, BAG_UNION | MEANSTD, MEANSTD => true
  | _, _ => false
  end.
Definition is_skip (m : method) : bool := match m with SKIP | SKIP_WARN => true | _ => false end.

Definition bag := list (Z * Z).                 (* Counter: (key, count) pairs, keys may repeat *)
Inductive value := VNum (v : list Q) | VBag (b : bag).

Record entry := MkE {
  e_tag : Z;                (* observable tag *)
  e_uid : Z;                (* observable uuid *)
  e_meth : method;          (* _aggregation_methods[uuid] *)
  e_times : list Z;         (* _times[uuid], each time coded by its binary64 bit pattern *)
  e_vals : list value;      (* _results[uuid] *)
}.
Record results := MkR { r_order : list Z; r_dur : Z; r_entries : list entry }.

Definition lookup_tag (tag : Z) (es : list entry) : option entry :=
  find (fun e => e_tag e =? tag) es.

Fixpoint index_of (t : Z) (l : list Z) : option nat :=
  match l with
  | [] => None
  | x :: r => if x =? t then Some O else option_map S (index_of t r)
  end.

(* Results.get_result(tag, t) *)
Definition get_result (r : results) (tag t : Z) : option value :=
  match lookup_tag tag (r_entries r) with
  | Some e => match index_of t (e_times e) with Some i => nth_error (e_vals e) i | None => None end
  | None => None
  end.

Definition has_tag (r : results) (tag : Z) : bool :=
  match lookup_tag tag (r_entries r) with Some _ => true | None => false end.

(* ---- aggregators ------------------------------------------------------------------------------ *)
Fixpoint vadd (a b : list Q) : list Q :=
  match a, b with
  | x :: a', y :: b' => (x + y)%Q :: vadd a' b'
  | _, _ => []
  end.

(* sum of vectors of the length of the first one; np.mean(values, axis=0) *)
Definition vsum (vs : list (list Q)) : list Q :=
  match vs with
  | [] => []
  | v :: r => fold_left vadd r v
  end.
Definition mean_vec (vs : list (list Q)) : list Q :=
  map (fun s => (s / inject_Z (Z.of_nat (length vs)))%Q) (vsum vs).

Definition E_EMPTY := 1.       (* "No results to aggregate." *)
Definition E_TAG := 2.         (* result not present in all results and not marked to be skipped *)
Definition E_METHOD := 3.      (* not the same aggregation functions *)
Definition E_ORDER := 4.       (* not the same atom order *)
Definition E_DURATION := 5.    (* not the same sequence duration *)
Definition E_TIMES := 6.       (* the times are not all the same *)
Definition E_VALUE := 7.       (* value missing / of the wrong kind for the aggregator *)
Definition E_UNSUPPORTED := 8. (* MEANSTD: outside this model *)

Fixpoint mapM {X Y : Type} (f : X -> res Y) (l : list X) : res (list Y) :=
  match l with
  | [] => Ok []
  | x :: r => res_bind (f x) (fun y => res_bind (mapM f r) (fun ys => Ok (y :: ys)))
  end.

Definition as_num (v : value) : res (list Q) := match v with VNum x => Ok x | VBag _ => Err E_VALUE end.
Definition as_bag (v : value) : res bag := match v with VBag b => Ok b | VNum _ => Err E_VALUE end.

Definition same_length (vs : list (list Q)) : bool :=
  match vs with [] => true | v :: r => forallb (fun w => Nat.eqb (length w) (length v)) r end.

Definition agg_fun (m : method) (vals : list value) : res value :=
  match m with
  | MEAN => res_bind (mapM as_num vals) (fun vs =>
              if same_length vs then Ok (VNum (mean_vec vs)) else Err E_VALUE)
  | BAG_UNION => res_bind (mapM as_bag vals) (fun bs => Ok (VBag (concat bs)))
  | MEANSTD => Err E_UNSUPPORTED
  | _ => Err E_VALUE
  end.

Definition list_eqb (a b : list Z) : bool :=
  (Nat.eqb (length a) (length b)) && forallb (fun p => fst p =? snd p) (combine a b).

(* value stored by the aggregate for (tag, t): f([result.get_result(tag, t) for result in results]) *)
Definition agg_value (rs : list results) (m : method) (tag t : Z) : res value :=
  res_bind (mapM (fun r => match get_result r tag t with Some v => Ok v | None => Err E_VALUE end) rs)
           (agg_fun m).

Definition times_of (r : results) (tag : Z) : list Z :=
  match lookup_tag tag (r_entries r) with Some e => e_times e | None => [] end.
Definition uid_of (r : results) (tag : Z) : Z :=
  match lookup_tag tag (r_entries r) with Some e => e_uid e | None => -1 end.
Definition meth_of (r : results) (tag : Z) : option method :=
  match lookup_tag tag (r_entries r) with Some e => Some (e_meth e) | None => None end.

Definition FRESH_UID := 0.   (* uuid.uuid4() when the runs used different observable instances *)

Definition build_entry (rs : list results) (r0 : results) (e0 : entry) : res entry :=
  let tag := e_tag e0 in
  let times := e_times e0 in
  if negb (forallb (fun r => list_eqb (times_of r tag) times) rs) then Err E_TIMES
  else
    let uid := if forallb (fun r => uid_of r tag =? e_uid e0) rs then e_uid e0 else FRESH_UID in
    res_bind (mapM (agg_value rs (e_meth e0) tag) times) (fun vals =>
    Ok (MkE tag uid (e_meth e0) times vals)).

(* Results.aggregate(results_to_aggregate) with default aggregation functions *)
Definition aggregate (rs : list results) : res results :=
  match rs with
  | [] => Err E_EMPTY
  | [r] => Ok r
  | r0 :: _ =>
    let common := fun tag => forallb (fun r => has_tag r tag) rs in
    if negb (forallb (fun r => forallb (fun e => common (e_tag e) || is_skip (e_meth e)) (r_entries r)) rs)
    then Err E_TAG
    else if negb (forallb (fun r => forallb (fun e =>
              negb (common (e_tag e)) ||
              match meth_of r (e_tag e), meth_of r0 (e_tag e) with
              | Some a, Some b => method_eqb a b | _, _ => false end) (r_entries r)) rs)
    then Err E_METHOD
    else if negb (forallb (fun r => list_eqb (r_order r) (r_order r0)) rs) then Err E_ORDER
    else if negb (forallb (fun r => r_dur r =? r_dur r0) rs) then Err E_DURATION
    else
      let todo := filter (fun e => common (e_tag e) && negb (is_skip (e_meth e))) (r_entries r0) in
      res_bind (mapM (build_entry rs r0) todo) (fun es => Ok (MkR (r_order r0) (r_dur r0) es))
  end.

(* backend.run(): one result per yielded SequenceData, then aggregate *)
Definition run_all {T : Type} (runner : T -> results) (trajs : list (T * nat)) : res results :=
  aggregate (map runner (expand trajs)).

(* ---- bags ---------------------------------------------------------------------------------------- *)
Definition bag_total (b : bag) : Z := fold_right (fun p acc => snd p + acc) 0 b.
Definition bag_count (k : Z) (b : bag) : Z :=
  fold_right (fun p acc => (if fst p =? k then snd p else 0) + acc) 0 b.

(* ---- encoding used by the correspondence ---------------------------------------------------- *)
Definition meth_code (m : method) : Z :=
  match m with SKIP => 0 | SKIP_WARN => 1 | MEAN => 2 | BAG_UNION => 3 | MEANSTD => 4 end.
Definition dump_value (v : value) : Z * list (Z * Z) :=
  match v with
  | VNum q => (0, map (fun x => (Qnum x, Zpos (Qden x))) q)
  | VBag b => (1, b)
  end.
Definition dump_entry (e : entry) := (e_tag e, e_uid e, meth_code (e_meth e), e_times e, map dump_value (e_vals e)).
Definition dump (r : res results) :=
  match r with
  | Ok x => (0, (r_order x, r_dur x, map dump_entry (r_entries x)))
  | Err m => (m, ([], 0, []))
  | OutOfFuel => (-2, ([], 0, []))
  end.
