(* C33/C04 — hand-written glue around the generated dispatcher (Gen/Dispatch.v): definitions only. *)
From Coq Require Import ZArith Bool List String.
From EV Require Import Base.Arith Gen.Dispatch.
Import ListNotations.
Open Scope string_scope.

(* exception class of a failed construction (Err codes are class*100000 + source line) *)
Definition err_class {T} (r : res T) : option Z :=
  match r with Err m => Some (m / 100000)%Z | _ => None end.

(* What MPSBackend._run_from_sequence_data does before any time step: create_impl picks the
   implementation class, whose constructor may refuse (only DMRGBackendImpl has a guard). *)
Definition mps_select (has_lindblad solver_is_dmrg : bool) (noise_types : list string) : res impl_kind :=
  match create_impl has_lindblad solver_is_dmrg with
  | ImplDMRG => res_bind (dmrg_init_guard noise_types) (fun _ => Ok ImplDMRG)
  | k => Ok k
  end.

(* the dispatcher sends every DMRG request to the DMRG constructor (whole domain: 2 cases) *)
Definition dmrg_dispatch_ok : bool :=
  forallb (fun hl => match create_impl hl true with ImplDMRG => true | _ => false end) [true; false].
