(* C31 — a small model of how Python binds the arguments of a call to a signature, and PEP 440
   `>=`-style version comparison on release tuples.  Definitions only. *)
From Coq Require Import Bool List String Arith.
Import ListNotations.
Open Scope nat_scope.

(* a parameter: name and whether it has a default *)
Definition param := (string * bool)%type.
Record psig := MkSig {
  s_pos : list param;      (* positional-or-keyword parameters, in order (without self) *)
  s_kwonly : list param;   (* keyword-only parameters *)
  s_varargs : bool;        (* *args present *)
  s_varkw : bool;          (* **kwargs present *)
}.
Record pcall := MkCall {
  c_id : string;           (* where the call is (for reports) *)
  c_npos : nat;            (* number of positional arguments *)
  c_kws : list string;     (* keyword argument names, in order *)
}.

Definition mem (x : string) (l : list string) : bool := existsb (String.eqb x) l.
Definition names (ps : list param) : list string := map fst ps.
Definition all_names (s : psig) : list string := names (s_pos s) ++ names (s_kwonly s).

Inductive outcome := BindOk | TypeErr (why : nat).
(* 1 too many positional arguments; 2 multiple values for an argument; 3 unexpected keyword;
   4 missing required argument *)

(* keywords are bound one after the other, as CPython does *)
Fixpoint bind_kws (s : psig) (filled : list string) (kws : list string) : list string + nat :=
  match kws with
  | [] => inl filled
  | k :: rest =>
      if mem k filled then inr 2
      else if mem k (all_names s) then bind_kws s (k :: filled) rest
      else if s_varkw s then bind_kws s (k :: filled) rest
      else inr 3
  end.

Definition binds (s : psig) (c : pcall) : outcome :=
  if (List.length (s_pos s) <? c_npos c) && negb (s_varargs s) then TypeErr 1
  else
    match bind_kws s (firstn (c_npos c) (names (s_pos s))) (c_kws c) with
    | inr e => TypeErr e
    | inl filled =>
        if forallb (fun p : param => snd p || mem (fst p) filled) (s_pos s ++ s_kwonly s)
        then BindOk else TypeErr 4
    end.

(* declarative conformance check of a call against a signature *)
Fixpoint nodupb (l : list string) : bool :=
  match l with [] => true | x :: r => negb (mem x r) && nodupb r end.

Definition call_ok (s : psig) (c : pcall) : bool :=
  let given := firstn (c_npos c) (names (s_pos s)) in
  ((c_npos c <=? List.length (s_pos s)) || s_varargs s)
  && nodupb (c_kws c)
  && forallb (fun k => negb (mem k given) && (mem k (all_names s) || s_varkw s)) (c_kws c)
  && forallb (fun p : param => snd p || mem (fst p) (given ++ c_kws c)) (s_pos s ++ s_kwonly s).

Definition all_calls_ok (l : list (psig * pcall)) : bool :=
  forallb (fun sc => call_ok (fst sc) (snd sc)) l.

(* ---- versions (PEP 440 release segments; pre/post/dev releases are outside the model) -------- *)
Definition version := list nat.
Fixpoint ver_leb (a b : version) : bool :=   (* a <= b, missing components count as 0 *)
  match a, b with
  | [], _ => true
  | x :: a', [] => (x =? 0) && ver_leb a' []
  | x :: a', y :: b' => (x <? y) || ((x =? y) && ver_leb a' b')
  end.
Definition ver_eqb (a b : version) : bool := ver_leb a b && ver_leb b a.

Inductive vop := GE | GT | LE | LT | EQ | NE.
Definition clause := (vop * version)%type.
Definition clause_admits (c : clause) (v : version) : bool :=
  match fst c with
  | GE => ver_leb (snd c) v
  | GT => ver_leb (snd c) v && negb (ver_eqb (snd c) v)
  | LE => ver_leb v (snd c)
  | LT => ver_leb v (snd c) && negb (ver_eqb (snd c) v)
  | EQ => ver_eqb (snd c) v
  | NE => negb (ver_eqb (snd c) v)
  end.
Definition admits (spec : list clause) (v : version) : bool := forallb (fun c => clause_admits c v) spec.
