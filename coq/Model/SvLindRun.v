(* C16: hand-written executable model of the density-matrix branch of emu-sv.
   (a) EvolveDensityMatrix.apply (emu_sv/time_evolution.py): the operator handed to krylov_exp and the
       krylov_exp arguments;  (b) SVBackendImpl._run / step / _compute_dt / _evolve_step
       (emu_sv/sv_backend_impl.py): which row, time step and interaction-matrix query time each step uses and
       which state every evaluation index sees.
   Tied to /repo by the correspondences of tools/props/c16.py (exact at the dyadic Gaussian rationals for (a),
   bit-exact PrimFloat for (b)).  No proofs here. *)
From Coq Require Import List Arith Bool ZArith.
From EV Require Import Base.Arith Model.SvBase Model.SvHam.
Import ListNotations.

Definition E_SV_INDEX : Z := 21%Z.   (* IndexError: target_times[step_idx + 1] *)

Section DmOp.
Variable o : Kops.
(* def op(x): return -1j * dt * (ham @ x)      [python evaluates (-1j * dt) first] *)
Definition dm_coef (dt : o) : o := kmul o (kopp o (kI o)) dt.
Definition dm_op (cpu : bool) (N : nat) (dt : o) (omega delta : list o) (phinz : list bool) (cosphi sinphi : list o)
           (U : list (list o)) (Ls : list (M2 o)) (x : list o) : list o :=
  vscale (dm_coef dt) (lind_matmul o cpu N omega delta phinz cosphi sinphi U Ls x).
Definition dm_op_checked (cpu : bool) (N : nat) (dt : o) (omega delta : list o) (phinz : list bool)
           (cosphi sinphi : list o) (U : list (list o)) (Ls : list (M2 o)) (x : list o) : option (list o) :=
  match lind_matmul_checked o cpu N omega delta phinz cosphi sinphi U Ls x with
  | Some y => Some (vscale (dm_coef dt) y)
  | None => None
  end.
End DmOp.

(* krylov_exp(op, density_matrix, norm_tolerance=krylov_tolerance, exp_tolerance=krylov_tolerance,
              is_hermitian=False)  ->  (norm_tolerance, exp_tolerance, is_hermitian) *)
Definition dm_krylov_args {T : Type} (krylov_tolerance : T) : T * T * bool :=
  (krylov_tolerance, krylov_tolerance, false).

Section Run.
Variable St : Type.                     (* the state (density matrix) *)
Variable T : Type.                      (* time values (binary64 in the code) *)
Variables (tsub tmul : T -> T -> T).
Variable coef : T.                      (* _TIME_CONVERSION_COEFF *)

(* the arguments _evolve_step passes to stepper.apply for step k:
   row k of omega/delta/phi, dt = (target_times[k+1] - target_times[k]) * coef, interaction_matrix(target_times[k]) *)
Record step_args := MkSA { sa_row : nat; sa_dt : T; sa_tq : T }.
Definition step_args_at (times : list T) (k : nat) : res step_args :=
  match nth_error times k, nth_error times (S k) with
  | Some t0, Some t1 => Ok (MkSA k (tmul (tsub t1 t0) coef) t0)
  | _, _ => Err E_SV_INDEX
  end.

Variable step : step_args -> St -> St.  (* stepper.apply (the Krylov exponential): oracle *)

(* for step in range(nsteps): evolve; observables at index step + 1 *)
Fixpoint run_from (times : list T) (k fuel : nat) (s : St) : res (list (nat * St)) :=
  match fuel with
  | O => Ok []
  | S f =>
    res_bind (step_args_at times k) (fun a =>
      let s' := step a s in
      res_bind (run_from times (S k) f s') (fun l => Ok ((S k, s') :: l)))
  end.
(* _run: observables at index 0 first.  Result: (evaluation index, state the observables see there) *)
Definition sv_run (times : list T) (nsteps : nat) (s0 : St) : res (list (nat * St)) :=
  res_bind (run_from times 0 nsteps s0) (fun l => Ok ((0, s0) :: l)).

(* the arguments of all steps, in order *)
Fixpoint args_from (times : list T) (k fuel : nat) : res (list step_args) :=
  match fuel with
  | O => Ok []
  | S f => res_bind (step_args_at times k) (fun a =>
           res_bind (args_from times (S k) f) (fun l => Ok (a :: l)))
  end.
End Run.

(* ---- instance for the bit-exact correspondence: binary64 times, state = integer history code ---------- *)
From Coq Require Import PrimFloat.
Definition f_args (coef : float) (times : list float) (nsteps : nat) : res (list (nat * (float * float))) :=
  match args_from float PrimFloat.sub PrimFloat.mul coef times 0 nsteps with
  | Ok l => Ok (map (fun a => (sa_row _ a, (sa_dt _ a, sa_tq _ a))) l)
  | Err m => Err m
  | OutOfFuel => OutOfFuel
  end.
(* history code: s' = 3 s + row + 1 *)
Definition f_run (coef : float) (times : list float) (nsteps : nat) : res (list (nat * Z)) :=
  sv_run Z float PrimFloat.sub PrimFloat.mul coef
         (fun a s => (3 * s + Z.of_nat (sa_row _ a) + 1)%Z) times nsteps 0%Z.
