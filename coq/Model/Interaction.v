(* C23 — hand model (H-tie) of the interaction-matrix pipeline of /repo/emu_base/pulser_adapter.py:
     PulserData.__init__      (custom matrix, cutoff, slm_end_time)
     PulserData.get_sequences (source selection, packed-matrix unpacking, clone, cutoff, SLM masking)
     _InteractionMatrixCallable.__call__
   and of the times at which the backends query it
     emu_mps/mps_backend_impl.py : init_noiseless_hamiltonian / timestep_complete -> _get_interaction_matrix
     emu_sv/sv_backend_impl.py   : _evolve_step.
   Entries, cutoff and times are integers: comparisons |x| < cutoff, t < slm_end and the zeroing are exact in
   binary64, so the float computation on integer-valued (or dyadic) data is the integer computation.
   No proofs here. *)
From Coq Require Import ZArith List Bool Arith.
Import ListNotations.
Open Scope Z_scope.

Definition mat := list (list Z).
Definition mget (m : mat) (i j : nat) : Z := nth j (nth i m []) 0.

(* full_interaction_matrix[torch.abs(full_interaction_matrix) < cutoff] = 0.0 *)
Definition cutoff_entry (c x : Z) : Z := if Z.abs x <? c then 0 else x.
Definition apply_cutoff (c : Z) (m : mat) : mat := map (map (cutoff_entry c)) m.

Fixpoint mapi_from {T U} (k : nat) (f : nat -> T -> U) (l : list T) : list U :=
  match l with
  | [] => []
  | x :: xs => f k x :: mapi_from (S k) f xs
  end.

(* masked[target] = 0.0 ; masked[:, target] = 0.0 *)
Definition zero_row (t : nat) (m : mat) : mat :=
  mapi_from 0 (fun i r => if Nat.eqb i t then map (fun _ => 0) r else r) m.
Definition zero_col (t : nat) (m : mat) : mat :=
  map (fun r => mapi_from 0 (fun j x => if Nat.eqb j t then 0 else x) r) m.
Definition mask_targets (targets : list nat) (m : mat) : mat :=
  fold_left (fun acc t => zero_col t (zero_row t acc)) targets m.

(* what the trajectory provides: (N,N) for pulser < 1.9, packed (k,N,N) afterwards *)
Inductive traj_matrix := Plain (m : mat) | Packed (ms : list mat).

Definition E_INDEX : Z := 5.   (* IndexError: empty packed matrix *)

(* full_interaction_matrix = self.full_interaction_matrix if not None else trajectory matrix; [0] if 3-dim *)
Definition source_matrix (user : option mat) (traj : traj_matrix) : option mat :=
  match user with
  | Some u => Some u
  | None => match traj with
            | Plain m => Some m
            | Packed [] => None
            | Packed (m :: _) => Some m
            end
  end.

(* the two matrices get_sequences puts in the callable *)
Definition full_matrix (c : Z) (src : mat) : mat := apply_cutoff c src.
Definition masked_matrix (c : Z) (targets : list nat) (src : mat) : mat :=
  mask_targets targets (full_matrix c src).

(* _InteractionMatrixCallable.__call__ *)
Definition callable (full masked : mat) (slm_end t : Z) : mat :=
  if t <? slm_end then masked else full.

(* SequenceData.interaction_matrix(t) as built by PulserData *)
Definition interaction_at (user : option mat) (traj : traj_matrix) (c : Z) (targets : list nat)
    (slm_end t : Z) : option mat :=
  match source_matrix user traj with
  | None => None
  | Some src => Some (callable (full_matrix c src) (masked_matrix c targets src) slm_end t)
  end.

(* get_sequences over ALL noise trajectories: `for samples in noisy_samples: ... for _ in range(samples.reps): yield`.
   Every trajectory carries its own matrix (register noise moves the atoms, SPAM removes some); the k-th yielded
   SequenceData answers interaction_matrix(t) with the pipeline applied to the matrix of the trajectory it comes
   from.  The user matrix, cutoff, SLM targets and SLM end are those of the PulserData (trajectory independent). *)
Definition expand_trajs (trajs : list (traj_matrix * nat)) : list traj_matrix :=
  flat_map (fun tr => repeat (fst tr) (snd tr)) trajs.
Definition sequences_at (user : option mat) (trajs : list (traj_matrix * nat)) (c : Z) (targets : list nat)
    (slm_end t : Z) : list (option mat) :=
  flat_map (fun tr => repeat (interaction_at user (fst tr) c targets slm_end t) (snd tr)) trajs.

(* slm_end_time = sequence._slm_mask_time[1] if len(sequence._slm_mask_time) > 1 else 0.0 *)
Definition slm_end_time (slm_mask_time : list Z) : Z :=
  match slm_mask_time with
  | _ :: e :: _ => e
  | _ => 0
  end.

(* ---- query times, DOUBLED to stay in Z.  times = target_times; step k goes from t_k to t_(k+1).
   emu-mps: the matrix used during step 0 is queried at 0.5*(t_0 + t_1) (init_noiseless_hamiltonian, with
   current_time = t_0, target_time = t_1); the matrix used during step k >= 1 is queried by
   timestep_complete at the end of step k-1, when current_time = target_time = t_k: 0.5*(t_k + t_k).
   emu-sv: step k queries target_times[k]. *)
Definition tnth (times : list Z) (k : nat) : Z := nth k times 0.
Definition mps_query_time_x2 (times : list Z) (k : nat) : Z :=
  match k with
  | O => tnth times 0 + tnth times 1
  | _ => tnth times k + tnth times k
  end.
Definition sv_query_time_x2 (times : list Z) (k : nat) : Z := 2 * tnth times k.

(* all queries a complete emu-mps run makes after construction: step 0, then one after each step
   (the one after the last step is unused) *)
Definition mps_query_trace_x2 (times : list Z) : list Z :=
  map (mps_query_time_x2 times) (seq 0 (length times)).
Definition sv_query_trace_x2 (times : list Z) : list Z :=
  map (sv_query_time_x2 times) (seq 0 (length times - 1)).
