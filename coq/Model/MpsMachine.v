(* Hand-written state machine of the emu-mps stepping logic (formalism F4 of DESIGN.md):
     MPSBackendImpl.init/progress/_evolve/_left_to_right_update_tdvp/_right_to_left_update_tdvp/
       sweep_complete/timestep_complete/is_finished,
     NoisyMPSBackendImpl.init/sweep_complete/do_random_quantum_jump/timestep_complete/set_jump_threshold,
     DMRGBackendImpl.progress/_left_to_right_update/_right_to_left_update/sweep_complete/convergence_check
   of /repo/emu_mps/mps_backend_impl.py.
   Tensors never appear: numerical kernels are events, the values they feed back into the control
   flow (state norms, uniform random numbers, DMRG energies, "did the interaction matrix change")
   are oracle streams consumed from the state.  Tied to the code by the trace correspondence of
   tools/props/_mps_trace.py (every event and the attribute tuple after every progress()).
   No proofs in this file. *)
From Coq Require Import ZArith List Bool.
From EV Require Import Base.Arith Gen.Brent.
Import ListNotations.
Open Scope Z_scope.
Set Implicit Arguments.

Section Machine.
Variable A : Type.
Variable ar : Arith A.

Inductive kind := TDVP | Noisy | DMRG.

Inductive event :=
| EvPair (l r : Z) (dt : A) (right : bool)      (* evolve_pair on sites l,r=l+1 *)
| EvSingle (i : Z) (dt : A)                      (* evolve_single on site i *)
| EvPushL (i : Z)                                (* left_baths.append(new_left_bath(.., factors[i], ..)) *)
| EvPopL
| EvPushR (i : Z)                                (* right_baths.append(new_right_bath(.., factors[i], ..)) *)
| EvPopR
| EvInitBaths
| EvQueryU (t : A)                               (* pulser_data.interaction_matrix(t) *)
| EvMakeH
| EvUpdateH (row : Z) (noise : bool)             (* update_H with omega[row], with/without the noise term *)
| EvFill (tidx : Z) (t : A)                      (* fill_results at timestep index tidx, current_time t *)
| EvStats (t : A)                                (* statistics callback, t = current_time (not yet divided) *)
| EvSave                                         (* save_simulation() reached *)
| EvJump (t : A)                                 (* do_random_quantum_jump at current_time t *)
| EvOrth (i : Z)                                 (* state.orthogonalize(i) *)
| EvMinimize (i : Z) (right : bool).             (* minimize_energy_pair on sites i,i+1 *)

Record mstate := MkM {
  m_kind : kind;
  m_N : Z;                       (* qubit_count (after dark-qubit filtering) *)
  m_steps : Z;                   (* timestep_count = omega.shape[0] *)
  m_times : list A;              (* target_times *)
  m_sweep : Z;                   (* _sweep_index *)
  m_l2r : bool;                  (* _swipe_direction is LEFT_TO_RIGHT *)
  m_tidx : Z;                    (* _timestep_index *)
  m_cur : A;                     (* current_time *)
  m_tgt : A;                     (* target_time *)
  m_nl : Z;                      (* len(left_baths) *)
  m_nr : Z;                      (* len(right_baths) *)
  m_oc : Z;                      (* state.orthogonality_center *)
  (* noisy *)
  m_thr : A;                     (* jump_threshold *)
  m_gap : A;                     (* norm_gap_before_jump *)
  m_rf : option (st A);          (* root_finder *)
  (* dmrg *)
  m_prevE : option A;
  m_curE : option A;
  m_sweeps : Z;                  (* sweep_count *)
  m_etol : A;
  m_maxsw : Z;
  (* oracle streams *)
  o_norm : list A;               (* successive values of state.norm().item() *)
  o_unif : list A;               (* successive values of random.uniform(0, bound) / bound-free: the value returned *)
  o_energy : list A;             (* successive energies returned by minimize_energy_pair *)
  o_same : list bool;            (* successive answers of torch.allclose(current matrix, new matrix) *)
  (* trace, most recent first *)
  m_ev : list event;
}.

Definition emit (s : mstate) (e : event) : mstate :=
  MkM (m_kind s) (m_N s) (m_steps s) (m_times s) (m_sweep s) (m_l2r s) (m_tidx s) (m_cur s) (m_tgt s)
      (m_nl s) (m_nr s) (m_oc s) (m_thr s) (m_gap s) (m_rf s) (m_prevE s) (m_curE s) (m_sweeps s)
      (m_etol s) (m_maxsw s) (o_norm s) (o_unif s) (o_energy s) (o_same s) (e :: m_ev s).

(* field updates (kept explicit: no record-update library) *)
Definition set_sweep (s : mstate) v := MkM (m_kind s) (m_N s) (m_steps s) (m_times s) v (m_l2r s) (m_tidx s) (m_cur s) (m_tgt s) (m_nl s) (m_nr s) (m_oc s) (m_thr s) (m_gap s) (m_rf s) (m_prevE s) (m_curE s) (m_sweeps s) (m_etol s) (m_maxsw s) (o_norm s) (o_unif s) (o_energy s) (o_same s) (m_ev s).
Definition set_l2r (s : mstate) v := MkM (m_kind s) (m_N s) (m_steps s) (m_times s) (m_sweep s) v (m_tidx s) (m_cur s) (m_tgt s) (m_nl s) (m_nr s) (m_oc s) (m_thr s) (m_gap s) (m_rf s) (m_prevE s) (m_curE s) (m_sweeps s) (m_etol s) (m_maxsw s) (o_norm s) (o_unif s) (o_energy s) (o_same s) (m_ev s).
Definition set_tidx (s : mstate) v := MkM (m_kind s) (m_N s) (m_steps s) (m_times s) (m_sweep s) (m_l2r s) v (m_cur s) (m_tgt s) (m_nl s) (m_nr s) (m_oc s) (m_thr s) (m_gap s) (m_rf s) (m_prevE s) (m_curE s) (m_sweeps s) (m_etol s) (m_maxsw s) (o_norm s) (o_unif s) (o_energy s) (o_same s) (m_ev s).
Definition set_cur (s : mstate) v := MkM (m_kind s) (m_N s) (m_steps s) (m_times s) (m_sweep s) (m_l2r s) (m_tidx s) v (m_tgt s) (m_nl s) (m_nr s) (m_oc s) (m_thr s) (m_gap s) (m_rf s) (m_prevE s) (m_curE s) (m_sweeps s) (m_etol s) (m_maxsw s) (o_norm s) (o_unif s) (o_energy s) (o_same s) (m_ev s).
Definition set_tgt (s : mstate) v := MkM (m_kind s) (m_N s) (m_steps s) (m_times s) (m_sweep s) (m_l2r s) (m_tidx s) (m_cur s) v (m_nl s) (m_nr s) (m_oc s) (m_thr s) (m_gap s) (m_rf s) (m_prevE s) (m_curE s) (m_sweeps s) (m_etol s) (m_maxsw s) (o_norm s) (o_unif s) (o_energy s) (o_same s) (m_ev s).
Definition set_nl (s : mstate) v := MkM (m_kind s) (m_N s) (m_steps s) (m_times s) (m_sweep s) (m_l2r s) (m_tidx s) (m_cur s) (m_tgt s) v (m_nr s) (m_oc s) (m_thr s) (m_gap s) (m_rf s) (m_prevE s) (m_curE s) (m_sweeps s) (m_etol s) (m_maxsw s) (o_norm s) (o_unif s) (o_energy s) (o_same s) (m_ev s).
Definition set_nr (s : mstate) v := MkM (m_kind s) (m_N s) (m_steps s) (m_times s) (m_sweep s) (m_l2r s) (m_tidx s) (m_cur s) (m_tgt s) (m_nl s) v (m_oc s) (m_thr s) (m_gap s) (m_rf s) (m_prevE s) (m_curE s) (m_sweeps s) (m_etol s) (m_maxsw s) (o_norm s) (o_unif s) (o_energy s) (o_same s) (m_ev s).
Definition set_oc (s : mstate) v := MkM (m_kind s) (m_N s) (m_steps s) (m_times s) (m_sweep s) (m_l2r s) (m_tidx s) (m_cur s) (m_tgt s) (m_nl s) (m_nr s) v (m_thr s) (m_gap s) (m_rf s) (m_prevE s) (m_curE s) (m_sweeps s) (m_etol s) (m_maxsw s) (o_norm s) (o_unif s) (o_energy s) (o_same s) (m_ev s).
Definition set_thr (s : mstate) v := MkM (m_kind s) (m_N s) (m_steps s) (m_times s) (m_sweep s) (m_l2r s) (m_tidx s) (m_cur s) (m_tgt s) (m_nl s) (m_nr s) (m_oc s) v (m_gap s) (m_rf s) (m_prevE s) (m_curE s) (m_sweeps s) (m_etol s) (m_maxsw s) (o_norm s) (o_unif s) (o_energy s) (o_same s) (m_ev s).
Definition set_gap (s : mstate) v := MkM (m_kind s) (m_N s) (m_steps s) (m_times s) (m_sweep s) (m_l2r s) (m_tidx s) (m_cur s) (m_tgt s) (m_nl s) (m_nr s) (m_oc s) (m_thr s) v (m_rf s) (m_prevE s) (m_curE s) (m_sweeps s) (m_etol s) (m_maxsw s) (o_norm s) (o_unif s) (o_energy s) (o_same s) (m_ev s).
Definition set_rf (s : mstate) v := MkM (m_kind s) (m_N s) (m_steps s) (m_times s) (m_sweep s) (m_l2r s) (m_tidx s) (m_cur s) (m_tgt s) (m_nl s) (m_nr s) (m_oc s) (m_thr s) (m_gap s) v (m_prevE s) (m_curE s) (m_sweeps s) (m_etol s) (m_maxsw s) (o_norm s) (o_unif s) (o_energy s) (o_same s) (m_ev s).
Definition set_prevE (s : mstate) v := MkM (m_kind s) (m_N s) (m_steps s) (m_times s) (m_sweep s) (m_l2r s) (m_tidx s) (m_cur s) (m_tgt s) (m_nl s) (m_nr s) (m_oc s) (m_thr s) (m_gap s) (m_rf s) v (m_curE s) (m_sweeps s) (m_etol s) (m_maxsw s) (o_norm s) (o_unif s) (o_energy s) (o_same s) (m_ev s).
Definition set_curE (s : mstate) v := MkM (m_kind s) (m_N s) (m_steps s) (m_times s) (m_sweep s) (m_l2r s) (m_tidx s) (m_cur s) (m_tgt s) (m_nl s) (m_nr s) (m_oc s) (m_thr s) (m_gap s) (m_rf s) (m_prevE s) v (m_sweeps s) (m_etol s) (m_maxsw s) (o_norm s) (o_unif s) (o_energy s) (o_same s) (m_ev s).
Definition set_sweeps (s : mstate) v := MkM (m_kind s) (m_N s) (m_steps s) (m_times s) (m_sweep s) (m_l2r s) (m_tidx s) (m_cur s) (m_tgt s) (m_nl s) (m_nr s) (m_oc s) (m_thr s) (m_gap s) (m_rf s) (m_prevE s) (m_curE s) v (m_etol s) (m_maxsw s) (o_norm s) (o_unif s) (o_energy s) (o_same s) (m_ev s).
Definition set_onorm (s : mstate) v := MkM (m_kind s) (m_N s) (m_steps s) (m_times s) (m_sweep s) (m_l2r s) (m_tidx s) (m_cur s) (m_tgt s) (m_nl s) (m_nr s) (m_oc s) (m_thr s) (m_gap s) (m_rf s) (m_prevE s) (m_curE s) (m_sweeps s) (m_etol s) (m_maxsw s) v (o_unif s) (o_energy s) (o_same s) (m_ev s).
Definition set_ounif (s : mstate) v := MkM (m_kind s) (m_N s) (m_steps s) (m_times s) (m_sweep s) (m_l2r s) (m_tidx s) (m_cur s) (m_tgt s) (m_nl s) (m_nr s) (m_oc s) (m_thr s) (m_gap s) (m_rf s) (m_prevE s) (m_curE s) (m_sweeps s) (m_etol s) (m_maxsw s) (o_norm s) v (o_energy s) (o_same s) (m_ev s).
Definition set_oenergy (s : mstate) v := MkM (m_kind s) (m_N s) (m_steps s) (m_times s) (m_sweep s) (m_l2r s) (m_tidx s) (m_cur s) (m_tgt s) (m_nl s) (m_nr s) (m_oc s) (m_thr s) (m_gap s) (m_rf s) (m_prevE s) (m_curE s) (m_sweeps s) (m_etol s) (m_maxsw s) (o_norm s) (o_unif s) v (o_same s) (m_ev s).
Definition set_osame (s : mstate) v := MkM (m_kind s) (m_N s) (m_steps s) (m_times s) (m_sweep s) (m_l2r s) (m_tidx s) (m_cur s) (m_tgt s) (m_nl s) (m_nr s) (m_oc s) (m_thr s) (m_gap s) (m_rf s) (m_prevE s) (m_curE s) (m_sweeps s) (m_etol s) (m_maxsw s) (o_norm s) (o_unif s) (o_energy s) v (m_ev s).

(* error codes (Z): asserts and Python exceptions the control flow can raise *)
Definition E_ASSERT_EVOLVE := 342%Z.      (* assertions inside _evolve *)
Definition E_INDEX := 900%Z.              (* IndexError: empty bath stack / target_times out of range *)
Definition E_ASSERT_BATHS := 314%Z.       (* init_baths: len(right_baths) == qubit_count - 1 *)
Definition E_ASSERT_CORNER := 395%Z.
Definition E_ASSERT_NORM := 728%Z.        (* math.isclose(norm_after_normalizing, 1, abs_tol=1e-10) *)
Definition E_DMRG_NOCONV := 836%Z.        (* RuntimeError: DMRG did not converge *)
Definition E_ASSERT_DMRG := 841%Z.
Definition E_ORACLE := 999%Z.             (* oracle stream exhausted: excluded by theorem statements *)
Definition E_ROOT := 1000%Z.              (* offset for errors raised inside the root finder *)

Definition nthZ {T} (l : list T) (i : Z) : option T :=
  if (i <? 0)%Z then None else nth_error l (Z.to_nat i).
(* Python list[-1] *)
Definition lastA (l : list A) : option A := match rev l with x :: _ => Some x | [] => None end.

Definition two := a_ofZ ar 2.
Definition half (x : A) := a_div ar x two.
Definition midpoint (x y : A) := a_mul ar (a_div ar (a_ofZ ar 1) two) (a_add ar x y).  (* 0.5 * (x + y) *)

Definition is_finished (s : mstate) : bool := (m_steps s <=? m_tidx s)%Z.

(* _evolve(index, dt) *)
Definition evolve_single (s : mstate) (i : Z) (dt : A) : res mstate :=
  if negb ((1 <=? m_nl s) && (1 <=? m_nr s))%Z then Err E_INDEX
  else if negb (m_oc s =? i)%Z then Err E_ASSERT_EVOLVE
  else Ok (emit s (EvSingle i dt)).

(* _evolve(l, r, dt, orth_center_right) *)
Definition evolve_pair (s : mstate) (l r : Z) (dt : A) (right : bool) : res mstate :=
  if negb ((1 <=? m_nl s) && (1 <=? m_nr s))%Z then Err E_INDEX
  else if negb (r =? l + 1)%Z then Err E_ASSERT_EVOLVE
  else if negb ((m_oc s =? l) || (m_oc s =? r))%Z then Err E_ASSERT_EVOLVE
  else Ok (set_oc (emit s (EvPair l r dt right)) (if right then r else l)).

(* _get_interaction_matrix at 0.5*(current_time+target_time) *)
Definition query_U (s : mstate) : mstate := emit s (EvQueryU (midpoint (m_cur s) (m_tgt s))).

(* init_baths *)
Definition init_baths (s : mstate) : res mstate :=
  let nr := Z.max 1 (m_N s - 1) in            (* right_baths(state, H, final_qubit=2) has max(1, N-1) entries *)
  if negb (nr =? m_N s - 1)%Z then Err E_ASSERT_BATHS
  else Ok (set_nr (set_nl (emit s EvInitBaths) 1) nr).

(* MPSBackendImpl.timestep_complete *)
Definition timestep_complete_base (s : mstate) : res mstate :=
  let s := emit s (EvFill (m_tidx s) (m_cur s)) in
  let s := set_tidx s (m_tidx s + 1) in
  let s := query_U s in
  match o_same s with
  | [] => Err E_ORACLE
  | same :: rest =>
    let s := set_osame s rest in
    let s := if same then s else emit s EvMakeH in
    res_bind
      (if is_finished s then Ok s
       else match nthZ (m_times s) (m_tidx s + 1) with
            | None => Err E_INDEX
            | Some t =>
              let s := set_tgt s t in
              let s := emit s (EvUpdateH (m_tidx s) true) in
              init_baths s
            end)
      (fun s => Ok (emit s (EvStats (m_cur s))))
  end.

Definition timestep_complete (s : mstate) : res mstate :=
  match m_kind s with
  | Noisy => timestep_complete_base (emit s (EvUpdateH (m_tidx s) false))   (* update_H_no_noise first *)
  | _ => timestep_complete_base s
  end.

Definition take_norm (s : mstate) : res (mstate * A) :=
  match o_norm s with [] => Err E_ORACLE | n :: r => Ok (set_onorm s r, n) end.
Definition take_unif (s : mstate) : res (mstate * A) :=
  match o_unif s with [] => Err E_ORACLE | n :: r => Ok (set_ounif s r, n) end.

Definition lift_rf {T} (r : res T) : res T :=
  match r with Ok v => Ok v | Err m => Err (E_ROOT + m)%Z | OutOfFuel => OutOfFuel end.

(* set_jump_threshold(bound): the oracle supplies the value random.uniform returned *)
Definition set_jump_threshold (s : mstate) : res mstate :=
  res_bind (take_unif s) (fun '(s, u) =>
  res_bind (take_norm s) (fun '(s, n) =>
  Ok (set_gap (set_thr s u) (a_sub ar (a_mul ar n n) u)))).

(* do_random_quantum_jump *)
Definition do_jump (s : mstate) : res mstate :=
  let s := emit s (EvJump (m_cur s)) in
  let s := set_oc (emit s (EvOrth 0)) 0 in
  res_bind (take_norm s) (fun '(s, _) =>          (* state *= 1 / state.norm() *)
  res_bind (init_baths s) (fun s =>
  res_bind (take_norm s) (fun '(s, n1) =>         (* norm_after_normalizing *)
  (* math.isclose(n1, 1, abs_tol=1e-10): the driver only scripts n1 = 1 here *)
  if negb (a_eqb ar n1 (a_ofZ ar 1)) then Err E_ASSERT_NORM
  else set_jump_threshold s))).

(* sweep_complete of the three classes *)
Definition sweep_complete_noisy (s : mstate) : res mstate :=
  let previous_time := m_cur s in
  let s := set_cur s (m_tgt s) in
  let prev_gap := m_gap s in
  res_bind (take_norm s) (fun '(s, n) =>
  let s := set_gap s (a_sub ar (a_mul ar n n) (m_thr s)) in
  match m_rf s with
  | None =>
    if a_ltb ar (m_gap s) (a_ofZ ar 0) then
      res_bind (lift_rf (init ar previous_time (m_cur s) prev_gap (m_gap s) (a_ofZ ar 1))) (fun rf =>
      res_bind (lift_rf (get_next_abscissa ar rf)) (fun '(rf, ox) =>
      match ox with
      | Some x => Ok (set_tgt (set_rf s (Some rf)) x)
      | None => Err E_ROOT
      end))
    else timestep_complete s
  | Some rf =>
    res_bind (take_norm s) (fun '(s, n2) =>
    let s := set_gap s (a_sub ar (a_mul ar n2 n2) (m_thr s)) in
    res_bind (lift_rf (provide_ordinate ar rf (m_cur s) (m_gap s))) (fun rf =>
    res_bind (lift_rf (is_converged ar rf (a_ofZ ar 1))) (fun '(rf, c) =>
    if c then
      res_bind (do_jump s) (fun s =>
      match nthZ (m_times s) (m_tidx s + 1) with
      | None => Err E_INDEX
      | Some t => Ok (set_rf (set_tgt s t) None)
      end)
    else
      res_bind (lift_rf (get_next_abscissa ar rf)) (fun '(rf, ox) =>
      match ox with
      | Some x => Ok (set_tgt (set_rf s (Some rf)) x)
      | None => Err E_ROOT
      end))))
  end).

Definition sweep_complete_tdvp (s : mstate) : res mstate :=
  timestep_complete (set_cur s (m_tgt s)).

Definition convergence_check (s : mstate) : bool :=
  match m_prevE s, m_curE s with
  | Some p, Some c => a_ltb ar (a_abs ar (a_sub ar c p)) (m_etol s)
  | _, _ => false
  end.

Definition sweep_complete_dmrg (s : mstate) : res mstate :=
  res_bind
    (if convergence_check s then timestep_complete (set_cur s (m_tgt s))
     else if (m_maxsw s <? m_sweeps s + 1)%Z then Err E_DMRG_NOCONV
     else Ok (set_prevE s (m_curE s)))
    (fun s =>
      if negb ((m_sweep s =? 0) && (m_oc s =? 0) && m_l2r s)%Z then Err E_ASSERT_DMRG
      else Ok (set_curE s None)).

Definition sweep_complete (s : mstate) : res mstate :=
  match m_kind s with
  | TDVP => sweep_complete_tdvp s
  | Noisy => sweep_complete_noisy s
  | DMRG => sweep_complete_dmrg s
  end.

Definition pop_r (s : mstate) : res mstate :=
  if (m_nr s <=? 0)%Z then Err E_INDEX else Ok (set_nr (emit s EvPopR) (m_nr s - 1)).
Definition pop_l (s : mstate) : res mstate :=
  if (m_nl s <=? 0)%Z then Err E_INDEX else Ok (set_nl (emit s EvPopL) (m_nl s - 1)).
Definition push_l (s : mstate) (i : Z) : res mstate :=
  if (m_nl s <=? 0)%Z then Err E_INDEX else Ok (set_nl (emit s (EvPushL i)) (m_nl s + 1)).
Definition push_r (s : mstate) (i : Z) : res mstate :=
  if (m_nr s <=? 0)%Z then Err E_INDEX else Ok (set_nr (emit s (EvPushR i)) (m_nr s + 1)).

(* _left_to_right_update_tdvp *)
Definition l2r_tdvp (s : mstate) (dt : A) : res mstate :=
  let i := m_sweep s in
  if (i <? m_N s - 2)%Z then
    res_bind (evolve_pair s i (i + 1) (half dt) true) (fun s =>
    res_bind (push_l s i) (fun s =>
    res_bind (evolve_single s (i + 1) (half (a_neg ar dt))) (fun s =>
    res_bind (pop_r s) (fun s =>
    Ok (set_sweep s (i + 1))))))
  else
    res_bind (evolve_pair s i (i + 1) dt false) (fun s => Ok (set_l2r s false)).

(* _right_to_left_update_tdvp *)
Definition r2l_tdvp (s : mstate) (dt : A) : res mstate :=
  let i := m_sweep s in
  res_bind
    (if (0 <? i)%Z then
       res_bind (push_r s (i + 1)) (fun s =>
       res_bind (evolve_single s i (half (a_neg ar dt))) (fun s =>
       res_bind (pop_l s) (fun s =>
       res_bind (evolve_pair s (i - 1) i (half dt) false) (fun s =>
       Ok (set_sweep s (i - 1))))))
     else Ok s)
    (fun s =>
      if (m_sweep s =? 0)%Z then
        res_bind (sweep_complete s) (fun s => Ok (set_l2r s true))
      else Ok s).

(* MPSBackendImpl.progress (TDVP and noisy) *)
Definition progress_tdvp (s : mstate) : res mstate :=
  if is_finished s then Ok s
  else
    let dt := a_sub ar (m_tgt s) (m_cur s) in
    if (m_N s <? 1)%Z then Err E_ASSERT_CORNER
    else if (m_N s <=? 2)%Z then
      if negb (m_l2r s && (m_sweep s =? 0))%Z then Err E_ASSERT_CORNER
      else
        res_bind (if (m_N s =? 1)%Z then evolve_single s 0 dt else evolve_pair s 0 1 dt false) (fun s =>
        res_bind (sweep_complete s) (fun s => Ok (emit s EvSave)))
    else
      res_bind (if m_l2r s then l2r_tdvp s dt else r2l_tdvp s dt) (fun s => Ok (emit s EvSave)).

(* DMRGBackendImpl.progress *)
Definition progress_dmrg (s : mstate) : res mstate :=
  if is_finished s then Ok s
  else
    let i := m_sweep s in
    let right := m_l2r s in
    if negb ((1 <=? m_nl s) && (1 <=? m_nr s))%Z then Err E_INDEX
    else match o_energy s with
    | [] => Err E_ORACLE
    | e :: rest =>
      let s := set_oenergy s rest in
      let s := emit s (EvMinimize i right) in
      let s := set_oc s (if right then i + 1 else i) in
      let s := set_curE s (Some e) in
      res_bind
        (if right then
           (* _left_to_right_update *)
           res_bind
             (if (i <? m_N s - 2)%Z then
                res_bind (push_l s i) (fun s =>
                res_bind (pop_r s) (fun s => Ok (set_sweep s (i + 1))))
              else Ok s)
             (fun s => Ok (if (m_sweep s =? m_N s - 2)%Z then set_l2r s false else s))
         else
           (* _right_to_left_update *)
           res_bind
             (if (0 <? i)%Z then
                res_bind (push_r s (i + 1)) (fun s =>
                res_bind (pop_l s) (fun s => Ok (set_sweep s (i - 1))))
              else Ok s)
             (fun s =>
               if (m_sweep s =? 0)%Z then
                 let s := set_oc (emit s (EvOrth 0)) 0 in
                 let s := set_l2r s true in
                 let s := set_sweeps s (m_sweeps s + 1) in
                 sweep_complete s
               else Ok s))
        (fun s => Ok (emit s EvSave))
    end.

Definition progress (s : mstate) : res mstate :=
  match m_kind s with DMRG => progress_dmrg s | _ => progress_tdvp s end.

(* MPSBackendImpl.__init__ + init() (+ NoisyMPSBackendImpl.init) *)
Definition mk_initial (k : kind) (N steps : Z) (times : list A) (etol : A) (maxsw : Z)
           (onorm ounif oenergy : list A) (osame : list bool) : res mstate :=
  let zero := a_ofZ ar 0 in
  match nthZ times 1 with
  | None => Err E_INDEX
  | Some t1 =>
    if (N <? 2)%Z then Err 120%Z      (* assert self.qubit_count >= 2 *)
    else
    let s := MkM k N steps times 0 true 0 zero t1 0 0 0 zero zero None None None 0 etol maxsw
                 onorm ounif oenergy osame [] in
    (* init_noiseless_hamiltonian: query U, make_H, update_H_no_noise *)
    let s := query_U s in
    let s := emit s EvMakeH in
    let s := emit s (EvUpdateH (m_tidx s) false) in
    (* fill_results at t == 0 *)
    let s := emit s (EvFill (m_tidx s) (m_cur s)) in
    let s := emit s (EvUpdateH (m_tidx s) true) in
    res_bind (init_baths s) (fun s =>
    match k with
    | Noisy => set_jump_threshold s
    | _ => Ok s
    end)
  end.

(* MPSBackend._run: while not finished: progress.  [fuel] bounds the number of progress calls. *)
Fixpoint run (fuel : nat) (s : mstate) : res mstate :=
  if is_finished s then Ok s
  else match fuel with
       | O => OutOfFuel
       | S n => res_bind (progress s) (run n)
       end.

Fixpoint iter_progress (n : nat) (s : mstate) : res mstate :=
  match n with O => Ok s | S k => res_bind (progress s) (iter_progress k) end.

(* ---- encodings used by the trace correspondence ------------------------------------ *)
Definition b2z (b : bool) : Z := if b then 1 else 0.
Definition enc_event (e : event) : Z * list Z * list A :=
  match e with
  | EvPair l r dt rt => (1, [l; r; b2z rt], [dt])
  | EvSingle i dt => (2, [i], [dt])
  | EvPushL i => (3, [i], [])
  | EvPopL => (4, [], [])
  | EvPushR i => (5, [i], [])
  | EvPopR => (6, [], [])
  | EvInitBaths => (7, [], [])
  | EvQueryU t => (8, [], [t])
  | EvMakeH => (9, [], [])
  | EvUpdateH row noise => (10, [row; b2z noise], [])
  | EvFill tidx t => (11, [tidx], [t])
  | EvStats t => (12, [], [t])
  | EvSave => (13, [], [])
  | EvJump t => (14, [], [t])
  | EvOrth i => (15, [i], [])
  | EvMinimize i rt => (16, [i; b2z rt], [])
  end.

Definition snapshot (s : mstate) : list Z * list A :=
  ([m_sweep s; b2z (m_l2r s); m_tidx s; m_nl s; m_nr s; m_oc s;
    b2z (match m_rf s with Some _ => true | None => false end); m_sweeps s],
   [m_cur s; m_tgt s]).

(* run at most [n] progress calls; collect a snapshot after each; stop at finish or error.
   outcome: 0 finished, -1 budget exhausted, otherwise the error code *)
Fixpoint trace_loop (n : nat) (s : mstate) (acc : list (list Z * list A))
  : Z * list (list Z * list A) * list (Z * list Z * list A) :=
  if is_finished s then (0, rev acc, map enc_event (rev (m_ev s)))
  else match n with
  | O => ((-1)%Z, rev acc, map enc_event (rev (m_ev s)))
  | S k =>
    match progress s with
    | Ok s' => trace_loop k s' (snapshot s' :: acc)
    | Err m => (m, rev acc, map enc_event (rev (m_ev s)))
    | OutOfFuel => ((-2)%Z, rev acc, map enc_event (rev (m_ev s)))
    end
  end.

Definition trace_run (k : kind) (N steps : Z) (times : list A) (etol : A) (maxsw : Z)
           (onorm ounif oenergy : list A) (osame : list bool) (n : nat) :=
  match mk_initial k N steps times etol maxsw onorm ounif oenergy osame with
  | Ok s => trace_loop n s [snapshot s]
  | Err m => (m, [], [])
  | OutOfFuel => ((-2)%Z, [], [])
  end.

End Machine.
