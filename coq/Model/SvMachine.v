(* Hand-written state machine of the emu-sv step loop (formalism F4 of DESIGN.md):
     SVBackendImpl.__init__ (the parts that feed the loop), init_dark_qubits, _run, step, _compute_dt,
     _evolve_step, _apply_observables, _save_statistics
   of /repo/emu_sv/sv_backend_impl.py.
   Tensors never appear: the stepper (EvolveStateVector.apply / EvolveDensityMatrix.apply), the
   Hamiltonian constructor (stepper.get_hamiltonian), the interaction-matrix callable, the in-place
   zeroing of the drive columns of badly prepared atoms and the "is this an evaluation time of that
   callback" predicate of pulser are Section oracles over abstract types.  Every call is recorded
   in an event trace.  Tied to the code by the trace correspondence of tools/props/_sv_trace.py.
   No proofs in this file. *)
From Coq Require Import ZArith List Bool.
From EV Require Import Base.Arith.
Import ListNotations.
Open Scope Z_scope.
Set Implicit Arguments.

Section Machine.
Variable A : Type.
Variable ar : Arith A.
Variables Row UM St Hm : Type.
Variable zero_row : list bool -> Row -> Row.      (* row[bad] = 0.0 (in place, at construction) *)
Variable mask_U : list bool -> UM -> UM.          (* mat[bad, :] = 0; mat[:, bad] = 0 on a clone *)
Variable umat : A -> UM.                          (* data.interaction_matrix(t) *)
Variable stepper : A -> Row -> Row -> Row -> UM -> St -> St * Hm.   (* stepper.apply(dt, om, de, ph, U, state, ..) *)
Variable get_ham : Row -> Row -> Row -> UM -> Hm. (* stepper.get_hamiltonian(omegas=, deltas=, phis=, interaction_matrix=) *)
Variable is_eval : nat -> A -> bool.              (* _is_evaluation_time(config.observables[c], t) *)

Inductive event :=
| EvQueryU (t : A)                                     (* self.interaction_matrix(t) *)
| EvStep (dt : A) (o d p : Row) (u : UM) (s_in : St)    (* one stepper.apply call with exactly these arguments *)
| EvGetHam (o d p : Row) (u : UM)                      (* stepper.get_hamiltonian *)
| EvCallback (c : nat) (t : A) (s : St) (h : Hm)        (* config.observables[c](config, t, state, H, results) *)
| EvStats (t : A) (s : St) (h : option Hm).             (* self.statistics(config, t, state, H, results) *)

(* what __init__ copies out of SequenceData / SVConfig *)
Record params := MkP {
  p_times : list A;            (* target_times *)
  p_omega : list Row;          (* rows of data.omega *)
  p_delta : list Row;
  p_phi : list Row;
  p_dark : option (list bool); (* well_prepared_qubits_filter: Some bad_atoms iff state_prep_error > 0 *)
  p_ncb : nat;                 (* len(config.observables) *)
}.

Record sv := MkSv {
  sv_state : St;                (* self.state.data *)
  sv_H : option Hm;            (* self._current_H *)
  sv_ev : list event;          (* trace, most recent first *)
}.

Definition E_INDEX := 900%Z.     (* IndexError *)
Definition E_ZERODIV := 901%Z.   (* ZeroDivisionError: target_times[-1] == 0.0 *)

Definition nthZ {T} (l : list T) (i : Z) : option T :=
  if (i <? 0)%Z then None else nth_error l (Z.to_nat i).
Definition lastA (l : list A) : option A := match rev l with x :: _ => Some x | [] => None end.
Definition oget {T} (o : option T) : res T := match o with Some x => Ok x | None => Err E_INDEX end.

Definition zero := a_ofZ ar 0.
Definition coeff := a_div ar (a_ofZ ar 1) (a_ofZ ar 1000).       (* _TIME_CONVERSION_COEFF = 0.001 *)
Definition midpoint (x y : A) := a_mul ar (a_div ar (a_ofZ ar 1) (a_ofZ ar 2)) (a_add ar x y).

Definition emit (s : sv) (e : event) : sv := MkSv (sv_state s) (sv_H s) (e :: sv_ev s).

(* rows / matrix as the loop sees them after init_dark_qubits *)
Definition eff_row (P : params) (r : Row) : Row :=
  match p_dark P with Some m => zero_row m r | None => r end.
Definition eff_U (P : params) (u : UM) : UM :=
  match p_dark P with Some m => mask_U m u | None => u end.

(* t / target_times[-1] (float division: ZeroDivisionError when the last time is 0.0) *)
Definition norm_time (P : params) (i : Z) : res A :=
  res_bind (oget (nthZ (p_times P) i)) (fun ti =>
  res_bind (oget (lastA (p_times P))) (fun tn =>
  if a_eqb ar tn zero then Err E_ZERODIV else Ok (a_div ar ti tn))).

Definition callbacks_at (P : params) (t : A) : list nat :=
  filter (fun c => is_eval c t) (seq 0 (p_ncb P)).

(* _apply_observables(step_idx) *)
Definition apply_observables (P : params) (i : Z) (s : sv) : res sv :=
  res_bind (norm_time P i) (fun t =>
  let cbs := callbacks_at P t in
  res_bind
    (match sv_H s, cbs with
     | None, _ :: _ =>
       res_bind (oget (nthZ (p_omega P) 0)) (fun o =>
       res_bind (oget (nthZ (p_delta P) 0)) (fun d =>
       res_bind (oget (nthZ (p_phi P) 0)) (fun p =>
       res_bind (oget (nthZ (p_times P) i)) (fun ti =>
       res_bind (oget (nthZ (p_times P) (i + 1))) (fun tj =>
       let tq := midpoint ti tj in
       let u := eff_U P (umat tq) in
       let o' := eff_row P o in let d' := eff_row P d in let p' := eff_row P p in
       let s1 := emit (emit s (EvQueryU tq)) (EvGetHam o' d' p' u) in
       Ok (MkSv (sv_state s1) (Some (get_ham o' d' p' u)) (sv_ev s1)))))))
     | _, _ => Ok s
     end)
    (fun s1 =>
     match sv_H s1 with
     | Some h => Ok (fold_left (fun acc c => emit acc (EvCallback c t (sv_state s1) h)) cbs s1)
     | None => Ok s1     (* only reachable with cbs = [] *)
     end)).

(* _save_statistics(step_idx) *)
Definition save_statistics (P : params) (i : Z) (s : sv) : res sv :=
  res_bind (norm_time P i) (fun t => Ok (emit s (EvStats t (sv_state s) (sv_H s)))).

(* step(step_idx) = _compute_dt ; _evolve_step ; _apply_observables(step_idx+1) ; _save_statistics(step_idx+1) *)
Definition step (P : params) (k : Z) (s : sv) : res sv :=
  res_bind (oget (nthZ (p_times P) (k + 1))) (fun t1 =>
  res_bind (oget (nthZ (p_times P) k)) (fun t0 =>
  let dt := a_sub ar t1 t0 in
  res_bind (oget (nthZ (p_omega P) k)) (fun o =>
  res_bind (oget (nthZ (p_delta P) k)) (fun d =>
  res_bind (oget (nthZ (p_phi P) k)) (fun p =>
  let u := eff_U P (umat t0) in
  let o' := eff_row P o in let d' := eff_row P d in let p' := eff_row P p in
  let dts := a_mul ar dt coeff in
  let '(st', h) := stepper dts o' d' p' u (sv_state s) in
  let s1 := MkSv st' (Some h) (EvStep dts o' d' p' u (sv_state s) :: EvQueryU t0 :: sv_ev s) in
  res_bind (apply_observables P (k + 1) s1) (save_statistics P (k + 1))))))).

(* for step in range(nsteps): self.step(step) *)
Fixpoint steps_from (P : params) (k : Z) (n : nat) (s : sv) : res sv :=
  match n with
  | O => Ok s
  | S m => res_bind (step P k s) (steps_from P (k + 1) m)
  end.

(* __init__ computes [t / target_times[-1] for t in target_times] and int(target_times[-1]) first *)
Definition init_ok (P : params) : res unit :=
  res_bind (oget (lastA (p_times P))) (fun tn =>
  if a_eqb ar tn zero then Err E_ZERODIV else Ok tt).

(* _run(): nsteps = omega.shape[0] *)
Definition run (P : params) (s0 : St) : res sv :=
  res_bind (init_ok P) (fun _ =>
  res_bind (apply_observables P 0 (MkSv s0 None [])) (fun s1 =>
  steps_from P 0 (length (p_omega P)) s1)).

Definition trace (r : res sv) : res (list event) :=
  res_bind r (fun s => Ok (rev (sv_ev s))).

End Machine.
Arguments EvQueryU {A Row UM St Hm} t.
Arguments EvStep {A Row UM St Hm} dt o d p u s_in.
Arguments EvGetHam {A Row UM St Hm} o d p u.
Arguments EvCallback {A Row UM St Hm} c t s h.
Arguments EvStats {A Row UM St Hm} t s h.

(* ---- the instance executed for the trace correspondence ------------------------------------
   Row  = list Z   (integer-coded entries, one per qubit)
   UM   = query time and the dark mask applied to the matrix returned for that query
   S    = number of the stepper call that produced the state (+1; the initial state is 1)
   Hm   = (1 if returned by the stepper / 0 if built by get_hamiltonian, rows, matrix) *)
Section TraceInstance.
Variable A : Type.
Variable ar : Arith A.

Definition trow := list Z.
Definition tum := (A * list bool)%type.
Definition tham := (Z * (trow * trow * trow) * tum)%type.

Definition t_zero_row (m : list bool) (r : trow) : trow :=
  map (fun bx : bool * Z => if fst bx then 0 else snd bx) (combine m r).
Definition t_mask_U (m : list bool) (u : tum) : tum := (fst u, m).
Definition t_umat (t : A) : tum := (t, []).
Definition t_stepper (dt : A) (o d p : trow) (u : tum) (s : Z) : Z * tham := (s + 1, (1, (o, d, p), u)).
Definition t_get_ham (o d p : trow) (u : tum) : tham := (0, (o, d, p), u).

Definition b2z (b : bool) : Z := if b then 1 else 0.
Definition enc_rows (o d p : trow) (u : tum) : list Z :=
  o ++ [-1] ++ d ++ [-1] ++ p ++ [-1] ++ map b2z (snd u).
Definition enc_ham (h : tham) : list Z * list A :=
  let '(k, (o, d, p), u) := h in (k :: enc_rows o d p u, [fst u]).

Definition enc_event (e : event A trow tum Z tham) : Z * list Z * list A :=
  match e with
  | EvQueryU t => (1, [], [t])
  | EvStep dt o d p u s => (2, s :: enc_rows o d p u, [dt; fst u])
  | EvGetHam o d p u => (3, enc_rows o d p u, [fst u])
  | EvCallback c t s h => let '(zi, fl) := enc_ham h in (4, Z.of_nat c :: s :: zi, t :: fl)
  | EvStats t s None => (5, [s], [t])
  | EvStats t s (Some h) => let '(zi, fl) := enc_ham h in (5, s :: zi, t :: fl)
  end.

(* evals: for every callback index, the normalised times at which pulser says "evaluation time"
   are given extensionally as a table indexed by the boundary: evals[c] = list of answers in the
   order the loop asks (boundary 0, 1, 2, ...).  The table is looked up by time equality. *)
Definition t_is_eval (table : list (A * list bool)) (c : nat) (t : A) : bool :=
  match find (fun e => a_eqb ar (fst e) t) table with
  | Some e => nth c (snd e) false
  | None => false
  end.

Definition trace_run (times : list A) (omega delta phi : list trow) (dark : option (list bool))
           (ncb : nat) (table : list (A * list bool)) : Z * list (Z * list Z * list A) :=
  let P := MkP times omega delta phi dark ncb in
  match run ar t_zero_row t_mask_U t_umat t_stepper t_get_ham (t_is_eval table) P 1 with
  | Ok s => (0, map enc_event (rev (sv_ev s)))
  | Err m => (m, [])
  | OutOfFuel => (-2, [])
  end.
End TraceInstance.
