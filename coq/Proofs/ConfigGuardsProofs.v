(* C33 — proofs about the guards generated from MPSConfig.__init__ / create_impl / DMRGBackendImpl. *)
From Coq Require Import ZArith Reals Bool List String Lra Lia.
From EV Require Import Base.Arith Gen.Guards Model.ConfigGuards.
Import ListNotations.
Open Scope R_scope.

(* 1e-12 as the real number the specification talks about *)
Definition tol_min : R := 1 / 1000000000000.

Lemma tol_min_pos : 0 < tol_min.
Proof. unfold tol_min. lra. Qed.

(* ---- the whitelist test is a plain "all tags are whitelisted" -------------------------- *)
Lemma check_permutable_forallb : forall tags,
  check_permutable_observables tags = forallb (fun t => mem_tag t allowed_permutable_obs) tags.
Proof.
  unfold check_permutable_observables. induction tags as [|t ts IH]; [reflexivity|].
  cbn [filter forallb]. unfold mem_tag at 1.
  destruct (existsb (String.eqb t) allowed_permutable_obs); cbn [negb andb]; [exact IH|reflexivity].
Qed.

Lemma mem_tag_In : forall t l, mem_tag t l = true <-> In t l.
Proof.
  intros t l. unfold mem_tag. rewrite existsb_exists. split.
  - intros [x [Hin He]]. apply String.eqb_eq in He. subst. exact Hin.
  - intros H. exists t. split; [exact H|apply String.eqb_refl].
Qed.

Lemma check_permutable_spec : forall tags,
  check_permutable_observables tags = true <-> Forall (fun t => In t allowed_permutable_obs) tags.
Proof.
  intros tags. rewrite check_permutable_forallb, forallb_forall, Forall_forall.
  split; intros H t Ht; apply mem_tag_In; auto.
Qed.

(* ---- constructor, any arithmetic: the reordering flag ----------------------------------- *)
Lemma init_reordering : forall (A : Type) (ar : Arith A) p e a o tags e' o',
  mps_config_init ar p e a o tags = Ok (e', o') ->
  o' = andb o (check_permutable_observables tags).
Proof.
  intros A ar p e a o tags e' o'. unfold mps_config_init.
  destruct (a_ltb ar _ a); [|discriminate].
  destruct (a_ltb ar _ _).
  - destruct (a_eqb ar _ _); cbn [res_bind]; [discriminate|]. intros H. inversion H. reflexivity.
  - cbn [res_bind]. intros H. inversion H. reflexivity.
Qed.

Lemma reordering_guard : forall (A : Type) (ar : Arith A) p e a o tags e' o',
  mps_config_init ar p e a o tags = Ok (e', o') ->
  (o' = true <-> o = true /\ Forall (fun t => In t allowed_permutable_obs) tags).
Proof.
  intros. rewrite (init_reordering _ _ _ _ _ _ _ _ _ H), andb_true_iff, check_permutable_spec. tauto.
Qed.

(* ---- constructor at R: autosave guard and the Krylov tolerance floor --------------------- *)
Lemma autosave_rejected : forall p e a o tags, a <= 10 ->
  err_class (mps_config_init R_arith p e a o tags) = Some exc_AssertionError.
Proof.
  intros p e a o tags Ha. unfold mps_config_init. cbn [a_ltb a_ofZ R_arith].
  rewrite (proj2 (Rltb_false 10 a)) by exact Ha. vm_compute. reflexivity.
Qed.

Lemma autosave_accepted_only_above : forall p e a o tags v,
  mps_config_init R_arith p e a o tags = Ok v -> 10 < a.
Proof.
  intros p e a o tags v. unfold mps_config_init. cbn [a_ltb a_ofZ R_arith].
  destruct (Rltb 10 a) eqn:E; [intros _; apply Rltb_true; exact E|discriminate].
Qed.

Lemma krylov_floor : forall p e a o tags, 0 < p -> 10 < a ->
  exists e', mps_config_init R_arith p e a o tags = Ok (e', andb o (check_permutable_observables tags)) /\
    tol_min <= p * e' /\
    (tol_min <= p * e -> e' = e) /\
    (p * e < tol_min -> p * e' = tol_min).
Proof.
  intros p e a o tags Hp Ha. unfold mps_config_init.
  cbn [a_ltb a_eqb a_ofZ a_div a_mul R_arith].
  rewrite (proj2 (Rltb_true 10 a)) by exact Ha.
  fold tol_min.
  destruct (Rltb (p * e) tol_min) eqn:E.
  - apply Rltb_true in E.
    rewrite (proj2 (Reqb_false p 0)) by lra. cbn [res_bind].
    exists (tol_min / p). split; [reflexivity|].
    assert (Hq : p * (tol_min / p) = tol_min) by (field; lra).
    rewrite Hq. repeat split; intros; lra.
  - apply Rltb_false in E. cbn [res_bind]. exists e. split; [reflexivity|].
    repeat split; intros; lra.
Qed.

Lemma krylov_floor_witness :
  exists e', mps_config_init R_arith (1 / 1000000000) 0 11 true [] = Ok (e', true) /\
             (1 / 1000000000) * e' = tol_min.
Proof.
  destruct (krylov_floor (1 / 1000000000) 0 11 true []) as [e' [H1 [_ [_ H4]]]]; try lra.
  exists e'. split; [exact H1|]. apply H4. unfold tol_min. lra.
Qed.

(* a zero precision with a too small product is an explicit error, never a silent value *)
Lemma zero_precision_is_error : forall e a o tags, 10 < a ->
  err_class (mps_config_init R_arith 0 e a o tags) = Some exc_ZeroDivisionError.
Proof.
  intros e a o tags Ha. unfold mps_config_init.
  cbn [a_ltb a_eqb a_ofZ a_div a_mul R_arith].
  rewrite (proj2 (Rltb_true 10 a)) by exact Ha. fold tol_min.
  rewrite (proj2 (Rltb_true (0 * e) tol_min)) by (pose proof tol_min_pos; lra).
  rewrite (proj2 (Reqb_true 0 0)) by reflexivity. vm_compute. reflexivity.
Qed.

(* ---- whitelist soundness ---------------------------------------------------------------- *)
Lemma whitelist_sound : forall t, In t allowed_permutable_obs ->
  In t permuted_result_tags \/ In t order_invariant_tags.
Proof.
  intros t H.
  assert (E : forallb (fun t => mem_tag t (permuted_result_tags ++ order_invariant_tags))
                allowed_permutable_obs = true) by (vm_compute; reflexivity).
  rewrite forallb_forall in E. specialize (E t H). apply mem_tag_In in E.
  apply in_app_or in E. exact E.
Qed.

(* ---- DMRG ------------------------------------------------------------------------------- *)
Lemma dmrg_guard_refuses : forall noise_types, noise_types <> [] ->
  err_class (dmrg_init_guard noise_types) = Some exc_NotImplementedError.
Proof. intros [|n ns] H; [congruence|]. vm_compute. reflexivity. Qed.

Lemma dmrg_guard_accepts_noiseless : dmrg_init_guard [] = Ok tt.
Proof. reflexivity. Qed.

Lemma dmrg_guard : forall noise_types,
  (noise_types <> [] -> err_class (dmrg_init_guard noise_types) = Some exc_NotImplementedError) /\
  (noise_types = [] -> dmrg_init_guard noise_types = Ok tt).
Proof.
  intros nt. split; [apply dmrg_guard_refuses|intros ->; exact dmrg_guard_accepts_noiseless].
Qed.

Lemma dmrg_refuses_noise : dmrg_dispatch_ok = true ->
  forall has_lindblad noise_types, noise_types <> [] ->
  err_class (mps_select has_lindblad true noise_types) = Some exc_NotImplementedError.
Proof.
  intros H hl nt Hnt. unfold dmrg_dispatch_ok, forallb in H.
  apply andb_true_iff in H as [H1 H2]. apply andb_true_iff in H2 as [H2 _].
  unfold mps_select.
  destruct hl.
  - destruct (create_impl true true); try discriminate;
      (destruct nt as [|n ns]; [congruence | vm_compute; reflexivity]).
  - destruct (create_impl false true); try discriminate;
      (destruct nt as [|n ns]; [congruence | vm_compute; reflexivity]).
Qed.

(* only the DMRG constructor has a guard: TDVP requests are never refused here *)
Lemma tdvp_never_refused : forall has_lindblad noise_types,
  (create_impl has_lindblad false <> ImplDMRG) ->
  exists k, mps_select has_lindblad false noise_types = Ok k.
Proof.
  intros hl nt H. unfold mps_select. destruct (create_impl hl false); eauto. congruence.
Qed.
