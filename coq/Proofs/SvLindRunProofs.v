(* Proofs about the run loop of Model/SvLindRun.v: an ordered fold of the stepper over the rows. *)
From Coq Require Import List Arith Bool ZArith Lia.
From EV Require Import Base.Arith Model.SvLindRun.
Import ListNotations.

Section RunProofs.
Variable St : Type.
Variable T : Type.
Variables (tsub tmul : T -> T -> T).
Variable coef : T.
Variable step : step_args T -> St -> St.
Variable d : T.   (* default for the total accessor; irrelevant under the guards *)

Notation args_at := (step_args_at T tsub tmul coef).
Notation runf := (run_from St T tsub tmul coef step).
Notation run := (sv_run St T tsub tmul coef step).

Definition args_total (times : list T) (k : nat) : step_args T :=
  MkSA T k (tmul (tsub (nth (S k) times d) (nth k times d)) coef) (nth k times d).

(* state after executing steps k, k+1, ..., k+j-1 from s *)
Fixpoint state_from (times : list T) (k j : nat) (s : St) : St :=
  match j with
  | O => s
  | S j' => state_from times (S k) j' (step (args_total times k) s)
  end.

Lemma args_at_ok times k : S k < length times -> args_at times k = Ok (args_total times k).
Proof.
  intros H. unfold step_args_at, args_total.
  destruct (nth_error times k) as [t0|] eqn:E0.
  2:{ apply nth_error_None in E0. lia. }
  destruct (nth_error times (S k)) as [t1|] eqn:E1.
  2:{ apply nth_error_None in E1. lia. }
  rewrite (nth_error_nth _ _ d E0), (nth_error_nth _ _ d E1). reflexivity.
Qed.

Lemma args_at_err times k : length times <= S k -> args_at times k = Err E_SV_INDEX.
Proof.
  intros H. unfold step_args_at.
  assert (E1 : nth_error times (S k) = None) by (apply nth_error_None; lia).
  rewrite E1. destruct (nth_error times k); reflexivity.
Qed.

Lemma state_from_snoc times : forall j k s,
  state_from times k (S j) s = step (args_total times (k + j)) (state_from times k j s).
Proof.
  induction j as [|j IH]; intros k s.
  - cbn. rewrite Nat.add_0_r. reflexivity.
  - change (state_from times k (S (S j)) s) with (state_from times (S k) (S j) (step (args_total times k) s)).
    rewrite IH. replace (S k + j) with (k + S j) by lia. reflexivity.
Qed.

Lemma run_from_spec times : forall fuel k s, k + fuel < length times ->
  runf times k fuel s = Ok (map (fun j => (k + S j, state_from times k (S j) s)) (seq 0 fuel)).
Proof.
  induction fuel as [|f IH]; intros k s H; [reflexivity|].
  cbn [run_from]. rewrite args_at_ok by lia. cbn [res_bind].
  rewrite IH by lia. cbn [res_bind]. f_equal.
  cbn [seq map]. f_equal.
  - f_equal. lia.
  - rewrite <- seq_shift, map_map. apply map_ext. intros j. f_equal. lia.
Qed.

(* every evaluation index j <= nsteps sees the state obtained by applying steps 0..j-1 in order *)
Theorem sv_run_spec times nsteps s0 : nsteps < length times ->
  run times nsteps s0 = Ok (map (fun j => (j, state_from times 0 j s0)) (seq 0 (S nsteps))).
Proof.
  intros H. unfold sv_run. rewrite run_from_spec by lia. cbn [res_bind].
  cbn [seq map]. f_equal. f_equal. rewrite <- seq_shift, map_map. reflexivity.
Qed.

Lemma run_from_err times : forall fuel k s, 0 < fuel -> length times <= k + fuel ->
  runf times k fuel s = Err E_SV_INDEX.
Proof.
  induction fuel as [|f IH]; intros k s Hp H; [lia|].
  cbn [run_from]. destruct (Nat.le_gt_cases (length times) (S k)) as [Hl|Hl].
  - rewrite args_at_err by assumption. reflexivity.
  - rewrite args_at_ok by assumption. cbn [res_bind].
    rewrite IH by lia. reflexivity.
Qed.

(* more rows than time intervals: IndexError, no result *)
Theorem sv_run_index_error times nsteps s0 : 0 < nsteps -> length times <= nsteps ->
  run times nsteps s0 = Err E_SV_INDEX.
Proof. intros Hp H. unfold sv_run. rewrite run_from_err by lia. reflexivity. Qed.

End RunProofs.
