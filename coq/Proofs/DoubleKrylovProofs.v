(* Proofs about Model/DoubleKrylov.v: control contract of lanczos / double_krylov for every oracle stream and
   every max_krylov_dim, and the block-triangular power identity over a non-commutative ring. *)
From Coq Require Import ZArith List Bool Arith Lia.
From EV Require Import Base.Arith Model.KrylovExp Model.DoubleKrylov.
Import ListNotations.
Set Implicit Arguments.

Lemma band_lt : forall j, forallb (fun k => Nat.ltb k (S j)) (lz_band j) = true.
Proof.
  intros j. apply forallb_forall. intros k Hk. unfold lz_band in Hk. apply in_seq in Hk.
  apply Nat.ltb_lt. lia.
Qed.

Lemma band_0 : lz_band 0 = [0].
Proof. reflexivity. Qed.
Lemma band_S : forall j, lz_band (S j) = [j; S j].
Proof. intros j. unfold lz_band. cbn [Nat.pred]. replace (S (S j) - j) with 2 by lia. reflexivity. Qed.

Lemma filter_op_dots : forall j l, filter is_op (map (fun k => EDot k j) l) = [].
Proof. induction l; cbn; auto. Qed.

Section LanczosProofs.
Variable A : Type.
Variable ar : Arith A.
Variables n2 err1 err2 : nat -> A.
Variable tol : A.

Notation trig := (lz_trigger ar n2 err1 err2 tol).
Notation bd := (lz_breakdown ar n2 tol).
Notation est := (lz_estimate ar err1 err2 tol).
Notation loop := (lz_loop ar n2 err1 err2 tol).

Lemma lz_loop_spec : forall fuel j t r, loop fuel j (S j) = (t, r) ->
  match r with
  | Ok l => exists m, j <= m < j + fuel /\ (forall i, j <= i < m -> trig i = false) /\ trig m = true /\
      l_iters l = S m /\ l_happy l = bd m /\ l_size l = (if bd m then S m else S (S m)) /\
      t = flat_map lz_iter_events (seq j (m - j)) ++ lz_head (S m) m ++ (if bd m then [] else lz_tail (S m) m)
  | Err e => e = E_RECURSION /\ (forall i, j <= i < j + fuel -> trig i = false) /\
      t = flat_map lz_iter_events (seq j fuel)
  | OutOfFuel => False
  end.
Proof.
  induction fuel as [|f IH]; intros j t r H; cbn [lz_loop] in H.
  - inversion H; subst. split; [reflexivity|]. split; [intros; lia | reflexivity].
  - rewrite band_lt in H. cbn [negb] in H. destruct (bd j) eqn:Hb.
    + inversion H; subst. exists j. cbn [l_iters l_happy l_size]. rewrite Nat.sub_diag, Hb. cbn [seq flat_map app].
      repeat split; try lia; try (intros; lia).
      * unfold lz_trigger. rewrite Hb. reflexivity.
      * rewrite app_nil_r. reflexivity.
    + destruct (est j) eqn:He.
      * inversion H; subst. exists j. cbn [l_iters l_happy l_size]. rewrite Nat.sub_diag, Hb. cbn [seq flat_map app].
        repeat split; try lia; try (intros; lia).
        unfold lz_trigger. rewrite Hb, He. reflexivity.
      * destruct (loop f (S j) (S (S j))) as [t' r'] eqn:Hl. inversion H; subst. clear H.
        specialize (IH _ _ _ Hl).
        assert (Hj : trig j = false) by (unfold lz_trigger; rewrite Hb, He; reflexivity).
        destruct r as [l|e|].
        -- destruct IH as (m & Hm & Hno & Ht & Hit & Hh & Hs & Htr). exists m.
           split; [lia|]. split.
           { intros i Hi. destruct (Nat.eq_dec i j) as [->|Hne]; [exact Hj|]. apply Hno. lia. }
           repeat split; try assumption.
           replace (m - j) with (S (m - S j)) by lia. cbn [seq flat_map]. rewrite Htr.
           unfold lz_iter_events, lz_head, lz_tail. cbn [app]. rewrite <- !app_assoc. reflexivity.
        -- destruct IH as (He' & Hno & Htr). split; [exact He'|]. split.
           { intros i Hi. destruct (Nat.eq_dec i j) as [->|Hne]; [exact Hj|]. apply Hno. lia. }
           cbn [seq flat_map]. rewrite Htr. unfold lz_iter_events, lz_head, lz_tail. cbn [app].
           rewrite <- !app_assoc. reflexivity.
        -- exact IH.
Qed.

(* lanczos(op, v, tolerance) with max_krylov_dim = max_dim *)
Theorem lanczos_contract : forall max_dim t r, lanczos_ctl ar n2 err1 err2 tol max_dim = (t, r) ->
  match r with
  | Ok l => exists m, m < max_dim /\ (forall i, i < m -> trig i = false) /\ trig m = true /\
      l_iters l = S m /\ l_happy l = bd m /\ l_size l = (if bd m then S m else S (S m)) /\
      t = ENorm0 :: flat_map lz_iter_events (seq 0 m) ++ lz_head (S m) m ++ (if bd m then [] else lz_tail (S m) m)
  | Err e => e = E_RECURSION /\ (forall i, i < max_dim -> trig i = false) /\
      t = ENorm0 :: flat_map lz_iter_events (seq 0 max_dim)
  | OutOfFuel => False
  end.
Proof.
  intros max_dim t r H. unfold lanczos_ctl in H.
  destruct (loop max_dim 0 1) as [t' r'] eqn:Hl. inversion H; subst. clear H.
  pose proof (lz_loop_spec _ _ Hl) as S. destruct r as [l|e|].
  - destruct S as (m & Hm & Hno & Ht & Hit & Hh & Hs & Htr). exists m. rewrite Nat.sub_0_r in Htr.
    split; [lia|]. split; [intros; apply Hno; lia|]. repeat split; try assumption. rewrite Htr. reflexivity.
  - destruct S as (He & Hno & Htr). split; [exact He|]. split; [intros; apply Hno; lia|]. rewrite Htr. reflexivity.
  - exact S.
Qed.

Lemma filter_op_iter : forall j, filter is_op (lz_iter_events j) = [EOp j j].
Proof.
  intros j. unfold lz_iter_events, lz_head, lz_tail. cbn [Nat.pred app].
  cbn [filter is_op]. rewrite !filter_app, filter_op_dots. reflexivity.
Qed.
Lemma filter_op_head : forall j, filter is_op (lz_head (S j) j) = [EOp j j].
Proof.
  intros j. unfold lz_head. cbn [Nat.pred app filter is_op]. rewrite !filter_app, filter_op_dots. reflexivity.
Qed.
Lemma filter_op_flat : forall n j, filter is_op (flat_map lz_iter_events (seq j n)) = map (fun i => EOp i i) (seq j n).
Proof.
  induction n as [|n IH]; intros j; cbn [seq flat_map map]; [reflexivity|].
  rewrite filter_app, filter_op_iter, IH. reflexivity.
Qed.

(* the operator applications of a run: v_0, v_1, ... each exactly once, in order, always the newest vector *)
Theorem lanczos_operator_applications : forall max_dim t r, lanczos_ctl ar n2 err1 err2 tol max_dim = (t, r) ->
  filter is_op t = map (fun i => EOp i i) (seq 0 (match r with Ok l => l_iters l | _ => max_dim end)).
Proof.
  intros max_dim t r H. pose proof (lanczos_contract _ H) as S. destruct r as [l|e|].
  - destruct S as (m & _ & _ & _ & Hit & _ & _ & Htr). rewrite Hit, Htr. cbn [filter is_op].
    rewrite !filter_app, filter_op_flat, filter_op_head.
    replace (filter is_op (if bd m then [] else lz_tail (S m) m)) with (@nil event) by (destruct (bd m); reflexivity).
    rewrite app_nil_r. rewrite seq_S, map_app. reflexivity.
  - destruct S as (_ & _ & Htr). rewrite Htr. cbn [filter is_op]. apply filter_op_flat.
  - destruct S.
Qed.

(* lanczos returns iff some iteration below max_krylov_dim meets one of the two exit tests *)
Theorem lanczos_returns_iff : forall max_dim t r, lanczos_ctl ar n2 err1 err2 tol max_dim = (t, r) ->
  ((exists l, r = Ok l) <-> exists j, j < max_dim /\ trig j = true) /\
  (forall l, r = Ok l -> 1 <= l_iters l <= max_dim /\ l_iters l <= l_size l <= S (l_iters l) /\
                         (l_size l = l_iters l <-> l_happy l = true)).
Proof.
  intros max_dim t r H. pose proof (lanczos_contract _ H) as S. destruct r as [l|e|].
  - destruct S as (m & Hm & _ & Ht & Hit & Hh & Hs & _). split.
    + split; [intros _; exists m; auto | intros _; eauto].
    + intros l' E. inversion E; subst l'. rewrite Hit, Hs, Hh. destruct (bd m); repeat split; try lia; try congruence.
  - destruct S as (_ & Hno & _). split.
    + split; [intros [l E]; discriminate | intros (j & Hj & Ht); rewrite Hno in Ht by exact Hj; discriminate].
    + intros l E; discriminate.
  - destruct S.
Qed.
End LanczosProofs.

(* ---------------------------------------------------------------------------------------- *)
Section DoubleProofs.
Variable A : Type.
Variable ar : Arith A.
Variables n2s e1s e2s n2g e1g e2g : nat -> A.
Variable tol : A.

Notation lzs := (lanczos_ctl ar n2s e1s e2s tol).
Notation lzg := (lanczos_ctl ar n2g e1g e2g tol).
Notation dk := (double_krylov_ctl ar n2s e1s e2s n2g e1g e2g tol).

Definition run_of (p : nat * event) : nat := fst p.
Definition count_ops (t : list (nat * event)) : nat := length (filter (fun p => is_op (snd p)) t).

Lemma count_ops_tag : forall n t, count_ops (tag n t) = length (filter is_op t).
Proof.
  intros n t. unfold count_ops, tag. induction t as [|e t IH]; cbn; [reflexivity|].
  destruct (is_op e); cbn; rewrite IH; reflexivity.
Qed.
Lemma count_ops_app : forall a b, count_ops (a ++ b) = count_ops a + count_ops b.
Proof. intros a b. unfold count_ops. rewrite filter_app, app_length. reflexivity. Qed.

Theorem double_krylov_contract : forall max_dim t r, dk max_dim = (t, r) ->
  match r with
  | Ok d => exists ts ls tg lg, lzs max_dim = (ts, Ok ls) /\ lzg max_dim = (tg, Ok lg) /\
      d_ns d = l_size ls /\ d_ng d = l_size lg /\ d_rows d = l_size ls /\ d_cols d = l_size lg /\
      1 <= d_ns d <= S max_dim /\ 1 <= d_ng d <= S max_dim /\
      d_ops d = l_iters ls + l_iters lg /\ count_ops t = d_ops d /\ d_ops d <= 2 * max_dim /\
      t = tag 0 ts ++ tag 1 tg ++
          tag 2 [EBlock (d_ns d) (d_ng d); ENormS; ENormG; ECorner 0 (d_ns d); EBigExp (d_ns d + d_ng d)]
  | Err e => e = E_RECURSION /\
      ((exists ts, lzs max_dim = (ts, Err E_RECURSION) /\ t = tag 0 ts /\ count_ops t = max_dim) \/
       (exists ts ls tg, lzs max_dim = (ts, Ok ls) /\ lzg max_dim = (tg, Err E_RECURSION) /\
                         t = tag 0 ts ++ tag 1 tg /\ count_ops t = l_iters ls + max_dim))
  | OutOfFuel => False
  end.
Proof.
  intros max_dim t r H. unfold double_krylov_ctl in H.
  destruct (lzs max_dim) as [ts rs] eqn:Hs.
  pose proof (lanczos_contract _ _ _ _ _ _ Hs) as Cs.
  pose proof (lanczos_operator_applications _ _ _ _ _ _ Hs) as Os.
  pose proof (lanczos_returns_iff _ _ _ _ _ _ Hs) as [_ Bs].
  destruct rs as [ls|es|].
  - destruct (lzg max_dim) as [tg rg] eqn:Hg.
    pose proof (lanczos_contract _ _ _ _ _ _ Hg) as Cg.
    pose proof (lanczos_operator_applications _ _ _ _ _ _ Hg) as Og.
    pose proof (lanczos_returns_iff _ _ _ _ _ _ Hg) as [_ Bg].
    specialize (Bs _ eq_refl).
    destruct rg as [lg|eg|].
    + specialize (Bg _ eq_refl). inversion H; subst. clear H. exists ts, ls, tg, lg. cbn [d_ns d_ng d_rows d_cols d_ops].
      repeat split; try lia.
      rewrite !count_ops_app, !count_ops_tag, Os, Og, !map_length, !seq_length. cbn. lia.
    + inversion H; subst. clear H. destruct Cg as (He & _ & _). split; [exact He|]. right.
      exists ts, ls, tg. subst eg. repeat split.
      rewrite count_ops_app, !count_ops_tag, Os, Og, !map_length, !seq_length. reflexivity.
    + destruct Cg.
  - inversion H; subst. clear H. destruct Cs as (He & _ & _). split; [exact He|]. left. exists ts. subst es.
    repeat split. rewrite count_ops_tag, Os, map_length, seq_length. reflexivity.
  - destruct Cs.
Qed.

(* the state run is complete before the gradient run starts, and a failed state run skips the gradient run *)
Theorem double_krylov_sequencing : forall max_dim t r, dk max_dim = (t, r) ->
  exists t0 t1 t2, t = t0 ++ t1 ++ t2 /\
    Forall (fun p => run_of p = 0) t0 /\ Forall (fun p => run_of p = 1) t1 /\ Forall (fun p => run_of p = 2) t2 /\
    (forall ts e, lzs max_dim = (ts, Err e) -> t1 = [] /\ t2 = []) /\
    ((exists d, r = Ok d) <-> t2 <> []).
Proof.
  intros max_dim t r H. unfold double_krylov_ctl in H.
  assert (Ftag : forall n l, Forall (fun p => run_of p = n) (tag n l)).
  { intros n l. unfold tag. apply Forall_forall. intros p Hp. apply in_map_iff in Hp. destruct Hp as (e & <- & _). reflexivity. }
  assert (Fail2 : forall r0 : res dres, (forall d, r0 <> Ok d) -> ((exists d, r0 = Ok d) <-> @nil (nat * event) <> [])).
  { intros r0 Hr. split; [intros [d E]; destruct (Hr _ E) | intros E; exfalso; apply E; reflexivity]. }
  destruct (lzs max_dim) as [ts rs] eqn:Hs. destruct rs as [ls|es|].
  - destruct (lzg max_dim) as [tg rg] eqn:Hg. destruct rg as [lg|eg|]; inversion H; subst; clear H.
    + eexists (tag 0 ts), (tag 1 tg), _. split; [reflexivity|].
      split; [apply Ftag|]. split; [apply Ftag|]. split; [repeat constructor|]. split.
      * intros ts' e E; discriminate.
      * split; [intros _; cbn; discriminate | intros _; eauto].
    + exists (tag 0 ts), (tag 1 tg), []. rewrite app_nil_r. split; [reflexivity|].
      split; [apply Ftag|]. split; [apply Ftag|]. split; [constructor|]. split.
      * intros ts' e E; discriminate.
      * apply Fail2. intros d E; discriminate.
    + exists (tag 0 ts), (tag 1 tg), []. rewrite app_nil_r. split; [reflexivity|].
      split; [apply Ftag|]. split; [apply Ftag|]. split; [constructor|]. split.
      * intros ts' e E; discriminate.
      * apply Fail2. intros d E; discriminate.
  - inversion H; subst; clear H. exists (tag 0 ts), [], []. rewrite !app_nil_r. split; [reflexivity|].
    split; [apply Ftag|]. split; [constructor|]. split; [constructor|]. split.
    + intros; split; reflexivity.
    + apply Fail2. intros d E; discriminate.
  - inversion H; subst; clear H. exists (tag 0 ts), [], []. rewrite !app_nil_r. split; [reflexivity|].
    split; [apply Ftag|]. split; [constructor|]. split; [constructor|]. split.
    + intros; split; reflexivity.
    + apply Fail2. intros d E; discriminate.
Qed.
End DoubleProofs.

(* ---------------------------------------------------------------------------------------- *)
(* the block-triangular power identity *)
Record NRingLaws (R : NRing) : Prop := MkNRL {
  nadd_comm : forall x y : nr R, nadd R x y = nadd R y x;
  nadd_0_r : forall x : nr R, nadd R x (n0 R) = x;
  nmul_0_r : forall x : nr R, nmul R x (n0 R) = n0 R;
  nmul_0_l : forall x : nr R, nmul R (n0 R) x = n0 R;
  nmul_1_r : forall x : nr R, nmul R x (n1 R) = x;
  nmul_assoc : forall x y z : nr R, nmul R (nmul R x y) z = nmul R x (nmul R y z);
  ndistr_r : forall x y z : nr R, nmul R (nadd R x y) z = nadd R (nmul R x z) (nmul R y z);
}.

Section BlockProofs.
Variable R : NRing.
Hypothesis L : NRingLaws R.

Lemma nsum_ext : forall (f g : nat -> nr R) n, (forall k, k < n -> f k = g k) -> nsum R f n = nsum R g n.
Proof.
  induction n as [|n IH]; intros H; cbn [nsum]; [reflexivity|].
  rewrite IH by (intros; apply H; lia). rewrite H by lia. reflexivity.
Qed.
Lemma nsum_mul_r : forall (f : nat -> nr R) b n, nmul R (nsum R f n) b = nsum R (fun k => nmul R (f k) b) n.
Proof.
  induction n as [|n IH]; cbn [nsum]; [apply (nmul_0_l L)|].
  rewrite (ndistr_r L), IH. reflexivity.
Qed.

Lemma frechet_sum_S : forall a e b n,
  frechet_sum R a e b (S n) = nadd R (nmul R (npow R a n) e) (nmul R (frechet_sum R a e b n) b).
Proof.
  intros a e b n. unfold frechet_sum. cbn [nsum]. rewrite (nadd_comm L). f_equal.
  - replace (S n - 1 - n) with 0 by lia. cbn [npow]. apply (nmul_1_r L).
  - rewrite nsum_mul_r. apply nsum_ext. intros k Hk.
    replace (S n - 1 - k) with (S (n - 1 - k)) by lia. cbn [npow]. rewrite <- (nmul_assoc L). reflexivity.
Qed.

Theorem block_upper_pow : forall a e b n,
  blk_pow (upper R a e b) n = upper R (npow R a n) (frechet_sum R a e b n) (npow R b n).
Proof.
  intros a e b. induction n as [|n IH].
  - reflexivity.
  - cbn [blk_pow]. rewrite IH. unfold upper, blk_mul. cbn [b11 b12 b21 b22 npow].
    rewrite frechet_sum_S, !(nmul_0_r L), !(nmul_0_l L), !(nadd_0_r L).
    f_equal. rewrite (nadd_comm L (n0 R)). apply (nadd_0_r L).
Qed.
End BlockProofs.

(* the laws are satisfiable by a ring that is not commutative: 2x2 integer matrices *)
Lemma t4_eq : forall a b c d a' b' c' d' : Z, a = a' -> b = b' -> c = c' -> d = d' -> (a, b, c, d) = (a', b', c', d').
Proof. intros; subst; reflexivity. Qed.
Ltac m2_solve := cbn; apply t4_eq; ring.
Lemma M2_laws : NRingLaws M2ring.
Proof.
  split; cbn.
  - intros [[[a b] c] d] [[[a' b'] c'] d']. m2_solve.
  - intros [[[a b] c] d]. m2_solve.
  - intros [[[a b] c] d]. m2_solve.
  - intros [[[a b] c] d]. m2_solve.
  - intros [[[a b] c] d]. m2_solve.
  - intros [[[a b] c] d] [[[a' b'] c'] d'] [[[a'' b''] c''] d'']. m2_solve.
  - intros [[[a b] c] d] [[[a' b'] c'] d'] [[[a'' b''] c''] d'']. m2_solve.
Qed.
Lemma M2_not_commutative : exists x y : nr M2ring, nmul M2ring x y <> nmul M2ring y x.
Proof. exists (0, 1, 0, 0)%Z, (0, 0, 1, 0)%Z. cbn. discriminate. Qed.
