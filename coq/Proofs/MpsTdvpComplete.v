(* Proofs about the emu-mps stepping machine (Model/MpsMachine.v); see Properties/C02.v. *)
From Coq Require Import ZArith List Bool Lia.
From EV Require Import Base.Arith Gen.Brent Model.MpsMachine.
From EV Require Import Proofs.MpsStep Proofs.MpsPhase Proofs.MpsSweep.
Import ListNotations.
Open Scope Z_scope.
Section P.
Variable A : Type.
Variable ar : Arith A.
Notation mstate := (mstate A).
Notation event := (event A).
Notation progress_l2r_mid := (@progress_l2r_mid A ar).
Notation progress_r2l_mid := (@progress_r2l_mid A ar).
Notation same_frame := (@same_frame A).
Notation pos := (@pos A).
Notation tdvp_like := (@tdvp_like A).
Notation l2r_block := (@l2r_block A ar).
Notation r2l_block := (@r2l_block A ar).
Notation hdt := (@hdt A ar). Notation nhdt := (@nhdt A ar). Notation dt_of := (@dt_of A ar).
Notation same_frame_refl := (@same_frame_refl A).
Notation same_frame_trans := (@same_frame_trans A).
Notation same_frame_dt := (@same_frame_dt A ar).
Notation l2r_phase := (@l2r_phase A ar).
Notation r2l_phase := (@r2l_phase A ar).
Notation progress_l2r_last := (@progress_l2r_last A ar).
Notation progress_r2l_last := (@progress_r2l_last A ar).
Notation iter_progress_app := (@iter_progress_app A ar).
Notation tdvp_like_frame := (@tdvp_like_frame A).
Notation mid_block := (@mid_block A ar).
Notation r2l_call := (@r2l_call A ar).
Notation before_complete := (@before_complete A ar).

Notation sweep_body := (@sweep_body A ar).
Notation sweep_prefix := (@sweep_prefix A ar).
Notation sweep_start := (@sweep_start A).

Ltac sp := cbn [m_kind m_N m_steps m_times m_sweep m_l2r m_tidx m_cur m_tgt m_nl m_nr m_oc m_thr m_gap m_rf
  m_prevE m_curE m_sweeps m_etol m_maxsw o_norm o_unif o_energy o_same m_ev
  emit set_sweep set_l2r set_tidx set_cur set_tgt set_nl set_nr set_oc set_thr set_gap set_rf set_prevE
  set_curE set_sweeps set_onorm set_ounif set_oenergy set_osame].
Ltac zt := repeat match goal with
  | |- context [(?a <? ?b)%Z] =>
      first [ replace (a <? b)%Z with true by (symmetry; apply Z.ltb_lt; lia)
            | replace (a <? b)%Z with false by (symmetry; apply Z.ltb_ge; lia) ]
  | |- context [(?a <=? ?b)%Z] =>
      first [ replace (a <=? b)%Z with true by (symmetry; apply Z.leb_le; lia)
            | replace (a <=? b)%Z with false by (symmetry; apply Z.leb_gt; lia) ]
  | |- context [(?a =? ?b)%Z] =>
      first [ replace (a =? b)%Z with true by (symmetry; apply Z.eqb_eq; lia)
            | replace (a =? b)%Z with false by (symmetry; apply Z.eqb_neq; lia) ]
  end.
Ltac step := sp; zt; cbn [negb andb orb res_bind].

(* chronological events of MPSBackendImpl.timestep_complete *)
Definition complete_events (k : Z) (cur : A) (same : bool) (next : option A) : list event :=
  [EvFill k cur; EvQueryU (midpoint ar cur cur)] ++ (if same then [] else [EvMakeH A]) ++
  (match next with Some _ => [EvUpdateH A (k + 1) true; EvInitBaths A] | None => [] end) ++ [EvStats cur].

(* TDVP: what sweep_complete does at the end of a sweep (time step k), when the oracle says whether
   the interaction matrix changed; `next` is target_times[k+2] when another step follows *)
Lemma tdvp_sweep_complete (s : mstate) (same : bool) (rest : list bool) (next : option A) :
  m_kind s = TDVP -> 2 <= m_N s -> o_same s = same :: rest ->
  (m_tidx s + 1 < m_steps s -> exists t, next = Some t /\ nthZ (m_times s) (m_tidx s + 2) = Some t) ->
  (m_steps s <= m_tidx s + 1 -> next = None) ->
  exists s', sweep_complete ar s = Ok s' /\
    m_kind s' = TDVP /\ m_N s' = m_N s /\ m_steps s' = m_steps s /\ m_times s' = m_times s /\
    m_tidx s' = m_tidx s + 1 /\ m_cur s' = m_tgt s /\
    m_tgt s' = match next with Some t => t | None => m_tgt s end /\
    m_sweep s' = m_sweep s /\ m_l2r s' = m_l2r s /\ m_oc s' = m_oc s /\
    (match next with Some _ => m_nl s' = 1 /\ m_nr s' = m_N s - 1 | None => True end) /\
    o_same s' = rest /\
    m_ev s' = rev (complete_events (m_tidx s) (m_tgt s) same next) ++ m_ev s.
Proof.
  intros Hk HN Hs Hnext Hfin.
  unfold sweep_complete. rewrite Hk. unfold sweep_complete_tdvp, timestep_complete. sp. rewrite Hk.
  unfold timestep_complete_base, query_U. sp. rewrite Hs. unfold is_finished. sp.
  destruct (Z.lt_ge_cases (m_tidx s + 1) (m_steps s)) as [Hlt|Hge].
  - destruct (Hnext Hlt) as (t & -> & Ht).
    destruct same; sp; zt; replace (m_tidx s + 1 + 1) with (m_tidx s + 2) by lia;
      rewrite Ht; unfold init_baths; sp; zt;
      replace (Z.max 1 (m_N s - 1)) with (m_N s - 1) by lia; zt; cbn [negb res_bind]; sp;
      (eexists; split; [reflexivity|]); sp; unfold complete_events; cbn [app rev];
      repeat split; try reflexivity; try assumption.
  - rewrite (Hfin Hge).
    destruct same; sp; zt; cbn [res_bind]; sp;
      (eexists; split; [reflexivity|]); sp; unfold complete_events; cbn [app rev];
      repeat split; try reflexivity; try assumption.
Qed.
End P.
