(* Proofs about the emu-mps stepping machine (Model/MpsMachine.v); see Properties/C02.v. *)
From Coq Require Import ZArith List Bool Lia.
From EV Require Import Base.Arith Gen.Brent Model.MpsMachine.
From EV Require Import Proofs.MpsStep Proofs.MpsPhase Proofs.MpsSweep Proofs.MpsTdvpComplete Proofs.MpsTdvpStep.
Import ListNotations.
Open Scope Z_scope.
Section P.
Variable A : Type.
Variable ar : Arith A.
Notation mstate := (mstate A).
Notation event := (event A).
Notation progress_l2r_mid := (@progress_l2r_mid A ar).
Notation progress_r2l_mid := (@progress_r2l_mid A ar).
Notation same_frame := (@same_frame A).
Notation pos := (@pos A).
Notation tdvp_like := (@tdvp_like A).
Notation l2r_block := (@l2r_block A ar).
Notation r2l_block := (@r2l_block A ar).
Notation hdt := (@hdt A ar). Notation nhdt := (@nhdt A ar). Notation dt_of := (@dt_of A ar).
Notation same_frame_refl := (@same_frame_refl A).
Notation same_frame_trans := (@same_frame_trans A).
Notation same_frame_dt := (@same_frame_dt A ar).
Notation l2r_phase := (@l2r_phase A ar).
Notation r2l_phase := (@r2l_phase A ar).
Notation progress_l2r_last := (@progress_l2r_last A ar).
Notation progress_r2l_last := (@progress_r2l_last A ar).
Notation iter_progress_app := (@iter_progress_app A ar).
Notation tdvp_like_frame := (@tdvp_like_frame A).
Notation mid_block := (@mid_block A ar).
Notation r2l_call := (@r2l_call A ar).
Notation before_complete := (@before_complete A ar).

Notation sweep_body := (@sweep_body A ar).
Notation sweep_prefix := (@sweep_prefix A ar).
Notation sweep_start := (@sweep_start A).

Ltac sp := cbn [m_kind m_N m_steps m_times m_sweep m_l2r m_tidx m_cur m_tgt m_nl m_nr m_oc m_thr m_gap m_rf
  m_prevE m_curE m_sweeps m_etol m_maxsw o_norm o_unif o_energy o_same m_ev
  emit set_sweep set_l2r set_tidx set_cur set_tgt set_nl set_nr set_oc set_thr set_gap set_rf set_prevE
  set_curE set_sweeps set_onorm set_ounif set_oenergy set_osame].
Ltac zt := repeat match goal with
  | |- context [(?a <? ?b)%Z] =>
      first [ replace (a <? b)%Z with true by (symmetry; apply Z.ltb_lt; lia)
            | replace (a <? b)%Z with false by (symmetry; apply Z.ltb_ge; lia) ]
  | |- context [(?a <=? ?b)%Z] =>
      first [ replace (a <=? b)%Z with true by (symmetry; apply Z.leb_le; lia)
            | replace (a <=? b)%Z with false by (symmetry; apply Z.leb_gt; lia) ]
  | |- context [(?a =? ?b)%Z] =>
      first [ replace (a =? b)%Z with true by (symmetry; apply Z.eqb_eq; lia)
            | replace (a =? b)%Z with false by (symmetry; apply Z.eqb_neq; lia) ]
  end.
Ltac step := sp; zt; cbn [negb andb orb res_bind].

Notation complete_events := (@complete_events A ar).
Notation tdvp_sweep_complete := (@tdvp_sweep_complete A ar).

Notation step_events := (@step_events A ar).
Notation run_events := (@run_events A ar).
Notation step_start := (@step_start A).
Notation tdvp_step := (@tdvp_step A ar).

(* The whole TDVP run from the start of step k: [length (tgt :: rest)] time steps of 2N-3 progress()
   calls each (N = n + 3), after which the run is finished and the trace is the closed form. *)
Theorem tdvp_run : forall (rest : list A) (s : mstate) (n : nat) (k : Z) (cur tgt : A) (same : list bool),
  step_start s n k cur tgt rest same -> (length (tgt :: rest) <= length same)%nat ->
  exists sf, iter_progress ar (length (tgt :: rest) * (S n + 1 + n + 1)) s = Ok sf /\
    is_finished sf = true /\
    m_ev sf = rev (run_events n k cur (tgt :: rest) same) ++ m_ev s.
Proof.
  induction rest as [|t rest IH]; intros s n k cur tgt same HS Hlen.
  - destruct same as [|sm same]; [cbn in Hlen; lia|].
    destruct (tdvp_step s n k cur tgt [] sm same HS) as (s' & H1 & E1 & Hf).
    exists s'. cbn [length Nat.mul]. rewrite Nat.add_0_r. split; [exact H1|]. split; [exact Hf|].
    rewrite E1. cbn [run_events MpsTdvpStep.run_events]. rewrite app_nil_r. reflexivity.
  - destruct same as [|sm same]; [cbn in Hlen; lia|].
    destruct (tdvp_step s n k cur tgt (t :: rest) sm same HS) as (s' & H1 & E1 & HS').
    destruct (IH s' n (k + 1) tgt t same HS') as (sf & H2 & Hf & E2); [cbn [length] in *; lia|].
    exists sf. change (length (tgt :: t :: rest)) with (S (length (t :: rest))).
    cbn [Nat.mul]. rewrite iter_progress_app, H1. cbn [res_bind]. split; [exact H2|]. split; [exact Hf|].
    rewrite E2, E1. cbn [MpsTdvpStep.run_events]. rewrite rev_app_distr, <- app_assoc. reflexivity.
Qed.

(* chronological events of __init__ + init() *)
Definition init_events (t1 : A) : list event :=
  let zero := a_ofZ ar 0 in
  [EvQueryU (midpoint ar zero t1); EvMakeH A; EvUpdateH A 0 false; EvFill 0 zero; EvUpdateH A 0 true; EvInitBaths A].

Lemma tdvp_init (n : nat) (t0 t1 : A) (rest : list A) (same : list bool) onorm ounif oenergy etol maxsw :
  exists s0,
    mk_initial ar (TDVP) (Z.of_nat n + 3) (1 + Z.of_nat (length rest)) (t0 :: t1 :: rest) etol maxsw
               onorm ounif oenergy same = Ok s0 /\
    step_start s0 n 0 (a_ofZ ar 0) t1 rest same /\ m_ev s0 = rev (init_events t1).
Proof.
  unfold mk_initial. cbn [nthZ Z.ltb Z.compare Z.to_nat nth_error].
  replace (Z.of_nat n + 3 <? 2) with false by (symmetry; apply Z.ltb_ge; lia).
  unfold query_U, init_baths. sp.
  replace (Z.max 1 (Z.of_nat n + 3 - 1)) with (Z.of_nat n + 3 - 1) by lia.
  replace (Z.of_nat n + 3 - 1 =? Z.of_nat n + 3 - 1) with true by (symmetry; apply Z.eqb_eq; lia).
  cbn [negb res_bind]. eexists. split; [reflexivity|]. sp.
  unfold step_start, MpsSweep.sweep_start, MpsStep.pos, init_events. sp. cbn [rev app skipn Z.to_nat Z.add Pos.to_nat Pos.iter_op Nat.add].
  repeat split; try reflexivity; try lia.
Qed.

(* API level: a noiseless TDVP run on N = n+3 >= 3 sites over the target times t0 :: t1 :: rest
   (one row of drive parameters per interval) performs exactly (#intervals) * (2N-3) progress() calls,
   never fails, and its complete kernel/side-effect trace is init_events ++ run_events. *)
Theorem tdvp_whole_run (n : nat) (t0 t1 : A) (rest : list A) (same : list bool) onorm ounif oenergy etol maxsw :
  (length (t1 :: rest) <= length same)%nat ->
  exists s0 sf,
    mk_initial ar (TDVP) (Z.of_nat n + 3) (1 + Z.of_nat (length rest)) (t0 :: t1 :: rest) etol maxsw
               onorm ounif oenergy same = Ok s0 /\
    iter_progress ar (length (t1 :: rest) * (2 * n + 3)) s0 = Ok sf /\ is_finished sf = true /\
    m_ev sf = rev (init_events t1 ++ run_events n 0 (a_ofZ ar 0) (t1 :: rest) same).
Proof.
  intros Hlen.
  destruct (tdvp_init n t0 t1 rest same onorm ounif oenergy etol maxsw) as (s0 & H0 & HS & E0).
  destruct (tdvp_run rest s0 n 0 (a_ofZ ar 0) t1 same HS Hlen) as (sf & H1 & Hf & E1).
  exists s0, sf. split; [exact H0|]. replace (2 * n + 3)%nat with (S n + 1 + n + 1)%nat by lia.
  split; [exact H1|]. split; [exact Hf|]. rewrite E1, E0, rev_app_distr. reflexivity.
Qed.
End P.
