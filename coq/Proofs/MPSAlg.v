(* Proofs about the MPS/MPO algebra model (Model/MPSAlg.v), for every commutative ring. *)
From Coq Require Import List Arith Lia Ring Bool ZArith.
From EV Require Import Model.TransferMat Model.MPSAlg Proofs.TransferMat.
Import ListNotations.

Section AlgProofs.
Variable K : Type.
Variable Ko : RingOps K.
Hypothesis Kring : ring_theory (k0 Ko) (k1 Ko) (kadd Ko) (kmul Ko) (ksub Ko) (kopp Ko) (@eq K).
Add Ring KRing2 : Kring.
Local Notation "'zero'" := (k0 Ko).
Local Notation "'one'" := (k1 Ko).
Local Infix "[+]" := (kadd Ko) (at level 50, left associativity).
Local Infix "[*]" := (kmul Ko) (at level 40, left associativity).
Local Notation sumn := (sumn Ko).
Local Notation sumL := (sumL Ko).
Local Notation dotf := (dotf Ko).
Local Notation vscale := (vscale Ko).
Local Notation vstep := (vstep Ko).
Local Notation ampv := (ampv Ko).
Local Notation amp := (amp Ko).
Local Notation T3 := (T3 K).

(* ================= scale_factors ================= *)
Lemma vstep_tscale c v (T : T3) s : vstep v (tscale Ko c T) s = vscale c (vstep v T s).
Proof.
  unfold TransferMat.vstep, TransferMat.vscale, tscale; simpl. rewrite map_map. apply map_ext. intros r.
  apply dotf_scale_r; assumption.
Qed.

Lemma ampv_scale_go : forall (A : list T3) i which c v b,
  ampv v (scale_go Ko i which c A) b =
  if (i <=? which) && (which <? i + length A)
  then option_map (fun x => c [*] x) (ampv v A b) else ampv v A b.
Proof.
  induction A as [|a A IH]; intros i which c v b.
  - simpl. replace (which <? i + 0) with (negb (i <=? which)).
    + destruct (i <=? which); reflexivity.
    + rewrite Nat.add_0_r. destruct (Nat.leb_spec i which), (Nat.ltb_spec which i); simpl; try reflexivity; lia.
  - simpl scale_go. destruct (Nat.eqb_spec i which) as [E|E].
    + subst which. replace ((i <=? i) && (i <? i + length (a :: A))) with true.
      2:{ symmetry. apply andb_true_iff. split; [apply Nat.leb_le; lia | apply Nat.ltb_lt; simpl; lia]. }
      destruct b as [|s b]; [reflexivity|]. simpl.
      destruct ((length v =? dl a) && (s <? dp a)); [|reflexivity].
      rewrite IH. replace ((S i <=? i) && (i <? S i + length A)) with false.
      2:{ symmetry. apply andb_false_iff. left. apply Nat.leb_gt. lia. }
      rewrite vstep_tscale. apply ampv_vscale; assumption.
    + destruct b as [|s b].
      { simpl. destruct ((i <=? which) && (which <? i + S (length A))); reflexivity. }
      simpl. destruct ((length v =? dl a) && (s <? dp a)).
      2:{ destruct ((i <=? which) && (which <? i + S (length A))); reflexivity. }
      rewrite IH.
      replace ((S i <=? which) && (which <? S i + length A)) with ((i <=? which) && (which <? i + S (length A))).
      * reflexivity.
      * destruct (Nat.leb_spec i which), (Nat.leb_spec (S i) which), (Nat.ltb_spec which (i + S (length A))),
          (Nat.ltb_spec which (S i + length A)); simpl; try reflexivity; lia.
Qed.

Lemma scale_factors_amp : forall (A : list T3) c which b,
  amp (scale_factors Ko A c which) b =
  if which <? length A then option_map (fun x => c [*] x) (amp A b) else amp A b.
Proof.
  intros. unfold TransferMat.amp, scale_factors. rewrite ampv_scale_go. reflexivity.
Qed.

(* ================= add_factors ================= *)
Lemma vstep_cat_r v (a b c : T3) s :
  cat_r a b = Some c -> vstep v c s = vstep v a s ++ vstep v b s.
Proof.
  unfold cat_r. destruct ((dl a =? dl b) && (dp a =? dp b)); [|discriminate].
  intros H; injection H as <-. unfold TransferMat.vstep; simpl.
  rewrite seq_app, map_app. f_equal.
  - apply map_ext_in. intros r Hr. apply in_seq in Hr.
    apply dotf_ext. intros l _. replace (r <? dr a) with true; [reflexivity|].
    symmetry. apply Nat.ltb_lt. lia.
  - simpl. rewrite (seq_shift_map (dr a) (dr b)), map_map. apply map_ext. intros r.
    apply dotf_ext. intros l _. replace (dr a + r <? dr a) with false.
    + replace (dr a + r - dr a) with r by lia. reflexivity.
    + symmetry. apply Nat.ltb_ge. lia.
Qed.

Lemma vstep_cat_l vA vB (a b c : T3) s :
  cat_l a b = Some c -> length vA = dl a ->
  vstep (vA ++ vB) c s =
  map (fun r => dotf vA (fun l => tf a l s r) [+] dotf vB (fun l => tf b l s r)) (seq 0 (dr a)).
Proof.
  unfold cat_l. destruct ((dr a =? dr b) && (dp a =? dp b)); [|discriminate].
  intros H L; injection H as <-. unfold TransferMat.vstep; simpl.
  apply map_ext. intros r. rewrite dotf_app by assumption. f_equal.
  - apply dotf_ext. intros l Hl. replace (l <? dl a) with true; [reflexivity|].
    symmetry. apply Nat.ltb_lt. lia.
  - apply dotf_ext. intros l Hl. rewrite L. replace (dl a + l <? dl a) with false.
    + replace (dl a + l - dl a) with l by lia. reflexivity.
    + symmetry. apply Nat.ltb_ge. lia.
Qed.

Lemma cat_l_dims (a b c : T3) : cat_l a b = Some c ->
  dl c = dl a + dl b /\ dp c = dp a /\ dr c = dr a /\ dr a = dr b /\ dp a = dp b.
Proof.
  unfold cat_l. destruct (Nat.eqb_spec (dr a) (dr b)), (Nat.eqb_spec (dp a) (dp b)); simpl; try discriminate.
  intros H; injection H as <-. simpl. auto.
Qed.
Lemma cat_r_dims (a b c : T3) : cat_r a b = Some c ->
  dl c = dl a /\ dp c = dp a /\ dr c = dr a + dr b /\ dl a = dl b /\ dp a = dp b.
Proof.
  unfold cat_r. destruct (Nat.eqb_spec (dl a) (dl b)), (Nat.eqb_spec (dp a) (dp b)); simpl; try discriminate.
  intros H; injection H as <-. simpl. auto.
Qed.

Lemma vstep_add_mid vA vB (a b c : T3) s :
  add_mid Ko a b = Some c -> length vA = dl a -> length vB = dl b ->
  vstep (vA ++ vB) c s = vstep vA a s ++ vstep vB b s /\
  dl c = dl a + dl b /\ dp c = dp a /\ dp a = dp b.
Proof.
  unfold add_mid, obind. intros H LA LB.
  destruct (cat_l a (zeros3 Ko (dl b) (dp a) (dr a))) as [p1|] eqn:E1; [|discriminate].
  destruct (cat_l (zeros3 Ko (dl a) (dp b) (dr b)) b) as [p2|] eqn:E2; [|discriminate].
  pose proof (cat_l_dims _ _ _ E1) as D1. pose proof (cat_l_dims _ _ _ E2) as D2.
  pose proof (cat_r_dims _ _ _ H) as D3. simpl in D1, D2.
  rewrite (vstep_cat_r _ _ _ _ _ H).
  rewrite (vstep_cat_l _ _ _ _ _ _ E1 LA). rewrite (vstep_cat_l _ _ _ _ _ _ E2) by (simpl; assumption).
  simpl. split; [|lia].
  f_equal.
  - unfold TransferMat.vstep. apply map_ext. intros r.
    rewrite (dotf_zero _ _ Kring vB) by reflexivity. ring.
  - unfold TransferMat.vstep. apply map_ext. intros r.
    rewrite (dotf_zero _ _ Kring vA) by reflexivity. ring.
Qed.

Lemma ampv_cons_inv v (T : T3) Ts b x : ampv v (T :: Ts) b = Some x ->
  exists s b', b = s :: b' /\ length v = dl T /\ s < dp T /\ ampv (vstep v T s) Ts b' = Some x.
Proof.
  destruct b as [|s b']; simpl; [discriminate|].
  destruct (Nat.eqb_spec (length v) (dl T)), (Nat.ltb_spec s (dp T)); simpl; try discriminate.
  intros Hx. exists s, b'. auto.
Qed.

Lemma ampv_nil_inv v b x : ampv v [] b = Some x -> b = [] /\ v = [x].
Proof.
  destruct b; simpl; [|discriminate]. destruct v as [|y [|z v]]; try discriminate.
  intros H; injection H as <-. auto.
Qed.

Lemma add_tail : forall (A B : list T3) i n C vA vB b x y,
  1 <= i -> i + length A = n -> length A = length B -> A <> [] ->
  add_go Ko i n A B = Some C ->
  ampv vA A b = Some x -> ampv vB B b = Some y ->
  ampv (vA ++ vB) C b = Some (x [+] y).
Proof.
  induction A as [|a A IH]; intros B i n C vA vB b x y Hi Hn HL Hne HC HA HB; [congruence|].
  destruct B as [|b0 B]; [discriminate|].
  simpl in HC. replace (i =? 0) with false in HC by (symmetry; apply Nat.eqb_neq; lia).
  destruct (ampv_cons_inv _ _ _ _ _ HA) as (s & b' & -> & LA & Hs & HA').
  destruct (ampv_cons_inv _ _ _ _ _ HB) as (s2 & b2 & Eb & LB & Hs2 & HB').
  injection Eb as <- <-.
  destruct A as [|a' A'].
  - (* last site *)
    destruct B; [|discriminate].
    replace (i =? n - 1) with true in HC by (symmetry; apply Nat.eqb_eq; simpl in Hn; lia).
    unfold obind in HC. destruct (cat_l a b0) as [c|] eqn:Ec; [|discriminate].
    simpl in HC. injection HC as <-.
    destruct (ampv_nil_inv _ _ _ HA') as (-> & VA). destruct (ampv_nil_inv _ _ _ HB') as (_ & VB).
    pose proof (cat_l_dims _ _ _ Ec) as (D1 & D2 & D3 & D4 & D5).
    simpl. rewrite app_length, LA, LB, D1, Nat.eqb_refl. rewrite D2.
    replace (s <? dp a) with true by (symmetry; apply Nat.ltb_lt; assumption). simpl.
    rewrite (vstep_cat_l _ _ _ _ _ _ Ec LA).
    assert (R1 : dr a = 1). { rewrite <- (length_vstep _ Ko vA a s), VA. reflexivity. }
    unfold TransferMat.vstep in VA, VB. rewrite <- D4, R1 in VB. rewrite R1 in VA. rewrite R1.
    simpl in VA, VB |- *. injection VA as ->. injection VB as ->. reflexivity.
  - (* middle site *)
    destruct B as [|b1 B']; [discriminate|].
    replace (i =? n - 1) with false in HC by (symmetry; apply Nat.eqb_neq; simpl in Hn; lia).
    unfold obind in HC at 1. destruct (add_mid Ko a b0) as [c|] eqn:Ec; [|discriminate].
    unfold obind in HC at 1.
    destruct (add_go Ko (S i) n (a' :: A') (b1 :: B')) as [C'|] eqn:EC'; [|discriminate].
    injection HC as <-.
    destruct (vstep_add_mid vA vB _ _ _ s Ec LA LB) as (V & D1 & D2 & D3).
    change (ampv (vA ++ vB) (c :: C') (s :: b')) with
      (if (length (vA ++ vB) =? dl c) && (s <? dp c) then ampv (vstep (vA ++ vB) c s) C' b' else None).
    rewrite app_length, LA, LB, D1, Nat.eqb_refl, D2.
    replace (s <? dp a) with true by (symmetry; apply Nat.ltb_lt; assumption). simpl andb. cbv iota.
    rewrite V. apply (IH (b1 :: B') (S i) n); try assumption; try lia.
    + simpl in Hn |- *. lia.
    + simpl in HL |- *. lia.
    + discriminate.
Qed.

Theorem add_factors_amp : forall (A B C : list T3) b x y,
  2 <= length A -> add_factors Ko A B = Some C ->
  amp A b = Some x -> amp B b = Some y -> amp C b = Some (x [+] y).
Proof.
  intros A B C b x y HN HC HA HB. unfold add_factors in HC.
  destruct (Nat.eqb_spec (length A) (length B)) as [HL|]; [|discriminate].
  destruct A as [|a A]; [simpl in HN; lia|]. destruct B as [|b0 B]; [discriminate|].
  simpl in HC. unfold obind in HC at 1. destruct (cat_r a b0) as [c|] eqn:Ec; [|discriminate].
  unfold obind in HC. destruct (add_go Ko 1 (S (length A)) A B) as [C'|] eqn:EC'; [|discriminate].
  injection HC as <-.
  unfold TransferMat.amp in *.
  destruct (ampv_cons_inv _ _ _ _ _ HA) as (s & b' & -> & LA & Hs & HA').
  destruct (ampv_cons_inv _ _ _ _ _ HB) as (s2 & b2 & Eb & LB & Hs2 & HB').
  injection Eb as <- <-.
  pose proof (cat_r_dims _ _ _ Ec) as (D1 & D2 & D3 & D4 & D5).
  change (ampv [one] (c :: C') (s :: b')) with
    (if (length [one] =? dl c) && (s <? dp c) then ampv (vstep [one] c s) C' b' else None).
  rewrite D1, <- LA, Nat.eqb_refl, D2.
  replace (s <? dp a) with true by (symmetry; apply Nat.ltb_lt; assumption). simpl andb. cbv iota.
  rewrite (vstep_cat_r _ _ _ _ _ Ec).
  apply (add_tail A B 1 (S (length A))); try assumption; try lia.
  - simpl in HL. lia.
  - destruct A; [simpl in HN; lia | discriminate].
Qed.

(* add_factors succeeds exactly on equal lengths and matching shapes; in particular on two chains
   with the same physical dimensions on which an amplitude is defined *)
Lemma add_go_length : forall (A B C : list T3) i n,
  length A = length B -> add_go Ko i n A B = Some C -> length C = length A.
Proof.
  induction A as [|a A IH]; intros B C i n HL H.
  - simpl in H. injection H as <-. reflexivity.
  - destruct B as [|b0 B]; [discriminate|]. simpl in H. unfold obind in H.
    destruct (if i =? 0 then _ else _); [|discriminate].
    destruct (add_go Ko (S i) n A B) eqn:E; [|discriminate]. injection H as <-.
    simpl. f_equal. apply (IH B l (S i) n); [simpl in HL; lia | exact E].
Qed.
Lemma add_factors_length (A B C : list T3) : add_factors Ko A B = Some C -> length C = length A.
Proof.
  unfold add_factors. destruct (Nat.eqb_spec (length A) (length B)) as [HL|]; [|discriminate].
  apply add_go_length; assumption.
Qed.

End AlgProofs.
