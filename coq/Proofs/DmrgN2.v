(* C09, two-site corner case of DMRGBackendImpl: a sweep is two minimisations of the single pair
   (left-to-right, then right-to-left), then orthogonalize(0) and sweep_complete.  Same contract as N >= 3. *)
From Coq Require Import ZArith List Bool Lia.
From EV Require Import Base.Arith Gen.Brent Model.MpsMachine Proofs.MpsStep Proofs.MpsPhase Proofs.MpsSweep
  Proofs.MpsTdvpComplete Proofs.MpsTdvpStep Proofs.MpsTdvpTrace Proofs.MpsTdvpRun Proofs.DmrgStep Proofs.DmrgPhase
  Proofs.DmrgSweep Proofs.DmrgContract.
Import ListNotations.
Open Scope Z_scope.

Section P.
Variable A : Type.
Variable ar : Arith A.
Notation mstate := (mstate A).
Notation event := (event A).
Notation dpos := (@dpos A).
Notation converges := (@converges A ar).
Notation complete_events := (@complete_events A ar).

Ltac sp := cbn [m_kind m_N m_steps m_times m_sweep m_l2r m_tidx m_cur m_tgt m_nl m_nr m_oc m_thr m_gap m_rf
  m_prevE m_curE m_sweeps m_etol m_maxsw o_norm o_unif o_energy o_same m_ev
  emit set_sweep set_l2r set_tidx set_cur set_tgt set_nl set_nr set_oc set_thr set_gap set_rf set_prevE
  set_curE set_sweeps set_onorm set_ounif set_oenergy set_osame].
Ltac zt := repeat match goal with
  | |- context [(?a <? ?b)%Z] =>
      first [ replace (a <? b)%Z with true by (symmetry; apply Z.ltb_lt; lia)
            | replace (a <? b)%Z with false by (symmetry; apply Z.ltb_ge; lia) ]
  | |- context [(?a <=? ?b)%Z] =>
      first [ replace (a <=? b)%Z with true by (symmetry; apply Z.leb_le; lia)
            | replace (a <=? b)%Z with false by (symmetry; apply Z.leb_gt; lia) ]
  | |- context [(?a =? ?b)%Z] =>
      first [ replace (a =? b)%Z with true by (symmetry; apply Z.eqb_eq; lia)
            | replace (a =? b)%Z with false by (symmetry; apply Z.eqb_neq; lia) ]
  end.
Ltac step := sp; zt; cbn [negb andb orb res_bind].

Definition dmrg_like2 (s : mstate) : Prop := m_kind s = DMRG /\ m_N s = 2 /\ m_tidx s < m_steps s.
Definition dstart2 (s : mstate) : Prop := dpos s 0 true 1 1.

(* the state after the left-to-right minimisation of the pair *)
Definition d2_mid (s : mstate) (e1 : A) (rest1 : list A) : mstate :=
  emit (set_l2r (set_curE (set_oc (emit (set_oenergy s rest1) (EvMinimize A 0 true)) 1) (Some e1)) false) (EvSave A).

Lemma dmrg2_first (s : mstate) e1 rest1 :
  dmrg_like2 s -> dstart2 s -> o_energy s = e1 :: rest1 -> progress ar s = Ok (d2_mid s e1 rest1).
Proof.
  intros (Hk & HN & Ht) (Hsw & Hl & Hnl & Hnr) He.
  rewrite (progress_is_dmrg A ar s Hk). unfold progress_dmrg, is_finished. step. rewrite He. sp. rewrite Hl, Hsw.
  step. unfold d2_mid. reflexivity.
Qed.

(* the state handed to sweep_complete by the right-to-left minimisation *)
Definition dbc2 (s : mstate) (e2 : A) (rest : list A) : mstate :=
  set_sweeps (set_l2r (set_oc (emit (set_curE (set_oc (emit (set_oenergy s rest) (EvMinimize A 0 false)) 0) (Some e2))
    (EvOrth A 0)) 0) true) (m_sweeps s + 1).

Lemma dmrg2_second (s : mstate) e2 rest :
  dmrg_like2 s -> dpos s 0 false 1 1 -> o_energy s = e2 :: rest ->
  progress ar s = res_bind (sweep_complete ar (dbc2 s e2 rest)) (fun s => Ok (emit s (EvSave A))).
Proof.
  intros (Hk & HN & Ht) (Hsw & Hl & Hnl & Hnr) He.
  rewrite (progress_is_dmrg A ar s Hk). unfold progress_dmrg, is_finished. step. rewrite He. sp. rewrite Hl, Hsw.
  step. unfold dbc2. reflexivity.
Qed.

Definition sweep2_ev : list event := [EvMinimize A 0 true; EvSave A; EvMinimize A 0 false; EvOrth A 0].

(* the state at the end of the sweep, before sweep_complete *)
Definition dsb2 (s : mstate) (e1 e2 : A) (rest : list A) : mstate := dbc2 (d2_mid s e1 (e2 :: rest)) e2 rest.

Lemma dmrg2_sweep_body (s : mstate) e1 e2 rest :
  dmrg_like2 s -> dstart2 s -> o_energy s = e1 :: e2 :: rest ->
  iter_progress ar 2 s = res_bind (sweep_complete ar (dsb2 s e1 e2 rest)) (fun s => Ok (emit s (EvSave A))).
Proof.
  intros HT HS He. cbn [iter_progress]. rewrite (dmrg2_first s e1 (e2 :: rest) HT HS He). cbn [res_bind].
  destruct HT as (Hk & HN & Ht). destruct HS as (Hsw & Hl & Hnl & Hnr).
  rewrite (dmrg2_second (d2_mid s e1 (e2 :: rest)) e2 rest).
  - unfold dsb2. destruct (sweep_complete ar (dbc2 (d2_mid s e1 (e2 :: rest)) e2 rest)); reflexivity.
  - unfold dmrg_like2, d2_mid. sp. repeat split; assumption.
  - unfold DmrgStep.dpos, d2_mid. sp. repeat split; assumption.
  - unfold d2_mid. sp. reflexivity.
Qed.

Lemma dsb2_fields (s : mstate) (e1 e2 : A) (rest : list A) :
  let sb := set_cur (dsb2 s e1 e2 rest) (m_tgt (dsb2 s e1 e2 rest)) in
  m_sweep sb = m_sweep s /\ m_l2r sb = true /\ m_oc sb = 0 /\ m_N sb = m_N s /\ m_steps sb = m_steps s /\
  m_times sb = m_times s /\ m_tidx sb = m_tidx s /\ m_cur sb = m_tgt s /\ m_tgt sb = m_tgt s /\
  m_etol sb = m_etol s /\ m_maxsw sb = m_maxsw s /\ m_prevE sb = m_prevE s /\
  m_sweeps sb = m_sweeps s + 1 /\ o_energy sb = rest /\
  m_ev sb = rev sweep2_ev ++ m_ev s /\
  m_kind sb = m_kind s /\ o_same sb = o_same s /\ m_curE sb = Some e2 /\ m_nl sb = m_nl s /\ m_nr sb = m_nr s.
Proof. cbv zeta. unfold dsb2, dbc2, d2_mid, sweep2_ev. sp. cbn [rev app]. repeat split. Qed.

Section OneSweep.
Variables (s : mstate) (e1 e2 : A) (rest : list A).
Hypothesis HT : dmrg_like2 s.
Hypothesis HS : dstart2 s.
Hypothesis He : o_energy s = e1 :: e2 :: rest.

Lemma dmrg2_sweep_continue :
  converges (m_prevE s) e2 (m_etol s) = false -> m_sweeps s + 2 <= m_maxsw s ->
  exists s', iter_progress ar 2 s = Ok s' /\
    dstart2 s' /\ dmrg_like2 s' /\ m_steps s' = m_steps s /\ m_times s' = m_times s /\
    m_tidx s' = m_tidx s /\ m_cur s' = m_cur s /\ m_tgt s' = m_tgt s /\ m_etol s' = m_etol s /\
    m_maxsw s' = m_maxsw s /\ o_same s' = o_same s /\
    m_prevE s' = Some e2 /\ m_sweeps s' = m_sweeps s + 1 /\ o_energy s' = rest /\
    m_ev s' = EvSave A :: rev sweep2_ev ++ m_ev s.
Proof.
  intros Hc Hm. rewrite (dmrg2_sweep_body s e1 e2 rest HT HS He).
  destruct HT as (Hk & HN & Htx). destruct HS as (Hsw & Hl & Hnl & Hnr).
  unfold sweep_complete. unfold dsb2, dbc2, d2_mid at 1. sp. rewrite Hk.
  unfold sweep_complete_dmrg, convergence_check. unfold dsb2, dbc2, d2_mid. sp.
  unfold DmrgContract.converges in Hc. destruct (m_prevE s) as [p|]; [rewrite Hc|]; rewrite ?Hsw; step; step; step;
    (eexists; split; [reflexivity|]); unfold dstart2, DmrgStep.dpos, dmrg_like2, sweep2_ev; sp; cbn [rev app];
    repeat split; try reflexivity; try assumption; try lia.
Qed.

Lemma dmrg2_sweep_gives_up :
  converges (m_prevE s) e2 (m_etol s) = false -> m_maxsw s < m_sweeps s + 2 ->
  iter_progress ar 2 s = Err E_DMRG_NOCONV.
Proof.
  intros Hc Hm. rewrite (dmrg2_sweep_body s e1 e2 rest HT HS He).
  destruct HT as (Hk & HN & Htx).
  unfold sweep_complete. unfold dsb2, dbc2, d2_mid at 1. sp. rewrite Hk.
  unfold sweep_complete_dmrg, convergence_check. unfold dsb2, dbc2, d2_mid. sp.
  unfold DmrgContract.converges in Hc. destruct (m_prevE s) as [p|]; [rewrite Hc|]; step; reflexivity.
Qed.

Lemma dmrg2_sweep_converged (same : bool) (srest : list bool) (next : option A) :
  converges (m_prevE s) e2 (m_etol s) = true -> o_same s = same :: srest ->
  (m_tidx s + 1 < m_steps s -> exists t, next = Some t /\ nthZ (m_times s) (m_tidx s + 2) = Some t) ->
  (m_steps s <= m_tidx s + 1 -> next = None) ->
  exists s', iter_progress ar 2 s = Ok s' /\
    m_kind s' = DMRG /\ m_N s' = 2 /\ m_steps s' = m_steps s /\ m_times s' = m_times s /\
    m_tidx s' = m_tidx s + 1 /\ m_cur s' = m_tgt s /\
    m_tgt s' = match next with Some t => t | None => m_tgt s end /\
    (match next with Some _ => dstart2 s' | None => True end) /\
    m_etol s' = m_etol s /\ m_maxsw s' = m_maxsw s /\ o_same s' = srest /\
    m_prevE s' = m_prevE s /\ m_sweeps s' = m_sweeps s + 1 /\ o_energy s' = rest /\
    m_ev s' = EvSave A :: rev (complete_events (m_tidx s) (m_tgt s) same next) ++ rev sweep2_ev ++ m_ev s.
Proof.
  intros Hc Hsame Hnext Hfin. rewrite (dmrg2_sweep_body s e1 e2 rest HT HS He).
  destruct HT as (Hk & HN & Htx). destruct HS as (Hsw & Hl & Hnl & Hnr).
  pose proof (dsb2_fields s e1 e2 rest) as T. cbv zeta in T.
  set (sb := dsb2 s e1 e2 rest) in *.
  set (s2 := set_cur sb (m_tgt sb)) in *.
  destruct T as (T0a & T0b & T0c & T1 & T2 & T3 & T4 & T5 & T6 & T7 & T8 & T9 & T10 & T11 & T12 & T13 & T14 & T15 & T16 & T17).
  assert (Hkb : m_kind sb = DMRG) by (change (m_kind sb) with (m_kind s2); rewrite T13; exact Hk).
  assert (Hcb : convergence_check ar sb = true).
  { unfold convergence_check. change (m_prevE sb) with (m_prevE s2). change (m_curE sb) with (m_curE s2).
    change (m_etol sb) with (m_etol s2). rewrite T9, T15, T7. exact Hc. }
  unfold sweep_complete. rewrite Hkb. unfold sweep_complete_dmrg. rewrite Hcb.
  unfold timestep_complete. change (m_kind (set_cur sb (m_tgt sb))) with (m_kind s2). rewrite T13, Hk.
  fold s2.
  destruct (timestep_complete_base_spec A ar s2 same srest next) as (s3 & H3 & Q).
  { rewrite T1. lia. }
  { rewrite T6, T5. reflexivity. }
  { rewrite T14. congruence. }
  { rewrite T2, T4, T3. exact Hnext. }
  { rewrite T2, T4. exact Hfin. }
  rewrite H3. cbn [res_bind].
  destruct Q as (Qk & QN & Qst & Qti & Qtx & Qcur & Qtg & Qsw & Ql & Qoc & Qb & Qsame & Qen & QpE & QcE & Qsws & Qet & Qmx & Qev).
  clearbody s2. clear Hcb Hkb. clearbody sb.
  rewrite Qsw, Ql, Qoc, T0a, T0b, T0c, Hsw. cbn [Z.eqb andb negb res_bind].
  eexists; split; [reflexivity|]. sp.
  split; [rewrite Qk, T13; exact Hk|].
  split; [rewrite QN, T1; exact HN|].
  split; [rewrite Qst, T2; reflexivity|].
  split; [rewrite Qti, T3; reflexivity|].
  split; [rewrite Qtx, T4; reflexivity|].
  split; [rewrite Qcur, T5; reflexivity|].
  split; [rewrite Qtg, T6; reflexivity|].
  split.
  { destruct next; [|exact I]. destruct Qb as (Qnl & Qnr). unfold dstart2, DmrgStep.dpos. sp.
    split; [rewrite Qsw, T0a; exact Hsw|]. split; [rewrite Ql; exact T0b|]. split; [exact Qnl|].
    rewrite Qnr, T1, HN. reflexivity. }
  split; [rewrite Qet, T7; reflexivity|].
  split; [rewrite Qmx, T8; reflexivity|].
  split; [exact Qsame|].
  split; [rewrite QpE, T9; reflexivity|].
  split; [rewrite Qsws, T10; reflexivity|].
  split; [rewrite Qen; exact T11|].
  rewrite Qev, T12, T4, T5. reflexivity.
Qed.
End OneSweep.

(* ---- a whole time step and a whole run on two sites ------------------------------------------ *)
Definition block2 : Type := (A * A)%type.
Definition block2_flat (b : block2) : list A := [fst b; snd b].
Fixpoint unconverged2 (prev : option A) (etol : A) (bl : list block2) : Prop :=
  match bl with
  | [] => True
  | b :: bl' => converges prev (snd b) etol = false /\ unconverged2 (Some (snd b)) etol bl'
  end.
Fixpoint last_prev2 (prev : option A) (bl : list block2) : option A :=
  match bl with [] => prev | b :: bl' => last_prev2 (Some (snd b)) bl' end.

Lemma no_fill_sweep2 : flat_map (@fill_of A) (rev sweep2_ev) = [].
Proof. reflexivity. Qed.

Theorem dmrg2_step_contract : forall (bl : list block2) (s : mstate) (bf : block2) (rest : list A)
    (same : bool) (srest : list bool) (next : option A),
  dmrg_like2 s -> dstart2 s ->
  o_energy s = flat_map block2_flat bl ++ block2_flat bf ++ rest ->
  unconverged2 (m_prevE s) (m_etol s) bl ->
  converges (last_prev2 (m_prevE s) bl) (snd bf) (m_etol s) = true ->
  m_sweeps s + Z.of_nat (length bl) + 1 <= m_maxsw s ->
  o_same s = same :: srest ->
  (m_tidx s + 1 < m_steps s -> exists t, next = Some t /\ nthZ (m_times s) (m_tidx s + 2) = Some t) ->
  (m_steps s <= m_tidx s + 1 -> next = None) ->
  exists s', iter_progress ar ((length bl + 1) * 2) s = Ok s' /\
    m_tidx s' = m_tidx s + 1 /\ m_cur s' = m_tgt s /\
    m_tgt s' = match next with Some t => t | None => m_tgt s end /\
    (match next with Some _ => dstart2 s' | None => True end) /\
    m_sweeps s' = m_sweeps s + Z.of_nat (length bl) + 1 /\ o_energy s' = rest /\ o_same s' = srest /\
    m_prevE s' = last_prev2 (m_prevE s) bl /\
    (m_kind s' = DMRG /\ m_N s' = 2 /\ m_steps s' = m_steps s /\ m_times s' = m_times s /\
     m_etol s' = m_etol s /\ m_maxsw s' = m_maxsw s) /\
    exists new, m_ev s' = new ++ m_ev s /\ flat_map (@fill_of A) new = [(m_tidx s, m_tgt s)].
Proof.
  induction bl as [|b bl IH]; intros s bf rest same srest next HT HS He Hun Hcv Hbud Hsame Hnext Hfin.
  - cbn [flat_map app] in He. destruct bf as [e1 e2]. cbn [block2_flat fst snd app last_prev2] in *.
    destruct (dmrg2_sweep_converged s e1 e2 rest HT HS He same srest next Hcv Hsame Hnext Hfin)
      as (s' & Hi & Fk & FN & Fst & Fti & Htx & Hcur & Htg & Hds & Fet & Fmx & Hsm & HpE & Hsw & Hen & Hev).
    exists s'. cbn [length Nat.add Nat.mul]. split; [exact Hi|]. split; [exact Htx|]. split; [exact Hcur|].
    split; [exact Htg|]. split; [exact Hds|].
    split; [rewrite Hsw; cbn; lia|]. split; [exact Hen|]. split; [exact Hsm|]. split; [exact HpE|].
    split; [repeat split; assumption|].
    eexists. split; [rewrite Hev; rewrite app_comm_cons, app_assoc; reflexivity|].
    rewrite flat_map_app. cbn [flat_map app]. rewrite ?flat_map_app, no_fill_sweep2, app_nil_r.
    unfold MpsTdvpComplete.complete_events. cbn [fill_of]. rewrite rev_app_distr.
    destruct same, next; reflexivity.
  - destruct b as [e1 e2]. cbn [flat_map block2_flat fst snd app] in He.
    cbn [unconverged2 snd] in Hun. destruct Hun as (Hun1 & Hun').
    cbn [last_prev2 snd] in Hcv. cbn [length] in Hbud.
    destruct (dmrg2_sweep_continue s e1 e2 _ HT HS He Hun1 ltac:(lia))
      as (s1 & Hi1 & HS1 & HT1 & Hst1 & Hti1 & Htx1 & Hcur1 & Htg1 & Het1 & Hmx1 & Hsm1 & HpE1 & Hsw1 & Hen1 & Hev1).
    destruct (IH s1 bf rest same srest next HT1 HS1 Hen1)
      as (s' & Hi & Htx & Hcur & Htg & Hds & Hsw & Hen & Hsm & HpE & (Fk & FN & Fst & Fti & Fet & Fmx) & new & Hev & Hfl).
    { rewrite HpE1, Het1. exact Hun'. }
    { rewrite HpE1, Het1. exact Hcv. }
    { rewrite Hsw1, Hmx1. lia. }
    { rewrite Hsm1. exact Hsame. }
    { rewrite Htx1, Hst1, Hti1. exact Hnext. }
    { rewrite Htx1, Hst1. exact Hfin. }
    exists s'. change (length ((e1, e2) :: bl) + 1)%nat with (S (length bl + 1)).
    change (S (length bl + 1) * 2)%nat with (2 + (length bl + 1) * 2)%nat.
    rewrite (@iter_progress_app A ar), Hi1. cbn [res_bind].
    split; [exact Hi|]. split; [rewrite Htx, Htx1; reflexivity|]. split; [rewrite Hcur, Htg1; reflexivity|].
    split; [rewrite Htg, Htg1; reflexivity|]. split; [exact Hds|].
    split; [rewrite Hsw, Hsw1; cbn [length]; lia|]. split; [exact Hen|]. split; [exact Hsm|].
    split; [rewrite HpE, HpE1; reflexivity|].
    split; [repeat split; congruence|].
    exists (new ++ EvSave A :: rev sweep2_ev). split.
    + rewrite Hev, Hev1. rewrite <- app_assoc. reflexivity.
    + rewrite flat_map_app. cbn [flat_map fill_of app]. rewrite Hfl, Htx1, Htg1. reflexivity.
Qed.

Definition dstep2 : Type := (list block2 * block2)%type.
Definition dstep2_flat (d : dstep2) : list A := flat_map block2_flat (fst d) ++ block2_flat (snd d).
Fixpoint plan2_ok (prev : option A) (etol : A) (sweeps maxsw : Z) (plan : list dstep2) : Prop :=
  match plan with
  | [] => True
  | d :: plan' =>
    unconverged2 prev etol (fst d) /\
    converges (last_prev2 prev (fst d)) (snd (snd d)) etol = true /\
    sweeps + Z.of_nat (length (fst d)) + 1 <= maxsw /\
    plan2_ok (last_prev2 prev (fst d)) etol (sweeps + Z.of_nat (length (fst d)) + 1) maxsw plan'
  end.
Fixpoint plan2_calls (plan : list dstep2) : nat :=
  match plan with [] => O | d :: p => ((length (fst d) + 1) * 2 + plan2_calls p)%nat end.

Definition drun2_start (s : mstate) (k : Z) (tgt : A) (rest : list A) : Prop :=
  dmrg_like2 s /\ dstart2 s /\ m_tidx s = k /\ 0 <= k /\
  m_steps s = k + 1 + Z.of_nat (length rest) /\ m_tgt s = tgt /\
  skipn (Z.to_nat (k + 2)) (m_times s) = rest.

Theorem dmrg2_run : forall (rest : list A) (plan : list dstep2) (s : mstate) (k : Z) (tgt : A)
    (erest : list A) (same : list bool),
  drun2_start s k tgt rest -> length plan = S (length rest) -> (length plan <= length same)%nat ->
  o_same s = same -> o_energy s = flat_map dstep2_flat plan ++ erest ->
  plan2_ok (m_prevE s) (m_etol s) (m_sweeps s) (m_maxsw s) plan ->
  exists sf, iter_progress ar (plan2_calls plan) s = Ok sf /\ is_finished sf = true /\
    o_energy sf = erest /\
    exists new, m_ev sf = new ++ m_ev s /\
      flat_map (@fill_of A) new = rev (expected_fills A k (tgt :: rest)).
Proof.
  induction rest as [|t rest IH]; intros plan s k tgt erest same HS Hlp Hls Hsame He Hok.
  - destruct plan as [|d [|d' plan']]; cbn [length] in Hlp; try discriminate.
    destruct same as [|sm same]; [cbn in Hls; lia|].
    destruct HS as (HT & Hds & Ht & Hk0 & Hst & Htg & Hskip).
    cbn [plan2_ok] in Hok. destruct Hok as (Hun & Hcv & Hbud & _).
    cbn [flat_map] in He. rewrite app_nil_r in He. unfold dstep2_flat in He. rewrite <- app_assoc in He.
    destruct (dmrg2_step_contract (fst d) s (snd d) erest sm same None HT Hds He Hun Hcv Hbud Hsame)
      as (s' & Hi & Htx & Hcur & Htg' & _ & Hsw & Hen & Hsm & HpE & (Fk & FN & Fst & Fti & Fet & Fmx) & new & Hev & Hfl).
    { rewrite Ht, Hst. cbn [length]. intros; lia. }
    { intros; reflexivity. }
    exists s'. cbn [plan2_calls]. rewrite Nat.add_0_r. split; [exact Hi|].
    split; [unfold is_finished; rewrite Fst, Htx, Ht, Hst; cbn [length]; apply Z.leb_le; lia|].
    split; [exact Hen|].
    exists new. split; [exact Hev|]. rewrite Hfl, Ht, Htg. reflexivity.
  - destruct plan as [|d plan']; cbn [length] in Hlp; [discriminate|].
    destruct same as [|sm same]; [cbn in Hls; lia|].
    destruct HS as (HT & Hds & Ht & Hk0 & Hst & Htg & Hskip).
    cbn [plan2_ok] in Hok. destruct Hok as (Hun & Hcv & Hbud & Hok').
    cbn [flat_map] in He. unfold dstep2_flat at 1 in He. rewrite <- !app_assoc in He.
    destruct (dmrg2_step_contract (fst d) s (snd d) (flat_map dstep2_flat plan' ++ erest) sm same (Some t)
                HT Hds He Hun Hcv Hbud Hsame)
      as (s' & Hi & Htx & Hcur & Htg' & Hds' & Hsw & Hen & Hsm & HpE & (Fk & FN & Fst & Fti & Fet & Fmx) & new & Hev & Hfl).
    { intros _. exists t. split; [reflexivity|]. rewrite Ht, nthZ_skipn by lia. rewrite Hskip. reflexivity. }
    { rewrite Ht, Hst. cbn [length]. intros; lia. }
    destruct (IH plan' s' (k + 1) t erest same) as (sf & H2 & Hf & Hen2 & new2 & Hev2 & Hfl2).
    { unfold drun2_start.
      split; [unfold dmrg_like2; rewrite Fk, FN, Fst, Htx, Ht, Hst; cbn [length]; repeat split; lia|].
      split; [exact Hds'|]. split; [rewrite Htx, Ht; reflexivity|].
      split; [lia|]. split; [rewrite Fst, Hst; cbn [length]; lia|]. split; [exact Htg'|].
      rewrite Fti. replace (k + 1 + 2) with (k + 3) by lia.
      replace (Z.to_nat (k + 3)) with (S (Z.to_nat (k + 2))) by lia.
      eapply skipn_S_tl. exact Hskip. }
    { cbn [length] in *. lia. }
    { cbn [length] in *. lia. }
    { exact Hsm. }
    { exact Hen. }
    { rewrite HpE, Fet, Hsw, Fmx. exact Hok'. }
    exists sf. cbn [plan2_calls]. rewrite (@iter_progress_app A ar). rewrite Hi. cbn [res_bind].
    split; [exact H2|]. split; [exact Hf|]. split; [exact Hen2|].
    exists (new2 ++ new). split; [rewrite Hev2, Hev, app_assoc; reflexivity|].
    rewrite flat_map_app, Hfl2, Hfl, Ht, Htg. cbn [expected_fills rev]. reflexivity.
Qed.

Lemma dmrg2_init (t0 t1 : A) (rest : list A) (same : list bool) onorm ounif oenergy etol maxsw :
  exists s0,
    mk_initial ar DMRG 2 (1 + Z.of_nat (length rest)) (t0 :: t1 :: rest) etol maxsw
               onorm ounif oenergy same = Ok s0 /\
    drun2_start s0 0 t1 rest /\ m_prevE s0 = None /\ m_sweeps s0 = 0 /\ m_etol s0 = etol /\
    m_maxsw s0 = maxsw /\ o_energy s0 = oenergy /\ o_same s0 = same /\
    m_ev s0 = rev (init_events A ar t1).
Proof.
  unfold mk_initial. cbn [nthZ Z.ltb Z.compare Z.to_nat nth_error].
  unfold query_U, init_baths. sp. change (Z.max 1 (2 - 1)) with 1. change (1 =? 2 - 1) with true.
  cbn [negb res_bind].
  eexists. split; [reflexivity|]. sp.
  unfold drun2_start, dmrg_like2, dstart2, DmrgStep.dpos, MpsTdvpRun.init_events. sp.
  change (Z.to_nat (0 + 2)) with 2%nat. cbn [rev app skipn].
  repeat split; try reflexivity; try lia.
Qed.

Theorem dmrg2_whole_run (t0 t1 : A) (rest : list A) (plan : list dstep2) (erest : list A)
    (same : list bool) onorm ounif etol maxsw :
  length plan = S (length rest) -> (length plan <= length same)%nat ->
  plan2_ok None etol 0 maxsw plan ->
  exists s0 sf,
    mk_initial ar DMRG 2 (1 + Z.of_nat (length rest)) (t0 :: t1 :: rest) etol maxsw
               onorm ounif (flat_map dstep2_flat plan ++ erest) same = Ok s0 /\
    iter_progress ar (plan2_calls plan) s0 = Ok sf /\ is_finished sf = true /\ o_energy sf = erest /\
    exists new, m_ev sf = new ++ rev (init_events A ar t1) /\
      flat_map (@fill_of A) new = rev (expected_fills A 0 (t1 :: rest)).
Proof.
  intros Hlp Hls Hok.
  destruct (dmrg2_init t0 t1 rest same onorm ounif (flat_map dstep2_flat plan ++ erest) etol maxsw)
    as (s0 & H0 & HS & HpE & Hsw & Het & Hmx & Hen & Hsm & Hev).
  destruct (dmrg2_run rest plan s0 0 t1 erest same HS Hlp Hls Hsm Hen) as (sf & H1 & Hf & Hen1 & new & Hev1 & Hfl).
  { rewrite HpE, Het, Hsw, Hmx. exact Hok. }
  exists s0, sf. split; [exact H0|]. split; [exact H1|]. split; [exact Hf|]. split; [exact Hen1|].
  exists new. split; [rewrite Hev1, Hev; reflexivity|]. exact Hfl.
Qed.
End P.
