(* Whole-run theorems transferred to MPSBackend._run's loop (`while not finished: progress()`). *)
From Coq Require Import ZArith List Bool Lia Reals.
From EV Require Import Base.Arith Gen.Brent Model.MpsMachine Proofs.MpsStep Proofs.MpsPhase Proofs.MpsSweep
  Proofs.MpsTdvpComplete Proofs.MpsTdvpStep Proofs.MpsTdvpRun Proofs.MpsTdvpTrace Proofs.MpsTdvpN2
  Proofs.DmrgStep Proofs.DmrgPhase Proofs.DmrgSweep Proofs.DmrgContract Proofs.DmrgStepContract Proofs.DmrgRun
  Proofs.DmrgN2 Proofs.MpsRunLoop Proofs.NoisyInv Proofs.NoisyBranches Proofs.NoisyRun.
Import ListNotations.
Open Scope Z_scope.

Section P.
Variable A : Type.
Variable ar : Arith A.

(* TDVP, N = n+3 >= 3: the loop terminates for every fuel >= #intervals*(2N-3) with the closed-form trace *)
Theorem tdvp_run_loop (n : nat) (t0 t1 : A) (rest : list A) (same : list bool) onorm ounif oenergy etol maxsw :
  (length (t1 :: rest) <= length same)%nat ->
  exists s0 sf,
    mk_initial ar TDVP (Z.of_nat n + 3) (1 + Z.of_nat (length rest)) (t0 :: t1 :: rest) etol maxsw
               onorm ounif oenergy same = Ok s0 /\
    (forall fuel, (length (t1 :: rest) * (2 * n + 3) <= fuel)%nat -> run ar fuel s0 = Ok sf) /\
    is_finished sf = true /\
    m_ev sf = rev (init_events A ar t1 ++ run_events A ar n 0 (a_ofZ ar 0) (t1 :: rest) same).
Proof.
  intros Hlen.
  destruct (tdvp_whole_run A ar n t0 t1 rest same onorm ounif oenergy etol maxsw Hlen) as (s0 & sf & H0 & H1 & Hf & Hev).
  exists s0, sf. split; [exact H0|]. split; [|split; assumption].
  intros fuel Hle. eapply run_of_iter_fuel; eassumption.
Qed.

Theorem tdvp_run_loop2 (t0 t1 : A) (rest : list A) (same : list bool) onorm ounif oenergy etol maxsw :
  (length (t1 :: rest) <= length same)%nat ->
  exists s0 sf,
    mk_initial ar TDVP 2 (1 + Z.of_nat (length rest)) (t0 :: t1 :: rest) etol maxsw
               onorm ounif oenergy same = Ok s0 /\
    (forall fuel, (length (t1 :: rest) <= fuel)%nat -> run ar fuel s0 = Ok sf) /\
    is_finished sf = true /\
    m_ev sf = rev (init_events A ar t1 ++ run_events2 A ar 0 (a_ofZ ar 0) (t1 :: rest) same).
Proof.
  intros Hlen.
  destruct (tdvp_whole_run2 A ar t0 t1 rest same onorm ounif oenergy etol maxsw Hlen) as (s0 & sf & H0 & H1 & Hf & Hev).
  exists s0, sf. split; [exact H0|]. split; [|split; assumption].
  intros fuel Hle. eapply run_of_iter_fuel; eassumption.
Qed.

(* DMRG: the loop terminates for every fuel >= the planned number of calls *)
Theorem dmrg_run_loop (n : nat) (t0 t1 : A) (rest : list A) (plan : list (dstep A)) (erest : list A)
    (same : list bool) onorm ounif etol maxsw :
  length plan = S (length rest) -> (length plan <= length same)%nat ->
  plan_ok A ar n None etol 0 maxsw plan ->
  exists s0 sf,
    mk_initial ar DMRG (Z.of_nat n + 3) (1 + Z.of_nat (length rest)) (t0 :: t1 :: rest) etol maxsw
               onorm ounif (flat_map (dstep_flat A) plan ++ erest) same = Ok s0 /\
    (forall fuel, (plan_calls A n plan <= fuel)%nat -> run ar fuel s0 = Ok sf) /\ is_finished sf = true /\
    o_energy sf = erest /\
    exists new, m_ev sf = new ++ rev (init_events A ar t1) /\
      flat_map (@MpsTdvpTrace.fill_of A) new = rev (expected_fills A 0 (t1 :: rest)).
Proof.
  intros Hlp Hls Hok.
  destruct (dmrg_whole_run A ar n t0 t1 rest plan erest same onorm ounif etol maxsw Hlp Hls Hok)
    as (s0 & sf & H0 & H1 & Hf & Hen & _ & Hnew).
  exists s0, sf. split; [exact H0|]. split; [|split; [exact Hf|split; [exact Hen|exact Hnew]]].
  intros fuel Hle. eapply run_of_iter_fuel; eassumption.
Qed.
End P.

(* Noisy (quantum jumps), over R: whatever the oracle streams, IF the loop returns, the returned state is
   finished, satisfies the run invariant, and every time step was recorded exactly once, in order, at its end
   time, every jump inside some time step. *)
Theorem noisy_run_loop (n : nat) (t1 : R) (rest : list R) etol maxsw onorm ounif oenergy osame (fuel : nat) :
  (forall k, 0 <= k < 1 + Z.of_nat (length rest) ->
             (tmL (0%R :: t1 :: rest) k < tmL (0%R :: t1 :: rest) (k + 1))%R) ->
  forall s0 sf,
    mk_initial R_arith Noisy (Z.of_nat n + 3) (1 + Z.of_nat (length rest)) (0%R :: t1 :: rest) etol maxsw
               onorm ounif oenergy osame = Ok s0 ->
    run R_arith fuel s0 = Ok sf ->
    is_finished sf = true /\ RunInv n sf /\
    flat_map fill_of (rev (m_ev sf)) = (0, 0%R) :: fills_upto sf (Z.to_nat (m_steps sf)) /\ jumps_ok sf.
Proof.
  intros Hs s0 sf H0 Hrun.
  pose proof (run_result_finished R R_arith fuel s0 sf Hrun) as Hf.
  pose proof (run_is_iter R R_arith fuel s0 sf Hrun) as Hi.
  pose proof (noisy_whole_run n t1 rest etol maxsw onorm ounif oenergy osame fuel Hs) as HW.
  rewrite H0 in HW.
  assert (E : (fuel * (2 * n + 3) = fuel + fuel * (2 * n + 2))%nat) by lia.
  rewrite E, (iter_extend R R_arith fuel _ s0 sf Hi Hf) in HW.
  split; [exact Hf|]. split; [exact HW|]. apply (finished_run_fills n sf HW Hf).
Qed.
