(* C05 — proofs about Model/MpoHam.v, for every commutative ring K (Section + Add Ring).
   Main result [mpo_elem_dense]: for all N >= 2 the ordered product of the per-site scalar bond
   matrices of the modelled make_H/update_H factors equals the explicit dense sum.  Method: a single
   left-to-right row-vector invariant over LABELLED bonds ([val k]: Done -> all completed terms,
   Idle -> product of identities, Open i -> A_i x identities, Need j -> sum_i U_ij A_i x identities),
   pruning soundness of the interaction masks, [shapes_chain] to pass from one factor to the next,
   and a closed form for the invariant. *)
From Coq Require Import List ZArith Bool Arith Lia Ring.
Import ListNotations.
From EV Require Import Model.MpoHam.

Section Proofs.
Context {K : Type} (R : ringops K).
Hypothesis Rth : ring_theory (k0 R) (k1 R) (kadd R) (kmul R) (ksub R) (kopp R) eq.
Add Ring Kring : Rth.
Hypothesis isz_sound : forall x, kisz R x = true -> x = k0 R.

Local Notation "0" := (k0 R).
Local Notation "1" := (k1 R).
Local Notation "x +! y" := (kadd R x y) (at level 50, left associativity).
Local Notation "x -! y" := (ksub R x y) (at level 50, left associativity).
Local Notation "x *! y" := (kmul R x y) (at level 40, left associativity).
Local Notation lsum := (lsum R).
Local Notation sumn := (sumn R).
Local Notation lprod := (lprod R).

(* ---------- generic finite sums ---------- *)
Lemma lsum_cons x l : lsum (x :: l) = x +! lsum l.
Proof. reflexivity. Qed.

Lemma lsum_app l1 l2 : lsum (l1 ++ l2) = lsum l1 +! lsum l2.
Proof. induction l1; simpl. ring. rewrite IHl1. ring. Qed.

Lemma lprod_app l1 l2 : lprod (l1 ++ l2) = lprod l1 *! lprod l2.
Proof. induction l1; simpl. ring. rewrite IHl1. ring. Qed.

Lemma lsum_map_ext {A} (f g : A -> K) l :
  (forall x, In x l -> f x = g x) -> lsum (map f l) = lsum (map g l).
Proof. induction l; simpl; intros H. reflexivity. rewrite H, IHl; auto. Qed.

Lemma lsum_map_zero {A} (f : A -> K) l : (forall x, In x l -> f x = 0) -> lsum (map f l) = 0.
Proof. induction l; simpl; intros H. reflexivity. rewrite H, IHl; auto. ring. Qed.

Lemma lsum_map_add {A} (f g : A -> K) l :
  lsum (map (fun x => f x +! g x) l) = lsum (map f l) +! lsum (map g l).
Proof. induction l; simpl. ring. rewrite IHl. ring. Qed.

Lemma lsum_map_mul_r {A} (f : A -> K) c l :
  lsum (map (fun x => f x *! c) l) = lsum (map f l) *! c.
Proof. induction l; simpl. ring. rewrite IHl. ring. Qed.

Lemma lsum_map_delta (g : nat -> K) i l : NoDup l -> In i l ->
  lsum (map (fun s => if Nat.eqb s i then g s else 0) l) = g i.
Proof.
  induction l; simpl; intros ND HI. contradiction.
  inversion ND; subst. destruct HI as [->|HI].
  - rewrite Nat.eqb_refl. rewrite lsum_map_zero. ring.
    intros x Hx. destruct (Nat.eqb_spec x i); subst; [contradiction|reflexivity].
  - destruct (Nat.eqb_spec a i); subst; [contradiction|]. rewrite IHl; auto. ring.
Qed.

Lemma lsum_flat_map {A B} (G : B -> K) (h : A -> list B) l :
  lsum (map G (flat_map h l)) = lsum (map (fun x => lsum (map G (h x))) l).
Proof. induction l; simpl. reflexivity. rewrite map_app, lsum_app, IHl. reflexivity. Qed.

Lemma sumn_S n f : sumn (S n) f = sumn n f +! f n.
Proof. unfold sumn, MpoHam.sumn. rewrite seq_S, map_app, lsum_app. simpl. ring. Qed.

Lemma sumn_0 f : sumn O f = 0.
Proof. reflexivity. Qed.

Lemma sumn_ext n f g : (forall i, i < n -> f i = g i) -> sumn n f = sumn n g.
Proof. intros H. apply lsum_map_ext. intros x Hx. apply in_seq in Hx. apply H. lia. Qed.

Lemma sumn_zero n f : (forall i, i < n -> f i = 0) -> sumn n f = 0.
Proof. intros H. apply lsum_map_zero. intros x Hx. apply in_seq in Hx. apply H. lia. Qed.

Lemma sumn_add n f g : sumn n (fun i => f i +! g i) = sumn n f +! sumn n g.
Proof. apply lsum_map_add. Qed.

Lemma sumn_mul_r n f c : sumn n (fun i => f i *! c) = sumn n f *! c.
Proof. apply lsum_map_mul_r. Qed.

Lemma sumn_delta n g i : i < n -> sumn n (fun s => if Nat.eqb s i then g s else 0) = g i.
Proof. intros. apply lsum_map_delta. apply seq_NoDup. apply in_seq. lia. Qed.

Lemma sumn_shift n f : sumn (S n) f = f O +! sumn n (fun i => f (S i)).
Proof. unfold sumn, MpoHam.sumn. simpl. rewrite <- seq_shift, map_map. reflexivity. Qed.

(* a slot-indexed sum over a label list is the sum over the labels *)
Lemma sumn_nth_error {A} (L : list A) (f : nat -> K) (G : A -> K) :
  (forall l ll, nth_error L l = Some ll -> f l = G ll) ->
  sumn (length L) f = lsum (map G L).
Proof.
  revert f. induction L; intros f H; simpl. reflexivity.
  rewrite sumn_shift. rewrite (H O a eq_refl). f_equal.
  apply IHL. intros l ll Hl. apply (H (S l)). exact Hl.
Qed.


(* ---------- the system ---------- *)
Variable ht : htype.
Variable N : nat.
Variable Uraw : nat -> nat -> K.
Hypothesis Usym : forall i j, Uraw i j = Uraw j i.
Hypothesis N2 : 2 <= N.

Local Notation U := (U R Uraw).
Local Notation mid := (mid N).
Local Notation scale := (scale R ht).
Local Notation sumc := (sumc R ht).
Local Notation cops := (cops ht).
Local Notation copies := (copies ht).
Local Notation chans := (chans ht).
Local Notation labs_in := (labs_in R ht N Uraw).
Local Notation labs_out := (labs_out R ht N Uraw).
Local Notation kind_of := (kind_of N).

Lemma U_sym i j : U i j = U j i.
Proof. unfold MpoHam.U. rewrite (Nat.eqb_sym j i). destruct (Nat.eqb i j); auto. Qed.

Lemma mid_lt_N : mid < N.
Proof. unfold MpoHam.mid. apply Nat.div_lt; lia. Qed.
Lemma mid_ge1 : S O <= mid.
Proof. unfold MpoHam.mid. pose proof (Nat.div_le_mono 2 N 2) as H. change (Nat.div 2 2) with (S O) in H. apply H; lia. Qed.

Lemma scale_0 : scale 0 = 0.
Proof. unfold MpoHam.scale. destruct ht; ring. Qed.

Lemma anyrange_false f lo len : anyrange R f lo len = false ->
  forall j, lo <= j < lo + len -> f j = 0.
Proof.
  unfold anyrange. intros H j Hj. destruct (kisz R (f j)) eqn:E.
  - apply isz_sound; auto.
  - assert (existsb (fun j => negb (kisz R (f j))) (seq lo len) = true).
    { apply existsb_exists. exists j. split. apply in_seq; lia. rewrite E; reflexivity. }
    congruence.
Qed.

Lemma anyrange_mono f lo len lo' len' : lo <= lo' -> lo' + len' <= lo + len ->
  anyrange R f lo' len' = true -> anyrange R f lo len = true.
Proof.
  unfold anyrange. intros H1 H2 H. apply existsb_exists in H. destruct H as [j [Hj Hn]].
  apply existsb_exists. exists j. split; auto. apply in_seq in Hj. apply in_seq. lia.
Qed.

(* ---------- sums over the copies of a channel ---------- *)
Lemma sumc_ext f g : (forall c, In c cops -> f c = g c) -> sumc f = sumc g.
Proof. apply lsum_map_ext. Qed.
Lemma sumc_zero f : (forall c, In c cops -> f c = 0) -> sumc f = 0.
Proof. apply lsum_map_zero. Qed.
Lemma sumc_add f g : sumc (fun c => f c +! g c) = sumc f +! sumc g.
Proof. apply lsum_map_add. Qed.
Lemma sumc_mul_r f x : sumc (fun c => f c *! x) = sumc f *! x.
Proof. apply lsum_map_mul_r. Qed.
Lemma cops_NoDup : NoDup cops.
Proof. unfold MpoHam.cops. destruct ht; repeat constructor; simpl; intuition lia. Qed.
Lemma sumc_delta g c : In c cops -> sumc (fun c' => if Nat.eqb c' c then g c' else 0) = g c.
Proof. intros. apply lsum_map_delta; auto. apply cops_NoDup. Qed.
Lemma sumc_sumn_swap n (g : nat -> nat -> K) :
  sumn n (fun s => sumc (fun c => g c s)) = sumc (fun c => sumn n (g c)).
Proof.
  induction n. { rewrite sumn_0. symmetry. apply sumc_zero. intros; apply sumn_0. }
  rewrite sumn_S, IHn. rewrite <- sumc_add. apply sumc_ext. intros. rewrite sumn_S. reflexivity.
Qed.

Lemma lsum_copies (G : lab -> K) s : lsum (map G (copies s)) = sumc (fun c => G (Chan c s)).
Proof. unfold MpoHam.copies, MpoHam.sumc. rewrite map_map. reflexivity. Qed.

Lemma lsum_chans (G : lab -> K) mask sites :
  lsum (map G (chans mask sites)) =
  lsum (map (fun s => if mask s then sumc (fun c => G (Chan c s)) else 0) sites).
Proof.
  unfold MpoHam.chans. rewrite lsum_flat_map. apply lsum_map_ext. intros s _.
  destruct (mask s). apply lsum_copies. reflexivity.
Qed.

Lemma in_copies ll s : In ll (copies s) -> exists c, In c cops /\ ll = Chan c s.
Proof. unfold MpoHam.copies. intros H. apply in_map_iff in H. destruct H as [c [E H]]. eauto. Qed.

Lemma in_chans ll mask sites : In ll (chans mask sites) ->
  exists c s, In c cops /\ In s sites /\ mask s = true /\ ll = Chan c s.
Proof.
  unfold MpoHam.chans. intros H. apply in_flat_map in H. destruct H as [s [Hs H]].
  destruct (mask s) eqn:E; [|contradiction]. apply in_copies in H. destruct H as [c [Hc ->]].
  exists c, s. auto.
Qed.


(* ---------- physical indices fixed: per-site scalars ---------- *)
Section Elem.
Variable hn : nat -> nat -> nat -> K.
Variables bo bi : nat -> nat.
Local Notation d k := (idm R (bo k) (bi k)).
Local Notation a c k := (emb2 R (opc R ht c) (bo k) (bi k)).
Local Notation hh k := (hn k (bo k) (bi k)).
Local Notation curL := (curL R N Uraw).
Local Notation keepL := (keepL R N Uraw).
Local Notation curR := (curR R Uraw).
Local Notation keepR := (keepR R Uraw).
Local Notation hasL := (hasL R Uraw).
Local Notation hasR := (hasR R N Uraw).

(* prefix quantities of the (unpruned) left-to-right automaton *)
Fixpoint Pk (k : nat) : K := match k with O => 1 | S k' => Pk k' *! d k' end.
Fixpoint Ok (c i k : nat) : K :=
  match k with
  | O => 0
  | S k' => if Nat.ltb i k' then Ok c i k' *! d k'
            else if Nat.eqb i k' then Pk k' *! a c k' else 0
  end.
Definition Wk (c j k : nat) : K := sumn k (fun i => Ok c i k *! scale (U i j)).
Fixpoint Dk (k : nat) : K :=
  match k with
  | O => 0
  | S k' => Dk k' *! d k' +! Pk k' *! hh k' +! sumc (fun c => Wk c k' k' *! a c k')
  end.

Definition val (k : nat) (ll : lab) : K :=
  match ll with
  | Done => Dk k
  | Idle => Pk k
  | Chan c s => if Nat.leb k mid then Ok c s k else Wk c s k
  end.

Lemma Ok_lt c i k : i < k -> Ok c i (S k) = Ok c i k *! d k.
Proof. intros. simpl. destruct (Nat.ltb_spec i k); [reflexivity|lia]. Qed.
Lemma Ok_eq c k : Ok c k (S k) = Pk k *! a c k.
Proof. simpl. rewrite Nat.ltb_irrefl, Nat.eqb_refl. reflexivity. Qed.

Lemma Wk_S c j k : Wk c j (S k) = Wk c j k *! d k +! Pk k *! a c k *! scale (U k j).
Proof.
  unfold Wk. rewrite sumn_S, Ok_eq. f_equal. rewrite <- sumn_mul_r. apply sumn_ext.
  intros i Hi. rewrite Ok_lt by lia. ring.
Qed.

Lemma Wk_zero c j k : (forall i, i < k -> U i j = 0) -> Wk c j k = 0.
Proof. intros H. unfold Wk. apply sumn_zero. intros i Hi. rewrite H, scale_0 by lia. ring. Qed.

(* ---- site of the left half (first_factor, left_factor, last factor of a 2-chain) ---- *)
Local Notation wL n := (wL R ht Uraw (hn n) n (bo n) (bi n)).
Local Notation wM n := (wM R ht Uraw (hn n) n (bo n) (bi n)).
Local Notation wR n := (wR R ht Uraw (hn n) n (bo n) (bi n)).

Definition LinL (n : nat) : list lab := Done :: Idle :: chans (curL n) (seq O n).

Lemma masked_closing n (Hn : n < N) :
  lsum (map (fun s => if curL n s
                      then sumc (fun c => Ok c s n *! (scale (U s n) *! a c n)) else 0) (seq O n))
  = sumc (fun c => Wk c n n *! a c n).
Proof.
  transitivity (sumn n (fun s => sumc (fun c => Ok c s n *! (scale (U s n) *! a c n)))).
  - apply lsum_map_ext. intros s Hs. destruct (curL n s) eqn:E; [reflexivity|].
    symmetry. apply sumc_zero. intros c _.
    rewrite (anyrange_false _ _ _ E n) by lia. rewrite scale_0. ring.
  - rewrite sumc_sumn_swap. apply sumc_ext. intros c _. unfold Wk. rewrite <- sumn_mul_r.
    apply sumn_ext. intros. ring.
Qed.


Lemma val_chan_le k c s : k <= mid -> val k (Chan c s) = Ok c s k.
Proof. intros. simpl. rewrite leb_correct by lia. reflexivity. Qed.
Lemma val_chan_gt k c s : mid < k -> val k (Chan c s) = Wk c s k.
Proof. intros. simpl. rewrite leb_correct_conv by lia. reflexivity. Qed.

Lemma left_done n (Hn : n < N) (Hm : n <= mid) :
  lsum (map (fun ll => val n ll *! wL n ll Done) (LinL n)) = Dk (S n).
Proof.
  unfold LinL. cbn [map]. rewrite !lsum_cons, lsum_chans. cbn [MpoHam.wL].
  erewrite lsum_map_ext.
  2:{ intros s _. rewrite (sumc_ext _ (fun c => Ok c s n *! (scale (U s n) *! a c n))).
      reflexivity. intros c _. rewrite val_chan_le by lia. reflexivity. }
  rewrite masked_closing by lia. cbn [val Dk]. ring.
Qed.

Lemma left_idle n rr0 (Hrr : rr0 = Idle) :
  lsum (map (fun ll => val n ll *! wL n ll rr0) (LinL n)) = Pk (S n).
Proof.
  subst. unfold LinL. cbn [map]. rewrite !lsum_cons, lsum_chans. cbn [MpoHam.wL val Pk].
  rewrite lsum_map_zero. ring.
  intros s _. destruct (curL n s); [|reflexivity]. apply sumc_zero. intros. ring.
Qed.

(* a double Kronecker delta over (site, copy) *)
Lemma chan_delta (X : nat -> nat -> K) mask sites c s x :
  NoDup sites -> In s sites -> In c cops -> mask s = true ->
  lsum (map (fun s' => if mask s' : bool
     then sumc (fun c' => X c' s' *! (if Nat.eqb c' c && Nat.eqb s' s then x else 0)) else 0) sites)
  = X c s *! x.
Proof.
  intros ND Hs Hc Hm.
  rewrite (lsum_map_ext _ (fun s' => if Nat.eqb s' s then
      (fun s' => sumc (fun c' => if Nat.eqb c' c then (fun c' => X c' s' *! x) c' else 0)) s' else 0)).
  - rewrite lsum_map_delta by auto. rewrite sumc_delta by auto. reflexivity.
  - intros s' _. destruct (Nat.eqb_spec s' s).
    + subst. rewrite Hm. apply sumc_ext. intros c' _. rewrite andb_true_r.
      destruct (Nat.eqb c' c); ring.
    + destruct (mask s'); [|reflexivity]. apply sumc_zero. intros c' _. rewrite andb_false_r. ring.
Qed.

Lemma chan_nodelta (X : nat -> nat -> K) (Y : nat -> nat -> K) mask sites :
  (forall c s, In s sites -> Y c s = 0) ->
  lsum (map (fun s' => if mask s' : bool then sumc (fun c' => X c' s' *! Y c' s') else 0) sites) = 0.
Proof.
  intros H. apply lsum_map_zero. intros s Hs. destruct (mask s); [|reflexivity].
  apply sumc_zero. intros c _. rewrite H by auto. ring.
Qed.

Lemma left_keep n c s (Hm : S n <= mid) (Hs : s < n) (Hc : In c cops) (Hk : keepL n s = true) :
  lsum (map (fun ll => val n ll *! wL n ll (Chan c s)) (LinL n)) = val (S n) (Chan c s).
Proof.
  unfold LinL. cbn [map]. rewrite !lsum_cons, lsum_chans. cbn [MpoHam.wL].
  destruct (Nat.eqb_spec s n); [lia|].
  rewrite (chan_delta (fun c' s' => val n (Chan c' s')) _ _ c s).
  - rewrite val_chan_le, val_chan_le by lia. rewrite Ok_lt by lia. ring.
  - apply seq_NoDup.
  - apply in_seq; lia.
  - auto.
  - pose proof mid_lt_N. unfold MpoHam.keepL, MpoHam.curL in *. eapply anyrange_mono; [| |exact Hk]; lia.
Qed.

Lemma left_new n c (Hm : S n <= mid) (Hc : In c cops) :
  lsum (map (fun ll => val n ll *! wL n ll (Chan c n)) (LinL n)) = val (S n) (Chan c n).
Proof.
  unfold LinL. cbn [map]. rewrite !lsum_cons, lsum_chans. cbn [MpoHam.wL].
  rewrite Nat.eqb_refl.
  rewrite (chan_nodelta (fun c' s' => val n (Chan c' s'))
             (fun c' s' => if Nat.eqb c' c && Nat.eqb s' n then d n else 0)).
  - rewrite val_chan_le by lia. rewrite Ok_eq. cbn [val]. ring.
  - intros c' s' Hs. apply in_seq in Hs. destruct (Nat.eqb_spec s' n); [lia|].
    rewrite andb_false_r. reflexivity.
Qed.


Lemma sumc_delta_mul (X : nat -> K) c y : In c cops ->
  sumc (fun c' => X c' *! (if Nat.eqb c' c then y else 0)) = X c *! y.
Proof.
  intros Hc. rewrite (sumc_ext _ (fun c' => if Nat.eqb c' c then (fun c' => X c' *! y) c' else 0)).
  apply sumc_delta; auto. intros c' _. destruct (Nat.eqb c' c); ring.
Qed.

Lemma chan_delta' (X : nat -> nat -> K) mask sites c s x :
  NoDup sites -> In s sites -> In c cops ->
  lsum (map (fun s' => if mask s' : bool
     then sumc (fun c' => X c' s' *! (if Nat.eqb c' c && Nat.eqb s' s then x else 0)) else 0) sites)
  = if mask s then X c s *! x else 0.
Proof.
  intros ND Hs Hc. destruct (mask s) eqn:Hm. apply chan_delta; auto.
  apply lsum_map_zero. intros s' _. destruct (Nat.eqb_spec s' s).
  - subst. rewrite Hm. reflexivity.
  - destruct (mask s'); [|reflexivity]. apply sumc_zero. intros c' _. rewrite andb_false_r. ring.
Qed.

(* ---- middle site ---- *)
Lemma mid_done n (Hn : n < N) (Hm : n <= mid) :
  lsum (map (fun ll => val n ll *! wM n ll Done) (LinL n)) = Dk (S n).
Proof.
  unfold LinL. cbn [map]. rewrite !lsum_cons, lsum_chans. cbn [MpoHam.wM].
  erewrite lsum_map_ext.
  2:{ intros s _. rewrite (sumc_ext _ (fun c => Ok c s n *! (scale (U s n) *! a c n))).
      reflexivity. intros c _. rewrite val_chan_le by lia. reflexivity. }
  rewrite masked_closing by lia. cbn [val Dk]. ring.
Qed.

Lemma mid_idle n :
  lsum (map (fun ll => val n ll *! wM n ll Idle) (LinL n)) = Pk (S n).
Proof.
  unfold LinL. cbn [map]. rewrite !lsum_cons, lsum_chans. cbn [MpoHam.wM val Pk].
  rewrite lsum_map_zero. ring.
  intros s _. destruct (curL n s); [|reflexivity]. apply sumc_zero. intros. ring.
Qed.

Lemma mid_need n c j (Hm : n <= mid) (Hm' : mid < S n) (Hj : n < j < N) (Hc : In c cops) :
  lsum (map (fun ll => val n ll *! wM n ll (Chan c j)) (LinL n)) = val (S n) (Chan c j).
Proof.
  unfold LinL. cbn [map]. rewrite !lsum_cons, lsum_chans. cbn [MpoHam.wM].
  rewrite val_chan_gt by lia. rewrite Wk_S.
  rewrite (lsum_map_ext _ (fun s => Ok c s n *! scale (U s j) *! d n)).
  - change (lsum (map (fun s => Ok c s n *! scale (U s j) *! d n) (seq O n)))
      with (sumn n (fun s => Ok c s n *! scale (U s j) *! d n)).
    rewrite sumn_mul_r. fold (Wk c j n). cbn [val]. rewrite (U_sym j n). ring.
  - intros s Hs. destruct (curL n s) eqn:E.
    + rewrite sumc_delta_mul by auto. rewrite val_chan_le by lia. ring.
    + rewrite (anyrange_false _ _ _ E j) by lia. rewrite scale_0. ring.
Qed.

(* ---- site of the right half (right_factor, last_factor for N >= 3) ---- *)
Definition LinR (n : nat) : list lab :=
  Done :: Idle :: (if hasL n then copies n else []) ++ chans (keepR n) (seq (n + 1) (N - n - 1)).

Lemma right_closing n (Hm : mid < n) :
  lsum (map (fun ll => val n ll *! wR n ll Done) (if hasL n then copies n else []))
  = sumc (fun c => Wk c n n *! a c n).
Proof.
  destruct (hasL n) eqn:E.
  - rewrite lsum_copies. apply sumc_ext. intros c _. cbn [MpoHam.wR]. rewrite Nat.eqb_refl.
    rewrite val_chan_gt by lia. reflexivity.
  - simpl. symmetry. apply sumc_zero. intros c _. rewrite Wk_zero. ring.
    intros i Hi. rewrite U_sym. apply (anyrange_false _ _ _ E i). lia.
Qed.

Lemma right_done n (Hm : mid < n) :
  lsum (map (fun ll => val n ll *! wR n ll Done) (LinR n)) = Dk (S n).
Proof.
  unfold LinR. cbn [map]. rewrite !lsum_cons, map_app, lsum_app, right_closing by lia.
  rewrite lsum_chans. cbn [MpoHam.wR].
  rewrite (chan_nodelta (fun c' s' => val n (Chan c' s')) (fun c' s' => if Nat.eqb s' n then a c' n else 0)).
  - cbn [val Dk]. ring.
  - intros c s Hs. apply in_seq in Hs. destruct (Nat.eqb_spec s n); [lia|reflexivity].
Qed.

Lemma right_idle n :
  lsum (map (fun ll => val n ll *! wR n ll Idle) (LinR n)) = Pk (S n).
Proof.
  unfold LinR. cbn [map]. rewrite !lsum_cons, map_app, lsum_app, lsum_chans. cbn [MpoHam.wR val Pk].
  rewrite (lsum_map_zero _ (seq _ _)).
  - rewrite lsum_map_zero. ring. intros ll Hl. destruct (hasL n); [|contradiction].
    apply in_copies in Hl. destruct Hl as [c [_ ->]]. cbn [MpoHam.wR]. ring.
  - intros s _. destruct (keepR n s); [|reflexivity]. apply sumc_zero. intros. ring.
Qed.

Lemma right_need n c j (Hm : mid < n) (Hj : n < j < N) (Hc : In c cops) :
  lsum (map (fun ll => val n ll *! wR n ll (Chan c j)) (LinR n)) = val (S n) (Chan c j).
Proof.
  unfold LinR. cbn [map]. rewrite !lsum_cons, map_app, lsum_app, lsum_chans. cbn [MpoHam.wR].
  rewrite (lsum_map_zero _ (if hasL n then _ else _)).
  2:{ intros ll Hl. destruct (hasL n); [|contradiction].
      apply in_copies in Hl. destruct Hl as [c' [_ ->]]. cbn [MpoHam.wR].
      destruct (Nat.eqb_spec n j); [lia|]. rewrite andb_false_r. ring. }
  rewrite (chan_delta' (fun c' s' => val n (Chan c' s')) _ _ c j).
  2:{ apply seq_NoDup. } 2:{ apply in_seq. lia. } 2:{ auto. }
  rewrite !val_chan_gt by lia. rewrite Wk_S. cbn [val]. rewrite (U_sym j n).
  destruct (keepR n j) eqn:E.
  - ring.
  - rewrite (Wk_zero c j n). ring.
    intros i Hi. rewrite U_sym. apply (anyrange_false _ _ _ E i). lia.
Qed.


(* ---------- which factor sits where ---------- *)
Lemma mid_spec : 2 * mid <= N < 2 * mid + 2.
Proof.
  unfold MpoHam.mid. pose proof (Nat.div_mod N 2 ltac:(lia)) as H.
  pose proof (Nat.mod_upper_bound N 2 ltac:(lia)). lia.
Qed.

Lemma kind_spec n :
  match kind_of n with
  | KFirst => n = O
  | KLast => n <> O /\ n = N - 1
  | KLeft => O < n < mid /\ n <> N - 1
  | KMid => n = mid /\ n <> O /\ n <> N - 1
  | KRight => mid < n /\ n <> O /\ n <> N - 1
  end.
Proof.
  unfold MpoHam.kind_of.
  destruct (Nat.eqb_spec n O); [auto|].
  destruct (Nat.eqb_spec n (N - 1)); [auto|].
  destruct (Nat.ltb_spec n mid); [lia|].
  destruct (Nat.eqb_spec n mid); lia.
Qed.

Definition bond (k : nat) : list lab := if Nat.ltb k N then labs_in k else [Done].

Lemma chans_app mask l1 l2 : chans mask (l1 ++ l2) = chans mask l1 ++ chans mask l2.
Proof. unfold MpoHam.chans. apply flat_map_app. Qed.
Lemma chans_ext m1 m2 l : (forall s, In s l -> m1 s = m2 s) -> chans m1 l = chans m2 l.
Proof.
  unfold MpoHam.chans. induction l; simpl; intros H. reflexivity.
  rewrite H, IHl; auto.
Qed.
Lemma chans_one mask x : chans mask [x] = if mask x then copies x else [].
Proof. unfold MpoHam.chans. simpl. rewrite app_nil_r. reflexivity. Qed.
Lemma chans_cons mask x l : chans mask (x :: l) = (if mask x then copies x else []) ++ chans mask l.
Proof. reflexivity. Qed.

Lemma anyrange_eq f lo len lo' len' : lo = lo' -> len = len' -> anyrange R f lo len = anyrange R f lo' len'.
Proof. intros; subst; reflexivity. Qed.

(* C05 mpo_shapes_chain: the label list (hence the bond dimension) a factor produces on its right
   is the one the next factor expects on its left; the boundary bonds have one label. *)
Lemma shapes_chain n : n < N -> labs_out n = bond (S n).
Proof.
  intros Hn. pose proof mid_spec as MS. pose proof (kind_spec n) as KS.
  unfold bond. destruct (Nat.ltb_spec (S n) N) as [HS|HS].
  2:{ (* n = N-1 *) unfold MpoHam.labs_out. destruct (kind_of n); try lia. reflexivity. }
  pose proof (kind_spec (S n)) as KS'.
  unfold MpoHam.labs_out, MpoHam.labs_in.
  destruct (kind_of n) eqn:E; destruct (kind_of (S n)) eqn:E'; try lia.
  - (* first -> left *) subst n. cbn [seq]. rewrite chans_one. f_equal. f_equal.
    unfold MpoHam.hasR, MpoHam.curL. rewrite (anyrange_eq _ (O + 1) _ 1 (N - 1)) by lia. reflexivity.
  - (* first -> mid *) subst n. cbn [seq]. rewrite chans_one. f_equal. f_equal.
    unfold MpoHam.hasR, MpoHam.curL. rewrite (anyrange_eq _ (O + 1) _ 1 (N - 1)) by lia. reflexivity.
  - (* first -> last : N = 2 *) subst n. assert (HN : N = 2) by lia.
    unfold MpoHam.last_chan, MpoHam.hasR, MpoHam.hasL. rewrite HN. cbn.
    rewrite (Usym 1 O). reflexivity.
  - (* left -> left *) rewrite seq_S, chans_app, chans_one. cbn [plus].
    f_equal. f_equal. f_equal.
    + apply chans_ext. intros s _. unfold MpoHam.keepL, MpoHam.curL. apply anyrange_eq; lia.
    + unfold MpoHam.hasR, MpoHam.curL. rewrite (anyrange_eq _ (n + 1) _ (S n) (N - S n)) by lia. reflexivity.
  - (* left -> mid *) rewrite seq_S, chans_app, chans_one. cbn [plus].
    f_equal. f_equal. f_equal.
    + apply chans_ext. intros s _. unfold MpoHam.keepL, MpoHam.curL. apply anyrange_eq; lia.
    + unfold MpoHam.hasR, MpoHam.curL. rewrite (anyrange_eq _ (n + 1) _ (S n) (N - S n)) by lia. reflexivity.
  - (* mid -> right *)
    replace (N - n - 1) with (S (N - S n - 1)) by lia. cbn [seq]. rewrite chans_cons.
    replace (n + 1) with (S n) by lia. f_equal. f_equal. f_equal.
    + unfold MpoHam.curR, MpoHam.hasL. rewrite (anyrange_eq _ _ (n + 1) O (S n)) by lia. reflexivity.
    + replace (S (S n)) with (S n + 1) by lia. apply chans_ext. intros s _.
      unfold MpoHam.curR, MpoHam.keepR. apply anyrange_eq; lia.
  - (* mid -> last *)
    replace (N - n - 1) with 1%nat by lia. cbn [seq]. rewrite chans_one.
    unfold MpoHam.last_chan. destruct (Nat.eqb_spec N 2); [lia|].
    replace (n + 1) with (S n) by lia. replace (N - 1) with (S n) by lia. f_equal. f_equal.
    unfold MpoHam.curR, MpoHam.hasL. rewrite (anyrange_eq _ _ (n + 1) O (S n)) by lia. reflexivity.
  - (* right -> right *)
    replace (N - n - 1) with (S (N - S n - 1)) by lia. cbn [seq]. rewrite chans_cons.
    replace (n + 1) with (S n) by lia. f_equal. f_equal. f_equal.
    + unfold MpoHam.curR, MpoHam.hasL. rewrite (anyrange_eq _ _ (n + 1) O (S n)) by lia. reflexivity.
    + replace (S (S n)) with (S n + 1) by lia. apply chans_ext. intros s _.
      unfold MpoHam.curR, MpoHam.keepR. apply anyrange_eq; lia.
  - (* right -> last *)
    replace (N - n - 1) with 1%nat by lia. cbn [seq]. rewrite chans_one.
    unfold MpoHam.last_chan. destruct (Nat.eqb_spec N 2); [lia|].
    replace (n + 1) with (S n) by lia. replace (N - 1) with (S n) by lia. f_equal. f_equal.
    unfold MpoHam.curR, MpoHam.hasL. rewrite (anyrange_eq _ _ (n + 1) O (S n)) by lia. reflexivity.
Qed.


Local Notation w n := (w R ht N Uraw (hn n) n (bo n) (bi n)).

Lemma in_cons2 {A} (x y z : A) l : In x (y :: z :: l) -> x = y \/ x = z \/ In x l.
Proof. simpl. intuition. Qed.

(* one site of the sweep, in label form *)
Lemma step_val n rr : n < N -> In rr (labs_out n) ->
  lsum (map (fun ll => val n ll *! w n ll rr) (labs_in n)) = val (S n) rr.
Proof.
  intros Hn Hrr. pose proof mid_spec as MS. pose proof mid_ge1 as M1. pose proof (kind_spec n) as KS.
  unfold MpoHam.w. unfold MpoHam.labs_out in Hrr. unfold MpoHam.labs_in.
  destruct (kind_of n) eqn:E.
  - (* first *) subst n.
    transitivity (lsum (map (fun ll => val O ll *! wL O ll rr) (LinL O))).
    { unfold LinL. cbn [seq map MpoHam.chans flat_map]. rewrite !lsum_cons. cbn [val Dk]. ring. }
    apply in_cons2 in Hrr. destruct Hrr as [->|[->|Hrr]].
    + apply left_done; lia.
    + apply left_idle; reflexivity.
    + destruct (hasR O); [|contradiction]. apply in_copies in Hrr. destruct Hrr as [c [Hc ->]].
      apply left_new; auto.
  - (* left *) fold (LinL n).
    apply in_cons2 in Hrr. destruct Hrr as [->|[->|Hrr]].
    + apply left_done; lia.
    + apply left_idle; reflexivity.
    + apply in_app_or in Hrr. destruct Hrr as [Hrr|Hrr].
      * apply in_chans in Hrr. destruct Hrr as [c [s [Hc [Hs [Hk ->]]]]]. apply in_seq in Hs.
        apply left_keep; auto; lia.
      * destruct (hasR n); [|contradiction]. apply in_copies in Hrr. destruct Hrr as [c [Hc ->]].
        apply left_new; auto; lia.
  - (* middle *) fold (LinL n).
    apply in_cons2 in Hrr. destruct Hrr as [->|[->|Hrr]].
    + apply mid_done; lia.
    + apply mid_idle.
    + apply in_chans in Hrr. destruct Hrr as [c [s [Hc [Hs [Hk ->]]]]]. apply in_seq in Hs.
      apply mid_need; auto; lia.
  - (* right *) fold (LinR n).
    apply in_cons2 in Hrr. destruct Hrr as [->|[->|Hrr]].
    + apply right_done; lia.
    + apply right_idle.
    + apply in_chans in Hrr. destruct Hrr as [c [s [Hc [Hs [Hk ->]]]]]. apply in_seq in Hs.
      apply right_need; auto; lia.
  - (* last *) destruct Hrr as [<-|[]]. unfold MpoHam.last_chan.
    destruct (Nat.eqb_spec N 2) as [HN|HN].
    + assert (n = S O) by lia. subst n.
      transitivity (lsum (map (fun ll => val (S O) ll *! wL (S O) ll Done) (LinL (S O)))).
      2:{ apply left_done; lia. }
      unfold LinL. cbn [seq]. rewrite chans_one.
      replace (hasL (S O)) with (curL (S O) O). reflexivity.
      unfold MpoHam.hasL, MpoHam.curL. rewrite HN. cbn. rewrite (Usym 1 O). reflexivity.
    + transitivity (lsum (map (fun ll => val n ll *! wR n ll Done) (LinR n))).
      2:{ apply right_done; lia. }
      unfold LinR. replace (N - n - 1) with O by lia. cbn [seq MpoHam.chans flat_map].
      rewrite app_nil_r. replace (N - 1) with n by lia. reflexivity.
Qed.

(* ---------- the sweep over slot-indexed arrays ---------- *)
Variable F : nat -> nat -> nat -> nat -> nat -> K.
Hypothesis Fspec : forall n l r ll rr, n < N ->
  nth_error (labs_in n) l = Some ll -> nth_error (labs_out n) r = Some rr ->
  F n l (bo n) (bi n) r = w n ll rr.

Lemma sweep_inv k : k <= N -> forall l ll, nth_error (bond k) l = Some ll ->
  sweep R ht N Uraw F bo bi k l = val k ll.
Proof.
  induction k; intros Hk l ll Hl.
  - unfold bond in Hl. destruct (Nat.ltb_spec O N); [|lia].
    unfold MpoHam.labs_in in Hl. pose proof (kind_spec O). destruct (kind_of O); try lia.
    destruct l; simpl in Hl; [|destruct l; discriminate]. inversion Hl. reflexivity.
  - rewrite <- shapes_chain in Hl by lia. cbn [sweep]. unfold MpoHam.dimL.
    rewrite (sumn_nth_error _ _ (fun l0 => val k l0 *! w k l0 ll)).
    + apply step_val. lia. eapply nth_error_In; eauto.
    + intros l0 ll0 Hl0. rewrite (Fspec k l0 l ll0 ll) by (auto; lia).
      rewrite (IHk ltac:(lia) l0 ll0). reflexivity. unfold bond. destruct (Nat.ltb_spec k N); [auto|lia].
Qed.

Lemma mpo_elem_Dk : mpo_elem R ht N Uraw F bo bi = Dk N.
Proof.
  unfold mpo_elem. rewrite (sweep_inv N (le_n N) O Done). reflexivity.
  unfold bond. rewrite Nat.ltb_irrefl. reflexivity.
Qed.


(* ---------- the automaton value is the explicit dense sum ---------- *)
Local Notation Pr := (Pr R bo bi).
Local Notation single := (single R hn bo bi).
Local Notation pair := (pair R ht Uraw bo bi).
Local Notation dense_upto := (dense_upto R ht Uraw hn bo bi).

Lemma Pr_nil k : Pr k k = 1.
Proof. unfold MpoHam.Pr. rewrite Nat.sub_diag. reflexivity. Qed.
Lemma Pr_S lo hi : lo <= hi -> Pr lo (S hi) = Pr lo hi *! d hi.
Proof.
  intros H. unfold MpoHam.Pr. replace (S hi - lo) with (S (hi - lo)) by lia.
  rewrite seq_S, map_app, lprod_app. cbn [map MpoHam.lprod fold_right]. unfold dl_ at 2.
  replace (lo + (hi - lo)) with hi by lia. ring.
Qed.
Lemma Pk_Pr k : Pk k = Pr O k.
Proof. induction k. rewrite Pr_nil; reflexivity. rewrite Pr_S by lia. simpl. rewrite IHk. reflexivity. Qed.
Lemma Ok_Pr c i k : i < k -> Ok c i k = Pr O i *! a c i *! Pr (i + 1) k.
Proof.
  induction k; intros H. lia.
  destruct (Nat.eq_dec i k).
  - subst. rewrite Ok_eq, Pk_Pr. replace (k + 1) with (S k) by lia. rewrite Pr_nil. ring.
  - rewrite Ok_lt by lia. rewrite IHk by lia. rewrite (Pr_S (i + 1) k) by lia. ring.
Qed.

Lemma single_S k i : i < k -> single (S k) i = single k i *! d k.
Proof. intros. unfold MpoHam.single. rewrite (Pr_S (i + 1) k) by lia. ring. Qed.
Lemma pair_S k c i j : j < k -> pair (S k) c i j = pair k c i j *! d k.
Proof. intros. unfold MpoHam.pair. rewrite (Pr_S (j + 1) k) by lia. ring. Qed.

Lemma Dk_dense k : Dk k = dense_upto k.
Proof.
  induction k. { unfold MpoHam.dense_upto. rewrite !sumn_0. simpl. ring. }
  cbn [Dk]. rewrite IHk. unfold MpoHam.dense_upto. rewrite !sumn_S.
  rewrite (sumn_ext k (single (S k)) (fun i => single k i *! d k)) by (intros; apply single_S; lia).
  rewrite sumn_mul_r.
  rewrite (sumn_ext k (fun j => sumn j (fun i => sumc (fun c => pair (S k) c i j)))
                      (fun j => sumn j (fun i => sumc (fun c => pair k c i j)) *! d k)).
  2:{ intros j Hj. rewrite <- sumn_mul_r. apply sumn_ext. intros i Hi. rewrite <- sumc_mul_r.
      apply sumc_ext. intros c _. apply pair_S; lia. }
  rewrite sumn_mul_r.
  assert (E1 : single (S k) k = Pk k *! hh k).
  { unfold MpoHam.single, h_. replace (k + 1) with (S k) by lia. rewrite Pr_nil, Pk_Pr. ring. }
  assert (E2 : sumn k (fun i => sumc (fun c => pair (S k) c i k)) = sumc (fun c => Wk c k k *! a c k)).
  { rewrite sumc_sumn_swap. apply sumc_ext. intros c _. unfold Wk. rewrite <- sumn_mul_r.
    apply sumn_ext. intros i Hi. unfold MpoHam.pair, a_. rewrite (Ok_Pr c i k) by lia.
    replace (k + 1) with (S k) by lia. rewrite Pr_nil. ring. }
  rewrite E1, E2. ring.
Qed.

(* C05 main theorem, for any array F that realises the label weights *)
Lemma mpo_elem_dense_F : mpo_elem R ht N Uraw F bo bi = dense_elem R ht N Uraw hn bo bi.
Proof. rewrite mpo_elem_Dk. apply Dk_dense. Qed.


End Elem.

(* ---------- update_H and the slot <-> label dictionary ---------- *)
Definition is_chan (ll : lab) : Prop := match ll with Chan _ _ => True | _ => False end.

Lemma copies_chan s : Forall is_chan (copies s).
Proof. apply Forall_forall. intros ll H. apply in_copies in H. destruct H as [c [_ ->]]. exact I. Qed.
Lemma chans_chan mask l : Forall is_chan (chans mask l).
Proof.
  apply Forall_forall. intros ll H. apply in_chans in H.
  destruct H as [c [s [_ [_ [_ ->]]]]]. exact I.
Qed.
Lemma ite_chan (b : bool) l : Forall is_chan l -> Forall is_chan (if b then l else []).
Proof. destruct b; auto. Qed.

Lemma labs_in_form n :
  (n = O /\ labs_in n = [Idle]) \/
  (n <> O /\ exists rest, labs_in n = Done :: Idle :: rest /\ Forall is_chan rest).
Proof.
  pose proof (kind_spec n) as KS. unfold MpoHam.labs_in.
  destruct (kind_of n); [left; auto| | | |]; right; (split; [lia|]); eexists; (split; [reflexivity|]).
  - apply chans_chan.
  - apply chans_chan.
  - apply Forall_app. split. apply ite_chan, copies_chan. apply chans_chan.
  - apply ite_chan, copies_chan.
Qed.

Lemma labs_out_form n : exists rest, labs_out n = Done :: rest /\ Forall (fun ll => ll <> Done) rest.
Proof.
  assert (C : forall l, Forall is_chan l -> Forall (fun ll => ll <> Done) l).
  { intros l H. eapply Forall_impl; [|exact H]. intros [] HH; try contradiction; discriminate. }
  unfold MpoHam.labs_out. destruct (kind_of n); eexists; (split; [reflexivity|]).
  - constructor. discriminate. apply C, ite_chan, copies_chan.
  - constructor. discriminate. apply C, Forall_app. split. apply chans_chan. apply ite_chan, copies_chan.
  - constructor. discriminate. apply C, chans_chan.
  - constructor. discriminate. apply C, chans_chan.
  - constructor.
Qed.

Lemma idle_slot n l : nth_error (labs_in n) l = Some Idle <-> l = upd_row n.
Proof.
  unfold upd_row. destruct (labs_in_form n) as [[-> E]|[Hn [rest [E Hr]]]]; rewrite E.
  - simpl. destruct l; simpl. tauto. split; [destruct l; discriminate|discriminate].
  - destruct (Nat.eqb_spec n O); [contradiction|].
    destruct l as [|[|l]]; simpl; split; try discriminate; try tauto; try lia.
    intros H. apply nth_error_In in H. rewrite Forall_forall in Hr. apply Hr in H. contradiction.
Qed.

Lemma done_slot n r : nth_error (labs_out n) r = Some Done <-> r = O.
Proof.
  destruct (labs_out_form n) as [rest [E Hr]]. rewrite E. destruct r; simpl. tauto.
  split; [|discriminate]. intros H. apply nth_error_In in H. rewrite Forall_forall in Hr.
  apply Hr in H. congruence.
Qed.

Lemma w_idle_done h n b b' : MpoHam.w R ht N Uraw h n b b' Idle Done = h b b'.
Proof. unfold MpoHam.w. destruct (kind_of n); try reflexivity. destruct (Nat.eqb N 2); reflexivity. Qed.

Lemma w_frame h1 h2 n b b' ll rr : ~ (ll = Idle /\ rr = Done) ->
  MpoHam.w R ht N Uraw h1 n b b' ll rr = MpoHam.w R ht N Uraw h2 n b b' ll rr.
Proof.
  intros H. unfold MpoHam.w.
  destruct (kind_of n); try destruct (Nat.eqb N 2); destruct ll, rr; try reflexivity; tauto.
Qed.

(* make_H's factors are the label weights with zero single-site blocks *)
Lemma ent0_spec n l b b' r ll rr :
  nth_error (labs_in n) l = Some ll -> nth_error (labs_out n) r = Some rr ->
  ent0 R ht N Uraw n l b b' r = MpoHam.w R ht N Uraw (zero_block R) n b b' ll rr.
Proof. intros H1 H2. unfold ent0. rewrite H1, H2. reflexivity. Qed.

(* after update_H they are the label weights with the drive block on the Idle->Done transition *)
Lemma ent_upd p n l b b' r ll rr :
  nth_error (labs_in n) l = Some ll -> nth_error (labs_out n) r = Some rr ->
  update_H R (ent0 R ht N Uraw) p n l b b' r = MpoHam.w R ht N Uraw (hterm R p n) n b b' ll rr.
Proof.
  intros H1 H2. unfold update_H.
  destruct (Nat.eqb_spec l (upd_row n)); destruct (Nat.eqb_spec r O); cbn [andb].
  - pose proof (proj2 (idle_slot n l) e) as E1. pose proof (proj2 (done_slot n r) e0) as E2.
    assert (ll = Idle) by congruence. assert (rr = Done) by congruence. subst ll rr.
    symmetry. apply w_idle_done.
  - rewrite (ent0_spec _ _ _ _ _ _ _ H1 H2). apply w_frame. intros [-> ->]. apply n0. apply (proj1 (done_slot n r)), H2.
  - rewrite (ent0_spec _ _ _ _ _ _ _ H1 H2). apply w_frame. intros [-> ->]. apply n0. apply (proj1 (idle_slot n l)), H1.
  - rewrite (ent0_spec _ _ _ _ _ _ _ H1 H2). apply w_frame. intros [-> ->]. apply n0. apply (proj1 (idle_slot n l)), H1.
Qed.

(* C05 main theorem *)
Theorem mpo_elem_dense p bo bi :
  mpo_elem R ht N Uraw (update_H R (ent0 R ht N Uraw) p) bo bi
  = dense_elem R ht N Uraw (hterm R p) bo bi.
Proof. apply mpo_elem_dense_F. intros. eapply ent_upd; eauto. Qed.

Theorem mpo_elem_dense_make_H bo bi :
  mpo_elem R ht N Uraw (ent0 R ht N Uraw) bo bi
  = dense_elem R ht N Uraw (fun _ => zero_block R) bo bi.
Proof. apply mpo_elem_dense_F. intros. eapply ent0_spec; eauto. Qed.

Lemma boundary_bonds : dimL R ht N Uraw O = S O /\ dimR R ht N Uraw (N - 1) = S O.
Proof.
  unfold dimL, dimR, MpoHam.labs_in, MpoHam.labs_out.
  pose proof (kind_spec O). pose proof (kind_spec (N - 1)).
  destruct (kind_of O); try lia. destruct (kind_of (N - 1)); try lia. auto.
Qed.

Lemma dims_chain n : S n < N -> dimR R ht N Uraw n = dimL R ht N Uraw (S n).
Proof.
  intros H. unfold dimR, dimL. rewrite shapes_chain by lia. unfold bond.
  destruct (Nat.ltb_spec (S n) N); [reflexivity|lia].
Qed.

End Proofs.

(* ---------- update_H is a local overwrite (holds for any array and any K) ---------- *)
Section UpdateLocal.
Context {K : Type} (R : ringops K).
Variable F : nat -> nat -> nat -> nat -> nat -> K.

Lemma update_H_writes p n b b' : update_H R F p n (upd_row n) b b' O = hterm R p n b b'.
Proof. unfold update_H. rewrite !Nat.eqb_refl. reflexivity. Qed.

Lemma update_H_frame p n l b b' r : l <> upd_row n \/ r <> O -> update_H R F p n l b b' r = F n l b b' r.
Proof.
  intros H. unfold update_H.
  destruct (Nat.eqb_spec l (upd_row n)); destruct (Nat.eqb_spec r O); simpl; try reflexivity. tauto.
Qed.

Lemma update_H_overwrite p q n l b b' r :
  update_H R (update_H R F p) q n l b b' r = update_H R F q n l b b' r.
Proof.
  unfold update_H. destruct (Nat.eqb l (upd_row n) && Nat.eqb r O); reflexivity.
Qed.

(* any sequence of in-place updates equals the last update alone (nothing accumulates or survives) *)
Lemma update_H_seq_frame ps n l b b' r :
  Nat.eqb l (upd_row n) && Nat.eqb r O = false ->
  fold_left (update_H R) ps F n l b b' r = F n l b b' r.
Proof.
  revert F. induction ps as [|p ps IH]; intros G H; simpl. reflexivity.
  rewrite IH by exact H. unfold update_H. rewrite H. reflexivity.
Qed.

Lemma update_H_sequence ps q n l b b' r :
  fold_left (update_H R) (ps ++ [q]) F n l b b' r = update_H R F q n l b b' r.
Proof.
  rewrite fold_left_app. simpl. unfold update_H at 1 3.
  destruct (Nat.eqb l (upd_row n) && Nat.eqb r O) eqn:E. reflexivity.
  apply update_H_seq_frame. exact E.
Qed.
End UpdateLocal.

(* ---------- the premises are satisfiable: Gaussian integers ---------- *)
Lemma gi_ring : ring_theory (k0 gi_ops) (k1 gi_ops) (kadd gi_ops) (kmul gi_ops) (ksub gi_ops) (kopp gi_ops) eq.
Proof.
  constructor; cbn [k0 k1 kadd kmul ksub kopp gi_ops]; unfold gi_sub, gi_add, gi_mul, gi_opp; intros;
    repeat match goal with x : GI |- _ => destruct x end; cbn [fst snd]; f_equal; ring.
Qed.
Lemma gi_isz_sound : forall x, kisz gi_ops x = true -> x = k0 gi_ops.
Proof.
  intros [a b]. simpl. unfold gi_isz. simpl. intros H. apply andb_prop in H. destruct H as [H1 H2].
  apply Z.eqb_eq in H1. apply Z.eqb_eq in H2. subst. reflexivity.
Qed.

(* ---------- C28 (part): the MPO Hamiltonian is Hermitian element-wise for real parameters -------- *)
Section Hermitian.
Context {K : Type} (R : ringops K).
Hypothesis Rth : ring_theory (k0 R) (k1 R) (kadd R) (kmul R) (ksub R) (kopp R) eq.
Add Ring Kring2 : Rth.
Hypothesis isz_sound : forall x, kisz R x = true -> x = k0 R.
Variable conj : K -> K.
Hypothesis conj_0 : conj (k0 R) = k0 R.
Hypothesis conj_1 : conj (k1 R) = k1 R.
Hypothesis conj_add : forall x y, conj (kadd R x y) = kadd R (conj x) (conj y).
Hypothesis conj_mul : forall x y, conj (kmul R x y) = kmul R (conj x) (conj y).
Hypothesis conj_sub : forall x y, conj (ksub R x y) = ksub R (conj x) (conj y).
Hypothesis conj_opp : forall x, conj (kopp R x) = kopp R (conj x).
Hypothesis conj_half : conj (khalf R) = khalf R.
Hypothesis conj_iu : conj (kiu R) = kopp R (kiu R).

Variable ht : htype.
Variable N : nat.
Variable Uraw : nat -> nat -> K.
Hypothesis Usym : forall i j, Uraw i j = Uraw j i.
Hypothesis Ureal : forall i j, conj (Uraw i j) = Uraw i j.
Hypothesis N2 : 2 <= N.
Variable p : drive K.
Hypothesis oc_real : forall n, conj (d_oc p n) = d_oc p n.
Hypothesis os_real : forall n, conj (d_os p n) = d_os p n.
Hypothesis dl_real : forall n, conj (d_dl p n) = d_dl p n.
Hypothesis nz_herm : forall b b', conj (d_nz p b b') = d_nz p b' b.

Lemma conj_lsum l : conj (lsum R l) = lsum R (map conj l).
Proof. induction l; simpl. apply conj_0. rewrite conj_add, IHl. reflexivity. Qed.
Lemma conj_lprod l : conj (lprod R l) = lprod R (map conj l).
Proof. induction l; simpl. apply conj_1. rewrite conj_mul, IHl. reflexivity. Qed.
Lemma conj_sumn n f : conj (sumn R n f) = sumn R n (fun i => conj (f i)).
Proof. unfold sumn. rewrite conj_lsum, map_map. reflexivity. Qed.
Lemma conj_sumc f : conj (sumc R ht f) = sumc R ht (fun c => conj (f c)).
Proof. unfold sumc. rewrite conj_lsum, map_map. reflexivity. Qed.

Lemma conj_idm b b' : conj (idm R b' b) = idm R b b'.
Proof. unfold idm. rewrite (Nat.eqb_sym b' b). destruct (Nat.eqb b b'); auto. Qed.
Lemma conj_nmat b b' : conj (nmat R b' b) = nmat R b b'.
Proof. unfold nmat. rewrite andb_comm. destruct (Nat.eqb b 1 && Nat.eqb b' 1); auto. Qed.
Lemma conj_sxm b b' : conj (sxm R b' b) = sxm R b b'.
Proof. destruct b as [|[|b]], b' as [|[|b']]; simpl; auto. Qed.
Lemma conj_sym b b' : conj (sym R b' b) = sym R b b'.
Proof.
  destruct b as [|[|b]], b' as [|[|b']]; simpl; auto;
    rewrite ?conj_opp, conj_mul, conj_half, conj_iu; ring.
Qed.
Lemma conj_emb2 M b b' : (forall x y, conj (M y x) = M x y) -> conj (emb2 R M b' b) = emb2 R M b b'.
Proof.
  intros H. unfold emb2. rewrite andb_comm. destruct (Nat.ltb b 2 && Nat.ltb b' 2); auto.
Qed.
Lemma conj_opc c b b' : conj (opc R ht c b' b) = opc R ht c b b'.
Proof.
  unfold opc. destruct ht. apply conj_nmat. destruct (Nat.eqb c O). apply conj_sxm. apply conj_sym.
Qed.
Lemma conj_hterm n b b' : conj (hterm R p n b' b) = hterm R p n b b'.
Proof.
  unfold hterm. rewrite conj_add, nz_herm. f_equal. apply conj_emb2. intros x y.
  rewrite conj_sub, conj_add, !conj_mul, conj_sxm, conj_sym, conj_nmat, oc_real, os_real, dl_real.
  reflexivity.
Qed.
Lemma conj_U i j : conj (U R Uraw i j) = U R Uraw i j.
Proof. unfold U. destruct (Nat.eqb i j); auto. Qed.
Lemma conj_scale x : conj (scale R ht x) = scale R ht (conj x).
Proof. unfold scale. destruct ht; auto. rewrite conj_mul, conj_add, conj_1. reflexivity. Qed.

Lemma conj_Pr bo bi lo hi : conj (Pr R bi bo lo hi) = Pr R bo bi lo hi.
Proof.
  unfold Pr. rewrite conj_lprod, map_map. f_equal. apply map_ext. intros t. apply conj_idm.
Qed.

Lemma dense_hermitian bo bi :
  dense_elem R ht N Uraw (hterm R p) bo bi = conj (dense_elem R ht N Uraw (hterm R p) bi bo).
Proof.
  unfold dense_elem, dense_upto. rewrite conj_add, !conj_sumn. f_equal.
  - apply sumn_ext; auto. intros i _. unfold single, h_.
    rewrite !conj_mul, !conj_Pr, conj_hterm. reflexivity.
  - apply sumn_ext; auto. intros j _. rewrite conj_sumn. apply sumn_ext; auto. intros i _.
    rewrite conj_sumc. apply sumc_ext; auto. intros c _. unfold pair, a_.
    rewrite !conj_mul, !conj_Pr, conj_scale, conj_U, !(conj_emb2 (opc R ht c)) by (intros; apply conj_opc).
    reflexivity.
Qed.

(* C28 mpo_hermitian: <b|H|b'> = conj <b'|H|b> for real drive, real symmetric U, Hermitian noise block *)
Theorem mpo_hermitian bo bi :
  mpo_elem R ht N Uraw (update_H R (ent0 R ht N Uraw) p) bo bi
  = conj (mpo_elem R ht N Uraw (update_H R (ent0 R ht N Uraw) p) bi bo).
Proof. rewrite !(mpo_elem_dense R Rth isz_sound ht N Uraw Usym N2). apply dense_hermitian. Qed.

End Hermitian.

(* ---------- small chains written out, and a concrete run ---------- *)
Section Small.
Context {K : Type} (R : ringops K).
Hypothesis Rth : ring_theory (k0 R) (k1 R) (kadd R) (kmul R) (ksub R) (kopp R) eq.
Add Ring Kring3 : Rth.
Hypothesis isz_sound : forall x, kisz R x = true -> x = k0 R.
Variable ht : htype.
Variable Uraw : nat -> nat -> K.
Hypothesis Usym : forall i j, Uraw i j = Uraw j i.
Variable p : drive K.
Variables bo bi : nat -> nat.
Local Notation "x +! y" := (kadd R x y) (at level 50, left associativity).
Local Notation "x *! y" := (kmul R x y) (at level 40, left associativity).
Local Notation d k := (idm R (bo k) (bi k)).
Local Notation a c k := (emb2 R (opc R ht c) (bo k) (bi k)).
Local Notation hh k := (hterm R p k (bo k) (bi k)).

(* the dense sum written out for 2 and 3 sites *)
Lemma mpo_elem_N2 :
  mpo_elem R ht 2 Uraw (update_H R (ent0 R ht 2 Uraw) p) bo bi
  = hh 0 *! d 1 +! d 0 *! hh 1 +! sumc R ht (fun c => a c 0 *! a c 1 *! scale R ht (Uraw 0 1)).
Proof.
  rewrite (mpo_elem_dense R Rth isz_sound ht 2 Uraw Usym (le_n 2)).
  unfold dense_elem, dense_upto, sumn, sumc, single, pair, Pr, h_, a_, dl_, U.
  destruct ht; cbn; ring.
Qed.

Lemma mpo_elem_N3 :
  mpo_elem R ht 3 Uraw (update_H R (ent0 R ht 3 Uraw) p) bo bi
  = hh 0 *! d 1 *! d 2 +! d 0 *! hh 1 *! d 2 +! d 0 *! d 1 *! hh 2
    +! sumc R ht (fun c => a c 0 *! a c 1 *! d 2 *! scale R ht (Uraw 0 1))
    +! sumc R ht (fun c => a c 0 *! d 1 *! a c 2 *! scale R ht (Uraw 0 2))
    +! sumc R ht (fun c => d 0 *! a c 1 *! a c 2 *! scale R ht (Uraw 1 2)).
Proof.
  rewrite (mpo_elem_dense R Rth isz_sound ht 3 Uraw Usym ltac:(lia)).
  unfold dense_elem, dense_upto, sumn, sumc, single, pair, Pr, h_, a_, dl_, U.
  destruct ht; cbn; ring.
Qed.
End Small.

(* a concrete run at the Gaussian integers: XY chain of 4 sites, U_02 = 0 (pruned channel) *)
Definition ex_U (i j : nat) : GI :=
  let z := nth (i * 4 + j) [0; 3; 0; 5;  3; 0; -2; 1;  0; -2; 0; 7;  5; 1; 7; 0]%Z 0%Z in (z, 0%Z).
Definition ex_p : drive GI :=
  mkDrive GI (fun n => (Z.of_nat n + 2, 0)%Z) (fun n => (1, 0)%Z) (fun n => (Z.of_nat n, 0)%Z)
             (fun b b' => (0, 0)%Z).
Example mpo_elem_example :
  let bo := fun k => nth k [1; 0; 1; 0] 0 in
  let bi := fun k => nth k [0; 1; 1; 0] 0 in
  mpo_elem gi_ops XY 4 ex_U (update_H gi_ops (ent0 gi_ops XY 4 ex_U) ex_p) bo bi = (12, 0)%Z /\
  mpo_elemL gi_ops XY 4 ex_U (update_H gi_ops (ent0 gi_ops XY 4 ex_U) ex_p) bo bi = (12, 0)%Z /\
  dense_elem gi_ops XY 4 ex_U (hterm gi_ops ex_p) bo bi = (12, 0)%Z.
Proof. vm_compute. auto. Qed.

(* the premises of [mpo_hermitian] are satisfiable: complex conjugation on the Gaussian integers *)
Lemma gi_conj_ok :
  gi_conj (k0 gi_ops) = k0 gi_ops /\ gi_conj (k1 gi_ops) = k1 gi_ops /\
  (forall x y, gi_conj (kadd gi_ops x y) = kadd gi_ops (gi_conj x) (gi_conj y)) /\
  (forall x y, gi_conj (kmul gi_ops x y) = kmul gi_ops (gi_conj x) (gi_conj y)) /\
  (forall x y, gi_conj (ksub gi_ops x y) = ksub gi_ops (gi_conj x) (gi_conj y)) /\
  (forall x, gi_conj (kopp gi_ops x) = kopp gi_ops (gi_conj x)) /\
  gi_conj (khalf gi_ops) = khalf gi_ops /\ gi_conj (kiu gi_ops) = kopp gi_ops (kiu gi_ops).
Proof.
  repeat split; try reflexivity; intros; cbn [kadd kmul ksub kopp gi_ops];
    unfold gi_conj, gi_sub, gi_add, gi_mul, gi_opp;
    repeat match goal with x : GI |- _ => destruct x end; cbn [fst snd]; f_equal; ring.
Qed.
