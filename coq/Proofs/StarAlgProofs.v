(* Whole-run conservation laws over an abstract matrix *-algebra (Model/StarAlg.v): from three laws of the
   exponential, every propagator exp(s.H) with anti-real s and Hermitian H is unitary; any ordered fold of
   such propagators preserves <psi|psi>; inside a window of constant H it preserves <H> and <H H>. *)
From Coq Require Import List ZArith Lia FunctionalExtensionality.
From EV Require Import Model.StarAlg Model.SvBase Proofs.SvBaseProofs Proofs.AntiHermitian
  Base.Arith Model.SvMachine Proofs.SvMachineProofs Proofs.SvRunProofs.
Import ListNotations.

Record StarLaws (o : StarOps) : Prop := MkStarLaws {
  mul_assoc : forall A B C : sM o, m_mul o (m_mul o A B) C = m_mul o A (m_mul o B C);
  app_mul : forall (A B : sM o) v, m_app o (m_mul o A B) v = m_app o A (m_app o B v);
  app_one : forall v, m_app o (m_one o) v = v;
  ip_adj : forall (A : sM o) x y, ip o (m_app o A x) y = ip o x (m_app o (m_adj o A) y);
  adj_smul : forall s (A : sM o), m_adj o (s_mul o s A) = s_mul o (s_conj o s) (m_adj o A);
  smul_opp : forall s (A : sM o), s_mul o (s_opp o s) A = m_opp o (s_mul o s A);
  opp_opp : forall A : sM o, m_opp o (m_opp o A) = A;
  (* the three laws of the matrix exponential (PREMISES, not proved: mexp is abstract) *)
  exp_adj : forall A : sM o, m_exp o (m_adj o A) = m_adj o (m_exp o A);
  exp_inv : forall A : sM o, m_mul o (m_exp o A) (m_exp o (m_opp o A)) = m_one o;
  exp_comm : forall c (A : sM o), m_mul o A (m_exp o (s_mul o c A)) = m_mul o (m_exp o (s_mul o c A)) A;
}.

Section Conservation.
Variable o : StarOps.
Hypothesis laws : StarLaws o.

(* abstract form of C28_generator_antihermitian *)
Lemma generator_antihermitian_op : forall s (H : sM o),
  antireal_scalar o s -> hermitian_op o H -> antihermitian_op o (s_mul o s H).
Proof.
  unfold antireal_scalar, hermitian_op, antihermitian_op. intros s H Hs HH.
  now rewrite (adj_smul o laws), Hs, HH, (smul_opp o laws).
Qed.

(* "exp of an anti-Hermitian operator is unitary": derived from the exp laws *)
Lemma exp_antihermitian_unitary : forall G : sM o, antihermitian_op o G -> unitary o (m_exp o G).
Proof.
  unfold antihermitian_op, unitary. intros G HG.
  rewrite <- (exp_adj o laws), HG.
  pose proof (exp_inv o laws (m_opp o G)) as E. now rewrite (opp_opp o laws) in E.
Qed.

(* (1) every step propagator is unitary *)
Lemma propagator_unitary : forall st, good_sstep o st -> unitary o (propagator o st).
Proof.
  intros [s H] [Hs HH]. apply exp_antihermitian_unitary. now apply generator_antihermitian_op.
Qed.

Lemma unitary_preserves_ip : forall (U : sM o) x y, unitary o U ->
  ip o (m_app o U x) (m_app o U y) = ip o x y.
Proof.
  intros U x y HU. rewrite (ip_adj o laws), <- (app_mul o laws), HU. now rewrite (app_one o laws).
Qed.

Lemma expect_conserved : forall (U O : sM o) psi, unitary o U -> m_mul o O U = m_mul o U O ->
  expect o O (m_app o U psi) = expect o O psi.
Proof.
  intros U O psi HU HC. unfold expect.
  rewrite <- (app_mul o laws O U), HC, (app_mul o laws). now apply unitary_preserves_ip.
Qed.

Lemma commute_square : forall H U : sM o, m_mul o H U = m_mul o U H ->
  m_mul o (m_mul o H H) U = m_mul o U (m_mul o H H).
Proof.
  intros H U C. rewrite (mul_assoc o laws), C, <- (mul_assoc o laws), C. apply (mul_assoc o laws).
Qed.

(* (2) the ordered fold of any list of good steps preserves the squared norm *)
Theorem norm_conserved : forall (steps : list (sstep o)) psi,
  Forall (good_sstep o) steps -> norm2 o (evolve o steps psi) = norm2 o psi.
Proof.
  induction steps as [|st r IH]; intros psi G; [reflexivity|].
  inversion G; subst. unfold evolve in *. simpl. rewrite IH by assumption.
  unfold norm2. apply unitary_preserves_ip. now apply propagator_unitary.
Qed.

Theorem norm_conserved_trajectory : forall (steps : list (sstep o)) psi,
  Forall (good_sstep o) steps -> Forall (fun v => norm2 o v = norm2 o psi) (trajectory o steps psi).
Proof.
  induction steps as [|st r IH]; intros psi G; simpl.
  - constructor; [reflexivity|constructor].
  - inversion G; subst. constructor; [reflexivity|].
    assert (E : norm2 o (m_app o (propagator o st) psi) = norm2 o psi)
      by (unfold norm2; apply unitary_preserves_ip; now apply propagator_unitary).
    rewrite <- E. now apply IH.
Qed.

(* (3) a window of constant Hamiltonian H, any scalars (any dt list): <H> and <H H> at every step *)
Definition window (H : sM o) (ss : list (sS o)) : list (sstep o) := map (fun s => (s, H)) ss.

Lemma window_step_conserves : forall (H : sM o) s psi, antireal_scalar o s -> hermitian_op o H ->
  expect o H (m_app o (propagator o (s, H)) psi) = expect o H psi /\
  expect o (m_mul o H H) (m_app o (propagator o (s, H)) psi) = expect o (m_mul o H H) psi.
Proof.
  intros H s psi Hs HH.
  assert (U : unitary o (propagator o (s, H))) by (apply propagator_unitary; split; assumption).
  assert (C : m_mul o H (propagator o (s, H)) = m_mul o (propagator o (s, H)) H)
    by (unfold propagator; simpl; apply (exp_comm o laws)).
  split; apply expect_conserved; auto. now apply commute_square.
Qed.

Theorem window_conserved : forall (H : sM o) (ss : list (sS o)) psi,
  hermitian_op o H -> Forall (antireal_scalar o) ss ->
  Forall (fun v => expect o H v = expect o H psi /\ expect o (m_mul o H H) v = expect o (m_mul o H H) psi /\
                   norm2 o v = norm2 o psi)
         (trajectory o (window H ss) psi).
Proof.
  intros H ss psi HH. revert psi. induction ss as [|s r IH]; intros psi G; simpl.
  - constructor; [repeat split|constructor].
  - inversion G; subst. constructor; [repeat split|].
    destruct (window_step_conserves H s psi H2 HH) as (E1 & E2).
    assert (E3 : norm2 o (m_app o (propagator o (s, H)) psi) = norm2 o psi).
    { unfold norm2. apply unitary_preserves_ip. apply propagator_unitary. split; assumption. }
    rewrite <- E1, <- E2, <- E3. now apply IH.
Qed.

Theorem window_conserved_final : forall (H : sM o) (ss : list (sS o)) psi,
  hermitian_op o H -> Forall (antireal_scalar o) ss ->
  expect o H (evolve o (window H ss) psi) = expect o H psi /\
  expect o (m_mul o H H) (evolve o (window H ss) psi) = expect o (m_mul o H H) psi.
Proof.
  intros H ss psi HH. revert psi. induction ss as [|s r IH]; intros psi G; [split; reflexivity|].
  inversion G; subst. unfold evolve in *. simpl.
  destruct (IH (m_app o (propagator o (s, H)) psi) H3) as (A1 & A2).
  destruct (window_step_conserves H s psi H2 HH) as (E1 & E2).
  rewrite A1, A2. now split.
Qed.

(* the fold is the fold of C01: fold_left (fun s f => f s) over the per-step maps *)
Lemma evolve_as_funs : forall (steps : list (sstep o)) psi,
  evolve o steps psi = fold_left (fun s f => f s) (map (fun st => m_app o (propagator o st)) steps) psi.
Proof. induction steps; intros; simpl; [reflexivity|]. unfold evolve in *. simpl. apply IHsteps. Qed.

(* connection with the emu-sv step loop (C01_sv_run_is_ordered_fold): if the k-th stepper call acts as the
   propagator of a good step, the state returned by run() has the squared norm of the initial state *)
Theorem sv_run_norm_conserved :
  forall (A : Type) (ar : Arith A) (Row UM Hm : Type)
         (zero_row : list bool -> Row -> Row) (mask_U : list bool -> UM -> UM) (umat : A -> UM)
         (stepper : A -> Row -> Row -> Row -> UM -> sV o -> sV o * Hm)
         (get_ham : Row -> Row -> Row -> UM -> Hm) (is_eval : nat -> A -> bool)
         (P : params A Row) (s0 : sV o) (t0 t1 tn : A) (rest : list A) (om d p : Row) (os ds ps : list Row)
         (steps : list (sstep o)),
  p_times P = t0 :: t1 :: rest -> p_omega P = om :: os -> p_delta P = d :: ds -> p_phi P = p :: ps ->
  length os = length rest -> length ds = length rest -> length ps = length rest ->
  lastA (p_times P) = Some tn -> a_eqb ar tn (zero ar) = false ->
  step_funs A ar Row UM (sV o) Hm zero_row mask_U umat stepper P t0 (t1 :: rest) (om :: os) (d :: ds) (p :: ps)
    = map (fun st => m_app o (propagator o st)) steps ->
  Forall (good_sstep o) steps ->
  exists sf, run ar zero_row mask_U umat stepper get_ham is_eval P s0 = Ok sf /\
             norm2 o (sv_state sf) = norm2 o s0.
Proof.
  intros until steps. intros Ht Ho Hd Hp Lo Ld Lp Hl Hz Hs G.
  destruct (sv_run_is_ordered_fold_full A ar Row UM (sV o) Hm zero_row mask_U umat stepper get_ham is_eval
              P s0 t0 t1 tn rest om d p os ds ps Ht Ho Hd Hp Lo Ld Lp Hl Hz) as (sf & R1 & R2 & _).
  exists sf. split; [exact R1|]. rewrite R2, Hs, <- evolve_as_funs. now apply norm_conserved.
Qed.
End Conservation.

(* ---- C28_generator_antihermitian in adjoint form: for matrices given entrywise over C06's ring with
   involution, (anti-real s) * (Hermitian H) satisfies adj G = - G, the premise of the theorems above ------- *)
Lemma generator_antihermitian_adjoint_form : forall (k : Kops), Klaws k ->
  forall (I : Type) (s : k) (H : I -> I -> k), is_antireal k s -> hermitian k H ->
  (fun a b => kconj k (kmul k s (H b a))) = (fun a b => kopp k (kmul k s (H a b))).
Proof.
  intros k L I s H Hs HH. apply functional_extensionality; intro a. apply functional_extensionality; intro b.
  pose proof (scale_antihermitian k L I s H Hs HH b a) as E. simpl in E.
  rewrite E, (conj_opp k L), (conj_inv k L). reflexivity.
Qed.

(* ---- non-vacuity: the dual-number instance satisfies every law, with non-trivial unitaries ---------- *)
Open Scope Z_scope.
Lemma dual_laws : StarLaws dual_ops.
Proof.
  constructor; intros;
    cbn [sM sV sK sS m_one m_mul m_opp m_adj s_mul s_conj s_opp m_exp m_app ip dual_ops] in *;
    repeat match goal with x : dual |- _ => destruct x | x : (Z * Z)%type |- _ => destruct x end;
    unfold d_mul, d_opp, d_conj, d_exp; cbn [fst snd]; f_equal; ring.
Qed.

Example dual_run_conserves :
  let H : dual := (3, 0) in let steps := [((0, 1), H); ((0, -5), H); ((0, 7), (2, 0))] in
  Forall (good_sstep dual_ops) steps /\
  propagator dual_ops ((0, 1), H) = (1, 3) /\                       (* a non-trivial unitary: 1 + 3 eps *)
  evolve dual_ops steps (2, 5) = (2, 9) /\                          (* the state does change *)
  norm2 dual_ops (evolve dual_ops steps (2, 5)) = norm2 dual_ops (2, 5).
Proof.
  cbv zeta. split; [repeat constructor|]. split; [reflexivity|]. split; [reflexivity|].
  apply (norm_conserved dual_ops dual_laws). repeat constructor.
Qed.
