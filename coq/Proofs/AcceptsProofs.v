(* C04 — proofs about the accept/reject decision table (Model/Accepts.v). *)
From Coq Require Import ZArith Bool List String.
From EV Require Import Base.Arith Gen.Dispatch Gen.SvGuards Model.DispatchModel Model.Accepts.
Import ListNotations.

(* ---- the enumerators cover their whole type ------------------------------------------------ *)
Lemma all_bool_spec : forall P, all_bool P = true -> forall b, P b = true.
Proof. unfold all_bool. intros P H b. apply andb_true_iff in H as [H1 H2]. destruct b; assumption. Qed.

Lemma all_chan_spec : forall P, all_chan P = true -> forall c, P c = true.
Proof.
  unfold all_chan. intros P H c. repeat (apply andb_true_iff in H as [H ?]). destruct c; assumption.
Qed.

Lemma all_eff_spec : forall P, all_eff P = true -> forall e, P e = true.
Proof.
  unfold all_eff. intros P H e. repeat (apply andb_true_iff in H as [H ?]). destruct e; assumption.
Qed.

Lemma all_feat_spec : forall P, all_feat P = true -> forall f, P f = true.
Proof.
  unfold all_feat. intros P H [c lk rx dp hy dl ef pr ot dm it].
  pose proof (all_chan_spec _ H c) as H1. cbv beta in H1.
  pose proof (all_bool_spec _ H1 lk) as H2. cbv beta in H2.
  pose proof (all_bool_spec _ H2 rx) as H3. cbv beta in H3.
  pose proof (all_bool_spec _ H3 dp) as H4. cbv beta in H4.
  pose proof (all_bool_spec _ H4 hy) as H5. cbv beta in H5.
  pose proof (all_bool_spec _ H5 dl) as H6. cbv beta in H6.
  pose proof (all_eff_spec _ H6 ef) as H7. cbv beta in H7.
  pose proof (all_bool_spec _ H7 pr) as H8. cbv beta in H8.
  pose proof (all_bool_spec _ H8 ot) as H9. cbv beta in H9.
  pose proof (all_bool_spec _ H9 dm) as H10. cbv beta in H10.
  exact (all_bool_spec _ H10 it).
Qed.

(* ---- accept => supported, from the closed table check --------------------------------------- *)
Lemma accept_supported_for : forall b, table_ok_for b = true ->
  forall f, accepts b f = true -> supported b f = true.
Proof.
  intros b H f Ha. unfold table_ok_for in H.
  pose proof (all_feat_spec _ H f) as Hf. cbv beta in Hf. rewrite Ha in Hf. exact Hf.
Qed.

Lemma accept_supported : table_ok = true ->
  forall b f, accepts b f = true -> supported b f = true.
Proof.
  unfold table_ok, all_backend. intros H b f. apply andb_true_iff in H as [H1 H2].
  destruct b; apply accept_supported_for; assumption.
Qed.

(* ---- rejections that do not depend on the generated guards ------------------------------- *)
Lemma decide_stage_error : forall b f m,
  res_bind (lindblad_stage f) (fun _ => channel_stage f) = Err m -> decide b f = Err m.
Proof.
  intros b f m. unfold decide. destruct (lindblad_stage f); cbn [res_bind]; try discriminate.
  - destruct (channel_stage f); cbn [res_bind]; congruence.
  - congruence.
Qed.

Lemma foreign_basis_rejected : forall b f,
  (f_chan f = ChDig \/ f_chan f = ChBoth \/ f_chan f = ChRydDet) -> accepts b f = false.
Proof.
  intros b f H. unfold accepts, decide.
  destruct (lindblad_stage f) as [[]| |]; cbn [res_bind]; try reflexivity.
  unfold channel_stage. destruct H as [-> | [-> | ->]]; reflexivity.
Qed.

Lemma hyperfine_rejected : forall b f, f_hyper f = true ->
  err_class (decide b f) = Some exc_NotImplementedError.
Proof. intros b f H. unfold decide, lindblad_stage. rewrite H. reflexivity. Qed.

Lemma eff_shape_rejected : forall b f,
  forallb (Z.eqb (dim f)) (eff_shapes f) = false -> accepts b f = false.
Proof.
  intros b f H. unfold accepts, decide, lindblad_stage. rewrite H.
  destruct (f_hyper f); reflexivity.
Qed.

(* the specification is not vacuous *)
Lemma supported_examples :
  supported SV (mkFeat ChRyd false true false false false Eff2 false true false true) = true /\
  supported MPS (mkFeat ChXY true false false false false Eff3 false false false true) = true /\
  supported SV (mkFeat ChXY false false false false false EffNone false false false false) = false.
Proof. repeat split; reflexivity. Qed.
