(* C09: a whole DMRG run = one step contract per time step, for every energy stream that is split into
   per-step plans (unconverged sweeps, then the first converged sweep). *)
From Coq Require Import ZArith List Bool Lia.
From EV Require Import Base.Arith Gen.Brent Model.MpsMachine Proofs.MpsStep Proofs.MpsPhase Proofs.MpsSweep
  Proofs.MpsTdvpComplete Proofs.MpsTdvpStep Proofs.MpsTdvpTrace Proofs.DmrgStep Proofs.DmrgPhase Proofs.DmrgSweep
  Proofs.DmrgContract Proofs.DmrgStepContract Proofs.MpsTdvpRun.
Import ListNotations.
Open Scope Z_scope.

Section P.
Variable A : Type.
Variable ar : Arith A.
Notation mstate := (mstate A).
Notation event := (event A).
Notation block := (block A).
Notation iter_progress_app := (@iter_progress_app A ar).

(* the energies of one time step: the blocks of its unconverged sweeps, then the converged one *)
Definition dstep : Type := (list block * block)%type.
Definition dstep_flat (d : dstep) : list A := flat_map (block_flat A) (fst d) ++ block_flat A (snd d).
Definition dstep_calls (n : nat) (d : dstep) : nat := (length (fst d) + 1) * (n + 1 + n + 1).

Fixpoint plan_ok (n : nat) (prev : option A) (etol : A) (sweeps maxsw : Z) (plan : list dstep) : Prop :=
  match plan with
  | [] => True
  | d :: plan' =>
    Forall (block_ok A n) (fst d) /\ block_ok A n (snd d) /\ unconverged A ar prev etol (fst d) /\
    converges A ar (last_prev A prev (fst d)) (block_last A (snd d)) etol = true /\
    sweeps + Z.of_nat (length (fst d)) + 1 <= maxsw /\
    plan_ok n (last_prev A prev (fst d)) etol (sweeps + Z.of_nat (length (fst d)) + 1) maxsw plan'
  end.
Fixpoint plan_calls (n : nat) (plan : list dstep) : nat :=
  match plan with [] => O | d :: p => (dstep_calls n d + plan_calls n p)%nat end.
Fixpoint plan_sweeps (plan : list dstep) : Z :=
  match plan with [] => 0 | d :: p => Z.of_nat (length (fst d)) + 1 + plan_sweeps p end.

Definition drun_start (s : mstate) (n : nat) (k : Z) (tgt : A) (rest : list A) : Prop :=
  dmrg_like A s /\ m_N s = Z.of_nat n + 3 /\ dstart A s /\ m_tidx s = k /\ 0 <= k /\
  m_steps s = k + 1 + Z.of_nat (length rest) /\ m_tgt s = tgt /\
  skipn (Z.to_nat (k + 2)) (m_times s) = rest.

Theorem dmrg_run : forall (rest : list A) (plan : list dstep) (s : mstate) (n : nat) (k : Z) (tgt : A)
    (erest : list A) (same : list bool),
  drun_start s n k tgt rest -> length plan = S (length rest) -> (length plan <= length same)%nat ->
  o_same s = same -> o_energy s = flat_map dstep_flat plan ++ erest ->
  plan_ok n (m_prevE s) (m_etol s) (m_sweeps s) (m_maxsw s) plan ->
  exists sf, iter_progress ar (plan_calls n plan) s = Ok sf /\ is_finished sf = true /\
    o_energy sf = erest /\ m_sweeps sf = m_sweeps s + plan_sweeps plan /\
    exists new, m_ev sf = new ++ m_ev s /\
      flat_map (@fill_of A) new = rev (expected_fills A k (tgt :: rest)).
Proof.
  induction rest as [|t rest IH]; intros plan s n k tgt erest same HS Hlp Hls Hsame He Hok.
  - destruct plan as [|d [|d' plan']]; cbn [length] in Hlp; try discriminate.
    destruct same as [|sm same]; [cbn in Hls; lia|].
    destruct HS as (HT & HN & Hds & Ht & Hk0 & Hst & Htg & Hskip).
    cbn [plan_ok] in Hok. destruct Hok as (Hbl & Hbf & Hun & Hcv & Hbud & _).
    cbn [flat_map] in He. rewrite app_nil_r in He. unfold dstep_flat in He. rewrite <- app_assoc in He.
    destruct (dmrg_step_contract A ar n (fst d) s (snd d) erest sm same None HT HN Hds Hbl Hbf He Hun Hcv Hbud Hsame)
      as (s' & Hi & Htx & Hcur & Htg' & _ & Hsw & Hen & Hsm & HpE & (Fk & FN & Fst & Fti & Fet & Fmx) & new & Hev & Hfl).
    { rewrite Ht, Hst. cbn [length]. intros; lia. }
    { intros; reflexivity. }
    exists s'. cbn [plan_calls]. rewrite Nat.add_0_r. split; [exact Hi|].
    split; [unfold is_finished; rewrite Fst, Htx, Ht, Hst; cbn [length]; apply Z.leb_le; lia|].
    split; [exact Hen|]. split; [rewrite Hsw; cbn [plan_sweeps]; lia|].
    exists new. split; [exact Hev|]. rewrite Hfl, Ht, Htg. reflexivity.
  - destruct plan as [|d plan']; cbn [length] in Hlp; [discriminate|].
    destruct same as [|sm same]; [cbn in Hls; lia|].
    destruct HS as (HT & HN & Hds & Ht & Hk0 & Hst & Htg & Hskip).
    cbn [plan_ok] in Hok. destruct Hok as (Hbl & Hbf & Hun & Hcv & Hbud & Hok').
    cbn [flat_map] in He. unfold dstep_flat at 1 in He. rewrite <- !app_assoc in He.
    destruct (dmrg_step_contract A ar n (fst d) s (snd d) (flat_map dstep_flat plan' ++ erest) sm same (Some t)
                HT HN Hds Hbl Hbf He Hun Hcv Hbud Hsame)
      as (s' & Hi & Htx & Hcur & Htg' & Hds' & Hsw & Hen & Hsm & HpE & (Fk & FN & Fst & Fti & Fet & Fmx) & new & Hev & Hfl).
    { intros _. exists t. split; [reflexivity|]. rewrite Ht, nthZ_skipn by lia. rewrite Hskip. reflexivity. }
    { rewrite Ht, Hst. cbn [length]. intros; lia. }
    destruct (IH plan' s' n (k + 1) t erest same) as (sf & H2 & Hf & Hen2 & Hsw2 & new2 & Hev2 & Hfl2).
    { unfold drun_start. destruct HT as (_ & HN3 & _).
      split; [unfold dmrg_like; rewrite Fk, FN, Fst, Htx, Ht, Hst; cbn [length]; repeat split; lia|].
      split; [rewrite FN; exact HN|]. split; [exact Hds'|]. split; [rewrite Htx, Ht; reflexivity|].
      split; [lia|]. split; [rewrite Fst, Hst; cbn [length]; lia|]. split; [exact Htg'|].
      rewrite Fti. replace (k + 1 + 2) with (k + 3) by lia.
      replace (Z.to_nat (k + 3)) with (S (Z.to_nat (k + 2))) by lia.
      eapply skipn_S_tl. exact Hskip. }
    { cbn [length] in *. lia. }
    { cbn [length] in *. lia. }
    { exact Hsm. }
    { exact Hen. }
    { rewrite HpE, Fet, Hsw, Fmx. exact Hok'. }
    exists sf. cbn [plan_calls]. rewrite iter_progress_app. unfold dstep_calls. rewrite Hi. cbn [res_bind].
    split; [exact H2|]. split; [exact Hf|]. split; [exact Hen2|].
    split; [rewrite Hsw2, Hsw; cbn [plan_sweeps]; lia|].
    exists (new2 ++ new). split; [rewrite Hev2, Hev, app_assoc; reflexivity|].
    rewrite flat_map_app, Hfl2, Hfl, Ht, Htg. cbn [expected_fills rev]. reflexivity.
Qed.

Ltac sp := cbn [m_kind m_N m_steps m_times m_sweep m_l2r m_tidx m_cur m_tgt m_nl m_nr m_oc m_thr m_gap m_rf
  m_prevE m_curE m_sweeps m_etol m_maxsw o_norm o_unif o_energy o_same m_ev
  emit set_sweep set_l2r set_tidx set_cur set_tgt set_nl set_nr set_oc set_thr set_gap set_rf set_prevE
  set_curE set_sweeps set_onorm set_ounif set_oenergy set_osame].

Lemma dmrg_init (n : nat) (t0 t1 : A) (rest : list A) (same : list bool) onorm ounif oenergy etol maxsw :
  exists s0,
    mk_initial ar DMRG (Z.of_nat n + 3) (1 + Z.of_nat (length rest)) (t0 :: t1 :: rest) etol maxsw
               onorm ounif oenergy same = Ok s0 /\
    drun_start s0 n 0 t1 rest /\ m_prevE s0 = None /\ m_sweeps s0 = 0 /\ m_etol s0 = etol /\
    m_maxsw s0 = maxsw /\ o_energy s0 = oenergy /\ o_same s0 = same /\
    m_ev s0 = rev (init_events A ar t1).
Proof.
  unfold mk_initial. cbn [nthZ Z.ltb Z.compare Z.to_nat nth_error].
  replace (Z.of_nat n + 3 <? 2) with false by (symmetry; apply Z.ltb_ge; lia).
  unfold query_U, init_baths. sp.
  replace (Z.max 1 (Z.of_nat n + 3 - 1)) with (Z.of_nat n + 3 - 1) by lia.
  replace (Z.of_nat n + 3 - 1 =? Z.of_nat n + 3 - 1) with true by (symmetry; apply Z.eqb_eq; lia).
  cbn [negb res_bind]. eexists. split; [reflexivity|]. sp.
  unfold drun_start, dmrg_like, DmrgSweep.dstart, DmrgStep.dpos, MpsTdvpRun.init_events. sp.
  change (Z.to_nat (0 + 2)) with 2%nat. cbn [rev app skipn].
  repeat split; try reflexivity; try lia.
Qed.

(* API level: a DMRG run on N = n+3 sites over the target times t0 :: t1 :: rest, for every energy stream
   that splits into one plan per time step: it never fails, consumes exactly the planned energies, performs
   (#sweeps) * (2N-4) progress() calls, and records each time step exactly once, in order, at its end time --
   after the first converged sweep of that step and never before. *)
Theorem dmrg_whole_run (n : nat) (t0 t1 : A) (rest : list A) (plan : list dstep) (erest : list A)
    (same : list bool) onorm ounif etol maxsw :
  length plan = S (length rest) -> (length plan <= length same)%nat ->
  plan_ok n None etol 0 maxsw plan ->
  exists s0 sf,
    mk_initial ar DMRG (Z.of_nat n + 3) (1 + Z.of_nat (length rest)) (t0 :: t1 :: rest) etol maxsw
               onorm ounif (flat_map dstep_flat plan ++ erest) same = Ok s0 /\
    iter_progress ar (plan_calls n plan) s0 = Ok sf /\ is_finished sf = true /\
    o_energy sf = erest /\ m_sweeps sf = plan_sweeps plan /\
    exists new, m_ev sf = new ++ rev (init_events A ar t1) /\
      flat_map (@fill_of A) new = rev (expected_fills A 0 (t1 :: rest)).
Proof.
  intros Hlp Hls Hok.
  destruct (dmrg_init n t0 t1 rest same onorm ounif (flat_map dstep_flat plan ++ erest) etol maxsw)
    as (s0 & H0 & HS & HpE & Hsw & Het & Hmx & Hen & Hsm & Hev).
  destruct (dmrg_run rest plan s0 n 0 t1 erest same HS Hlp Hls Hsm Hen) as (sf & H1 & Hf & Hen1 & Hsw1 & new & Hev1 & Hfl).
  { rewrite HpE, Het, Hsw, Hmx. exact Hok. }
  exists s0, sf. split; [exact H0|]. split; [exact H1|]. split; [exact Hf|]. split; [exact Hen1|].
  split; [rewrite Hsw1, Hsw; lia|]. exists new. split; [rewrite Hev1, Hev; reflexivity|]. exact Hfl.
Qed.

(* the plan's call count in closed form: (2N-4) calls per sweep *)
Lemma plan_calls_sweeps (n : nat) (plan : list dstep) :
  Z.of_nat (plan_calls n plan) = plan_sweeps plan * (2 * Z.of_nat n + 2).
Proof.
  induction plan as [|d p IH]; [reflexivity|]. cbn [plan_calls plan_sweeps]. unfold dstep_calls.
  rewrite Nat2Z.inj_add, IH. nia.
Qed.
End P.
