(* Proofs about Model/QubitOrder.v (C03). *)
From Coq Require Import String Ascii ZArith List Bool Arith Lia.
From EV Require Import Base.Arith Model.Permutations Model.Optimiser Model.QubitOrder
  Proofs.PermutationsProofs Proofs.OptimiserProofs.
Import ListNotations.
Set Implicit Arguments.
Open Scope nat_scope.
Arguments mem : simpl never.

(* a stored value has one slot per atom *)
Definition sized (n : nat) (p : payload) : Prop :=
  match p with
  | PVec x => length x = n
  | PMat m => wf n m
  | PBits ks => Forall (fun k => String.length k = n) ks
  | POther _ => True
  end.
Definition sized_entry (n : nat) (e : entry) : Prop := Forall (sized n) (e_data e).

Lemma mapM_roundtrip : forall A B (f : A -> res B) (g : B -> res A) l,
  Forall (fun x => exists y, f x = Ok y /\ g y = Ok x) l ->
  exists l', mapM f l = Ok l' /\ mapM g l' = Ok l.
Proof.
  induction l; simpl; intros H. exists []; auto.
  inversion H; subst. destruct H2 as [y [E1 E2]]. destruct (IHl H3) as [l' [E3 E4]].
  exists (y :: l'). rewrite E1, E3. simpl. rewrite E2, E4. auto.
Qed.

Lemma payload_roundtrip : forall n perm q p, is_perm n perm -> inv_permutation perm = Ok q ->
  sized n p -> exists p', permute_payload perm p = Ok p' /\ permute_payload q p' = Ok p.
Proof.
  intros n perm q p Hp Hq Hs. destruct p as [x|m|ks|x]; simpl in *.
  - destruct (inverse_undoes_permute_list x Hs Hp) as [q' [l1 [l2 [E [_ [A1 [A2 _]]]]]]].
    rewrite Hq in E. inversion E; subst q'. exists (PVec l1). simpl. unfold permute_vector.
    rewrite A1. simpl. rewrite A2. auto.
  - destruct (inverse_undoes_permute_matrix Hs Hp) as [q' [m1 [m2 [E [A1 [A2 _]]]]]].
    rewrite Hq in E. inversion E; subst q'. exists (PMat m1). rewrite A1. simpl. rewrite A2. auto.
  - destruct (@mapM_roundtrip _ _ (fun k => permute_string k perm) (fun k => permute_string k q) ks)
      as [ks' [E1 E2]].
    { eapply Forall_impl; [|exact Hs]. intros k Hk. simpl in Hk.
      destruct (inverse_undoes_permute_string k Hk Hp) as [q' [s1 [s2 [E [A1 [A2 _]]]]]].
      rewrite Hq in E. inversion E; subst q'. eauto. }
    exists (PBits ks'). rewrite E1. simpl. rewrite E2. auto.
  - exists (POther x). auto.
Qed.


(* ---------- the tag rule of _tags_with_base ---------- *)
Lemma prefix_app : forall a b, prefix a (a ++ b) = true.
Proof.
  induction a; simpl; intros b. destruct b; reflexivity.
  destruct (ascii_dec a a); [apply IHa|congruence].
Qed.

Lemma append_assoc_s : forall a b c : string, ((a ++ b) ++ c = a ++ (b ++ c))%string.
Proof. induction a; simpl; intros; [reflexivity|rewrite IHa; reflexivity]. Qed.

Lemma prefix_base_us : forall b s, prefix (b ++ "_") (b ++ "_" ++ s) = true.
Proof. intros. rewrite <- append_assoc_s. apply prefix_app. Qed.

(* an observable's own tag always has its base, whatever the suffix (empty, "-", "=", unicode, ...) *)
Lemma own_tag_has_base : forall b sfx d, tag_has_base (e_tag (MkEntry b sfx d)) b = true.
Proof.
  intros b [s|] d; unfold tag_has_base, e_tag; cbn [e_base e_suffix].
  - apply orb_true_iff. right. apply prefix_base_us.
  - rewrite String.eqb_refl. reflexivity.
Qed.

Lemma mem_In : forall s l, mem s l = true -> In s l.
Proof.
  unfold mem. intros s l H. apply existsb_exists in H. destruct H as [x [Hx E]].
  apply String.eqb_eq in E. subst. auto.
Qed.

Lemma per_atom_selected : forall b sfx d, mem b per_atom_tags = true ->
  existsb (tag_has_base (e_tag (MkEntry b sfx d))) per_atom_tags = true.
Proof.
  intros. apply existsb_exists. exists b. split. apply mem_In; auto. apply own_tag_has_base.
Qed.

(* the tags of the scalar whitelisted observables never look like a per-atom tag, whatever the suffix *)
Lemma invariant_not_selected : forall b sfx d, mem b invariant_tags = true ->
  existsb (tag_has_base (e_tag (MkEntry b sfx d))) per_atom_tags = false.
Proof.
  intros b sfx d H. apply mem_In in H. simpl in H.
  destruct H as [H|[H|[H|[H|[]]]]]; subst b; destruct sfx; reflexivity.
Qed.

Lemma allowed_tags_covered_pre : forall b, mem b allowed_permutable = true ->
  mem b per_atom_tags = true \/ mem b invariant_tags = true.
Proof.
  intros b H. unfold mem, allowed_permutable in H. rewrite existsb_app in H.
  apply orb_true_iff in H. exact H.
Qed.

Section V.
Variable v : variant.

Lemma entry_roundtrip : forall n perm q e, v_tags v = true -> is_perm n perm ->
  inv_permutation perm = Ok q -> sized_entry n e -> mem (e_base e) allowed_permutable = true ->
  exists e', to_internal_entry perm e = Ok e' /\ unpermute_entry v q e' = Ok e.
Proof.
  intros n perm q [b s d] Ht Hp Hq Hs Ha. unfold to_internal_entry, unpermute_entry, selected.
  cbn [e_base e_suffix e_data]. rewrite Ht. destruct (mem b per_atom_tags) eqn:M.
  - destruct (@mapM_roundtrip _ _ (permute_payload perm) (permute_payload q) d) as [d' [E1 E2]].
    { eapply Forall_impl; [|exact Hs]. intros p Hp'. apply (@payload_roundtrip n perm q p Hp Hq Hp'). }
    rewrite E1. cbn [res_bind]. eexists. split. reflexivity.
    rewrite (per_atom_selected b s d' M). cbn [e_base e_suffix e_data]. rewrite E2. reflexivity.
  - eexists. split. reflexivity.
    assert (I : mem b invariant_tags = true).
    { destruct (allowed_tags_covered_pre b Ha) as [H|H]; [congruence|exact H]. }
    rewrite (invariant_not_selected b s d I). reflexivity.
Qed.

(* MAIN: if the simulation stores, for every per-atom result, the value of atom perm[s] at slot s
   (and atom_order = permute_tuple(qubit_ids, perm)), then permute_results returns every result and
   the atom order in register order, whatever the tag suffixes *)
Theorem results_roundtrip : forall n perm ao es, v_tags v = true -> is_perm n perm ->
  length ao = n -> Forall (sized_entry n) es -> config_keeps_reordering (map e_base es) = true ->
  exists r', to_internal perm (ao, es) = Ok r' /\ permute_results v perm true r' = Ok (ao, es).
Proof.
  intros n perm ao es Ht Hp Hl Hs Hw.
  destruct (inv_permutation_spec Hp) as [q [Hq _]].
  destruct (@mapM_roundtrip _ _ (to_internal_entry perm) (unpermute_entry v q) es) as [es' [E1 E2]].
  { unfold config_keeps_reordering in Hw. rewrite forallb_forall in Hw.
    rewrite Forall_forall in Hs. apply Forall_forall. intros e He.
    apply (@entry_roundtrip n perm q e Ht Hp Hq (Hs e He)). apply Hw. apply in_map. exact He. }
  destruct (inverse_undoes_permute_list ao Hl Hp) as [q' [l1 [l2 [E [_ [A1 [A2 _]]]]]]].
  rewrite Hq in E. inversion E; subst q'.
  exists (l1, es'). unfold to_internal, permute_results, permute_tuple. simpl.
  rewrite E1. simpl. rewrite A1. simpl. split; auto. rewrite Hq. simpl. rewrite E2. simpl.
  rewrite A2. auto.
Qed.

Theorem every_exit_unpermutes : forall n perm ao es x, v_tags v = true -> v_resume v = true ->
  is_perm n perm -> length ao = n -> Forall (sized_entry n) es ->
  config_keeps_reordering (map e_base es) = true ->
  exists r', to_internal perm (ao, es) = Ok r' /\ exit_results v x perm true r' = Ok (ao, es).
Proof.
  intros n perm ao es x Ht Hr Hp Hl Hs Hw.
  destruct (@results_roundtrip n perm ao es Ht Hp Hl Hs Hw) as [r' [E1 E2]]. exists r'. split; auto.
  destruct x; simpl; auto. rewrite Hr. auto.
Qed.

(* routing: with the drive and mask switches on, site s receives everything from atom perm[s] *)
Theorem routing_consistent : forall n perm (m : list (list Z)) (row : list Z) (bad : list bool),
  v_drives v = true -> v_mask v = true -> is_perm n perm -> wf n m -> length row = n -> length bad = n ->
  exists m' row' bad', site_interaction perm m = Ok m' /\ site_drive v perm row = Ok row' /\
    site_bad v perm bad = Ok bad' /\
    forall s, s < n ->
      nth s row' 0%Z = nth (nth s perm 0) row 0%Z /\
      nth s bad' false = nth (nth s perm 0) bad false /\
      forall t, t < n -> nth t (nth s m' []) 0%Z = nth (nth t perm 0) (nth (nth s perm 0) m []) 0%Z.
Proof.
  intros n perm m row bad Hd Hm Hp W Hr Hb. pose proof Hp as [P1 _]. pose proof (perm_lt Hp) as PF.
  unfold site_drive, site_bad, site_interaction, permute_vector. rewrite Hd, Hm.
  rewrite (permute_list_ok 0%Z) by (rewrite Hr; auto).
  rewrite (permute_list_ok false) by (rewrite Hb; auto).
  assert (IM : exists m', (if list_nat_eqb perm (seq 0 (length m)) then Ok m else permute_matrix m perm) = Ok m'
     /\ forall s t, s < n -> t < n ->
        nth t (nth s m' []) 0%Z = nth (nth t perm 0) (nth (nth s perm 0) m []) 0%Z).
  { destruct (list_nat_eqb perm (seq 0 (length m))) eqn:E.
    - apply list_nat_eqb_spec in E. exists m. split; auto. intros s t Hs Ht.
      destruct W as [W1 _]. rewrite E, W1. rewrite !seq_nth by lia. reflexivity.
    - exists (pm 0%Z m perm). split. apply (permute_matrix_ok 0%Z W PF).
      intros s t Hs Ht. apply pm_entry; lia. }
  destruct IM as [m' [E1 E2]]. exists m', (pl 0%Z row perm), (pl false bad perm).
  repeat (split; [solve [auto]|]). intros s Hs. split; [|split].
  - apply pl_nth. lia.
  - apply pl_nth. lia.
  - intros t Ht. apply E2; auto.
Qed.
End V.

(* whitelist: every base tag that keeps the reordering on is un-permuted or has no per-atom structure *)
Theorem allowed_tags_covered : forall b, mem b allowed_permutable = true ->
  mem b per_atom_tags = true \/ mem b invariant_tags = true.
Proof. exact allowed_tags_covered_pre. Qed.

(* the prefix rule is only safe behind the whitelist: a stored result of a non-whitelisted observable whose
   tag merely starts with "occupation_" would be re-ordered although it was never permuted *)
Definition witness_probe : list string * list entry :=
  (["q0"; "q1"]%string, [MkEntry "occupation_probe" None [PVec [1%Z; 0%Z]]]).
Theorem prefix_rule_needs_whitelist :
  exists perm r r', is_perm 2 perm /\ length (fst r) = 2 /\ Forall (sized_entry 2) (snd r) /\
    config_keeps_reordering (map e_base (snd r)) = false /\
    to_internal perm r = Ok r' /\ permute_results fixed perm true r' <> Ok r.
Proof.
  exists [1; 0], witness_probe, (["q1"; "q0"]%string, [MkEntry "occupation_probe" None [PVec [1%Z; 0%Z]]]).
  split. apply is_permb_spec; reflexivity. split; auto. split.
  { repeat constructor. } split. reflexivity. split. reflexivity. vm_compute. discriminate.
Qed.

(* hostile suffixes are covered by the general theorem; a concrete instance for the record *)
Example hostile_suffixes_selected :
  forallb (fun s => existsb (tag_has_base (e_tag (MkEntry "occupation" (Some s) []))) per_atom_tags)
    [""; "t-end"; "t=1.0"; "0.5"; " "; "matrix"; "a_b"; "/+"]%string = true.
Proof. reflexivity. Qed.

(* ---------------- witnesses against the legacy variant ---------------- *)
Theorem legacy_drive_routing_refuted :
  exists perm row row' s, is_perm 2 perm /\ length row = 2 /\ s < 2 /\
    site_drive legacy perm row = Ok row' /\ nth s row' 0%Z <> nth (nth s perm 0) row 0%Z.
Proof.
  exists [1; 0], [7%Z; 0%Z], [7%Z; 0%Z], 0. split. apply is_permb_spec; reflexivity.
  repeat split; auto. simpl. discriminate.
Qed.

Theorem legacy_mask_routing_refuted :
  exists perm bad bad' s, is_perm 2 perm /\ length bad = 2 /\ s < 2 /\
    site_bad legacy perm bad = Ok bad' /\ nth s bad' false <> nth (nth s perm 0) bad false.
Proof.
  exists [1; 0], [true; false], [true; false], 0. split. apply is_permb_spec; reflexivity.
  repeat split; auto. simpl. discriminate.
Qed.

Definition witness_results : list string * list entry :=
  (["q0"; "q1"]%string, [MkEntry "occupation" (Some "b") [PVec [1%Z; 0%Z]]]).

Theorem legacy_suffixed_tag_refuted :
  exists perm r r', is_perm 2 perm /\ length (fst r) = 2 /\ Forall (sized_entry 2) (snd r) /\
    config_keeps_reordering (map e_base (snd r)) = true /\
    to_internal perm r = Ok r' /\ permute_results legacy perm true r' <> Ok r.
Proof.
  exists [1; 0], witness_results, (["q1"; "q0"]%string, [MkEntry "occupation" (Some "b") [PVec [0%Z; 1%Z]]]).
  split. apply is_permb_spec; reflexivity. split; auto. split.
  { repeat constructor. } split. reflexivity. split. reflexivity. vm_compute. discriminate.
Qed.

Definition witness_bare : list string * list entry :=
  (["q0"; "q1"]%string, [MkEntry "occupation" None [PVec [1%Z; 0%Z]]]).

Theorem legacy_resume_refuted :
  exists perm r r', is_perm 2 perm /\ length (fst r) = 2 /\ Forall (sized_entry 2) (snd r) /\
    to_internal perm r = Ok r' /\
    exit_results legacy ExitRun perm true r' = Ok r /\ exit_results legacy ExitResume perm true r' <> Ok r.
Proof.
  exists [1; 0], witness_bare, (["q1"; "q0"]%string, [MkEntry "occupation" None [PVec [0%Z; 1%Z]]]).
  split. apply is_permb_spec; reflexivity. split; auto. split.
  { repeat constructor. } split. reflexivity. split. reflexivity. vm_compute. discriminate.
Qed.
