(* Proofs about the emu-mps stepping machine (Model/MpsMachine.v); see Properties/C02.v. *)
From Coq Require Import ZArith List Bool Lia.
From EV Require Import Base.Arith Gen.Brent Model.MpsMachine.
From EV Require Import Proofs.MpsStep.
Import ListNotations.
Open Scope Z_scope.
Section P.
Variable A : Type.
Variable ar : Arith A.
Notation mstate := (mstate A).
Notation event := (event A).
Notation progress_l2r_mid := (@progress_l2r_mid A ar).
Notation progress_r2l_mid := (@progress_r2l_mid A ar).
Notation same_frame := (@same_frame A).
Notation pos := (@pos A).
Notation tdvp_like := (@tdvp_like A).
Notation l2r_block := (@l2r_block A ar).
Notation r2l_block := (@r2l_block A ar).
Notation hdt := (@hdt A ar). Notation nhdt := (@nhdt A ar). Notation dt_of := (@dt_of A ar).
Notation same_frame_refl := (@same_frame_refl A).
Notation same_frame_trans := (@same_frame_trans A).
Notation same_frame_dt := (@same_frame_dt A ar).
(* ---- iterating -------------------------------------------------------------------------- *)
Lemma iter_progress_app a b (s : mstate) :
  iter_progress ar (a + b) s = res_bind (iter_progress ar a s) (iter_progress ar b).
Proof.
  revert s; induction a as [|a IH]; intros s; cbn [iter_progress Nat.add res_bind]; [reflexivity|].
  destruct (progress ar s) as [s'| |]; cbn [res_bind]; auto.
Qed.

Fixpoint zup (i : Z) (j : nat) : list Z := match j with O => [] | S k => i :: zup (i + 1) k end.
Fixpoint zdown (i : Z) (j : nat) : list Z := match j with O => [] | S k => i :: zdown (i - 1) k end.

Lemma tdvp_like_frame s s' : same_frame s s' -> tdvp_like s -> tdvp_like s'.
Proof. unfold same_frame, tdvp_like. intros F (H1 & H2 & H3). intuition congruence. Qed.

Lemma l2r_block_frame s s' i : same_frame s s' -> l2r_block s' i = l2r_block s i.
Proof. intros F. unfold l2r_block, hdt, nhdt. rewrite (same_frame_dt _ _ F). reflexivity. Qed.
Lemma r2l_block_frame s s' i : same_frame s s' -> r2l_block s' i = r2l_block s i.
Proof. intros F. unfold r2l_block, hdt, nhdt. rewrite (same_frame_dt _ _ F). reflexivity. Qed.

Lemma l2r_phase : forall (j : nat) (s : mstate) (i : Z),
  tdvp_like s -> 0 <= i -> i + Z.of_nat j <= m_N s - 2 -> pos s i true (i + 1) (m_N s - 1 - i) i ->
  exists s', iter_progress ar j s = Ok s' /\ same_frame s s' /\
    pos s' (i + Z.of_nat j) true (i + Z.of_nat j + 1) (m_N s - 1 - i - Z.of_nat j) (i + Z.of_nat j) /\
    m_ev s' = rev (flat_map (l2r_block s) (zup i j)) ++ m_ev s.
Proof.
  induction j as [|j IH]; intros s i HT Hi Hj Hp.
  - exists s. cbn [iter_progress zup flat_map rev app]. split; [reflexivity|]. split; [apply same_frame_refl|].
    split; [|reflexivity]. replace (i + Z.of_nat 0) with i by lia. replace (m_N s - 1 - i - Z.of_nat 0) with (m_N s - 1 - i) by lia. exact Hp.
  - destruct (progress_l2r_mid s i HT ltac:(lia) Hp) as (s1 & Hs1 & F1 & P1 & E1).
    assert (HN1 : m_N s1 = m_N s) by (destruct F1 as (_ & H & _); exact H).
    destruct (IH s1 (i + 1) (tdvp_like_frame _ _ F1 HT) ltac:(lia) ltac:(rewrite HN1; lia)) as (s2 & Hs2 & F2 & P2 & E2).
    { rewrite HN1. replace (i + 1 + 1) with (i + 2) by lia. replace (m_N s - 1 - (i + 1)) with (m_N s - 2 - i) by lia. exact P1. }
    exists s2. cbn [iter_progress]. rewrite Hs1. cbn [res_bind]. split; [exact Hs2|].
    split; [eapply same_frame_trans; eassumption|]. split.
    + rewrite HN1 in P2. replace (i + Z.of_nat (S j)) with (i + 1 + Z.of_nat j) by lia.
      replace (m_N s - 1 - i - Z.of_nat (S j)) with (m_N s - 1 - (i + 1) - Z.of_nat j) by lia. exact P2.
    + rewrite E2, E1. cbn [zup flat_map]. rewrite rev_app_distr, <- app_assoc.
      f_equal. f_equal. apply flat_map_ext. intros k. apply l2r_block_frame. exact F1.
Qed.

Definition r2l_call (s : mstate) (i : Z) : list event := r2l_block s i ++ [EvSave A].

Lemma r2l_phase : forall (j : nat) (s : mstate) (i : Z),
  tdvp_like s -> i <= m_N s - 2 -> 1 <= i - Z.of_nat j -> pos s i false (i + 1) (m_N s - 1 - i) i ->
  exists s', iter_progress ar j s = Ok s' /\ same_frame s s' /\
    pos s' (i - Z.of_nat j) false (i - Z.of_nat j + 1) (m_N s - 1 - i + Z.of_nat j) (i - Z.of_nat j) /\
    m_ev s' = rev (flat_map (r2l_call s) (zdown i j)) ++ m_ev s.
Proof.
  induction j as [|j IH]; intros s i HT Hi Hj Hp.
  - exists s. cbn [iter_progress zdown flat_map rev app]. split; [reflexivity|]. split; [apply same_frame_refl|].
    split; [|reflexivity]. replace (i - Z.of_nat 0) with i by lia. replace (m_N s - 1 - i + Z.of_nat 0) with (m_N s - 1 - i) by lia. exact Hp.
  - destruct (progress_r2l_mid s i HT ltac:(lia) Hp) as (s1 & Hs1 & F1 & P1 & E1).
    assert (HN1 : m_N s1 = m_N s) by (destruct F1 as (_ & H & _); exact H).
    destruct (IH s1 (i - 1) (tdvp_like_frame _ _ F1 HT) ltac:(rewrite HN1; lia) ltac:(lia)) as (s2 & Hs2 & F2 & P2 & E2).
    { rewrite HN1. replace (i - 1 + 1) with i by lia. replace (m_N s - 1 - (i - 1)) with (m_N s - i) by lia. exact P1. }
    exists s2. cbn [iter_progress]. rewrite Hs1. cbn [res_bind]. split; [exact Hs2|].
    split; [eapply same_frame_trans; eassumption|]. split.
    + rewrite HN1 in P2. replace (i - Z.of_nat (S j)) with (i - 1 - Z.of_nat j) by lia.
      replace (m_N s - 1 - i + Z.of_nat (S j)) with (m_N s - 1 - (i - 1) + Z.of_nat j) by lia. exact P2.
    + rewrite E2, E1. cbn [zdown flat_map]. unfold r2l_call at 2. rewrite rev_app_distr, <- app_assoc.
      rewrite rev_app_distr. cbn [rev app]. f_equal. f_equal.
      apply flat_map_ext. intros k. unfold r2l_call. rewrite (r2l_block_frame _ _ k F1). reflexivity.
Qed.
End P.
