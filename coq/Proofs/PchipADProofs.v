(* C30: definedness of the reverse-mode gradient of PCHIP1D (Model/PchipAD.v).
   R instance: every division of the forward and of the backward pass divides by one of [pchip_divisors];
   with the 'double where' (fixed = true) all of them are non-zero for strictly increasing knots, for every
   number of knots, all values y, all query points and all seeds.  For the source as it is (fixed = false)
   this is refuted: a flat segment next to an interior knot is a divisor (R instance), and in binary64 the
   gradient is NaN (float instance, by evaluation). *)
From Coq Require Import ZArith Reals List Bool Lra Lia.
From Coq Require Import PrimFloat.
From EV Require Import Base.Arith Model.Pchip Model.PchipAD.
From EV Require Proofs.PchipProofs.   (* only same_sign_mask_R: the sign test of Model/Pchip.v over R *)
Import ListNotations.
Open Scope R_scope.

Notation RA := R_arith.

Definition div_ok (i : instr R) : Prop := match i with IDiv _ _ _ vb => vb <> 0 | _ => True end.

(* [m] only appends instructions whose divisors are non-zero *)
Definition safe {X} (m : M R X) : Prop :=
  forall s, exists new, snd (snd (m s)) = new ++ snd s /\ Forall div_ok new.

Lemma safe_ret {X} (x : X) : safe (ret x).
Proof. intros s. exists []. split; [reflexivity | constructor]. Qed.

Lemma safe_bind {X Y} (m : M R X) (k : X -> M R Y) : safe m -> (forall x, safe (k x)) -> safe (bind m k).
Proof.
  intros Hm Hk s. unfold bind. destruct (Hm s) as [n1 [E1 F1]]. destruct (m s) as [x s'] eqn:Em.
  destruct (Hk x s') as [n2 [E2 F2]]. exists (n2 ++ n1). simpl in E1. split.
  - rewrite E2, E1. apply app_assoc.
  - apply Forall_app. split; assumption.
Qed.

Lemma safe_push i v : div_ok i -> safe (push i v).
Proof. intros H s. exists [i]. split; [reflexivity | constructor; [assumption | constructor]]. Qed.

Lemma safe_leaf v : safe (leaf v). Proof. apply safe_push. exact I. Qed.
Lemma safe_const v : safe (const v). Proof. apply safe_push. exact I. Qed.
Lemma safe_add x y : safe (add RA x y). Proof. apply safe_push. exact I. Qed.
Lemma safe_sub x y : safe (sub RA x y). Proof. apply safe_push. exact I. Qed.
Lemma safe_mul x y : safe (mul RA x y). Proof. apply safe_push. exact I. Qed.
Lemma safe_where c x y : safe (@where_ R c x y). Proof. apply safe_push. exact I. Qed.
Lemma safe_div x y : snd y <> 0 -> safe (div RA x y).
Proof. intros H. apply safe_push. exact H. Qed.

Ltac safe_step :=
  first [ apply safe_ret | apply safe_leaf | apply safe_const | apply safe_add | apply safe_sub
        | apply safe_mul | apply safe_where ].

(* ---- helper inequalities ------------------------------------------------------------------------ *)
Lemma div_pos_neg a b : 0 < a -> b < 0 -> a / b < 0.
Proof.
  intros Ha Hb. unfold Rdiv. pose proof (Rinv_lt_0_compat b Hb).
  replace (a * / b) with (- (a * - / b)) by ring.
  assert (0 < a * - / b) by (apply Rmult_lt_0_compat; lra). lra.
Qed.
Lemma div_pos_pos a b : 0 < a -> 0 < b -> 0 < a / b.
Proof. intros. apply Rdiv_lt_0_compat; assumption. Qed.

Lemma same_sign_sum a b dl dr : 0 < a -> 0 < b -> 0 < dl * dr -> a / dl + b / dr <> 0.
Proof.
  intros Ha Hb Hp.
  destruct (Rtotal_order dl 0) as [Hl | [Hl | Hl]].
  - assert (dr < 0). { destruct (Rtotal_order dr 0) as [H | [H | H]]; [exact H | subst; lra |].
      assert (dl * dr < 0) by (replace (dl * dr) with (- ((- dl) * dr)) by ring;
        assert (0 < (- dl) * dr) by (apply Rmult_lt_0_compat; lra); lra). lra. }
    pose proof (div_pos_neg a dl Ha Hl). pose proof (div_pos_neg b dr Hb H). lra.
  - subst. lra.
  - assert (0 < dr). { destruct (Rtotal_order dr 0) as [H | [H | H]]; [| subst; lra | exact H].
      assert (dl * dr < 0) by (replace (dl * dr) with (- (dl * (- dr))) by ring;
        assert (0 < dl * (- dr)) by (apply Rmult_lt_0_compat; lra); lra). lra. }
    pose proof (div_pos_pos a dl Ha Hl). pose proof (div_pos_pos b dr Hb H). lra.
Qed.

Lemma prod_pos_nz_l dl dr : 0 < dl * dr -> dl <> 0.
Proof. intros H E. subst. lra. Qed.
Lemma prod_pos_nz_r dl dr : 0 < dl * dr -> dr <> 0.
Proof. intros H E. subst. lra. Qed.

(* ---- the builder functions ------------------------------------------------------------------------ *)
Lemma safe_whm dl dr hl hr :
  snd dl <> 0 -> snd dr <> 0 -> (hl + 2 * hr) / snd dl + (2 * hl + hr) / snd dr <> 0 ->
  safe (b_whm RA dl dr hl hr).
Proof.
  intros H1 H2 H3 s. unfold b_whm, bind, const, div, add, push. simpl.
  eexists [_; _; _; _; _; _; _]. split; [reflexivity|].
  repeat constructor; simpl; assumption.
Qed.

(* the fixed interior slope, concretely (straight-line code: evaluate the recording) *)
Lemma safe_interior_slope_fixed dl dr hl hr : 0 < hl -> 0 < hr -> safe (b_interior_slope RA true dl dr hl hr).
Proof.
  intros Hl Hr s. unfold b_interior_slope. rewrite PchipProofs.same_sign_mask_R.
  unfold b_whm, bind, const, div, add, where_, push. simpl.
  eexists [_; _; _; _; _; _; _; _; _; _; _; _; _]. split; [reflexivity|].
  destruct (Rltb 0 (snd dl * snd dr)) eqn:Em.
  - apply Rltb_true in Em. repeat constructor; simpl.
    + apply same_sign_sum; lra.
    + eapply prod_pos_nz_r; eassumption.
    + eapply prod_pos_nz_l; eassumption.
  - repeat constructor; simpl; lra.
Qed.

Lemma b_interior_eq f hl hr hs' dl dr ds' :
  b_interior RA f (hl :: hr :: hs') (dl :: dr :: ds') =
  bind (b_interior_slope RA f dl dr hl hr)
       (fun d => bind (b_interior RA f (hr :: hs') (dr :: ds')) (fun r => ret (d :: r))).
Proof. reflexivity. Qed.
Lemma b_secants_eq y0 y1 t h hs' :
  b_secants RA (y0 :: y1 :: t) (h :: hs') =
  bind (sub RA y1 y0) (fun dy => bind (const h) (fun hc => bind (div RA dy hc)
       (fun d => bind (b_secants RA (y1 :: t) hs') (fun r => ret (d :: r))))).
Proof. reflexivity. Qed.
Lemma b_coeffs_eq y0 ys' h hs' s ss' d0 d1 dd' :
  b_coeffs RA (y0 :: ys') (h :: hs') (s :: ss') (d0 :: d1 :: dd') =
  bind (b_coeff RA y0 h s d0 d1) (fun p => bind (b_coeffs RA ys' hs' ss' (d1 :: dd')) (fun r => ret (p :: r))).
Proof. reflexivity. Qed.

Lemma safe_interior_fixed hs : Forall (fun h => 0 < h) hs -> forall ds, safe (b_interior RA true hs ds).
Proof.
  induction hs as [|hl hs IH]; intros Hp ds; [destruct ds; apply safe_ret|].
  destruct hs as [|hr hs']; [destruct ds; apply safe_ret|].
  destruct ds as [|dl [|dr ds']]; try apply safe_ret.
  rewrite b_interior_eq. inversion Hp as [|? ? Hl Hp']; subst. inversion Hp' as [|? ? Hr _]; subst.
  apply safe_bind; [apply safe_interior_slope_fixed; assumption | intros d].
  apply safe_bind; [apply IH; assumption | intros r; apply safe_ret].
Qed.

(* [const v] followed by a division by it *)
Lemma safe_const_div (x : hd R) v {Y} (k : hd R -> M R Y) :
  v <> 0 -> (forall d, safe (k d)) -> safe (bind (const v) (fun c => bind (div RA x c) k)).
Proof.
  intros Hv Hk s. unfold bind at 1 2. unfold const, div, push. simpl.
  destruct (Hk (S (fst s), snd x / v) (S (S (fst s)), IDiv (fst x) (fst s) (snd x) v :: IConst v :: snd s))
    as [n2 [E2 F2]].
  exists (n2 ++ [IDiv (fst x) (fst s) (snd x) v; IConst v]). split.
  - rewrite E2. simpl. rewrite <- app_assoc. reflexivity.
  - apply Forall_app. split; [assumption|]. repeat constructor. exact Hv.
Qed.

Lemma safe_secants hs : Forall (fun h => 0 < h) hs -> forall ys, safe (b_secants RA ys hs).
Proof.
  induction hs as [|h hs IH]; intros Hp ys.
  - destruct ys as [|y0 [|y1 t]]; apply safe_ret.
  - destruct ys as [|y0 [|y1 t]]; try apply safe_ret.
    rewrite b_secants_eq. inversion Hp as [|? ? Hh Hp']; subst.
    apply safe_bind; [apply safe_sub | intros dy].
    apply safe_const_div; [lra | intros d].
    apply safe_bind; [apply IH; assumption | intros r; apply safe_ret].
Qed.

Lemma safe_endpoint_slope dl dr hl hr : 0 < hl -> 0 < hr -> safe (b_endpoint_slope RA dl dr hl hr).
Proof.
  intros Hl Hr. unfold b_endpoint_slope.
  apply safe_bind; [apply safe_const | intros w1]. apply safe_bind; [apply safe_mul | intros m1].
  apply safe_bind; [apply safe_const | intros chl]. apply safe_bind; [apply safe_mul | intros m2].
  apply safe_bind; [apply safe_sub | intros s0].
  intros s. destruct (safe_const_div s0 (hl + hr) (fun d => ret d) ltac:(simpl; lra) (fun d => safe_ret d) s)
    as [n [E F]].
  exists n. split; [|exact F]. rewrite <- E. reflexivity.
Qed.

Lemma safe_limit_endpoint d sl sr : safe (b_limit_endpoint RA d sl sr).
Proof.
  unfold b_limit_endpoint.
  apply safe_bind; [apply safe_const | intros zz]. apply safe_bind; [apply safe_where | intros d1].
  apply safe_bind; [apply safe_const | intros k3]. apply safe_bind; [apply safe_mul | intros t].
  apply safe_where.
Qed.

Lemma safe_end_slope hs ds : Forall (fun h => 0 < h) hs -> safe (b_end_slope RA hs ds).
Proof.
  intros Hp. unfold b_end_slope.
  destruct hs as [|h0 [|h1 hs']]; try apply safe_const.
  destruct ds as [|s0 [|s1 ds']]; try apply safe_const.
  inversion Hp as [|? ? H0 Hp']; subst. inversion Hp' as [|? ? H1 _]; subst.
  apply safe_bind; [apply safe_endpoint_slope; assumption | intros d; apply safe_limit_endpoint].
Qed.

Lemma safe_derivs_fixed hs ds : Forall (fun h => 0 < h) hs -> safe (b_derivs RA true hs ds).
Proof.
  intros Hp. unfold b_derivs. destruct ds as [|s0 [|s1 ds']]; try apply safe_ret.
  apply safe_bind; [apply safe_interior_fixed; assumption | intros mid].
  apply safe_bind; [apply safe_end_slope; assumption | intros d0].
  apply safe_bind; [apply safe_end_slope; apply Forall_rev; assumption | intros dn].
  apply safe_ret.
Qed.

Lemma safe_coeff y0 h s d0 d1 : 0 < h -> safe (b_coeff RA y0 h s d0 d1).
Proof.
  intros Hh. unfold b_coeff.
  apply safe_bind; [apply safe_const | intros k3]. apply safe_bind; [apply safe_mul | intros a1].
  apply safe_bind; [apply safe_const | intros k2]. apply safe_bind; [apply safe_mul | intros a2].
  apply safe_bind; [apply safe_sub | intros a3]. apply safe_bind; [apply safe_sub | intros a4].
  apply safe_const_div; [lra | intros p2].
  apply safe_bind; [apply safe_add | intros b1].
  apply safe_bind; [apply safe_const | intros k2']. apply safe_bind; [apply safe_mul | intros b2].
  apply safe_bind; [apply safe_sub | intros b3].
  apply safe_const_div; [simpl; apply Rgt_not_eq; apply Rmult_lt_0_compat; assumption | intros p3].
  apply safe_ret.
Qed.

Lemma safe_coeffs hs : Forall (fun h => 0 < h) hs -> forall ys ss dd, safe (b_coeffs RA ys hs ss dd).
Proof.
  induction hs as [|h hs IH]; intros Hp ys ss dd.
  - destruct ys; [apply safe_ret|]. simpl. apply safe_ret.
  - destruct ys as [|y0 ys']; [apply safe_ret|].
    destruct ss as [|s ss']; [apply safe_ret|].
    destruct dd as [|d0 [|d1 dd']]; try apply safe_ret.
    rewrite b_coeffs_eq. inversion Hp as [|? ? Hh Hp']; subst.
    apply safe_bind; [apply safe_coeff; assumption | intros p].
    apply safe_bind; [apply IH; assumption | intros r; apply safe_ret].
Qed.

Lemma safe_horner p t : safe (b_horner RA p t).
Proof.
  destruct p as [[[p0 p1] p2] p3]. unfold b_horner.
  apply safe_bind; [apply safe_const | intros ct]. apply safe_bind; [apply safe_mul | intros m1].
  apply safe_bind; [apply safe_add | intros a1]. apply safe_bind; [apply safe_mul | intros m2].
  apply safe_bind; [apply safe_add | intros a2]. apply safe_bind; [apply safe_mul | intros m3].
  apply safe_add.
Qed.

Lemma safe_eval xs : forall ps q, safe (b_eval RA xs ps q).
Proof.
  induction xs as [|x0 xs IH]; intros ps q; [apply safe_const|].
  destruct ps as [|p ps']; [apply safe_const|]. cbn [b_eval].
  destruct xs as [|x1 xs']; [apply safe_horner|].
  destruct ps' as [|p' ps'']; [apply safe_horner|].
  destruct (a_leb RA x1 q); [apply IH | apply safe_horner].
Qed.

Lemma safe_evals xs ps qs : safe (b_evals RA xs ps qs).
Proof.
  induction qs as [|q t IH]; [apply safe_ret|]. cbn [b_evals].
  apply safe_bind; [apply safe_eval | intros o0].
  apply safe_bind; [exact IH | intros r; apply safe_ret].
Qed.

Lemma safe_leaves ys : safe (leaves ys).
Proof.
  induction ys as [|y t IH]; [apply safe_ret|]. cbn [leaves].
  apply safe_bind; [apply safe_leaf | intros h].
  apply safe_bind; [exact IH | intros r; apply safe_ret].
Qed.

Lemma diffs_pos xs : strictly_increasing RA xs = true -> Forall (fun h => 0 < h) (diffs RA xs).
Proof.
  induction xs as [|x0 xs IH]; [constructor|]. destruct xs as [|x1 xs']; [constructor|].
  cbn [strictly_increasing diffs]. intros H. apply andb_prop in H. destruct H as [H1 H2].
  constructor; [| apply IH; exact H2]. simpl in H1. apply Rltb_true in H1. simpl. lra.
Qed.

Lemma safe_pchip_fixed xs ys qs : strictly_increasing RA xs = true -> safe (b_pchip RA true xs ys qs).
Proof.
  intros Hx. pose proof (diffs_pos xs Hx) as Hp. unfold b_pchip.
  apply safe_bind; [apply safe_leaves | intros yh].
  apply safe_bind; [apply safe_secants; assumption | intros ss].
  apply safe_bind; [apply safe_derivs_fixed; assumption | intros dd].
  apply safe_bind; [apply safe_coeffs; assumption | intros ps].
  apply safe_bind; [apply safe_evals | intros outs; apply safe_ret].
Qed.

Lemma divisors_ok l : Forall div_ok l -> Forall (fun d => d <> 0) (divisors l).
Proof.
  induction 1 as [|i l Hi _ IH]; [constructor|]. destruct i; simpl; try exact IH. constructor; assumption.
Qed.

Lemma existsb_zero_false l : Forall (fun d => d <> 0) l -> existsb (fun d => a_eqb RA d (c0 RA)) l = false.
Proof.
  induction 1 as [|d l Hd _ IH]; [reflexivity|]. cbn [existsb]. rewrite IH.
  assert (E : a_eqb RA d (c0 RA) = false) by (apply (proj2 (Reqb_false d 0)); exact Hd).
  rewrite E. reflexivity.
Qed.

(* pchip_grad_defined, variant with the double where: for every number of knots *)
Theorem pchip_grad_defined_fixed xs ys qs ws :
  length xs = length ys -> (2 <= length xs)%nat -> strictly_increasing RA xs = true ->
  pchip_vjp_checked RA true xs ys qs ws = Ok (pchip_vjp RA true xs ys qs ws).
Proof.
  intros Hl Hn Hx. unfold pchip_vjp_checked.
  rewrite Hl, Nat.eqb_refl. cbn [negb].
  replace (Nat.ltb (length ys) 2) with false by (symmetry; apply Nat.ltb_ge; lia).
  rewrite Hx. cbn [negb].
  destruct (safe_pchip_fixed xs ys qs Hx (0%nat, [])) as [new [E F]].
  unfold pchip_divisors, record. rewrite E, app_nil_r.
  rewrite (existsb_zero_false _ (divisors_ok _ F)). reflexivity.
Qed.

(* ---- the source as it is: refuted ---------------------------------------------------------------------- *)
(* R instance: knots 0,1,2,3, values 0,1,1,0: the secant of the flat segment is a divisor *)
Lemma Rltb_t x y : x < y -> Rltb x y = true. Proof. apply Rltb_true. Qed.

Theorem pchip_faithful_divides_by_zero :
  pchip_vjp_checked RA false [0; 1; 2; 3] [0; 1; 1; 0] [] [] = Err 10%Z.
Proof.
  unfold pchip_vjp_checked. cbn [length Nat.eqb negb Nat.ltb Nat.leb].
  assert (Hs : strictly_increasing RA [0; 1; 2; 3] = true).
  { cbv -[Rltb IZR]. rewrite !Rltb_t by lra. reflexivity. }
  rewrite Hs. cbn [negb].
  assert (He : existsb (fun d => a_eqb RA d (c0 RA)) (pchip_divisors RA false [0; 1; 2; 3] [0; 1; 1; 0] []) = true).
  { apply existsb_exists. exists ((1 - 1) / (2 - 1)). split.
    - cbv -[Rplus Rminus Rmult Rdiv Rinv Ropp Rabs Rltb Rleb Reqb IZR In]. cbv [In].
      repeat (first [left; reflexivity | right]).
    - apply (proj2 (Reqb_true ((1 - 1) / (2 - 1)) 0)). lra. }
  rewrite He. reflexivity.
Qed.

(* float instance (IEEE binary64, what torch computes): the gradient of the same data is NaN *)
Open Scope float_scope.
Definition f_nan (x : float) : bool := negb (PrimFloat.eqb x x).
Definition f_finite (x : float) : bool := PrimFloat.ltb (PrimFloat.abs x) infinity.

Theorem pchip_grad_nan_float :
  let xs := [0; 1; 2; 3] in let ys := [0; 1; 1; 0] in let qs := [0.5; 1.5; 2.5] in let ws := [1; 1; 1] in
  strictly_increasing float_arith xs = true /\
  forallb f_finite (pchip_fwd float_arith false xs ys qs) = true /\
  map f_nan (pchip_vjp float_arith false xs ys qs ws) = [false; true; true; false].
Proof. vm_compute. repeat split. Qed.

(* with the double where the same gradient is finite, and the forward values are the same *)
Theorem pchip_grad_finite_float_fixed :
  let xs := [0; 1; 2; 3] in let ys := [0; 1; 1; 0] in let qs := [0.5; 1.5; 2.5] in let ws := [1; 1; 1] in
  forallb f_finite (pchip_vjp float_arith true xs ys qs ws) = true /\
  pchip_fwd float_arith true xs ys qs = pchip_fwd float_arith false xs ys qs.
Proof. vm_compute. repeat split. Qed.
