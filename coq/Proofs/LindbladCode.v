(* C16: the generic Lindblad algebra (Proofs/LindbladAlg.v) instantiated for the concrete objects of the code
   model (Model/SvHam.v): H_eff of RydbergLindbladian and its single-site jump operators, every N, every
   list of 2x2 jump matrices.  Main results: the anti-Hermitian part of the code's H_eff is exactly
   -i/2 * 2 * sum_J J^dagger J, hence the output of lind_matmul is trace free (and anti-Hermitian). *)
From Coq Require Import List Arith Bool Lia Ring.
From EV Require Import Model.SvBase Model.SvHam Proofs.SvBaseProofs Proofs.SvHamProofs Proofs.SvLindProofs Proofs.LindbladAlg.
Import ListNotations.

Section LindCode.
Variable o : Kops.
Hypothesis laws : Klaws o.
Add Ring KrLC : (K_ring o laws).
Open Scope K_scope.
Notation zero := (k0 o).
Notation one := (k1 o).
Notation cj := (kconj o).
Notation L := (list o).

(* ---- 2x2 entries ---------------------------------------------------------------------------------- *)
Lemma m2mH_entry (h : M2 o) b b' : b < 2 -> b' < 2 -> m2 (m2mH h) b b' = cj (m2 h b' b).
Proof.
  intros. destruct h as [[[h00 h01] h10] h11]. unfold m2mH, m2tab.
  destruct b as [|[|b]]; [| |lia]; destruct b' as [|[|b']]; try lia; reflexivity.
Qed.

Lemma m2tab_entry (f : nat -> nat -> o) b b' : b < 2 -> b' < 2 -> m2 (m2tab f) b b' = f b b'.
Proof.
  intros. unfold m2tab.
  destruct b as [|[|b]]; [| |lia]; destruct b' as [|[|b']]; try lia; reflexivity.
Qed.

Lemma m2mul_entry (x y : M2 o) b b' : b < 2 -> b' < 2 ->
  m2 (m2mul x y) b b' = m2 x b 0 * m2 y 0 b' + m2 x b 1 * m2 y 1 b'.
Proof. intros. unfold m2mul. rewrite m2tab_entry by assumption. ring. Qed.

(* ---- single-site operators: adjoint and product ------------------------------------------------------ *)
Theorem site_dag N q h r c : dag o (site o N q h) r c = site o N q (m2mH h) r c.
Proof.
  unfold dag, site. rewrite (conj_kif o laws), (same_except_sym N q c r).
  rewrite m2mH_entry by apply bit_lt. reflexivity.
Qed.

Lemma same_except_setbit_l N q r b c : b < 2 ->
  same_except N q (setbit N q r b) c = same_except N q r c.
Proof. intros. unfold same_except. rewrite co0_setbit, co2_setbit by assumption. reflexivity. Qed.

Lemma site_setbit_l N q B r b c : b < 2 ->
  site o N q B (setbit N q r b) c = kif (same_except N q r c) (m2 B b (bit N q c)).
Proof. intros. unfold site. rewrite same_except_setbit_l, bit_setbit by assumption. reflexivity. Qed.

Theorem site_mul N q A B r c : q < N -> r < 2 ^ N -> c < 2 ^ N ->
  mmul o (2 ^ N) (site o N q A) (site o N q B) r c = site o N q (m2mul A B) r c.
Proof.
  intros Hq Hr Hc. unfold mmul.
  rewrite (site_apply_dense o laws N q A (fun k => site o N q B k c) r Hq Hr).
  unfold site_apply. rewrite !site_setbit_l by lia.
  unfold site. rewrite m2mul_entry by apply bit_lt.
  destruct (same_except N q r c); simpl; ring.
Qed.

(* ---- small sum lemmas ------------------------------------------------------------------------------ *)
Lemma ksum_map {A B} (g : A -> B) (l : list A) (f : B -> o) : ksum (map g l) f = ksum l (fun a => f (g a)).
Proof. induction l as [|a l IH]; simpl; [reflexivity | rewrite IH; reflexivity]. Qed.

Lemma ksum_flat_map {A B} (g : A -> list B) (l : list A) (f : B -> o) :
  ksum (flat_map g l) f = ksum l (fun a => ksum (g a) f).
Proof. induction l as [|a l IH]; simpl; [reflexivity | rewrite (ksum_app o laws), IH; reflexivity]. Qed.

Lemma ksum_kif {A} (l : list A) b (f : A -> o) : ksum l (fun a => kif b (f a)) = kif b (ksum l f).
Proof. destruct b; simpl; [reflexivity | apply (ksum_zero o laws)]. Qed.

Lemma mmul_ext D (A A' B B' : nat -> nat -> o) r c :
  (forall k, k < D -> A r k = A' r k) -> (forall k, k < D -> B k c = B' k c) ->
  mmul o D A B r c = mmul o D A' B' r c.
Proof.
  intros HA HB. unfold mmul. apply (ksumn_ext o). intros k Hk. rewrite HA, HB by assumption. reflexivity.
Qed.

(* ---- the jump operators of the code: every 2x2 matrix of Ls on every qubit ----------------------------- *)
Definition code_jumps (N : nat) (Ls : list (M2 o)) : list (nat -> nat -> o) :=
  flat_map (fun q => map (site o N q) Ls) (seq 0 N).

Lemma JdJ_code N Ls r c : r < 2 ^ N -> c < 2 ^ N ->
  JdJ o (2 ^ N) (code_jumps N Ls) r c =
  ksumn N (fun q => kif (same_except N q r c)
                      (ksum Ls (fun Lk => m2 (m2mul (m2mH Lk) Lk) (bit N q r) (bit N q c)))).
Proof.
  intros Hr Hc. unfold JdJ, code_jumps. rewrite ksum_flat_map. unfold ksumn.
  apply (ksum_ext o). intros q Hq. apply in_seq in Hq.
  rewrite ksum_map. rewrite <- ksum_kif. apply (ksum_ext o). intros Lk _.
  rewrite (mmul_ext (2 ^ N) (dag o (site o N q Lk)) (site o N q (m2mH Lk)) (site o N q Lk) (site o N q Lk) r c).
  - rewrite site_mul by lia. reflexivity.
  - intros; apply site_dag.
  - reflexivity.
Qed.

Lemma jump_sum_code N Ls rho r c :
  jump_sum o (2 ^ N) (code_jumps N Ls) rho r c =
  ksumn N (fun q => ksum Ls (fun Lk =>
     mmul o (2 ^ N) (mmul o (2 ^ N) (site o N q Lk) rho) (dag o (site o N q Lk)) r c)).
Proof.
  unfold jump_sum, code_jumps. rewrite ksum_flat_map. unfold ksumn.
  apply (ksum_ext o). intros q _. rewrite ksum_map. reflexivity.
Qed.

(* ---- anti-Hermitian part of the 2x2 ingredients --------------------------------------------------------- *)
Lemma noise_antiherm Ls b b' : b < 2 -> b' < 2 ->
  m2 (compute_noise o Ls) b b' - cj (m2 (compute_noise o Ls) b' b) =
  - (kI o * ksum Ls (fun Lk => m2 (m2mul (m2mH Lk) Lk) b b')).
Proof.
  intros Hb Hb'. rewrite !(compute_noise_spec o laws) by assumption.
  rewrite (conj_mul o laws), (conj_opp o laws), (conj_mul o laws), (conj_half o laws), (conj_I o laws),
          (ksum_conj o laws).
  rewrite (ksum_ext o Ls (fun Lk => m2 (m2mul (m2mH Lk) Lk) b b')
             (fun Lk => cj (m2 Lk 0 b) * m2 Lk 0 b' + cj (m2 Lk 1 b) * m2 Lk 1 b')).
  2:{ intros Lk _. rewrite m2mul_entry by assumption. rewrite !m2mH_entry by lia. reflexivity. }
  rewrite (ksum_ext o Ls (fun a => cj (cj (m2 a 0 b') * m2 a 0 b + cj (m2 a 1 b') * m2 a 1 b))
             (fun Lk => cj (m2 Lk 0 b) * m2 Lk 0 b' + cj (m2 Lk 1 b) * m2 Lk 1 b')).
  2:{ intros Lk _. rewrite (conj_add o laws), !(conj_mul o laws), !(conj_inv o laws). ring. }
  set (X := ksum Ls (fun Lk => cj (m2 Lk 0 b) * m2 Lk 0 b' + cj (m2 Lk 1 b) * m2 Lk 1 b')).
  transitivity (- ((khalf o + khalf o) * kI o * X)); [ring|].
  rewrite (half_half o laws). ring.
Qed.

Lemma local_antiherm (cplx : bool) (w d cs sn : o) (S : M2 o) b b' :
  cj w = w -> cj d = d -> cj cs = cs -> cj sn = sn -> b < 2 -> b' < 2 ->
  m2 (local_terms o cplx w d cs sn S) b b' - cj (m2 (local_terms o cplx w d cs sn S) b' b) =
  m2 S b b' - cj (m2 S b' b).
Proof.
  intros Hw Hd Hcs Hsn Hb Hb'. rewrite (local_terms_spec o laws). cbv zeta.
  set (cs' := if cplx then cs else one). set (sn' := if cplx then sn else zero).
  assert (H1 : cj cs' = cs') by (unfold cs'; destruct cplx; [assumption | apply (conj_1 o laws)]).
  assert (H2 : cj sn' = sn') by (unfold sn'; destruct cplx; [assumption | apply (conj_0 o laws)]).
  destruct S as [[[s00 s01] s10] s11].
  destruct b as [|[|b]]; [| |lia]; destruct b' as [|[|b']]; try lia; cbn [m2];
  repeat (rewrite (conj_add o laws) || rewrite (conj_mul o laws) || rewrite (conj_sub o laws) ||
          rewrite (conj_opp o laws) || rewrite (conj_I o laws));
  rewrite ?Hw, ?Hd, ?H1, ?H2; ring.
Qed.

(* ---- H_eff - H_eff^dagger = -i sum_J J^dagger J for the code's H_eff and jump operators ---------------- *)
Theorem code_heff_antihermitian_part N (cplx : bool) (omh delta cosphi sinphi : L) (U : list (list o))
        (Ls : list (M2 o)) :
  (forall n, cj (get omh n) = get omh n) ->
  (forall n, cj (get delta n) = get delta n) ->
  (forall n, cj (get cosphi n) = get cosphi n) ->
  (forall n, cj (get sinphi n) = get sinphi n) ->
  (forall i j, cj (getU o U i j) = getU o U i j) ->
  let Heff := Hdense o N (heff_site o cplx omh delta cosphi sinphi (compute_noise o Ls)) (Uint o N U) in
  let Js := flat_map (fun q => map (site o N q) Ls) (seq 0 N) in
  forall r c, r < 2 ^ N -> c < 2 ^ N ->
    Heff r c - dag o Heff r c = - (kI o * JdJ o (2 ^ N) Js r c).
Proof.
  intros Ho Hd Hcs Hsn HU Heff Js r c Hr Hc. unfold Js. fold (code_jumps N Ls).
  rewrite JdJ_code by assumption.
  unfold Heff, dag, Hdense.
  rewrite (conj_add o laws), (conj_kif o laws), (Uint_real o laws N U HU).
  unfold ksumn. rewrite (ksum_conj o laws).
  set (h := heff_site o cplx omh delta cosphi sinphi (compute_noise o Ls)).
  transitivity (ksum (seq 0 N) (fun n => site o N n (h n) r c - cj (site o N n (h n) c r))).
  { rewrite (ksum_sub o laws). rewrite (Nat.eqb_sym c r).
    destruct (Nat.eqb_spec r c) as [E|E]; [subst c|]; simpl; ring. }
  set (F := fun q => kif (same_except N q r c)
                   (ksum Ls (fun Lk => m2 (m2mul (m2mH Lk) Lk) (bit N q r) (bit N q c)))).
  transitivity ((- kI o) * ksum (seq 0 N) F); [|ring].
  rewrite <- (ksum_mul_l o laws). apply (ksum_ext o). intros q _. unfold F.
  change (cj (site o N q (h q) c r)) with (dag o (site o N q (h q)) r c).
  rewrite site_dag. unfold site. rewrite m2mH_entry by apply bit_lt.
  destruct (same_except N q r c); cbn [kif]; [|ring].
  unfold h, heff_site. rewrite local_antiherm by (auto; apply bit_lt).
  rewrite noise_antiherm by apply bit_lt. ring.
Qed.

(* ---- lind_matmul = lindG of the code's H_eff and jump operators ----------------------------------------- *)
Lemma halve_real (omega : L) : (forall n, cj (get omega n) = get omega n) ->
  forall n, cj (get (halve o omega) n) = get (halve o omega) n.
Proof.
  intros H n. destruct (Nat.lt_ge_cases n (length omega)) as [Hn|Hn].
  - unfold halve. rewrite (get_map o) by assumption.
    rewrite (conj_mul o laws), H, (conj_half o laws). reflexivity.
  - rewrite (get_overflow o) by (unfold halve; rewrite map_length; assumption). apply (conj_0 o laws).
Qed.

Definition code_heff (N : nat) (omega delta : L) (phinz : list bool) (cosphi sinphi : L) (U : list (list o))
           (Ls : list (M2 o)) : nat -> nat -> o :=
  Hdense o N (heff_site o (any_nonzero phinz) (halve o omega) delta cosphi sinphi (compute_noise o Ls)) (Uint o N U).

Theorem lind_matmul_is_lindG cpu N omega delta phinz cosphi sinphi U Ls (dm : L) :
  length omega = N -> length dm = (2 ^ N * 2 ^ N)%nat ->
  herm_on o (2 ^ N) (rho_of o (2 ^ N) dm) ->
  forall r c, r < 2 ^ N -> c < 2 ^ N ->
    get (lind_matmul o cpu N omega delta phinz cosphi sinphi U Ls dm) (r * 2 ^ N + c) =
    lindG o (2 ^ N) (code_heff N omega delta phinz cosphi sinphi U Ls) (code_jumps N Ls) (rho_of o (2 ^ N) dm) r c.
Proof.
  intros Lo Ld Hh r c Hr Hc.
  pose proof (lind_apply_spec o laws cpu N omega delta phinz cosphi sinphi U Ls dm Lo Ld) as Hs.
  cbv zeta in Hs. rewrite (Hs Hh r c Hr Hc).
  unfold lindG, code_heff. rewrite jump_sum_code. reflexivity.
Qed.

(* ---- the code-level theorems ------------------------------------------------------------------------------ *)
Theorem lind_matmul_trace_free cpu N omega delta phinz cosphi sinphi U Ls (dm : L) :
  length omega = N -> length dm = (2 ^ N * 2 ^ N)%nat ->
  (forall n, cj (get omega n) = get omega n) ->
  (forall n, cj (get delta n) = get delta n) ->
  (forall n, cj (get cosphi n) = get cosphi n) ->
  (forall n, cj (get sinphi n) = get sinphi n) ->
  (forall i j, cj (getU o U i j) = getU o U i j) ->
  (forall a b, a < 2 ^ N -> b < 2 ^ N -> rho_of o (2 ^ N) dm a b = cj (rho_of o (2 ^ N) dm b a)) ->
  ksumn (2 ^ N) (fun r => get (lind_matmul o cpu N omega delta phinz cosphi sinphi U Ls dm) (r * 2 ^ N + r)) = zero.
Proof.
  intros Lo Ld Ho Hd Hcs Hsn HU Hh.
  rewrite (ksumn_ext o _ _ (fun r =>
     lindG o (2 ^ N) (code_heff N omega delta phinz cosphi sinphi U Ls) (code_jumps N Ls) (rho_of o (2 ^ N) dm) r r)).
  - change (tr o (2 ^ N) (lindG o (2 ^ N) (code_heff N omega delta phinz cosphi sinphi U Ls) (code_jumps N Ls)
                            (rho_of o (2 ^ N) dm)) = zero).
    apply (lindblad_trace_free o laws). unfold code_heff, code_jumps.
    apply code_heff_antihermitian_part; try assumption. apply halve_real; assumption.
  - intros r Hr. apply lind_matmul_is_lindG; assumption.
Qed.

Theorem lind_matmul_antihermitian cpu N omega delta phinz cosphi sinphi U Ls (dm : L) :
  length omega = N -> length dm = (2 ^ N * 2 ^ N)%nat ->
  (forall a b, a < 2 ^ N -> b < 2 ^ N -> rho_of o (2 ^ N) dm a b = cj (rho_of o (2 ^ N) dm b a)) ->
  forall r c, r < 2 ^ N -> c < 2 ^ N ->
    get (lind_matmul o cpu N omega delta phinz cosphi sinphi U Ls dm) (r * 2 ^ N + c) =
    - cj (get (lind_matmul o cpu N omega delta phinz cosphi sinphi U Ls dm) (c * 2 ^ N + r)).
Proof.
  intros Lo Ld Hh r c Hr Hc.
  rewrite (lind_matmul_is_lindG cpu N omega delta phinz cosphi sinphi U Ls dm Lo Ld Hh r c Hr Hc).
  rewrite (lind_matmul_is_lindG cpu N omega delta phinz cosphi sinphi U Ls dm Lo Ld Hh c r Hc Hr).
  apply (lindG_antihermitian o laws); assumption.
Qed.

End LindCode.
