(* Fully quantified run theorems of the emu-sv step loop (derived from Proofs/SvMachineProofs.v and
   Proofs/ErrorAccum.v); restated verbatim in Properties/C01.v. *)
From Coq Require Import ZArith List Bool Reals.
From EV Require Import Base.Arith Model.SvMachine Proofs.SvMachineProofs Proofs.ErrorAccum.
Import ListNotations.

(* A whole run succeeds (no IndexError / ZeroDivisionError), its final state is the ordered fold over
   the intervals k = 0..n-1 of  stepper((t_{k+1} - t_k) * 0.001, omega[k], delta[k], phi[k], U(t_k), .),
   and the complete chronological trace is: the events of _apply_observables(0), then per interval
   [query U(t_k); stepper call; callbacks at t_{k+1}/t_n; statistics at t_{k+1}/t_n]. *)
Lemma sv_run_closed_form_full :
  forall (A : Type) (ar : Arith A) (Row UM St Hm : Type)
         (zero_row : list bool -> Row -> Row) (mask_U : list bool -> UM -> UM) (umat : A -> UM)
         (stepper : A -> Row -> Row -> Row -> UM -> St -> St * Hm)
         (get_ham : Row -> Row -> Row -> UM -> Hm) (is_eval : nat -> A -> bool)
         (P : params A Row) (s0 : St) (t0 t1 tn : A) (rest : list A) (o d p : Row) (os ds ps : list Row),
  p_times P = t0 :: t1 :: rest -> p_omega P = o :: os -> p_delta P = d :: ds -> p_phi P = p :: ps ->
  length os = length rest -> length ds = length rest -> length ps = length rest ->
  lastA (p_times P) = Some tn -> a_eqb ar tn (zero ar) = false ->
  exists sf, run ar zero_row mask_U umat stepper get_ham is_eval P s0 = Ok sf /\
    sv_state sf = fold_steps A ar Row UM St Hm zero_row mask_U umat stepper P t0 (t1 :: rest) (o :: os) (d :: ds) (p :: ps) s0 /\
    rev (sv_ev sf) =
      initial_events A ar Row UM St Hm zero_row mask_U umat get_ham is_eval P tn t0 t1 o d p s0 ++
      steps_events A ar Row UM St Hm zero_row mask_U umat stepper is_eval P tn t0 (t1 :: rest) (o :: os) (d :: ds) (p :: ps) s0.
Proof. exact run_closed_form. Qed.

(* sv_run_is_ordered_fold: the stepper calls found in the trace are exactly one per interval, in
   order, call k on the state returned by call k-1, with dt = (t_{k+1}-t_k)*0.001, row k of each drive
   table and the interaction matrix queried at the START t_k of the interval. *)
Lemma sv_run_is_ordered_fold_full :
  forall (A : Type) (ar : Arith A) (Row UM St Hm : Type)
         (zero_row : list bool -> Row -> Row) (mask_U : list bool -> UM -> UM) (umat : A -> UM)
         (stepper : A -> Row -> Row -> Row -> UM -> St -> St * Hm)
         (get_ham : Row -> Row -> Row -> UM -> Hm) (is_eval : nat -> A -> bool)
         (P : params A Row) (s0 : St) (t0 t1 tn : A) (rest : list A) (o d p : Row) (os ds ps : list Row),
  p_times P = t0 :: t1 :: rest -> p_omega P = o :: os -> p_delta P = d :: ds -> p_phi P = p :: ps ->
  length os = length rest -> length ds = length rest -> length ps = length rest ->
  lastA (p_times P) = Some tn -> a_eqb ar tn (zero ar) = false ->
  exists sf, run ar zero_row mask_U umat stepper get_ham is_eval P s0 = Ok sf /\
    sv_state sf = fold_left (fun s f => f s)
                    (step_funs A ar Row UM St Hm zero_row mask_U umat stepper P t0 (t1 :: rest) (o :: os) (d :: ds) (p :: ps)) s0 /\
    flat_map (step_of A Row UM St Hm) (rev (sv_ev sf)) =
      expected_steps A ar Row UM St Hm zero_row mask_U umat stepper P t0 (t1 :: rest) (o :: os) (d :: ds) (p :: ps) s0 /\
    length (flat_map (step_of A Row UM St Hm) (rev (sv_ev sf))) = length (t1 :: rest).
Proof.
  intros. destruct (run_closed_form A ar Row UM St Hm zero_row mask_U umat stepper get_ham is_eval
                      P s0 t0 t1 tn rest o d p os ds ps) as (sf & R1 & R2 & R3); auto.
  exists sf. split; [exact R1|]. split; [rewrite R2; apply fold_steps_funs|].
  rewrite R3, flat_map_app, initial_events_no_step, steps_events_steps, app_nil_l.
  split; [reflexivity|]. apply expected_steps_length; simpl; congruence.
Qed.

(* sv_callbacks_at_boundaries: the callback and statistics invocations found in the trace are: at
   boundary 0 the callbacks whose evaluation times contain t_0/t_n, on the initial state, with the
   Hamiltonian built from ROW 0 and U at the midpoint of the first interval; then for every k >= 0, at
   boundary k+1, the callbacks selected at t_{k+1}/t_n followed by the statistics callback, all on the
   state returned by stepper call k and the Hamiltonian object returned by that same call (row k). *)
Lemma sv_callbacks_at_boundaries_full :
  forall (A : Type) (ar : Arith A) (Row UM St Hm : Type)
         (zero_row : list bool -> Row -> Row) (mask_U : list bool -> UM -> UM) (umat : A -> UM)
         (stepper : A -> Row -> Row -> Row -> UM -> St -> St * Hm)
         (get_ham : Row -> Row -> Row -> UM -> Hm) (is_eval : nat -> A -> bool)
         (P : params A Row) (s0 : St) (t0 t1 tn : A) (rest : list A) (o d p : Row) (os ds ps : list Row),
  p_times P = t0 :: t1 :: rest -> p_omega P = o :: os -> p_delta P = d :: ds -> p_phi P = p :: ps ->
  length os = length rest -> length ds = length rest -> length ps = length rest ->
  lastA (p_times P) = Some tn -> a_eqb ar tn (zero ar) = false ->
  exists sf, run ar zero_row mask_U umat stepper get_ham is_eval P s0 = Ok sf /\
    flat_map (boundary_of A Row UM St Hm) (rev (sv_ev sf)) =
      callback_events A Row UM St Hm is_eval P (a_div ar t0 tn) s0
        (initial_ham A ar Row UM Hm zero_row mask_U umat get_ham P t0 t1 o d p) ++
      expected_boundaries A ar Row UM St Hm zero_row mask_U umat stepper is_eval P tn t0 (t1 :: rest) (o :: os) (d :: ds) (p :: ps) s0.
Proof.
  intros. destruct (run_closed_form A ar Row UM St Hm zero_row mask_U umat stepper get_ham is_eval
                      P s0 t0 t1 tn rest o d p os ds ps) as (sf & R1 & R2 & R3); auto.
  exists sf. split; [exact R1|].
  rewrite R3, flat_map_app, initial_events_boundaries, steps_events_boundaries. reflexivity.
Qed.

(* The interaction matrix is queried at the start time of every interval (t_0 .. t_{n-1}), never at
   t_n, after at most one query at the midpoint of the first interval. *)
Lemma sv_matrix_query_times_full :
  forall (A : Type) (ar : Arith A) (Row UM St Hm : Type)
         (zero_row : list bool -> Row -> Row) (mask_U : list bool -> UM -> UM) (umat : A -> UM)
         (stepper : A -> Row -> Row -> Row -> UM -> St -> St * Hm)
         (get_ham : Row -> Row -> Row -> UM -> Hm) (is_eval : nat -> A -> bool)
         (P : params A Row) (s0 : St) (t0 t1 tn : A) (rest : list A) (o d p : Row) (os ds ps : list Row),
  p_times P = t0 :: t1 :: rest -> p_omega P = o :: os -> p_delta P = d :: ds -> p_phi P = p :: ps ->
  length os = length rest -> length ds = length rest -> length ps = length rest ->
  lastA (p_times P) = Some tn -> a_eqb ar tn (zero ar) = false ->
  exists sf, run ar zero_row mask_U umat stepper get_ham is_eval P s0 = Ok sf /\
    flat_map (query_of A Row UM St Hm) (rev (sv_ev sf)) =
      flat_map (query_of A Row UM St Hm)
        (initial_events A ar Row UM St Hm zero_row mask_U umat get_ham is_eval P tn t0 t1 o d p s0) ++
      butlast A (t0 :: t1 :: rest).
Proof.
  intros. destruct (run_closed_form A ar Row UM St Hm zero_row mask_U umat stepper get_ham is_eval
                      P s0 t0 t1 tn rest o d p os ds ps) as (sf & R1 & R2 & R3); auto.
  exists sf. split; [exact R1|].
  rewrite R3, flat_map_app. f_equal. apply steps_events_queries; simpl; congruence.
Qed.

(* error_accumulation: in any space with a distance d and a norm (triangle inequalities only), if every
   exact propagator E_k is an isometry and the map S_k actually applied satisfies
   d(S_k v, E_k v) <= eps_k |v|, then after all steps the computed vector is within
   |psi| (prod_k (1 + eps_k) - 1) of the exact product applied to the same start vector. *)
Lemma error_accumulation_full :
  forall (V : Type) (d : V -> V -> R) (nrm : V -> R),
  (forall a b c, (d a c <= d a b + d b c)%R) -> (forall a b, (nrm a <= nrm b + d a b)%R) ->
  (forall a, (0 <= nrm a)%R) ->
  forall (steps : list ((V -> V) * (V -> V) * R)) (phi : V),
  Forall (good_step V d nrm) steps -> (d phi phi <= 0)%R ->
  (d (apply_all V (map (fun x => fst (fst x)) steps) phi) (apply_all V (map (fun x => snd (fst x)) steps) phi)
   <= nrm phi * (prod1 (map (@snd _ _) steps) - 1))%R.
Proof. exact error_accumulation_closed. Qed.

(* The two together: if the k-th stepper call of the run is eps_k-close to an isometry E_k, the state
   returned by the run is within |s0| (prod (1 + eps_k) - 1) of E_{n-1} ... E_0 s0. *)
Lemma sv_run_error_bound_full :
  forall (A : Type) (ar : Arith A) (Row UM St Hm : Type)
         (zero_row : list bool -> Row -> Row) (mask_U : list bool -> UM -> UM) (umat : A -> UM)
         (stepper : A -> Row -> Row -> Row -> UM -> St -> St * Hm)
         (get_ham : Row -> Row -> Row -> UM -> Hm) (is_eval : nat -> A -> bool)
         (P : params A Row) (s0 : St) (t0 t1 tn : A) (rest : list A) (o d p : Row) (os ds ps : list Row)
         (dist : St -> St -> R) (nrm : St -> R) (steps : list ((St -> St) * (St -> St) * R)),
  p_times P = t0 :: t1 :: rest -> p_omega P = o :: os -> p_delta P = d :: ds -> p_phi P = p :: ps ->
  length os = length rest -> length ds = length rest -> length ps = length rest ->
  lastA (p_times P) = Some tn -> a_eqb ar tn (zero ar) = false ->
  (forall a b c, (dist a c <= dist a b + dist b c)%R) -> (forall a b, (nrm a <= nrm b + dist a b)%R) ->
  (forall a, (0 <= nrm a)%R) -> (dist s0 s0 <= 0)%R ->
  map (fun x => fst (fst x)) steps =
    step_funs A ar Row UM St Hm zero_row mask_U umat stepper P t0 (t1 :: rest) (o :: os) (d :: ds) (p :: ps) ->
  Forall (good_step St dist nrm) steps ->
  exists sf, run ar zero_row mask_U umat stepper get_ham is_eval P s0 = Ok sf /\
    (dist (sv_state sf) (apply_all St (map (fun x => snd (fst x)) steps) s0)
     <= nrm s0 * (prod1 (map (@snd _ _) steps) - 1))%R.
Proof.
  intros until steps. intros Ht Ho Hd Hp Lo Ld Lp Hl Hz T1 T2 T3 D0 Hs G.
  destruct (run_closed_form A ar Row UM St Hm zero_row mask_U umat stepper get_ham is_eval
              P s0 t0 t1 tn rest o d p os ds ps) as (sf & R1 & R2 & _); auto.
  exists sf. split; [exact R1|]. rewrite R2, fold_steps_funs, <- Hs.
  exact (error_accumulation_closed St dist nrm T1 T2 T3 steps s0 G D0).
Qed.

