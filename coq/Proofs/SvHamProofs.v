(* Proofs about Model/SvHam.v: diagonal, sigma loops, H = dense matrix, Hermiticity, 2x2 batched matmul. *)
From Coq Require Import List Arith Bool Lia Ring.
From EV Require Import Model.SvBase Model.SvHam Proofs.SvBaseProofs.
Import ListNotations.

(* ---- the views of _create_diagonal select bits ---------------------------------------------------- *)
Lemma rest_pow N i : i < N -> rest (2 ^ N) (2 ^ i) 2 = qrest N i.
Proof.
  intros. unfold rest. rewrite (pow_split N i) by assumption.
  replace (2 ^ i * (2 * qrest N i)) with (qrest N i * (2 ^ i * 2)) by lia.
  apply Nat.div_mul. pose proof (pow2_pos i). lia.
Qed.

Lemma qrest_split N i j : i < j -> j < N -> qrest N i = qrest N j * (2 ^ (j - i - 1) * 2).
Proof.
  intros. unfold qrest. replace (N - i - 1) with ((N - j - 1) + ((j - i - 1) + 1)) by lia.
  rewrite !Nat.pow_add_r. simpl (2 ^ 1). reflexivity.
Qed.

Lemma diag_pred_i_bit N i k : i < N -> diag_pred_i (2 ^ N) i k = (bit N i k =? 1).
Proof. intros. unfold diag_pred_i. rewrite rest_pow by assumption. reflexivity. Qed.

Lemma diag_pred_ij_bit N i j k : i < j -> j < N ->
  diag_pred_ij (2 ^ N) i j k = (bit N i k =? 1) && (bit N j k =? 1).
Proof.
  intros Hij Hj. unfold diag_pred_ij. rewrite rest_pow by lia.
  pose proof (qrest_pos N i) as Pi. pose proof (qrest_pos N j) as Pj. pose proof (pow2_pos i) as P2i.
  pose proof (pow2_pos (j - i - 1)) as Pm.
  assert (E3 : rest (2 ^ i * qrest N i) (2 ^ i * 2 ^ (j - i - 1)) 2 = qrest N j).
  { unfold rest. rewrite (qrest_split N i j) by assumption.
    replace (2 ^ i * (qrest N j * (2 ^ (j - i - 1) * 2))) with (qrest N j * (2 ^ i * 2 ^ (j - i - 1) * 2)) by lia.
    apply Nat.div_mul. nia. }
  rewrite E3. f_equal. f_equal.
  unfold bit, co1 at 1, slice_idx.
  set (a := co0 2 (qrest N i) k). set (c := co2 (qrest N i) k).
  pose proof (flat_co 2 (qrest N i) k ltac:(lia) Pi) as Ek. fold a c in Ek. unfold flat3 in Ek.
  set (b := co1 2 (qrest N i) k) in *.
  rewrite <- Ek. clear Ek. rewrite (qrest_split N i j) by assumption.
  set (rj := qrest N j) in *. set (m := 2 ^ (j - i - 1)) in *.
  replace (a * (rj * (m * 2)) + c) with ((a * (m * 2)) * rj + c) by lia.
  replace (a * (2 * (rj * (m * 2))) + b * (rj * (m * 2)) + c) with ((a * (2 * (m * 2)) + b * (m * 2)) * rj + c) by lia.
  rewrite !Nat.div_add_l by lia.
  replace (a * (m * 2) + c / rj) with (c / rj + (a * m) * 2) by lia.
  replace (a * (2 * (m * 2)) + b * (m * 2) + c / rj) with (c / rj + (a * (2 * m) + b * m) * 2) by lia.
  rewrite !Nat.mod_add by lia. reflexivity.
Qed.

Section HamProofs.
Variable o : Kops.
Hypothesis laws : Klaws o.
Add Ring Kr2 : (K_ring o laws).
Open Scope K_scope.
Notation zero := (k0 o).
Notation one := (k1 o).
Notation cj := (kconj o).
Notation L := (list o).

Lemma list_eq_get (x y : L) : length x = length y -> (forall k, k < length x -> get x k = get y k) -> x = y.
Proof. intros Hl H. apply (nth_ext x y zero zero Hl). exact H. Qed.

Lemma get_map (f : o -> o) (l : L) n : n < length l -> get (map f l) n = f (get l n).
Proof. intros. unfold get. rewrite (nth_indep _ zero (f zero)) by (rewrite map_length; lia). apply map_nth. Qed.

(* ---- diag_spec ------------------------------------------------------------------------------------- *)
(* sum over i<j of U_ij b_i(k) b_j(k) *)
Definition Uint (N : nat) (U : list (list o)) (k : nat) : o :=
  ksumn N (fun i => ksum (seq (i + 1) (N - (i + 1)))
                      (fun j => kif ((bit N i k =? 1) && (bit N j k =? 1)) (getU o U i j))).
(* - sum_i delta_i b_i(k) *)
Definition Ddet (N : nat) (delta : L) (k : nat) : o :=
  ksumn N (fun i => kif (bit N i k =? 1) (- get delta i)).

Lemma diag_spec wd N delta U :
  length (create_diagonal o wd N delta U) = 2 ^ N /\
  forall k, k < 2 ^ N ->
    get (create_diagonal o wd N delta U) k = (if wd then Ddet N delta k else zero) + Uint N U k.
Proof.
  unfold create_diagonal.
  set (body := fun (d : L) (i : nat) => diag_loop_j o (2 ^ N) i U (seq (i + 1) (N - (i + 1)))
        (if wd then inplace_add_where (diag_pred_i (2 ^ N) i) (- get delta i) d else d)).
  set (F := fun (i k : nat) =>
        (if wd then kif (diag_pred_i (2 ^ N) i k) (- get delta i) else zero) +
        ksum (seq (i + 1) (N - (i + 1))) (fun j => kif (diag_pred_ij (2 ^ N) i j k) (getU o U i j))).
  assert (Hbody : (forall d a, length (body d a) = length d) /\
                  (forall d a k, k < length d -> get (body d a) k = get d k + F a k)).
  { assert (Hj : forall i js d, length (diag_loop_j o (2 ^ N) i U js d) = length d /\
             forall k, k < length d -> get (diag_loop_j o (2 ^ N) i U js d) k =
               get d k + ksum js (fun j => kif (diag_pred_ij (2 ^ N) i j k) (getU o U i j))).
    { intros i js d. unfold diag_loop_j.
      apply (fold_additive o laws (fun d j => inplace_add_where (diag_pred_ij (2 ^ N) i j) (getU o U i j) d)
               (fun j k => kif (diag_pred_ij (2 ^ N) i j k) (getU o U i j))).
      - intros; apply inplace_add_where_spec; assumption.
      - intros; apply inplace_add_where_spec; assumption. }
    split.
    - intros d i. unfold body. rewrite (proj1 (Hj _ _ _)). destruct wd; [apply inplace_add_where_spec; assumption | reflexivity].
    - intros d i k Hk. unfold body, F. destruct wd.
      + rewrite (proj2 (Hj _ _ _)) by (rewrite (proj1 (inplace_add_where_spec o laws _ _ _)); assumption).
        rewrite (proj2 (inplace_add_where_spec o laws _ _ _)) by assumption. ring.
      + rewrite (proj2 (Hj _ _ _)) by assumption. ring. }
  destruct Hbody as [Hl Hg].
  destruct (fold_additive o laws body F Hl Hg (seq 0 N) (zeros (2 ^ N))) as [Len G].
  unfold zeros in Len at 2. rewrite length_tab in Len. split; [exact Len|].
  intros k Hk. rewrite G by (unfold zeros; rewrite length_tab; assumption).
  rewrite get_zeros. unfold F.
  rewrite ksum_add by assumption.
  assert (E1 : ksum (seq 0 N) (fun a => if wd then kif (diag_pred_i (2 ^ N) a k) (- get delta a) else zero)
               = if wd then Ddet N delta k else zero).
  { destruct wd; [|apply ksum_zero; assumption].
    unfold Ddet, ksumn. apply ksum_ext. intros i Hi. apply in_seq in Hi. rewrite diag_pred_i_bit by lia. reflexivity. }
  rewrite E1.
  assert (E2 : ksum (seq 0 N) (fun a => ksum (seq (a + 1) (N - (a + 1)))
                 (fun j => kif (diag_pred_ij (2 ^ N) a j k) (getU o U a j))) = Uint N U k).
  { unfold Uint, ksumn. apply ksum_ext. intros i Hi. apply in_seq in Hi.
    apply ksum_ext. intros j Hj. apply in_seq in Hj. rewrite diag_pred_ij_bit by lia. reflexivity. }
  rewrite E2. ring.
Qed.

(* ---- index_add_ ------------------------------------------------------------------------------------ *)
Lemma index_add1_len d1 d2 inds a src (res : L) : length (index_add1 d1 d2 inds a src res) = length res.
Proof. unfold index_add1. apply length_tab. Qed.

Lemma index_add1_flip d2 al (vec res : L) k : k < length res ->
  get (index_add1 2 d2 [1; 0] al (view3 2 d2 vec) res) k =
  get res k + al * get vec (flat3 2 d2 (co0 2 d2 k) (1 - co1 2 d2 k) (co2 d2 k)).
Proof.
  intros Hk. unfold index_add1. rewrite get_tab by assumption.
  pose proof (co1_lt 2 d2 k ltac:(lia)) as Hb. unfold view3.
  destruct (co1 2 d2 k) as [|[|b]]; [| |lia]; cbn [fold_left seq length nth Nat.eqb Nat.sub]; ring.
Qed.

Lemma index_add1_one d2 t b0 al (vec res : L) k : k < length res ->
  get (index_add1 2 d2 [t] al (select1 2 d2 b0 vec) res) k =
  get res k + kif (t =? co1 2 d2 k) (al * get vec (flat3 2 d2 (co0 2 d2 k) b0 (co2 d2 k))).
Proof.
  intros Hk. unfold index_add1. rewrite get_tab by assumption. unfold select1.
  cbn [fold_left seq length nth]. destruct (t =? co1 2 d2 k); simpl; ring.
Qed.

(* ---- sigma loops -------------------------------------------------------------------------------------- *)
Definition hop (c cbar d : o) : M2 o := (zero, cbar, c, d).      (* [[0, cbar], [c, d]] *)

Lemma sigma_real_spec N (omh vec res : L) :
  length (sigma_real o N omh vec res) = length res /\
  forall k, k < length res ->
    get (sigma_real o N omh vec res) k =
    get res k + ksumn (length omh) (fun n => site_apply o N n (hop (get omh n) (get omh n) zero) (get vec) k).
Proof.
  unfold sigma_real.
  apply (fold_additive o laws
           (fun res n => index_add1 2 (qrest N n) [1; 0] (get omh n) (view3 2 (qrest N n) vec) res)
           (fun n k => site_apply o N n (hop (get omh n) (get omh n) zero) (get vec) k)).
  - intros. apply index_add1_len.
  - intros d n k Hk. rewrite index_add1_flip by assumption. f_equal.
    unfold site_apply, hop, setbit. rewrite bit_co1.
    pose proof (co1_lt 2 (qrest N n) k ltac:(lia)) as Hb.
    destruct (co1 2 (qrest N n) k) as [|[|b]]; [| |lia]; cbn [m2 Nat.sub]; ring.
Qed.

Lemma sigma_complex_spec N (omh e vec res : L) :
  length (sigma_complex o N omh e vec res) = length res /\
  forall k, k < length res ->
    get (sigma_complex o N omh e vec res) k =
    get res k + ksumn (length omh) (fun n =>
       site_apply o N n (hop (get omh n * get e n) (cj (get omh n * get e n)) zero) (get vec) k).
Proof.
  unfold sigma_complex.
  apply (fold_additive o laws
           (fun res n => index_add1 2 (qrest N n) [0] (cj (get omh n * get e n)) (select1 2 (qrest N n) 1 vec)
                          (index_add1 2 (qrest N n) [1] (get omh n * get e n) (select1 2 (qrest N n) 0 vec) res))
           (fun n k => site_apply o N n (hop (get omh n * get e n) (cj (get omh n * get e n)) zero) (get vec) k)).
  - intros. rewrite !index_add1_len. reflexivity.
  - intros d n k Hk. rewrite index_add1_one by (rewrite index_add1_len; assumption).
    rewrite index_add1_one by assumption.
    unfold site_apply, hop, setbit. rewrite bit_co1.
    pose proof (co1_lt 2 (qrest N n) k ltac:(lia)) as Hb.
    destruct (co1 2 (qrest N n) k) as [|[|b]]; [| |lia]; cbn [m2 Nat.eqb kif]; ring.
Qed.

(* the phi = 0 fast path is sound: for real amplitudes and e_n = 1 both loops compute the same *)
Lemma sigma_paths_coincide N (omh e vec res : L) :
  (forall n, n < length omh -> get e n = one /\ cj (get omh n) = get omh n) ->
  sigma_complex o N omh e vec res = sigma_real o N omh vec res.
Proof.
  intros H. apply list_eq_get.
  - rewrite (proj1 (sigma_complex_spec _ _ _ _ _)), (proj1 (sigma_real_spec _ _ _ _)). reflexivity.
  - intros k Hk. rewrite (proj1 (sigma_complex_spec _ _ _ _ _)) in Hk.
    rewrite (proj2 (sigma_complex_spec _ _ _ _ _)), (proj2 (sigma_real_spec _ _ _ _)) by assumption.
    f_equal. apply ksumn_ext. intros n Hn. destruct (H n Hn) as [E1 E2].
    rewrite E1. replace (get omh n * one) with (get omh n) by ring. rewrite E2. reflexivity.
Qed.

(* ---- dense Hamiltonian ---------------------------------------------------------------------------------- *)
(* entry (k,k') of   diag(Ud) + sum_n 1 (x) .. (x) h_n (x) .. (x) 1   *)
Definition Hdense (N : nat) (h : nat -> M2 o) (Ud : nat -> o) (k k' : nat) : o :=
  kif (k =? k') (Ud k) + ksumn N (fun n => site o N n (h n) k k').
Definition matvec (D : nat) (A : nat -> nat -> o) (v : nat -> o) (k : nat) : o :=
  ksumn D (fun k' => A k k' * v k').

Lemma dense_apply N h Ud v k : k < 2 ^ N ->
  matvec (2 ^ N) (Hdense N h Ud) v k = Ud k * v k + ksumn N (fun n => site_apply o N n (h n) v k).
Proof.
  intros Hk. unfold matvec, Hdense.
  rewrite (ksumn_ext o _ _ (fun k' => kif (k' =? k) (Ud k * v k') + ksumn N (fun n => site o N n (h n) k k' * v k'))).
  - rewrite ksumn_add by assumption.
    rewrite (ksumn_single o laws _ k (fun k' => Ud k * v k')) by assumption.
    f_equal. unfold ksumn. rewrite ksum_swap by assumption.
    apply ksum_ext. intros n Hn. apply in_seq in Hn.
    apply (site_apply_dense o laws); [lia | assumption].
  - intros k' _. rewrite (Nat.eqb_sym k' k). unfold ksumn.
    rewrite (ksum_mul_r o laws (seq 0 N) (v k') (fun n => site o N n (h n) k k')).
    destruct (k =? k'); simpl; ring.
Qed.

(* moving the detuning from the diagonal into the single-site matrices *)
Lemma site_apply_diag N n c cbar d v k :
  site_apply o N n (hop c cbar d) v k = site_apply o N n (hop c cbar zero) v k + kif (bit N n k =? 1) d * v k.
Proof.
  unfold site_apply, hop. pose proof (bit_lt N n k) as Hb. pose proof (setbit_bit N n k) as Es.
  destruct (bit N n k) as [|[|b]]; [| |lia]; cbn [m2 Nat.eqb kif].
  - ring.
  - rewrite Es. ring.
Qed.

(* single-site matrix of the Rydberg Hamiltonian on qubit n:
     [[0, conj c_n], [c_n, -delta_n]]   with   c_n = (Omega_n / 2) * e_n ,  e_n = exp(i phi_n)      *)
Definition ham_site (omega delta e : L) (n : nat) : M2 o :=
  let c := (get omega n * khalf o) * get e n in hop c (cj c) (- get delta n).

Theorem H_apply_dense N omega delta phinz e U vec :
  length omega = N -> length vec = 2 ^ N ->
  (any_nonzero phinz = false -> forall n, n < N -> get e n = one /\ cj (get omega n) = get omega n) ->
  length (ham_mul o N omega delta phinz e U vec) = 2 ^ N /\
  forall k, k < 2 ^ N ->
    get (ham_mul o N omega delta phinz e U vec) k =
    matvec (2 ^ N) (Hdense N (ham_site omega delta e) (Uint N U)) (get vec) k.
Proof.
  intros Lo Lv Hreal. unfold ham_mul.
  destruct (diag_spec true N delta U) as [Ld Gd].
  assert (Lr : length (vmul (create_diagonal o true N delta U) vec) = 2 ^ N).
  { rewrite (proj1 (vmul_spec o _ _)). exact Ld. }
  assert (Lh : length (halve o omega) = N) by (unfold halve; rewrite map_length; exact Lo).
  assert (Gh : forall n, n < N -> get (halve o omega) n = get omega n * khalf o).
  { intros n Hn. unfold halve. rewrite get_map by lia. reflexivity. }
  assert (Main : length (sigma_complex o N (halve o omega) e vec (vmul (create_diagonal o true N delta U) vec)) = 2 ^ N /\
     forall k, k < 2 ^ N ->
       get (sigma_complex o N (halve o omega) e vec (vmul (create_diagonal o true N delta U) vec)) k =
       matvec (2 ^ N) (Hdense N (ham_site omega delta e) (Uint N U)) (get vec) k).
  { split. { rewrite (proj1 (sigma_complex_spec _ _ _ _ _)). exact Lr. }
    intros k Hk. rewrite (proj2 (sigma_complex_spec _ _ _ _ _)) by (rewrite Lr; assumption).
    rewrite (proj2 (vmul_spec o _ _)) by (rewrite Ld; assumption).
    rewrite Gd by assumption. rewrite dense_apply by assumption. rewrite Lh.
    rewrite (ksumn_ext o N (fun n => site_apply o N n (ham_site omega delta e n) (get vec) k)
               (fun n => site_apply o N n (hop (get (halve o omega) n * get e n) (cj (get (halve o omega) n * get e n)) zero) (get vec) k
                         + kif (bit N n k =? 1) (- get delta n) * get vec k)).
    2:{ intros n Hn. unfold ham_site. cbv zeta. rewrite site_apply_diag. rewrite Gh by assumption. reflexivity. }
    rewrite ksumn_add by assumption. unfold Ddet.
    assert (E : ksumn N (fun a => kif (bit N a k =? 1) (- get delta a) * get vec k) =
                ksumn N (fun i => kif (bit N i k =? 1) (- get delta i)) * get vec k).
    { unfold ksumn. apply (ksum_mul_r o laws). }
    rewrite E. ring. }
  destruct (any_nonzero phinz) eqn:Ec; [exact Main|].
  rewrite <- (sigma_paths_coincide N (halve o omega) e).
  - exact Main.
  - intros n Hn. rewrite Lh in Hn. destruct (Hreal eq_refl n Hn) as [E1 E2]. split; [exact E1|].
    rewrite Gh by assumption. rewrite (conj_mul o laws), E2, (conj_half o laws). reflexivity.
Qed.

(* ---- Hermiticity ---------------------------------------------------------------------------------------- *)
Definition m2_hermitian (h : M2 o) : Prop := forall b b', b < 2 -> b' < 2 -> m2 h b b' = cj (m2 h b' b).

Lemma conj_kif b x : cj (kif b x) = kif b (cj x).
Proof. destruct b; simpl; [reflexivity | apply conj_0; assumption]. Qed.

Lemma Hdense_hermitian N h Ud :
  (forall n, n < N -> m2_hermitian (h n)) -> (forall k, cj (Ud k) = Ud k) ->
  forall k k', Hdense N h Ud k k' = cj (Hdense N h Ud k' k).
Proof.
  intros Hh HU k k'. unfold Hdense. rewrite (conj_add o laws), conj_kif, HU.
  unfold ksumn. rewrite ksum_conj by assumption. f_equal.
  - rewrite (Nat.eqb_sym k' k). destruct (Nat.eqb_spec k k'); [subst|]; reflexivity.
  - apply ksum_ext. intros n Hn. apply in_seq in Hn. unfold site. rewrite conj_kif.
    rewrite (same_except_sym N n k' k). f_equal. apply Hh; [lia | apply bit_lt | apply bit_lt].
Qed.

Lemma Uint_real N U : (forall i j, cj (getU o U i j) = getU o U i j) -> forall k, cj (Uint N U k) = Uint N U k.
Proof.
  intros H k. unfold Uint, ksumn. rewrite ksum_conj by assumption. apply ksum_ext. intros i _.
  rewrite ksum_conj by assumption. apply ksum_ext. intros j _. rewrite conj_kif, H. reflexivity.
Qed.

Theorem H_hermitian N omega delta e U :
  (forall n, cj (get delta n) = get delta n) -> (forall i j, cj (getU o U i j) = getU o U i j) ->
  forall k k', Hdense N (ham_site omega delta e) (Uint N U) k k' =
               cj (Hdense N (ham_site omega delta e) (Uint N U) k' k).
Proof.
  intros Hd HU. apply Hdense_hermitian; [|apply Uint_real; assumption].
  intros n _ b b' Hb Hb'. unfold ham_site, hop. cbv zeta.
  destruct b as [|[|b]]; [| |lia]; destruct b' as [|[|b']]; try lia; cbn [m2].
  - symmetry; apply conj_0; assumption.
  - reflexivity.
  - symmetry; apply (conj_inv o laws).
  - rewrite conj_opp by assumption. rewrite Hd. reflexivity.
Qed.

(* ---- matmul_2x2_with_batched == batched 2x2 product --------------------------------------------------- *)
Lemma matmul_batched_spec op d2 (x : L) :
  length (matmul_batched o op d2 x) = length x /\
  forall k, k < length x -> get (matmul_batched o op d2 x) k =
    m2 op (co1 2 d2 k) 0 * get x (flat3 2 d2 (co0 2 d2 k) 0 (co2 d2 k)) +
    m2 op (co1 2 d2 k) 1 * get x (flat3 2 d2 (co0 2 d2 k) 1 (co2 d2 k)).
Proof. unfold matmul_batched. split; [apply length_tab | intros; rewrite get_tab by assumption; reflexivity]. Qed.

Theorem matmul_2x2_batched_spec op d2 (x : L) :
  matmul_2x2_with_batched o op d2 x = matmul_batched o op d2 x.
Proof.
  apply list_eq_get.
  - unfold matmul_2x2_with_batched. rewrite !index_add1_len. unfold zeros. rewrite length_tab.
    symmetry. apply matmul_batched_spec.
  - intros k Hk. unfold matmul_2x2_with_batched in *. rewrite !index_add1_len in Hk.
    unfold zeros in Hk. rewrite length_tab in Hk.
    rewrite (proj2 (matmul_batched_spec op d2 x)) by assumption.
    rewrite !index_add1_one by (rewrite ?index_add1_len; unfold zeros; rewrite length_tab; assumption).
    rewrite get_zeros.
    pose proof (co1_lt 2 d2 k ltac:(lia)) as Hb.
    destruct (co1 2 d2 k) as [|[|b]]; [| |lia]; cbn [Nat.eqb kif]; ring.
Qed.

End HamProofs.
