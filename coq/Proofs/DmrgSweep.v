(* Proofs about the DMRG part of the emu-mps stepping machine (Model/MpsMachine.v); see Properties/C09.v. *)
From Coq Require Import ZArith List Bool Lia.
From EV Require Import Base.Arith Gen.Brent Model.MpsMachine Proofs.MpsStep Proofs.MpsPhase.
From EV Require Import Proofs.DmrgStep Proofs.DmrgPhase.
From EV Require Import Proofs.MpsSweep Proofs.MpsTdvpComplete.
Import ListNotations.
Open Scope Z_scope.

Section P.
Variable A : Type.
Variable ar : Arith A.
Notation mstate := (mstate A).
Notation event := (event A).
Notation dframe := (@dframe A).
Notation dpos := (@dpos A).
Notation dmrg_like := (@dmrg_like A).
Notation dmrg_l2r := (@dmrg_l2r A ar).
Notation dmrg_r2l := (@dmrg_r2l A ar).
Notation iter_progress_app := (@iter_progress_app A ar).

Ltac sp := cbn [m_kind m_N m_steps m_times m_sweep m_l2r m_tidx m_cur m_tgt m_nl m_nr m_oc m_thr m_gap m_rf
  m_prevE m_curE m_sweeps m_etol m_maxsw o_norm o_unif o_energy o_same m_ev
  emit set_sweep set_l2r set_tidx set_cur set_tgt set_nl set_nr set_oc set_thr set_gap set_rf set_prevE
  set_curE set_sweeps set_onorm set_ounif set_oenergy set_osame].
Ltac zt := repeat match goal with
  | |- context [(?a <? ?b)%Z] =>
      first [ replace (a <? b)%Z with true by (symmetry; apply Z.ltb_lt; lia)
            | replace (a <? b)%Z with false by (symmetry; apply Z.ltb_ge; lia) ]
  | |- context [(?a <=? ?b)%Z] =>
      first [ replace (a <=? b)%Z with true by (symmetry; apply Z.leb_le; lia)
            | replace (a <=? b)%Z with false by (symmetry; apply Z.leb_gt; lia) ]
  | |- context [(?a =? ?b)%Z] =>
      first [ replace (a =? b)%Z with true by (symmetry; apply Z.eqb_eq; lia)
            | replace (a =? b)%Z with false by (symmetry; apply Z.eqb_neq; lia) ]
  end.
Ltac step := sp; zt; cbn [negb andb orb res_bind].

Notation dmrg_l2r_phase := (@dmrg_l2r_phase A ar).
Notation dmrg_r2l_phase := (@dmrg_r2l_phase A ar).
Notation ev_l2r := (@ev_l2r A).
Notation ev_r2l := (@ev_r2l A).
Notation complete_events := (@complete_events A ar).

(* kind-independent description of MPSBackendImpl.timestep_complete *)
Lemma timestep_complete_base_spec (s : mstate) (same : bool) (rest : list bool) (next : option A) :
  2 <= m_N s -> m_tgt s = m_cur s -> o_same s = same :: rest ->
  (m_tidx s + 1 < m_steps s -> exists t, next = Some t /\ nthZ (m_times s) (m_tidx s + 2) = Some t) ->
  (m_steps s <= m_tidx s + 1 -> next = None) ->
  exists s', timestep_complete_base ar s = Ok s' /\
    m_kind s' = m_kind s /\ m_N s' = m_N s /\ m_steps s' = m_steps s /\ m_times s' = m_times s /\
    m_tidx s' = m_tidx s + 1 /\ m_cur s' = m_cur s /\
    m_tgt s' = match next with Some t => t | None => m_tgt s end /\
    m_sweep s' = m_sweep s /\ m_l2r s' = m_l2r s /\ m_oc s' = m_oc s /\
    (match next with Some _ => m_nl s' = 1 /\ m_nr s' = m_N s - 1 | None => True end) /\
    o_same s' = rest /\ o_energy s' = o_energy s /\
    m_prevE s' = m_prevE s /\ m_curE s' = m_curE s /\ m_sweeps s' = m_sweeps s /\
    m_etol s' = m_etol s /\ m_maxsw s' = m_maxsw s /\
    m_ev s' = rev (complete_events (m_tidx s) (m_cur s) same next) ++ m_ev s.
Proof.
  intros HN Hct Hs Hnext Hfin.
  unfold timestep_complete_base, query_U. sp. rewrite Hs, Hct. unfold is_finished. sp.
  destruct (Z.lt_ge_cases (m_tidx s + 1) (m_steps s)) as [Hlt|Hge].
  - destruct (Hnext Hlt) as (t & -> & Ht).
    destruct same; sp; zt; replace (m_tidx s + 1 + 1) with (m_tidx s + 2) by lia;
      rewrite Ht; unfold init_baths; sp; zt;
      replace (Z.max 1 (m_N s - 1)) with (m_N s - 1) by lia; zt; cbn [negb res_bind]; sp;
      (eexists; split; [reflexivity|]); sp; unfold MpsTdvpComplete.complete_events; cbn [app rev];
      repeat split; try reflexivity; try assumption.
  - rewrite (Hfin Hge).
    destruct same; sp; zt; cbn [res_bind]; sp;
      (eexists; split; [reflexivity|]); sp; unfold MpsTdvpComplete.complete_events; cbn [app rev];
      repeat split; try reflexivity; try assumption.
Qed.

(* the state handed to sweep_complete by the last right-to-left minimisation (site 1) *)
Definition dmrg_before_complete (s : mstate) (e : A) (rest : list A) : mstate :=
  set_sweeps (set_l2r (set_oc (emit (set_sweep (set_nl (emit (set_nr (emit
    (set_curE (set_oc (emit (set_oenergy s rest) (EvMinimize A 1 false)) 1) (Some e))
    (EvPushR A 2)) (m_nr s + 1)) (EvPopL A)) (m_nl s - 1)) 0) (EvOrth A 0)) 0) true) (m_sweeps s + 1).

Lemma dmrg_r2l_last (s : mstate) e rest :
  dmrg_like s -> dpos s 1 false 2 (m_N s - 2) -> o_energy s = e :: rest ->
  progress ar s = res_bind (sweep_complete ar (dmrg_before_complete s e rest)) (fun s => Ok (emit s (EvSave A))).
Proof.
  intros (Hk & HN & Ht) (Hsw & Hl & Hnl & Hnr) He.
  rewrite (progress_is_dmrg _ ar s Hk). unfold progress_dmrg, is_finished. step. rewrite He. sp. rewrite Hl.
  step. unfold push_r at 1. step. unfold pop_l at 1. step. step.
  unfold dmrg_before_complete. rewrite Hsw. reflexivity.
Qed.

Definition dstart (s : mstate) : Prop := dpos s 0 true 1 (m_N s - 1).

Definition sweep_ev (n : nat) : list event :=
  flat_map ev_l2r (zup 0 (S n)) ++ flat_map ev_r2l (zdown (Z.of_nat n + 1) n) ++
  [EvMinimize A 1 false; EvPushR A 2; EvPopL A; EvOrth A 0].

(* One DMRG sweep on N = n+3 sites is 2N-4 progress() calls: N-2 two-site minimisations going right
   (sites 0..N-3), N-2 going left (sites N-2..1), then orthogonalize(0) and sweep_complete. *)
Lemma dmrg_sweep_body (s : mstate) (n : nat) (ea : list A) (eb : A) (ec : list A) (el : A) (rest : list A) :
  dmrg_like s -> m_N s = Z.of_nat n + 3 -> dstart s -> length ea = n -> length ec = n ->
  o_energy s = ea ++ eb :: ec ++ el :: rest ->
  exists s1, dframe s s1 /\ dpos s1 1 false 2 (m_N s - 2) /\ o_energy s1 = el :: rest /\
    m_ev s1 = rev (flat_map ev_l2r (zup 0 (S n)) ++ flat_map ev_r2l (zdown (Z.of_nat n + 1) n)) ++ m_ev s /\
    iter_progress ar (n + 1 + n + 1) s =
      res_bind (sweep_complete ar (dmrg_before_complete s1 el rest)) (fun s => Ok (emit s (EvSave A))).
Proof.
  intros HT HN HS Hla Hlc He. unfold dstart in HS.
  destruct (dmrg_l2r_phase n s 0 ea (eb :: ec ++ el :: rest) HT ltac:(lia) ltac:(lia) Hla)
    as (sa & Ha & Fa & Pa & Ea & Va).
  { replace (0 + 1) with 1 by lia. replace (m_N s - 1 - 0) with (m_N s - 1) by lia. exact HS. }
  { exact He. }
  assert (HNa : m_N sa = m_N s) by (destruct Fa as (_ & H & _); exact H).
  assert (HTa := dmrg_like_frame _ _ _ Fa HT).
  destruct (dmrg_l2r sa (Z.of_nat n) eb (ec ++ el :: rest) HTa ltac:(lia))
    as (sb & Hb & Fb & Pb & Ob & Cb & Eb & Vb).
  { replace (0 + Z.of_nat n) with (Z.of_nat n) in Pa by lia. rewrite HNa.
    replace (m_N s - 1 - 0 - Z.of_nat n) with (m_N s - 1 - Z.of_nat n) in Pa by lia. exact Pa. }
  { exact Ea. }
  assert (Fab := dframe_trans _ _ _ _ Fa Fb).
  assert (HNb : m_N sb = m_N s) by (destruct Fab as (_ & H & _); exact H).
  assert (HTb := dmrg_like_frame _ _ _ Fab HT).
  rewrite HNa in Pb. replace (Z.of_nat n + 1 =? m_N s - 2) with true in Pb by (symmetry; apply Z.eqb_eq; lia).
  cbn [negb] in Pb.
  destruct (dmrg_r2l_phase n sb (Z.of_nat n + 1) ec (el :: rest) HTb ltac:(lia) ltac:(lia) Hlc)
    as (sc & Hc & Fc & Pc & Ec & Vc).
  { rewrite HNb. replace (Z.of_nat n + 1 + 1) with (Z.of_nat n + 2) by lia.
    replace (m_N s - 1 - (Z.of_nat n + 1)) with (m_N s - 2 - Z.of_nat n) by lia. exact Pb. }
  { exact Eb. }
  assert (Fac := dframe_trans _ _ _ _ Fab Fc).
  assert (HTc := dmrg_like_frame _ _ _ Fac HT).
  exists sc. split; [exact Fac|].
  rewrite HNb in Pc. replace (Z.of_nat n + 1 - Z.of_nat n) with 1 in Pc by lia.
  replace (1 + 1) with 2 in Pc by lia.
  replace (m_N s - 1 - (Z.of_nat n + 1) + Z.of_nat n) with (m_N s - 2) in Pc by lia.
  split; [exact Pc|]. split; [exact Ec|]. split.
  - rewrite Vc, Vb, Va. rewrite !rev_app_distr, <- !app_assoc.
    f_equal. replace (0 + Z.of_nat n) with (Z.of_nat n) by lia.
    assert (Z1 : forall m i, zup i (S m) = zup i m ++ [i + Z.of_nat m]).
    { induction m as [|m IHm]; intros i; [cbn; f_equal; lia|].
      change (zup i (S (S m))) with (i :: zup (i + 1) (S m)). rewrite IHm. cbn [zup app].
      f_equal. f_equal. f_equal. lia. }
    rewrite (Z1 n 0). rewrite flat_map_app. cbn [flat_map app]. rewrite rev_app_distr.
    replace (0 + Z.of_nat n) with (Z.of_nat n) by lia. cbn [ev_l2r DmrgPhase.ev_l2r rev app]. reflexivity.
  - rewrite !iter_progress_app. rewrite Ha. cbn [res_bind iter_progress]. rewrite Hb. cbn [res_bind].
    rewrite Hc. cbn [res_bind].
    assert (HNc : m_N sc = m_N s) by (destruct Fac as (_ & H & _); exact H).
    rewrite (dmrg_r2l_last sc el rest HTc ltac:(rewrite HNc; exact Pc) Ec).
    destruct (sweep_complete ar (dmrg_before_complete sc el rest)); reflexivity.
Qed.
End P.
