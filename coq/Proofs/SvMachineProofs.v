(* Proofs about the emu-sv step loop machine (Model/SvMachine.v): closed form of a whole run for
   every number of steps, every target-time list, every drive table and every oracle. *)
From Coq Require Import ZArith List Bool Lia.
From EV Require Import Base.Arith Model.SvMachine.
Import ListNotations.
Open Scope Z_scope.
Local Arguments Z.of_nat : simpl never.

Section Proofs.
Variable A : Type.
Variable ar : Arith A.
Variables Row UM St Hm : Type.
Variable zero_row : list bool -> Row -> Row.
Variable mask_U : list bool -> UM -> UM.
Variable umat : A -> UM.
Variable stepper : A -> Row -> Row -> Row -> UM -> St -> St * Hm.
Variable get_ham : Row -> Row -> Row -> UM -> Hm.
Variable is_eval : nat -> A -> bool.

Notation event := (event A Row UM St Hm).
Notation params := (params A Row).
Notation sv := (sv A Row UM St Hm).
Notation eff_row := (eff_row zero_row).
Notation eff_U := (eff_U (A:=A) (Row:=Row) mask_U).
Notation callbacks_at := (callbacks_at is_eval).
Notation step := (step ar zero_row mask_U umat stepper get_ham is_eval).
Notation steps_from := (steps_from ar zero_row mask_U umat stepper get_ham is_eval).
Notation apply_observables := (apply_observables ar zero_row mask_U umat get_ham is_eval).
Notation save_statistics := (save_statistics (UM:=UM) (St:=St) (Hm:=Hm) ar).
Notation run := (run ar zero_row mask_U umat stepper get_ham is_eval).
Notation norm_time := (norm_time ar).

(* ---- specification: the loop as a structural recursion over the remaining intervals ------- *)

(* the arguments of the stepper call of the interval [t0, t1] with drive rows o, d, p *)
Definition call_dt (t0 t1 : A) : A := a_mul ar (a_sub ar t1 t0) (coeff ar).

Definition do_step (P : params) (t0 t1 : A) (o d p : Row) (s : St) : St * Hm :=
  stepper (call_dt t0 t1) (eff_row P o) (eff_row P d) (eff_row P p) (eff_U P (umat t0)) s.

Definition step_event (P : params) (t0 t1 : A) (o d p : Row) (s : St) : event :=
  EvStep (call_dt t0 t1) (eff_row P o) (eff_row P d) (eff_row P p) (eff_U P (umat t0)) s.

Definition callback_events (P : params) (t : A) (s : St) (h : Hm) : list event :=
  map (fun c => EvCallback c t s h) (callbacks_at P t).

(* final state: the ordered fold of the stepper over the intervals *)
Fixpoint fold_steps (P : params) (t0 : A) (rest : list A) (os ds ps : list Row) (s : St) : St :=
  match rest, os, ds, ps with
  | t1 :: rest', o :: os', d :: ds', p :: ps' =>
    fold_steps P t1 rest' os' ds' ps' (fst (do_step P t0 t1 o d p s))
  | _, _, _, _ => s
  end.

(* chronological events of the steps *)
Fixpoint steps_events (P : params) (tn t0 : A) (rest : list A) (os ds ps : list Row) (s : St) : list event :=
  match rest, os, ds, ps with
  | t1 :: rest', o :: os', d :: ds', p :: ps' =>
    let s' := fst (do_step P t0 t1 o d p s) in
    let h := snd (do_step P t0 t1 o d p s) in
    let nt := a_div ar t1 tn in
    [EvQueryU t0; step_event P t0 t1 o d p s] ++ callback_events P nt s' h ++ [EvStats nt s' (Some h)] ++
    steps_events P tn t1 rest' os' ds' ps' s'
  | _, _, _, _ => []
  end.

(* events of _apply_observables(0): the Hamiltonian is built only when some callback wants t_0 *)
Definition initial_ham (P : params) (t0 t1 : A) (o d p : Row) : Hm :=
  get_ham (eff_row P o) (eff_row P d) (eff_row P p) (eff_U P (umat (midpoint ar t0 t1))).

Definition initial_events (P : params) (tn t0 t1 : A) (o d p : Row) (s0 : St) : list event :=
  let nt := a_div ar t0 tn in
  match callbacks_at P nt with
  | [] => []
  | _ :: _ =>
    [EvQueryU (midpoint ar t0 t1);
     EvGetHam (eff_row P o) (eff_row P d) (eff_row P p) (eff_U P (umat (midpoint ar t0 t1)))] ++
    callback_events P nt s0 (initial_ham P t0 t1 o d p)
  end.

(* ---- list plumbing ---------------------------------------------------------------------- *)
Lemma nthZ_of_nat : forall (T : Type) (l : list T) (k : nat), nthZ l (Z.of_nat k) = nth_error l k.
Proof.
  intros. unfold nthZ. destruct (Z.of_nat k <? 0) eqn:E.
  - apply Z.ltb_lt in E. lia.
  - now rewrite Nat2Z.id.
Qed.

Lemma skipn_cons_nth : forall (T : Type) (k : nat) (l : list T) x r,
  skipn k l = x :: r -> nth_error l k = Some x /\ skipn (S k) l = r.
Proof.
  induction k; intros l x r H.
  - destruct l; simpl in H; [discriminate|]. inversion H; subst. now split.
  - destruct l; simpl in H; [discriminate|]. apply IHk in H. simpl. exact H.
Qed.

Lemma fold_emit_callbacks : forall (cbs : list nat) (t : A) (st : St) (h : Hm) (s : sv),
  let r := fold_left (fun acc c => emit acc (EvCallback c t st h)) cbs s in
  sv_state r = sv_state s /\ sv_H r = sv_H s /\
  sv_ev r = rev (map (fun c => EvCallback c t st h) cbs) ++ sv_ev s.
Proof.
  induction cbs; intros; simpl in *.
  - now repeat split.
  - destruct (IHcbs t st h (emit s (EvCallback a t st h))) as (H1 & H2 & H3).
    subst r. rewrite H1, H2, H3. simpl. repeat split. now rewrite <- app_assoc.
Qed.

(* ---- one boundary ------------------------------------------------------------------------ *)
Section Boundary.
Variable P : params.
Variable tn : A.
Hypothesis Hlast : lastA (p_times P) = Some tn.
Hypothesis Hnz : a_eqb ar tn (zero ar) = false.

Lemma norm_time_ok : forall (k : nat) (t : A),
  nth_error (p_times P) k = Some t -> norm_time P (Z.of_nat k) = Ok (a_div ar t tn).
Proof.
  intros k t H. unfold SvMachine.norm_time. rewrite nthZ_of_nat, H, Hlast. simpl. now rewrite Hnz.
Qed.

(* _apply_observables with a Hamiltonian already in place *)
Lemma apply_observables_some : forall (k : nat) (t : A) (s : sv) (h : Hm),
  nth_error (p_times P) k = Some t -> sv_H s = Some h ->
  exists s', apply_observables P (Z.of_nat k) s = Ok s' /\ sv_state s' = sv_state s /\ sv_H s' = Some h /\
             sv_ev s' = rev (callback_events P (a_div ar t tn) (sv_state s) h) ++ sv_ev s.
Proof.
  intros k t s h Ht Hh. unfold SvMachine.apply_observables. rewrite (norm_time_ok k t Ht). simpl.
  rewrite Hh.
  assert (E : (match callbacks_at P (a_div ar t tn) with
               | [] => Ok s | _ :: _ => Ok s end) = Ok s :> res sv) by now destruct (callbacks_at P _).
  destruct (callbacks_at P (a_div ar t tn)) eqn:Ec; simpl; rewrite Hh.
  - exists s. unfold callback_events. rewrite Ec. simpl. now repeat split.
  - pose proof (fold_emit_callbacks (n :: l) (a_div ar t tn) (sv_state s) h s) as F.
    simpl in F. destruct F as (F1 & F2 & F3).
    eexists. split; [reflexivity|]. unfold callback_events. rewrite Ec.
    rewrite F1, F2, F3. simpl. now repeat split.
Qed.

Lemma save_statistics_ok : forall (k : nat) (t : A) (s : sv),
  nth_error (p_times P) k = Some t ->
  save_statistics P (Z.of_nat k) s =
  Ok (emit s (EvStats (a_div ar t tn) (sv_state s) (sv_H s))).
Proof.
  intros. unfold SvMachine.save_statistics. now rewrite (norm_time_ok k t H).
Qed.

(* ---- the loop: steps k, k+1, ... over the remaining intervals ------------------------------- *)
Lemma steps_from_spec : forall (m k : nat) (t0 : A) (rest : list A) (os ds ps : list Row) (s : sv),
  skipn k (p_times P) = t0 :: rest -> skipn k (p_omega P) = os ->
  skipn k (p_delta P) = ds -> skipn k (p_phi P) = ps ->
  length rest = m -> length os = m -> length ds = m -> length ps = m ->
  exists s', steps_from P (Z.of_nat k) m s = Ok s' /\
    sv_state s' = fold_steps P t0 rest os ds ps (sv_state s) /\
    (m <> 0%nat -> exists h, sv_H s' = Some h) /\
    sv_ev s' = rev (steps_events P tn t0 rest os ds ps (sv_state s)) ++ sv_ev s.
Proof.
  induction m; intros k t0 rest os ds ps s Ht Ho Hd Hp Lr Lo Ld Lp.
  - destruct rest; [|discriminate]. simpl. exists s. repeat split; try easy.
  - destruct rest as [|t1 rest']; [discriminate|]. destruct os as [|o os']; [discriminate|].
    destruct ds as [|d ds']; [discriminate|]. destruct ps as [|p ps']; [discriminate|].
    destruct (skipn_cons_nth _ _ _ _ _ Ht) as (Nt0 & Ht').
    destruct (skipn_cons_nth _ _ _ _ _ Ht') as (Nt1 & _).
    destruct (skipn_cons_nth _ _ _ _ _ Ho) as (No & Ho').
    destruct (skipn_cons_nth _ _ _ _ _ Hd) as (Nd & Hd').
    destruct (skipn_cons_nth _ _ _ _ _ Hp) as (Np & Hp').
    simpl steps_from. unfold SvMachine.step.
    replace (Z.of_nat k + 1) with (Z.of_nat (S k)) by lia.
    rewrite !nthZ_of_nat, Nt1, Nt0, No, Nd, Np. simpl.
    fold (call_dt t0 t1). fold (do_step P t0 t1 o d p (sv_state s)).
    destruct (do_step P t0 t1 o d p (sv_state s)) as [st' h] eqn:Es.
    set (s1 := MkSv st' (Some h) _).
    destruct (apply_observables_some (S k) t1 s1 h Nt1 eq_refl) as (s2 & A1 & A2 & A3 & A4).
    rewrite A1. simpl. rewrite (save_statistics_ok (S k) t1 s2 Nt1). simpl.
    set (s3 := emit s2 _).
    destruct (IHm (S k) t1 rest' os' ds' ps' s3 Ht' Ho' Hd' Hp') as (s' & B1 & B2 & B3 & B4);
      try (simpl in *; lia).
    exists s'. split; [exact B1|]. simpl fold_steps. simpl steps_events.
    assert (S3 : sv_state s3 = st') by (subst s3; simpl; rewrite A2; reflexivity).
    split; [now rewrite B2, S3|]. split.
    + intros _. destruct m.
      * destruct rest'; [|discriminate]. simpl in B1. inversion B1; subst s'.
        exists h. subst s3. simpl. exact A3.
      * apply B3. discriminate.
    + rewrite B4, S3. subst s3. simpl. rewrite A4, A2, A3. subst s1. simpl.
      unfold step_event. rewrite !rev_app_distr. simpl. rewrite <- !app_assoc. simpl. reflexivity.
Qed.
End Boundary.

(* ---- a whole run ------------------------------------------------------------------------- *)
(* Well-formed data: n+1 >= 2 target times, n rows in each drive table, last time non-zero. *)
Theorem run_closed_form :
  forall (P : params) (s0 : St) (t0 t1 tn : A) (rest : list A) (o d p : Row) (os ds ps : list Row),
  p_times P = t0 :: t1 :: rest -> p_omega P = o :: os -> p_delta P = d :: ds -> p_phi P = p :: ps ->
  length os = length rest -> length ds = length rest -> length ps = length rest ->
  lastA (p_times P) = Some tn -> a_eqb ar tn (zero ar) = false ->
  exists sf, run P s0 = Ok sf /\
    sv_state sf = fold_steps P t0 (t1 :: rest) (o :: os) (d :: ds) (p :: ps) s0 /\
    rev (sv_ev sf) = initial_events P tn t0 t1 o d p s0 ++
                     steps_events P tn t0 (t1 :: rest) (o :: os) (d :: ds) (p :: ps) s0.
Proof.
  intros P s0 t0 t1 tn rest o d p os ds ps Ht Ho Hd Hp Lo Ld Lp Hlast Hnz.
  unfold SvMachine.run, init_ok. rewrite Hlast. simpl. rewrite Hnz. simpl.
  (* _apply_observables(0) *)
  assert (N0 : nth_error (p_times P) 0 = Some t0) by now rewrite Ht.
  assert (I : exists s1, apply_observables P 0 (MkSv s0 None []) = Ok s1 /\ sv_state s1 = s0 /\
                         sv_ev s1 = rev (initial_events P tn t0 t1 o d p s0)).
  { unfold SvMachine.apply_observables.
    change 0 with (Z.of_nat 0). rewrite (norm_time_ok P tn Hlast Hnz 0 t0 N0). simpl.
    unfold initial_events.
    destruct (callbacks_at P (a_div ar t0 tn)) eqn:Ec.
    - simpl. eexists. split; [reflexivity|]. now split.
    - unfold nthZ. simpl. rewrite Ho, Hd, Hp, Ht. simpl.
      match goal with |- context [fold_left ?f ?l ?s] =>
        pose proof (fold_emit_callbacks l (a_div ar t0 tn) s0
                      (get_ham (eff_row P o) (eff_row P d) (eff_row P p) (eff_U P (umat (midpoint ar t0 t1))))
                      s) as F end.
      simpl in F. destruct F as (F1 & F2 & F3).
      eexists. split; [reflexivity|]. rewrite F1, F3. simpl. split; [reflexivity|].
      unfold callback_events, initial_ham. rewrite Ec. simpl.
      rewrite <- !app_assoc. reflexivity. }
  destruct I as (s1 & I1 & I2 & I3). rewrite I1. simpl. rewrite Ho. simpl length.
  destruct (steps_from_spec P tn Hlast Hnz (S (length os)) 0 t0 (t1 :: rest) (o :: os) (d :: ds) (p :: ps) s1)
    as (sf & B1 & B2 & _ & B4); simpl; try congruence; try (f_equal; congruence).
  exists sf. split; [exact B1|]. rewrite B2, B4, I2, I3. split; [reflexivity|].
  rewrite rev_app_distr, !rev_involutive. reflexivity.
Qed.

(* ---- projections of the closed form ---------------------------------------------------- *)
Definition step_of (e : event) : list event :=
  match e with EvStep _ _ _ _ _ _ => [e] | _ => [] end.
Definition query_of (e : event) : list A :=
  match e with EvQueryU t => [t] | _ => [] end.
Definition boundary_of (e : event) : list event :=
  match e with EvCallback _ _ _ _ => [e] | EvStats _ _ _ => [e] | _ => [] end.

(* the stepper calls: one per interval, in order, each on the state produced by the previous one *)
Fixpoint expected_steps (P : params) (t0 : A) (rest : list A) (os ds ps : list Row) (s : St) : list event :=
  match rest, os, ds, ps with
  | t1 :: rest', o :: os', d :: ds', p :: ps' =>
    step_event P t0 t1 o d p s :: expected_steps P t1 rest' os' ds' ps' (fst (do_step P t0 t1 o d p s))
  | _, _, _, _ => []
  end.

Lemma flat_map_step_callbacks : forall P t s h, flat_map step_of (callback_events P t s h) = [].
Proof. intros. unfold callback_events. induction (callbacks_at P t); simpl; auto. Qed.

Lemma steps_events_steps : forall P tn rest t0 os ds ps s,
  flat_map step_of (steps_events P tn t0 rest os ds ps s) = expected_steps P t0 rest os ds ps s.
Proof.
  induction rest; intros; simpl; [reflexivity|].
  destruct os; [reflexivity|]. destruct ds; [reflexivity|]. destruct ps; [reflexivity|].
  simpl. rewrite !flat_map_app, flat_map_step_callbacks. simpl. now rewrite IHrest.
Qed.

Lemma initial_events_no_step : forall P tn t0 t1 o d p s0,
  flat_map step_of (initial_events P tn t0 t1 o d p s0) = [].
Proof.
  intros. unfold initial_events. destruct (callbacks_at P (a_div ar t0 tn)) eqn:E; [reflexivity|].
  simpl. apply flat_map_step_callbacks.
Qed.

Lemma expected_steps_length : forall P rest t0 os ds ps s,
  length os = length rest -> length ds = length rest -> length ps = length rest ->
  length (expected_steps P t0 rest os ds ps s) = length rest.
Proof.
  induction rest; intros; simpl; [reflexivity|].
  destruct os; [discriminate|]. destruct ds; [discriminate|]. destruct ps; [discriminate|].
  simpl in *. f_equal. apply IHrest; lia.
Qed.

(* what every boundary receives: callbacks then statistics at boundary k+1 see the state produced by
   stepper call k and the Hamiltonian object returned by that same call, at time t_{k+1}/t_n *)
Fixpoint expected_boundaries (P : params) (tn t0 : A) (rest : list A) (os ds ps : list Row) (s : St)
  : list event :=
  match rest, os, ds, ps with
  | t1 :: rest', o :: os', d :: ds', p :: ps' =>
    let s' := fst (do_step P t0 t1 o d p s) in
    let h := snd (do_step P t0 t1 o d p s) in
    callback_events P (a_div ar t1 tn) s' h ++ [EvStats (a_div ar t1 tn) s' (Some h)] ++
    expected_boundaries P tn t1 rest' os' ds' ps' s'
  | _, _, _, _ => []
  end.

Lemma boundary_callbacks : forall P t s h,
  flat_map boundary_of (callback_events P t s h) = callback_events P t s h.
Proof. intros. unfold callback_events. induction (callbacks_at P t); simpl; auto. now rewrite IHl. Qed.

Lemma steps_events_boundaries : forall P tn rest t0 os ds ps s,
  flat_map boundary_of (steps_events P tn t0 rest os ds ps s) = expected_boundaries P tn t0 rest os ds ps s.
Proof.
  induction rest; intros; simpl; [reflexivity|].
  destruct os; [reflexivity|]. destruct ds; [reflexivity|]. destruct ps; [reflexivity|].
  simpl. rewrite !flat_map_app, boundary_callbacks. simpl. now rewrite IHrest.
Qed.

Lemma initial_events_boundaries : forall P tn t0 t1 o d p s0,
  flat_map boundary_of (initial_events P tn t0 t1 o d p s0) =
  callback_events P (a_div ar t0 tn) s0 (initial_ham P t0 t1 o d p).
Proof.
  intros. unfold initial_events. destruct (callbacks_at P (a_div ar t0 tn)) eqn:E.
  - unfold callback_events. now rewrite E.
  - simpl. apply boundary_callbacks.
Qed.

(* interaction-matrix queries: the midpoint of the first interval when t_0 is observed, then the START
   of every interval *)
Fixpoint butlast (l : list A) : list A :=
  match l with [] => [] | [_] => [] | x :: r => x :: butlast r end.

Lemma query_callbacks : forall P t s h, flat_map query_of (callback_events P t s h) = [].
Proof. intros. unfold callback_events. induction (callbacks_at P t); simpl; auto. Qed.

Lemma steps_events_queries : forall P tn rest t0 os ds ps s,
  length os = length rest -> length ds = length rest -> length ps = length rest ->
  flat_map query_of (steps_events P tn t0 rest os ds ps s) = butlast (t0 :: rest).
Proof.
  induction rest; intros t0 os ds ps s Lo Ld Lp; simpl; [reflexivity|].
  destruct os; [discriminate|]. destruct ds; [discriminate|]. destruct ps; [discriminate|].
  simpl. rewrite !flat_map_app, query_callbacks. simpl. f_equal.
  simpl in *. rewrite IHrest by lia. reflexivity.
Qed.

(* the per-interval maps s |-> stepper(...)(s), in order; the final state is their composition *)
Fixpoint step_funs (P : params) (t0 : A) (rest : list A) (os ds ps : list Row) : list (St -> St) :=
  match rest, os, ds, ps with
  | t1 :: rest', o :: os', d :: ds', p :: ps' =>
    (fun s => fst (do_step P t0 t1 o d p s)) :: step_funs P t1 rest' os' ds' ps'
  | _, _, _, _ => []
  end.

Lemma fold_steps_funs : forall P rest t0 os ds ps s,
  fold_steps P t0 rest os ds ps s = fold_left (fun s f => f s) (step_funs P t0 rest os ds ps) s.
Proof.
  induction rest; intros; simpl; [reflexivity|].
  destruct os; [reflexivity|]. destruct ds; [reflexivity|]. destruct ps; [reflexivity|].
  simpl. apply IHrest.
Qed.

End Proofs.
