(* Proofs about the DMRG part of the emu-mps stepping machine (Model/MpsMachine.v); see Properties/C09.v. *)
From Coq Require Import ZArith List Bool Lia.
From EV Require Import Base.Arith Gen.Brent Model.MpsMachine Proofs.MpsStep Proofs.MpsPhase.
Import ListNotations.
Open Scope Z_scope.

Section P.
Variable A : Type.
Variable ar : Arith A.
Notation mstate := (mstate A).
Notation event := (event A).
Notation same_frame := (@same_frame A).
Notation pos := (@pos A).

Ltac sp := cbn [m_kind m_N m_steps m_times m_sweep m_l2r m_tidx m_cur m_tgt m_nl m_nr m_oc m_thr m_gap m_rf
  m_prevE m_curE m_sweeps m_etol m_maxsw o_norm o_unif o_energy o_same m_ev
  emit set_sweep set_l2r set_tidx set_cur set_tgt set_nl set_nr set_oc set_thr set_gap set_rf set_prevE
  set_curE set_sweeps set_onorm set_ounif set_oenergy set_osame].
Ltac zt := repeat match goal with
  | |- context [(?a <? ?b)%Z] =>
      first [ replace (a <? b)%Z with true by (symmetry; apply Z.ltb_lt; lia)
            | replace (a <? b)%Z with false by (symmetry; apply Z.ltb_ge; lia) ]
  | |- context [(?a <=? ?b)%Z] =>
      first [ replace (a <=? b)%Z with true by (symmetry; apply Z.leb_le; lia)
            | replace (a <=? b)%Z with false by (symmetry; apply Z.leb_gt; lia) ]
  | |- context [(?a =? ?b)%Z] =>
      first [ replace (a =? b)%Z with true by (symmetry; apply Z.eqb_eq; lia)
            | replace (a =? b)%Z with false by (symmetry; apply Z.eqb_neq; lia) ]
  end.
Ltac step := sp; zt; cbn [negb andb orb res_bind].

(* everything a DMRG sweep does not touch except the energy bookkeeping *)
Definition dframe (s s' : mstate) : Prop :=
  m_kind s' = m_kind s /\ m_N s' = m_N s /\ m_steps s' = m_steps s /\ m_times s' = m_times s /\
  m_tidx s' = m_tidx s /\ m_cur s' = m_cur s /\ m_tgt s' = m_tgt s /\ m_prevE s' = m_prevE s /\
  m_sweeps s' = m_sweeps s /\ m_etol s' = m_etol s /\ m_maxsw s' = m_maxsw s /\ o_same s' = o_same s.

Lemma dframe_refl s : dframe s s. Proof. unfold dframe; repeat split. Qed.
Lemma dframe_trans s1 s2 s3 : dframe s1 s2 -> dframe s2 s3 -> dframe s1 s3.
Proof. unfold dframe; intuition congruence. Qed.

(* sweep position without the orthogonality centre (DMRG never asserts on it) *)
Definition dpos (s : mstate) (sweep : Z) (l2r : bool) (nl nr : Z) : Prop :=
  m_sweep s = sweep /\ m_l2r s = l2r /\ m_nl s = nl /\ m_nr s = nr.

Definition dmrg_like (s : mstate) : Prop := m_kind s = DMRG /\ 3 <= m_N s /\ m_tidx s < m_steps s.
Lemma dmrg_like_frame s s' : dframe s s' -> dmrg_like s -> dmrg_like s'.
Proof. unfold dframe, dmrg_like. intros F (H1 & H2 & H3). intuition congruence. Qed.

Lemma progress_is_dmrg s : m_kind s = DMRG -> progress ar s = progress_dmrg ar s.
Proof. unfold progress; intros ->; reflexivity. Qed.

(* one left-to-right minimisation (not the last one of the half sweep) *)
Lemma dmrg_l2r (s : mstate) i e rest :
  dmrg_like s -> 0 <= i < m_N s - 2 -> dpos s i true (i + 1) (m_N s - 1 - i) -> o_energy s = e :: rest ->
  exists s', progress ar s = Ok s' /\ dframe s s' /\
    dpos s' (i + 1) (negb (i + 1 =? m_N s - 2)) (i + 2) (m_N s - 2 - i) /\ m_oc s' = i + 1 /\
    m_curE s' = Some e /\ o_energy s' = rest /\
    m_ev s' = [EvSave A; EvPopR A; EvPushL A i; EvMinimize A i true] ++ m_ev s.
Proof.
  intros (Hk & HN & Ht) Hi (Hsw & Hl & Hnl & Hnr) He.
  rewrite (progress_is_dmrg s Hk). unfold progress_dmrg, is_finished. step. rewrite He. sp. rewrite Hl.
  step. unfold push_l at 1. step. unfold pop_r at 1. step.
  sp. rewrite ?Hsw. destruct (i + 1 =? m_N s - 2) eqn:E; sp; rewrite ?Hsw, ?E;
    (eexists; split; [reflexivity|]); unfold dframe, dpos; sp; rewrite ?Hsw, ?Hnl, ?Hnr;
    repeat split; try lia; try reflexivity; try assumption.
Qed.

(* one right-to-left minimisation that does not finish the sweep *)
Lemma dmrg_r2l (s : mstate) i e rest :
  dmrg_like s -> 2 <= i <= m_N s - 2 -> dpos s i false (i + 1) (m_N s - 1 - i) -> o_energy s = e :: rest ->
  exists s', progress ar s = Ok s' /\ dframe s s' /\
    dpos s' (i - 1) false i (m_N s - i) /\ m_oc s' = i /\
    m_curE s' = Some e /\ o_energy s' = rest /\
    m_ev s' = [EvSave A; EvPopL A; EvPushR A (i + 1); EvMinimize A i false] ++ m_ev s.
Proof.
  intros (Hk & HN & Ht) Hi (Hsw & Hl & Hnl & Hnr) He.
  rewrite (progress_is_dmrg s Hk). unfold progress_dmrg, is_finished. step. rewrite He. sp. rewrite Hl.
  step. unfold push_r at 1. step. unfold pop_l at 1. step. step.
  eexists; split; [reflexivity|]. unfold dframe, dpos. sp. rewrite Hsw, Hnl, Hnr.
  repeat split; try lia; try reflexivity; try assumption.
Qed.
End P.
