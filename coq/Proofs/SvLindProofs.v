(* Proofs about the Lindbladian model (Model/SvHam.v): every step is a dense matrix product. *)
From Coq Require Import List Arith Bool Lia Ring.
From EV Require Import Model.SvBase Model.SvHam Proofs.SvBaseProofs Proofs.SvHamProofs.
Import ListNotations.

(* ---- a D x D matrix stored row-major is a register of 2N qubits: coordinates of r*D + c ----------- *)
Lemma qrest_left N q : q < N -> qrest (N + N) q = qrest N q * 2 ^ N.
Proof. intros. unfold qrest. replace (N + N - q - 1) with ((N - q - 1) + N) by lia. apply Nat.pow_add_r. Qed.
Lemma qrest_right N q : qrest (N + N) (q + N) = qrest N q.
Proof. unfold qrest. f_equal. lia. Qed.

Lemma coords_left N q r c : q < N -> c < 2 ^ N ->
  co0 2 (qrest N q * 2 ^ N) (r * 2 ^ N + c) = co0 2 (qrest N q) r /\
  co1 2 (qrest N q * 2 ^ N) (r * 2 ^ N + c) = co1 2 (qrest N q) r /\
  co2 (qrest N q * 2 ^ N) (r * 2 ^ N + c) = co2 (qrest N q) r * 2 ^ N + c.
Proof.
  intros Hq Hc. set (d := qrest N q). set (D := 2 ^ N) in *.
  pose proof (qrest_pos N q) as Pd. fold d in Pd.
  pose proof (flat_co 2 d r ltac:(lia) Pd) as E. unfold flat3 in E.
  pose proof (co1_lt 2 d r ltac:(lia)) as H1. pose proof (co2_lt d r Pd) as H2.
  assert (E' : r * D + c = flat3 2 (d * D) (co0 2 d r) (co1 2 d r) (co2 d r * D + c)).
  { unfold flat3. nia. }
  rewrite E'. apply co_flat; [assumption | nia].
Qed.

Lemma coords_right N q r c : q < N ->
  co0 2 (qrest N q) (r * 2 ^ N + c) = r * 2 ^ q + co0 2 (qrest N q) c /\
  co1 2 (qrest N q) (r * 2 ^ N + c) = co1 2 (qrest N q) c /\
  co2 (qrest N q) (r * 2 ^ N + c) = co2 (qrest N q) c.
Proof.
  intros Hq. rewrite (pow_split N q Hq). set (d := qrest N q).
  pose proof (qrest_pos N q) as Pd. fold d in Pd.
  pose proof (flat_co 2 d c ltac:(lia) Pd) as E. unfold flat3 in E.
  pose proof (co1_lt 2 d c ltac:(lia)) as H1. pose proof (co2_lt d c Pd) as H2.
  assert (E' : r * (2 ^ q * (2 * d)) + c = flat3 2 d (r * 2 ^ q + co0 2 d c) (co1 2 d c) (co2 d c)).
  { unfold flat3. nia. }
  rewrite E'. apply co_flat; assumption.
Qed.

Lemma divmod_rc D r c : c < D -> (r * D + c) / D = r /\ (r * D + c) mod D = c.
Proof.
  intros. split.
  - rewrite Nat.div_add_l by lia. rewrite Nat.div_small by assumption. lia.
  - rewrite Nat.add_comm, Nat.mod_add by lia. apply Nat.mod_small; assumption.
Qed.

Section LindProofs.
Variable o : Kops.
Hypothesis laws : Klaws o.
Add Ring Kr3 : (K_ring o laws).
Open Scope K_scope.
Notation zero := (k0 o).
Notation one := (k1 o).
Notation cj := (kconj o).
Notation L := (list o).

(* dense D x D matrices as functions *)
Definition mmul (D : nat) (A B : nat -> nat -> o) (r c : nat) : o := ksumn D (fun k => A r k * B k c).
Definition dag (A : nat -> nat -> o) (r c : nat) : o := cj (A c r).
Definition rho_of (D : nat) (dm : L) (r c : nat) : o := get dm (r * D + c).

Lemma rc_lt D r c : r < D -> c < D -> (r * D + c < D * D)%nat.
Proof. nia. Qed.

Lemma m2conj_entry (h : M2 o) b b' : b < 2 -> b' < 2 -> m2 (m2conj h) b b' = cj (m2 h b b').
Proof.
  intros. destruct h as [[[h00 h01] h10] h11]. unfold m2conj, m2tab.
  destruct b as [|[|b]]; [| |lia]; destruct b' as [|[|b']]; try lia; reflexivity.
Qed.

Lemma site_conj N n h k k' : cj (site o N n h k k') = site o N n (m2conj h) k k'.
Proof. unfold site. rewrite (conj_kif o laws). rewrite m2conj_entry by apply bit_lt. reflexivity. Qed.

(* apply_local = left multiplication by the single-site operator on qubit q (both the CPU and GPU path) *)
Lemma apply_local_spec cpu N (dm : L) op q :
  length dm = (2 ^ N * 2 ^ N)%nat -> q < N ->
  length (apply_local o cpu dm op q) = (2 ^ N * 2 ^ N)%nat /\
  forall r c, r < 2 ^ N -> c < 2 ^ N ->
    get (apply_local o cpu dm op q) (r * 2 ^ N + c) = site_apply o N q op (fun r' => get dm (r' * 2 ^ N + c)) r.
Proof.
  intros Ld Hq. unfold apply_local.
  assert (E : (if cpu then matmul_batched o op (rest (length dm) (2 ^ q) 2) dm
               else matmul_2x2_with_batched o op (rest (length dm) (2 ^ q) 2) dm)
              = matmul_batched o op (rest (length dm) (2 ^ q) 2) dm).
  { destruct cpu; [reflexivity | apply (matmul_2x2_batched_spec o laws)]. }
  rewrite E. clear E. rewrite Ld, <- Nat.pow_add_r, rest_pow by lia. rewrite qrest_left by assumption.
  destruct (matmul_batched_spec o op (qrest N q * 2 ^ N) dm) as [Ll G].
  split. { rewrite Ll, Ld, Nat.pow_add_r. reflexivity. }
  intros r c Hr Hc. rewrite G by (rewrite Ld; apply rc_lt; assumption).
  destruct (coords_left N q r c Hq Hc) as [E0 [E1 E2]]. rewrite E0, E1, E2.
  unfold site_apply, setbit. rewrite bit_co1.
  assert (F : (forall b, flat3 2 (qrest N q * 2 ^ N) (co0 2 (qrest N q) r) b (co2 (qrest N q) r * 2 ^ N + c)
                      = flat3 2 (qrest N q) (co0 2 (qrest N q) r) b (co2 (qrest N q) r) * 2 ^ N + c)%nat).
  { intros b. unfold flat3. lia. }
  rewrite !F. reflexivity.
Qed.

(* apply_T = right multiplication by the adjoint of the single-site operator *)
Lemma apply_T_spec cpu N (dm : L) op q :
  length dm = (2 ^ N * 2 ^ N)%nat -> q < N ->
  length (apply_T o cpu N dm op q) = (2 ^ N * 2 ^ N)%nat /\
  forall r c, r < 2 ^ N -> c < 2 ^ N ->
    get (apply_T o cpu N dm op q) (r * 2 ^ N + c) =
    site_apply o N q (m2conj op) (fun c' => get dm (r * 2 ^ N + c')) c.
Proof.
  intros Ld Hq. unfold apply_T.
  assert (E : (if cpu then matmul_batched o (m2conj op) (rest (length dm) (2 ^ (q + N)) 2) dm
               else matmul_2x2_with_batched o (m2conj op) (rest (length dm) (2 ^ (q + N)) 2) dm)
              = matmul_batched o (m2conj op) (rest (length dm) (2 ^ (q + N)) 2) dm).
  { destruct cpu; [reflexivity | apply (matmul_2x2_batched_spec o laws)]. }
  rewrite E. clear E. rewrite Ld, <- Nat.pow_add_r, rest_pow by lia. rewrite qrest_right.
  destruct (matmul_batched_spec o (m2conj op) (qrest N q) dm) as [Ll G].
  split. { rewrite Ll, Ld, Nat.pow_add_r. reflexivity. }
  intros r c Hr Hc. rewrite G by (rewrite Ld; apply rc_lt; assumption).
  destruct (coords_right N q r c Hq) as [E0 [E1 E2]]. rewrite E0, E1, E2.
  unfold site_apply, setbit. rewrite bit_co1.
  assert (F : (forall b, flat3 2 (qrest N q) (r * 2 ^ q + co0 2 (qrest N q) c) b (co2 (qrest N q) c)
                      = r * 2 ^ N + flat3 2 (qrest N q) (co0 2 (qrest N q) c) b (co2 (qrest N q) c))%nat).
  { intros b. unfold flat3. rewrite (pow_split N q Hq). lia. }
  rewrite !F. reflexivity.
Qed.

(* the matrix "H_eff" of the code: diag(Uint) + sum_q (local_terms_q)^(q), local_terms_q = h_q + S *)
Definition heff_site (cplx : bool) (omh delta cosphi sinphi : L) (S : M2 o) (q : nat) : M2 o :=
  local_terms o cplx (get omh q) (get delta q) (get cosphi q) (get sinphi q) S.

Lemma h_eff_spec cpu cplx N (omh delta cosphi sinphi : L) U S (dm : L) :
  length dm = (2 ^ N * 2 ^ N)%nat -> length omh = N ->
  length (h_eff o cpu cplx omh delta cosphi sinphi (create_diagonal o false N delta U) S dm) = (2 ^ N * 2 ^ N)%nat /\
  forall r c, r < 2 ^ N -> c < 2 ^ N ->
    get (h_eff o cpu cplx omh delta cosphi sinphi (create_diagonal o false N delta U) S dm) (r * 2 ^ N + c) =
    mmul (2 ^ N) (Hdense o N (heff_site cplx omh delta cosphi sinphi S) (Uint o N U)) (rho_of (2 ^ N) dm) r c.
Proof.
  intros Ld Lo. unfold h_eff.
  set (body := fun (H : L) (q : nat) => vadd H (apply_local o cpu dm (heff_site cplx omh delta cosphi sinphi S q) q)).
  destruct (fold_additive o laws body
              (fun q K => get (apply_local o cpu dm (heff_site cplx omh delta cosphi sinphi S q) q) K)
              ltac:(intros; apply vadd_spec) ltac:(intros; apply vadd_spec; assumption)
              (seq 0 (length omh)) (zeros (length dm))) as [Lf Gf].
  unfold zeros in Lf at 2. rewrite length_tab in Lf.
  match goal with |- context [fold_left ?f (seq 0 (length omh)) (zeros (length dm))] => change f with body end.
  split. { rewrite (proj1 (vadd_spec o _ _)), Lf. exact Ld. }
  intros r c Hr Hc. pose proof (rc_lt _ r c Hr Hc) as HK.
  rewrite (proj2 (vadd_spec o _ _)) by (rewrite Lf, Ld; exact HK).
  rewrite Gf by (unfold zeros; rewrite length_tab, Ld; exact HK).
  rewrite get_zeros. unfold apply_interaction. rewrite get_tab by (rewrite Ld; exact HK).
  destruct (diag_spec o laws false N delta U) as [Ldg Gdg].
  rewrite Ldg, Ld. rewrite Nat.div_mul by (pose proof (pow2_pos N); lia).
  rewrite (proj1 (divmod_rc (2 ^ N) r c Hc)). rewrite Gdg by assumption.
  unfold mmul. change (ksumn (2 ^ N) (fun k => Hdense o N (heff_site cplx omh delta cosphi sinphi S) (Uint o N U) r k *
                                   rho_of (2 ^ N) dm k c))
    with (matvec o (2 ^ N) (Hdense o N (heff_site cplx omh delta cosphi sinphi S) (Uint o N U))
            (fun k => rho_of (2 ^ N) dm k c) r).
  rewrite (dense_apply o laws) by assumption. rewrite Lo.
  assert (E : ksum (seq 0 N) (fun a => get (apply_local o cpu dm (heff_site cplx omh delta cosphi sinphi S a) a) (r * 2 ^ N + c))
            = ksumn N (fun n => site_apply o N n (heff_site cplx omh delta cosphi sinphi S n) (fun k => rho_of (2 ^ N) dm k c) r)).
  { apply ksum_ext. intros q Hq. apply in_seq in Hq.
    rewrite (proj2 (apply_local_spec cpu N dm _ q Ld ltac:(lia))) by assumption. reflexivity. }
  rewrite E. unfold rho_of. ring.
Qed.

Lemma conjT_spec D (x : L) : length x = (D * D)%nat ->
  length (conjT o D x) = (D * D)%nat /\
  forall r c, r < D -> c < D -> get (conjT o D x) (r * D + c) = cj (get x (c * D + r)).
Proof.
  intros Lx. unfold conjT. split. { rewrite length_tab. exact Lx. }
  intros r c Hr Hc. rewrite get_tab by (rewrite Lx; apply rc_lt; assumption).
  destruct (divmod_rc D r c Hc) as [E1 E2]. rewrite E1, E2. reflexivity.
Qed.

(* L rho L^dagger for the jump operator Lk on qubit q *)
Lemma jump_spec cpu N (dm : L) Lk q :
  length dm = (2 ^ N * 2 ^ N)%nat -> q < N ->
  length (apply_T o cpu N (apply_local o cpu dm Lk q) Lk q) = (2 ^ N * 2 ^ N)%nat /\
  forall r c, r < 2 ^ N -> c < 2 ^ N ->
    get (apply_T o cpu N (apply_local o cpu dm Lk q) Lk q) (r * 2 ^ N + c) =
    mmul (2 ^ N) (mmul (2 ^ N) (site o N q Lk) (rho_of (2 ^ N) dm)) (dag (site o N q Lk)) r c.
Proof.
  intros Ld Hq. destruct (apply_local_spec cpu N dm Lk q Ld Hq) as [L1 G1].
  destruct (apply_T_spec cpu N _ Lk q L1 Hq) as [L2 G2]. split; [exact L2|].
  intros r c Hr Hc. rewrite G2 by assumption. unfold mmul, dag.
  rewrite (ksumn_ext o _ _ (fun k' => site o N q (m2conj Lk) c k' *
              site_apply o N q Lk (fun r' => get dm (r' * 2 ^ N + k')) r)).
  - rewrite (site_apply_dense o laws) by assumption. unfold site_apply.
    rewrite !G1 by (try assumption; apply setbit_lt; auto). reflexivity.
  - intros k' Hk'. rewrite site_conj. rewrite (site_apply_dense o laws) by assumption. unfold rho_of. ring.
Qed.

(* ---- __matmul__ ---------------------------------------------------------------------------------------- *)
Theorem lind_apply_general cpu N omega delta phinz cosphi sinphi U Ls (dm : L) :
  length omega = N -> length dm = (2 ^ N * 2 ^ N)%nat ->
  let D := 2 ^ N in
  let Heff := Hdense o N (heff_site (any_nonzero phinz) (halve o omega) delta cosphi sinphi (compute_noise o Ls))
                     (Uint o N U) in
  let rho := rho_of D dm in
  length (lind_matmul o cpu N omega delta phinz cosphi sinphi U Ls dm) = (D * D)%nat /\
  forall r c, r < D -> c < D ->
    get (lind_matmul o cpu N omega delta phinz cosphi sinphi U Ls dm) (r * D + c) =
    mmul D Heff rho r c - cj (mmul D Heff rho c r) +
    kI o * ksumn N (fun q => ksum Ls (fun Lk => mmul D (mmul D (site o N q Lk) rho) (dag (site o N q Lk)) r c)).
Proof.
  intros Lo Ld D Heff rho. unfold lind_matmul.
  assert (Lh : length (halve o omega) = N) by (unfold halve; rewrite map_length; exact Lo).
  destruct (h_eff_spec cpu (any_nonzero phinz) N (halve o omega) delta cosphi sinphi U (compute_noise o Ls) dm Ld Lh)
    as [LH GH].
  set (Hd := h_eff o cpu (any_nonzero phinz) (halve o omega) delta cosphi sinphi
               (create_diagonal o false N delta U) (compute_noise o Ls) dm) in *.
  destruct (conjT_spec (2 ^ N) Hd LH) as [LC GC].
  (* the jump sum *)
  set (inner := fun q (acc : L) Lk => vadd acc (apply_T o cpu N (apply_local o cpu dm Lk q) Lk q)).
  assert (Hin : forall q acc, length (fold_left (inner q) Ls acc) = length acc /\
            forall K, K < length acc -> get (fold_left (inner q) Ls acc) K =
              get acc K + ksum Ls (fun Lk => get (apply_T o cpu N (apply_local o cpu dm Lk q) Lk q) K)).
  { intros q acc.
    apply (fold_additive o laws (inner q) (fun Lk K => get (apply_T o cpu N (apply_local o cpu dm Lk q) Lk q) K)).
    - intros; apply vadd_spec.
    - intros; apply vadd_spec; assumption. }
  destruct (fold_additive o laws (fun acc q => fold_left (inner q) Ls acc)
              (fun q K => ksum Ls (fun Lk => get (apply_T o cpu N (apply_local o cpu dm Lk q) Lk q) K))
              (fun d a => proj1 (Hin a d)) (fun d a k Hk => proj2 (Hin a d) k Hk)
              (seq 0 N) (zeros (length dm))) as [LL GL].
  unfold zeros in LL at 2. rewrite length_tab in LL.
  match goal with |- context [fold_left ?f (seq 0 N) (zeros (length dm))] =>
    change f with (fun acc q => fold_left (inner q) Ls acc) end.
  set (LLv := fold_left (fun acc q => fold_left (inner q) Ls acc) (seq 0 N) (zeros (length dm))) in *.
  split.
  { rewrite (proj1 (vadd_spec o _ _)), (proj1 (vsub_spec o _ _)). exact LH. }
  intros r c Hr Hc. pose proof (rc_lt _ r c Hr Hc) as HK. fold D in HK.
  rewrite (proj2 (vadd_spec o _ _)) by (rewrite (proj1 (vsub_spec o _ _)), LH; exact HK).
  rewrite (proj2 (vsub_spec o _ _)) by (rewrite LH; exact HK).
  rewrite (proj2 (vscale_spec o _ _)) by (rewrite LL, Ld; exact HK).
  unfold D. rewrite GC by assumption. rewrite !GH by assumption.
  rewrite GL by (unfold zeros; rewrite length_tab, Ld; exact HK). rewrite get_zeros.
  f_equal. f_equal. unfold ksumn.
  transitivity (ksum (seq 0 N) (fun q => ksum Ls (fun Lk =>
      mmul (2 ^ N) (mmul (2 ^ N) (site o N q Lk) (rho_of (2 ^ N) dm)) (dag (site o N q Lk)) r c))); [|reflexivity].
  replace (zero + ksum (seq 0 N) (fun a => ksum Ls (fun Lk =>
             get (apply_T o cpu N (apply_local o cpu dm Lk a) Lk a) (r * 2 ^ N + c))))
    with (ksum (seq 0 N) (fun a => ksum Ls (fun Lk =>
             get (apply_T o cpu N (apply_local o cpu dm Lk a) Lk a) (r * 2 ^ N + c)))) by ring.
  apply ksum_ext. intros q Hq. apply in_seq in Hq. apply ksum_ext. intros Lk _.
  apply (proj2 (jump_spec cpu N dm Lk q Ld ltac:(lia))); assumption.
Qed.

(* for Hermitian rho,  (H_eff rho)^dagger = rho H_eff^dagger *)
Lemma dagger_product D (A rho : nat -> nat -> o) r c :
  (forall a b, a < D -> b < D -> rho a b = cj (rho b a)) -> r < D ->
  cj (mmul D A rho c r) = mmul D rho (dag A) r c.
Proof.
  intros Hh Hr. unfold mmul, dag, ksumn. rewrite (ksum_conj o laws).
  apply ksum_ext. intros k Hk. apply in_seq in Hk.
  rewrite (conj_mul o laws). rewrite (Hh r k) by lia. ring.
Qed.

Theorem lind_apply_spec cpu N omega delta phinz cosphi sinphi U Ls (dm : L) :
  length omega = N -> length dm = (2 ^ N * 2 ^ N)%nat ->
  let D := 2 ^ N in
  let Heff := Hdense o N (heff_site (any_nonzero phinz) (halve o omega) delta cosphi sinphi (compute_noise o Ls))
                     (Uint o N U) in
  let rho := rho_of D dm in
  (forall a b, a < D -> b < D -> rho a b = cj (rho b a)) ->
  forall r c, r < D -> c < D ->
    get (lind_matmul o cpu N omega delta phinz cosphi sinphi U Ls dm) (r * D + c) =
    mmul D Heff rho r c - mmul D rho (dag Heff) r c +
    kI o * ksumn N (fun q => ksum Ls (fun Lk => mmul D (mmul D (site o N q Lk) rho) (dag (site o N q Lk)) r c)).
Proof.
  intros Lo Ld D Heff rho Hh r c Hr Hc.
  rewrite (proj2 (lind_apply_general cpu N omega delta phinz cosphi sinphi U Ls dm Lo Ld)) by assumption.
  fold D Heff rho. rewrite (dagger_product D Heff rho r c Hh Hr). reflexivity.
Qed.

(* ---- the 2x2 ingredients of H_eff --------------------------------------------------------------------- *)
(* compute_noise:  S[b][b'] = -(1/2) i * sum_k (L_k^dagger L_k)[b][b'] *)
Lemma compute_noise_spec Ls b b' : b < 2 -> b' < 2 ->
  m2 (compute_noise o Ls) b b' =
  (- (khalf o * kI o)) * ksum Ls (fun Lk => cj (m2 Lk 0 b) * m2 Lk 0 b' + cj (m2 Lk 1 b) * m2 Lk 1 b').
Proof.
  intros Hb Hb'. unfold compute_noise.
  assert (G : forall acc, m2 (fold_left (fun acc Lk => m2add acc (m2mul (m2mH Lk) Lk)) Ls acc) b b' =
     m2 acc b b' + ksum Ls (fun Lk => cj (m2 Lk 0 b) * m2 Lk 0 b' + cj (m2 Lk 1 b) * m2 Lk 1 b')).
  { induction Ls as [|Lk Ls' IH]; intros acc; simpl.
    - ring.
    - rewrite IH. destruct acc as [[[a00 a01] a10] a11]. destruct Lk as [[[l00 l01] l10] l11].
      destruct b as [|[|b]]; [| |lia]; destruct b' as [|[|b']]; try lia; cbn; ring. }
  set (s := fold_left (fun acc Lk => m2add acc (m2mul (m2mH Lk) Lk)) Ls m2zero) in *.
  assert (E : m2 (m2tab (fun b b' => (- (khalf o * kI o)) * m2 s b b')) b b' = (- (khalf o * kI o)) * m2 s b b').
  { destruct b as [|[|b]]; [| |lia]; destruct b' as [|[|b']]; try lia; reflexivity. }
  rewrite E. unfold s. rewrite G.
  replace (m2 (@m2zero o) b b') with zero.
  - ring.
  - destruct b as [|[|b]]; [| |lia]; destruct b' as [|[|b']]; try lia; reflexivity.
Qed.

(* _local_terms_hamiltonian:  [[S00, w(cos - i sin) + S01], [w(cos + i sin) + S10, -delta + S11]]
   (real path: cos = 1, sin = 0) *)
Lemma local_terms_spec (cplx : bool) (w d cs sn : o) (S : M2 o) :
  let cs' : o := if cplx then cs else one in
  let sn' : o := if cplx then sn else zero in
  local_terms o cplx w d cs sn S =
  (m2 S 0 0, w * (cs' - kI o * sn') + m2 S 0 1, w * (cs' + kI o * sn') + m2 S 1 0, - d + m2 S 1 1).
Proof.
  destruct S as [[[s00 s01] s10] s11]. unfold local_terms, m2tab, sigmax, sigmay, n_op.
  destruct cplx; cbn; repeat (f_equal; try ring).
Qed.

End LindProofs.
