(* C09: a whole DMRG time step = unconverged sweeps followed by the first converged one. *)
From Coq Require Import ZArith List Bool Lia.
From EV Require Import Base.Arith Gen.Brent Model.MpsMachine Proofs.MpsStep Proofs.MpsPhase Proofs.MpsSweep
  Proofs.MpsTdvpComplete Proofs.MpsTdvpTrace Proofs.DmrgStep Proofs.DmrgPhase Proofs.DmrgSweep Proofs.DmrgContract.
Import ListNotations.
Open Scope Z_scope.

Section P.
Variable A : Type.
Variable ar : Arith A.
Notation mstate := (mstate A).
Notation event := (event A).

(* the energies one sweep consumes: n to the right, the turn, n to the left, the last one *)
Definition block : Type := (list A * A * list A * A)%type.
Definition block_ok (n : nat) (b : block) : Prop :=
  let '(ea, eb, ec, el) := b in length ea = n /\ length ec = n.
Definition block_flat (b : block) : list A := let '(ea, eb, ec, el) := b in ea ++ eb :: ec ++ [el].
Definition block_last (b : block) : A := let '(_, _, _, el) := b in el.

(* a chain of sweeps none of which converges *)
Fixpoint unconverged (prev : option A) (etol : A) (bl : list block) : Prop :=
  match bl with
  | [] => True
  | b :: bl' => converges A ar prev (block_last b) etol = false /\ unconverged (Some (block_last b)) etol bl'
  end.
Fixpoint last_prev (prev : option A) (bl : list block) : option A :=
  match bl with [] => prev | b :: bl' => last_prev (Some (block_last b)) bl' end.

Lemma block_flat_app ea eb ec el (r : list A) : block_flat (ea, eb, ec, el) ++ r = ea ++ eb :: ec ++ el :: r.
Proof. cbn [block_flat]. rewrite <- app_assoc. cbn [app]. rewrite <- app_assoc. reflexivity. Qed.

Lemma no_fill_sweep_trace (n : nat) : flat_map (@fill_of A) (rev (sweep_ev A n)) = [].
Proof.
  assert (Q : forall l : list event, Forall (fun e => @fill_of A e = []) l -> flat_map (@fill_of A) l = []).
  { induction 1 as [|e l He _ IH]; [reflexivity|]. cbn [flat_map]. rewrite He, IH. reflexivity. }
  apply Q. apply Forall_rev. unfold sweep_ev. apply Forall_app. split; [|apply Forall_app; split].
  - induction (zup 0 (S n)) as [|i l IH]; [constructor|]. cbn [flat_map]. apply Forall_app. split; [|exact IH].
    unfold ev_l2r. repeat constructor.
  - induction (zdown (Z.of_nat n + 1) n) as [|i l IH]; [constructor|]. cbn [flat_map]. apply Forall_app. split; [|exact IH].
    unfold ev_r2l. repeat constructor.
  - repeat constructor.
Qed.

(* A DMRG time step: any number of unconverged sweeps (no result is recorded, the previous energy is the
   last sweep's final energy), then the first converged sweep completes the step: exactly one
   fill_results, at the step's end time. *)
Theorem dmrg_step_contract (n : nat) : forall (bl : list block) (s : mstate) (bf : block) (rest : list A)
    (same : bool) (srest : list bool) (next : option A),
  dmrg_like A s -> m_N s = Z.of_nat n + 3 -> dstart A s ->
  Forall (block_ok n) bl -> block_ok n bf ->
  o_energy s = flat_map block_flat bl ++ block_flat bf ++ rest ->
  unconverged (m_prevE s) (m_etol s) bl ->
  converges A ar (last_prev (m_prevE s) bl) (block_last bf) (m_etol s) = true ->
  m_sweeps s + Z.of_nat (length bl) + 1 <= m_maxsw s ->
  o_same s = same :: srest ->
  (m_tidx s + 1 < m_steps s -> exists t, next = Some t /\ nthZ (m_times s) (m_tidx s + 2) = Some t) ->
  (m_steps s <= m_tidx s + 1 -> next = None) ->
  exists s', iter_progress ar ((length bl + 1) * (n + 1 + n + 1)) s = Ok s' /\
    m_tidx s' = m_tidx s + 1 /\ m_cur s' = m_tgt s /\
    m_tgt s' = match next with Some t => t | None => m_tgt s end /\
    (match next with Some _ => dstart A s' | None => True end) /\
    m_sweeps s' = m_sweeps s + Z.of_nat (length bl) + 1 /\ o_energy s' = rest /\ o_same s' = srest /\
    m_prevE s' = last_prev (m_prevE s) bl /\
    (m_kind s' = DMRG /\ m_N s' = m_N s /\ m_steps s' = m_steps s /\ m_times s' = m_times s /\
     m_etol s' = m_etol s /\ m_maxsw s' = m_maxsw s) /\
    exists new, m_ev s' = new ++ m_ev s /\ flat_map (@fill_of A) new = [(m_tidx s, m_tgt s)].
Proof.
  induction bl as [|b bl IH]; intros s bf rest same srest next HT HN HS Hbl Hbf He Hun Hcv Hbud Hsame Hnext Hfin.
  - cbn [flat_map app] in He. destruct bf as [[[ea eb] ec] el]. rewrite block_flat_app in He. cbn [block_last last_prev] in *.
    destruct Hbf as (Hla & Hlc).
    destruct (dmrg_sweep_converged A ar s n ea eb ec el rest HT HN HS Hla Hlc He same srest next Hcv Hsame Hnext Hfin)
      as (s' & Hi & Fk & FN & Fst & Fti & Htx & Hcur & Htg & Hds & Fet & Fmx & Hsm & HpE & Hsw & Hen & Hev).
    exists s'. cbn [length Nat.add Nat.mul]. rewrite Nat.add_0_r.
    split; [exact Hi|]. split; [exact Htx|]. split; [exact Hcur|]. split; [exact Htg|]. split; [exact Hds|].
    split; [rewrite Hsw; cbn; lia|]. split; [exact Hen|]. split; [exact Hsm|]. split; [exact HpE|].
    split; [repeat split; assumption|].
    eexists. split; [rewrite Hev; unfold sweep_trace; rewrite app_comm_cons, app_assoc; reflexivity|].
    rewrite flat_map_app. cbn [flat_map app]. rewrite ?flat_map_app, no_fill_sweep_trace, app_nil_r.
    unfold complete_events. cbn [fill_of]. rewrite rev_app_distr.
    destruct same, next; reflexivity.
  - destruct b as [[[ea eb] ec] el]. inversion Hbl as [|? ? Hb Hbl']; subst. destruct Hb as (Hla & Hlc).
    cbn [flat_map] in He. rewrite <- app_assoc, block_flat_app in He.
    cbn [unconverged block_last] in Hun. destruct Hun as (Hun1 & Hun').
    cbn [last_prev block_last] in Hcv. cbn [length] in Hbud.
    destruct (dmrg_sweep_continue A ar s n ea eb ec el _ HT HN HS Hla Hlc He Hun1 ltac:(lia))
      as (s1 & Hi1 & HS1 & HT1 & HN1 & Hst1 & Hti1 & Htx1 & Hcur1 & Htg1 & Het1 & Hmx1 & Hsm1 & HpE1 & Hsw1 & Hen1 & Hev1).
    destruct (IH s1 bf rest same srest next HT1 ltac:(rewrite HN1; exact HN) HS1 Hbl' Hbf Hen1)
      as (s' & Hi & Htx & Hcur & Htg & Hds & Hsw & Hen & Hsm & HpE & (Fk & FN & Fst & Fti & Fet & Fmx) & new & Hev & Hfl).
    { rewrite HpE1, Het1. exact Hun'. }
    { rewrite HpE1, Het1. exact Hcv. }
    { rewrite Hsw1, Hmx1. lia. }
    { rewrite Hsm1. exact Hsame. }
    { rewrite Htx1, Hst1, Hti1. exact Hnext. }
    { rewrite Htx1, Hst1. exact Hfin. }
    exists s'. change (length ((ea, eb, ec, el) :: bl) + 1)%nat with (S (length bl + 1)).
    cbn [Nat.mul]. rewrite iter_progress_app, Hi1. cbn [res_bind].
    split; [exact Hi|]. split; [rewrite Htx, Htx1; reflexivity|]. split; [rewrite Hcur, Htg1; reflexivity|].
    split; [rewrite Htg, Htg1; reflexivity|]. split; [exact Hds|].
    split; [rewrite Hsw, Hsw1; cbn [length]; lia|]. split; [exact Hen|]. split; [exact Hsm|].
    split; [rewrite HpE, HpE1; reflexivity|].
    split; [repeat split; congruence|].
    exists (new ++ EvSave A :: rev (sweep_ev A n)). split.
    + rewrite Hev, Hev1. unfold sweep_trace. rewrite <- app_assoc. reflexivity.
    + rewrite flat_map_app. cbn [flat_map fill_of app]. rewrite no_fill_sweep_trace, app_nil_r, Hfl, Htx1, Htg1. reflexivity.
Qed.
End P.
