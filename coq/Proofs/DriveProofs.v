(* Proofs about Model/DriveSamples.v at the real-number instance (C22). *)
From Coq Require Import Reals Lra Lia ZArith List Bool Psatz.
From EV Require Import Base.Arith Model.Pchip Model.DriveSamples Proofs.PchipProofs.
Import ListNotations.
Open Scope R_scope.

Notation sampleR := (sample_t R).

(* ---------- midpoints ---------------------------------------------------------------------- *)
Lemma midpoints_length (tt : list R) : length (midpoints ar tt) = pred (length tt).
Proof. induction tt as [|t0 [|t1 r] IH]; cbn in *; auto. Qed.

Lemma midpoints_nth (tt : list R) k : (S k < length tt)%nat ->
  nth k (midpoints ar tt) 0 = (nth k tt 0 + nth (S k) tt 0) / 2.
Proof.
  revert k. induction tt as [|t0 [|t1 r] IH]; intros k Hk; cbn in Hk; try lia.
  destruct k.
  - cbn. unfold half, c1, c2. cbn. field.
  - change (nth k (midpoints ar (t1 :: r)) 0 = (nth k (t1 :: r) 0 + nth (S k) (t1 :: r) 0) / 2).
    apply IH. cbn; lia.
Qed.

(* ---------- clamp -------------------------------------------------------------------------- *)
Lemma clamp0_nonneg v : 0 <= clamp0 ar v.
Proof.
  unfold clamp0, c0. cbn. destruct (Rltb 0 v) eqn:E; [apply Rltb_true in E; lra | lra].
Qed.

Lemma clamp0_id v : 0 <= v -> clamp0 ar v = v.
Proof.
  intros H. unfold clamp0, c0. cbn. destruct (Rltb 0 v) eqn:E; auto. apply Rltb_false in E. lra.
Qed.

Lemma clamp_last_length (l : list R) : length (clamp_last ar l) = length l.
Proof. induction l as [|v [|w r] IH]; cbn in *; auto. Qed.

Lemma clamp_last_nth (l : list R) k : (S k < length l)%nat -> nth k (clamp_last ar l) 0 = nth k l 0.
Proof.
  revert k. induction l as [|v [|w r] IH]; intros k Hk; cbn in Hk; try lia.
  destruct k; [reflexivity|].
  change (nth k (clamp_last ar (w :: r)) 0 = nth k (w :: r) 0). apply IH. cbn; lia.
Qed.

Lemma clamp_last_last (l : list R) : l <> [] ->
  nth (length l - 1) (clamp_last ar l) 0 = clamp0 ar (nth (length l - 1) l 0).
Proof.
  induction l as [|v [|w r] IH]; intros H; [congruence| reflexivity|].
  replace (length (v :: w :: r) - 1)%nat with (S (length (w :: r) - 1)) by (cbn; lia).
  change (nth (length (w :: r) - 1) (clamp_last ar (w :: r)) 0 = clamp0 ar (nth (length (w :: r) - 1) (w :: r) 0)).
  apply IH. discriminate.
Qed.

(* ---------- monadic map --------------------------------------------------------------------- *)
Lemma mapM_ok {T U} (f : T -> res U) (l : list T) ys : mapM f l = Ok ys ->
  length ys = length l /\ forall j dt du, (j < length l)%nat -> f (nth j l dt) = Ok (nth j ys du).
Proof.
  revert ys. induction l as [|x r IH]; intros ys H; cbn in H.
  - inversion H. split; auto. intros; cbn in *; lia.
  - destruct (f x) as [y| |] eqn:Ex; cbn in H; try discriminate.
    destruct (mapM f r) as [ys'| |] eqn:Er; cbn in H; try discriminate.
    inversion H; subst. destruct (IH ys' eq_refl) as [L N]. split; [cbn; lia|].
    intros j dt du Hj. destruct j; [exact Ex|]. cbn. apply N. cbn in Hj. lia.
Qed.

Lemma call_ok_inv (xs ys qs v : list R) : pchip_call ar xs ys qs = Ok v ->
  v = map (pchip_eval ar xs ys) qs /\ length ys = length xs /\ (2 <= length xs)%nat /\ incr xs.
Proof.
  intros H. assert (V : exists ps, pchip_init ar xs ys = Ok ps).
  { unfold pchip_call in H. destruct (pchip_init ar xs ys) as [ps| |]; cbn in H; try discriminate. eauto. }
  apply init_spec in V. destruct V as (A & B & C). rewrite call_spec in H by auto. inversion H. auto.
Qed.

(* ---------- what extract computes -------------------------------------------------------- *)
Definition grid (md : Z) : list R := grid_from ar 0%Z (Z.to_nat md).
Definition interp (md : Z) (sig tmid : list R) : list R := map (pchip_eval ar (grid md) sig) tmid.

Lemma column_ok_inv all_rows g sig tmid is_amp v : column ar all_rows g sig tmid is_amp = Ok v ->
  v = (if is_amp then (if all_rows then map (clamp0 ar) else clamp_last ar) else (fun l => l))
        (map (pchip_eval ar g sig) tmid).
Proof.
  unfold column. destruct (pchip_call ar g sig tmid) as [w| |] eqn:E; cbn; try discriminate.
  apply call_ok_inv in E. destruct E as [-> _]. intros H. inversion H. destruct is_amp, all_rows; reflexivity.
Qed.

Lemma extract_ok_inv r a (samples : list (Z * sampleR)) qids tt md om de ph :
  extract_with ar r a samples qids tt md = Ok (om, de, ph) ->
  IZR md = last tt 0 /\
  quantity ar r a samples qids (grid md) (midpoints ar tt) (@sel_amp R) true = Ok om /\
  quantity ar r a samples qids (grid md) (midpoints ar tt) (@sel_det R) false = Ok de /\
  quantity ar r a samples qids (grid md) (midpoints ar tt) (@sel_phase R) false = Ok ph.
Proof.
  unfold extract_with. cbn [a_eqb a_ofZ R_arith]. change (c0 ar) with 0.
  destruct (Reqb (IZR md) (last tt 0)) eqn:E; cbn [negb]; [|discriminate].
  apply Reqb_true in E. fold (grid md).
  destruct (quantity ar r a samples qids (grid md) (midpoints ar tt) (@sel_amp R) true) as [o| |]; cbn; try discriminate.
  destruct (quantity ar r a samples qids (grid md) (midpoints ar tt) (@sel_det R) false) as [d| |]; cbn; try discriminate.
  destruct (quantity ar r a samples qids (grid md) (midpoints ar tt) (@sel_phase R) false) as [p| |]; cbn; try discriminate.
  intros H. inversion H. auto.
Qed.

Definition kept (samples : list (Z * sampleR)) (qids : list Z) : list Z := filter (addressed samples) qids.

Lemma kept_lookup (samples : list (Z * sampleR)) qids j : (j < length (kept samples qids))%nat ->
  exists s, lookup (nth j (kept samples qids) 0%Z) samples = Some s.
Proof.
  intros Hj. assert (In (nth j (kept samples qids) 0%Z) (kept samples qids)) by (apply nth_In; auto).
  apply filter_In in H. destruct H as [_ H]. unfold addressed in H.
  destruct (lookup (nth j (kept samples qids) 0%Z) samples); [eauto|discriminate].
Qed.

(* the source today (all_atoms = false): one column per ADDRESSED atom, in register order; each column
   is the PCHIP interpolation of that atom's samples at the step midpoints *)
Lemma quantity_filtered r (samples : list (Z * sampleR)) qids g tmid sel is_amp cols :
  quantity ar r false samples qids g tmid sel is_amp = Ok cols ->
  length cols = length (kept samples qids) /\
  forall j, (j < length (kept samples qids))%nat -> exists s,
    lookup (nth j (kept samples qids) 0%Z) samples = Some s /\
    nth j cols [] = (if is_amp then (if r then map (clamp0 ar) else clamp_last ar) else (fun l => l))
                    (map (pchip_eval ar g (sel s)) tmid).
Proof.
  unfold quantity. intros H. apply mapM_ok in H. destruct H as [L N]. split; [exact L|].
  intros j Hj. destruct (kept_lookup samples qids j Hj) as [s Hs]. exists s. split; auto.
  specialize (N j 0%Z [] Hj). fold (kept samples qids) in N. rewrite Hs in N.
  apply column_ok_inv in N. exact N.
Qed.

(* after the fix of F-05 (all_atoms = true): one column per REGISTER atom, zero when unaddressed *)
Lemma quantity_all_atoms r (samples : list (Z * sampleR)) qids g tmid sel is_amp cols :
  quantity ar r true samples qids g tmid sel is_amp = Ok cols ->
  length cols = length qids /\
  forall j, (j < length qids)%nat ->
    match lookup (nth j qids 0%Z) samples with
    | Some s => nth j cols [] = (if is_amp then (if r then map (clamp0 ar) else clamp_last ar) else (fun l => l))
                                (map (pchip_eval ar g (sel s)) tmid)
    | None => nth j cols [] = repeat 0 (length tmid)
    end.
Proof.
  unfold quantity. intros H. apply mapM_ok in H. destruct H as [L N]. split; [exact L|].
  intros j Hj. specialize (N j 0%Z [] Hj).
  destruct (lookup (nth j qids 0%Z) samples) as [s|].
  - apply column_ok_inv in N. exact N.
  - inversion N. reflexivity.
Qed.

(* after the fix of F-09 (all_rows = true): every amplitude entry is >= 0 *)
Lemma amp_nonneg_all_rows a (samples : list (Z * sampleR)) qids tt md om de ph :
  extract_with ar true a samples qids tt md = Ok (om, de, ph) ->
  Forall (Forall (fun v => 0 <= v)) om.
Proof.
  intros H. apply extract_ok_inv in H. destruct H as (_ & H & _ & _).
  apply Forall_forall. intros col Hin. apply In_nth with (d := []) in Hin. destruct Hin as (j & Hj & <-).
  assert (C : Forall (fun v => 0 <= v) (repeat 0 (length (midpoints ar tt)))).
  { apply Forall_forall. intros v Hv. apply repeat_spec in Hv. lra. }
  assert (M : forall l, Forall (fun v => 0 <= v) (map (clamp0 ar) l)).
  { intros l. apply Forall_forall. intros v Hv. apply in_map_iff in Hv. destruct Hv as (w & <- & _). apply clamp0_nonneg. }
  destruct a.
  - apply quantity_all_atoms in H. destruct H as [L N]. rewrite L in Hj. specialize (N j Hj).
    destruct (lookup (nth j qids 0%Z) samples); rewrite N; auto.
  - apply quantity_filtered in H. destruct H as [L N]. rewrite L in Hj. destruct (N j Hj) as (s & _ & E).
    rewrite E. auto.
Qed.

(* the source today: the last amplitude row is >= 0 (only that one) *)
Lemma amp_last_row_nonneg a (samples : list (Z * sampleR)) qids tt md om de ph :
  extract_with ar false a samples qids tt md = Ok (om, de, ph) -> (2 <= length tt)%nat ->
  forall j, (j < length om)%nat -> 0 <= nth (length tt - 2) (nth j om []) 0.
Proof.
  intros H Htt j Hj. apply extract_ok_inv in H. destruct H as (_ & H & _ & _).
  assert (Lm : length (midpoints ar tt) = (length tt - 1)%nat) by (rewrite midpoints_length; lia).
  assert (K : forall sig, 0 <= nth (length tt - 2) (clamp_last ar (map (pchip_eval ar (grid md) sig) (midpoints ar tt))) 0).
  { intros sig. set (l := map (pchip_eval ar (grid md) sig) (midpoints ar tt)).
    assert (Ll : length l = (length tt - 1)%nat) by (unfold l; rewrite map_length; auto).
    replace (length tt - 2)%nat with (length l - 1)%nat by lia.
    rewrite clamp_last_last; [apply clamp0_nonneg|]. intro Z. rewrite Z in Ll. cbn in Ll. lia. }
  destruct a.
  - apply quantity_all_atoms in H. destruct H as [L N]. rewrite L in Hj. specialize (N j Hj).
    destruct (lookup (nth j qids 0%Z) samples); rewrite N; auto.
    rewrite nth_repeat. lra.
  - apply quantity_filtered in H. destruct H as [L N]. rewrite L in Hj. destruct (N j Hj) as (s & _ & E).
    rewrite E. auto.
Qed.

(* ======================= witnesses ======================= *)
Ltac rdec2 :=
  repeat match goal with
  | |- context [Rltb ?a ?b] =>
      first [ rewrite (proj2 (Rltb_true a b)) by lra | rewrite (proj2 (Rltb_false a b)) by lra ]
  | |- context [Rleb ?a ?b] =>
      first [ rewrite (proj2 (Rleb_true a b)) by lra | rewrite (proj2 (Rleb_false a b)) by lra ]
  | |- context [Reqb ?a ?b] =>
      first [ rewrite (proj2 (Reqb_true a b)) by lra | rewrite (proj2 (Reqb_false a b)) by lra ]
  end.

(* ---- F-05: 3-atom register, one local channel on atom 1: a single column ---- *)
Definition w5_samples : list (Z * sampleR) := [(1%Z, ([1; 1], [0; 0], [0; 0]))].
Definition w5_qids : list Z := [0%Z; 1%Z; 2%Z].
Definition w5_tt : list R := [0; 2].

Lemma w5_runs : exists om de ph, extract_with ar false false w5_samples w5_qids w5_tt 2%Z = Ok (om, de, ph).
Proof.
  unfold extract_with, w5_samples, w5_qids, w5_tt.
  cbn [last a_eqb a_ofZ R_arith negb]. rdec2. cbn [negb].
  unfold quantity. cbn [filter addressed lookup Z.eqb Pos.eqb mapM sel_amp sel_det sel_phase fst snd].
  unfold column. cbn [Z.to_nat Pos.to_nat Pos.iter_op Nat.add grid_from Z.add Pos.add a_ofZ R_arith].
  change (Pos.to_nat 2) with 2%nat. cbn [grid_from Z.add Pos.add a_ofZ R_arith]. rewrite !call_spec by (cbn; try lra; try lia). cbn [res_bind]. eauto.
Qed.

Lemma columns_refuted : exists (samples : list (Z * sampleR)) qids tt md om de ph,
  extract_with ar false false samples qids tt md = Ok (om, de, ph) /\ length qids = 3%nat /\ length om = 1%nat.
Proof.
  destruct w5_runs as (om & de & ph & H). exists w5_samples, w5_qids, w5_tt, 2%Z, om, de, ph.
  split; [exact H|]. split; [reflexivity|].
  apply extract_ok_inv in H. destruct H as (_ & H & _). apply quantity_filtered in H. destruct H as [L _].
  rewrite L. reflexivity.
Qed.

(* ---- F-09: linear ramp 5,3,1 sampled at 0,1,2 (duration 3), steps ending at 5/2, 11/4, 3:
        the row before the last is the extrapolated value P(21/8) = -1/4 ---- *)
Definition w9_samples : list (Z * sampleR) := [(0%Z, ([5; 3; 1], [0; 0; 0], [0; 0; 0]))].
Definition w9_tt : list R := [0; 5 / 2; 11 / 4; 3].

Lemma w9_value : evalL Lsrc [0; 1; 2] [5; 3; 1] (21 / 8) = - (1 / 4).
Proof.
  unfold evalL, pchip_coeffs_with, derivs_with.
  cbn [diffs secants map2 a_sub a_div R_arith rev app interior end_slope coeffs eval_pieces].
  change (a_leb ar) with Rleb. rdec2.
  unfold horner, coeff, limit_endpoint_src, interior_slope. rewrite ?same_sign_mask_R, ?opp_sign_mask_R.
  unfold endpoint_slope, whm, c0, c1, c2, c3.
  cbn [a_add a_sub a_mul a_div a_ofZ a_ltb a_leb a_abs R_arith].
  rdec2. cbn [andb]. lra.
Qed.

Lemma w9_value_fix : evalL Lfix [0; 1; 2] [5; 3; 1] (21 / 8) = - (1 / 4).
Proof.
  unfold evalL, pchip_coeffs_with, derivs_with.
  cbn [diffs secants map2 a_sub a_div R_arith rev app interior end_slope coeffs eval_pieces].
  change (a_leb ar) with Rleb. rdec2.
  unfold horner, coeff, limit_endpoint_fixed, interior_slope. rewrite ?same_sign_mask_R, ?opp_sign_mask_R.
  unfold a_neqb, a_sign, endpoint_slope, whm, c0, c1, c2, c3.
  cbn [a_add a_sub a_mul a_div a_ofZ a_ltb a_leb a_eqb a_abs R_arith].
  rdec2. cbn [andb negb]. rdec2. cbn [andb negb]. lra.
Qed.

(* robust to the switch of the alias [limit_endpoint] in Model/Pchip.v *)
Lemma w9_value_model : pchip_eval ar [0; 1; 2] [5; 3; 1] (21 / 8) = - (1 / 4).
Proof. first [exact w9_value | exact w9_value_fix]. Qed.

Lemma w9_runs : exists om de ph, extract_with ar false false w9_samples [0%Z] w9_tt 3%Z = Ok (om, de, ph).
Proof.
  unfold extract_with, w9_samples, w9_tt.
  cbn [last a_eqb a_ofZ R_arith negb]. rdec2. cbn [negb].
  unfold quantity. cbn [filter addressed lookup Z.eqb Pos.eqb mapM sel_amp sel_det sel_phase fst snd].
  unfold column. cbn [Z.to_nat].
  change (Pos.to_nat 3) with 3%nat. cbn [grid_from Z.add Pos.add Pos.succ a_ofZ R_arith].
  rewrite !call_spec by (cbn; try lra; try lia). cbn [res_bind]. eauto.
Qed.

Lemma amp_nonneg_refuted : exists (samples : list (Z * sampleR)) qids tt md om de ph,
  Forall (fun e => Forall (fun v => 0 <= v) (sel_amp (snd e))) samples /\
  extract_with ar false false samples qids tt md = Ok (om, de, ph) /\
  exists j k, (j < length om)%nat /\ (k < length tt - 1)%nat /\ nth k (nth j om []) 0 < 0.
Proof.
  destruct w9_runs as (om & de & ph & H). exists w9_samples, [0%Z], w9_tt, 3%Z, om, de, ph.
  split; [|split; [exact H|]].
  - repeat constructor; cbn; lra.
  - exists 0%nat, 1%nat.
    apply extract_ok_inv in H. destruct H as (_ & H & _). apply quantity_filtered in H. destruct H as [L N].
    destruct (N 0%nat) as (s & Hs & E); [cbn; lia|].
    cbn in Hs. inversion Hs; subst s. clear Hs.
    split; [rewrite L; cbn; lia|]. split; [cbn; lia|].
    rewrite E. rewrite clamp_last_nth by (rewrite map_length, midpoints_length; cbn; lia).
    cbn [sel_amp fst snd]. unfold w9_tt.
    change (midpoints ar [0; 5 / 2; 11 / 4; 3]) with
      [half ar * (0 + 5 / 2); half ar * (5 / 2 + 11 / 4); half ar * (11 / 4 + 3)].
    cbn [map nth]. unfold grid. cbn [Z.to_nat]. change (Pos.to_nat 3) with 3%nat.
    cbn [grid_from Z.add Pos.add Pos.succ a_ofZ R_arith].
    replace (half ar * (5 / 2 + 11 / 4)) with (21 / 8) by (unfold half, c1, c2; cbn; field).
    rewrite w9_value_model. lra.
Qed.

(* premises of the positive statements are satisfiable: both witnesses run without error *)
Lemma extract_runs_example : exists om de ph, extract_with ar false false w9_samples [0%Z] w9_tt 3%Z = Ok (om, de, ph).
Proof. exact w9_runs. Qed.

(* ======================= assembled specification of the source today ======================= *)
Lemma extract_spec (samples : list (Z * sampleR)) qids tt md om de ph :
  extract_with ar false false samples qids tt md = Ok (om, de, ph) ->
  IZR md = last tt 0 /\
  length om = length (kept samples qids) /\ length de = length (kept samples qids) /\
  length ph = length (kept samples qids) /\
  forall j, (j < length (kept samples qids))%nat -> exists s,
    lookup (nth j (kept samples qids) 0%Z) samples = Some s /\
    nth j om [] = clamp_last ar (interp md (sel_amp s) (midpoints ar tt)) /\
    nth j de [] = interp md (sel_det s) (midpoints ar tt) /\
    nth j ph [] = interp md (sel_phase s) (midpoints ar tt).
Proof.
  intros H. apply extract_ok_inv in H. destruct H as (E & Ho & Hd & Hp).
  apply quantity_filtered in Ho, Hd, Hp. destruct Ho as [Lo No], Hd as [Ld Nd], Hp as [Lp Np].
  repeat (split; auto). intros j Hj.
  destruct (No j Hj) as (s & Hs & Eo). destruct (Nd j Hj) as (s1 & Hs1 & Ed). destruct (Np j Hj) as (s2 & Hs2 & Ep).
  rewrite Hs in Hs1, Hs2. inversion Hs1; inversion Hs2; subst s1 s2.
  exists s. unfold interp. auto.
Qed.

(* after both fixes: one column per register atom (zero if unaddressed), every amplitude entry
   max(interpolation, 0), detuning and phase the plain interpolation *)
Lemma extract_fixed_spec (samples : list (Z * sampleR)) qids tt md om de ph :
  extract_with ar true true samples qids tt md = Ok (om, de, ph) ->
  IZR md = last tt 0 /\
  length om = length qids /\ length de = length qids /\ length ph = length qids /\
  Forall (Forall (fun v => 0 <= v)) om /\
  forall j, (j < length qids)%nat ->
    match lookup (nth j qids 0%Z) samples with
    | Some s =>
        nth j om [] = map (clamp0 ar) (interp md (sel_amp s) (midpoints ar tt)) /\
        nth j de [] = interp md (sel_det s) (midpoints ar tt) /\
        nth j ph [] = interp md (sel_phase s) (midpoints ar tt)
    | None =>
        nth j om [] = repeat 0 (length tt - 1) /\ nth j de [] = repeat 0 (length tt - 1) /\
        nth j ph [] = repeat 0 (length tt - 1)
    end.
Proof.
  intros H. assert (NN := amp_nonneg_all_rows true samples qids tt md om de ph H).
  apply extract_ok_inv in H. destruct H as (E & Ho & Hd & Hp).
  apply quantity_all_atoms in Ho, Hd, Hp. destruct Ho as [Lo No], Hd as [Ld Nd], Hp as [Lp Np].
  repeat (split; auto). intros j Hj. specialize (No j Hj). specialize (Nd j Hj). specialize (Np j Hj).
  assert (Lm : length (midpoints ar tt) = (length tt - 1)%nat) by (rewrite midpoints_length; lia).
  destruct (lookup (nth j qids 0%Z) samples); unfold interp; rewrite <- ?Lm; auto.
Qed.

(* ======================= inside the sampled range ======================= *)
Lemma grid_from_length z n : length (grid_from ar z n) = n.
Proof. revert z; induction n; intros z; cbn; auto. Qed.

Lemma grid_from_nth z n i : (i < n)%nat -> nth i (grid_from ar z n) 0 = IZR (z + Z.of_nat i).
Proof.
  revert z i; induction n; intros z i Hi; [lia|]. destruct i.
  - cbn. rewrite Z.add_0_r. reflexivity.
  - cbn [grid_from nth]. rewrite IHn by lia. f_equal. lia.
Qed.

Lemma grid_from_incr z n : incr (grid_from ar z n).
Proof.
  revert z; induction n; intros z; [exact I|]. destruct n; [exact I|].
  change (IZR z < IZR (z + 1) /\ incr (grid_from ar (z + 1) (S n))). split; [apply IZR_lt; lia| apply IHn].
Qed.

Lemma grid_ends md : (2 <= Z.to_nat md)%nat ->
  nth 0 (grid md) 0 = 0 /\ nth (length (grid md) - 1) (grid md) 0 = IZR md - 1.
Proof.
  intros H. unfold grid. rewrite grid_from_length. rewrite !grid_from_nth by lia. split.
  - reflexivity.
  - rewrite Z.add_0_l. rewrite <- minus_IZR. f_equal. lia.
Qed.

(* with the current source (all rows clamped, all atoms): for an atom whose amplitude samples are >= 0, at every
   step whose midpoint lies inside the sampled range [0, md-1] the amplitude IS the interpolation (the clamp
   is inactive there) and is >= 0 *)
Lemma amp_inside_is_interpolation (samples : list (Z * sampleR)) qids tt md om de ph :
  extract_with ar true true samples qids tt md = Ok (om, de, ph) ->
  forall j s, (j < length qids)%nat -> lookup (nth j qids 0%Z) samples = Some s ->
  Forall (fun v => 0 <= v) (sel_amp s) ->
  forall k, (S k < length tt)%nat -> 0 <= nth k (midpoints ar tt) 0 <= IZR md - 1 ->
  nth k (nth j om []) 0 = evalL Lfix (grid md) (sel_amp s) (nth k (midpoints ar tt) 0) /\
  0 <= evalL Lfix (grid md) (sel_amp s) (nth k (midpoints ar tt) 0).
Proof.
  intros H j s Hj Hs F k Hk Hin. apply extract_ok_inv in H. destruct H as (_ & H & _ & _).
  unfold quantity in H. apply mapM_ok in H. destruct H as [_ N]. specialize (N j 0%Z [] Hj).
  rewrite Hs in N. unfold column in N.
  destruct (pchip_call ar (grid md) (sel_amp s) (midpoints ar tt)) as [w| |] eqn:E; cbn in N; try discriminate.
  apply call_ok_inv in E. destruct E as (-> & HL & H2 & Hi). inversion N as [N']. clear N N'.
  assert (G : (2 <= Z.to_nat md)%nat) by (unfold grid in H2; rewrite grid_from_length in H2; exact H2).
  destruct (grid_ends md G) as [G0 G1].
  assert (P : 0 <= evalL Lfix (grid md) (sel_amp s) (nth k (midpoints ar tt) 0)).
  { apply fixed_nonneg_inside; auto. rewrite G0, G1. exact Hin. }
  split; [|exact P].
  assert (Lk : (k < length (midpoints ar tt))%nat) by (rewrite midpoints_length; lia).
  rewrite nth_indep with (d' := clamp0 ar (pchip_eval ar (grid md) (sel_amp s) 0))
    by (rewrite !map_length; exact Lk).
  rewrite map_map. rewrite (map_nth (fun x => clamp0 ar (pchip_eval ar (grid md) (sel_amp s) x))).
  apply clamp0_id. exact P.
Qed.

Lemma fixed_runs_example : exists om de ph, extract_with ar true true w9_samples [0%Z] w9_tt 3%Z = Ok (om, de, ph).
Proof.
  unfold extract_with, w9_samples, w9_tt.
  cbn [last a_eqb a_ofZ R_arith negb]. rdec2. cbn [negb].
  unfold quantity. cbn [lookup Z.eqb Pos.eqb mapM sel_amp sel_det sel_phase fst snd].
  unfold column. cbn [Z.to_nat].
  change (Pos.to_nat 3) with 3%nat. cbn [grid_from Z.add Pos.add Pos.succ a_ofZ R_arith].
  rewrite !call_spec by (cbn; try lra; try lia). cbn [res_bind]. eauto.
Qed.
