(* Proofs about Model/Permutations.v: the helper laws used by C32 and C03. *)
From Coq Require Import String Ascii ZArith List Bool Arith Lia Permutation.
From EV Require Import Base.Arith Model.Permutations.
Import ListNotations.
Set Implicit Arguments.

(* p is a permutation of 0..n-1 *)
Definition is_perm (n : nat) (p : list nat) : Prop :=
  length p = n /\ NoDup p /\ Forall (fun i => i < n) p.

(* pure (total) reading of permute_list *)
Definition pl {A} (d : A) (l : list A) (p : list nat) : list A := map (fun i => nth i l d) p.
(* pure reading of permute_matrix *)
Definition pm {A} (d : A) (m : list (list A)) (p : list nat) : list (list A) :=
  map (fun r => pl d r p) (pl [] m p).
(* square n x n *)
Definition wf {A} (n : nat) (m : list (list A)) : Prop :=
  length m = n /\ Forall (fun r => length r = n) m.

(* ---------- mapM ---------- *)
Lemma mapM_ok : forall A B (f : A -> res B) (g : A -> B) l,
  Forall (fun x => f x = Ok (g x)) l -> mapM f l = Ok (map g l).
Proof.
  induction l; simpl; intros H; auto. inversion H; subst. rewrite H2. simpl.
  rewrite IHl; auto.
Qed.

Lemma mapM_inv : forall A B (f : A -> res B) l r,
  mapM f l = Ok r -> Forall2 (fun x y => f x = Ok y) l r.
Proof.
  induction l; simpl; intros r H.
  - inversion H; constructor.
  - destruct (f a) eqn:E; simpl in H; try discriminate.
    destruct (mapM f l) eqn:E2; simpl in H; try discriminate.
    inversion H; subst. constructor; auto.
Qed.

Lemma mapM_length : forall A B (f : A -> res B) l r, mapM f l = Ok r -> length r = length l.
Proof.
  intros A B f l. induction l; simpl; intros r H.
  - inversion H; auto.
  - destruct (f a); simpl in H; try discriminate. destruct (mapM f l) eqn:E; simpl in H; try discriminate.
    inversion H; subst. simpl. f_equal. auto.
Qed.

Lemma get_ok : forall A (d : A) l i, i < length l -> get l i = Ok (nth i l d).
Proof.
  intros. unfold get. rewrite (nth_error_nth' l d H). reflexivity.
Qed.

Lemma get_inv : forall A (d : A) l i x, get l i = Ok x -> i < length l /\ x = nth i l d.
Proof.
  unfold get; intros. destruct (nth_error l i) eqn:E; try discriminate. inversion H; subst.
  split. apply nth_error_Some. congruence. symmetry. apply nth_error_nth. auto.
Qed.

(* ---------- permute_list: total on in-range indices, element k comes from perm[k] ---------- *)
Lemma permute_list_ok : forall A (d : A) l p,
  Forall (fun i => i < length l) p -> permute_list l p = Ok (pl d l p).
Proof.
  intros. unfold permute_list, pl. apply mapM_ok.
  eapply Forall_impl; [|exact H]. intros; simpl. apply get_ok; auto.
Qed.

Lemma permute_list_inv : forall A (d : A) l p r,
  permute_list l p = Ok r -> Forall (fun i => i < length l) p /\ r = pl d l p.
Proof.
  unfold permute_list, pl. intros A d l p. induction p; simpl; intros r H.
  - inversion H. split; constructor.
  - destruct (get l a) eqn:E; simpl in H; try discriminate.
    destruct (mapM (get l) p) eqn:E2; simpl in H; try discriminate.
    inversion H; subst. destruct (IHp _ eq_refl). apply (get_inv d) in E. destruct E.
    split. constructor; auto. congruence.
Qed.

Lemma pl_length : forall A (d : A) l p, length (pl d l p) = length p.
Proof. intros. unfold pl. apply map_length. Qed.

Lemma pl_nth : forall A (d : A) l p k, k < length p -> nth k (pl d l p) d = nth (nth k p 0) l d.
Proof.
  intros A d l p. unfold pl. induction p; simpl; intros k H. lia.
  destruct k; auto. apply IHp. lia.
Qed.

Lemma pl_id : forall A (d : A) l, pl d l (seq 0 (length l)) = l.
Proof.
  intros. apply nth_ext with (d := d) (d' := d).
  - rewrite pl_length, seq_length; auto.
  - intros k Hk. rewrite pl_length, seq_length in Hk. rewrite pl_nth by (rewrite seq_length; auto).
    rewrite seq_nth; auto.
Qed.

(* composition: permuting twice = permuting once by the permuted permutation *)
Lemma pl_compose : forall A (d : A) l p q,
  Forall (fun i => i < length p) q -> pl d (pl d l p) q = pl d l (pl 0 p q).
Proof.
  intros. change (pl d l (pl 0 p q)) with (map (fun i => nth i l d) (map (fun i => nth i p 0) q)).
  rewrite map_map. unfold pl at 1. apply map_ext_in. intros i Hi.
  rewrite Forall_forall in H. apply pl_nth. auto.
Qed.

(* ---------- is_perm ---------- *)
Lemma nodupb_spec : forall l, nodupb l = true <-> NoDup l.
Proof.
  induction l; simpl.
  - split; auto. constructor.
  - rewrite andb_true_iff, negb_true_iff, IHl. split.
    + intros [H1 H2]. constructor; auto. intro Hin.
      assert (existsb (Nat.eqb a) l = true). { apply existsb_exists. exists a. split; auto. apply Nat.eqb_refl. }
      congruence.
    + intros H. inversion H; subst. split; auto.
      destruct (existsb (Nat.eqb a) l) eqn:E; auto. apply existsb_exists in E.
      destruct E as [x [Hx He]]. apply Nat.eqb_eq in He. subst. contradiction.
Qed.

Lemma is_permb_spec : forall n p, is_permb n p = true <-> is_perm n p.
Proof.
  intros. unfold is_permb, is_perm.
  rewrite !andb_true_iff, Nat.eqb_eq, nodupb_spec, forallb_forall, Forall_forall.
  split.
  - intros [[H1 H2] H3]. repeat split; auto. intros x Hx. apply Nat.ltb_lt. auto.
  - intros [H1 [H2 H3]]. repeat split; auto. intros x Hx. apply Nat.ltb_lt. auto.
Qed.

Lemma is_perm_seq : forall n, is_perm n (seq 0 n).
Proof.
  intros. repeat split. apply seq_length. apply seq_NoDup.
  apply Forall_forall. intros x Hx. apply in_seq in Hx. lia.
Qed.

(* canonical meaning: a rearrangement of [0; 1; ...; n-1] *)
Lemma is_perm_Permutation : forall n p, is_perm n p <-> Permutation p (seq 0 n).
Proof.
  intros; split.
  - intros [H1 [H2 H3]]. apply NoDup_Permutation_bis; auto.
    + rewrite seq_length. lia.
    + intros x Hx. rewrite Forall_forall in H3. apply in_seq. specialize (H3 _ Hx). lia.
  - intros H. repeat split.
    + rewrite (Permutation_length H). apply seq_length.
    + eapply Permutation_NoDup. apply Permutation_sym; eauto. apply seq_NoDup.
    + apply Forall_forall. intros x Hx. eapply Permutation_in in Hx; eauto. apply in_seq in Hx. lia.
Qed.

Lemma is_perm_surj : forall n p j, is_perm n p -> j < n -> In j p.
Proof.
  intros n p j Hp Hj. apply is_perm_Permutation in Hp.
  eapply Permutation_in. apply Permutation_sym; eauto. apply in_seq. lia.
Qed.

Lemma is_perm_nth_lt : forall n p k, is_perm n p -> k < n -> nth k p 0 < n.
Proof.
  intros n p k [H1 [H2 H3]] Hk. rewrite Forall_forall in H3. apply H3. apply nth_In. lia.
Qed.

Lemma is_perm_inj : forall n p a b, is_perm n p -> a < n -> b < n -> nth a p 0 = nth b p 0 -> a = b.
Proof.
  intros n p a b [H1 [H2 H3]] Ha Hb He. pose proof (proj1 (NoDup_nth p 0) H2) as H4. apply H4; auto; lia.
Qed.

Lemma is_perm_index : forall n p j, is_perm n p -> j < n -> exists k, k < n /\ nth k p 0 = j.
Proof.
  intros n p j Hp Hj. pose proof (is_perm_surj Hp Hj) as Hin.
  apply In_nth with (d := 0) in Hin. destruct Hin as [k [Hk He]]. destruct Hp as [H1 _].
  exists k; split; auto. lia.
Qed.

(* the composition of two permutations is a permutation *)
Lemma is_perm_compose : forall n p q, is_perm n p -> is_perm n q -> is_perm n (pl 0 p q).
Proof.
  intros n p q Hp Hq. pose proof Hp as [P1 [P2 P3]]. pose proof Hq as [Q1 [Q2 Q3]].
  repeat split.
  - rewrite pl_length; auto.
  - apply NoDup_nth with (d := 0). rewrite pl_length. intros a b Ha Hb He.
    rewrite !pl_nth in He by auto.
    assert (nth a q 0 = nth b q 0).
    { apply (is_perm_inj Hp); auto; apply (is_perm_nth_lt Hq); lia. }
    apply (is_perm_inj Hq); auto; lia.
  - apply Forall_forall. intros x Hx. unfold pl in Hx. apply in_map_iff in Hx.
    destruct Hx as [i [Hi Hin]]. subst. rewrite Forall_forall in Q3. specialize (Q3 _ Hin).
    apply (is_perm_nth_lt Hp). auto.
Qed.

(* ---------- inv_permutation ---------- *)
Lemma set_nth_some : forall A (l : list A) i v, i < length l ->
  exists r, set_nth l i v = Some r /\ length r = length l /\ nth_error r i = Some v /\
            (forall j, j <> i -> nth_error r j = nth_error l j).
Proof.
  induction l; simpl; intros i v H. lia.
  destruct i.
  - eexists; split; eauto. repeat split; auto. intros j Hj. destruct j; simpl; auto. congruence.
  - destruct (IHl i v) as [r [E [L [N O]]]]. lia. rewrite E. eexists; split; eauto.
    simpl. repeat split; auto. intros j Hj. destruct j; simpl; auto.
Qed.

Lemma set_nth_none : forall A (l : list A) i v, length l <= i -> set_nth l i v = None.
Proof.
  induction l; simpl; intros; auto. destruct i. lia. rewrite IHl; auto. lia.
Qed.

Lemma scatter_spec : forall p arr k, Forall (fun i => i < length arr) p -> NoDup p ->
  exists r, scatter arr p k = Ok r /\ length r = length arr /\
    (forall idx, idx < length p -> nth_error r (nth idx p 0) = Some (Some (k + idx))) /\
    (forall j, ~ In j p -> nth_error r j = nth_error arr j).
Proof.
  induction p; simpl; intros arr k HF HN.
  - exists arr. repeat split; auto. intros; lia.
  - inversion HF; subst. inversion HN; subst.
    destruct (set_nth_some arr (Some k) H1) as [arr' [E [L [N O]]]]. rewrite E.
    destruct (IHp arr' (S k)) as [r [E2 [L2 [S2 O2]]]]; auto.
    { rewrite L. auto. }
    exists r. split; auto. split. congruence. split.
    + intros idx Hidx. destruct idx.
      * rewrite O2 by auto. rewrite N. f_equal. f_equal. lia.
      * rewrite S2 by lia. f_equal. f_equal. lia.
    + intros j Hj. rewrite O2 by tauto. apply O. intro; subst; tauto.
Qed.

Lemma all_some_spec : forall A (l : list (option A)),
  (forall j, j < length l -> exists x, nth_error l j = Some (Some x)) ->
  exists q, all_some l = Some q /\ length q = length l /\
            forall j, j < length l -> nth_error l j = Some (nth_error q j).
Proof.
  induction l; simpl; intros H.
  - exists []. repeat split; auto. intros; lia.
  - destruct (H 0) as [x Hx]. lia. simpl in Hx. inversion Hx; subst.
    destruct IHl as [q [E [L N]]].
    { intros j Hj. apply (H (S j)). lia. }
    rewrite E. exists (x :: q). repeat split; simpl; auto.
    intros j Hj. destruct j; simpl; auto. apply N. lia.
Qed.

(* For every permutation p: inv_permutation succeeds, returns a permutation q with
   q[p[k]] = k and p[q[j]] = j. *)
Lemma inv_permutation_spec : forall n p, is_perm n p ->
  exists q, inv_permutation p = Ok q /\ is_perm n q /\
    (forall k, k < n -> nth (nth k p 0) q 0 = k) /\
    (forall j, j < n -> nth (nth j q 0) p 0 = j).
Proof.
  intros n p Hp. pose proof Hp as [P1 [P2 P3]]. unfold inv_permutation.
  destruct (@scatter_spec p (repeat None (length p)) 0) as [r [E [L [S O]]]]; auto.
  { rewrite repeat_length, P1. auto. }
  rewrite E. simpl. rewrite repeat_length in L.
  destruct (all_some_spec r) as [q [E2 [L2 N2]]].
  { intros j Hj. destruct (@is_perm_index n p j Hp) as [k [Hk He]]. lia.
    exists k. rewrite <- He. rewrite S by lia. reflexivity. }
  rewrite E2. exists q. split; auto.
  assert (Q1 : forall k, k < n -> nth (nth k p 0) q 0 = k).
  { intros k Hk. pose proof (is_perm_nth_lt Hp Hk) as Hlt.
    specialize (N2 (nth k p 0)). rewrite S in N2 by lia.
    assert (nth_error q (nth k p 0) = Some k). { symmetry. injection (N2 ltac:(lia)). auto. }
    apply nth_error_nth with (d := 0) in H. auto. }
  assert (Q2 : forall j, j < n -> nth (nth j q 0) p 0 = j).
  { intros j Hj. destruct (is_perm_index Hp Hj) as [k [Hk He]]. rewrite <- He at 1.
    rewrite Q1; auto. }
  split; [|split; auto].
  repeat split.
  - lia.
  - apply NoDup_nth with (d := 0). intros a b Ha Hb He.
    rewrite <- (Q2 a), <- (Q2 b) by lia. congruence.
  - apply Forall_forall. intros x Hx. apply In_nth with (d := 0) in Hx. destruct Hx as [j [Hj He]].
    destruct (@is_perm_index n p j Hp) as [k [Hk Hek]]. lia.
    rewrite <- He, <- Hek, Q1; auto.
Qed.

(* out-of-range index: IndexError, as torch's index_put_ *)
Lemma inv_permutation_out_of_range : forall p, ~ Forall (fun i => i < length p) p ->
  inv_permutation p = Err E_INDEX.
Proof.
  intros p H. unfold inv_permutation.
  assert (G : forall p arr k, ~ Forall (fun i => i < length arr) p -> scatter arr p k = Err E_INDEX).
  { clear. induction p; simpl; intros arr k H. exfalso; apply H; constructor.
    destruct (lt_dec a (length arr)).
    - destruct (set_nth_some arr (Some k) l) as [r [E [L _]]]. rewrite E. apply IHp. rewrite L.
      intro HF. apply H. constructor; auto.
    - rewrite set_nth_none by lia. auto. }
  rewrite G; auto. rewrite repeat_length. auto.
Qed.

(* ---------- inverse undoes permute ---------- *)
Lemma pl_inverse : forall A (d : A) n l p q, length l = n -> is_perm n p -> is_perm n q ->
  (forall j, j < n -> nth (nth j q 0) p 0 = j) -> pl d (pl d l p) q = l.
Proof.
  intros A d n l p q Hl Hp Hq H. pose proof Hp as [P1 _]. pose proof Hq as [Q1 _].
  apply nth_ext with (d := d) (d' := d).
  - rewrite pl_length. lia.
  - intros j Hj. rewrite pl_length in Hj. rewrite pl_nth by auto.
    pose proof (is_perm_nth_lt Hq (k := j) ltac:(lia)).
    rewrite pl_nth by lia. rewrite H by lia. reflexivity.
Qed.

Lemma pl_inv_id : forall n p q, is_perm n p -> is_perm n q ->
  (forall j, j < n -> nth (nth j q 0) p 0 = j) -> pl 0 p q = seq 0 n.
Proof.
  intros n p q Hp Hq H. pose proof Hq as [Q1 _].
  apply nth_ext with (d := 0) (d' := 0).
  - rewrite pl_length, seq_length. auto.
  - intros j Hj. rewrite pl_length in Hj. rewrite pl_nth by auto. rewrite seq_nth by lia.
    apply H. lia.
Qed.

(* ---------- matrices ---------- *)
Lemma is_square_spec : forall A (m : list (list A)), is_square m = true <-> wf (length m) m.
Proof.
  intros. unfold is_square, wf. rewrite forallb_forall, Forall_forall. split.
  - intros H. split; auto. intros r Hr. apply Nat.eqb_eq. auto.
  - intros [_ H] r Hr. apply Nat.eqb_eq. auto.
Qed.

Lemma pl_map : forall A B (f : A -> B) (d : A) (d' : B) X q,
  Forall (fun i => i < length X) q -> pl d' (map f X) q = map f (pl d X q).
Proof.
  intros. unfold pl. rewrite map_map. apply map_ext_in. intros i Hi.
  rewrite Forall_forall in H. specialize (H _ Hi).
  rewrite (nth_indep _ d' (f d)) by (rewrite map_length; auto). apply map_nth.
Qed.

Lemma pl_In : forall A (d : A) l p x, Forall (fun i => i < length l) p -> In x (pl d l p) -> In x l.
Proof.
  intros. unfold pl in H0. apply in_map_iff in H0. destruct H0 as [i [E Hi]]. subst.
  rewrite Forall_forall in H. apply nth_In. auto.
Qed.

Lemma permute_matrix_ok : forall A (d : A) n (m : list (list A)) p,
  wf n m -> Forall (fun i => i < n) p -> permute_matrix m p = Ok (pm d m p).
Proof.
  intros A d n m p [W1 W2] HF. unfold permute_matrix.
  assert (S : is_square m = true). { apply is_square_spec. split; auto. rewrite W1; auto. }
  rewrite S. rewrite (permute_list_ok (@nil A)) by (rewrite W1; auto). simpl.
  unfold pm. apply mapM_ok. apply Forall_forall. intros r Hr.
  apply permute_list_ok. apply pl_In in Hr; [|rewrite W1; auto].
  rewrite Forall_forall in W2. rewrite (W2 _ Hr). auto.
Qed.

Lemma permute_matrix_inv : forall A (d : A) (m : list (list A)) p r,
  permute_matrix m p = Ok r ->
  wf (length m) m /\ r = pm d m p /\ (p = [] \/ Forall (fun i => i < length m) p).
Proof.
  intros A d m p r H. unfold permute_matrix in H. destruct (is_square m) eqn:S; try discriminate.
  apply is_square_spec in S. split; auto.
  destruct (permute_list m p) eqn:E; simpl in H; try discriminate.
  apply (permute_list_inv (@nil A)) in E. destruct E as [HF E]. subst v.
  split; [|right; auto].
  unfold pm. revert r H. generalize (pl [] m p). induction l; simpl; intros r H.
  - inversion H; auto.
  - destruct (permute_list a p) eqn:E1; simpl in H; try discriminate.
    destruct (mapM (fun r0 => permute_list r0 p) l) eqn:E2; simpl in H; try discriminate.
    inversion H; subst. apply (permute_list_inv d) in E1. destruct E1 as [_ E1]. subst.
    f_equal. apply IHl. reflexivity.
Qed.

Lemma pm_wf : forall A (d : A) n (m : list (list A)) p, length p = n -> wf n (pm d m p).
Proof.
  intros. unfold wf, pm. rewrite map_length, pl_length. split; auto.
  apply Forall_forall. intros r Hr. apply in_map_iff in Hr. destruct Hr as [x [E _]]. subst.
  rewrite pl_length. auto.
Qed.

Lemma pm_entry : forall A (d : A) (m : list (list A)) p i j, i < length p -> j < length p ->
  nth j (nth i (pm d m p) []) d = nth (nth j p 0) (nth (nth i p 0) m []) d.
Proof.
  intros. unfold pm.
  rewrite (nth_indep _ [] (pl d [] p)) by (rewrite map_length, pl_length; auto).
  rewrite (map_nth (fun r => pl d r p)). rewrite pl_nth by auto. rewrite pl_nth by auto. reflexivity.
Qed.

Lemma pm_id : forall A (d : A) n (m : list (list A)), wf n m -> pm d m (seq 0 n) = m.
Proof.
  intros A d n m [W1 W2]. subst n. unfold pm. rewrite pl_id.
  rewrite <- (map_id m) at 2. apply map_ext_in. intros r Hr. rewrite Forall_forall in W2.
  rewrite <- (W2 _ Hr). apply pl_id.
Qed.

Lemma pm_compose : forall A (d : A) n (m : list (list A)) p q,
  length p = n -> Forall (fun i => i < n) q -> pm d (pm d m p) q = pm d m (pl 0 p q).
Proof.
  intros A d n m p q Hp Hq. unfold pm.
  rewrite (pl_map (fun r => pl d r p) [] []) by (rewrite pl_length, Hp; auto).
  rewrite map_map. rewrite pl_compose by (rewrite Hp; auto).
  apply map_ext. intros r. apply pl_compose. rewrite Hp; auto.
Qed.

Lemma pm_inverse : forall A (d : A) n (m : list (list A)) p q, wf n m -> is_perm n p -> is_perm n q ->
  (forall j, j < n -> nth (nth j q 0) p 0 = j) -> pm d (pm d m p) q = m.
Proof.
  intros A d n m p q W Hp Hq H. pose proof Hp as [P1 _]. pose proof Hq as [_ [_ Q3]].
  rewrite (@pm_compose A d n) by auto. rewrite (pl_inv_id Hp Hq H). apply pm_id; auto.
Qed.

(* ---------- Python-level index tensors ---------- *)
Lemma py_perm_nonneg : forall n p, Forall (fun i => i < n) p -> py_perm n (map Z.of_nat p) = Ok p.
Proof.
  intros n p H. unfold py_perm. induction p; simpl; auto. inversion H; subst. unfold py_index at 1.
  replace ((0 <=? Z.of_nat a)%Z && (Z.of_nat a <? Z.of_nat n)%Z) with true.
  - simpl. rewrite IHp by auto. simpl. rewrite Nat2Z.id. reflexivity.
  - symmetry. apply andb_true_iff. split; [apply Z.leb_le|apply Z.ltb_lt]; lia.
Qed.

(* ---------- strings ---------- *)
Lemma string_length_list : forall s, List.length (list_ascii_of_string s) = String.length s.
Proof. induction s; simpl; auto. Qed.

Lemma string_get_list : forall s k, String.get k s = nth_error (list_ascii_of_string s) k.
Proof. induction s; destruct k; simpl; auto. Qed.

Lemma permute_string_ok : forall s p, Forall (fun i => i < String.length s) p ->
  permute_string s p = Ok (string_of_list_ascii (pl zero (list_ascii_of_string s) p)).
Proof.
  intros. unfold permute_string. rewrite (permute_list_ok zero); auto.
  rewrite string_length_list. auto.
Qed.

(* ---------- statements used by Properties/C32.v and C03.v ---------- *)
Lemma perm_lt : forall n p, is_perm n p -> Forall (fun i => i < n) p.
Proof. intros n p [_ [_ H]]; auto. Qed.

(* nth_error form of "element k of the output is element perm[k] of the input" *)
Lemma pl_nth_error : forall A (d : A) l p k, Forall (fun i => i < length l) p -> k < length p ->
  nth_error (pl d l p) k = nth_error l (nth k p 0).
Proof.
  intros. rewrite Forall_forall in H. assert (nth k p 0 < length l) by (apply H, nth_In; auto).
  rewrite (nth_error_nth' _ d) by (rewrite pl_length; auto).
  rewrite (nth_error_nth' _ d) by auto. rewrite pl_nth; auto.
Qed.

Theorem inverse_undoes_permute_list : forall A n (l : list A) p, length l = n -> is_perm n p ->
  exists q l1 l2, inv_permutation p = Ok q /\ is_perm n q /\
    permute_list l p = Ok l1 /\ permute_list l1 q = Ok l /\
    permute_list l q = Ok l2 /\ permute_list l2 p = Ok l.
Proof.
  intros A n l p Hl Hp. destruct (inv_permutation_spec Hp) as [q [E [Hq [Q1 Q2]]]].
  pose proof Hp as [P1 _]. pose proof Hq as [L1 _].
  destruct l as [|d l'].
  - simpl in Hl. subst n. destruct p; [|discriminate]. destruct q; [|discriminate].
    exists [], [], []. repeat split; auto; try constructor.
  - set (l := d :: l') in *.
    exists q, (pl d l p), (pl d l q). split; auto. split; auto.
    rewrite !(permute_list_ok d) by
      (rewrite ?pl_length, ?Hl, ?P1, ?L1; auto using perm_lt).
    rewrite (pl_inverse d l Hl Hp Hq Q2), (pl_inverse d l Hl Hq Hp Q1). auto.
Qed.

Theorem inverse_undoes_permute_string : forall n s p, String.length s = n -> is_perm n p ->
  exists q s1 s2, inv_permutation p = Ok q /\
    permute_string s p = Ok s1 /\ permute_string s1 q = Ok s /\
    permute_string s q = Ok s2 /\ permute_string s2 p = Ok s.
Proof.
  intros n s p Hs Hp.
  destruct (@inverse_undoes_permute_list ascii n (list_ascii_of_string s) p) as
    [q [l1 [l2 [E [Hq [A1 [A2 [A3 A4]]]]]]]]; auto.
  { rewrite string_length_list; auto. }
  exists q, (string_of_list_ascii l1), (string_of_list_ascii l2). split; auto.
  unfold permute_string. rewrite !list_ascii_of_string_of_list_ascii.
  rewrite A1, A2, A3, A4. simpl. rewrite string_of_list_ascii_of_string. auto.
Qed.

Theorem inverse_undoes_permute_matrix : forall A n (m : list (list A)) p, wf n m -> is_perm n p ->
  exists q m1 m2, inv_permutation p = Ok q /\
    permute_matrix m p = Ok m1 /\ permute_matrix m1 q = Ok m /\
    permute_matrix m q = Ok m2 /\ permute_matrix m2 p = Ok m.
Proof.
  intros A n m p W Hp. destruct (inv_permutation_spec Hp) as [q [E [Hq [Q1 Q2]]]].
  pose proof Hp as [P1 _]. pose proof Hq as [L1 _].
  destruct n.
  - destruct W as [W1 _]. destruct m; [|discriminate]. destruct p; [|discriminate].
    destruct q; [|discriminate]. exists [], [], []. repeat split; auto; try constructor.
  - assert (exists d : A, True) as [d _].
    { destruct W as [W1 W2]. destruct m as [|r m']; [discriminate|]. inversion W2; subst.
      destruct r; [discriminate|]. eauto. }
    exists q, (pm d m p), (pm d m q). split; auto.
    rewrite (permute_matrix_ok d W (perm_lt Hp)).
    rewrite (permute_matrix_ok d (pm_wf d m p P1) (perm_lt Hq)).
    rewrite (permute_matrix_ok d W (perm_lt Hq)).
    rewrite (permute_matrix_ok d (pm_wf d m q L1) (perm_lt Hp)).
    rewrite (pm_inverse d W Hp Hq Q2), (pm_inverse d W Hq Hp Q1). auto.
Qed.

(* every helper puts at position k what was at position perm[k] *)
Theorem helpers_move_same_elements : forall A (d : A) n (l : list A) (s : string) (m : list (list A)) p,
  length l = n -> String.length s = n -> wf n m -> is_perm n p ->
  exists l' s' m' q,
    permute_list l p = Ok l' /\ permute_tuple l p = Ok l' /\ permute_vector l p = Ok l' /\
    permute_string s p = Ok s' /\ permute_matrix m p = Ok m' /\ inv_permutation p = Ok q /\
    length l' = n /\ String.length s' = n /\ wf n m' /\ is_perm n q /\
    forall k, k < n ->
      nth_error l' k = nth_error l (nth k p 0) /\
      String.get k s' = String.get (nth k p 0) s /\
      nth (nth k p 0) q 0 = k /\
      forall k2, k2 < n -> nth k2 (nth k m' []) d = nth (nth k2 p 0) (nth (nth k p 0) m []) d.
Proof.
  intros A d n l s m p Hl Hs W Hp. destruct (inv_permutation_spec Hp) as [q [E [Hq [Q1 Q2]]]].
  pose proof Hp as [P1 _]. pose proof (perm_lt Hp) as PF.
  exists (pl d l p), (string_of_list_ascii (pl zero (list_ascii_of_string s) p)), (pm d m p), q.
  unfold permute_tuple, permute_vector.
  rewrite (permute_list_ok d) by (rewrite Hl; auto).
  rewrite permute_string_ok by (rewrite Hs; auto).
  rewrite (permute_matrix_ok d W PF). rewrite E.
  repeat (split; [reflexivity|]).
  split; [rewrite pl_length; auto|].
  split; [rewrite <- string_length_list, list_ascii_of_string_of_list_ascii, pl_length; auto|].
  split; [apply pm_wf; auto|]. split; [exact Hq|].
  intros k Hk. split; [|split; [|split]].
  - apply pl_nth_error; rewrite ?Hl, ?P1; auto.
  - rewrite !string_get_list, list_ascii_of_string_of_list_ascii.
    apply pl_nth_error; rewrite ?string_length_list, ?Hs, ?P1; auto.
  - auto.
  - intros k2 Hk2. apply pm_entry; lia.
Qed.

(* composition law: permuting by p then by q = permuting once by permute(p, q) *)
Theorem helpers_compose : forall A n (l : list A) (m : list (list A)) p q,
  length l = n -> wf n m -> is_perm n p -> is_perm n q ->
  exists pq l1 m1, permute_vector p q = Ok pq /\ is_perm n pq /\
    permute_list l p = Ok l1 /\ permute_list l1 q = permute_list l pq /\
    permute_matrix m p = Ok m1 /\ permute_matrix m1 q = permute_matrix m pq.
Proof.
  intros A n l m p q Hl W Hp Hq. pose proof Hp as [P1 _]. pose proof Hq as [L1 _].
  pose proof (is_perm_compose Hp Hq) as Hpq.
  destruct n.
  - destruct W as [W1 _]. destruct m; [|discriminate]. destruct p; [|discriminate].
    destruct q; [|discriminate]. destruct l; [|discriminate].
    exists [], [], []. repeat split; auto; try constructor.
  - assert (exists d : A, True) as [d _]. { destruct l; [discriminate|eauto]. }
    exists (pl 0 p q), (pl d l p), (pm d m p). unfold permute_vector.
    rewrite (permute_list_ok 0) by (rewrite P1; auto using perm_lt).
    rewrite !(permute_list_ok d) by (rewrite ?pl_length, ?Hl, ?P1; auto using perm_lt).
    rewrite (permute_matrix_ok d W (perm_lt Hp)).
    rewrite (permute_matrix_ok d (pm_wf d m p P1) (perm_lt Hq)).
    rewrite (permute_matrix_ok d W (perm_lt Hpq)).
    rewrite pl_compose by (rewrite P1; auto using perm_lt).
    rewrite (@pm_compose A d (S n)) by auto using perm_lt.
    split; [reflexivity|]. split; [exact Hpq|]. repeat split; auto.
Qed.
